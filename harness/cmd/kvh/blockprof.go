package main

// The `blocking` profile (C18, composition level): the real BlockingLog (OpenBlocking /
// WrapBlocking around the real log) with any number of waiters in ConsumeBlocking /
// ConsumeByKeyBlocking, and publishes, deletes, cancellations and Close issued one at a time.
// After every event the harness waits for quiescence and reports which waiters returned
// (with their results, judged as Consume / ConsumeByKey results at that moment) and which
// are still blocked. The fine-grained interleavings inside the notifier are the `notify`
// profile; this one ties the wrapper (Wait-then-read, Publish-then-Set, Close) to the model.

import (
	"bufio"
	"context"
	"encoding/hex"
	"errors"
	"fmt"
	"os"
	"strings"
	"sync"
	"sync/atomic"
	"time"

	"github.com/klev-dev/klevdb"
	"github.com/klev-dev/klevdb/pkg/notify"
)

type bwaiter struct {
	lhs    string // cons <off> <max> | cbk <key> <off> <max>
	off    int64
	cancel context.CancelFunc
	mu     sync.Mutex
	res    string // "" while blocked
	gid    int64  // goroutine id of the call
	told   bool   // result already reported
	canc   bool
}

func (b *bwaiter) result() string {
	b.mu.Lock()
	defer b.mu.Unlock()
	return b.res
}

func blockingErr(err error) string {
	if errors.Is(err, notify.ErrOffsetNotifyClosed) {
		return "err notifyclosed"
	}
	return "err " + classify(err)
}

type blockCtx struct {
	w       *bufio.Writer
	blk     klevdb.BlockingLog
	waiters []*bwaiter
	next    int64 // NextOffset as the harness knows it (only used to decide how long to wait)
	closed  bool
}

func (c *blockCtx) spawn(lhs string, off int64, call func(ctx context.Context) (int64, []klevdb.Message, error)) {
	ctx, cancel := context.WithCancel(context.Background())
	bw := &bwaiter{lhs: lhs, off: off, cancel: cancel}
	c.waiters = append(c.waiters, bw)
	go func() {
		res := "err panic"
		defer func() {
			_ = recover()
			bw.mu.Lock()
			bw.res = res
			bw.mu.Unlock()
		}()
		bw.mu.Lock()
		bw.gid = goid()
		bw.mu.Unlock()
		nxt, ms, err := call(ctx)
		if err != nil {
			res = blockingErr(err)
		} else {
			res = fmt.Sprintf("ok %d %s", nxt, fmtMsgs(ms))
		}
	}()
}

// settle waits until no waiter changed for a while. A waiter that should have returned by the
// plain reading of the property (offset passed, cancelled, closed) is given up to 3 s before
// it is reported as blocked; the judgement itself is the driver's.
func (c *blockCtx) settle() {
	deadline := time.Now().Add(3 * time.Second)
	hard := time.Now().Add(10 * time.Second)
	stable := 0
	last := ""
	for stable < 8 {
		time.Sleep(120 * time.Microsecond)
		var sb strings.Builder
		due := false
		for _, bw := range c.waiters {
			r := bw.result()
			if r == "" {
				sb.WriteByte('b')
				if bw.off < c.next || bw.canc || c.closed {
					due = true
				}
			} else {
				sb.WriteByte('d')
			}
		}
		cur := sb.String()
		if cur == last && !(due && time.Now().Before(deadline)) {
			stable++
		} else if cur != last {
			stable = 0
		}
		last = cur
		if stable >= 8 && time.Now().Before(hard) {
			// unchanged for a millisecond is not yet "still blocked": on a loaded machine a woken call may only be
			// waiting for a CPU, or be in the middle of its read. The runtime knows: a call counts as blocked when its
			// goroutine waits on a channel, a select or a lock.
			states := goStates()
			for _, bw := range c.waiters {
				bw.mu.Lock()
				r, gid := bw.res, bw.gid
				bw.mu.Unlock()
				if r == "" && !reallyBlocked(states[gid]) {
					if os.Getenv("KVH_DEBUG") != "" {
						fmt.Fprintf(os.Stderr, "settle: gid=%d state=%q\n", gid, states[gid])
					}
					stable = 0
					break
				}
			}
		}
	}
}

func (c *blockCtx) report() {
	c.settle()
	var st []string
	for i, bw := range c.waiters {
		r := bw.result()
		if r != "" && !bw.told {
			bw.told = true
			fmt.Fprintf(c.w, "bl.ret %d %s => %s\n", i, bw.lhs, r)
		}
		if r == "" {
			st = append(st, fmt.Sprintf("%d:blocked", i))
		} else {
			st = append(st, fmt.Sprintf("%d:done", i))
		}
	}
	if len(st) == 0 {
		st = []string{"-"}
	}
	fmt.Fprintf(c.w, "bl.status => ok %s\n", strings.Join(st, " "))
}

func genBlocking(w *bufio.Writer, root string, seed uint64, n, ops int) {
	r := &rng{s: seed}
	if ops < 6 {
		ops = 20
	}
	keys := []string{"", hexKey("a"), hexKey("b")}
	for h := 0; h < n; h++ {
		run := NewRunner(fmt.Sprintf("%s/b%d", root, h))
		run.Reset()
		fmt.Fprintf(w, "# hist %d seed=%d flavor=blocking\n", h, seed)
		exec := func(line string) string {
			lhs, res, ok := execWithDeadline(run, line)
			fmt.Fprintf(w, "%s => %s\n", lhs, res)
			if !ok {
				// the call never returned (e.g. a Publish stuck in its notification): leave, goroutines leak
				w.Flush()
				os.Exit(0)
			}
			return res
		}
		roll := r.pick([]int64{100, 200, 400, 1 << 20})
		openLine := fmt.Sprintf("open ro=0 keys=1 times=%d as=0 roll=%d chk=0 rec=0 nsv=2 keep=0 eager=0", r.intn(2), roll)
		t := int64(1_000_000)
		c := &blockCtx{w: w}
		pubLine := func(nm int) string {
			var sb strings.Builder
			fmt.Fprintf(&sb, "pub %d", nm)
			for i := 0; i < nm; i++ {
				t += int64(r.intn(3))
				fmt.Fprintf(&sb, " %d:%s:%s", t, keys[r.intn(len(keys))], hex.EncodeToString(randBytes(r, r.intn(16))))
			}
			return sb.String()
		}
		doPub := func(nm int) {
			res := exec(pubLine(nm))
			if strings.HasPrefix(res, "ok ") {
				c.next = atoi(strings.Fields(res)[1])
			}
		}
		if exec(openLine) != "ok" {
			continue
		}
		// some content before the notifier is created (it starts at NextOffset), possibly reopened
		for i := r.intn(4); i > 0; i-- {
			doPub(1 + r.intn(3))
		}
		if r.chance(30) {
			exec("close")
			if exec(openLine) != "ok" {
				continue
			}
		}
		blk, err := klevdb.WrapBlocking(run.main.log)
		if err != nil {
			fmt.Fprintf(w, "bl.wrap => %s\n", errRes(err))
			continue
		}
		run.main.log = blk
		c.blk = blk
		fmt.Fprintf(w, "bl.wrap => ok %d\n", c.next)

		spawnWait := func() {
			var off int64
			switch r.intn(10) {
			case 0:
				off = klevdb.OffsetOldest
			case 1:
				off = klevdb.OffsetNewest
			case 2, 3:
				if c.next > 0 {
					off = int64(r.intn(int(c.next)))
				} else {
					off = c.next
				}
			case 4, 5, 6:
				off = c.next
			case 7, 8:
				off = c.next + 1 + int64(r.intn(3))
			default:
				off = c.next + 6
			}
			max := int64(1 + r.intn(4))
			i := len(c.waiters)
			if r.chance(35) {
				k := keys[r.intn(len(keys))]
				lhs := fmt.Sprintf("cbk %s %d %d", dash(k), off, max)
				kb := unhex(k)
				fmt.Fprintf(w, "bl.wait %d %s => ok\n", i, lhs)
				c.spawn(lhs, off, func(ctx context.Context) (int64, []klevdb.Message, error) {
					return blk.ConsumeByKeyBlocking(ctx, kb, off, max)
				})
			} else {
				lhs := fmt.Sprintf("cons %d %d", off, max)
				fmt.Fprintf(w, "bl.wait %d %s => ok\n", i, lhs)
				c.spawn(lhs, off, func(ctx context.Context) (int64, []klevdb.Message, error) {
					return blk.ConsumeBlocking(ctx, off, max)
				})
			}
		}

		// in some histories: once, a long quiet period (a waiter must stay parked however long nothing happens;
		// a timed re-probe would show only after its period)
		quietAt := -1
		if r.chance(20) {
			quietAt = ops/2 + r.intn(ops/2)
		}
		for step := 0; step < ops; step++ {
			if step == quietAt {
				blockedNow := false
				for _, bw := range c.waiters {
					if bw.result() == "" {
						blockedNow = true
					}
				}
				if blockedNow {
					time.Sleep(1200 * time.Millisecond)
					fmt.Fprintf(w, "bl.quiet 1200 => ok\n")
					c.report()
				}
			}
			switch x := r.intn(20); {
			case x < 8 && len(c.waiters) < 8:
				spawnWait()
			case x < 13:
				nm := 1 + r.intn(3)
				if r.chance(12) {
					nm = 0 // an empty publish still notifies
				}
				doPub(nm)
			case x < 15 && len(c.waiters) > 0:
				i := r.intn(len(c.waiters))
				c.waiters[i].canc = true
				c.waiters[i].cancel()
				fmt.Fprintf(w, "bl.cancel %d => ok\n", i)
			case x < 17 && c.next > 0:
				// deletes, reads and GC never wake anybody
				exec(fmt.Sprintf("del %d", r.intn(int(c.next))))
			case x < 18:
				exec(fmt.Sprintf("cons %d 3", c.next))
			case x < 19:
				exec("gc")
			default:
				exec("next")
			}
			c.report()
		}
		// Close wakes everybody; waits that start afterwards at or beyond NextOffset fail
		if r.chance(70) {
			c.closed = true
			exec("close")
			c.report()
			for i := 0; i < 2; i++ {
				spawnWait()
				c.report()
			}
		} else {
			for _, bw := range c.waiters {
				bw.canc = true
				bw.cancel()
			}
			c.settle()
			exec("close")
		}
		for _, bw := range c.waiters {
			bw.cancel()
		}
		c.settle()
		run.main.log = nil
		run.Reset()
	}
}

// The `bstorm` profile (C18, free-running part): waiters, publishers and cancellations run at
// the same time on the real BlockingLog with no control over the schedule; what every waiter
// returned is recorded together with the phase in which it returned: while publishers were
// running, after everything had settled, or after Close.
func genBlockStorm(w *bufio.Writer, root string, seed uint64, n, ops int) {
	master := &rng{s: seed}
	if ops < 4 {
		ops = 20
	}
	for h := 0; h < n; h++ {
		r := &rng{s: master.next()}
		dir := fmt.Sprintf("%s/bs%d", root, h)
		fmt.Fprintf(w, "# hist %d seed=%d flavor=bstorm\n", h, seed)
		blk, err := klevdb.OpenBlocking(dir, klevdb.Options{CreateDirs: true, KeyIndex: true, Rollover: r.pick([]int64{200, 1000, 1 << 20})})
		if err != nil {
			fmt.Fprintf(w, "bs.open => %s\n", errRes(err))
			continue
		}
		// some content first
		pre := r.intn(4)
		var next int64
		var preLines []string
		for i := 0; i < pre; i++ {
			m := []klevdb.Message{{Key: []byte("p"), Value: []byte{byte(i)}, Time: time.UnixMicro(int64(1000 + i)).UTC()}}
			next, _ = blk.Publish(m)
			preLines = append(preLines, fmt.Sprintf("bs.pub %s => ok %d", fmtMsg(m[0]), next))
		}
		fmt.Fprintf(w, "bs.open pre=%d => ok %d\n", pre, next)
		for _, l := range preLines {
			fmt.Fprintln(w, l)
		}
		nPub := 1 + r.intn(3)
		perPub := 1 + r.intn(ops)
		total := next + int64(nPub*perPub)
		type wt struct {
			off, max int64
			key      []byte
			cancel   context.CancelFunc
			mu       sync.Mutex
			res      string
			phase    string
			canc     bool
		}
		var phase atomic.Value
		phase.Store("running")
		nW := 2 + r.intn(7)
		ws := make([]*wt, nW)
		var wg sync.WaitGroup
		for i := range ws {
			x := &wt{max: int64(1 + r.intn(4))}
			switch r.intn(6) {
			case 0:
				x.off = klevdb.OffsetOldest
			case 1:
				x.off = int64(r.intn(int(next) + 1))
			case 2, 3:
				x.off = next + int64(r.intn(int(total-next)+1))
			case 4:
				x.off = total // only Close or a cancellation ends this one
			default:
				x.off = total + 1 + int64(r.intn(3))
			}
			if r.chance(30) {
				x.key = []byte("k")
			}
			ws[i] = x
			ctx, cancel := context.WithCancel(context.Background())
			x.cancel = cancel
			wg.Add(1)
			go func() {
				defer wg.Done()
				var nxt int64
				var ms []klevdb.Message
				var err error
				if x.key != nil {
					nxt, ms, err = blk.ConsumeByKeyBlocking(ctx, x.key, x.off, x.max)
				} else {
					nxt, ms, err = blk.ConsumeBlocking(ctx, x.off, x.max)
				}
				res := ""
				if err != nil {
					res = blockingErr(err)
				} else {
					res = fmt.Sprintf("ok %d %s", nxt, fmtMsgs(ms))
				}
				x.mu.Lock()
				x.res, x.phase = res, phase.Load().(string)
				x.mu.Unlock()
			}()
		}
		// publishers
		var pubMu sync.Mutex
		var pubLines []string
		var pwg sync.WaitGroup
		var tclock atomic.Int64
		tclock.Store(2000)
		for p := 0; p < nPub; p++ {
			pr := &rng{s: r.next()}
			pwg.Add(1)
			go func() {
				defer pwg.Done()
				for i := 0; i < perPub; i++ {
					key := "j"
					if pr.chance(40) {
						key = "k"
					}
					m := []klevdb.Message{{Key: []byte(key), Value: randBytes(pr, 1+pr.intn(12)), Time: time.UnixMicro(tclock.Add(1)).UTC()}}
					nx, err := blk.Publish(m)
					line := ""
					if err != nil {
						line = fmt.Sprintf("bs.pub => %s", errRes(err))
					} else {
						line = fmt.Sprintf("bs.pub %s => ok %d", fmtMsg(m[0]), nx)
					}
					pubMu.Lock()
					pubLines = append(pubLines, line)
					pubMu.Unlock()
					if pr.chance(30) {
						time.Sleep(time.Duration(pr.intn(200)) * time.Microsecond)
					}
				}
			}()
		}
		// a cancellation or two while things run
		for i := 0; i < r.intn(3); i++ {
			x := ws[r.intn(len(ws))]
			x.mu.Lock()
			x.canc = true
			x.mu.Unlock()
			x.cancel()
		}
		pdone := make(chan struct{})
		go func() { pwg.Wait(); close(pdone) }()
		select {
		case <-pdone:
		case <-time.After(20 * time.Second):
			// a Publish that never returns (it writes the log and then notifies): a finding, and the end of this process
			pubMu.Lock()
			for _, l := range pubLines {
				fmt.Fprintln(w, l)
			}
			pubMu.Unlock()
			fmt.Fprintf(w, "bs.pub => err hang\n")
			w.Flush()
			os.Exit(0)
		}
		// settle: every waiter whose offset was passed has to come back by itself (up to 3 s each before it is reported)
		deadline := time.Now().Add(3 * time.Second)
		for time.Now().Before(deadline) {
			due := false
			for _, x := range ws {
				x.mu.Lock()
				if x.res == "" && (x.off < total || x.canc) {
					due = true
				}
				x.mu.Unlock()
			}
			if !due {
				break
			}
			time.Sleep(200 * time.Microsecond)
		}
		time.Sleep(2 * time.Millisecond)
		phase.Store("settled")
		var st []string
		for i, x := range ws {
			x.mu.Lock()
			if x.res == "" {
				st = append(st, fmt.Sprintf("%d:blocked", i))
			} else {
				st = append(st, fmt.Sprintf("%d:done", i))
			}
			x.mu.Unlock()
		}
		phase.Store("closed")
		var cerr error
		closed := make(chan struct{})
		go func() { cerr = blk.Close(); close(closed) }()
		select {
		case <-closed:
		case <-time.After(10 * time.Second):
			// Close itself does not come back: nothing more can be learnt from this process
			for _, l := range pubLines {
				fmt.Fprintln(w, l)
			}
			fmt.Fprintf(w, "bs.settled total=%d => ok %s\n", total, strings.Join(st, " "))
			fmt.Fprintf(w, "bs.close hung=1 => err hang\n")
			w.Flush()
			os.Exit(0)
		}
		done := make(chan struct{})
		go func() { wg.Wait(); close(done) }()
		hung := false
		select {
		case <-done:
		case <-time.After(5 * time.Second):
			hung = true
		}
		for _, l := range pubLines {
			fmt.Fprintln(w, l)
		}
		fmt.Fprintf(w, "bs.settled total=%d => ok %s\n", total, strings.Join(st, " "))
		for i, x := range ws {
			x.mu.Lock()
			res, ph := x.res, x.phase
			if res == "" {
				res, ph = "blocked", "never"
			}
			kind := "cons"
			if x.key != nil {
				kind = "cbk"
			}
			fmt.Fprintf(w, "bs.ret %d %s off=%d max=%d canc=%d phase=%s => %s\n", i, kind, x.off, x.max, b2i(x.canc), ph, res)
			x.mu.Unlock()
		}
		fmt.Fprintf(w, "bs.close hung=%d => %s\n", b2i(hung), func() string {
			if cerr != nil {
				return errRes(cerr)
			}
			return "ok"
		}())
		for _, x := range ws {
			x.cancel()
		}
		_ = os.RemoveAll(dir)
	}
}
