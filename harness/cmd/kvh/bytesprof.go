package main

// The `fmt` and `damage` profiles: byte-level correspondence of the record and index
// formats (C13) and of Segment.Check / Segment.Recover on damaged files (C07).

import (
	"bufio"
	"encoding/hex"
	"fmt"
	"math"
	"os"
	"path/filepath"
	"strconv"
	"strings"
	"time"

	"github.com/klev-dev/klevdb"
	"github.com/klev-dev/klevdb/pkg/index"
	"github.com/klev-dev/klevdb/pkg/message"
	"github.com/klev-dev/klevdb/pkg/segment"
)

func hexOrDash(b []byte) string {
	if len(b) == 0 {
		return "-"
	}
	return hex.EncodeToString(b)
}

func unhexDash(s string) []byte {
	if s == "-" {
		return nil
	}
	b, _ := hex.DecodeString(s)
	return b
}

func randBytes(r *rng, n int) []byte {
	b := make([]byte, n)
	for i := range b {
		b[i] = byte(r.next())
	}
	return b
}

func randTimeMicro(r *rng) int64 {
	switch r.intn(8) {
	case 0:
		return math.MinInt64 + int64(r.intn(3))
	case 1:
		return math.MaxInt64 - int64(r.intn(3))
	case 2:
		return -int64(r.next() >> 10)
	case 3:
		return 0
	case 4:
		return int64(r.intn(5)) - 2
	default:
		return int64(r.next() >> uint(1+r.intn(40)))
	}
}

func randLen(r *rng) int {
	switch r.intn(10) {
	case 0:
		return 0
	case 1:
		return 1
	case 2:
		return 255 + r.intn(3)
	default:
		return r.intn(301)
	}
}

func randMsg(r *rng, off int64, small bool) klevdb.Message {
	kl, vl := randLen(r), randLen(r)
	if small {
		kl, vl = r.intn(9), r.intn(13)
	}
	var k, v []byte
	if kl > 0 {
		k = randBytes(r, kl)
	}
	if vl > 0 {
		v = randBytes(r, vl)
	}
	return klevdb.Message{Offset: off, Time: time.UnixMicro(randTimeMicro(r)).UTC(), Key: k, Value: v}
}

func mver(v int) message.Version {
	if v == 1 {
		return message.V1
	}
	return message.V2
}

func iver(v int) index.Version {
	if v == 1 {
		return index.V1
	}
	return index.V2
}

func sameMsg(a, b message.Message) bool {
	return a.Offset == b.Offset && a.Time.UnixMicro() == b.Time.UnixMicro() &&
		string(a.Key) == string(b.Key) && string(a.Value) == string(b.Value)
}

// wlog: write messages with the real writer, read them back with both reader kinds.
func execWlog(dir string, v int, base int64, msgs []message.Message) string {
	path := filepath.Join(dir, fmt.Sprintf("%020d.log", base))
	_ = os.Remove(path)
	w, err := message.OpenWriter(path, base, mver(v))
	if err != nil {
		return errRes(err)
	}
	var positions []string
	var total int64
	for _, m := range msgs {
		pos, err := w.Write(m)
		if err != nil {
			return errRes(err)
		}
		positions = append(positions, strconv.FormatInt(pos, 10))
		total += message.Size(m, mver(v))
	}
	size := w.Size()
	if err := w.SyncAndClose(); err != nil {
		return errRes(err)
	}
	data, _ := os.ReadFile(path)
	note := ""
	if int64(len(data)) != size {
		note = " size-mismatch"
	}
	for _, open := range []func(string, int64) (*message.Reader, error){message.OpenReader, message.OpenReaderMem} {
		if len(data) == 0 {
			break // mmap of an empty file is not supported by the library; nothing to read
		}
		rd, err := open(path, base)
		if err != nil {
			note += " readback-open-" + classify(err)
			continue
		}
		for i, m := range msgs {
			pos, _ := strconv.ParseInt(positions[i], 10, 64)
			got, next, err := rd.Read(pos)
			if err != nil || !sameMsg(got, m) || next != pos+message.Size(m, mver(v)) {
				note += " readback-mismatch"
				break
			}
		}
		_ = rd.Close()
	}
	ps := "-"
	if len(positions) > 0 {
		ps = strings.Join(positions, ",")
	}
	return fmt.Sprintf("ok %s %s %d%s", hexOrDash(data), ps, total, note)
}

func fmtItem(it index.Item) string {
	return fmt.Sprintf("%d/%d/%d/%d", it.Offset, it.Position, it.Timestamp, it.KeyHash)
}

func execWidx(dir string, v int, p index.Params, base int64, items []index.Item) string {
	path := filepath.Join(dir, fmt.Sprintf("%020d.index", base))
	_ = os.Remove(path)
	if err := index.Write(path, base, iver(v), p, items); err != nil {
		return errRes(err)
	}
	data, _ := os.ReadFile(path)
	got, err := index.Read(path, base, p)
	note := ""
	if err != nil {
		note = " readback-" + classify(err)
	} else if len(got) != len(items) {
		note = " readback-len"
	} else {
		for i := range got {
			want := items[i]
			if !p.Times {
				want.Timestamp = 0
			}
			if !p.Keys {
				want.KeyHash = 0
			}
			if got[i] != want {
				note = " readback-mismatch"
			}
		}
	}
	return fmt.Sprintf("ok %s%s", hexOrDash(data), note)
}

func parseMsgTok(t string) message.Message {
	// off@time:key:val
	i := strings.IndexByte(t, '@')
	p := strings.Split(t[i+1:], ":")
	return message.Message{Offset: atoi(t[:i]), Time: time.UnixMicro(atoi(p[0])).UTC(), Key: unhex(p[1]), Value: unhex(p[2])}
}

func bparams(t, k string) index.Params { return index.Params{Times: t == "1", Keys: k == "1"} }

func writeSegFiles(dir string, base int64, logb []byte, idx string) segment.Segment {
	_ = os.RemoveAll(dir)
	_ = os.MkdirAll(dir, 0700)
	seg := segment.New(dir, base, false)
	_ = os.WriteFile(seg.Log, logb, 0600)
	if idx != "none" {
		_ = os.WriteFile(seg.Index, unhexDash(idx), 0600)
	}
	return seg
}

func readSegFiles(seg segment.Segment) string {
	lb, _ := os.ReadFile(seg.Log)
	ix := "none"
	if ib, err := os.ReadFile(seg.Index); err == nil {
		ix = hexOrDash(ib)
	}
	extra := ""
	ents, _ := os.ReadDir(seg.Dir)
	for _, e := range ents {
		if p := filepath.Join(seg.Dir, e.Name()); p != seg.Log && p != seg.Index && e.Name() != ".lock" {
			extra += " extra:" + e.Name()
		}
	}
	return hexOrDash(lb) + " " + ix + extra
}

// ExecBytes handles the byte-level ops (no open log involved).
func (r *Runner) ExecBytes(line string) (string, bool) {
	toks := strings.Fields(line)
	dir := filepath.Join(r.root, "bytes")
	_ = os.MkdirAll(dir, 0700)
	switch toks[0] {
	case "wlog": // wlog v base n msgs…
		v := int(atoi(toks[1]))
		var msgs []message.Message
		for _, t := range toks[4:] {
			msgs = append(msgs, parseMsgTok(t))
		}
		return execWlog(dir, v, atoi(toks[2]), msgs), true
	case "widx": // widx v times keys base n items…
		var items []index.Item
		for _, t := range toks[6:] {
			p := strings.Split(t, "/")
			kh, _ := strconv.ParseUint(p[3], 10, 64)
			items = append(items, index.Item{Offset: atoi(p[0]), Position: atoi(p[1]), Timestamp: atoi(p[2]), KeyHash: kh})
		}
		return execWidx(dir, int(atoi(toks[1])), bparams(toks[2], toks[3]), atoi(toks[4]), items), true
	case "segcheck": // segcheck times keys base hexlog hexidx|none
		seg := writeSegFiles(dir, atoi(toks[3]), unhexDash(toks[4]), toks[5])
		if err := seg.Check(bparams(toks[1], toks[2])); err != nil {
			return errRes(err), true
		}
		return "ok", true
	case "segrecover": // segrecover times keys base hexlog hexidx|none [post]
		p := bparams(toks[1], toks[2])
		seg := writeSegFiles(dir, atoi(toks[3]), unhexDash(toks[4]), toks[5])
		if err := seg.Recover(p); err != nil {
			return errRes(err), true
		}
		res := "ok " + readSegFiles(seg)
		// Check succeeds after Recover …
		if err := seg.Check(p); err != nil {
			res += " check=" + classify(err)
		} else {
			res += " check=ok"
		}
		// … and keeps succeeding after further appends through the API
		if len(toks) > 6 && toks[6] == "post" {
			l, err := klevdb.Open(dir, klevdb.Options{TimeIndex: p.Times, KeyIndex: p.Keys, Check: true})
			if err != nil {
				return res + " post=open-" + classify(err), true
			}
			_, err = l.Publish([]klevdb.Message{{Key: []byte("k"), Value: []byte("v"), Time: time.UnixMicro(math.MaxInt64 / 2)}, {Key: nil, Value: nil, Time: time.UnixMicro(math.MaxInt64 / 2)}})
			if err != nil {
				_ = l.Close()
				return res + " post=pub-" + classify(err), true
			}
			if err := l.Close(); err != nil {
				return res + " post=close-" + classify(err), true
			}
			if err := klevdb.Check(dir, klevdb.Options{TimeIndex: p.Times, KeyIndex: p.Keys}); err != nil {
				return res + " post=" + classify(err), true
			}
			res += " post=ok"
		}
		return res, true
	}
	return "", false
}

// ---------------------------------------------------------------- generators

func genFmt(w *bufio.Writer, run *Runner, seed uint64, n int) {
	r := &rng{s: seed}
	emit := func(line string) {
		res, _ := run.ExecBytes(line)
		fmt.Fprintf(w, "%s => %s\n", line, res)
	}
	fmt.Fprintf(w, "# hist 0 seed=%d flavor=fmt\n", seed)
	for i := 0; i < n; i++ {
		v := 1 + r.intn(2)
		k := r.intn(5)
		if r.chance(5) {
			k = 0
		}
		var base int64
		switch r.intn(4) {
		case 0:
			base = 0
		case 1:
			base = int64(r.next() >> 1)
		default:
			base = int64(r.intn(1000))
		}
		var sb strings.Builder
		fmt.Fprintf(&sb, "wlog %d %d %d", v, base, k)
		off := base
		for j := 0; j < k; j++ {
			m := randMsg(r, off, false)
			if r.chance(2) { // a few large ones
				m.Value = randBytes(r, 20000+r.intn(50000))
			}
			if r.chance(10) { // any offset, also negative: the codec stores what it is given
				m.Offset = int64(r.next())
			}
			if j == 0 && v == 1 {
				m.Offset = base // V1 files are recognised by their first record's offset
			}
			fmt.Fprintf(&sb, " %s", fmtMsg(m))
			off = m.Offset + 1
		}
		emit(sb.String())
		// index file
		iv := 1 + r.intn(2)
		ti, ke := r.intn(2), r.intn(2)
		ni := r.intn(5)
		var ib strings.Builder
		fmt.Fprintf(&ib, "widx %d %d %d %d %d", iv, ti, ke, base, ni)
		for j := 0; j < ni; j++ {
			it := index.Item{Offset: base + int64(j), Position: int64(r.next() >> uint(1+r.intn(50))), Timestamp: randTimeMicro(r), KeyHash: r.next()}
			if r.chance(10) {
				it.Position = -int64(r.intn(5))
			}
			fmt.Fprintf(&ib, " %s", fmtItem(it))
		}
		emit(ib.String())
	}
}

// buildSegment writes messages through the real writers and returns the files' bytes.
func buildSegment(dir string, base int64, v int, p index.Params, msgs []message.Message) ([]byte, []byte) {
	_ = os.RemoveAll(dir)
	_ = os.MkdirAll(dir, 0700)
	seg := segment.New(dir, base, false)
	lw, _ := message.OpenWriter(seg.Log, base, mver(v))
	iw, _ := index.OpenWriter(seg.Index, base, iver(v), p)
	var ts int64
	for _, m := range msgs {
		pos, _ := lw.Write(m)
		it := p.NewItem(m, pos, ts)
		_ = iw.Write(it)
		ts = it.Timestamp
	}
	_ = lw.SyncAndClose()
	_ = iw.SyncAndClose()
	lb, _ := os.ReadFile(seg.Log)
	ib, _ := os.ReadFile(seg.Index)
	return lb, ib
}

func genDamage(w *bufio.Writer, run *Runner, seed uint64, n int, thorough bool) {
	r := &rng{s: seed}
	lineNo := 0
	emit := func(line string) {
		res, _ := run.ExecBytes(line)
		fmt.Fprintf(w, "%s => %s\n", line, res)
		lineNo++
	}
	dir := filepath.Join(run.root, "build")
	for c := 0; c < n; c++ {
		fmt.Fprintf(w, "# hist %d seed=%d flavor=damage\n", c, seed)
		v := 2
		if r.chance(25) {
			v = 1
		}
		p := index.Params{Times: r.intn(2) == 1, Keys: r.intn(2) == 1}
		base := int64(r.intn(50))
		k := 1 + r.intn(6)
		var msgs []message.Message
		t := int64(1_000_000)
		mono := r.chance(50)
		for j := 0; j < k; j++ {
			m := randMsg(r, base+int64(j), true)
			if mono {
				t += int64(r.intn(3))
			} else {
				// any order: the index carries the running maximum, from 0, in every producer
				t = int64(1_000_000) + int64(r.intn(30)) - 10
				if r.chance(15) {
					t = -int64(r.intn(5))
				}
			}
			m.Time = time.UnixMicro(t).UTC()
			msgs = append(msgs, m)
		}
		lb, ib := buildSegment(dir, base, v, p, msgs)
		b := func(x bool) string {
			if x {
				return "1"
			}
			return "0"
		}
		pre := fmt.Sprintf("%s %s %d", b(p.Times), b(p.Keys), base)
		op := func(kind string, lg []byte, ix string, post bool) {
			line := fmt.Sprintf("%s %s %s %s", kind, pre, hexOrDash(lg), ix)
			if post {
				line += " post"
			}
			emit(line)
		}
		both := func(lg []byte, ix string) {
			op("segcheck", lg, ix, false)
			op("segrecover", lg, ix, r.chance(8))
		}
		ixs := hexOrDash(ib)
		hdr := 0
		if v == 2 {
			hdr = 8
		}
		// undamaged: Recover is a byte-for-byte no-op, Check passes
		both(lb, ixs)
		both(lb, "none")
		// every truncation length (0, or at/after the file header)
		for cut := 0; cut < len(lb); cut++ {
			if cut != 0 && cut < hdr {
				continue
			}
			if !thorough && len(lb) > 120 && cut%3 != 0 && r.chance(50) {
				continue
			}
			ix := ixs
			if r.chance(20) {
				ix = "none"
			}
			both(lb[:cut], ix)
		}
		if v == 2 {
			// every single-byte corruption position after the file header
			nvals := 2
			if thorough {
				nvals = 8
			}
			for pos := hdr; pos < len(lb); pos++ {
				for q := 0; q < nvals; q++ {
					d := append([]byte(nil), lb...)
					x := byte(r.next())
					if q == 0 {
						x = d[pos] ^ (1 << uint(r.intn(8))) // a single bit
					}
					if x == d[pos] {
						x ^= 0xFF
					}
					d[pos] = x
					both(d, ixs)
				}
			}
			if thorough { // every single-bit flip
				for pos := hdr; pos < len(lb); pos++ {
					for bit := 0; bit < 8; bit++ {
						d := append([]byte(nil), lb...)
						d[pos] ^= 1 << uint(bit)
						op("segrecover", d, ixs, false)
					}
				}
			}
			// zero / 0xFF / random tails of every length up to two records
			maxTail := 2 * (36 + 8 + 12)
			for tl := 1; tl <= maxTail; tl++ {
				if !thorough && tl > 40 && tl%5 != 0 {
					continue
				}
				for kind := 0; kind < 3; kind++ {
					tail := make([]byte, tl)
					switch kind {
					case 1:
						for i := range tail {
							tail[i] = 0xFF
						}
					case 2:
						tail = randBytes(r, tl)
					}
					both(append(append([]byte(nil), lb...), tail...), ixs)
				}
			}
		}
		// index damage: truncated at every length, any byte changed, extra items
		for cut := 0; cut < len(ib); cut++ {
			both(lb, hexOrDash(ib[:cut]))
		}
		for pos := 0; pos < len(ib); pos++ {
			d := append([]byte(nil), ib...)
			d[pos] ^= byte(1 + r.intn(255))
			both(lb, hexOrDash(d))
		}
		isz := int(p.Size())
		both(lb, hexOrDash(append(append([]byte(nil), ib...), randBytes(r, isz)...)))
		both(lb, hexOrDash(append(append([]byte(nil), ib...), make([]byte, isz*2)...)))
		both(lb, hexOrDash(append(append([]byte(nil), ib...), randBytes(r, 1+r.intn(isz-1))...)))
	}
}
