package main

// The `crash` profile (C05, C06): every file-system mutation of every operation of a
// workload is tapped (verifhook.FS); after each of them the directory is snapshotted — a
// crash image — and for every append also the torn variants. Every image is opened with the
// real Open(Recover) and fully observed. For C06 the tap also tracks the fsynced length of
// every file; power-loss images cut files back to anything between that and their length.

import (
	"bufio"
	"crypto/sha256"
	"encoding/hex"
	"fmt"
	"os"
	"path/filepath"
	"sort"
	"strings"
	"time"

	"github.com/klev-dev/klevdb"
	"github.com/klev-dev/klevdb/pkg/verifhook"
)

type fsEvent struct {
	kind, path, dest string
	n                int64
	img              string // directory snapshot after this event
	sizeBefore       int64  // for appends: file size before
}

func copyDir(src, dst string) {
	_ = os.MkdirAll(dst, 0700)
	ents, _ := os.ReadDir(src)
	for _, e := range ents {
		if e.IsDir() || e.Name() == ".lock" {
			continue
		}
		b, err := os.ReadFile(filepath.Join(src, e.Name()))
		if err == nil {
			_ = os.WriteFile(filepath.Join(dst, e.Name()), b, 0600)
		}
	}
}

func dirDigest(dir string) string {
	ents, _ := os.ReadDir(dir)
	h := sha256.New()
	var names []string
	for _, e := range ents {
		if !e.IsDir() && e.Name() != ".lock" {
			names = append(names, e.Name())
		}
	}
	sort.Strings(names)
	for _, n := range names {
		b, _ := os.ReadFile(filepath.Join(dir, n))
		fmt.Fprintf(h, "%s:%d:", n, len(b))
		h.Write(b)
	}
	return hex.EncodeToString(h.Sum(nil))[:12]
}

type crashCtx struct {
	root    string
	keys    bool
	times   bool
	imgN    int
	synced  map[string]int64 // base name → fsynced length
	retry   *klevdb.Options  // the operation in flight is an Open with these options: it is retried on the image
	noImg   bool             // tap only tracks fsynced lengths, no snapshots
	nonMono bool             // the times published in this history are not monotone (deleted messages count: the index carries their times)
}

func (c *crashCtx) opts(recover bool) klevdb.Options {
	return klevdb.Options{KeyIndex: c.keys, TimeIndex: c.times, Recover: recover, Rollover: 1 << 20}
}

// observeImage opens a crash image with Recover and reports everything the property asks.
func (c *crashCtx) observeImage(img string) string {
	work := filepath.Join(c.root, "obs")
	_ = os.RemoveAll(work)
	copyDir(img, work)
	res := func() (res string) {
		defer func() {
			if p := recover(); p != nil {
				res = "err panic"
			}
		}()
		l, err := klevdb.Open(work, c.opts(true))
		if err != nil {
			return errRes(err)
		}
		var all []klevdb.Message
		off := klevdb.OffsetOldest
		for i := 0; i < 100000; i++ {
			nxt, ms, err := l.Consume(off, 32)
			if err != nil {
				_ = l.Close()
				return "err scan-" + classify(err)
			}
			if len(ms) == 0 && (nxt == off || off < 0) {
				break
			}
			all = append(all, ms...)
			off = nxt
		}
		next, _ := l.NextOffset()
		views := c.viewsAgree(l, all, next)
		if err := l.Close(); err != nil {
			return "err close-" + classify(err)
		}
		// recovering again changes nothing
		d1 := dirDigest(work)
		again := "same"
		if l2, err := klevdb.Open(work, c.opts(true)); err != nil {
			again = "open-" + classify(err)
		} else {
			_ = l2.Close()
			if dirDigest(work) != d1 {
				again = "diff"
			}
		}
		// it can be appended to and still passes Check
		app := "ok"
		if l3, err := klevdb.Open(work, c.opts(false)); err != nil {
			app = "open-" + classify(err)
		} else {
			n, err := l3.Publish([]klevdb.Message{{Key: []byte("zz"), Value: []byte("after-crash"), Time: time.UnixMicro(9_000_000)}})
			if err != nil {
				app = "pub-" + classify(err)
			} else if n != next+1 {
				app = fmt.Sprintf("next-%d", n)
			}
			if err := l3.Close(); err != nil && app == "ok" {
				app = "close-" + classify(err)
			}
			if err := klevdb.Check(work, c.opts(false)); err != nil && app == "ok" {
				app = "check-" + classify(err)
			}
		}
		return fmt.Sprintf("ok %d %s views=%s again=%s append=%s retry=%s mig=%s", next, fmtMsgs(all), views, again, app, c.retryOpen(img, next, all), c.migrateOpen(img, next, all))
	}()
	return res
}

// retryOpen: the interrupted Open is run again with its own options on the crashed directory
// (that is what a user does). If it succeeds the directory must pass Check and, with every
// index file removed (so the logs themselves are read), hold the same content.
func (c *crashCtx) retryOpen(img string, next int64, all []klevdb.Message) string {
	if c.retry == nil {
		return "-"
	}
	work := filepath.Join(c.root, "retry")
	_ = os.RemoveAll(work)
	copyDir(img, work)
	defer os.RemoveAll(work)
	l, err := klevdb.Open(work, *c.retry)
	if err != nil {
		return "open-" + classify(err) // legitimate on a torn image without Recover
	}
	if err := l.Close(); err != nil {
		return "close-" + classify(err)
	}
	if err := klevdb.Check(work, c.opts(false)); err != nil {
		return "check-" + classify(err)
	}
	ents, _ := os.ReadDir(work)
	for _, e := range ents {
		if strings.HasSuffix(e.Name(), ".index") {
			_ = os.Remove(filepath.Join(work, e.Name()))
		}
	}
	l2, err := klevdb.Open(work, c.opts(false))
	if err != nil {
		return "reopen-" + classify(err)
	}
	defer l2.Close()
	var got []klevdb.Message
	off := klevdb.OffsetOldest
	for i := 0; i < 100000; i++ {
		nxt, ms, err := l2.Consume(off, 32)
		if err != nil {
			return "scan-" + classify(err)
		}
		if len(ms) == 0 && (nxt == off || off < 0) {
			break
		}
		got = append(got, ms...)
		off = nxt
	}
	n2, _ := l2.NextOffset()
	if n2 != next || fmtMsgs(got) != fmtMsgs(all) {
		return "diff"
	}
	return "same"
}

// viewsAgree: Get, key and time lookups and Stat agree with the scan.
func (c *crashCtx) viewsAgree(l klevdb.Log, all []klevdb.Message, next int64) string {
	byOff := map[int64]klevdb.Message{}
	for i, m := range all {
		byOff[m.Offset] = m
		if i > 0 && all[i-1].Offset >= m.Offset {
			return "order"
		}
		if m.Offset >= next {
			return "next"
		}
	}
	lo := int64(0)
	for off := lo; off <= next+1; off++ {
		m, err := l.Get(off)
		want, live := byOff[off]
		switch {
		case live && (err != nil || !sameMsg(m, want)):
			return fmt.Sprintf("get:%d", off)
		case !live && err == nil:
			return fmt.Sprintf("get-extra:%d", off)
		}
	}
	if st, err := l.Stat(); err != nil || st.Messages != len(all) {
		return "stat"
	}
	if c.keys {
		last := map[string]klevdb.Message{}
		for _, m := range all {
			last[string(m.Key)] = m
		}
		for k, want := range last {
			m, err := l.GetByKey([]byte(k))
			if err != nil || !sameMsg(m, want) {
				return "key:" + hex.EncodeToString([]byte(k))
			}
		}
	}
	if c.times && !c.nonMono {
		// (time lookups are promised for histories whose times never decrease with offset - the deleted messages included,
		// whose times the index carries on; the live messages alone being in order is not enough)
		mono := true
		for i := 1; i < len(all); i++ {
			if all[i].Time.Before(all[i-1].Time) {
				mono = false
			}
		}
		if mono {
			for i, want := range all {
				if i > 0 && all[i-1].Time.Equal(want.Time) {
					continue
				}
				m, err := l.GetByTime(want.Time)
				if err != nil || !sameMsg(m, want) {
					return fmt.Sprintf("time:%d", want.Offset)
				}
			}
		}
	}
	return "ok"
}

func baseName(p string) string { return filepath.Base(p) }

func magicLast(path string) byte {
	if strings.Contains(filepath.Base(path), ".index") {
		return 'i'
	}
	return 's'
}

// tapOp runs f with the FS tap installed: a snapshot after every event.
func (c *crashCtx) tapOp(dir string, f func()) []fsEvent {
	var evs []fsEvent
	verifhook.FSHook = func(kind, path string, a, b int64) {
		ev := fsEvent{kind: kind, n: a}
		if i := strings.IndexByte(path, 0); i >= 0 {
			ev.path, ev.dest = path[:i], path[i+1:]
		} else {
			ev.path = path
		}
		if !strings.HasPrefix(ev.path, dir) && kind != "dirsync" {
			return // another directory (the scratch copy of an observation)
		}
		if kind == "dirsync" && ev.path != dir {
			return
		}
		// fsynced lengths (C06)
		bn := baseName(ev.path)
		switch kind {
		case "open":
			if a == 0 {
				if _, ok := c.synced[bn]; !ok {
					c.synced[bn] = 0
				}
			}
		case "fsync":
			if st, err := os.Stat(ev.path); err == nil {
				c.synced[bn] = st.Size()
			}
		case "rename":
			c.synced[baseName(ev.dest)] = c.synced[bn]
			delete(c.synced, bn)
		case "remove", "remove-stale":
			delete(c.synced, bn)
		case "append":
			if st, err := os.Stat(ev.path); err == nil {
				ev.sizeBefore = st.Size() - a
			}
		}
		if kind == "open" || kind == "close" || kind == "fsync" || kind == "dirsync" || kind == "copied" || c.noImg {
			return // no change of file contents or names: not a new crash image
		}
		c.imgN++
		ev.img = filepath.Join(c.root, "img", fmt.Sprintf("%06d", c.imgN))
		copyDir(dir, ev.img)
		evs = append(evs, ev)
	}
	defer func() { verifhook.FSHook = nil }()
	f()
	return evs
}

func tornImage(c *crashCtx, ev fsEvent, j int64) string {
	c.imgN++
	img := filepath.Join(c.root, "img", fmt.Sprintf("%06d", c.imgN))
	copyDir(ev.img, img)
	_ = os.Truncate(filepath.Join(img, baseName(ev.path)), ev.sizeBefore+j)
	return img
}

func genCrash(w *bufio.Writer, root string, seed uint64, n, ops int, thorough bool) {
	r := &rng{s: seed}
	if ops < 4 {
		ops = 12
	}
	for h := 0; h < n; h++ {
		run := NewRunner(filepath.Join(root, fmt.Sprintf("w%d", h)))
		run.Reset()
		c := &crashCtx{root: run.root, synced: map[string]int64{}}
		ixc := r.intn(4)
		c.keys, c.times = ixc&1 == 1, ixc&2 == 2
		fmt.Fprintf(w, "# hist %d seed=%d flavor=crash\n", h, seed)
		b := func(x bool) int {
			if x {
				return 1
			}
			return 0
		}
		as := r.intn(3) == 0
		nsv := 2
		if r.chance(20) {
			nsv = 1
		}
		roll := r.pick([]int64{64, 100, 200, 400})
		openLine := func(rec, eager bool, nsvv int) string {
			return fmt.Sprintf("open ro=0 keys=%d times=%d as=%d roll=%d chk=0 rec=%d nsv=%d keep=%d eager=%d",
				b(c.keys), b(c.times), b(as), roll, b(rec), nsvv, r.intn(2), b(eager))
		}
		dir := run.main.dir
		var next int64
		var live []int64
		t := int64(1_000_000)
		keys := []string{"", hexKey("a"), hexKey("b"), hexKey("ab")}
		nonMono := r.chance(30)
		c.nonMono = nonMono
		dipLeft, dipT := 0, int64(0)

		// every op runs under the tap; its images are observed right after it
		doOp := func(line string) string {
			fmt.Fprintf(w, "fsobs => %s\n", fsobs(dir))
			fmt.Fprintf(w, "crash.begin => ok\n")
			var lhs, res string
			c.retry = nil
			if strings.HasPrefix(line, "open ") {
				o := parseOpts(strings.Fields(line)[1:])
				c.retry = &o
			}
			evs := c.tapOp(dir, func() { lhs, res = run.Exec(line) })
			fmt.Fprintf(w, "%s => %s\n", lhs, res)
			for k, ev := range evs {
				last := k == len(evs)-1
				_ = last
				tag := ""
				if ev.kind == "append" {
					tag = fmt.Sprintf(" v=%s first=%d", fileVersion(filepath.Join(ev.img, baseName(ev.path)), magicLast(ev.path)), b(ev.sizeBefore == 0))
				}
				obs0 := c.observeImage(ev.img)
				// the directory listing of the image: it must be one of the model's crash states of this operation
				ls := strings.ReplaceAll(strings.TrimPrefix(fsobs(ev.img), "ok "), " ", ",")
				fmt.Fprintf(w, "crash.img k=%d ev=%s:%s torn=-%s fs=%s => %s\n", k, ev.kind, baseName(ev.path), tag, ls, obs0)
				if ev.kind == "append" && ev.n > 1 {
					var cuts []int64
					if thorough {
						for j := int64(1); j < ev.n; j++ {
							cuts = append(cuts, j)
						}
					} else {
						cuts = []int64{1, ev.n - 1}
						if ev.n > 28 {
							cuts = append(cuts, 27, 28)
						}
						for q := 0; q < 2; q++ {
							cuts = append(cuts, 1+int64(r.intn(int(ev.n-1))))
						}
					}
					for _, j := range cuts {
						img := tornImage(c, ev, j)
						obs := c.observeImage(img)
						fmt.Fprintf(w, "crash.img k=%d ev=%s:%s torn=%d%s => %s\n", k, ev.kind, baseName(ev.path), j, tag, obs)
						if !strings.Contains(obs, "views=ok again=same append=ok") {
							_ = os.RemoveAll(img)
							continue
						}
						// depth 2: crash inside the recovery of this image
						if thorough || r.chance(15) {
							c.depth2(w, img, k, j)
						}
						_ = os.RemoveAll(img)
					}
				} else if (thorough || r.chance(10)) && strings.Contains(obs0, "views=ok again=same append=ok") {
					c.depth2(w, ev.img, k, -1)
				}
			}
			for _, ev := range evs {
				_ = os.RemoveAll(ev.img)
			}
			c.retry = nil
			fmt.Fprintf(w, "crash.end => ok\n")
			// power loss after the op has returned (C06)
			c.lossImages(w, dir, r, thorough)
			return res
		}

		if res := doOp(openLine(false, false, nsv)); res != "ok" {
			continue
		}
		for step := 0; step < ops; step++ {
			switch x := r.intn(20); {
			case x < 9:
				nm := 1 + r.intn(4)
				var sb strings.Builder
				fmt.Fprintf(&sb, "pub %d", nm)
				for i := 0; i < nm; i++ {
					t += int64(r.intn(3))
					mt := t
					// in some histories the times dip below an earlier one for two or more messages in a row (the index
					// carries the running maximum: every place that derives an index must carry the same thing)
					if nonMono {
						if dipLeft == 0 && r.chance(25) {
							dipLeft, dipT = 2+r.intn(2), t-2-int64(r.intn(6))
						}
						if dipLeft > 0 {
							dipLeft--
							dipT += int64(r.intn(2))
							mt = dipT
						}
					}
					fmt.Fprintf(&sb, " %d:%s:%s", mt, keys[r.intn(len(keys))], hex.EncodeToString(randBytes(r, r.intn(24))))
				}
				res := doOp(sb.String())
				if strings.HasPrefix(res, "ok ") {
					nn := atoi(strings.Fields(res)[1])
					for o := next; o < nn; o++ {
						live = append(live, o)
					}
					next = nn
				}
			case x < 15 && len(live) > 0:
				// delete: tail, head of a segment, whole segments, random
				var set []int64
				switch r.intn(5) {
				case 0:
					set = []int64{live[len(live)-1]}
				case 1:
					set = []int64{live[0]}
				case 2:
					k := 1 + r.intn(len(live))
					set = live[len(live)-k:]
				case 3:
					set = live[:1+r.intn(len(live))]
				default:
					for _, o := range live {
						if r.chance(35) {
							set = append(set, o)
						}
					}
				}
				if len(set) == 0 {
					set = []int64{live[r.intn(len(live))]}
				}
				res := doOp("del " + joinOffs(set))
				f := strings.Fields(res)
				if len(f) >= 3 && f[0] == "ok" {
					del := map[int64]bool{}
					for _, m := range f[3:] {
						if i := strings.IndexByte(m, '@'); i > 0 {
							del[atoi(m[:i])] = true
						}
					}
					var nl []int64
					for _, o := range live {
						if !del[o] {
							nl = append(nl, o)
						}
					}
					live = nl
				}
			case x < 17:
				doOp("sync")
			default:
				doOp("close")
				// reopen, sometimes migrating eagerly to the other version, sometimes with Recover
				nv := nsv
				eager := false
				if r.chance(40) {
					nv = 3 - nsv
					eager = true
					nsv = nv
				}
				if res := doOp(openLine(r.chance(40), eager, nv)); res != "ok" {
					step = ops
				}
			}
		}
		doOp("close")
		run.Reset()
		_ = os.RemoveAll(run.root)
	}
}

// depth2: the recovery of an image is itself tapped and crashed.
func (c *crashCtx) depth2(w *bufio.Writer, img string, k int, j int64) {
	work := filepath.Join(c.root, "d2")
	_ = os.RemoveAll(work)
	copyDir(img, work)
	saved := c.synced
	c.synced = map[string]int64{}
	evs := c.tapOp(work, func() {
		defer func() { _ = recover() }()
		if l, err := klevdb.Open(work, c.opts(true)); err == nil {
			_ = l.Close()
		}
	})
	c.synced = saved
	for m, ev := range evs {
		fmt.Fprintf(w, "crash.img k=%d ev=d2:%s:%s torn=%d d2=%d => %s\n", k, ev.kind, baseName(ev.path), j, m, c.observeImage(ev.img))
		if ev.kind == "append" && ev.n > 2 {
			ti := tornImage(c, ev, ev.n/2)
			fmt.Fprintf(w, "crash.img k=%d ev=d2:%s:%s torn=%d d2=%d.t => %s\n", k, ev.kind, baseName(ev.path), j, m, c.observeImage(ti))
			_ = os.RemoveAll(ti)
		}
		_ = os.RemoveAll(ev.img)
	}
}

// lossImages: each file cut back to something between its fsynced length and its length
// (8-byte file headers atomic; directory operations durable in program order).
func (c *crashCtx) lossImages(w *bufio.Writer, dir string, r *rng, thorough bool) {
	type fi struct {
		name         string
		size, synced int64
	}
	var files []fi
	ents, _ := os.ReadDir(dir)
	for _, e := range ents {
		if e.IsDir() || e.Name() == ".lock" {
			continue
		}
		st, _ := os.Stat(filepath.Join(dir, e.Name()))
		s, ok := c.synced[e.Name()]
		if !ok || s > st.Size() {
			s = st.Size()
		}
		files = append(files, fi{e.Name(), st.Size(), s})
	}
	cutOK := func(l int64) bool { return l == 0 || l >= 8 }
	emit := func(tag string, cuts map[string]int64) {
		c.imgN++
		img := filepath.Join(c.root, "img", fmt.Sprintf("%06d", c.imgN))
		copyDir(dir, img)
		var desc []string
		for name, l := range cuts {
			_ = os.Truncate(filepath.Join(img, name), l)
			desc = append(desc, fmt.Sprintf("%s@%d", name, l))
		}
		sort.Strings(desc)
		d := "-"
		if len(desc) > 0 {
			d = strings.Join(desc, ",")
		}
		fmt.Fprintf(w, "loss.img %s cuts=%s => %s\n", tag, d, c.observeImage(img))
		if tag == "all" || r.chance(25) {
			c.lossAgain(w, img, tag, d)
		}
		// (sampled also in the thorough tier: every length of every file is tens of thousands of images)
		if r.chance(15) {
			c.lossInRecovery(w, img, tag, d)
		}
		_ = os.RemoveAll(img)
	}
	// everything unsynced lost
	all := map[string]int64{}
	unsynced := false
	for _, f := range files {
		if f.synced < f.size {
			l := f.synced
			if !cutOK(l) {
				l = 0
			}
			all[f.name] = l
			unsynced = true
		}
	}
	if !unsynced {
		return
	}
	if thorough || r.chance(50) {
		c.lossDied(w, dir)
	}
	emit("all", all)
	// each single file at intermediate lengths
	for _, f := range files {
		if f.synced >= f.size {
			continue
		}
		var ls []int64
		if thorough {
			for l := f.synced; l < f.size; l++ {
				ls = append(ls, l)
			}
		} else {
			ls = []int64{f.synced, f.size - 1, f.synced + 1 + int64(r.intn(int(f.size-f.synced)))}
		}
		for _, l := range ls {
			if l >= f.size || !cutOK(l) {
				continue
			}
			emit("one", map[string]int64{f.name: l})
		}
	}
	// random vectors
	nv := 2
	if thorough {
		nv = 8
	}
	for q := 0; q < nv; q++ {
		cuts := map[string]int64{}
		for _, f := range files {
			if f.synced < f.size && r.chance(60) {
				l := f.synced + int64(r.intn(int(f.size-f.synced)+1))
				if l < f.size && cutOK(l) {
					cuts[f.name] = l
				}
			}
		}
		if len(cuts) > 0 {
			emit("vec", cuts)
		}
	}
}

// lossDied: the process dies without a power loss (the files stay as they are, unsynced tails included); a new
// process opens the directory with Recover and calls Sync, which acknowledges everything there is; then the power is
// lost. What nobody fsynced - neither the dead process nor the new one - is gone, and everything below the offset
// Sync returned must survive.
func (c *crashCtx) lossDied(w *bufio.Writer, dir string) {
	work := filepath.Join(c.root, "ld")
	_ = os.RemoveAll(work)
	copyDir(dir, work)
	defer os.RemoveAll(work)
	saved, savedNo := c.synced, c.noImg
	carried := map[string]int64{}
	for k, v := range saved {
		carried[k] = v
	}
	c.synced, c.noImg = carried, true
	var l klevdb.Log
	ackw := int64(-1)
	c.tapOp(work, func() {
		defer func() { _ = recover() }()
		var err error
		if l, err = klevdb.Open(work, c.opts(true)); err == nil {
			if n, err := l.Sync(); err == nil {
				ackw = n
			}
		}
	})
	synced2 := c.synced
	c.synced, c.noImg = saved, savedNo
	img2 := filepath.Join(c.root, "ldimg")
	_ = os.RemoveAll(img2)
	copyDir(work, img2) // before Close, which would fsync
	defer os.RemoveAll(img2)
	if l != nil {
		_ = l.Close()
	}
	if ackw < 0 {
		fmt.Fprintf(w, "loss.img died ackw=-1 cuts=- => err open-or-sync\n")
		return
	}
	var desc []string
	ents, _ := os.ReadDir(img2)
	for _, e := range ents {
		if e.IsDir() || e.Name() == ".lock" {
			continue
		}
		s, ok := synced2[e.Name()]
		if !ok {
			continue // never written by a process we watched: as durable as it is
		}
		st, _ := os.Stat(filepath.Join(img2, e.Name()))
		if s < st.Size() {
			if s != 0 && s < 8 {
				s = 0
			}
			_ = os.Truncate(filepath.Join(img2, e.Name()), s)
			desc = append(desc, fmt.Sprintf("%s@%d", e.Name(), s))
		}
	}
	d := "-"
	if len(desc) > 0 {
		sort.Strings(desc)
		d = strings.Join(desc, ",")
	}
	fmt.Fprintf(w, "loss.img died ackw=%d cuts=%s => %s\n", ackw, d, c.observeImage(img2))
}

// lossAgain: power is lost a second time right after the recovery of a loss image (before any
// Sync or Close): whatever the recovery wrote and did not fsync is lost again.
func (c *crashCtx) lossAgain(w *bufio.Writer, img, tag, d string) {
	work := filepath.Join(c.root, "l2")
	_ = os.RemoveAll(work)
	copyDir(img, work)
	defer os.RemoveAll(work)
	saved, savedNo := c.synced, c.noImg
	c.synced, c.noImg = map[string]int64{}, true
	var l klevdb.Log
	c.tapOp(work, func() {
		defer func() { _ = recover() }()
		l, _ = klevdb.Open(work, c.opts(true))
	})
	synced2 := c.synced
	c.synced, c.noImg = saved, savedNo
	img2 := filepath.Join(c.root, "l2img")
	_ = os.RemoveAll(img2)
	copyDir(work, img2)
	defer os.RemoveAll(img2)
	if l != nil {
		_ = l.Close()
	}
	var desc []string
	ents, _ := os.ReadDir(img2)
	for _, e := range ents {
		s, ok := synced2[e.Name()]
		if !ok {
			continue // not touched by the recovery: as durable as it was
		}
		st, _ := os.Stat(filepath.Join(img2, e.Name()))
		if s < st.Size() {
			if s != 0 && s < 8 {
				s = 0
			}
			_ = os.Truncate(filepath.Join(img2, e.Name()), s)
			desc = append(desc, fmt.Sprintf("%s@%d", e.Name(), s))
		}
	}
	if len(desc) == 0 {
		return
	}
	sort.Strings(desc)
	fmt.Fprintf(w, "loss.img %s+again cuts=%s|%s => %s\n", tag, d, strings.Join(desc, ","), c.observeImage(img2))
}

// migrateOpen: the crashed directory is opened with Recover *and* eager migration to the other format version
// (Recover comes with any other options): same content.
func (c *crashCtx) migrateOpen(img string, next int64, all []klevdb.Message) string {
	work := filepath.Join(c.root, "mig")
	_ = os.RemoveAll(work)
	copyDir(img, work)
	defer os.RemoveAll(work)
	// the other version than the head file has
	target := klevdb.V1
	ents, _ := os.ReadDir(work)
	var logs []string
	for _, e := range ents {
		if strings.HasSuffix(e.Name(), ".log") {
			logs = append(logs, e.Name())
		}
	}
	sort.Strings(logs)
	if len(logs) > 0 && fileVersion(filepath.Join(work, logs[len(logs)-1]), 's') == "1" {
		target = klevdb.V2
	}
	o := c.opts(true)
	o.Version = klevdb.VersionOptions{NewSegmentsVersion: target, EagerVersionMigrate: true}
	l, err := klevdb.Open(work, o)
	if err != nil {
		return "open-" + classify(err)
	}
	defer l.Close()
	var got []klevdb.Message
	off := klevdb.OffsetOldest
	for i := 0; i < 100000; i++ {
		nxt, ms, err := l.Consume(off, 32)
		if err != nil {
			return "scan-" + classify(err)
		}
		if len(ms) == 0 && (nxt == off || off < 0) {
			break
		}
		got = append(got, ms...)
		off = nxt
	}
	n2, _ := l.NextOffset()
	if n2 != next || fmtMsgs(got) != fmtMsgs(all) {
		return "diff"
	}
	return "same"
}

// lossInRecovery: the process dies *inside* the recovery of a loss image (after any of its file-system steps, and
// in the middle of its appends); what it leaves is recovered again and judged like any loss image.
func (c *crashCtx) lossInRecovery(w *bufio.Writer, img, tag, d string) {
	work := filepath.Join(c.root, "lr")
	_ = os.RemoveAll(work)
	copyDir(img, work)
	defer os.RemoveAll(work)
	saved, savedNo := c.synced, c.noImg
	c.synced, c.noImg = map[string]int64{}, false
	evs := c.tapOp(work, func() {
		defer func() { _ = recover() }()
		if l, err := klevdb.Open(work, c.opts(true)); err == nil {
			_ = l.Close()
		}
	})
	c.synced, c.noImg = saved, savedNo
	for m, ev := range evs {
		fmt.Fprintf(w, "loss.img %s+inrec cuts=%s|%s:%s#%d => %s\n", tag, d, ev.kind, baseName(ev.path), m, c.observeImage(ev.img))
		if ev.kind == "append" && ev.n > 2 {
			ti := tornImage(c, ev, ev.n/2)
			fmt.Fprintf(w, "loss.img %s+inrec cuts=%s|%s:%s#%d.t => %s\n", tag, d, ev.kind, baseName(ev.path), m, c.observeImage(ti))
			_ = os.RemoveAll(ti)
		}
		_ = os.RemoveAll(ev.img)
	}
}
