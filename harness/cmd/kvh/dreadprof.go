package main

// The `dread` profile (C14): reads of a log whose segment log files were damaged after they
// were written. A multi-segment V2 log is built through the API and swept with every read
// call (the baseline, judged as ordinary calls). Then, per damage — a single-bit flip, a 1-8
// byte overwrite, a truncation, a zero-filled tail, at sampled or at every position of every
// segment log, index files intact — a copy of the directory is damaged, reopened with the
// same options (no Check, no Recover) and swept again. The harness says which records had
// bytes changed (from the intact index: offset → position); the driver judges every result.

import (
	"bufio"
	"encoding/hex"
	"fmt"
	"os"
	"path/filepath"
	"runtime"
	"sort"
	"strings"

	"github.com/klev-dev/klevdb/pkg/index"
)

type dseg struct {
	base  int64
	end   int64 // base of the next segment (1<<62 for the head)
	path  string
	bytes []byte
	recs  []drec
}

type drec struct {
	off      int64
	pos, lim int64 // bytes [pos, lim) of the file
}

func loadSegs(dir string, keys, times bool) []dseg {
	ents, _ := os.ReadDir(dir)
	var segs []dseg
	for _, e := range ents {
		if !strings.HasSuffix(e.Name(), ".log") {
			continue
		}
		base := atoi(strings.TrimSuffix(e.Name(), ".log"))
		p := filepath.Join(dir, e.Name())
		b, _ := os.ReadFile(p)
		sg := dseg{base: base, path: e.Name(), bytes: b}
		items, err := index.Read(filepath.Join(dir, strings.TrimSuffix(e.Name(), ".log")+".index"), base, index.Params{Times: times, Keys: keys})
		if err == nil {
			for i, it := range items {
				lim := int64(len(b))
				if i+1 < len(items) {
					lim = items[i+1].Position
				}
				sg.recs = append(sg.recs, drec{it.Offset, it.Position, lim})
			}
		}
		segs = append(segs, sg)
	}
	sort.Slice(segs, func(i, j int) bool { return segs[i].base < segs[j].base })
	for i := range segs {
		segs[i].end = 1 << 62
		if i+1 < len(segs) {
			segs[i].end = segs[i+1].base
		}
	}
	return segs
}

type damage struct {
	kind string // flip | over | trunc | zero
	at   int64
	n    int64
	data []byte // the bytes written at `at` (flip/over/zero)
}

// apply returns the damaged bytes and the offsets of the records with at least one changed byte
// (for truncation: the records that lost bytes).
func (d damage) apply(sg dseg) ([]byte, []int64) {
	out := append([]byte(nil), sg.bytes...)
	changed := map[int64]bool{}
	mark := func(p int64) {
		for _, rc := range sg.recs {
			if p >= rc.pos && p < rc.lim {
				changed[rc.off] = true
			}
		}
	}
	switch d.kind {
	case "trunc":
		out = out[:d.at]
		for p := d.at; p < int64(len(sg.bytes)); p++ {
			mark(p)
		}
	default:
		for i, b := range d.data {
			p := d.at + int64(i)
			if p < int64(len(out)) && out[p] != b {
				out[p] = b
				mark(p)
			}
		}
	}
	var offs []int64
	for o := range changed {
		offs = append(offs, o)
	}
	sort.Slice(offs, func(i, j int) bool { return offs[i] < offs[j] })
	return out, offs
}

func sameBytes(a, b []byte) bool { return string(a) == string(b) }

func genDread(w *bufio.Writer, root string, seed uint64, n, ops int, thorough bool) {
	r := &rng{s: seed}
	if ops < 4 {
		ops = 8
	}
	keys := []string{"", hexKey("a"), hexKey("b"), hexKey("cc")}
	for h := 0; h < n; h++ {
		run := NewRunner(fmt.Sprintf("%s/d%d", root, h))
		run.Reset()
		fmt.Fprintf(w, "# hist %d seed=%d flavor=dread\n", h, seed)
		exec := func(line string) string {
			lhs, res := run.Exec(line)
			fmt.Fprintf(w, "%s => %s\n", lhs, res)
			return res
		}
		roll := r.pick([]int64{120, 200, 300})
		timesIx := r.intn(2)
		openLine := fmt.Sprintf("open ro=0 keys=1 times=%d as=0 roll=%d chk=0 rec=0 nsv=2 keep=0 eager=0", timesIx, roll)
		if exec(openLine) != "ok" {
			continue
		}
		t := int64(1_000_000)
		var next int64
		var tms []int64
		for i := 0; i < ops; i++ {
			if i > 1 && next > 0 && r.chance(15) {
				exec(fmt.Sprintf("del %d", r.intn(int(next))))
				continue
			}
			nm := 1 + r.intn(3)
			var sb strings.Builder
			fmt.Fprintf(&sb, "pub %d", nm)
			for j := 0; j < nm; j++ {
				t += int64(r.intn(3))
				tms = append(tms, t)
				fmt.Fprintf(&sb, " %d:%s:%s", t, keys[r.intn(len(keys))], hex.EncodeToString(randBytes(r, r.intn(20))))
			}
			if res := exec(sb.String()); strings.HasPrefix(res, "ok ") {
				next = atoi(strings.Fields(res)[1])
			}
		}
		exec("close")
		if exec(openLine) != "ok" {
			continue
		}
		// the sweep: every read call of the property
		var calls []string
		for off := int64(-2); off <= next+1; off++ {
			for _, mc := range []int64{1, 3, 32} {
				calls = append(calls, fmt.Sprintf("cons %d %d", off, mc))
			}
			calls = append(calls, fmt.Sprintf("get %d", off))
		}
		for _, k := range keys {
			calls = append(calls, "gbk "+dash(k))
			for off := int64(-2); off <= next; off += 1 + int64(r.intn(3)) {
				calls = append(calls, fmt.Sprintf("cbk %s %d %d", dash(k), off, 1+r.intn(4)))
			}
		}
		calls = append(calls, "gbk "+hexKey("absent"))
		if timesIx == 1 && len(tms) > 0 {
			for tt := tms[0] - 1; tt <= tms[len(tms)-1]+1; tt++ {
				calls = append(calls, fmt.Sprintf("gbt %d", tt))
			}
		}
		for _, c := range calls {
			exec(c)
		}
		segs := loadSegs(run.main.dir, true, timesIx == 1)
		fmt.Fprintf(w, "fsobs => %s\n", fsobs(run.main.dir))

		// the damages
		var dmgs []struct {
			si int
			d  damage
		}
		add := func(si int, d damage) {
			dmgs = append(dmgs, struct {
				si int
				d  damage
			}{si, d})
		}
		for si, sg := range segs {
			L := int64(len(sg.bytes))
			if L == 0 {
				continue
			}
			if thorough {
				for p := int64(0); p < L; p++ {
					add(si, damage{kind: "flip", at: p, n: 1, data: []byte{sg.bytes[p] ^ (1 << uint(r.intn(8)))}})
					nb := 1 + int64(r.intn(8))
					add(si, damage{kind: "over", at: p, n: nb, data: randBytes(r, int(nb))})
					add(si, damage{kind: "trunc", at: p})
					add(si, damage{kind: "zero", at: p, n: L - p, data: make([]byte, L-p)})
				}
			} else {
				for q := 0; q < 5; q++ {
					p := int64(r.intn(int(L)))
					add(si, damage{kind: "flip", at: p, n: 1, data: []byte{sg.bytes[p] ^ (1 << uint(r.intn(8)))}})
					p = int64(r.intn(int(L)))
					nb := 1 + int64(r.intn(8))
					add(si, damage{kind: "over", at: p, n: nb, data: randBytes(r, int(nb))})
				}
				// cuts: at record boundaries, inside headers, inside bodies
				cuts := []int64{0, L - 1}
				for _, rc := range sg.recs {
					cuts = append(cuts, rc.pos, rc.pos+1+int64(r.intn(27)), rc.pos+28)
					if rc.lim-rc.pos > 30 {
						cuts = append(cuts, rc.pos+29+int64(r.intn(int(rc.lim-rc.pos-29))))
					}
				}
				for q := 0; q < 6 && len(cuts) > 0; q++ {
					p := cuts[r.intn(len(cuts))]
					if p < 0 || p >= L {
						continue
					}
					add(si, damage{kind: "trunc", at: p})
					p = cuts[r.intn(len(cuts))]
					if p >= 0 && p < L {
						add(si, damage{kind: "zero", at: p, n: L - p, data: make([]byte, L-p)})
					}
				}
			}
		}
		ddir := filepath.Join(run.root, "dmg")
		run.dmg.dir = ddir
		for _, x := range dmgs {
			sg := segs[x.si]
			nb, offs := x.d.apply(sg)
			if sameBytes(nb, sg.bytes) {
				continue
			}
			_ = os.RemoveAll(ddir)
			copyDir(run.main.dir, ddir)
			_ = os.WriteFile(filepath.Join(ddir, sg.path), nb, 0600)
			fmt.Fprintf(w, "dr.damage seg=%d end=%d kind=%s at=%d n=%d recs=%s fsize=%d => ok\n",
				sg.base, sg.end, x.d.kind, x.d.at, x.d.n, joinOffs(offs), len(sg.bytes))
			_, res := run.Exec("d." + openLine)
			fmt.Fprintf(w, "dr.open => %s\n", res)
			if res == "ok" {
				for ci, c := range calls {
					// every call that may touch the damaged segment; a third of the others
					if !thorough || true {
						if !callNear(c, sg, next) && (ci+int(x.d.at))%3 != 0 {
							continue
						}
					}
					var m0, m1 runtime.MemStats
					runtime.ReadMemStats(&m0)
					_, cres := run.Exec("d." + c)
					runtime.ReadMemStats(&m1)
					fmt.Fprintf(w, "dr.call %s => %s alloc=%d\n", c, cres, m1.TotalAlloc-m0.TotalAlloc)
				}
				_, _ = run.Exec("d.close")
			}
			fmt.Fprintf(w, "dr.end => ok\n")
		}
		exec("close")
		run.Reset()
		_ = os.RemoveAll(run.root)
	}
}

// callNear: the call names an offset inside or next to the damaged segment, or is a key / time
// lookup (which may land anywhere).
func callNear(c string, sg dseg, next int64) bool {
	f := strings.Fields(c)
	var off int64
	switch f[0] {
	case "cons", "get":
		off = atoi(f[1])
	case "cbk":
		off = atoi(f[2])
	default:
		return true
	}
	if off < 0 {
		return true
	}
	end := sg.end
	if end > next {
		end = next
	}
	return off >= sg.base-3 && off <= end+1
}
