package main

import "bufio"

// runExtraProfile dispatches the non-seq profiles.
func runExtraProfile(name, root string, w *bufio.Writer, seed uint64, n, ops int) bool {
	run := NewRunner(root)
	run.Reset()
	switch name {
	case "fmt":
		genFmt(w, run, seed, n)
	case "damage":
		genDamage(w, run, seed, n, ops > 1)
	case "lock":
		genLock(w, root, seed, n, ops)
	case "notify":
		genNotifyProfile(w, seed, n, ops)
	case "free":
		genFree(w, root, seed, n, ops)
	case "sched":
		genSched(w, root, seed, n, ops)
	case "dread":
		genDread(w, root, seed, n, ops%100, ops >= 100)
	case "bstorm":
		genBlockStorm(w, root, seed, n, ops)
	case "blocking":
		genBlocking(w, root, seed, n, ops)
	case "crash":
		genCrash(w, root, seed, n, ops%100, ops >= 100)
	default:
		return false
	}
	run.Reset()
	return true
}
