package main

import "bufio"

// runExtraProfile dispatches the non-seq profiles (added as they are built).
func runExtraProfile(name, root string, w *bufio.Writer, seed uint64, n, ops int) bool {
	return false
}
