package main

// The `free` profile (C08, free-running part): goroutines publish, consume, look up, delete,
// sync, stat and GC on one small-rollover log at the same time, with no control over the
// schedule (run under the race detector by ./check). Every call is stamped with its
// invocation and response time from one logical clock; the history is written afterwards and
// judged by the driver against rules that need no sequential witness (disjoint consecutive
// publish ranges, content, no loss that no Delete reported, no stale "caught up", no failure
// caused by a concurrent call, deletes that report what they removed).

import (
	"bufio"
	"encoding/hex"
	"fmt"
	"hash/fnv"
	"os"
	"path/filepath"
	"sort"
	"strings"
	"sync"
	"sync/atomic"
	"time"

	"github.com/klev-dev/klevdb"
	"github.com/klev-dev/klevdb/pkg/verifhook"
)

// long values are written as a digest (length + FNV-1a 64): the free-running histories are judged by equality
// of whole messages, and records of several KB would make the traces hundreds of MB
func frVal(v []byte) string {
	if len(v) <= 256 {
		return hex.EncodeToString(v)
	}
	h := fnv.New64a()
	h.Write(v)
	return fmt.Sprintf("~%d~%016x", len(v), h.Sum64())
}

func frMsg(m klevdb.Message) string {
	return fmt.Sprintf("%d@%d:%s:%s", m.Offset, m.Time.UnixMicro(), hex.EncodeToString(m.Key), frVal(m.Value))
}

func frMsgs(ms []klevdb.Message) string {
	var sb strings.Builder
	fmt.Fprintf(&sb, "%d", len(ms))
	for _, m := range ms {
		sb.WriteByte(' ')
		sb.WriteString(frMsg(m))
	}
	return sb.String()
}

type frCall struct {
	g        int
	inv, ret int64
	lhs, res string
}

type frRec struct {
	mu    sync.Mutex
	calls []frCall
	clock atomic.Int64
}

func (f *frRec) do(g int, lhs func() string, call func() string) {
	inv := f.clock.Add(1)
	res := func() (res string) {
		defer func() {
			if p := recover(); p != nil {
				res = "err panic"
			}
		}()
		return call()
	}()
	ret := f.clock.Add(1)
	f.mu.Lock()
	f.calls = append(f.calls, frCall{g, inv, ret, lhs(), res})
	f.mu.Unlock()
}

func genFree(w *bufio.Writer, root string, seed uint64, n, ops int) {
	master := &rng{s: seed}
	if ops < 10 {
		ops = 60
	}
	for h := 0; h < n; h++ {
		hseed := master.next()
		r := &rng{s: hseed}
		dir := fmt.Sprintf("%s/f%d", root, h)
		roll := r.pick([]int64{512, 1024, 4096, 9000})
		as := r.intn(4) == 0
		keep := r.intn(2) == 0
		// "straddle" histories: every record is larger than a page and the head is long-lived, so that a
		// head rewrite runs while records that cross page boundaries are being appended
		straddle := r.intn(3) == 0
		if straddle {
			roll = r.pick([]int64{60000, 200000})
		}
		// "cold" histories (see below) want several closed segments
		cold := !straddle && r.intn(3) == 0
		if cold {
			roll = r.pick([]int64{512, 512, 1024})
		}
		fmt.Fprintf(w, "# hist %d seed=%d flavor=free\n", h, seed)
		l, err := klevdb.Open(dir, klevdb.Options{CreateDirs: true, KeyIndex: true, TimeIndex: true, Rollover: roll, AutoSync: as,
			Version: klevdb.VersionOptions{NewSegmentsVersion: klevdb.V2, KeepRewriteVersion: keep}})
		if err != nil {
			fmt.Fprintf(w, "fr.open => %s\n", errRes(err))
			continue
		}
		// "split" histories: every record reaches the log file in two halves some microseconds apart (verif hook):
		// what a concurrent reader of the file may see of a write in progress, made wide enough to hit
		split := int64(0)
		if r.intn(3) == 0 {
			split = r.pick([]int64{20_000, 100_000, 400_000})
		}
		verifhook.SplitWrites.Store(split)
		// in half of the histories the publishers leave the time to Publish (monotone with offset by construction: the
		// final Check is then held against the log in full); in the others they bring their own, which racing
		// publishers can get out of order
		nowTimes := r.intn(2) == 0
		fmt.Fprintf(w, "fr.open roll=%d as=%d keep=%d straddle=%d split=%d now=%d => ok\n", roll, b2i(as), b2i(keep), b2i(straddle), split, b2i(nowTimes))
		rec := &frRec{}
		var known atomic.Int64 // a NextOffset some publisher has been told (for picking offsets only)
		var tclock atomic.Int64
		tclock.Store(1_000_000)
		nPub, nCons, nGet, nDel, nMisc := 1+r.intn(3), 1+r.intn(3), 1+r.intn(2), 1+r.intn(2), 1
		if straddle {
			nPub, nDel = 3, 2
		}
		// "cold" histories: the log already holds a few segments, written by an earlier session, and the index files of
		// (most of) its closed segments are missing - a supported state: they are rebuilt on first use. Several readers
		// then meet a closed segment for the first time at the same moment.
		if cold {
			cr := &rng{s: r.next()}
			for i, n := 0, 10+cr.intn(14); i < n; i++ {
				nm := 1 + cr.intn(2)
				msgs := make([]klevdb.Message, nm)
				for j := range msgs {
					msgs[j] = klevdb.Message{Key: []byte(fmt.Sprintf("k%d", cr.intn(6))), Value: randBytes(cr, 40+cr.intn(160)), Time: time.UnixMicro(tclock.Add(1)).UTC()}
					if nowTimes {
						msgs[j].Time = time.Time{}
					}
				}
				rec.do(0, func() string {
					var sb strings.Builder
					fmt.Fprintf(&sb, "pub %d", nm)
					for _, m := range msgs {
						fmt.Fprintf(&sb, " %d:%d:%s:%s", m.Time.UnixMicro(), m.Time.UnixMicro(), hex.EncodeToString(m.Key), frVal(m.Value))
					}
					return sb.String()
				}, func() string {
					next, perr := l.Publish(msgs)
					if perr != nil {
						return errRes(perr)
					}
					known.Store(next)
					return fmt.Sprintf("ok %d", next)
				})
			}
			_ = l.Close()
			ents, _ := os.ReadDir(dir)
			var idx []string
			for _, e := range ents {
				if strings.HasSuffix(e.Name(), ".index") {
					idx = append(idx, e.Name())
				}
			}
			sort.Strings(idx)
			removed := 0
			for i, name := range idx {
				if i < len(idx)-1 && cr.chance(90) {
					_ = os.Remove(filepath.Join(dir, name))
					removed++
				}
			}
			l, err = klevdb.Open(dir, klevdb.Options{KeyIndex: true, TimeIndex: true, Rollover: roll, AutoSync: as,
				Version: klevdb.VersionOptions{NewSegmentsVersion: klevdb.V2, KeepRewriteVersion: keep}})
			if err != nil {
				fmt.Fprintf(w, "fr.cold => %s\n", errRes(err))
				continue
			}
			fmt.Fprintf(w, "fr.cold segments=%d indexes-removed=%d => ok\n", len(idx), removed)
			nCons, nGet = 4, 3
		}
		// all goroutines of a history start together (in a cold history: meet the closed segments together)
		start := make(chan struct{})
		var wg sync.WaitGroup
		gid := 0
		spawn := func(f func(g int, r *rng)) {
			gid++
			g := gid
			gr := &rng{s: r.next()}
			wg.Add(1)
			go func() {
				defer wg.Done()
				<-start
				f(g, gr)
			}()
		}
		bigVals := r.chance(60)
		for p := 0; p < nPub; p++ {
			spawn(func(g int, r *rng) {
				for i := 0; i < ops; i++ {
					nm := 1 + r.intn(3)
					msgs := make([]klevdb.Message, nm)
					for j := range msgs {
						vl := r.intn(40)
						if bigVals && r.chance(30) {
							vl = 1500 + r.intn(3000) // records that straddle page boundaries
						}
						if straddle {
							vl = 4200 + r.intn(3000)
						}
						msgs[j] = klevdb.Message{Key: []byte(fmt.Sprintf("k%d", r.intn(6))), Value: randBytes(r, vl), Time: time.UnixMicro(tclock.Add(1)).UTC()}
						if nowTimes {
							// Publish stamps the message itself, under the writer lock: times never decrease with offset
							msgs[j].Time = time.Time{}
						}
					}
					var next int64
					var perr error
					rec.do(g, func() string {
						var sb strings.Builder
						fmt.Fprintf(&sb, "pub %d", nm)
						for _, m := range msgs {
							fmt.Fprintf(&sb, " %d:%d:%s:%s", m.Time.UnixMicro(), m.Time.UnixMicro(), hex.EncodeToString(m.Key), frVal(m.Value))
						}
						return sb.String()
					}, func() string {
						next, perr = l.Publish(msgs)
						if perr != nil {
							return errRes(perr)
						}
						for j, m := range msgs {
							if m.Offset != next-int64(nm)+int64(j) {
								return fmt.Sprintf("ok %d badwriteback", next)
							}
						}
						return fmt.Sprintf("ok %d", next)
					})
					if perr == nil {
						for {
							k := known.Load()
							if next <= k || known.CompareAndSwap(k, next) {
								break
							}
						}
					}
				}
			})
		}
		for c := 0; c < nCons; c++ {
			spawn(func(g int, r *rng) {
				off := klevdb.OffsetOldest
				for i := 0; i < ops*2; i++ {
					if r.chance(10) {
						off = int64(r.intn(int(known.Load())+1)) - 1
					}
					max := int64(1 + r.intn(8))
					o := off
					var nxt int64
					var cerr error
					rec.do(g, func() string { return fmt.Sprintf("cons %d %d", o, max) }, func() string {
						var ms []klevdb.Message
						nxt, ms, cerr = l.Consume(o, max)
						if cerr != nil {
							return errRes(cerr)
						}
						return fmt.Sprintf("ok %d %s", nxt, frMsgs(ms))
					})
					if cerr == nil {
						off = nxt
					} else {
						off = klevdb.OffsetOldest
					}
				}
			})
		}
		for c := 0; c < nGet; c++ {
			spawn(func(g int, r *rng) {
				for i := 0; i < ops*2; i++ {
					k := known.Load()
					switch r.intn(4) {
					case 0, 1:
						o := int64(r.intn(int(k) + 1))
						rec.do(g, func() string { return fmt.Sprintf("get %d", o) }, func() string {
							m, err := l.Get(o)
							if err != nil {
								return errRes(err)
							}
							return "ok " + frMsg(m)
						})
					case 2:
						key := []byte(fmt.Sprintf("k%d", r.intn(6)))
						rec.do(g, func() string { return "gbk " + hex.EncodeToString(key) }, func() string {
							m, err := l.GetByKey(key)
							if err != nil {
								return errRes(err)
							}
							return "ok " + frMsg(m)
						})
					default:
						tt := 1_000_000 + int64(r.intn(int(tclock.Load()-1_000_000)+1))
						rec.do(g, func() string { return fmt.Sprintf("gbt %d", tt) }, func() string {
							m, err := l.GetByTime(time.UnixMicro(tt))
							if err != nil {
								return errRes(err)
							}
							return "ok " + frMsg(m)
						})
					}
				}
			})
		}
		for c := 0; c < nDel; c++ {
			spawn(func(g int, r *rng) {
				for i := 0; i < ops; i++ {
					k := known.Load()
					if k == 0 {
						time.Sleep(50 * time.Microsecond)
						continue
					}
					set := map[int64]struct{}{}
					sel := r.intn(4)
					if straddle && r.chance(70) {
						sel = r.intn(2)
					}
					switch sel {
					case 0: // the tail, where the publishers are
						set[k-1] = struct{}{}
					case 1:
						for j := 0; j < 1+r.intn(3); j++ {
							set[k-1-int64(r.intn(4))] = struct{}{}
						}
					case 2: // the oldest
						o := int64(r.intn(int(k)))
						for j := int64(0); j < int64(1+r.intn(4)); j++ {
							set[o+j] = struct{}{}
						}
					default:
						set[int64(r.intn(int(k)))] = struct{}{}
					}
					for o := range set {
						if o < 0 {
							delete(set, o)
						}
					}
					if len(set) == 0 {
						continue
					}
					var offs []int64
					for o := range set {
						offs = append(offs, o)
					}
					sort.Slice(offs, func(a, b int) bool { return offs[a] < offs[b] })
					rec.do(g, func() string { return "del " + joinOffs(offs) }, func() string {
						ms, sz, err := l.Delete(set)
						if err != nil {
							return errRes(err)
						}
						return fmt.Sprintf("ok %d %s", sz, frMsgs(sortedMsgs(ms)))
					})
				}
			})
		}
		for c := 0; c < nMisc; c++ {
			spawn(func(g int, r *rng) {
				for i := 0; i < ops; i++ {
					switch r.intn(4) {
					case 0:
						rec.do(g, func() string { return "next" }, func() string {
							n, err := l.NextOffset()
							if err != nil {
								return errRes(err)
							}
							return fmt.Sprintf("ok %d", n)
						})
					case 1:
						rec.do(g, func() string { return "sync" }, func() string {
							n, err := l.Sync()
							if err != nil {
								return errRes(err)
							}
							return fmt.Sprintf("ok %d", n)
						})
					case 2:
						rec.do(g, func() string { return "gc" }, func() string {
							if err := l.GC(0); err != nil {
								return errRes(err)
							}
							return "ok"
						})
					default:
						rec.do(g, func() string { return "stat" }, func() string {
							st, err := l.Stat()
							if err != nil {
								return errRes(err)
							}
							return fmt.Sprintf("ok %d %d %d", st.Segments, st.Messages, st.Size)
						})
					}
				}
			})
		}
		// in some histories a goroutine does nothing but GC(0): readers lose and reload their segments all the time
		if r.chance(35) {
			spawn(func(g int, r *rng) {
				for i := 0; i < ops*6; i++ {
					rec.do(g, func() string { return "gc" }, func() string {
						if err := l.GC(0); err != nil {
							return errRes(err)
						}
						return "ok"
					})
					if r.chance(20) {
						time.Sleep(time.Duration(r.intn(100)) * time.Microsecond)
					}
				}
			})
		}
		close(start)
		done := make(chan struct{})
		go func() { wg.Wait(); close(done) }()
		select {
		case <-done:
		case <-time.After(120 * time.Second):
			fmt.Fprintf(w, "fr.call g=0 inv=0 ret=0 :: all => err hang\n")
			w.Flush()
			return
		}
		sort.Slice(rec.calls, func(a, b int) bool { return rec.calls[a].inv < rec.calls[b].inv })
		for _, c := range rec.calls {
			fmt.Fprintf(w, "fr.call g=%d inv=%d ret=%d :: %s => %s\n", c.g, c.inv, c.ret, c.lhs, c.res)
		}
		// the state everybody left behind
		var all []klevdb.Message
		off := klevdb.OffsetOldest
		final := ""
		for i := 0; i < 1_000_000; i++ {
			nxt, ms, err := l.Consume(off, 64)
			if err != nil {
				final = errRes(err)
				break
			}
			if len(ms) == 0 && (nxt == off || off < 0) {
				break
			}
			all = append(all, ms...)
			off = nxt
		}
		nx, _ := l.NextOffset()
		if final == "" {
			final = fmt.Sprintf("ok %d %s", nx, frMsgs(all))
		}
		fmt.Fprintf(w, "fr.end => %s\n", final)
		verifhook.SplitWrites.Store(0)
		cerr := l.Close()
		// the files everybody left behind pass Check and reopen to the same content
		chk := "ok"
		if cerr != nil {
			chk = "close-" + classify(cerr)
		} else if err := klevdb.Check(dir, klevdb.Options{KeyIndex: true, TimeIndex: true}); err != nil {
			chk = "check-" + classify(err)
		}
		fmt.Fprintf(w, "fr.check => %s\n", chk)
		_ = os.RemoveAll(dir)
	}
}
