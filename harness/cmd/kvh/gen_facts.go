package main

// T3 — structural facts about the current source, computed with go/ast and printed as
// Lean Booleans (Klev/Gen/Facts.lean). They are facts that survive refactoring (which lock
// guards which field, fsync before rename, lock released on failed open), not statement
// lists. A fact that cannot be established is `false`; the Lean theorems that depend on it
// then fail to check (a broken proof obligation).

import (
	"bufio"
	"fmt"
	"go/ast"
	"go/parser"
	"go/token"
	"path/filepath"
	"sort"
	"strings"
)

type srcFile struct {
	fset *token.FileSet
	file *ast.File
}

func parseGo(path string) (*srcFile, error) {
	fset := token.NewFileSet()
	f, err := parser.ParseFile(fset, path, nil, 0)
	if err != nil {
		return nil, err
	}
	return &srcFile{fset, f}, nil
}

func (s *srcFile) fn(recv, name string) *ast.FuncDecl {
	for _, d := range s.file.Decls {
		fd, ok := d.(*ast.FuncDecl)
		if !ok || fd.Name.Name != name {
			continue
		}
		if recv == "" && fd.Recv == nil {
			return fd
		}
		if recv != "" && fd.Recv != nil && len(fd.Recv.List) == 1 {
			t := fd.Recv.List[0].Type
			if st, ok := t.(*ast.StarExpr); ok {
				t = st.X
			}
			// generic receivers: T[K, V]
			switch g := t.(type) {
			case *ast.IndexExpr:
				t = g.X
			case *ast.IndexListExpr:
				t = g.X
			}
			if id, ok := t.(*ast.Ident); ok && id.Name == recv {
				return fd
			}
		}
	}
	return nil
}

func exprStr(e ast.Expr) string {
	switch x := e.(type) {
	case *ast.Ident:
		return x.Name
	case *ast.SelectorExpr:
		return exprStr(x.X) + "." + x.Sel.Name
	case *ast.CallExpr:
		return exprStr(x.Fun) + "()"
	case *ast.StarExpr:
		return "*" + exprStr(x.X)
	case *ast.UnaryExpr:
		return x.Op.String() + exprStr(x.X)
	case *ast.IndexExpr:
		return exprStr(x.X) + "[]"
	case *ast.ParenExpr:
		return exprStr(x.X)
	}
	return "?"
}

type event struct {
	pos   token.Pos
	what  string // call:<expr> | defer:<expr> | use:<expr>
}

// events lists calls, deferred calls and selector uses of a function body in source order.
func events(body ast.Node) []event {
	var evs []event
	deferred := map[*ast.CallExpr]bool{}
	ast.Inspect(body, func(n ast.Node) bool {
		switch x := n.(type) {
		case *ast.DeferStmt:
			deferred[x.Call] = true
			evs = append(evs, event{x.Pos(), "defer:" + exprStr(x.Call.Fun)})
		case *ast.CallExpr:
			if !deferred[x] {
				evs = append(evs, event{x.Pos(), "call:" + exprStr(x.Fun)})
			}
		case *ast.SelectorExpr:
			evs = append(evs, event{x.Pos(), "use:" + exprStr(x)})
		}
		return true
	})
	sort.SliceStable(evs, func(i, j int) bool { return evs[i].pos < evs[j].pos })
	return evs
}

func hasEv(evs []event, what string) bool {
	for _, e := range evs {
		if e.what == what {
			return true
		}
	}
	return false
}

func firstIdx(evs []event, what string) int {
	for i, e := range evs {
		if e.what == what {
			return i
		}
	}
	return -1
}

// guardedUses: every use of `field` (prefix match) lies, in source order, between a call of
// lock and the next call of unlock (a deferred unlock holds to the end of the function).
func guardedUses(evs []event, field, lock, unlock string) bool {
	held := false
	for _, e := range evs {
		switch {
		case e.what == "call:"+lock:
			held = true
		case e.what == "call:"+unlock:
			held = false
		case strings.HasPrefix(e.what, "use:"+field):
			// the lock/unlock selectors themselves are uses of the mutex, not of the field
			if !held {
				return false
			}
		}
	}
	return true
}

// lockWalk checks, following the statement structure, that every use of `field` happens with
// the lock held. A branch that ends in a return does not carry its lock state to the code after
// it; branches that fall through must agree. Deferred unlocks hold to the end of the function.
type lockWalk struct {
	field, mu string // e.g. "l.writer", "l.writerMu"
	ok        bool
}

func (lw *lockWalk) usesField(n ast.Node) bool {
	found := false
	ast.Inspect(n, func(x ast.Node) bool {
		if _, isFn := x.(*ast.FuncLit); isFn {
			return false
		}
		if se, ok := x.(*ast.SelectorExpr); ok {
			s := exprStr(se)
			if s == lw.field || strings.HasPrefix(s, lw.field+".") {
				found = true
			}
		}
		return true
	})
	return found
}

func (lw *lockWalk) lockCall(st ast.Stmt) string {
	es, ok := st.(*ast.ExprStmt)
	if !ok {
		return ""
	}
	c, ok := es.X.(*ast.CallExpr)
	if !ok {
		return ""
	}
	switch exprStr(c.Fun) {
	case lw.mu + ".Lock":
		return "lock"
	case lw.mu + ".Unlock":
		return "unlock"
	}
	return ""
}

// block returns the lock state after the statements and whether they always return.
func (lw *lockWalk) block(stmts []ast.Stmt, held bool) (bool, bool) {
	for _, st := range stmts {
		switch lw.lockCall(st) {
		case "lock":
			held = true
			continue
		case "unlock":
			held = false
			continue
		}
		switch x := st.(type) {
		case *ast.DeferStmt:
			continue
		case *ast.ReturnStmt:
			if lw.usesField(x) && !held {
				lw.ok = false
			}
			return held, true
		case *ast.BlockStmt:
			h, term := lw.block(x.List, held)
			if term {
				return h, true
			}
			held = h
		case *ast.IfStmt:
			if x.Init != nil && lw.usesField(x.Init) && !held {
				lw.ok = false
			}
			if lw.usesField(x.Cond) && !held {
				lw.ok = false
			}
			hb, tb := lw.block(x.Body.List, held)
			he, te := held, false
			if x.Else != nil {
				he, te = lw.block([]ast.Stmt{x.Else}, held)
			}
			switch {
			case tb && te:
				return held, true
			case tb:
				held = he
			case te:
				held = hb
			default:
				if hb != he {
					lw.ok = false // the branches disagree about the lock
				}
				held = hb && he
			}
		case *ast.ForStmt:
			if (x.Init != nil && lw.usesField(x.Init) || x.Cond != nil && lw.usesField(x.Cond) || x.Post != nil && lw.usesField(x.Post)) && !held {
				lw.ok = false
			}
			h, _ := lw.block(x.Body.List, held)
			if h != held {
				lw.ok = false
			}
		case *ast.RangeStmt:
			if lw.usesField(x.X) && !held {
				lw.ok = false
			}
			h, _ := lw.block(x.Body.List, held)
			if h != held {
				lw.ok = false
			}
		case *ast.SwitchStmt:
			if (x.Init != nil && lw.usesField(x.Init) || x.Tag != nil && lw.usesField(x.Tag)) && !held {
				lw.ok = false
			}
			out, all := held, true
			first := true
			for _, cc := range x.Body.List {
				cl := cc.(*ast.CaseClause)
				for _, e := range cl.List {
					if lw.usesField(e) && !held {
						lw.ok = false
					}
				}
				h, term := lw.block(cl.Body, held)
				if !term {
					all = false
					if first {
						out, first = h, false
					} else if h != out {
						lw.ok = false
					}
				}
			}
			_ = all
			if !first && out != held {
				held = out
			}
		default:
			if lw.usesField(st) && !held {
				lw.ok = false
			}
		}
	}
	return held, false
}

func lockGuards(fd *ast.FuncDecl, field, mu string) bool {
	lw := &lockWalk{field: field, mu: mu, ok: true}
	lw.block(fd.Body.List, false)
	return lw.ok
}

func genFacts(w *bufio.Writer, repo string) error {
	logGo, err := parseGo(filepath.Join(repo, "log.go"))
	if err != nil {
		return err
	}
	writerGo, err := parseGo(filepath.Join(repo, "log_writer.go"))
	if err != nil {
		return err
	}
	segGo, err := parseGo(filepath.Join(repo, "pkg/segment/segment.go"))
	if err != nil {
		return err
	}
	idxGo, err := parseGo(filepath.Join(repo, "pkg/index/format.go"))
	if err != nil {
		return err
	}
	facts := map[string]bool{}
	need := func(fd *ast.FuncDecl, name string) error {
		if fd == nil {
			return fmt.Errorf("function %s not found", name)
		}
		return nil
	}

	// Open releases the lock on every error exit after acquiring it
	open := logGo.fn("", "Open")
	if err := need(open, "Open"); err != nil {
		return err
	}
	rel := false
	ast.Inspect(open.Body, func(n ast.Node) bool {
		d, ok := n.(*ast.DeferStmt)
		if !ok {
			return true
		}
		fl, ok := d.Call.Fun.(*ast.FuncLit)
		if !ok {
			return true
		}
		for _, st := range fl.Body.List {
			ifs, ok := st.(*ast.IfStmt)
			if !ok {
				continue
			}
			if be, ok := ifs.Cond.(*ast.BinaryExpr); ok && exprStr(be.X) == "err" && be.Op == token.NEQ {
				if hasEv(events(ifs.Body), "call:lock.Unlock") {
					rel = true
				}
			}
		}
		return true
	})
	// the lock must be taken before the deferred release is registered
	oe := events(open.Body)
	facts["openReleasesLockOnError"] = rel && (firstIdx(oe, "call:lock.TryLock") >= 0) && (firstIdx(oe, "call:lock.TryRLock") >= 0)
	facts["closeReleasesLock"] = hasEv(events(logGo.fn("log", "Close").Body), "call:l.lock.Unlock")

	// read-only guards come first in Publish and Delete
	ro := true
	for _, name := range []string{"Publish", "Delete"} {
		fd := logGo.fn("log", name)
		if err := need(fd, name); err != nil {
			return err
		}
		ok := false
		if len(fd.Body.List) > 0 {
			if ifs, isIf := fd.Body.List[0].(*ast.IfStmt); isIf && exprStr(ifs.Cond) == "l.opts.Readonly" {
				ast.Inspect(ifs.Body, func(n ast.Node) bool {
					if id, isId := n.(*ast.Ident); isId && id.Name == "ErrReadonly" {
						ok = true
					}
					return true
				})
			}
		}
		ro = ro && ok
	}
	facts["readonlyGuards"] = ro

	// whole read calls run under the segment-list read lock (RLock … defer RUnlock)
	rr := true
	for _, name := range []string{"Consume", "ConsumeByKey", "Get", "GetByKey", "GetByTime", "Stat", "Backup", "GC"} {
		fd := logGo.fn("log", name)
		if err := need(fd, name); err != nil {
			return err
		}
		evs := events(fd.Body)
		li := firstIdx(evs, "call:l.readersMu.RLock")
		ok := li >= 0 && hasEv(evs, "defer:l.readersMu.RUnlock")
		// no use of l.readers before the lock is taken
		for i, e := range evs {
			if strings.HasPrefix(e.what, "use:l.readers") && !strings.HasPrefix(e.what, "use:l.readersMu") && i < li {
				ok = false
			}
		}
		rr = rr && ok
	}
	facts["readRegionLocked"] = rr

	// every access to l.writer in Publish / NextOffset / Sync / delete happens with writerMu held
	wg := true
	for _, name := range []string{"Publish", "delete", "NextOffset", "Sync"} {
		fd := logGo.fn("log", name)
		if err := need(fd, name); err != nil {
			return err
		}
		if !lockGuards(fd, "l.writer", "l.writerMu") {
			wg = false
		}
	}
	facts["writerGuarded"] = wg

	// Sync: the fsync and the offset it reports happen in one critical section of the writer lock (the offset
	// acknowledged is the one the fsync covered): locked once, released only by the deferred unlock, and both
	// calls go through l.writer (not through a copy taken under the lock and used after it)
	{
		fd := logGo.fn("log", "Sync")
		evs := events(fd.Body)
		lk, sy, nx := firstIdx(evs, "call:l.writerMu.Lock"), firstIdx(evs, "call:l.writer.Sync"), firstIdx(evs, "call:l.writer.GetNextOffset")
		facts["syncUnderWriterLock"] = lk >= 0 && lk < sy && sy < nx && hasEv(evs, "defer:l.writerMu.Unlock") && !hasEv(evs, "call:l.writerMu.Unlock")
	}

	// GetByTime remembers that the head was empty when it looked at it (D21): a flag set in the ErrTimeIndexEmpty case
	// and consulted in the ErrTimeAfterEnd case before the next segment is looked at again
	{
		fd := logGo.fn("log", "GetByTime")
		if err := need(fd, "GetByTime"); err != nil {
			return err
		}
		setIn, usedIn := "", ""
		ast.Inspect(fd.Body, func(n ast.Node) bool {
			cc, ok := n.(*ast.CaseClause)
			if !ok || len(cc.List) != 1 {
				return true
			}
			label := exprStr(cc.List[0])
			for _, st := range cc.Body {
				ast.Inspect(st, func(m ast.Node) bool {
					switch x := m.(type) {
					case *ast.AssignStmt:
						if len(x.Lhs) == 1 && exprStr(x.Lhs[0]) == "headEmpty" && exprStr(x.Rhs[0]) == "true" {
							setIn = label
						}
					case *ast.IfStmt:
						mentions := false
						ast.Inspect(x.Cond, func(c ast.Node) bool {
							if id, ok := c.(*ast.Ident); ok && id.Name == "headEmpty" {
								mentions = true
							}
							return true
						})
						if mentions {
							// the branch must end the lookup (a return) before any look at the next reader
							if len(x.Body.List) > 0 {
								if _, isRet := x.Body.List[len(x.Body.List)-1].(*ast.ReturnStmt); isRet {
									usedIn = label
								}
							}
						}
					}
					return true
				})
			}
			return true
		})
		facts["getByTimeRemembersEmptyHead"] = setIn == "index.ErrTimeIndexEmpty" && usedIn == "index.ErrTimeAfterEnd"
	}

	// segment swaps happen under the readers write lock
	pub := events(logGo.fn("log", "Publish").Body)
	facts["rolloverSwapUnderLock"] = firstIdx(pub, "call:l.readersMu.Lock") >= 0 &&
		firstIdx(pub, "call:l.readersMu.Lock") < firstIdx(pub, "call:l.readersMu.Unlock")
	// the old head is fsynced before the new segment is created
	facts["rolloverSyncsOldHead"] = firstIdx(pub, "call:oldWriter.Sync") >= 0 && firstIdx(pub, "call:oldWriter.Sync") < firstIdx(pub, "call:openWriter")

	// record before index item; index append last
	wp := events(writerGo.fn("writer", "Publish").Body)
	facts["recordBeforeIndexItem"] = firstIdx(wp, "call:w.messages.Write") >= 0 &&
		firstIdx(wp, "call:w.messages.Write") < firstIdx(wp, "call:w.items.Write") &&
		firstIdx(wp, "call:w.items.Write") < firstIdx(wp, "call:w.index.append")

	// rewritten / recovered / migrated files are fsynced before they are renamed in
	sbr := true
	for _, c := range []struct{ fn, sync, rename string }{
		{"Recover", "call:restore.SyncAndClose", "call:os.Rename"},
		{"Migrate", "call:migratedLog.SyncAndClose", "call:os.Rename"},
	} {
		fd := segGo.fn("Segment", c.fn)
		if err := need(fd, c.fn); err != nil {
			return err
		}
		evs := events(fd.Body)
		if !(firstIdx(evs, c.sync) >= 0 && firstIdx(evs, c.sync) < firstIdx(evs, c.rename)) {
			sbr = false
		}
	}
	rwEv := events(segGo.fn("Segment", "Rewrite").Body)
	if up := segGo.fn("Segment", "RewriteUpTo"); up != nil && hasEv(rwEv, "call:src.RewriteUpTo") {
		// Rewrite delegates to the bounded variant
		rwEv = append(rwEv, events(up.Body)...)
	}
	if !(hasEv(rwEv, "call:dstLog.SyncAndClose") && hasEv(rwEv, "call:index.Write")) {
		sbr = false
	}
	iw := idxGo.fn("", "Write")
	if iw == nil || !hasEv(events(iw.Body), "call:w.SyncAndClose") {
		sbr = false
	}
	facts["syncBeforeRename"] = sbr

	// Sync fsyncs log then index
	ws := events(writerGo.fn("writer", "Sync").Body)
	facts["syncLogThenIndex"] = firstIdx(ws, "call:w.messages.Sync") >= 0 && firstIdx(ws, "call:w.messages.Sync") < firstIdx(ws, "call:w.items.Sync")

	// blocking wrappers (C18), plain and typed: Wait(ctx, offset) first and its error returned; then exactly
	// the plain call with the caller's arguments; Publish notifies with the offset Publish returned;
	// Close closes the notifier first; the notifier starts at NextOffset.
	for _, bw0 := range []struct{ file, recv, inner, wrap, prefix, byKeyArgs string }{
		{"log_blocking.go", "blockingLog", "l.Log", "WrapBlocking", "blocking", "l.ConsumeByKey key offset maxCount"},
		{"typed_blocking.go", "tlogBlocking", "l.TLog", "WrapTBlocking", "typedBlocking", "l.ConsumeByKey key empty offset maxCount"},
	} {
		blkGo, err := parseGo(filepath.Join(repo, bw0.file))
		if err != nil {
			return err
		}
		callArgs := func(body ast.Node, fun string) []string {
			var out []string
			found := false
			ast.Inspect(body, func(n ast.Node) bool {
				if c, ok := n.(*ast.CallExpr); ok && !found && exprStr(c.Fun) == fun {
					found = true
					for _, a := range c.Args {
						out = append(out, exprStr(a))
					}
				}
				return true
			})
			if !found {
				return nil
			}
			return append([]string{fun}, out...)
		}
		bw := true
		for _, c := range []struct{ fn, inner, args string }{
			{"ConsumeBlocking", "l.Consume", "l.Consume offset maxCount"},
			{"ConsumeByKeyBlocking", "l.ConsumeByKey", bw0.byKeyArgs},
		} {
			fd := blkGo.fn(bw0.recv, c.fn)
			if err := need(fd, c.fn); err != nil {
				return err
			}
			evs := events(fd.Body)
			var calls []string
			for _, e := range evs {
				if strings.HasPrefix(e.what, "call:") {
					calls = append(calls, e.what[5:])
				}
			}
			ok := len(calls) == 2 && calls[0] == "l.notify.Wait" && calls[1] == c.inner &&
				strings.Join(callArgs(fd.Body, "l.notify.Wait"), " ") == "l.notify.Wait ctx offset" &&
				strings.Join(callArgs(fd.Body, c.inner), " ") == c.args
			// shape: `if err := Wait(..); err != nil { return …, err }` then `return inner(..)`
			if ok && len(fd.Body.List) == 2 {
				ifs, isIf := fd.Body.List[0].(*ast.IfStmt)
				ret, isRet := fd.Body.List[1].(*ast.ReturnStmt)
				ok = isIf && isRet && ifs.Else == nil && len(ret.Results) == 1 && len(ifs.Body.List) == 1
				if ok {
					be, isBe := ifs.Cond.(*ast.BinaryExpr)
					ok = isBe && exprStr(be.X) == "err" && be.Op == token.NEQ && exprStr(be.Y) == "nil"
					r, isR := ifs.Body.List[0].(*ast.ReturnStmt)
					ok = ok && isR && len(r.Results) == 3 && exprStr(r.Results[2]) == "err" && exprStr(r.Results[1]) == "nil"
				}
			} else {
				ok = false
			}
			bw = bw && ok
		}
		facts[bw0.prefix+"WaitThenRead"] = bw
		bp := blkGo.fn(bw0.recv, "Publish")
		if err := need(bp, bw0.recv+".Publish"); err != nil {
			return err
		}
		bpe := events(bp.Body)
		pubArg := ""
		ast.Inspect(bp.Body, func(n ast.Node) bool {
			if as, ok := n.(*ast.AssignStmt); ok && len(as.Rhs) == 1 && len(as.Lhs) == 2 {
				if c, ok := as.Rhs[0].(*ast.CallExpr); ok && exprStr(c.Fun) == bw0.inner+".Publish" {
					pubArg = exprStr(as.Lhs[0])
				}
			}
			return true
		})
		facts[bw0.prefix+"PublishThenSet"] = firstIdx(bpe, "call:"+bw0.inner+".Publish") >= 0 && firstIdx(bpe, "call:"+bw0.inner+".Publish") < firstIdx(bpe, "call:l.notify.Set") &&
			pubArg != "" && strings.Join(callArgs(bp.Body, "l.notify.Set"), " ") == "l.notify.Set "+pubArg
		bc := blkGo.fn(bw0.recv, "Close")
		if err := need(bc, bw0.recv+".Close"); err != nil {
			return err
		}
		bce := events(bc.Body)
		facts[bw0.prefix+"CloseNotifierFirst"] = firstIdx(bce, "call:l.notify.Close") >= 0 && firstIdx(bce, "call:l.notify.Close") < firstIdx(bce, "call:"+bw0.inner+".Close")
		wb := blkGo.fn("", bw0.wrap)
		if err := need(wb, bw0.wrap); err != nil {
			return err
		}
		nextVar := ""
		ast.Inspect(wb.Body, func(n ast.Node) bool {
			if as, ok := n.(*ast.AssignStmt); ok && len(as.Rhs) == 1 && len(as.Lhs) == 2 {
				if c, ok := as.Rhs[0].(*ast.CallExpr); ok && exprStr(c.Fun) == "l.NextOffset" {
					nextVar = exprStr(as.Lhs[0])
				}
			}
			return true
		})
		facts[bw0.prefix+"StartsAtNextOffset"] = nextVar != "" && strings.Join(callArgs(wb.Body, "notify.NewOffset"), " ") == "notify.NewOffset "+nextVar

	}

	// the order of the file operations that swap rewritten files in (C05): the model's programs
	// (Klev/Crash.lean, swapProg / deleteProg) assume exactly these orders
	fileOps := func(fd *ast.FuncDecl) string {
		var out []string
		ast.Inspect(fd.Body, func(n ast.Node) bool {
			c, ok := n.(*ast.CallExpr)
			if !ok {
				return true
			}
			f := exprStr(c.Fun)
			if (f == "os.Remove" || f == "os.Rename") && len(c.Args) >= 1 {
				arg := exprStr(c.Args[len(c.Args)-1]) // the file that appears / disappears
				kind := "?"
				switch {
				case strings.HasSuffix(arg, ".Index"):
					kind = "index"
				case strings.HasSuffix(arg, ".Log"):
					kind = "log"
				}
				out = append(out, strings.TrimPrefix(f, "os.")+":"+kind)
			}
			return true
		})
		return strings.Join(out, ",")
	}
	strFacts := map[string]string{}
	for _, fn := range []string{"Override", "Rename", "Remove"} {
		fd := segGo.fn("Segment", fn)
		if err := need(fd, "Segment."+fn); err != nil {
			return err
		}
		strFacts["segment"+fn+"Steps"] = fileOps(fd)
	}
	// Segment.Migrate / Segment.Recover (the programs of Klev/CrashOpen.lean): removals, renames and whole-file
	// index writes in source order, each named after the file that appears / disappears; the temporary files
	// (`.migrate`, `.recover`) are not part of the directory state and are left out
	openOps := func(fd *ast.FuncDecl) string {
		var out []string
		ast.Inspect(fd.Body, func(n ast.Node) bool {
			c, ok := n.(*ast.CallExpr)
			if !ok {
				return true
			}
			f := exprStr(c.Fun)
			var arg, verb string
			// `s.Log + ".recover"`: a path built from a literal suffix names a temporary file
			if len(c.Args) >= 1 {
				if be, ok := c.Args[0].(*ast.BinaryExpr); ok && (f == "os.Remove") {
					if lit, ok := be.Y.(*ast.BasicLit); ok && (strings.Contains(lit.Value, "recover") || strings.Contains(lit.Value, "migrate")) {
						return true
					}
				}
			}
			switch {
			case f == "os.Remove" && len(c.Args) == 1:
				arg, verb = exprStr(c.Args[0]), "Remove"
			case f == "os.Rename" && len(c.Args) == 2:
				arg, verb = exprStr(c.Args[1]), "Rename"
			case f == "index.Write" && len(c.Args) >= 1:
				arg, verb = exprStr(c.Args[0]), "Rename" // written to a temp file and renamed in (index.Write)
			default:
				return true
			}
			switch {
			case arg == "s.Index":
				out = append(out, verb+":index")
			case arg == "s.Log" || arg == "log.Path":
				out = append(out, verb+":log")
			case strings.Contains(arg, "migrat") || strings.Contains(arg, "recover") || strings.Contains(arg, "restore"):
				// a temporary file
			default:
				out = append(out, verb+":?"+arg)
			}
			return true
		})
		return strings.Join(out, ",")
	}
	for _, fn := range []string{"Migrate", "Recover"} {
		fd := segGo.fn("Segment", fn)
		if err := need(fd, "Segment."+fn); err != nil {
			return err
		}
		strFacts["segment"+fn+"Steps"] = openOps(fd)
	}
	// reader.Delete / writer.Delete: which segment-level operations, in which order, on each path
	calls := func(fd *ast.FuncDecl, of ...string) string {
		var out []string
		ast.Inspect(fd.Body, func(n ast.Node) bool {
			if c, ok := n.(*ast.CallExpr); ok {
				f := exprStr(c.Fun)
				for _, o := range of {
					if f == o {
						out = append(out, f)
					}
				}
			}
			return true
		})
		return strings.Join(out, ",")
	}
	readerGo, err := parseGo(filepath.Join(repo, "log_reader.go"))
	if err != nil {
		return err
	}
	rd := readerGo.fn("reader", "Delete")
	if err := need(rd, "reader.Delete"); err != nil {
		return err
	}
	// ConsumeByKey on the head: the next offset is read once, before the keys (a publish in between is then either
	// returned or still ahead of the returned offset)
	{
		fd := readerGo.fn("reader", "ConsumeByKey")
		if err := need(fd, "reader.ConsumeByKey"); err != nil {
			return err
		}
		evs := events(fd.Body)
		n := 0
		for _, e := range evs {
			if e.what == "call:ix.GetNextOffset" {
				n++
			}
		}
		nx, ky := firstIdx(evs, "call:ix.GetNextOffset"), firstIdx(evs, "call:ix.Keys")
		facts["consumeByKeyNextFirst"] = n == 1 && nx >= 0 && nx < ky
	}
	strFacts["readerDeleteCalls"] = calls(rd, "rs.Remove", "r.segment.Remove", "rs.Rename", "rs.Override")
	// how often, and in which order, each read of a segment looks at its index (the head's index grows under the
	// writer lock while a reader holds only the segment-list read lock: one look is atomic, two looks need an argument)
	{
		var parts []string
		for _, fn := range []string{"Consume", "Get", "GetByKey", "GetByTime", "ConsumeByKey"} {
			fd := readerGo.fn("reader", fn)
			if err := need(fd, "reader."+fn); err != nil {
				return err
			}
			var looks []string
			ast.Inspect(fd.Body, func(n ast.Node) bool {
				if c, ok := n.(*ast.CallExpr); ok {
					f := exprStr(c.Fun)
					if strings.HasPrefix(f, "index.") || strings.HasPrefix(f, "ix.") {
						looks = append(looks, f[strings.IndexByte(f, '.')+1:])
					}
				}
				return true
			})
			parts = append(parts, fn+":"+strings.Join(looks, ","))
		}
		strFacts["readerIndexLooks"] = strings.Join(parts, ";")
	}
	wd := writerGo.fn("writer", "Delete")
	if err := need(wd, "writer.Delete"); err != nil {
		return err
	}
	strFacts["writerDeleteCalls"] = calls(wd, "rs.Remove", "w.segment.Remove", "rs.Rename", "rs.Override", "openWriter")

	names := make([]string, 0, len(facts))
	for k := range facts {
		names = append(names, k)
	}
	sort.Strings(names)
	fmt.Fprintln(w, "-- GENERATED by `kvh -profile facts` from the current /repo (go/ast). Do not edit.")
	fmt.Fprintln(w, "namespace Klev.Gen")
	for _, k := range names {
		fmt.Fprintf(w, "def %s : Bool := %v\n", k, facts[k])
	}
	var snames []string
	for k := range strFacts {
		snames = append(snames, k)
	}
	sort.Strings(snames)
	for _, k := range snames {
		fmt.Fprintf(w, "def %s : String := %q\n", k, strFacts[k])
	}
	fmt.Fprintln(w, "end Klev.Gen")
	return nil
}
