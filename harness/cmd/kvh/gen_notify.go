package main

// T2 — the synchronisation program of pkg/notify/notify.go (Wait, Set, Close) as Lean
// instruction lists (Klev/Gen/Notify.lean). The walker recognises exactly the statement
// shapes the model has an instruction for; anything else makes it fail loudly: the tie is
// broken, not guessed.

import (
	"bufio"
	"bytes"
	"fmt"
	"go/ast"
	"go/printer"
	"go/token"
	"path/filepath"
	"strings"
)

func nodeStr(fset *token.FileSet, n ast.Node) string {
	var b bytes.Buffer
	_ = printer.Fprint(&b, fset, n)
	return strings.Join(strings.Fields(b.String()), " ")
}

func isPause(fset *token.FileSet, st ast.Stmt) bool {
	return strings.HasPrefix(nodeStr(fset, st), "verifhook.Pause(")
}

func retKind(fset *token.FileSet, r *ast.ReturnStmt) (string, error) {
	switch s := nodeStr(fset, r); s {
	case "return":
		return ".none_", nil
	case "return nil":
		return ".nil", nil
	case "return ErrOffsetNotifyClosed":
		return ".errClosed", nil
	case "return ctx.Err()":
		return ".ctxErr", nil
	default:
		return "", fmt.Errorf("unrecognised return: %s", s)
	}
}

func soleReturn(fset *token.FileSet, b *ast.BlockStmt) (string, error) {
	var stmts []ast.Stmt
	for _, s := range b.List {
		if !isPause(fset, s) {
			stmts = append(stmts, s)
		}
	}
	if len(stmts) != 1 {
		return "", fmt.Errorf("block is not a single return: %s", nodeStr(fset, b))
	}
	r, ok := stmts[0].(*ast.ReturnStmt)
	if !ok {
		return "", fmt.Errorf("block is not a single return: %s", nodeStr(fset, b))
	}
	return retKind(fset, r)
}

func translateNotifyFn(fset *token.FileSet, fd *ast.FuncDecl, offsetParam string) ([]string, error) {
	var prog []string
	for _, st := range fd.Body.List {
		if isPause(fset, st) {
			continue
		}
		text := nodeStr(fset, st)
		switch x := st.(type) {
		case *ast.IfStmt:
			cond := nodeStr(fset, x.Cond)
			if x.Else != nil || x.Init != nil {
				return nil, fmt.Errorf("%s: unrecognised if: %s", fd.Name.Name, text)
			}
			switch cond {
			case "w.nextOffset.Load() > " + offsetParam:
				r, err := soleReturn(fset, x.Body)
				if err != nil || r != ".nil" {
					return nil, fmt.Errorf("%s: fast path must return nil: %s", fd.Name.Name, text)
				}
				prog = append(prog, ".fastPath")
			case "!ok":
				r, err := soleReturn(fset, x.Body)
				if err != nil {
					return nil, err
				}
				prog = append(prog, ".ifNotOkRet "+r)
			case "updated":
				r, err := soleReturn(fset, x.Body)
				if err != nil || r != ".nil" {
					return nil, fmt.Errorf("%s: unrecognised: %s", fd.Name.Name, text)
				}
				prog = append(prog, ".ifUpdRetNil")
			case "w.nextOffset.Load() < " + offsetParam:
				if body := nodeStr(fset, x.Body); body != "{ w.nextOffset.Store("+offsetParam+") }" {
					return nil, fmt.Errorf("%s: unrecognised store: %s", fd.Name.Name, text)
				}
				prog = append(prog, ".storeMax")
			default:
				return nil, fmt.Errorf("%s: unrecognised condition: %s", fd.Name.Name, text)
			}
		case *ast.AssignStmt:
			switch text {
			case "b, ok := <-w.barrier":
				prog = append(prog, ".recvBarrier")
			case "updated := w.nextOffset.Load() > " + offsetParam:
				prog = append(prog, ".probe")
			default:
				return nil, fmt.Errorf("%s: unrecognised assignment: %s", fd.Name.Name, text)
			}
		case *ast.SendStmt:
			switch text {
			case "w.barrier <- b":
				prog = append(prog, ".sendBarrierB")
			case "w.barrier <- make(chan struct{})":
				prog = append(prog, ".sendBarrierNew")
			default:
				return nil, fmt.Errorf("%s: unrecognised send: %s", fd.Name.Name, text)
			}
		case *ast.ExprStmt:
			switch text {
			case "close(b)":
				prog = append(prog, ".closeB")
			case "close(w.barrier)":
				prog = append(prog, ".closeBarrier")
			default:
				return nil, fmt.Errorf("%s: unrecognised call: %s", fd.Name.Name, text)
			}
		case *ast.SelectStmt:
			// select { case <-b: return nil; case <-ctx.Done(): return ctx.Err() }
			if len(x.Body.List) != 2 {
				return nil, fmt.Errorf("%s: unrecognised select: %s", fd.Name.Name, text)
			}
			seen := map[string]string{}
			for _, c := range x.Body.List {
				cc := c.(*ast.CommClause)
				if cc.Comm == nil {
					return nil, fmt.Errorf("%s: select with default: %s", fd.Name.Name, text)
				}
				r, err := soleReturn(fset, &ast.BlockStmt{List: cc.Body})
				if err != nil {
					return nil, err
				}
				seen[nodeStr(fset, cc.Comm)] = r
			}
			if seen["<-b"] != ".nil" || seen["<-ctx.Done()"] != ".ctxErr" {
				return nil, fmt.Errorf("%s: unrecognised select: %s", fd.Name.Name, text)
			}
			prog = append(prog, ".selectWait")
		case *ast.ReturnStmt:
			r, err := retKind(fset, x)
			if err != nil {
				return nil, err
			}
			prog = append(prog, ".ret "+r)
		default:
			return nil, fmt.Errorf("%s: unrecognised statement: %s", fd.Name.Name, text)
		}
	}
	// a function without result falls off its end: an implicit return
	if fd.Type.Results == nil {
		prog = append(prog, ".ret .none_")
	}
	return prog, nil
}

func genNotify(w *bufio.Writer, repo string) error {
	src, err := parseGo(filepath.Join(repo, "pkg/notify/notify.go"))
	if err != nil {
		return err
	}
	out := map[string][]string{}
	for _, c := range []struct{ name, lean, param string }{
		{"Wait", "waitProg", "offset"}, {"Set", "setProg", "nextOffset"}, {"Close", "closeProg", ""},
	} {
		fd := src.fn("Offset", c.name)
		if fd == nil {
			return fmt.Errorf("method Offset.%s not found", c.name)
		}
		prog, err := translateNotifyFn(src.fset, fd, c.param)
		if err != nil {
			return err
		}
		out[c.lean] = prog
	}
	// the constructor must create the barrier with capacity 1 and put the first channel in
	nw := src.fn("", "NewOffset")
	if nw == nil {
		return fmt.Errorf("NewOffset not found")
	}
	body := nodeStr(src.fset, nw.Body)
	capOne := strings.Contains(body, "make(chan chan struct{}, 1)") && strings.Contains(body, "w.barrier <- make(chan struct{})")
	fmt.Fprintln(w, "-- GENERATED by `kvh -profile notifyprog` from pkg/notify/notify.go of the current /repo. Do not edit.")
	fmt.Fprintln(w, "import Klev.Notify")
	fmt.Fprintln(w, "namespace Klev.Gen")
	fmt.Fprintln(w, "open Klev.Notify")
	for _, name := range []string{"waitProg", "setProg", "closeProg"} {
		items := make([]string, len(out[name]))
		for i, s := range out[name] {
			if strings.Contains(s, " ") {
				items[i] = "Instr" + s[:strings.Index(s, " ")] + " Ret" + s[strings.Index(s, " ")+1:]
			} else {
				items[i] = "Instr" + s
			}
		}
		fmt.Fprintf(w, "def %s : List Instr := [%s]\n", name, strings.Join(items, ", "))
	}
	fmt.Fprintf(w, "def barrierCapOneWithToken : Bool := %v\n", capOne)
	fmt.Fprintln(w, "end Klev.Gen")
	return nil
}
