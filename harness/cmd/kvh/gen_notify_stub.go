package main

import (
	"bufio"
	"fmt"
)

func genNotify(w *bufio.Writer, repo string) error {
	fmt.Fprintln(w, "-- GENERATED (stub)\nnamespace Klev.Gen\nend Klev.Gen")
	return nil
}
