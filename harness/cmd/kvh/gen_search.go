package main

// T4 — the search functions of pkg/index (Consume, Get, Time) and pkg/segment (Consume, Get)
// translated statement by statement from the current source (go/ast) into Lean definitions
// (Klev/Gen/Search.lean). The translation is literal: every slice access becomes `getI`
// (negative or too large = the distinguished result `panic`), every `for` a recursive
// function with fuel over the variables its body assigns, `return …, ErrX` the matching
// error constructor. The theorems of Klev/Proofs/SearchTie.lean state that these generated
// functions equal the hand-written ones the specifications are proved about; they are
// re-checked on every run. The translator refuses anything outside the small statement
// subset these functions use.

import (
	"bufio"
	"fmt"
	"go/ast"
	"go/token"
	"path/filepath"
	"sort"
	"strings"
)

type leanFn struct {
	fset     *token.FileSet
	name     string            // Lean name
	slice    string            // the slice parameter
	elem     string            // its element type in Lean: Item | Int
	params   [][2]string       // other parameters (name, type)
	retType  string            // Lean result type
	errMap   map[string]string // Go error ident → Lean result
	okRet    func(vals []string) string
	loops    []string
	loopN    int
	tmpN     int
	err      error
	types    map[string]string
	declared []string // variables in scope, in declaration order
}

func (t *leanFn) fail(n ast.Node, msg string) string {
	if t.err == nil {
		t.err = fmt.Errorf("%s: %s: %s", t.name, t.fset.Position(n.Pos()), msg)
	}
	return "sorry"
}

type bind struct{ tmp, slice, idx string }

func wrapBinds(bs []bind, body string) string {
	for i := len(bs) - 1; i >= 0; i-- {
		b := bs[i]
		body = fmt.Sprintf("(match getI %s (%s) with\n | .error x => .error x\n | .ok %s =>\n %s)", b.slice, b.idx, b.tmp, body)
	}
	return body
}

var fieldMap = map[string]string{"Offset": "off", "Position": "pos", "Timestamp": "ts"}

// expr translates an expression; slice accesses are hoisted into binds.
func (t *leanFn) expr(e ast.Expr, bs *[]bind) string {
	switch x := e.(type) {
	case *ast.BasicLit:
		if x.Kind == token.INT {
			return x.Value
		}
	case *ast.Ident:
		return x.Name
	case *ast.ParenExpr:
		return "(" + t.expr(x.X, bs) + ")"
	case *ast.UnaryExpr:
		if x.Op == token.SUB {
			return "(-" + t.expr(x.X, bs) + ")"
		}
	case *ast.SelectorExpr:
		if id, ok := x.X.(*ast.Ident); ok && id.Name == "message" {
			switch x.Sel.Name {
			case "OffsetOldest":
				return "offsetOldest"
			case "OffsetNewest":
				return "offsetNewest"
			}
		}
		if f, ok := fieldMap[x.Sel.Name]; ok {
			return t.expr(x.X, bs) + "." + f
		}
	case *ast.IndexExpr:
		id, ok := x.X.(*ast.Ident)
		if !ok || id.Name != t.slice {
			return t.fail(e, "index of something other than the slice parameter")
		}
		idx := t.expr(x.Index, bs)
		t.tmpN++
		tmp := fmt.Sprintf("v%d", t.tmpN)
		*bs = append(*bs, bind{tmp, t.slice, idx})
		return tmp
	case *ast.CallExpr:
		switch f := x.Fun.(type) {
		case *ast.Ident:
			if f.Name == "len" && len(x.Args) == 1 {
				if id, ok := x.Args[0].(*ast.Ident); ok && id.Name == t.slice {
					return "(" + t.slice + ".length : Int)"
				}
			}
		case *ast.SelectorExpr:
			if f.Sel.Name == "GetOffset" && len(x.Args) == 0 && t.elem == "Int" {
				return t.expr(f.X, bs) // a segment is represented by its base offset
			}
			if id, ok := f.X.(*ast.Ident); ok && id.Name == "sort" && f.Sel.Name == "Search" && len(x.Args) == 2 {
				n := t.expr(x.Args[0], bs)
				fl, ok := x.Args[1].(*ast.FuncLit)
				if !ok || len(fl.Type.Params.List) != 1 || len(fl.Body.List) != 1 {
					return t.fail(e, "sort.Search predicate shape")
				}
				ret, ok := fl.Body.List[0].(*ast.ReturnStmt)
				if !ok || len(ret.Results) != 1 {
					return t.fail(e, "sort.Search predicate shape")
				}
				arg := fl.Type.Params.List[0].Names[0].Name
				var pbs []bind
				cond := t.expr(ret.Results[0], &pbs)
				body := "decide (" + cond + ")"
				for i := len(pbs) - 1; i >= 0; i-- {
					b := pbs[i]
					body = fmt.Sprintf("(match getI %s (%s) with | .ok %s => %s | .error _ => false)", b.slice, b.idx, b.tmp, body)
				}
				return fmt.Sprintf("(Index.sortSearchP (fun %s => %s) (%s.length + 1) 0 (%s))", arg, body, t.slice, n)
			}
		}
	case *ast.BinaryExpr:
		l, r := t.expr(x.X, bs), t.expr(x.Y, bs)
		switch x.Op {
		case token.ADD:
			return "(" + l + " + " + r + ")"
		case token.SUB:
			return "(" + l + " - " + r + ")"
		case token.QUO:
			return "(" + l + " / " + r + ")"
		case token.LSS:
			return l + " < " + r
		case token.LEQ:
			return l + " ≤ " + r
		case token.GTR:
			return l + " > " + r
		case token.GEQ:
			return l + " ≥ " + r
		case token.EQL:
			return l + " = " + r
		}
	}
	return t.fail(e, "unsupported expression")
}

func (t *leanFn) typeOf(e ast.Expr) string {
	switch x := e.(type) {
	case *ast.IndexExpr:
		return t.elem
	case *ast.Ident:
		if ty, ok := t.types[x.Name]; ok {
			return ty
		}
	case *ast.ParenExpr:
		return t.typeOf(x.X)
	}
	return "Int"
}

func (t *leanFn) declare(name, ty string) {
	if _, ok := t.types[name]; !ok {
		t.declared = append(t.declared, name)
	}
	t.types[name] = ty
}

// assigned lists the already declared variables a statement list assigns (loop-carried).
func (t *leanFn) assigned(stmts []ast.Stmt) []string {
	set := map[string]bool{}
	for _, st := range stmts {
		ast.Inspect(st, func(n ast.Node) bool {
			if as, ok := n.(*ast.AssignStmt); ok && as.Tok == token.ASSIGN {
				for _, l := range as.Lhs {
					if id, ok := l.(*ast.Ident); ok {
						set[id.Name] = true
					}
				}
			}
			return true
		})
	}
	var out []string
	for _, d := range t.declared {
		if set[d] {
			out = append(out, d)
		}
	}
	return out
}

// comp compiles statements; k produces the code that runs if they fall through.
func (t *leanFn) comp(stmts []ast.Stmt, k func() string) string {
	if len(stmts) == 0 {
		return k()
	}
	st, rest := stmts[0], stmts[1:]
	kRest := func() string { return t.comp(rest, k) }
	switch x := st.(type) {
	case *ast.ReturnStmt:
		return t.ret(x)
	case *ast.DeclStmt:
		return kRest() // `var v O`: only used as the dropped first result
	case *ast.AssignStmt:
		if len(x.Lhs) != 1 || len(x.Rhs) != 1 {
			return t.fail(st, "multi-assignment")
		}
		id, ok := x.Lhs[0].(*ast.Ident)
		if !ok {
			return t.fail(st, "assignment target")
		}
		var bs []bind
		ty := t.typeOf(x.Rhs[0])
		v := t.expr(x.Rhs[0], &bs)
		if x.Tok == token.DEFINE {
			t.declare(id.Name, ty)
		} else if _, ok := t.types[id.Name]; !ok {
			return t.fail(st, "assignment to an undeclared variable")
		}
		return wrapBinds(bs, fmt.Sprintf("let %s : %s := %s\n%s", id.Name, t.types[id.Name], v, kRest()))
	case *ast.IfStmt:
		if x.Init != nil {
			return t.fail(st, "if with init")
		}
		var bs []bind
		c := t.expr(x.Cond, &bs)
		thenC := t.comp(x.Body.List, kRest)
		elseC := ""
		switch e := x.Else.(type) {
		case nil:
			elseC = kRest()
		case *ast.BlockStmt:
			elseC = t.comp(e.List, kRest)
		default:
			elseC = t.comp([]ast.Stmt{e}, kRest)
		}
		return wrapBinds(bs, fmt.Sprintf("(if %s then\n%s\nelse\n%s)", c, thenC, elseC))
	case *ast.SwitchStmt:
		if x.Init != nil {
			return t.fail(st, "switch with init")
		}
		var bs []bind
		tag := ""
		if x.Tag != nil {
			tag = t.expr(x.Tag, &bs)
		}
		type arm struct {
			cond string
			body []ast.Stmt
		}
		var arms []arm
		var def []ast.Stmt
		hasDef := false
		for _, cc := range x.Body.List {
			cl := cc.(*ast.CaseClause)
			if cl.List == nil {
				def, hasDef = cl.Body, true
				continue
			}
			if len(cl.List) != 1 {
				return t.fail(cl, "case with several expressions")
			}
			c := t.expr(cl.List[0], &bs)
			if tag != "" {
				c = tag + " = " + c
			}
			arms = append(arms, arm{c, cl.Body})
		}
		out := ""
		if hasDef {
			out = t.comp(def, kRest)
		} else {
			out = kRest()
		}
		for i := len(arms) - 1; i >= 0; i-- {
			out = fmt.Sprintf("(if %s then\n%s\nelse\n%s)", arms[i].cond, t.comp(arms[i].body, kRest), out)
		}
		return wrapBinds(bs, out)
	case *ast.ForStmt:
		if x.Init != nil || x.Post != nil || x.Cond == nil {
			return t.fail(st, "for with init/post or without condition")
		}
		lv := t.assigned(x.Body.List)
		if len(lv) == 0 {
			return t.fail(st, "loop assigns nothing")
		}
		t.loopN++
		lname := fmt.Sprintf("%s_loop%d", t.name, t.loopN)
		// closure conversion: everything declared so far that is not loop-carried is a parameter
		var cparams, cargs []string
		isLV := map[string]bool{}
		for _, v := range lv {
			isLV[v] = true
		}
		cparams = append(cparams, fmt.Sprintf("(%s : List %s)", t.slice, t.elem))
		cargs = append(cargs, t.slice)
		for _, p := range t.params {
			cparams = append(cparams, fmt.Sprintf("(%s : %s)", p[0], p[1]))
			cargs = append(cargs, p[0])
		}
		for _, d := range t.declared {
			if !isLV[d] {
				cparams = append(cparams, fmt.Sprintf("(%s : %s)", d, t.types[d]))
				cargs = append(cargs, d)
			}
		}
		var lvTypes, lvPat []string
		for _, v := range lv {
			lvTypes = append(lvTypes, t.types[v])
			lvPat = append(lvPat, v)
		}
		savedDecl := append([]string(nil), t.declared...)
		savedTypes := map[string]string{}
		for k2, v2 := range t.types {
			savedTypes[k2] = v2
		}
		var bs []bind
		cond := t.expr(x.Cond, &bs)
		again := func() string { return fmt.Sprintf("%s %s fuel %s", lname, strings.Join(cargs, " "), strings.Join(lvPat, " ")) }
		body := t.comp(x.Body.List, again)
		// variables declared inside the body do not outlive it
		t.declared, t.types = savedDecl, savedTypes
		after := t.comp(rest, k)
		lbody := wrapBinds(bs, fmt.Sprintf("(if %s then\n%s\nelse\n%s)", cond, body, after))
		lbody = "    " + strings.ReplaceAll(lbody, "\n", "\n    ")
		def := fmt.Sprintf("def %s %s : Nat → %s → %s\n  | 0%s => .error .diverged\n  | fuel + 1, %s =>\n%s\n",
			lname, strings.Join(cparams, " "), strings.Join(lvTypes, " → "), t.retType,
			strings.Repeat(", _", len(lv)), strings.Join(lvPat, ", "), lbody)
		t.loops = append(t.loops, def)
		return fmt.Sprintf("%s %s (%s.length + 1) %s", lname, strings.Join(cargs, " "), t.slice, strings.Join(lvPat, " "))
	}
	return t.fail(st, "unsupported statement")
}

func (t *leanFn) ret(r *ast.ReturnStmt) string {
	n := len(r.Results)
	if n < 2 {
		return t.fail(r, "return shape")
	}
	last := r.Results[n-1]
	if id, ok := last.(*ast.Ident); ok && strings.HasPrefix(id.Name, "Err") {
		if res, ok := t.errMap[id.Name]; ok {
			return res
		}
		return t.fail(r, "unknown error "+id.Name)
	}
	var bs []bind
	var vals []string
	for _, e := range r.Results[:n-1] {
		vals = append(vals, t.expr(e, &bs))
	}
	if id, ok := last.(*ast.Ident); !ok || id.Name != "nil" {
		// two-result functions without an error (segment.Consume)
		vals = append(vals, t.expr(last, &bs))
	}
	return wrapBinds(bs, t.okRet(vals))
}

func (t *leanFn) emit(w *bufio.Writer, fd *ast.FuncDecl) {
	t.types = map[string]string{}
	body := t.comp(fd.Body.List, func() string { return ".error .panic" })
	for _, l := range t.loops {
		fmt.Fprintln(w, l)
	}
	var ps []string
	ps = append(ps, fmt.Sprintf("(%s : List %s)", t.slice, t.elem))
	for _, p := range t.params {
		ps = append(ps, fmt.Sprintf("(%s : %s)", p[0], p[1]))
	}
	fmt.Fprintf(w, "def %s %s : %s :=\n%s\n\n", t.name, strings.Join(ps, " "), t.retType, body)
}

func genSearch(w *bufio.Writer, repo string) error {
	offGo, err := parseGo(filepath.Join(repo, "pkg/index/offset.go"))
	if err != nil {
		return err
	}
	timGo, err := parseGo(filepath.Join(repo, "pkg/index/times.go"))
	if err != nil {
		return err
	}
	segGo, err := parseGo(filepath.Join(repo, "pkg/segment/index.go"))
	if err != nil {
		return err
	}
	idxErr := map[string]string{
		"ErrOffsetIndexEmpty": ".error .empty", "ErrOffsetBeforeStart": ".error .beforeStart", "ErrOffsetAfterEnd": ".error .afterEnd",
		"ErrOffsetNotFound": ".error .notFound", "ErrTimeIndexEmpty": ".error .timeEmpty", "ErrTimeBeforeStart": ".error .timeBefore",
		"ErrTimeAfterEnd": ".error .timeAfter",
	}
	fns := []struct {
		src  *srcFile
		go_  string
		t    *leanFn
		args int
	}{
		{offGo, "Consume", &leanFn{name: "indexConsume", slice: "items", elem: "Item", params: [][2]string{{"offset", "Int"}}, retType: "IRes (Int × Int)",
			errMap: idxErr, okRet: func(v []string) string { return fmt.Sprintf(".ok (%s, %s)", v[0], v[1]) }}, 2},
		{offGo, "Get", &leanFn{name: "indexGet", slice: "items", elem: "Item", params: [][2]string{{"offset", "Int"}}, retType: "IRes Int",
			errMap: idxErr, okRet: func(v []string) string { return fmt.Sprintf(".ok (%s)", v[0]) }}, 2},
		{timGo, "Time", &leanFn{name: "indexTime", slice: "items", elem: "Item", params: [][2]string{{"ts", "Int"}}, retType: "IRes Int",
			errMap: idxErr, okRet: func(v []string) string { return fmt.Sprintf(".ok (%s)", v[0]) }}, 2},
		{segGo, "Consume", &leanFn{name: "segConsume", slice: "segments", elem: "Int", params: [][2]string{{"offset", "Int"}}, retType: "IRes Int",
			errMap: map[string]string{}, okRet: func(v []string) string { return fmt.Sprintf(".ok (%s)", v[len(v)-1]) }}, 2},
		{segGo, "Get", &leanFn{name: "segGet", slice: "segments", elem: "Int", params: [][2]string{{"offset", "Int"}}, retType: "IRes (Except SegSearch.GetErr Int)",
			errMap: map[string]string{"ErrOffsetRelative": ".ok (.error .relative)", "ErrOffsetBeforeStart": ".ok (.error .beforeStart)"},
			okRet:  func(v []string) string { return fmt.Sprintf(".ok (.ok (%s))", v[len(v)-1]) }}, 2},
	}
	fmt.Fprintln(w, "-- GENERATED by `kvh -profile searchprog` from pkg/index/offset.go, pkg/index/times.go and pkg/segment/index.go of the current /repo. Do not edit.")
	fmt.Fprintln(w, "import Klev.Index")
	fmt.Fprintln(w, "set_option linter.unusedVariables false")
	fmt.Fprintln(w, "namespace Klev.Gen.Search")
	fmt.Fprintln(w, "open Klev")
	var names []string
	for _, f := range fns {
		fd := f.src.fn("", f.go_)
		if fd == nil {
			return fmt.Errorf("function %s not found", f.go_)
		}
		if fd.Type.Params.NumFields() != f.args {
			return fmt.Errorf("%s: parameter list changed", f.go_)
		}
		// the parameter names of the source are the variable names of the translation
		var pnames []string
		for _, p := range fd.Type.Params.List {
			for _, n := range p.Names {
				pnames = append(pnames, n.Name)
			}
		}
		f.t.fset = f.src.fset
		f.t.slice = pnames[0]
		f.t.params[0][0] = pnames[1]
		f.t.emit(w, fd)
		if f.t.err != nil {
			return f.t.err
		}
		names = append(names, f.t.name)
	}
	sort.Strings(names)
	fmt.Fprintln(w, "end Klev.Gen.Search")
	return nil
}
