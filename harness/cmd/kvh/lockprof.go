package main

// The `lock` profile (C19): several handles on one directory, in both modes, with opens
// that fail after the lock was taken (corrupt head index + Check), publishes through the
// writer, and a digest of the *.log files around read-only sessions.

import (
	"bufio"
	"crypto/sha256"
	"encoding/hex"
	"fmt"
	"os"
	"path/filepath"
	"sort"
	"strings"
	"time"

	"github.com/klev-dev/klevdb"
)

type lockRun struct {
	dir     string
	handles map[string]klevdb.Log
	rw      map[string]bool // handle opened read-write
}

func newestLog(dir string) string {
	ents, _ := os.ReadDir(dir)
	var names []string
	for _, e := range ents {
		if strings.HasSuffix(e.Name(), ".log") {
			names = append(names, e.Name())
		}
	}
	sort.Strings(names)
	if len(names) == 0 {
		return ""
	}
	return filepath.Join(dir, names[len(names)-1])
}

func classifyOpen(err error) string {
	if err == nil {
		return "ok"
	}
	if strings.Contains(err.Error(), "already locked") || strings.Contains(err.Error(), "already writing locked") {
		return "err locked"
	}
	return errRes(err)
}

func newestIndex(dir string) string {
	ents, _ := os.ReadDir(dir)
	var names []string
	for _, e := range ents {
		if strings.HasSuffix(e.Name(), ".index") {
			names = append(names, e.Name())
		}
	}
	sort.Strings(names)
	if len(names) == 0 {
		return ""
	}
	return filepath.Join(dir, names[len(names)-1])
}

func logDigest(dir string) string {
	ents, _ := os.ReadDir(dir)
	h := sha256.New()
	for _, e := range ents {
		if strings.HasSuffix(e.Name(), ".log") {
			b, _ := os.ReadFile(filepath.Join(dir, e.Name()))
			fmt.Fprintf(h, "%s:%d:", e.Name(), len(b))
			h.Write(b)
		}
	}
	return hex.EncodeToString(h.Sum(nil))[:16]
}

func (lr *lockRun) exec(line string) string {
	t := strings.Fields(line)
	switch t[0] {
	case "mh.setup":
		_ = os.RemoveAll(lr.dir)
		l, err := klevdb.Open(lr.dir, klevdb.Options{CreateDirs: true, KeyIndex: true, Rollover: 200})
		if err != nil {
			return errRes(err)
		}
		for i := 0; i < 3; i++ {
			_, _ = l.Publish([]klevdb.Message{{Key: []byte("k"), Value: []byte(strings.Repeat("v", 60)), Time: time.UnixMicro(int64(1000 + i))}})
		}
		if err := l.Close(); err != nil {
			return errRes(err)
		}
		return "ok"
	case "mh.open": // mh.open <k> ro=0|1 fail=0|1
		k := t[1]
		if lr.handles[k] != nil {
			return "err already"
		}
		m := kv(t[2:])
		opts := klevdb.Options{KeyIndex: true, Rollover: 200, Readonly: m["ro"] == "1"}
		var saved []byte
		ix := ""
		if m["fail"] == "1" {
			// make Open fail *after* it has taken the lock: a corrupted head index + Check
			ix = newestIndex(lr.dir)
			saved, _ = os.ReadFile(ix)
			_ = os.WriteFile(ix, append(append([]byte(nil), saved...), 0x01, 0x02, 0x03), 0600)
			opts.Check = true
		}
		if m["fail"] == "2" {
			// a read-only Open with Recover on a torn head log: it must fail and change no file
			// (only issued while no writer is open)
			lp := newestLog(lr.dir)
			savedLog, _ := os.ReadFile(lp)
			if len(savedLog) < 40 {
				return "bad-op"
			}
			_ = os.WriteFile(lp, savedLog[:len(savedLog)-3], 0600)
			d1 := logDigest(lr.dir)
			opts.Recover = true
			l, err := klevdb.Open(lr.dir, opts)
			d2 := logDigest(lr.dir)
			if err == nil {
				_ = l.Close()
			}
			_ = os.WriteFile(lp, savedLog, 0600)
			same := "same"
			if d1 != d2 {
				same = "changed"
				if ix := newestIndex(lr.dir); ix != "" {
					// the index may have been rewritten too; it is derived data and is rebuilt
					_ = os.Remove(ix)
				}
			}
			if err == nil {
				return "ok " + same
			}
			return classifyOpen(err) + " " + same
		}
		l, err := klevdb.Open(lr.dir, opts)
		if ix != "" {
			_ = os.WriteFile(ix, saved, 0600)
		}
		if err != nil {
			return classifyOpen(err)
		}
		lr.handles[k] = l
		if !opts.Readonly {
			lr.rw[k] = true
		}
		return "ok"
	case "mh.close":
		l := lr.handles[t[1]]
		if l == nil {
			return "err closed"
		}
		delete(lr.handles, t[1])
		delete(lr.rw, t[1])
		if err := l.Close(); err != nil {
			return errRes(err)
		}
		return "ok"
	case "mh.pub":
		l := lr.handles[t[1]]
		if l == nil {
			return "err closed"
		}
		n, err := l.Publish([]klevdb.Message{{Key: []byte("p"), Value: []byte("x"), Time: time.UnixMicro(5000)}})
		if err != nil {
			return errRes(err)
		}
		return fmt.Sprintf("ok %d", n)
	case "mh.del":
		l := lr.handles[t[1]]
		if l == nil {
			return "err closed"
		}
		_, _, err := l.Delete(map[int64]struct{}{0: {}})
		if err != nil {
			return errRes(err)
		}
		return "ok"
	case "mh.digest":
		return "ok " + logDigest(lr.dir)
	case "mh.missing": // Open of a directory that does not exist (no CreateDirs)
		_, err := klevdb.Open(filepath.Join(lr.dir, "nope", "nope"), klevdb.Options{})
		if err != nil {
			return "err other"
		}
		return "ok"
	}
	return "bad-op"
}

func (lr *lockRun) closeAll() {
	for k, l := range lr.handles {
		_ = l.Close()
		delete(lr.handles, k)
		delete(lr.rw, k)
	}
}

func genLock(w *bufio.Writer, root string, seed uint64, n, length int) {
	r := &rng{s: seed}
	lr := &lockRun{dir: filepath.Join(root, "mh"), handles: map[string]klevdb.Log{}, rw: map[string]bool{}}
	emit := func(line string) string {
		res := lr.exec(line)
		fmt.Fprintf(w, "%s => %s\n", line, res)
		return res
	}
	if length < 4 {
		length = 8
	}
	for h := 0; h < n; h++ {
		fmt.Fprintf(w, "# hist %d seed=%d flavor=lock\n", h, seed)
		lr.closeAll()
		emit("mh.setup")
		emit("mh.digest")
		for i := 0; i < length; i++ {
			k := r.intn(3)
			switch r.intn(10) {
			case 0, 1:
				emit(fmt.Sprintf("mh.open %d ro=0 fail=0", k))
			case 2, 3:
				emit(fmt.Sprintf("mh.open %d ro=1 fail=0", k))
			case 4:
				if len(lr.rw) == 0 && lr.handles[fmt.Sprint(k)] == nil && r.chance(40) {
					emit(fmt.Sprintf("mh.open %d ro=1 fail=2", k))
				} else {
					emit(fmt.Sprintf("mh.open %d ro=%d fail=1", k, r.intn(2)))
				}
			case 5, 6:
				emit(fmt.Sprintf("mh.close %d", k))
			case 7:
				emit(fmt.Sprintf("mh.pub %d", k))
			case 8:
				emit(fmt.Sprintf("mh.del %d", k))
			default:
				emit("mh.missing")
			}
			emit("mh.digest")
		}
		lr.closeAll()
	}
}
