// kvh — the klevdb verification harness. It links the real packages from /repo (built
// with -tags verif), runs generated or replayed operation sequences on them in-process
// and writes one line per operation: "<op> => <canonical result>".
package main

import (
	"bufio"
	"flag"
	"fmt"
	"os"
	"strings"
)

func scratchRoot() string {
	base := os.Getenv("KVH_TMP")
	if base == "" {
		if st, err := os.Stat("/dev/shm"); err == nil && st.IsDir() {
			base = "/dev/shm"
		} else {
			base = os.TempDir()
		}
	}
	d, err := os.MkdirTemp(base, "kvh-")
	if err != nil {
		fmt.Fprintln(os.Stderr, "scratch:", err)
		os.Exit(2)
	}
	return d
}

func main() {
	profile := flag.String("profile", "seq", "seq | replay | fmt | damage | crash | notify | lock | sched | consts")
	flv := flag.String("flavor", "C01", "property flavour of the seq profile")
	seed := flag.Uint64("seed", 1, "PRNG seed")
	hist := flag.Int("hist", 10, "number of histories / cases")
	ops := flag.Int("ops", 30, "operations per history")
	outPath := flag.String("out", "-", "trace output file")
	in := flag.String("in", "", "ops file for -profile replay")
	repo := flag.String("repo", "/repo", "source tree for the translators")
	flag.Parse()

	var w *bufio.Writer
	if *outPath == "-" {
		w = bufio.NewWriterSize(os.Stdout, 1<<20)
	} else {
		f, err := os.Create(*outPath)
		if err != nil {
			fmt.Fprintln(os.Stderr, err)
			os.Exit(2)
		}
		defer f.Close()
		w = bufio.NewWriterSize(f, 1<<20)
	}
	defer w.Flush()

	switch *profile {
	case "consts":
		genConsts(w)
		return
	case "notifyprog":
		if err := genNotify(w, *repo); err != nil {
			w.Flush()
			fmt.Fprintln(os.Stderr, "notifyprog:", err)
			os.Exit(1)
		}
		return
	case "searchprog":
		if err := genSearch(w, *repo); err != nil {
			w.Flush()
			fmt.Fprintln(os.Stderr, "searchprog:", err)
			os.Exit(1)
		}
		return
	case "facts":
		if err := genFacts(w, *repo); err != nil {
			w.Flush()
			fmt.Fprintln(os.Stderr, "facts:", err)
			os.Exit(1)
		}
		return
	}

	root := scratchRoot()
	defer os.RemoveAll(root)

	switch *profile {
	case "seq":
		fl, ok := flavors[*flv]
		if !ok {
			fmt.Fprintln(os.Stderr, "unknown flavor", *flv)
			os.Exit(2)
		}
		g := &seqGen{fl: fl, run: NewRunner(root), out: w}
		master := &rng{s: *seed}
		anyHang := false
		for i := 0; i < *hist; i++ {
			g.history(i, master.next(), *ops)
			anyHang = anyHang || g.hung
		}
		if anyHang {
			// leaked goroutines may still spin inside the library: leave without waiting for them
			w.Flush()
			os.RemoveAll(root)
			os.Exit(0)
		}
		g.run.Reset()
	case "replay":
		// every non-comment line of the ops file is "<op>" or "<op> => <old result>"
		data, err := os.ReadFile(*in)
		if err != nil {
			fmt.Fprintln(os.Stderr, err)
			os.Exit(2)
		}
		run := NewRunner(root)
		run.Reset()
		for _, line := range strings.Split(string(data), "\n") {
			line = strings.TrimSpace(line)
			if line == "" {
				continue
			}
			if strings.HasPrefix(line, "#") {
				if strings.HasPrefix(line, "# hist") {
					run.Reset()
				}
				fmt.Fprintln(w, line)
				continue
			}
			if i := strings.Index(line, " => "); i >= 0 {
				line = line[:i]
			}
			lhs, res, ok := execWithDeadline(run, line)
			fmt.Fprintf(w, "%s => %s\n", lhs, res)
			if !ok {
				w.Flush()
				os.RemoveAll(root)
				os.Exit(0)
			}
		}
		run.Reset()
	default:
		if !runExtraProfile(*profile, root, w, *seed, *hist, *ops) {
			fmt.Fprintln(os.Stderr, "unknown profile", *profile)
			os.Exit(2)
		}
	}
}
