package main

// The `notify` profile (C18): interleavings of Wait / Set / Close on one notify.Offset,
// driven through the verif pause points. One controller thread decides who runs; every
// goroutine of the implementation stops at each pause point until the controller lets it
// go. After every event the controller waits for quiescence and records the status of every
// thread: held at a pause point, blocked inside the library, or done with its result.

import (
	"bufio"
	"context"
	"errors"
	"fmt"
	"runtime"
	"strconv"
	"strings"
	"sync"
	"time"

	"github.com/klev-dev/klevdb/pkg/notify"
	"github.com/klev-dev/klevdb/pkg/verifhook"
)

func goid() int64 {
	var buf [64]byte
	n := runtime.Stack(buf[:], false)
	f := strings.Fields(string(buf[:n]))
	id, _ := strconv.ParseInt(f[1], 10, 64)
	return id
}

type nthread struct {
	kind   string // wait | set | close
	arg    int64
	ctx    context.Context
	cancel context.CancelFunc
	gate   chan struct{} // the controller sends to let the goroutine pass its current pause
	ack    chan struct{} // ... and the goroutine confirms that it is past it (its status says "running")
	gid    int64         // its goroutine id, to ask the runtime whether it is really blocked
	mu     sync.Mutex
	status string // new | running | held:<point> | done:<res>
	isParked bool // was let go from wait.released: if it does not return it is parked in its select
}

func (t *nthread) get() string {
	t.mu.Lock()
	defer t.mu.Unlock()
	return t.status
}
func (t *nthread) set(s string) {
	t.mu.Lock()
	t.status = s
	t.mu.Unlock()
}

type nctl struct {
	mu      sync.Mutex
	byGo    map[int64]*nthread
	free    bool // no more pausing (tear-down)
	threads []*nthread
	off     *notify.Offset
}

var pausePc = map[string]int{
	"wait.fast": 1, "wait.token": 3, "wait.probed": 4, "wait.released": 5,
	"set.token": 2, "set.stored": 3, "set.closed": 4,
	"close.token": 2, "close.closed-b": 3,
}

func (c *nctl) hook(name string) {
	c.mu.Lock()
	t := c.byGo[goid()]
	free := c.free
	c.mu.Unlock()
	if t == nil || free {
		return
	}
	t.set("held:" + name)
	<-t.gate
	t.set("running")
	t.ack <- struct{}{}
}

// release lets a thread that is new or held at a pause point go on, and returns once its status says so (a
// status read afterwards is never the stale "held" of the pause it just left, however loaded the machine is).
func (t *nthread) release() {
	t.gate <- struct{}{}
	<-t.ack
}

// goStates: what the runtime says every goroutine is doing ("running", "runnable", "chan receive", "select", …).
func goStates() map[int64]string {
	buf := make([]byte, 1<<18)
	for {
		n := runtime.Stack(buf, true)
		if n < len(buf) {
			buf = buf[:n]
			break
		}
		buf = make([]byte, 2*len(buf))
	}
	out := map[int64]string{}
	for _, blk := range strings.Split(string(buf), "\n\n") {
		if !strings.HasPrefix(blk, "goroutine ") {
			continue
		}
		hdr := blk
		if i := strings.IndexByte(blk, '\n'); i >= 0 {
			hdr = blk[:i]
		}
		f := strings.Fields(hdr)
		i, j := strings.IndexByte(hdr, '['), strings.LastIndexByte(hdr, ']')
		if len(f) < 2 || i < 0 || j < i {
			continue
		}
		id, _ := strconv.ParseInt(f[1], 10, 64)
		out[id] = hdr[i+1 : j]
	}
	return out
}

// reallyBlocked: the goroutine waits on a channel, a select or a lock (and is not merely waiting for a CPU).
func reallyBlocked(state string) bool {
	for _, p := range []string{"chan receive", "chan send", "select", "sync.", "semacquire"} {
		if strings.HasPrefix(state, p) {
			return true
		}
	}
	return false // running, runnable, syscall, a wait inside the runtime (GC assist, …), or gone
}

func (c *nctl) start(t *nthread) {
	go func() {
		c.mu.Lock()
		c.byGo[goid()] = t
		c.mu.Unlock()
		t.mu.Lock()
		t.gid = goid()
		t.mu.Unlock()
		<-t.gate // wait for the first `go`
		t.set("running")
		t.ack <- struct{}{}
		res := "nil"
		func() {
			defer func() {
				if p := recover(); p != nil {
					res = "panic"
				}
			}()
			switch t.kind {
			case "wait":
				err := c.off.Wait(t.ctx, t.arg)
				res = notifyErr(err)
			case "set":
				c.off.Set(t.arg)
				res = "none"
			case "close":
				res = notifyErr(c.off.Close())
			}
		}()
		t.set("done:" + res)
	}()
}

func notifyErr(err error) string {
	switch {
	case err == nil:
		return "nil"
	case errors.Is(err, notify.ErrOffsetNotifyClosed):
		return "errclosed"
	case errors.Is(err, context.Canceled), errors.Is(err, context.DeadlineExceeded):
		return "ctx"
	default:
		return "other"
	}
}

// settle waits until no thread changes status for a while; a thread that is "running" and
// stays so is blocked inside the library.
func (c *nctl) settle() []string {
	var last []string
	stable := 0
	for i := 0; i < 40000 && stable < 6; i++ {
		time.Sleep(150 * time.Microsecond)
		cur := make([]string, len(c.threads))
		for j, t := range c.threads {
			cur[j] = t.get()
		}
		if last != nil && strings.Join(cur, ",") == strings.Join(last, ",") {
			stable++
		} else {
			stable = 0
		}
		last = cur
		if stable >= 6 {
			// "running" and unchanged for a millisecond is not yet "blocked inside the library": on a loaded
			// machine the goroutine may only be waiting for a CPU. The runtime knows the difference.
			var states map[int64]string
			for j, t := range c.threads {
				if cur[j] != "running" {
					continue
				}
				if states == nil {
					states = goStates()
				}
				t.mu.Lock()
				gid := t.gid
				t.mu.Unlock()
				if !reallyBlocked(states[gid]) {
					stable = 0
					break
				}
			}
			// a goroutine may have gone from "running" to the gate of its next pause point between the reading of
			// the statuses and the question to the runtime (there it is blocked, too): the statuses must still be these
			if states != nil {
				for j, t := range c.threads {
					if t.get() != cur[j] {
						stable = 0
						break
					}
				}
			}
		}
	}
	return last
}

func (c *nctl) fmtStatuses(st []string) string {
	out := make([]string, len(st))
	for i, s := range st {
		switch {
		case s == "new":
			out[i] = fmt.Sprintf("%d:new", i)
		case s == "running" && c.threads[i].parked():
			// let go from wait.released and not back: it sits in its select
			out[i] = fmt.Sprintf("%d:parked", i)
		case s == "running":
			out[i] = fmt.Sprintf("%d:blocked", i)
		case strings.HasPrefix(s, "held:"):
			out[i] = fmt.Sprintf("%d:held@%d", i, pausePc[s[5:]])
		default:
			out[i] = fmt.Sprintf("%d:%s", i, s)
		}
	}
	if len(out) == 0 {
		return "-"
	}
	return strings.Join(out, " ")
}

func genNotifyProfile(w *bufio.Writer, seed uint64, n, length int) {
	r := &rng{s: seed}
	if length < 6 {
		length = 16
	}
	for h := 0; h < n; h++ {
		init := int64(r.intn(4))
		c := &nctl{byGo: map[int64]*nthread{}, off: notify.NewOffset(init)}
		verifhook.PauseHook = c.hook
		fmt.Fprintf(w, "# hist %d seed=%d flavor=notify\n", h, seed)
		fmt.Fprintf(w, "nt.init %d => ok\n", init)
		emit := func(ev string) []string {
			st := c.settle()
			fmt.Fprintf(w, "%s => ok %s\n", ev, c.fmtStatuses(st))
			return st
		}
		maxTh := 2 + r.intn(4)
		closers := 0
		var st []string
		for i := 0; i < length; i++ {
			// threads that can be stepped: new or held; at most one thread may be blocked on the
			// token at a time (which blocked receiver gets the token next is the runtime's choice)
			var steppable []int
			tokenHeld := false
			for j, s := range st {
				if s == "new" || strings.HasPrefix(s, "held:") {
					steppable = append(steppable, j)
				}
				if strings.HasPrefix(s, "held:") && s != "held:wait.released" && s != "held:wait.fast" {
					tokenHeld = true
				}
			}
			// count threads blocked on the barrier (not parked waiters): a parked waiter went through
			// wait.released before; we cannot tell them apart from the status alone, so track it
			barrierBlocked := 0
			for j, s := range st {
				if s == "running" && !c.threads[j].parked() {
					barrierBlocked++
				}
			}
			x := r.intn(10)
			switch {
			case len(c.threads) < maxTh && (x < 3 || len(steppable) == 0):
				t := &nthread{gate: make(chan struct{}), ack: make(chan struct{}, 1), status: "new"}
				switch k := r.intn(10); {
				case k < 5:
					t.kind, t.arg = "wait", init+int64(r.intn(4))-1
				case k < 9 || closers > 0:
					t.kind, t.arg = "set", init+int64(r.intn(5))
				default:
					t.kind = "close"
					closers++
				}
				t.ctx, t.cancel = context.WithCancel(context.Background())
				c.threads = append(c.threads, t)
				c.start(t)
				st = emit(fmt.Sprintf("nt.spawn %d %s %d", len(c.threads)-1, t.kind, t.arg))
			case x == 9 && len(c.threads) > 0:
				j := r.intn(len(c.threads))
				c.threads[j].cancel()
				st = emit(fmt.Sprintf("nt.cancel %d", j))
			case len(steppable) > 0:
				j := steppable[r.intn(len(steppable))]
				// stepping a thread that will block on the token while another already does is avoided
				willTryToken := (st[j] == "new" && c.threads[j].kind != "wait") || st[j] == "held:wait.fast"
				if willTryToken && tokenHeld && barrierBlocked >= 1 {
					continue
				}
				if st[j] == "held:wait.released" {
					c.threads[j].markParked()
				}
				c.threads[j].release()
				st = emit(fmt.Sprintf("nt.go %d", j))
			}
		}
		// tear down: stop pausing, release the gates, end every context, close the notifier
		c.mu.Lock()
		c.free = true
		c.mu.Unlock()
		for _, t := range c.threads {
			go func(t *nthread) {
				for {
					select {
					case t.gate <- struct{}{}:
					case <-t.ack:
					case <-time.After(20 * time.Millisecond):
						return
					}
				}
			}(t)
		}
		for _, t := range c.threads {
			t.cancel()
		}
		go func(o *notify.Offset) { _ = o.Close() }(c.off)
		time.Sleep(time.Millisecond)
	}
	verifhook.PauseHook = nil
}

func (t *nthread) markParked() {
	t.mu.Lock()
	t.isParked = true
	t.mu.Unlock()
}
func (t *nthread) parked() bool {
	t.mu.Lock()
	defer t.mu.Unlock()
	return t.isParked
}
