package main

// Runner executes protocol operations on the real klevdb packages, in-process, and
// returns the canonical text of the result. The same code path serves generated
// histories and replays.

import (
	"bytes"
	"context"
	"encoding/hex"
	"errors"
	"fmt"
	"os"
	"path/filepath"
	"sort"
	"strconv"
	"strings"
	"syscall"
	"time"

	"github.com/klev-dev/klevdb"
	"github.com/klev-dev/klevdb/pkg/index"
	"github.com/klev-dev/klevdb/pkg/message"
	"github.com/klev-dev/klevdb/pkg/segment"
)

type side struct {
	dir  string
	log  klevdb.Log
	opts klevdb.Options
}

type Runner struct {
	root    string // scratch root
	main    side
	bak     side
	dmg     side // a damaged copy of the main directory (C14)
	bakN    int
	lastMsg []klevdb.Message // last published batch (with effective times)
}

func NewRunner(root string) *Runner {
	r := &Runner{root: root}
	r.main.dir = filepath.Join(root, "main")
	return r
}

func (r *Runner) Reset() {
	if r.main.log != nil {
		_ = r.main.log.Close()
		r.main.log = nil
	}
	if r.bak.log != nil {
		_ = r.bak.log.Close()
		r.bak.log = nil
	}
	if r.dmg.log != nil {
		_ = r.dmg.log.Close()
		r.dmg.log = nil
	}
	_ = os.RemoveAll(r.root)
	_ = os.MkdirAll(r.root, 0700)
	r.main.dir = filepath.Join(r.root, "main")
	r.bak.dir = ""
	r.bakN = 0
}

func classify(err error) string {
	switch {
	case errors.Is(err, klevdb.ErrInvalidOffset):
		return "invalidoffset"
	case errors.Is(err, klevdb.ErrNotFound):
		return "notfound"
	case errors.Is(err, klevdb.ErrNoIndex):
		return "noindex"
	case errors.Is(err, klevdb.ErrReadonly):
		return "readonly"
	case errors.Is(err, message.ErrCorrupted):
		return "logcorrupt"
	case errors.Is(err, index.ErrCorrupted):
		return "indexcorrupt"
	case errors.Is(err, context.Canceled), errors.Is(err, context.DeadlineExceeded):
		return "ctx"
	default:
		return "other"
	}
}

func errRes(err error) string {
	if os.Getenv("KVH_DEBUG") != "" {
		fmt.Fprintf(os.Stderr, "error: %v\n", err)
	}
	return "err " + classify(err)
}

func fmtMsg(m klevdb.Message) string {
	return fmt.Sprintf("%d@%d:%s:%s", m.Offset, m.Time.UnixMicro(), hex.EncodeToString(m.Key), hex.EncodeToString(m.Value))
}

func fmtMsgs(ms []klevdb.Message) string {
	var sb strings.Builder
	sb.WriteString(strconv.Itoa(len(ms)))
	for _, m := range ms {
		sb.WriteByte(' ')
		sb.WriteString(fmtMsg(m))
	}
	return sb.String()
}

func sortedMsgs(ms []klevdb.Message) []klevdb.Message {
	out := append([]klevdb.Message(nil), ms...)
	sort.Slice(out, func(i, j int) bool { return out[i].Offset < out[j].Offset })
	return out
}

func fmtOffsets(set map[int64]struct{}) string {
	offs := make([]int64, 0, len(set))
	for o := range set {
		offs = append(offs, o)
	}
	sort.Slice(offs, func(i, j int) bool { return offs[i] < offs[j] })
	var sb strings.Builder
	sb.WriteString(strconv.Itoa(len(offs)))
	for _, o := range offs {
		sb.WriteByte(' ')
		sb.WriteString(strconv.FormatInt(o, 10))
	}
	return sb.String()
}

func kv(toks []string) map[string]string {
	m := map[string]string{}
	for _, t := range toks {
		if i := strings.IndexByte(t, '='); i > 0 {
			m[t[:i]] = t[i+1:]
		}
	}
	return m
}

func atoi(s string) int64 {
	v, _ := strconv.ParseInt(s, 10, 64)
	return v
}

func parseOpts(toks []string) klevdb.Options {
	m := kv(toks)
	b := func(k string) bool { return m[k] != "" && m[k] != "0" }
	v := klevdb.V2
	if m["nsv"] == "1" {
		v = klevdb.V1
	}
	return klevdb.Options{
		CreateDirs: true,
		Readonly:   b("ro"),
		KeyIndex:   b("keys"),
		TimeIndex:  b("times"),
		AutoSync:   b("as"),
		Rollover:   atoi(m["roll"]),
		Check:      b("chk"),
		Recover:    b("rec"),
		Version: klevdb.VersionOptions{
			NewSegmentsVersion:  v,
			KeepRewriteVersion:  b("keep"),
			EagerVersionMigrate: b("eager"),
		},
	}
}

func parseOffsets(s string) map[int64]struct{} {
	set := map[int64]struct{}{}
	if s == "-" || s == "" {
		return set
	}
	for _, t := range strings.Split(s, ",") {
		set[atoi(t)] = struct{}{}
	}
	return set
}

func unhex(s string) []byte {
	if s == "" {
		return nil
	}
	b, _ := hex.DecodeString(s)
	return b
}

func microTime(us int64) time.Time { return time.UnixMicro(us).UTC() }

func noBackoff(context.Context) error { return nil }

// fileVersion reports "1" or "2" for a log or index file as its bytes say.
func fileVersion(path string, magicLast byte) string {
	b, err := os.ReadFile(path)
	if err != nil || len(b) < 8 {
		return "1"
	}
	if b[0] == 0xFF && bytes.Equal(b[1:5], []byte("klev")) && b[5] == magicLast {
		if b[6] == 1 {
			return "2"
		}
		return "?" + strconv.Itoa(int(b[6]))
	}
	return "1"
}

func fsobs(dir string) string {
	ents, err := os.ReadDir(dir)
	if err != nil {
		return "ok 0"
	}
	var segs []string
	var extras []string
	for _, e := range ents {
		name := e.Name()
		switch {
		case strings.HasSuffix(name, ".log"):
			base := atoi(strings.TrimSuffix(name, ".log"))
			lp := filepath.Join(dir, name)
			st, _ := os.Stat(lp)
			ip := filepath.Join(dir, strings.TrimSuffix(name, ".log")+".index")
			ix := "-:-"
			if ist, err := os.Stat(ip); err == nil {
				ix = fmt.Sprintf("%s:%d", fileVersion(ip, 'i'), ist.Size())
			}
			segs = append(segs, fmt.Sprintf("%d:%s:%d:%s", base, fileVersion(lp, 's'), st.Size(), ix))
		case strings.HasSuffix(name, ".index"):
			lp := filepath.Join(dir, strings.TrimSuffix(name, ".index")+".log")
			if _, err := os.Stat(lp); err != nil {
				extras = append(extras, "extra:"+name)
			}
		case name == ".lock":
		default:
			extras = append(extras, "extra:"+name)
		}
	}
	out := "ok " + strconv.Itoa(len(segs))
	if len(segs) > 0 {
		out += " " + strings.Join(segs, " ")
	}
	if len(extras) > 0 {
		out += " " + strings.Join(extras, " ")
	}
	return out
}

func dirSize(dir string) int64 {
	ents, _ := os.ReadDir(dir)
	var total int64
	for _, e := range ents {
		if strings.HasSuffix(e.Name(), ".log") || strings.HasSuffix(e.Name(), ".index") {
			if st, err := os.Stat(filepath.Join(dir, e.Name())); err == nil {
				total += st.Size()
			}
		}
	}
	return total
}

// Exec runs one op line. It returns the left-hand side to record in the trace (the op,
// with effective times filled in for publishes) and the canonical result.
func (r *Runner) Exec(line string) (lhs string, res string) {
	toks := strings.Fields(line)
	if len(toks) == 0 {
		return line, "bad-op"
	}
	lhs = line
	defer func() {
		if p := recover(); p != nil {
			res = "err panic"
			if os.Getenv("KVH_DEBUG") != "" {
				fmt.Fprintf(os.Stderr, "panic in %q: %v\n", line, p)
			}
		}
	}()
	if res, ok := r.ExecBytes(line); ok {
		return lhs, res
	}
	sd := &r.main
	op := toks[0]
	if strings.HasPrefix(op, "b.") {
		sd = &r.bak
		op = op[2:]
	} else if strings.HasPrefix(op, "d.") {
		sd = &r.dmg
		op = op[2:]
	}
	args := toks[1:]
	ctx := context.Background()

	needLog := func() bool { return sd.log != nil }

	switch op {
	case "edge":
		// edge <ver> <delta>: the size limit of a message body at its edge, in a log of its own. A batch whose
		// second message has key+value of exactly (64 MiB + delta) bytes is published between small ones; it must be
		// accepted as a whole iff delta <= 0, and a refused batch leaves nothing behind (the next publish continues
		// where the log was). 64 MiB is the documented limit (the T1 obligation ties the code's constant to it).
		return lhs, bigOp(func() string { return r.edgeCase(int(atoi(args[0])), atoi(args[1])) })
	case "open":
		if sd.log != nil {
			return lhs, "bad-op already-open"
		}
		opts := parseOpts(args)
		l, err := klevdb.Open(sd.dir, opts)
		if err != nil {
			return lhs, errRes(err)
		}
		sd.log, sd.opts = l, opts
		return lhs, "ok"
	case "close":
		if !needLog() {
			return lhs, "err closed"
		}
		err := sd.log.Close()
		sd.log = nil
		if err != nil {
			return lhs, errRes(err)
		}
		return lhs, "ok"
	case "rmidx":
		// (index files are removed between sessions: under an open handle it would be tampering, not a history)
		if sd.log != nil {
			return lhs, "bad-op open"
		}
		for o := range parseOffsets(args[0]) {
			_ = os.Remove(filepath.Join(sd.dir, fmt.Sprintf("%020d.index", o)))
		}
		return lhs, "ok"
	case "pkgmigrate":
		if sd.log != nil {
			return lhs, "bad-op open"
		}
		m := kv(args)
		v := klevdb.V2
		if m["v"] == "1" {
			v = klevdb.V1
		}
		if err := klevdb.Migrate(sd.dir, parseOpts(args), v); err != nil {
			return lhs, errRes(err)
		}
		return lhs, "ok"
	case "pkgcheck":
		if sd.log != nil {
			return lhs, "bad-op open"
		}
		if err := klevdb.Check(sd.dir, parseOpts(args)); err != nil {
			return lhs, errRes(err)
		}
		return lhs, "ok"
	case "pkgrecover":
		if sd.log != nil {
			return lhs, "bad-op open"
		}
		if err := klevdb.Recover(sd.dir, parseOpts(args)); err != nil {
			return lhs, errRes(err)
		}
		return lhs, "ok"
	case "segcheckall":
		if sd.log != nil {
			return lhs, "bad-op open"
		}
		o := parseOpts(args)
		segs, err := segment.Find(sd.dir, false)
		if err != nil {
			return lhs, errRes(err)
		}
		for _, s := range segs {
			if err := s.Check(index.Params{Times: o.TimeIndex, Keys: o.KeyIndex}); err != nil {
				return lhs, fmt.Sprintf("err %s", classify(err))
			}
		}
		return lhs, "ok"
	case "fsobs":
		return lhs, fsobs(sd.dir)
	}

	if !needLog() {
		return lhs, "err closed"
	}
	l := sd.log

	switch op {
	case "pub":
		// pub <n> g:key:val …   (or g:e:key:val from a recorded trace; e is ignored)
		msgs := make([]klevdb.Message, 0, len(args))
		given := make([]string, 0, len(args))
		for _, t := range args[1:] {
			p := strings.Split(t, ":")
			var g, k, v string
			switch len(p) {
			case 3:
				g, k, v = p[0], p[1], p[2]
			case 4:
				g, k, v = p[0], p[2], p[3]
			default:
				return lhs, "bad-op"
			}
			m := klevdb.Message{Offset: 7777, Key: unhex(k), Value: unhex(v)}
			if v == "!big" {
				// one byte more than the largest body the format takes: Publish must refuse the batch as a whole
				m.Value = make([]byte, 64*1024*1024+1)
			}
			if g != "z" {
				m.Time = microTime(atoi(g))
			}
			msgs = append(msgs, m)
			given = append(given, g)
		}
		var next int64
		var err error
		if strings.Contains(line, "!big") {
			_ = bigOp(func() string { next, err = l.Publish(msgs); return "" })
		} else {
			next, err = l.Publish(msgs)
		}
		var sb strings.Builder
		fmt.Fprintf(&sb, "pub %d", len(msgs))
		for i, m := range msgs {
			val := hex.EncodeToString(m.Value)
			if len(m.Value) > 64*1024*1024 {
				val = "!big"
			}
			fmt.Fprintf(&sb, " %s:%d:%s:%s", given[i], m.Time.UnixMicro(), hex.EncodeToString(m.Key), val)
		}
		lhs = sb.String()
		if err != nil {
			return lhs, errRes(err)
		}
		// the offsets written back into the caller's slice are part of the result
		for i, m := range msgs {
			if m.Offset != next-int64(len(msgs))+int64(i) {
				return lhs, fmt.Sprintf("ok %d badwriteback", next)
			}
		}
		r.lastMsg = msgs
		return lhs, fmt.Sprintf("ok %d", next)
	case "next":
		n, err := l.NextOffset()
		if err != nil {
			return lhs, errRes(err)
		}
		return lhs, fmt.Sprintf("ok %d", n)
	case "sync":
		n, err := l.Sync()
		if err != nil {
			return lhs, errRes(err)
		}
		return lhs, fmt.Sprintf("ok %d", n)
	case "gc":
		if err := l.GC(0); err != nil {
			return lhs, errRes(err)
		}
		return lhs, "ok"
	case "stat":
		st, err := l.Stat()
		if err != nil {
			return lhs, errRes(err)
		}
		return lhs, fmt.Sprintf("ok %d %d %d %d", st.Segments, st.Messages, st.Size, dirSize(sd.dir))
	case "cons":
		nxt, ms, err := l.Consume(atoi(args[0]), atoi(args[1]))
		if err != nil {
			return lhs, errRes(err)
		}
		return lhs, fmt.Sprintf("ok %d %s", nxt, fmtMsgs(ms))
	case "scan":
		mc := atoi(args[0])
		var all []klevdb.Message
		off := klevdb.OffsetOldest
		for i := 0; i < 1_000_000; i++ {
			nxt, ms, err := l.Consume(off, mc)
			if err != nil {
				return lhs, errRes(err)
			}
			if len(ms) == 0 && (nxt == off || off < 0) {
				return lhs, fmt.Sprintf("ok %d %s", nxt, fmtMsgs(all))
			}
			all = append(all, ms...)
			off = nxt
		}
		return lhs, "err other"
	case "get":
		m, err := l.Get(atoi(args[0]))
		if err != nil {
			return lhs, errRes(err)
		}
		return lhs, "ok " + fmtMsg(m)
	case "gbk":
		m, err := l.GetByKey(unhex(args[0]))
		if err != nil {
			return lhs, errRes(err)
		}
		return lhs, "ok " + fmtMsg(m)
	case "obk":
		o, err := l.OffsetByKey(unhex(args[0]))
		if err != nil {
			return lhs, errRes(err)
		}
		return lhs, fmt.Sprintf("ok %d", o)
	case "gbt":
		m, err := l.GetByTime(microTime(atoi(args[0])))
		if err != nil {
			return lhs, errRes(err)
		}
		return lhs, "ok " + fmtMsg(m)
	case "obt":
		o, t, err := l.OffsetByTime(microTime(atoi(args[0])))
		if err != nil {
			return lhs, errRes(err)
		}
		return lhs, fmt.Sprintf("ok %d %d", o, t.UnixMicro())
	case "cbk":
		nxt, ms, err := l.ConsumeByKey(unhex(args[0]), atoi(args[1]), atoi(args[2]))
		if err != nil {
			return lhs, errRes(err)
		}
		return lhs, fmt.Sprintf("ok %d %s", nxt, fmtMsgs(ms))
	case "del":
		ms, sz, err := l.Delete(parseOffsets(args[0]))
		if err != nil {
			return lhs, errRes(err)
		}
		return lhs, fmt.Sprintf("ok %d %s", sz, fmtMsgs(sortedMsgs(ms)))
	case "delmulti":
		ms, sz, err := klevdb.DeleteMulti(ctx, l, parseOffsets(args[0]), noBackoff)
		return lhs, multiRes(ms, sz, err)
	case "delmultio":
		// the variant that reports offsets only: the content is looked up in a scan taken just before
		before := scanMap(l)
		set, sz, err := klevdb.DeleteMultiOffsets(ctx, l, parseOffsets(args[0]), noBackoff)
		return lhs, multiRes(offsToMsgs(before, set), sz, err)
	case "msize":
		// Log.Size of a message (C13): what the message adds to a segment
		m := parseMsgTok(args[0])
		return lhs, fmt.Sprintf("ok %d", l.Size(m))
	case "find":
		x := atoi(args[1])
		var set map[int64]struct{}
		var err error
		switch args[0] {
		case "off":
			set, err = klevdb.FindByOffset(ctx, l, x)
		case "count":
			set, err = klevdb.FindByCount(ctx, l, int(x))
		case "size":
			set, err = klevdb.FindBySize(ctx, l, x)
		case "age":
			set, err = klevdb.FindByAge(ctx, l, microTime(x))
		case "upd":
			set, err = klevdb.FindUpdates(ctx, l, microTime(x))
		case "del":
			set, err = klevdb.FindDeletes(ctx, l, microTime(x))
		default:
			return lhs, "bad-op"
		}
		if err != nil {
			return lhs, errRes(err)
		}
		return lhs, "ok " + fmtOffsets(set)
	case "trim", "compact":
		x := atoi(args[1])
		multi := args[2] == "1"
		var ms []klevdb.Message
		var sz int64
		var err error
		if args[2] == "2" {
			// the ...MultiOffsets variants (what Compact is built from) report offsets only
			before := scanMap(l)
			var set map[int64]struct{}
			switch op + "." + args[0] {
			case "trim.off":
				set, sz, err = klevdb.TrimByOffsetMultiOffsets(ctx, l, x, noBackoff)
			case "trim.count":
				set, sz, err = klevdb.TrimByCountMultiOffsets(ctx, l, int(x), noBackoff)
			case "trim.size":
				ms, sz, err = klevdb.TrimBySizeMultiOffsets(ctx, l, x, noBackoff)
				return lhs, multiRes(ms, sz, err)
			case "trim.age":
				set, sz, err = klevdb.TrimByAgeMultiOffsets(ctx, l, microTime(x), noBackoff)
			case "compact.upd":
				set, sz, err = klevdb.CompactUpdatesMultiOffsets(ctx, l, microTime(x), noBackoff)
			case "compact.del":
				set, sz, err = klevdb.CompactDeletesMultiOffsets(ctx, l, microTime(x), noBackoff)
			default:
				return lhs, "bad-op"
			}
			return lhs, multiRes(offsToMsgs(before, set), sz, err)
		}
		if op+"."+args[0] == "compact.all" {
			// klevdb.Compact(age): x = 0: everything is older than the cut-off (now); x = 1: the cut-off lies a
			// century back, nothing is. It reports an error only: what it removed is the difference of two scans.
			before := scanMap(l)
			age := time.Duration(0)
			if x == 1 {
				age = 100 * 365 * 24 * time.Hour
			}
			err := klevdb.Compact(ctx, l, age, noBackoff)
			after := scanMap(l)
			gone := map[int64]struct{}{}
			for o := range before {
				if _, ok := after[o]; !ok {
					gone[o] = struct{}{}
				}
			}
			for o, m := range after {
				if b, ok := before[o]; !ok || fmtMsg(b) != fmtMsg(m) {
					// a message that appeared or changed: reported as removed with its new content (never live before)
					before[o] = m
					gone[o] = struct{}{}
				}
			}
			return lhs, multiRes(offsToMsgs(before, gone), -1, err)
		}
		switch op + "." + args[0] {
		case "trim.off":
			if multi {
				ms, sz, err = klevdb.TrimByOffsetMulti(ctx, l, x, noBackoff)
			} else {
				ms, sz, err = klevdb.TrimByOffset(ctx, l, x)
			}
		case "trim.count":
			if multi {
				ms, sz, err = klevdb.TrimByCountMulti(ctx, l, int(x), noBackoff)
			} else {
				ms, sz, err = klevdb.TrimByCount(ctx, l, int(x))
			}
		case "trim.size":
			if multi {
				ms, sz, err = klevdb.TrimBySizeMulti(ctx, l, x, noBackoff)
			} else {
				ms, sz, err = klevdb.TrimBySize(ctx, l, x)
			}
		case "trim.age":
			if multi {
				ms, sz, err = klevdb.TrimByAgeMulti(ctx, l, microTime(x), noBackoff)
			} else {
				ms, sz, err = klevdb.TrimByAge(ctx, l, microTime(x))
			}
		case "compact.upd":
			if multi {
				ms, sz, err = klevdb.CompactUpdatesMulti(ctx, l, microTime(x), noBackoff)
			} else {
				ms, sz, err = klevdb.CompactUpdates(ctx, l, microTime(x))
			}
		case "compact.del":
			if multi {
				ms, sz, err = klevdb.CompactDeletesMulti(ctx, l, microTime(x), noBackoff)
			} else {
				ms, sz, err = klevdb.CompactDeletes(ctx, l, microTime(x))
			}
		default:
			return lhs, "bad-op"
		}
		return lhs, multiRes(ms, sz, err)
	case "backup":
		// backup fresh|reuse [api]   — into a new directory or the previous backup directory
		if sd != &r.main {
			return lhs, "bad-op"
		}
		if r.bak.log != nil {
			_ = r.bak.log.Close()
			r.bak.log = nil
		}
		if args[0] == "fresh" || r.bak.dir == "" {
			r.bakN++
			r.bak.dir = filepath.Join(r.root, fmt.Sprintf("bak%d", r.bakN))
		}
		var err error
		if len(args) > 1 && args[1] == "pkg" {
			// the package-level entry point works on a closed or open directory alike
			err = klevdb.Backup(sd.dir, r.bak.dir)
		} else {
			if err2 := os.MkdirAll(r.bak.dir, 0700); err2 != nil {
				return lhs, errRes(err2)
			}
			err = l.Backup(r.bak.dir)
		}
		if err != nil {
			return lhs, errRes(err)
		}
		return lhs, "ok"
	}
	return lhs, "bad-op"
}

// bigOp runs f while holding a machine-wide lock: the calls that allocate and write 64 MiB are made one at a time,
// however many workers and checks run side by side (memory, not correctness).
func bigOp(f func() string) string {
	lf, err := os.OpenFile(filepath.Join(os.TempDir(), "kvh-bigop.lock"), os.O_CREATE|os.O_RDWR, 0666)
	if err == nil {
		defer lf.Close()
		if syscall.Flock(int(lf.Fd()), syscall.LOCK_EX) == nil {
			defer syscall.Flock(int(lf.Fd()), syscall.LOCK_UN)
		}
	}
	return f()
}

func (r *Runner) edgeCase(ver int, delta int64) string {
	dir := filepath.Join(r.root, "edge")
	_ = os.RemoveAll(dir)
	defer os.RemoveAll(dir)
	v := klevdb.V2
	if ver == 1 {
		v = klevdb.V1
	}
	l, err := klevdb.Open(dir, klevdb.Options{CreateDirs: true, KeyIndex: true, Version: klevdb.VersionOptions{NewSegmentsVersion: v}})
	if err != nil {
		return errRes(err)
	}
	defer l.Close()
	small := func(i byte) klevdb.Message {
		return klevdb.Message{Time: time.UnixMicro(1_000_000 + int64(i)).UTC(), Key: []byte{'k', i}, Value: []byte{'v', i}}
	}
	if _, err := l.Publish([]klevdb.Message{small(0)}); err != nil {
		return errRes(err)
	}
	big := klevdb.Message{Time: time.UnixMicro(1_000_002).UTC(), Key: []byte("kk"), Value: make([]byte, 64*1024*1024+delta-2)}
	big.Value[0], big.Value[len(big.Value)-1] = 0xA5, 0x5A
	_, perr := l.Publish([]klevdb.Message{small(1), big})
	if _, err := l.Publish([]klevdb.Message{small(3)}); err != nil {
		return errRes(err)
	}
	next, _ := l.NextOffset()
	var offs []string
	bigOK := "-"
	off := klevdb.OffsetOldest
	for i := 0; i < 16; i++ {
		nxt, ms, err := l.Consume(off, 1)
		if err != nil {
			return "scan-" + errRes(err)
		}
		if len(ms) == 0 {
			break
		}
		for _, m := range ms {
			offs = append(offs, strconv.FormatInt(m.Offset, 10))
			if len(m.Value) > 1000 {
				bigOK = "ok"
				if len(m.Value) != len(big.Value) || m.Value[0] != 0xA5 || m.Value[len(m.Value)-1] != 0x5A || string(m.Key) != "kk" {
					bigOK = "differs"
				}
			}
		}
		off = nxt
	}
	st := "accepted"
	if perr != nil {
		st = "refused"
	}
	return fmt.Sprintf("%s next=%d offs=%s big=%s", st, next, strings.Join(offs, ","), bigOK)
}

// scanMap: every live message by offset (a full Consume scan).
func scanMap(l klevdb.Log) map[int64]klevdb.Message {
	out := map[int64]klevdb.Message{}
	off := klevdb.OffsetOldest
	for i := 0; i < 1_000_000; i++ {
		nxt, ms, err := l.Consume(off, 64)
		if err != nil || (len(ms) == 0 && (nxt == off || off < 0)) {
			break
		}
		for _, m := range ms {
			out[m.Offset] = m
		}
		off = nxt
	}
	return out
}

// offsToMsgs: the messages a set of reported offsets stood for (an offset that was not live shows as an
// empty message at time 0, which no live message equals).
func offsToMsgs(before map[int64]klevdb.Message, set map[int64]struct{}) []klevdb.Message {
	var ms []klevdb.Message
	for o := range set {
		if m, ok := before[o]; ok {
			ms = append(ms, m)
		} else {
			ms = append(ms, klevdb.Message{Offset: o, Time: time.UnixMicro(0).UTC()})
		}
	}
	return ms
}

func multiRes(ms []klevdb.Message, sz int64, err error) string {
	if err != nil {
		return fmt.Sprintf("errp %s %d %s", classify(err), sz, fmtMsgs(sortedMsgs(ms)))
	}
	return fmt.Sprintf("ok %d %s", sz, fmtMsgs(sortedMsgs(ms)))
}
