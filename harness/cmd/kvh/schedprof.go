package main

// The `sched` profile (C08, deterministic part): one call is held inside one of its pause
// windows (after the rollover swap, between the file writes and the index append of a batch,
// after a delete chose its segment / rewrote it / before it swaps, between a reader's index
// lookup and its record read, between a GC's index unload and its record-file unload) while
// one or two other calls run — to completion if they can, or until they block on a lock the
// held call owns, in which case they finish after it is released. Every call carries its
// invocation and response times from one logical clock; the driver searches for a sequential
// order consistent with those times under which the model returns exactly these results.

import (
	"bufio"
	"encoding/hex"
	"fmt"
	"strings"
	"sync"
	"sync/atomic"
	"time"

	"github.com/klev-dev/klevdb/pkg/verifhook"
)

type scCall struct {
	id       string
	line     string
	lhs, res string
	inv, ret int64
	done     chan struct{}
	blocked  bool
}

type schedCtl struct {
	mu      sync.Mutex
	holdGo  int64
	point   string
	reached chan struct{}
	release chan struct{}
	hit     bool
	clock   atomic.Int64
}

func (c *schedCtl) hook(name string) {
	c.mu.Lock()
	mine := c.holdGo != 0 && goid() == c.holdGo && name == c.point && !c.hit
	if mine {
		c.hit = true
	}
	c.mu.Unlock()
	if !mine {
		return
	}
	close(c.reached)
	<-c.release
}

func (c *schedCtl) start(run *Runner, id, line string, hold bool, point string) *scCall {
	sc := &scCall{id: id, line: line, done: make(chan struct{})}
	ready := make(chan struct{})
	go func() {
		if hold {
			c.mu.Lock()
			c.holdGo, c.point, c.hit = goid(), point, false
			c.mu.Unlock()
		}
		close(ready)
		sc.inv = c.clock.Add(1)
		sc.lhs, sc.res = run.Exec(line)
		sc.ret = c.clock.Add(1)
		close(sc.done)
	}()
	<-ready
	return sc
}

var schedPoints = map[string][]string{
	"pub":  {"publish.rollover.swapped", "publish.files-written", "publish.record-written", "publish.record-written"},
	"del":  {"delete.target-chosen", "delete.rewritten", "delete.before-swap"},
	"cons": {"reader.consume.index-read"},
	"gc":   {"reader.gc.index-closed"},
	// reads held between their look at the index and what they do with it
	"cbk": {"reader.consumebykey.keys-read"},
	"get": {"reader.get.index-read"},
	"gbk": {"reader.getbykey.keys-read"},
	"gbt": {"reader.getbytime.index-read"},
}

func genSched(w *bufio.Writer, root string, seed uint64, n, ops int) {
	r := &rng{s: seed}
	if ops < 3 {
		ops = 8
	}
	keys := []string{"", hexKey("a"), hexKey("b")}
	ctl := &schedCtl{}
	verifhook.PauseHook = ctl.hook
	defer func() { verifhook.PauseHook = nil }()
	for h := 0; h < n; h++ {
		run := NewRunner(fmt.Sprintf("%s/s%d", root, h))
		run.Reset()
		fmt.Fprintf(w, "# hist %d seed=%d flavor=sched\n", h, seed)
		exec := func(line string) string {
			lhs, res := run.Exec(line)
			fmt.Fprintf(w, "%s => %s\n", lhs, res)
			return res
		}
		roll := r.pick([]int64{100, 160, 240})
		if exec(fmt.Sprintf("open ro=0 keys=1 times=1 as=%d roll=%d chk=0 rec=0 nsv=2 keep=0 eager=0", r.intn(2), roll)) != "ok" {
			continue
		}
		t := int64(1_000_000)
		var next int64
		pubLine := func(nm, vmax int) string {
			var sb strings.Builder
			fmt.Fprintf(&sb, "pub %d", nm)
			for j := 0; j < nm; j++ {
				t += int64(r.intn(3))
				fmt.Fprintf(&sb, " %d:%s:%s", t, keys[r.intn(len(keys))], hex.EncodeToString(randBytes(r, r.intn(vmax))))
			}
			return sb.String()
		}
		note := func(res string) {
			if strings.HasPrefix(res, "ok ") {
				next = atoi(strings.Fields(res)[1])
			}
		}
		for i := 0; i < 2+r.intn(3); i++ {
			note(exec(pubLine(1+r.intn(3), 30)))
		}
		delLine := func() string {
			var set []int64
			switch r.intn(4) {
			case 0: // the tail
				set = []int64{next - 1}
			case 1: // something in the head or near it
				set = []int64{next - 1 - int64(r.intn(3))}
			case 2: // something old
				set = []int64{int64(r.intn(int(next)))}
			default:
				for o := int64(0); o < next; o++ {
					if r.chance(30) {
						set = append(set, o)
					}
				}
			}
			var ok []int64
			for _, o := range set {
				if o >= 0 {
					ok = append(ok, o)
				}
			}
			if len(ok) == 0 {
				ok = []int64{0}
			}
			return "del " + joinOffs(ok)
		}
		anyCall := func() string {
			switch x := r.intn(20); {
			case x < 5:
				return pubLine(1+r.intn(2), 60)
			case x < 8:
				return fmt.Sprintf("cons %d %d", int64(r.intn(int(next)+2))-1, 1+r.intn(4))
			case x < 10:
				return fmt.Sprintf("get %d", int64(r.intn(int(next)+2))-1)
			case x < 11:
				return "gbk " + dash(keys[r.intn(len(keys))])
			case x < 12:
				return fmt.Sprintf("gbt %d", 1_000_000+int64(r.intn(int(t-1_000_000)+2)))
			case x < 13:
				return fmt.Sprintf("cbk %s %d 3", dash(keys[r.intn(len(keys))]), int64(r.intn(int(next)+1)))
			case x < 16:
				return delLine()
			case x < 17:
				return "next"
			case x < 18:
				return "gc"
			case x < 19:
				return "sync"
			default:
				return "stat"
			}
		}
		for win := 0; win < ops; win++ {
			// the held call
			var hline, kind string
			switch x := r.intn(15); {
			case x < 4:
				kind, hline = "pub", pubLine(1+r.intn(3), 60)
			case x < 7:
				kind, hline = "del", delLine()
			case x < 9:
				kind, hline = "cons", fmt.Sprintf("cons %d %d", int64(r.intn(int(next)+1)), 1+r.intn(4))
			case x < 11:
				// mostly at the end of the log: the head is the segment it looks at first
				off := next - int64(r.intn(3))
				if off < 0 || r.chance(25) {
					off = int64(r.intn(int(next) + 1))
				}
				kind, hline = "cbk", fmt.Sprintf("cbk %s %d %d", dash(keys[r.intn(len(keys))]), off, 1+r.intn(3))
			case x < 12:
				kind, hline = "get", fmt.Sprintf("get %d", int64(r.intn(int(next)+2))-1)
			case x < 13:
				kind, hline = "gbk", "gbk "+dash(keys[r.intn(len(keys))])
			case x < 14:
				ts := 1_000_000 + int64(r.intn(int(t-1_000_000)+2))
				if r.chance(40) {
					ts = t + 1 + int64(r.intn(2)) // past every message: the walk ends in "not found" unless somebody publishes
				}
				if r.chance(40) && next > 0 {
					// the tail goes: the head the lookup meets first is empty (and may not stay so)
					exec(fmt.Sprintf("del %d", next-1))
				}
				kind, hline = "gbt", fmt.Sprintf("gbt %d", ts)
			default:
				kind, hline = "gc", "gc"
				// make sure some closed segment is loaded
				exec("cons 0 1")
			}
			pts := schedPoints[kind]
			point := pts[r.intn(len(pts))]
			ctl.mu.Lock()
			ctl.reached, ctl.release = make(chan struct{}), make(chan struct{})
			ctl.mu.Unlock()
			hc := ctl.start(run, "H", hline, true, point)
			reached := false
			select {
			case <-ctl.reached:
				reached = true
			case <-hc.done:
			case <-time.After(20 * time.Second):
			}
			var mids []*scCall
			if reached {
				nm := 1 + r.intn(2)
				for q := 0; q < nm; q++ {
					mc := ctl.start(run, string(rune('A'+q)), anyCall(), false, "")
					select {
					case <-mc.done:
					case <-time.After(40 * time.Millisecond):
						mc.blocked = true
					}
					mids = append(mids, mc)
				}
				close(ctl.release)
			}
			hung := false
			for _, c := range append([]*scCall{hc}, mids...) {
				select {
				case <-c.done:
				case <-time.After(20 * time.Second):
					hung = true
				}
			}
			ctl.mu.Lock()
			ctl.holdGo = 0
			ctl.mu.Unlock()
			if hung {
				fmt.Fprintf(w, "sc.call id=H inv=0 ret=0 at=%s reached=%d :: %s => err hang\n", point, b2i(reached), hline)
				w.Flush()
				return
			}
			fmt.Fprintf(w, "sc.call id=H inv=%d ret=%d at=%s reached=%d :: %s => %s\n", hc.inv, hc.ret, point, b2i(reached), hc.lhs, hc.res)
			for _, c := range mids {
				fmt.Fprintf(w, "sc.call id=%s inv=%d ret=%d blocked=%d :: %s => %s\n", c.id, c.inv, c.ret, b2i(c.blocked), c.lhs, c.res)
			}
			// the directory listing after the window tells the orders apart that differ only in layout
			fmt.Fprintf(w, "sc.judge => %s\n", fsobs(run.main.dir))
			for _, c := range append([]*scCall{hc}, mids...) {
				if strings.HasPrefix(c.lhs, "pub ") {
					note(c.res)
				}
			}
			// observation after the window
			exec("scan 32")
			note(exec("next"))
		}
		exec("close")
		run.Reset()
	}
}

func b2i(b bool) int {
	if b {
		return 1
	}
	return 0
}
