package main

// The `seq` profile: generated API histories, with per-property flavours that bias the
// operation mix and choose which observations follow every step.

import (
	"bufio"
	"encoding/hex"
	"fmt"
	"os"
	"sort"
	"strconv"
	"strings"
	"time"
)

type rng struct{ s uint64 }

func (r *rng) next() uint64 {
	r.s += 0x9e3779b97f4a7c15
	z := r.s
	z = (z ^ (z >> 30)) * 0xbf58476d1ce4e5b9
	z = (z ^ (z >> 27)) * 0x94d049bb133111eb
	return z ^ (z >> 31)
}
func (r *rng) intn(n int) int {
	if n <= 0 {
		return 0
	}
	return int(r.next() % uint64(n))
}
func (r *rng) chance(pct int) bool { return r.intn(100) < pct }
func (r *rng) pick(xs []int64) int64 { return xs[r.intn(len(xs))] }

// FNV-1a 64 collision pairs (8-byte keys), found by search and confirmed with hash/fnv.
var collisions = [][2]string{
	{"bb9ed25c922795a9", "42ed4fa699df1f9f"},
	{"a36c79b1edc3d6b5", "a91152cba5440715"},
	{"7ab185c93272ca34", "502056d311231d81"},
}

type flavor struct {
	name string
	// op weights
	wPub, wDel, wDelMulti, wTrim, wCompact, wFind, wGC, wSync, wReopen, wBackup, wRO int
	monoPct     int  // probability (%) that a history has non-decreasing times
	sweepCons   bool // every offset × several maxCounts after each step
	sweepGet    bool
	sweepKeys   bool
	sweepTimes  bool
	obsScan     bool // full scan + next + stat after each step
	obsFs       bool // directory listing after each step
	closeChecks bool // at each close: per-segment Check, listing, index-subset removal
	sweepEvery  int  // sweep after every k-th op
	fewKeys     bool // small key set with many repeats and tombstones
	verMix      bool // re-draw version options at reopen, package-level Migrate
	smallRoll   bool
	oversize    bool // rarely a batch with a message larger than the format takes
}

var flavors = map[string]flavor{
	"C01": {name: "C01", oversize: true, wRO: 4, wPub: 40, wDel: 10, wDelMulti: 4, wTrim: 6, wCompact: 4, wGC: 4, wSync: 3, wReopen: 12, monoPct: 50, obsScan: true, obsFs: true, sweepEvery: 1, verMix: true},
	"C02": {name: "C02", oversize: true, wRO: 3, wPub: 40, wDel: 25, wDelMulti: 5, wTrim: 4, wReopen: 18, wSync: 4, monoPct: 50, obsScan: true, sweepEvery: 1, verMix: true},
	"C03": {name: "C03", wRO: 5, wPub: 40, wDel: 22, wDelMulti: 4, wTrim: 4, wReopen: 8, wGC: 4, monoPct: 50, sweepCons: true, sweepEvery: 3, smallRoll: true, verMix: true},
	"C04": {name: "C04", wRO: 5, wPub: 40, wDel: 22, wDelMulti: 4, wTrim: 4, wReopen: 8, wGC: 4, monoPct: 50, sweepGet: true, sweepEvery: 2, smallRoll: true, verMix: true},
	"C09": {name: "C09", wRO: 5, wPub: 45, wDel: 18, wDelMulti: 3, wCompact: 4, wReopen: 8, wGC: 5, monoPct: 50, sweepKeys: true, sweepEvery: 2, fewKeys: true, smallRoll: true, verMix: true},
	"C10": {name: "C10", wRO: 5, wPub: 45, wDel: 18, wDelMulti: 3, wTrim: 3, wReopen: 10, wGC: 5, monoPct: 100, sweepTimes: true, sweepEvery: 2, smallRoll: true, verMix: true},
	"C11": {name: "C11", wRO: 10, wPub: 45, wDel: 14, wDelMulti: 3, wTrim: 3, wCompact: 2, wReopen: 22, wGC: 4, monoPct: 70, obsScan: true, closeChecks: true, sweepEvery: 4, verMix: true, sweepGet: true, sweepKeys: true, sweepTimes: true},
	"C12": {name: "C12", wPub: 35, wDel: 30, wDelMulti: 14, wReopen: 8, wGC: 3, monoPct: 50, obsScan: true, obsFs: true, sweepEvery: 1, verMix: true, smallRoll: true},
	"C13": {name: "C13", wRO: 4, wPub: 45, wDel: 15, wDelMulti: 4, wTrim: 4, wReopen: 12, wGC: 3, monoPct: 50, obsScan: true, obsFs: true, sweepEvery: 1, verMix: true},
	"C15": {name: "C15", wPub: 40, wDel: 8, wTrim: 26, wFind: 14, wReopen: 6, monoPct: 70, obsScan: true, sweepEvery: 1, smallRoll: true, verMix: true},
	"C16": {name: "C16", wPub: 45, wDel: 5, wCompact: 26, wFind: 10, wReopen: 6, monoPct: 70, obsScan: true, sweepEvery: 1, fewKeys: true, smallRoll: true, verMix: true},
	"C17": {name: "C17", wPub: 40, wDel: 18, wDelMulti: 4, wTrim: 3, wReopen: 26, monoPct: 60, obsScan: true, obsFs: true, sweepEvery: 1, verMix: true, smallRoll: true},
	"C19": {name: "C19", wPub: 40, wDel: 10, wReopen: 10, wRO: 22, wGC: 3, monoPct: 70, obsScan: true, obsFs: true, sweepEvery: 1, sweepGet: true, sweepKeys: true, sweepTimes: true, verMix: true},
	"C20": {name: "C20", wPub: 45, wDel: 10, wDelMulti: 3, wTrim: 3, wReopen: 8, wBackup: 22, monoPct: 60, obsScan: true, sweepEvery: 2, verMix: true, smallRoll: true},
}

type liveMsg struct {
	off  int64
	time int64
	key  string
}

type seqGen struct {
	r    *rng
	fl   flavor
	run  *Runner
	out  *bufio.Writer
	nOps int

	// tracked knowledge of the log (from the implementation's own results)
	next     int64
	live     []liveMsg
	mono     bool
	lastTime int64
	keys     []string // hex
	keysIx   bool
	timesIx  bool
	openLine string
	ro       bool
	pubOnlySinceBackup bool
	hadBackup bool
	lines    int
	hung     bool
}

func (g *seqGen) emit(line string) string {
	if g.hung {
		return "err hang"
	}
	lhs, res, ok := execWithDeadline(g.run, line)
	fmt.Fprintf(g.out, "%s => %s\n", lhs, res)
	g.lines++
	if !ok {
		// the call never returned: abandon this runner (its goroutine keeps spinning until exit)
		g.hung = true
		g.out.Flush()
	}
	return res
}

// execWithDeadline runs one op; an op that does not return within the deadline is reported
// as "err hang" (a loop that never terminates is a finding, not an infrastructure problem).
func execWithDeadline(run *Runner, line string) (string, string, bool) {
	type r struct{ lhs, res string }
	ch := make(chan r, 1)
	go func() {
		lhs, res := run.Exec(line)
		ch <- r{lhs, res}
	}()
	d := 60 * time.Second
	if v := os.Getenv("KVH_OP_TIMEOUT"); v != "" {
		if n, err := strconv.Atoi(v); err == nil {
			d = time.Duration(n) * time.Second
		}
	}
	if strings.HasPrefix(line, "edge ") || strings.Contains(line, "!big") {
		// 64 MiB written and read back, one such call at a time on the whole machine (bigOp): on a loaded machine it
		// may wait for its turn and for the disk
		d = 15 * time.Minute
	}
	select {
	case x := <-ch:
		return x.lhs, x.res, true
	case <-time.After(d):
		return line, "err hang", false
	}
}

func hexKey(s string) string { return hex.EncodeToString([]byte(s)) }

func (g *seqGen) drawOpen(first bool) string {
	r := g.r
	var roll int64
	if g.fl.smallRoll {
		roll = r.pick([]int64{1, 7, 8, 9, 40, 64, 64, 100, 200, 200, 400, 1000})
	} else {
		roll = r.pick([]int64{1, 7, 8, 9, 64, 200, 200, 400, 1000, 1000, 5000, 0})
	}
	nsv := 2
	keep, eager := 0, 0
	if g.fl.verMix {
		if r.chance(40) {
			nsv = 1
		}
		if r.chance(40) {
			keep = 1
		}
		if r.chance(20) {
			eager = 1
		}
	}
	chk, rec := 0, 0
	// Check/Recover together with a time index only when times never decrease
	if !g.timesIx || g.mono {
		if r.chance(25) {
			chk = 1
		}
		if r.chance(25) {
			rec = 1
		}
	}
	as := 0
	if r.chance(15) {
		as = 1
	}
	b := func(x bool) int {
		if x {
			return 1
		}
		return 0
	}
	return fmt.Sprintf("open ro=0 keys=%d times=%d as=%d roll=%d chk=%d rec=%d nsv=%d keep=%d eager=%d",
		b(g.keysIx), b(g.timesIx), as, roll, chk, rec, nsv, keep, eager)
}

func (g *seqGen) optsSuffix() string {
	b := func(x bool) int {
		if x {
			return 1
		}
		return 0
	}
	return fmt.Sprintf("keys=%d times=%d", b(g.keysIx), b(g.timesIx))
}

func (g *seqGen) genTime() string {
	r := g.r
	if g.mono {
		g.lastTime += r.pick([]int64{0, 0, 0, 1, 1, 2, 5})
		return strconv.FormatInt(g.lastTime, 10)
	}
	switch r.intn(10) {
	case 0:
		return "z"
	case 1:
		return strconv.FormatInt(-int64(r.intn(5))-1, 10)
	case 2, 3:
		g.lastTime -= int64(r.intn(4))
		return strconv.FormatInt(g.lastTime, 10)
	default:
		g.lastTime = 1_000_000 + int64(r.intn(40))
		return strconv.FormatInt(g.lastTime, 10)
	}
}

func (g *seqGen) genKey() string {
	r := g.r
	if g.fl.fewKeys || r.chance(75) {
		return g.keys[r.intn(len(g.keys))]
	}
	n := 1 + r.intn(12)
	b := make([]byte, n)
	for i := range b {
		b[i] = byte(r.next())
	}
	return hex.EncodeToString(b)
}

func (g *seqGen) genVal() string {
	r := g.r
	if g.fl.fewKeys && r.chance(35) || r.chance(8) {
		return "" // tombstone / empty value
	}
	n := r.intn(41)
	if r.chance(1) {
		n = 200 + r.intn(4800)
	}
	b := make([]byte, n)
	for i := range b {
		b[i] = byte(r.next())
	}
	return hex.EncodeToString(b)
}

func (g *seqGen) pub() {
	n := g.r.intn(7)
	if g.r.chance(10) {
		n = 0
	}
	var sb strings.Builder
	fmt.Fprintf(&sb, "pub %d", n)
	type pm struct {
		t   string
		key string
	}
	// rarely: a batch whose last message is larger than the format takes (the whole batch must be refused and
	// nothing of it may reach the files)
	big := n >= 2 && g.fl.oversize && g.r.chance(3)
	for i := 0; i < n; i++ {
		val := g.genVal()
		if big && i == n-1 {
			val = "!big"
		}
		fmt.Fprintf(&sb, " %s:%s:%s", g.genTime(), g.genKey(), val)
	}
	res := g.emit(sb.String())
	if strings.HasPrefix(res, "ok ") && !g.ro {
		for _, m := range g.run.lastMsg[:min(n, len(g.run.lastMsg))] {
			if n == 0 {
				break
			}
			g.live = append(g.live, liveMsg{m.Offset, m.Time.UnixMicro(), hex.EncodeToString(m.Key)})
		}
		f := strings.Fields(res)
		g.next = atoi(f[1])
		if n > 0 && n <= len(g.run.lastMsg) && !big && g.r.chance(15) {
			// Log.Size of a message just published (C13)
			g.emit("msize " + fmtMsg(g.run.lastMsg[g.r.intn(n)]))
		}
	}
}

func (g *seqGen) segBases() []int64 {
	ents, _ := os.ReadDir(g.run.main.dir)
	var bs []int64
	for _, e := range ents {
		if strings.HasSuffix(e.Name(), ".log") {
			bs = append(bs, atoi(strings.TrimSuffix(e.Name(), ".log")))
		}
	}
	sort.Slice(bs, func(i, j int) bool { return bs[i] < bs[j] })
	return bs
}

func (g *seqGen) liveOffs() []int64 {
	o := make([]int64, len(g.live))
	for i, m := range g.live {
		o[i] = m.off
	}
	return o
}

// offset sets biased to the cases the properties name
func (g *seqGen) genOffsets() []int64 {
	r := g.r
	live := g.liveOffs()
	bases := g.segBases()
	inSeg := func(i int) []int64 {
		lo := bases[i]
		hi := g.next
		if i+1 < len(bases) {
			hi = bases[i+1]
		}
		var s []int64
		for _, o := range live {
			if o >= lo && o < hi {
				s = append(s, o)
			}
		}
		return s
	}
	var set []int64
	switch r.intn(12) {
	case 0: // the last message
		if len(live) > 0 {
			set = []int64{live[len(live)-1]}
		}
	case 1: // the whole head segment
		if len(bases) > 0 {
			set = inSeg(len(bases) - 1)
		}
	case 2: // a whole reader segment
		if len(bases) > 1 {
			set = inSeg(r.intn(len(bases) - 1))
		}
	case 3: // first message of a segment
		if len(bases) > 0 {
			s := inSeg(r.intn(len(bases)))
			if len(s) > 0 {
				set = []int64{s[0]}
			}
		}
	case 4: // last message of a segment / tail of a segment
		if len(bases) > 0 {
			s := inSeg(r.intn(len(bases)))
			if len(s) > 0 {
				k := 1 + r.intn(len(s))
				set = s[len(s)-k:]
			}
		}
	case 5: // already deleted / never assigned
		for i := 0; i < 1+r.intn(3); i++ {
			set = append(set, int64(r.intn(int(g.next)+3)))
		}
	case 6: // not yet assigned
		set = []int64{g.next + int64(r.intn(3))}
	case 7: // negative mixed in
		set = []int64{-int64(r.intn(4)) - 1}
		if len(live) > 0 && r.chance(50) {
			set = append(set, live[r.intn(len(live))])
		}
	case 8: // everything
		set = live
	default: // random subset, possibly spanning segments
		for _, o := range live {
			if r.chance(30) {
				set = append(set, o)
			}
		}
		if r.chance(30) {
			set = append(set, int64(r.intn(int(g.next)+2)))
		}
	}
	return set
}

func joinOffs(set []int64) string {
	if len(set) == 0 {
		return "-"
	}
	seen := map[int64]bool{}
	var ss []string
	for _, o := range set {
		if !seen[o] {
			seen[o] = true
			ss = append(ss, strconv.FormatInt(o, 10))
		}
	}
	return strings.Join(ss, ",")
}

// removeReported updates the tracked live set from a delete-like result.
func (g *seqGen) removeReported(res string) {
	f := strings.Fields(res)
	var msgs []string
	switch {
	case len(f) >= 3 && f[0] == "ok":
		msgs = f[3:]
	case len(f) >= 4 && f[0] == "errp":
		msgs = f[4:]
	default:
		return
	}
	del := map[int64]bool{}
	for _, m := range msgs {
		if i := strings.IndexByte(m, '@'); i > 0 {
			del[atoi(m[:i])] = true
		}
	}
	var nl []liveMsg
	for _, m := range g.live {
		if !del[m.off] {
			nl = append(nl, m)
		}
	}
	g.live = nl
}

func (g *seqGen) timeBounds() (int64, int64) {
	if len(g.live) == 0 {
		return 1_000_000, 1_000_000
	}
	lo, hi := g.live[0].time, g.live[0].time
	for _, m := range g.live {
		if m.time < lo {
			lo = m.time
		}
		if m.time > hi {
			hi = m.time
		}
	}
	return lo, hi
}

func (g *seqGen) genCutoff() int64 {
	lo, hi := g.timeBounds()
	if hi-lo > 1000 || hi-lo < 0 {
		// free-mode times: pick one of the message times or just around
		if len(g.live) > 0 {
			return g.live[g.r.intn(len(g.live))].time + int64(g.r.intn(3)) - 1
		}
		return lo
	}
	return lo - 2 + int64(g.r.intn(int(hi-lo)+5))
}

func (g *seqGen) observe(step int) {
	if g.fl.sweepEvery > 1 && step%g.fl.sweepEvery != 0 {
		if g.fl.obsScan {
			g.emit("next")
		}
		return
	}
	r := g.r
	// which query comes first matters: every one of them may be the one that finds an index file missing, a
	// segment not yet loaded, a reader just swapped in (the scan below loads everything)
	if r.chance(50) {
		g.emit(g.anyQuery())
	}
	if g.fl.obsScan {
		g.emit(fmt.Sprintf("scan %d", r.pick([]int64{1, 2, 3, 7, 32})))
		g.emit("next")
		g.emit("stat")
	}
	if g.fl.obsFs {
		g.emit("fsobs")
	}
	if g.fl.sweepCons {
		for off := int64(-5); off <= g.next+2; off++ {
			for _, mc := range []int64{1, 2, 3, 7, 32, 40} {
				g.emit(fmt.Sprintf("cons %d %d", off, mc))
			}
		}
	}
	if g.fl.sweepGet {
		for off := int64(-3); off <= g.next+2; off++ {
			g.emit(fmt.Sprintf("get %d", off))
		}
	}
	if g.fl.sweepKeys {
		ks := append([]string{}, g.keys...)
		ks = append(ks, hexKey("absent"), "ffee")
		for _, k := range ks {
			g.emit("gbk " + dash(k))
			g.emit("obk " + dash(k))
			g.emit(fmt.Sprintf("cbk %s -2 %d", dash(k), r.pick([]int64{1, 2, 32})))
		}
		// cursor iteration from several offsets
		k := ks[r.intn(len(ks))]
		for off := int64(-2); off <= g.next+1; off++ {
			g.emit(fmt.Sprintf("cbk %s %d %d", dash(k), off, r.pick([]int64{1, 3, 32})))
		}
	}
	if g.fl.sweepTimes {
		lo, hi := g.timeBounds()
		if hi-lo <= 400 && hi >= lo {
			for t := lo - 2; t <= hi+2; t++ {
				g.emit(fmt.Sprintf("gbt %d", t))
			}
			g.emit(fmt.Sprintf("obt %d", lo-2+int64(r.intn(int(hi-lo)+5))))
		} else {
			for i := 0; i < 8; i++ {
				g.emit(fmt.Sprintf("gbt %d", g.genCutoff()))
			}
		}
	}
}

// anyQuery: one read-only call of any kind, somewhere in the log.
func (g *seqGen) anyQuery() string {
	r := g.r
	off := int64(r.intn(int(g.next)+3)) - 2
	k := dash(g.keys[r.intn(len(g.keys))])
	switch r.intn(9) {
	case 0:
		return "stat"
	case 1:
		return fmt.Sprintf("get %d", off)
	case 2:
		return "gbk " + k
	case 3:
		return fmt.Sprintf("cbk %s %d %d", k, off, 1+r.intn(3))
	case 4:
		return fmt.Sprintf("gbt %d", g.genCutoff())
	case 5:
		return fmt.Sprintf("cons %d %d", off, 1+r.intn(4))
	case 6:
		return fmt.Sprintf("find count %d", r.intn(len(g.live)+3))
	case 7:
		return "obk " + k
	default:
		return "next"
	}
}

// dash renders the empty key as "-" so the token does not vanish
func dash(k string) string {
	if k == "" {
		return "-"
	}
	return k
}

func (g *seqGen) closeAndReopen(readonlySession bool) {
	r := g.r
	g.emit("close")
	if g.fl.closeChecks {
		g.emit("fsobs")
		g.emit("segcheckall " + g.optsSuffix())
	}
	// while closed
	if g.fl.verMix && r.chance(20) {
		g.emit(fmt.Sprintf("pkgmigrate v=%d %s", 1+r.intn(2), g.optsSuffix()))
		g.emit("fsobs")
	}
	if (!g.timesIx || g.mono) && r.chance(10) {
		g.emit("pkgcheck " + g.optsSuffix())
	}
	if (!g.timesIx || g.mono) && r.chance(10) {
		g.emit("pkgrecover " + g.optsSuffix())
	}
	rmProb := 15
	if g.fl.closeChecks {
		rmProb = 60
	}
	if r.chance(rmProb) {
		bases := g.segBases()
		var rm []int64
		switch r.intn(3) {
		case 0:
			rm = bases
		case 1:
			if len(bases) > 0 {
				rm = []int64{bases[r.intn(len(bases))]}
			}
		default:
			for _, b := range bases {
				if r.chance(50) {
					rm = append(rm, b)
				}
			}
		}
		if len(rm) > 0 {
			g.emit("rmidx " + joinOffs(rm))
		}
	}
	if readonlySession {
		// a read-only session answers like a read-write one and changes no log file
		line := fmt.Sprintf("open ro=1 %s as=0 roll=0 chk=%d rec=0 nsv=2 keep=0 eager=0", g.optsSuffix(), g.r.intn(2))
		if !(!g.timesIx || g.mono) {
			line = strings.Replace(line, "chk=1", "chk=0", 1)
		}
		if res := g.emit(line); res == "ok" {
			g.ro = true
			g.emit("pub 1 5:aa:bb")
			g.emit("del 0")
			g.observe(0)
			if r.chance(50) {
				g.emit("gc")
				g.observe(0)
			}
			g.emit("close")
			g.ro = false
			g.emit("fsobs")
		}
	}
	for try := 0; try < 3; try++ {
		line := g.drawOpen(false)
		if try == 2 {
			line = fmt.Sprintf("open ro=0 %s as=0 roll=200 chk=0 rec=0 nsv=2 keep=0 eager=0", g.optsSuffix())
		}
		if res := g.emit(line); res == "ok" {
			g.openLine = line
			// sometimes the first call after a reopen is a Delete (before any read has loaded or rebuilt an index)
			if g.fl.wDel > 0 && len(g.live) > 0 && r.chance(30) {
				res := g.emit("del " + joinOffs(g.genOffsets()))
				g.removeReported(res)
			}
			return
		}
	}
}

func (g *seqGen) history(id int, seed uint64, ops int) {
	g.r = &rng{s: seed}
	r := g.r
	if g.hung {
		g.hung = false
		g.run = NewRunner(fmt.Sprintf("%s-h%d", g.run.root, id))
	}
	g.run.Reset()
	fmt.Fprintf(g.out, "# hist %d seed=%d flavor=%s\n", id, seed, g.fl.name)
	g.next, g.live, g.lastTime, g.ro = 0, nil, 1_000_000, false
	g.mono = r.chance(g.fl.monoPct)
	ixc := r.intn(4)
	g.keysIx, g.timesIx = ixc&1 == 1, ixc&2 == 2
	switch {
	case g.fl.sweepKeys && !g.fl.closeChecks && r.chance(90):
		g.keysIx = true
	}
	if g.fl.sweepTimes && !g.fl.closeChecks && r.chance(90) {
		g.timesIx = true
	}
	if g.fl.wCompact > 10 {
		g.keysIx = r.chance(50)
	}
	// key set: nil, short keys (one a prefix of another), colliding pairs
	c := collisions[r.intn(len(collisions))]
	if g.fl.fewKeys {
		g.keys = []string{"", hexKey("a"), hexKey("ab"), c[0], c[1]}
		if r.chance(50) {
			g.keys = g.keys[:3+r.intn(3)]
		}
	} else {
		g.keys = []string{"", hexKey("a"), hexKey("b"), hexKey("ab"), c[0], c[1]}
	}
	g.pubOnlySinceBackup, g.hadBackup = false, false

	g.openLine = g.drawOpen(true)
	if res := g.emit(g.openLine); res != "ok" {
		return
	}
	g.observe(0)
	if (g.fl.oversize || g.fl.name == "C13") && r.chance(3) {
		// the size limit of a message body at its edge (a 64 MiB write: rare)
		g.emit(fmt.Sprintf("edge %d %d", 1+r.intn(2), r.pick([]int64{-29, -28, -27, -1, 0, 0, 1, 2})))
	}
	fl := g.fl
	total := fl.wPub + fl.wDel + fl.wDelMulti + fl.wTrim + fl.wCompact + fl.wFind + fl.wGC + fl.wSync + fl.wReopen + fl.wBackup + fl.wRO
	for step := 1; step <= ops; step++ {
		x := r.intn(total)
		pubOnly := false
		switch {
		case x < fl.wPub:
			g.pub()
			pubOnly = true
		case x < fl.wPub+fl.wDel:
			res := g.emit("del " + joinOffs(g.genOffsets()))
			g.removeReported(res)
		case x < fl.wPub+fl.wDel+fl.wDelMulti:
			var set []int64
			if r.chance(60) { // live offsets only: all of them must go
				for _, o := range g.liveOffs() {
					if r.chance(35) {
						set = append(set, o)
					}
				}
			} else {
				set = g.genOffsets()
			}
			dm := "delmulti "
			if r.chance(30) {
				dm = "delmultio " // DeleteMultiOffsets
			}
			res := g.emit(dm + joinOffs(set))
			g.removeReported(res)
		case x < fl.wPub+fl.wDel+fl.wDelMulti+fl.wTrim:
			multi := 1
			if r.chance(25) {
				multi = 0
			} else if r.chance(30) {
				multi = 2 // the ...MultiOffsets variant
			}
			var line string
			switch r.intn(4) {
			case 0:
				b := int64(r.intn(int(g.next)+4)) - 1
				if r.chance(10) {
					b = -2
				}
				line = fmt.Sprintf("trim off %d %d", b, multi)
			case 1:
				line = fmt.Sprintf("trim count %d %d", r.intn(len(g.live)+3), multi)
			case 2:
				sz := int64(r.intn(int(dirSize(g.run.main.dir)) + 100))
				line = fmt.Sprintf("trim size %d %d", sz, multi)
			default:
				line = fmt.Sprintf("trim age %d %d", g.genCutoff(), multi)
			}
			res := g.emit(line)
			g.removeReported(res)
			if strings.HasPrefix(line, "trim size") {
				g.emit("stat")
			}
		case x < fl.wPub+fl.wDel+fl.wDelMulti+fl.wTrim+fl.wCompact:
			multi := 1
			if r.chance(25) {
				multi = 0
			}
			if multi == 1 && r.chance(30) {
				multi = 2 // the ...MultiOffsets variant
			}
			kind := "upd"
			if r.chance(45) {
				kind = "del"
			}
			line := fmt.Sprintf("compact %s %d %d", kind, g.genCutoff(), multi)
			if r.chance(12) {
				// klevdb.Compact: updates, deletes, GC; everything (0) or nothing (1) is older than its cut-offs
				line = fmt.Sprintf("compact all %d 1", r.intn(5)/4)
			}
			res := g.emit(line)
			g.removeReported(res)
		case x < fl.wPub+fl.wDel+fl.wDelMulti+fl.wTrim+fl.wCompact+fl.wFind:
			switch r.intn(6) {
			case 0:
				g.emit(fmt.Sprintf("find off %d", int64(r.intn(int(g.next)+4))-2))
			case 1:
				g.emit(fmt.Sprintf("find count %d", r.intn(len(g.live)+3)))
			case 2:
				g.emit(fmt.Sprintf("find size %d", int64(r.intn(int(dirSize(g.run.main.dir))+100))))
			case 3:
				g.emit(fmt.Sprintf("find age %d", g.genCutoff()))
			case 4:
				g.emit(fmt.Sprintf("find upd %d", g.genCutoff()))
			default:
				g.emit(fmt.Sprintf("find del %d", g.genCutoff()))
			}
			pubOnly = true
		case x < fl.wPub+fl.wDel+fl.wDelMulti+fl.wTrim+fl.wCompact+fl.wFind+fl.wGC:
			g.emit("gc")
			pubOnly = true
		case x < fl.wPub+fl.wDel+fl.wDelMulti+fl.wTrim+fl.wCompact+fl.wFind+fl.wGC+fl.wSync:
			g.emit("sync")
			pubOnly = true
		case x < fl.wPub+fl.wDel+fl.wDelMulti+fl.wTrim+fl.wCompact+fl.wFind+fl.wGC+fl.wSync+fl.wReopen:
			g.closeAndReopen(false)
			if g.run.main.log == nil {
				return
			}
		case x < fl.wPub+fl.wDel+fl.wDelMulti+fl.wTrim+fl.wCompact+fl.wFind+fl.wGC+fl.wSync+fl.wReopen+fl.wBackup:
			mode := "fresh"
			if g.hadBackup && g.pubOnlySinceBackup && r.chance(70) {
				mode = "reuse"
			}
			api := ""
			if r.chance(40) {
				api = " pkg"
			}
			if res := g.emit("backup " + mode + api); res == "ok" {
				g.hadBackup, g.pubOnlySinceBackup = true, true
				g.emit("b.fsobs")
				g.emit("b.pkgcheck " + g.optsSuffix())
				ro := r.intn(2)
				if res := g.emit(fmt.Sprintf("b.open ro=%d %s as=0 roll=200 chk=%d rec=0 nsv=2 keep=0 eager=0", ro, g.optsSuffix(), r.intn(2))); res == "ok" {
					g.emit(fmt.Sprintf("b.scan %d", r.pick([]int64{1, 3, 32})))
					g.emit("b.next")
					g.emit("b.stat")
					for off := int64(-2); off <= g.next+1; off++ {
						g.emit(fmt.Sprintf("b.get %d", off))
					}
					if g.keysIx {
						for _, k := range g.keys {
							g.emit("b.gbk " + dash(k))
						}
					}
					if g.timesIx && g.mono {
						lo, hi := g.timeBounds()
						for t := lo - 1; t <= hi+1 && t < lo+200; t++ {
							g.emit(fmt.Sprintf("b.gbt %d", t))
						}
					}
					g.emit("b.close")
				}
				// the source is unchanged
				g.emit("fsobs")
			}
			pubOnly = true
		default:
			g.closeAndReopen(true)
			if g.run.main.log == nil {
				return
			}
		}
		if !pubOnly {
			g.pubOnlySinceBackup = false
		}
		g.observe(step)
	}
	g.emit("close")
	g.emit("fsobs")
	if g.fl.closeChecks || r.chance(30) {
		g.emit("segcheckall " + g.optsSuffix())
	}
}
