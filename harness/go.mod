module klevverif

go 1.25.0

toolchain go1.26.1

require github.com/klev-dev/klevdb v0.0.0

require (
	github.com/gofrs/flock v0.13.0 // indirect
	github.com/plar/go-adaptive-radix-tree/v2 v2.0.4 // indirect
	golang.org/x/exp v0.0.0-20260410095643-746e56fc9e2f // indirect
	golang.org/x/sys v0.43.0 // indirect
)

replace github.com/klev-dev/klevdb => /repo
