/-
Driver handlers for the `blocking` profile (C18, composition level): the notifier model of
`Klev/Notify.lean` driven by whole calls (a publish is a complete `Set`, Close a complete
`Close`), every waiter a `Wait` thread run until it returns or blocks.
-/
import Klev.Notify
import Klev.Proto
open Klev.Notify

namespace DBlock

structure Waiter where
  lhs : List String          -- cons <off> <max> | cbk <key> <off> <max>
  off : Int
  th : Nat                   -- its thread in the notifier model
  cancelled : Bool := false
  implDone : Bool := false
deriving Inhabited

structure BlState where
  active : Bool := false
  cfg : Cfg := ⟨initSt 0, []⟩
  waiters : List Waiter := []
  lastEv : String := "other"   -- wait:<i> | cancel:<i> | pub | close | other
  closed : Bool := false
deriving Inhabited

def runThread (c : Cfg) (k : Nat) : Nat → Cfg
  | 0 => c
  | f + 1 => if enabled c k then runThread (stepCfg c (.step k)) k f else c

/-- Every thread that can move does, until nothing can. -/
def settle (c : Cfg) : Nat → Cfg
  | 0 => c
  | f + 1 =>
    match (List.range c.ths.length).find? (fun j => enabled c j) with
    | none => c
    | some j => settle (runThread c j 16) f

def spawnRun (c : Cfg) (k : Kind) : Cfg :=
  settle (stepCfg c (.spawn k)) (4 * (c.ths.length + 2))

def start (next : Int) : BlState := { active := true, cfg := ⟨initSt next, []⟩ }

def offOf (lhs : List String) : Int :=
  match lhs with
  | ["cons", o, _] => o.toInt?.getD 0
  | ["cbk", _, o, _] => o.toInt?.getD 0
  | _ => 0

def wait (b : BlState) (lhs : List String) : BlState :=
  let off := offOf lhs
  let th := b.cfg.ths.length
  { b with cfg := spawnRun b.cfg (.wait off), waiters := b.waiters ++ [{ lhs := lhs, off := off, th := th }],
           lastEv := s!"wait:{b.waiters.length}" }

def published (b : BlState) (next : Int) : BlState :=
  { b with cfg := spawnRun b.cfg (.set next), lastEv := "pub" }

def closedNow (b : BlState) : BlState :=
  { b with cfg := spawnRun b.cfg .close, lastEv := "close", closed := true }

def cancel (b : BlState) (i : Nat) : BlState :=
  match b.waiters[i]? with
  | none => b
  | some w =>
    { b with cfg := settle (stepCfg b.cfg (.cancel w.th)) (4 * (b.cfg.ths.length + 2)),
             waiters := b.waiters.set i { w with cancelled := true }, lastEv := s!"cancel:{i}" }

/-- The notifier-level result of waiter `i` in the model (`none`: still blocked). -/
def waiterRes (b : BlState) (i : Nat) : Option Ret :=
  match b.waiters[i]? with
  | none => none
  | some w => (b.cfg.ths[w.th]?).bind (·.res)

def modelStatus (b : BlState) : String :=
  if b.waiters.isEmpty then "-" else
  String.intercalate " " ((List.range b.waiters.length).map (fun i =>
    if (waiterRes b i).isSome then s!"{i}:done" else s!"{i}:blocked"))

end DBlock
