/-
Driver handlers for the `blocking` profile (C18, composition level): the notifier model of
`Klev/Notify.lean` driven by whole calls (a publish is a complete `Set`, Close a complete
`Close`), every waiter a `Wait` thread run until it returns or blocks.
-/
import Klev.Notify
import Klev.Proto
open Klev.Notify

namespace DBlock

structure Waiter where
  lhs : List String          -- cons <off> <max> | cbk <key> <off> <max>
  off : Int
  th : Nat                   -- its thread in the notifier model
  cancelled : Bool := false
  implDone : Bool := false
deriving Inhabited

structure BlState where
  active : Bool := false
  cfg : Cfg := ⟨initSt 0, []⟩
  waiters : List Waiter := []
  lastEv : String := "other"   -- wait:<i> | cancel:<i> | pub | close | other
  closed : Bool := false
deriving Inhabited

def runThread (c : Cfg) (k : Nat) : Nat → Cfg
  | 0 => c
  | f + 1 => if enabled c k then runThread (stepCfg c (.step k)) k f else c

/-- Every thread that can move does, until nothing can. -/
def settle (c : Cfg) : Nat → Cfg
  | 0 => c
  | f + 1 =>
    match (List.range c.ths.length).find? (fun j => enabled c j) with
    | none => c
    | some j => settle (runThread c j 16) f

def spawnRun (c : Cfg) (k : Kind) : Cfg :=
  settle (stepCfg c (.spawn k)) (4 * (c.ths.length + 2))

def start (next : Int) : BlState := { active := true, cfg := ⟨initSt next, []⟩ }

def offOf (lhs : List String) : Int :=
  match lhs with
  | ["cons", o, _] => o.toInt?.getD 0
  | ["cbk", _, o, _] => o.toInt?.getD 0
  | _ => 0

def wait (b : BlState) (lhs : List String) : BlState :=
  let off := offOf lhs
  let th := b.cfg.ths.length
  { b with cfg := spawnRun b.cfg (.wait off), waiters := b.waiters ++ [{ lhs := lhs, off := off, th := th }],
           lastEv := s!"wait:{b.waiters.length}" }

def published (b : BlState) (next : Int) : BlState :=
  { b with cfg := spawnRun b.cfg (.set next), lastEv := "pub" }

def closedNow (b : BlState) : BlState :=
  { b with cfg := spawnRun b.cfg .close, lastEv := "close", closed := true }

def cancel (b : BlState) (i : Nat) : BlState :=
  match b.waiters[i]? with
  | none => b
  | some w =>
    { b with cfg := settle (stepCfg b.cfg (.cancel w.th)) (4 * (b.cfg.ths.length + 2)),
             waiters := b.waiters.set i { w with cancelled := true }, lastEv := s!"cancel:{i}" }

/-- The notifier-level result of waiter `i` in the model (`none`: still blocked). -/
def waiterRes (b : BlState) (i : Nat) : Option Ret :=
  match b.waiters[i]? with
  | none => none
  | some w => (b.cfg.ths[w.th]?).bind (·.res)

def modelStatus (b : BlState) : String :=
  if b.waiters.isEmpty then "-" else
  String.intercalate " " ((List.range b.waiters.length).map (fun i =>
    if (waiterRes b i).isSome then s!"{i}:done" else s!"{i}:blocked"))

end DBlock

/-! ### the free-running part (`bstorm`): waiters, publishers and cancellations at the same time -/
namespace DBlock
open Klev Klev.Proto

structure StormState where
  initial : Int := 0
  total : Int := 0
  published : List Msg := []
  settled : List String := []
deriving Inhabited

/-- What one waiter returned, judged without knowing the schedule: it must be an answer Consume /
ConsumeByKey gives in *some* state the log went through (no deletes happen in a storm, so those
states are the prefixes of the published sequence from the initial NextOffset on). -/
def judgeRet (s : StormState) (idx : Nat) (kind : String) (off max : Int) (canc : Bool) (phase : String)
    (impl : List String) : List String :=
  let wasBlockedAtSettle := (s.settled[idx]?.map (·.endsWith ":blocked")).getD false
  match impl with
  | ["blocked"] => ["NeverReturned"]
  | ["err", "ctx"] => if canc then [] else ["SpuriousCtxError"]
  | ["err", "notifyclosed"] => if phase == "closed" then [] else ["SpuriousClosedError"]
  | ["err", "invalidoffset"] =>
    -- only an offset beyond NextOffset (at that moment) is invalid: it must at least be beyond the initial one
    if kind == "cons" && off > s.initial then [] else ["SpuriousFailure"]
  | "err" :: _ => if phase == "closed" then [] else ["SpuriousFailure"]
  | "ok" :: rest =>
    match pCons rest with
    | none => ["Unparsed"]
    | some (nxt, ms) =>
      let content := ms.all (fun m => s.published.contains m)
      let start : Int := if off < 0 then (if off == -1 then nxt else 0) else off
      -- messages come in offset order from the cursor on, without holes for Consume (nothing is ever deleted here)
      let ordered := (ms.zip (ms.drop 1)).all (fun (a, b) => decide (a.off < b.off))
      let consec := kind != "cons" || (ms.zip (List.range ms.length)).all (fun (m, i) => m.off == start + i)
      let count := decide ((ms.length : Int) ≤ max)
      let nxtOK := if ms.isEmpty then decide (s.initial ≤ nxt) && decide (nxt ≤ s.total)
                   else (match ms.getLast? with | some m => nxt == m.off + 1 | none => true)
      -- an empty answer of Consume means "caught up": only at the offset asked for
      let emptyOK := !(ms.isEmpty && kind == "cons" && off ≥ 0 && nxt != off)
      -- below the NextOffset of the start there is always something for Consume
      let immediate := !(kind == "cons" && off ≥ 0 && off < s.initial && ms.isEmpty)
      (if content then [] else ["Content"]) ++ (if ordered && consec then [] else ["Order"]) ++
      (if count then [] else ["MaxCount"]) ++ (if nxtOK then [] else ["NextOffset"]) ++
      (if emptyOK then [] else ["EmptyAnswer"]) ++ (if immediate then [] else ["NotImmediate"]) ++
      (if wasBlockedAtSettle && off < s.total && !canc then ["LostWakeup"] else [])
  | _ => ["Unparsed"]

end DBlock
