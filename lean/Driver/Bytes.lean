/-
Driver handlers for the byte-level ops (`fmt` and `damage` profiles).
-/
import Klev
import Klev.Proto
open Klev Klev.Proto

namespace DBytes

def unhexD (s : String) : Option (List UInt8) := if s = "-" then some [] else hexDecode s
def hexD (b : List UInt8) : String := if b.isEmpty then "-" else hexEncode b

def verOf (s : String) : Ver := if s = "1" then .v1 else .v2

def parseItem (s : String) : Option Item :=
  match s.splitOn "/" with
  | [a, b, c, d] => do
    let off ← a.toInt?
    let pos ← b.toInt?
    let ts ← c.toInt?
    let kh ← d.toNat?
    pure ⟨off, pos, ts, UInt64.ofNat kh⟩
  | _ => none

def maskItem (p : Params) (it : Item) : Item :=
  { it with ts := if p.times then it.ts else 0, kh := if p.keys then it.kh else 0 }

def fmtSegErr : SegErr → String
  | .logCorrupt => "err logcorrupt"
  | .indexCorrupt => "err indexcorrupt"

def isOk {ε α : Type} : Except ε α → Bool
  | .ok _ => true
  | .error _ => false

def idxTok (o : Option (List UInt8)) : String :=
  match o with
  | none => "none"
  | some b => hexD b

def parseIdxTok (s : String) : Option (Option (List UInt8)) :=
  if s = "none" then some none else (unhexD s).map some

/-- Returns the model's result text and the L0 violations of the implementation's result. -/
def handleBytes (op impl : List String) : String × List String :=
  match op with
  | "wlog" :: v :: b :: _n :: ms =>
    match b.toInt?, parseAll parseMsg ms with
    | some base, some msgs =>
      let ver := verOf v
      let bytes := render ver msgs
      let pos := (layout ver msgs).map (fun pm => toString pm.1)
      let total := (msgs.map (recSize ver)).sum
      let model := s!"ok {hexD bytes} {if pos.isEmpty then "-" else String.intercalate "," pos} {total}"
      -- the independent decoder reads what the implementation wrote
      let v1 := match impl with
        | "ok" :: hx :: _ =>
          match unhexD hx with
          | some ib =>
            match logVersion ib base with
            | .ok dv =>
              let s := scan dv ib
              if (dv = ver ∨ msgs.isEmpty) ∧ s.fin = .clean ∧ s.recs.map (·.2) = msgs ∧ s.stop = ib.length then []
              else ["FormatOK.decode"]
            | .error _ => ["FormatOK.header"]
          | none => ["FormatOK.unparsed"]
        | _ => ["FormatOK.err"]
      (model, v1)
    | _, _ => ("bad-op", [])
  | "widx" :: v :: t :: k :: b :: _n :: its =>
    match b.toInt?, parseAll parseItem its with
    | some base, some items =>
      let p : Params := ⟨t = "1", k = "1"⟩
      let bytes := renderIdx p (verOf v) items
      let v1 := match impl with
        | "ok" :: hx :: _ =>
          match unhexD hx with
          | some ib =>
            match parseIdx p ib base with
            | .ok (_, got) => if got = items.map (maskItem p) then [] else ["IndexFormatOK.decode"]
            | .error _ => ["IndexFormatOK.parse"]
          | none => ["IndexFormatOK.unparsed"]
        | _ => ["IndexFormatOK.err"]
      (s!"ok {hexD bytes}", v1)
    | _, _ => ("bad-op", [])
  | ["segcheck", t, k, b, lg, ix] =>
    match b.toInt?, unhexD lg, parseIdxTok ix with
    | some base, some lb, some ib =>
      let p : Params := ⟨t = "1", k = "1"⟩
      match Seg.check p ⟨base, lb, ib⟩ with
      | .ok _ => ("ok", [])
      | .error e => (fmtSegErr e, [])
    | _, _, _ => ("bad-op", [])
  | "segrecover" :: t :: k :: b :: lg :: ix :: rest =>
    match b.toInt?, unhexD lg, parseIdxTok ix with
    | some base, some lb, some ib =>
      let p : Params := ⟨t = "1", k = "1"⟩
      let f : SegFiles := ⟨base, lb, ib⟩
      match Seg.recover p f with
      | .error e => (fmtSegErr e, [])
      | .ok f' =>
        let chk := match Seg.check p f' with
          | .ok _ => "check=ok"
          | .error .logCorrupt => "check=logcorrupt"
          | .error .indexCorrupt => "check=indexcorrupt"
        let post := if rest = ["post"] then " post=ok" else ""
        let model := s!"ok {hexD f'.log} {idxTok f'.idx} {chk}{post}"
        -- L0 on the implementation's own output
        let viols := match impl with
          | "ok" :: ilg :: iix :: more =>
            match unhexD ilg, parseIdxTok iix with
            | some olb, some oib =>
              let clean := isOk (Seg.check p f)
              -- byte-for-byte no-op on an undamaged segment
              (if clean ∧ ¬ (olb = lb ∧ oib = ib) then ["RecoverOK.noop"] else []) ++
              -- exactly the longest prefix of valid records (reference parser: `scan`)
              (match logVersion lb base with
               | .ok ver =>
                 let s := scan ver lb
                 (if olb = lb.take s.stop ∧ (olb = render ver (s.recs.map (·.2)) ∨ s.recs.isEmpty) then [] else ["RecoverOK.prefix"])
               | .error _ => []) ++
              -- Check succeeds afterwards (model's Check on the implementation's files, and the real one)
              (if isOk (Seg.check p ⟨base, olb, oib⟩) then [] else ["RecoverOK.check-model"]) ++
              (if more.contains "check=ok" then [] else ["RecoverOK.check"]) ++
              (if rest = ["post"] ∧ ¬ more.contains "post=ok" then ["RecoverOK.post"] else [])
            | _, _ => ["RecoverOK.unparsed"]
          | _ => ["RecoverOK.err"]
        (model, viols)
    | _, _, _ => ("bad-op", [])
  | _ => ("bad-op", [])

end DBytes
