/-
Driver rules for the `free` profile (C08): a recorded concurrent history (every call with its
invocation and response time on one logical clock) judged without a sequential witness.
-/
import Klev.Proto
import Std.Data.HashMap
open Klev Klev.Proto

namespace DFree

structure Call where
  g : Nat
  inv : Int
  ret : Int
  op : List String
  impl : List String
deriving Inhabited

structure Pub where
  inv : Int
  ret : Int
  lo : Int            -- offsets [lo, hi)
  hi : Int
deriving Inhabited

def parseBatchMsgs (toks : List String) : Option (List (Int × List UInt8 × List UInt8)) :=
  parseAll (fun t => match t.splitOn ":" with
    | [_, e, k, v] => do
      let eff ← e.toInt?
      let key ← hexDecode k
      let val ← hexDecode v
      pure (eff, key, val)
    | _ => none) toks

def implOk (c : Call) : Bool := c.impl.head? == some "ok"
def errClass (c : Call) : String := match c.impl with | ["err", x] => x | _ => ""

def msgsOf (toks : List String) : List Msg := toks.filterMap parseMsg

/-- Judge a whole history. Returns the violations (relation name and description). -/
def judge (calls : List Call) (final : List String) (check : String) : List (String × String) := Id.run do
  let mut out : List (String × String) := []
  let opOf := fun (c : Call) => String.intercalate " " c.op
  let desc := fun (c : Call) => s!"g={c.g} [{c.inv},{c.ret}] {(opOf c).take 120} => {(String.intercalate " " c.impl).take 200}"
  -- publishes
  let mut published : Std.HashMap Int Msg := {}
  let mut pubRet : Std.HashMap Int Int := {}
  let mut pubs : Array Pub := #[]
  for c in calls do
    if c.op.head? == some "pub" then
      match c.impl with
      | ["ok", n] =>
        match n.toInt?, parseBatchMsgs (c.op.drop 2) with
        | some nx, some b =>
          let k : Int := b.length
          pubs := pubs.push { inv := c.inv, ret := c.ret, lo := nx - k, hi := nx }
          let mut i : Int := 0
          for (eff, key, val) in b do
            published := published.insert (nx - k + i) ⟨nx - k + i, eff, key, val⟩
            pubRet := pubRet.insert (nx - k + i) c.ret
            i := i + 1
        | _, _ => out := out ++ [("Unparsed", desc c)]
      | _ => out := out ++ [("SpuriousFailure", desc c)]
  -- R1: disjoint consecutive ranges, in real-time order
  let sorted := pubs.qsort (fun a b => a.hi < b.hi || (a.hi == b.hi && a.lo > b.lo))
  let mut prevHi : Int := 0
  for p in sorted do
    if p.lo == p.hi then continue      -- an empty batch takes no offsets
    if p.lo ≠ prevHi then out := out ++ [("PublishRanges", s!"range [{p.lo},{p.hi}) does not continue {prevHi}")]
    prevHi := p.hi
  for a in pubs do
    for b in pubs do
      if a.ret < b.inv ∧ a.hi > b.lo ∧ b.lo < b.hi ∧ a.lo < a.hi then
        out := out ++ [("PublishOrder", s!"[{a.lo},{a.hi}) returned before [{b.lo},{b.hi}) was invoked")]
  let maxNext := pubs.foldl (fun m p => if p.hi > m then p.hi else m) 0
  -- a batch becomes visible as a whole: the log never ends in the middle of one
  let boundary := fun (n : Int) => n == 0 || pubs.any (fun p => p.hi == n)
  -- NextOffset is at least this when a call is invoked at `t` / at most this when it returns at `t`
  let ackNextBefore := fun (t : Int) => pubs.foldl (fun m p => if p.ret < t ∧ p.hi > m then p.hi else m) 0
  let invNextBefore := fun (t : Int) => pubs.foldl (fun m p => if p.inv < t ∧ p.hi > m then p.hi else m) 0
  -- deletes
  let mut delInv : Std.HashMap Int Int := {}
  for c in calls do
    if c.op.head? == some "del" then
      if !implOk c then
        -- the only failure a sequential Delete has: the lowest requested offset lies before the first
        -- segment (everything there was deleted earlier); decided below, once all deletes are known
        if errClass c != "notfound" then out := out ++ [("SpuriousFailure", desc c)]
      else
      let req := (c.op[1]? >>= parseInts).getD []
      let rep := msgsOf (c.impl.drop 3)
      for m in rep do
        if published[m.off]? != some m then out := out ++ [("DeleteContent", desc c)]
        if !req.contains m.off then out := out ++ [("DeleteUnrequested", desc c)]
        if delInv.contains m.off then out := out ++ [("DeleteTwice", s!"offset {m.off}: {desc c}")]
        delInv := delInv.insert m.off c.inv
  -- deletes that gave up: the lowest requested offset was live during the whole call
  for c in calls do
    if c.op.head? == some "del" ∧ implOk c then
      let req := (c.op[1]? >>= parseInts).getD []
      let rep := msgsOf (c.impl.drop 3)
      match sortInts req with
      | m :: _ =>
        let acked : Bool := match pubRet[m]? with | some r => decide (r < c.inv) | none => false
        if acked && !(delInv.contains m) && !(rep.any (·.off == m)) then
          out := out ++ [("DeleteGaveUp", desc c)]
      | [] => pure ()
  let deletedBy := fun (o : Int) (t : Int) => match delInv[o]? with | some i => decide (i < t) | none => false
  for c in calls do
    if c.op.head? == some "del" ∧ errClass c == "notfound" then
      match sortInts ((c.op[1]? >>= parseInts).getD []) with
      | m :: _ => if !(deletedBy m c.ret) then out := out ++ [("SpuriousFailure", desc c)]
      | [] => pure ()
  -- reads
  for c in calls do
    let kind := c.op.headD ""
    if kind == "pub" ∨ kind == "del" then continue
    let cls := errClass c
    if cls == "logcorrupt" ∨ cls == "indexcorrupt" ∨ cls == "other" ∨ cls == "panic" ∨ cls == "noindex" ∨ cls == "readonly" ∨ cls == "ctx" then
      out := out ++ [("SpuriousFailure", desc c)]
      continue
    -- content of everything returned
    if implOk c then
      for m in msgsOf c.impl do
        if published[m.off]? != some m then out := out ++ [("Content", s!"offset {m.off}: {desc c}")]
    if kind == "cons" then
      match c.op, (parseOutWith pCons c.impl) with
      | [_, o, _mx], some (.ok (nxt, ms)) =>
        let off := o.toInt?.getD 0
        let mx := (c.op[2]? >>= String.toInt?).getD 0
        -- fewer messages than asked for = the end of a segment or of the log, both of which lie between batches
        -- (or in front of messages of that batch that a Delete invoked before the answer has removed)
        let nextB := pubs.foldl (fun (b : Int) p => if p.hi ≥ nxt ∧ (p.hi < b ∨ b < nxt) then p.hi else b) (-1)
        let restGone := nextB ≥ nxt ∧ ((List.range (nextB - nxt).toNat).all (fun k => deletedBy (nxt + k) c.ret))
        if (off == -1 ∨ (ms.length : Int) < mx) ∧ !boundary nxt ∧ !restGone then out := out ++ [("BatchAtomic", desc c)]
        if off == -1 then
          if nxt < ackNextBefore c.inv ∨ nxt > invNextBefore c.ret ∨ !ms.isEmpty then out := out ++ [("NewestStale", desc c)]
        else
          let lo := if off < 0 then 0 else off
          -- everything in [lo, nxt) that was not returned was deleted by a Delete invoked before this call returned
          let mut o := lo
          let mut bad : Option Int := none
          while o < nxt do
            if !(ms.any (·.off == o)) ∧ !(deletedBy o c.ret) then
              bad := some o
              break
            o := o + 1
          if let some b := bad then out := out ++ [("UnreportedGap", s!"offset {b}: {desc c}")]
          if ms.isEmpty ∧ off ≥ 0 ∧ nxt == off ∧ ackNextBefore c.inv > off then out := out ++ [("StaleCaughtUp", desc c)]
          if nxt > invNextBefore c.ret then out := out ++ [("NextBeyond", desc c)]
          if nxt < lo ∧ off ≥ 0 then out := out ++ [("NextBackwards", desc c)]
      | [_, o, _], some (.err _) =>
        let off := o.toInt?.getD 0
        -- an offset that was already assigned when the call started is a valid cursor
        if off ≤ ackNextBefore c.inv then out := out ++ [("SpuriousFailure", desc c)]
      | _, _ => out := out ++ [("Unparsed", desc c)]
    else if kind == "get" then
      match c.op with
      | [_, o] =>
        let off := o.toInt?.getD 0
        if !implOk c then
          if off < ackNextBefore c.inv ∧ !(deletedBy off c.ret) then out := out ++ [("SpuriousFailure", desc c)]
        else if (msgsOf c.impl).any (·.off != off) then out := out ++ [("Content", desc c)]
        else if deletedBy off c.inv ∧ false then pure ()
      | _ => pure ()
    else if kind == "next" ∨ kind == "sync" then
      match c.impl with
      | ["ok", n] =>
        let v := n.toInt?.getD (-1)
        if v < ackNextBefore c.inv ∨ v > invNextBefore c.ret then out := out ++ [("NextOffsetStale", desc c)]
        if !boundary v then out := out ++ [("BatchAtomic", desc c)]
      | _ => out := out ++ [("SpuriousFailure", desc c)]
    else if kind == "gc" ∨ kind == "stat" then
      if !implOk c then out := out ++ [("SpuriousFailure", desc c)]
    else pure ()
  -- a read that saw a message after a Delete that reported it had returned
  let mut delRet : Std.HashMap Int Int := {}
  for c in calls do
    if c.op.head? == some "del" ∧ implOk c then
      for m in msgsOf (c.impl.drop 3) do delRet := delRet.insert m.off c.ret
  for c in calls do
    let kind := c.op.headD ""
    if kind == "pub" ∨ kind == "del" ∨ !implOk c then continue
    for m in msgsOf c.impl do
      match delRet[m.off]? with
      | some r => if r < c.inv then out := out ++ [("ReadAfterDelete", s!"offset {m.off}: {desc c}")]
      | none => pure ()
  -- the state everybody left behind
  match parseOutWith pCons final with
  | some (.ok (nxt, ms)) =>
    if nxt ≠ maxNext then out := out ++ [("FinalNext", s!"NextOffset {nxt}, published up to {maxNext}")]
    let expect := ((List.range maxNext.toNat).map (fun (i : Nat) => (i : Int))).filter (fun o => !delInv.contains o)
    if ms.map (·.off) ≠ expect then
      let missing := expect.filter (fun o => !(ms.any (·.off == o)))
      let extra := (ms.map (·.off)).filter (fun o => !expect.contains o)
      out := out ++ [("FinalContent", s!"missing={missing.take 8} unexpected={extra.take 8}")]
    for m in ms do
      if published[m.off]? != some m then out := out ++ [("Content", s!"final scan offset {m.off}")]
  | _ => out := out ++ [("FinalScanFails", String.intercalate " " final)]
  -- Check compares the index files with the indexes derived from the logs; their timestamp column is only
  -- claimed equal when message times never decrease with offset (C11; the writer carries its running maximum
  -- across rollovers and deletes, a derivation starts every segment afresh). Publishers that race to the writer
  -- lock can invert the order of their times: then an `index corrupted` verdict is not held against the log.
  let monoTimes := Id.run do
    let mut last : Int := -1
    let mut okm := true
    for i in List.range maxNext.toNat do
      match published[(i : Int)]? with
      | some m =>
        if m.time < last then okm := false
        last := m.time
      | none => pure ()
    return okm
  if check ≠ "ok" ∧ (monoTimes ∨ check ≠ "check-indexcorrupt") then out := out ++ [("FinalCheck", check)]
  return out

end DFree
