/-
Correspondence driver. Reads a trace written by the Go harness, one operation per line:

    <op> <args…> => <implementation result>

steps the L1 model (`Klev/Model.lean`, `Klev/Helpers.lean`) on the same operation, and
evaluates the L0 relation (`Klev/Spec.lean`) on the implementation's own result.
Prints one line per disagreement:

    DIFF <line#> <op…> impl=<…> model=<…>       the model and the code differ
    VIOL <line#> <relation> <op…> impl=<…>      the code's result violates the L0 relation

and a final `SUMMARY …` line with counters. Core-only; built as a native executable.
-/
import Std.Data.HashMap
import Klev
import Klev.Proto
import Klev.Flock
import Klev.Gen.Facts
import Driver.Bytes
import Driver.NotifyDrv
import Driver.BlockDrv
import Driver.SchedDrv
import Driver.FreeDrv
import Klev.Crash
import Klev.CrashOpen
open Klev Klev.Proto

structure Side where
  mlog  : Option Log := none
  disk  : List SegDisk := []
  spec  : Spec := ⟨[], 0⟩
  ro    : Bool := false
  params : Params := ⟨false, false⟩
  nsv   : Ver := .v2
  msync : Bool := true
  pendingSize : Option Int := none   -- bound to check at the next `stat`
  histMono : Bool := true           -- every time published so far is ≥ 0 and ≥ the one before
  fsVers : Option (List (Int × Ver)) := none  -- (base, log version) of every segment, from the
                                               -- implementation's last directory listing, if still current
  lastTime : Int := 0
deriving Inhabited

/-- State of the multi-handle (`lock` profile) model. -/
structure MhState where
  lock : LockSt := ⟨0, 0⟩
  handles : List (String × Bool) := []      -- handle ↦ read-only?
  next : Int := 3
  deleted0 : Bool := false
  digest : Option String := none
  mutated : Bool := false                    -- a writer changed the log since the last digest
deriving Inhabited

/-- C14: the damage applied to one segment log file of a copy of the directory. -/
structure Dmg where
  lo : Int
  hi : Int              -- offsets of the damaged segment: [lo, hi)
  kind : String         -- flip | over | zero | trunc
  recs : List Int       -- records with at least one changed (or lost) byte
  fsize : Int
  pos : Int := 0
deriving Inhabited

structure DState where
  main : Side := {}
  bak  : Side := {}
  mh   : MhState := {}
  nt   : DNotify.NtState := {}
  bl   : DBlock.BlState := {}
  bs   : DBlock.StormState := {}     -- the free-running blocking storm (C18)
  sc   : List DSched.Call := []      -- the calls of the current window (C08)
  fr   : Array DFree.Call := #[]     -- the calls of the current free-running history (C08)
  frFinal : List String := []
  skip : Bool := false               -- the rest of this history is not judged (the model lost the state)
  dmg  : Option Dmg := none          -- the damage applied to the copy being read (C14)
  blPre : Option Side := none        -- the log as it was when the blocking log was closed
  crashPre : Spec := ⟨[], 0⟩          -- L0 state before the operation in flight
  crashPreLog : Option Log := none   -- the model log before the operation in flight
  crashPreDisk : List SegDisk := []  -- the model directory before the operation in flight (an Open)
  crashOp : List String := []        -- the operation in flight (tokens)
  crashArmed : Bool := false
  crashBases : List Int := []        -- segment bases from the listing before the operation in flight
  ackW : Int := 0                    -- last offset acknowledged as durable (Sync / AutoSync publish / Close)
  autosync : Bool := false
  line : Nat := 0
  diffs : Nat := 0
  viols : Nat := 0
  hists : Nat := 0
  counts : Std.HashMap String Nat := {}
  out : Array String := #[]
deriving Inhabited

def bump (m : Std.HashMap String Nat) (k : String) : Std.HashMap String Nat :=
  m.insert k (m.getD k 0 + 1)

/-- Result of handling one op on one side: new side, the model's result text, and the
L0 violations found in the implementation's result. -/
structure Handled where
  side : Side
  model : String
  viols : List String := []

def decideB (p : Prop) [Decidable p] : Bool := decide p

def monotoneB (s : Spec) : Bool := decideB (Spec.Monotone s)

/-- Non-decreasing, non-negative times over the whole publish history (C10, C11, C15, C16
quantify over such histories; the index timestamp carry makes the history matter). -/
def monoStep (last : Int) : List Int → Bool × Int
  | [] => (true, last)
  | t :: ts => if last ≤ t then monoStep t ts else (false, t)

/-- Storage size of messages given the directory listing: a message is stored in the
version of the last segment whose base is not above its offset. -/
def exactSize (p : Params) (vers : List (Int × Ver)) (del : List Msg) : Int :=
  (del.map (fun m =>
    let v := ((vers.filter (fun bv => decide (bv.1 ≤ m.off))).getLast?.map (·.2)).getD Ver.v2
    recSize v m + p.size)).sum

def removeReported (s : Spec) (del : List Msg) : Spec :=
  { s with live := s.live.filter (fun m => !(del.map (·.off)).contains m.off) }

/-- Content check shared by every delete-like result: what was reported deleted was live,
with exactly that content. -/
def reportedAreLive (s : Spec) (del : List Msg) : Bool :=
  del.all (fun d => s.live.contains d) && decideB ((del.map (·.off)).Nodup)

def fullScan (l : Log) (mc : Nat) : Nat → Int → List Msg → Log × Out (Int × List Msg)
  | 0, _, _ => (l, .err .panic)
  | fuel + 1, off, acc =>
    match l.consume off mc with
    | (l1, .err e) => (l1, .err e)
    | (l1, .ok (nxt, ms)) =>
      if ms.isEmpty ∧ nxt = off then (l1, .ok (nxt, acc))
      else if ms.isEmpty ∧ off < 0 then (l1, .ok (nxt, acc))
      else fullScan l1 mc fuel nxt (acc ++ ms)

/-- A full scan of the model log as the harness takes one (`scanMap`, 64 at a time): it loads the reader indexes. -/
def scanFirst (sd : Side) (l : Log) : Log :=
  (fullScan l 64 ((l.wNextOff + 4).toNat + 2 * l.segs.length + 64 + sd.spec.next.toNat) offsetOldest []).1

def parseBatch (toks : List String) : Option (List (Option Int × Int × List UInt8 × List UInt8)) :=
  parseAll (fun t => match t.splitOn ":" with
    | [g, e, k, v] => do
      let eff ← e.toInt?
      let key ← hexDecode k
      let val ← hexDecode v
      let given ← (if g = "z" then some none else g.toInt?.map some)
      pure (given, eff, key, val)
    | _ => none) toks

def mkOpts (toks : List String) : OpenOpts :=
  { opts := { readonly := optBool toks "ro",
              params := ⟨optBool toks "times", optBool toks "keys"⟩,
              autosync := optBool toks "as",
              rollover := (let r := optInt toks "roll" 0; if r ≤ 0 then 1024 * 1024 else r),
              nsv := if optInt toks "nsv" 2 = 1 then .v1 else .v2,
              keep := optBool toks "keep" },
    check := optBool toks "chk", recover := optBool toks "rec", eager := optBool toks "eager" }

def closedRes : String := "err closed"

/-- key tokens: hex, with "-" for the empty key -/
def decodeKey (s : String) : Option (List UInt8) := if s = "-" then some [] else hexDecode s

def withLog (sd : Side) (f : Log → Handled) : Handled :=
  match sd.mlog with
  | some l => f l
  | none => { side := sd, model := closedRes }

def viol (c : Bool) (name : String) : List String := if c then [] else [name]

/-- Handle one op on one side. `impl` are the tokens of the implementation's result. -/
def handle (sd : Side) (op : List String) (impl : List String) : Handled :=
  match op with
  | "open" :: opts =>
    let oo := mkOpts opts
    match Log.open sd.disk oo with
    | .ok l => { side := { sd with mlog := some l, ro := oo.opts.readonly, params := oo.opts.params,
                                   nsv := oo.opts.nsv }, model := "ok" }
    | .err e => { side := sd, model := fmtErr e }
  | ["close"] =>
    withLog sd fun l => { side := { sd with mlog := none, disk := l.disk }, model := "ok" }
  | ["rmidx", bs] =>
    let bl := (parseInts bs).getD []
    { side := { sd with disk := sd.disk.map (fun d => if bl.contains d.base then { d with idxf := none } else d) },
      model := "ok" }
  | "pkgmigrate" :: opts =>
    let v : Ver := if optInt opts "v" 2 = 1 then .v1 else .v2
    let p : Params := ⟨optBool opts "times", optBool opts "keys"⟩
    { side := { sd with disk := sd.disk.map (segMigrate p v v) }, model := "ok" }
  | "pkgcheck" :: opts =>
    let p : Params := ⟨optBool opts "times", optBool opts "keys"⟩
    let okc := match sd.disk.getLast? with
      | none => true
      | some h => segCheck p h
    { side := sd, model := if okc then "ok" else "err indexcorrupt",
      viols := [] }
  | "segcheckall" :: opts =>
    let p : Params := ⟨optBool opts "times", optBool opts "keys"⟩
    let okc := sd.disk.all (segCheck p)
    { side := sd, model := if okc then "ok" else "err indexcorrupt",
      viols := if sd.histMono ∧ impl ≠ ["ok"] then ["IndexFilesExact"] else [] }
  | "pkgrecover" :: opts =>
    let p : Params := ⟨optBool opts "times", optBool opts "keys"⟩
    { side := { sd with disk := mapLast (segRecover p) sd.disk }, model := "ok" }
  | "pub" :: _n :: items =>
    if items.any (fun t => t.endsWith ":!big") then
      -- a batch with a message larger than the format takes is refused as a whole: nothing of it is
      -- published, assigned or left in the files (what the files hold shows at the next reopen / scan)
      let isErr := match impl with | "err" :: _ => true | _ => false
      -- (log.Publish rolls a full head over before the batch is looked at: no content changes, the layout may)
      let sd' := match sd.mlog with
        | some l => if l.opts.readonly then sd else { sd with mlog := some l.rollover }
        | none => sd
      let model := match sd.mlog with
        | some l => if l.opts.readonly then "err readonly" else "err other"
        | none => closedRes
      { side := sd', model := model, viols := viol isErr "PublishOK.oversize" }
    else
    match parseBatch items with
    | none => { side := sd, model := "bad-op" }
    | some b =>
      let batch := b.map (fun (_, e, k, v) => (e, k, v))
      let implR := parseOutWith pInt impl
      -- L0
      -- (a call on a closed handle - only shrinking produces one - changes nothing)
      let spec' : Spec := if sd.ro ∨ sd.mlog.isNone then sd.spec else
        { live := sd.spec.live ++ Spec.stampSpec sd.spec.next batch, next := sd.spec.next + batch.length }
      let v1 := match implR with
        | some r => viol (decideB (Spec.PublishOK sd.ro sd.spec batch r spec')) "PublishOK"
        | none => ["PublishOK.unparsed"]
      let v2 := viol (b.all (fun (g, e, _, _) => match g with | some t => t == e | none => true)) "PublishOK.time"
      let (mok, lt) := monoStep sd.lastTime (batch.map (·.1))
      let sd := if sd.ro then sd else { sd with histMono := sd.histMono && mok, lastTime := lt }
      withLog { sd with spec := spec' } fun l =>
        let (l1, r) := l.publish batch
        { side := { sd with spec := spec', mlog := some l1 }, model := fmtOut toString r, viols := v1 ++ v2 }
  | [o] =>
    if o = "next" ∨ o = "sync" then
      let v := match parseOutWith pInt impl with
        | some r => viol (r == .ok sd.spec.next) "NextOffsetOK"
        | none => ["NextOffsetOK.unparsed"]
      withLog sd fun l =>
        let (l1, r) := l.nextOffset
        { side := { sd with mlog := some l1 }, model := fmtOut toString r, viols := v }
    else if o = "gc" then
      withLog sd fun l => { side := { sd with mlog := some l.gc }, model := "ok" }
    else if o = "stat" then
      let v := match parseOutWith pStats impl with
        | some (.ok (st, fsz)) =>
          viol (decideB (Spec.StatOK sd.spec (.ok st))) "StatOK" ++ viol (st.size == fsz) "StatOK.size" ++
          (match sd.pendingSize with
           | some sz => viol (decide (st.size < sz) || sd.spec.live.isEmpty) "TrimBySizeOK.bound"
           | none => [])
        | some (.err _) => ["StatOK.err"]
        | none => ["StatOK.unparsed"]
      withLog { sd with pendingSize := none } fun l =>
        let (l1, r) := l.stat
        let txt := match r with
          | .ok st => s!"ok {fmtStats st} {st.size}"
          | .err e => fmtErr e
        { side := { sd with mlog := some l1, pendingSize := none }, model := txt, viols := v }
    else if o = "fsobs" then
      let ds := match sd.mlog with | some l => l.disk | none => sd.disk
      -- remember the implementation's own listing: which file version holds which offsets
      let vers : Option (List (Int × Ver)) := match impl with
        | "ok" :: _n :: segs => parseAll (fun (t : String) => match t.splitOn ":" with
            | b :: v :: _ => (b.toInt?).map (fun bb => (bb, if v = "1" then Ver.v1 else Ver.v2))
            | _ => none) (segs.filter (fun t => !t.startsWith "extra:"))
        | _ => none
      -- C17: which format version every segment file has is determined by the history and the version options
      -- (rewritten segments keep or change version as configured, migrated ones are in the target version):
      -- same segments, another version column = a violation, not only a difference
      let modelToks := ((fmtDisk sd.params ds).splitOn " ").drop 1
      let implToks' := match impl with | "ok" :: _ :: segs => segs.filter (fun t => !t.startsWith "extra:") | _ => []
      let verOf := fun (t : String) => match t.splitOn ":" with
        | [b, lv, _, iv, _] => some (b, lv, iv)
        | _ => none
      let vviol := modelToks.length == implToks'.length &&
        (modelToks.zip implToks').any (fun (m, i) => match verOf m, verOf i with
          | some (b1, lv1, iv1), some (b2, lv2, iv2) => b1 == b2 && (lv1 != lv2 || (iv1 != "-" && iv2 != "-" && iv1 != iv2))
          | _, _ => false)
      { side := { sd with fsVers := vers }, model := s!"ok {fmtDisk sd.params ds}", viols := if vviol then ["VersionsOK"] else [] }
    else { side := sd, model := "bad-op" }
  | ["cons", o, m] =>
    match o.toInt?, m.toNat? with
    | some off, some mc =>
      let v := match parseOutWith pCons impl with
        | some r => viol (decideB (Spec.ConsumeOK sd.spec off mc r)) "ConsumeOK"
        | none => ["ConsumeOK.unparsed"]
      withLog sd fun l =>
        let (l1, r) := l.consume off mc
        { side := { sd with mlog := some l1 }, model := fmtOut fmtCons r, viols := v }
    | _, _ => { side := sd, model := "bad-op" }
  | ["edge", _v, d] =>
    -- the body limit at its edge, in a log of its own: a batch is accepted as a whole iff its largest body is
    -- at most the documented maximum (`Gen.msgMaxMessageBodySize`, T1), and a refused batch leaves nothing behind
    match d.toInt? with
    | some delta =>
      let model := if delta ≤ 0 then "accepted next=4 offs=0,1,2,3 big=ok" else "refused next=2 offs=0,1 big=-"
      { side := sd, model := model, viols := viol (String.intercalate " " impl == model) "BodyLimitOK" }
    | none => { side := sd, model := "bad-op" }
  | ["scan", m] =>
    match m.toNat? with
    | some mc =>
      let v := match parseOutWith pCons impl with
        | some (.ok (nxt, ms)) => viol (ms == sd.spec.live && nxt == sd.spec.next) "ScanOK"
        | some (.err _) => ["ScanOK.err"]
        | none => ["ScanOK.unparsed"]
      withLog sd fun l =>
        let (l1, r) := fullScan l mc ((l.wNextOff + 4).toNat + 2 * l.segs.length + 64 + sd.spec.next.toNat) offsetOldest []
        { side := { sd with mlog := some l1 }, model := fmtOut fmtCons r, viols := v }
    | none => { side := sd, model := "bad-op" }
  | ["get", o] =>
    match o.toInt? with
    | some off =>
      let v := match parseOutWith pMsg impl with
        | some r => viol (decideB (Spec.GetOK sd.spec off r)) "GetOK"
        | none => ["GetOK.unparsed"]
      withLog sd fun l =>
        let (l1, r) := l.get off
        { side := { sd with mlog := some l1 }, model := fmtOut fmtMsg r, viols := v }
    | none => { side := sd, model := "bad-op" }
  | [o, k] =>
    if o = "gbk" ∨ o = "obk" then
      match decodeKey k with
      | some key =>
        let expected := if o = "gbk" then none else some ()
        let v := if o = "gbk" then
            match parseOutWith pMsg impl with
            | some r => viol (decideB (Spec.GetByKeyOK sd.params.keys sd.spec key r)) "GetByKeyOK"
            | none => ["GetByKeyOK.unparsed"]
          else
            match parseOutWith pInt impl with
            | some (.ok off) => viol ((Spec.withKey sd.spec.live key).getLast?.map (·.off) == some off && sd.params.keys) "OffsetByKeyOK"
            | some (.err e) => viol (decideB (Spec.GetByKeyOK sd.params.keys sd.spec key (.err e))) "OffsetByKeyOK"
            | none => ["OffsetByKeyOK.unparsed"]
        withLog sd fun l =>
          let (l1, r) := l.getByKey key
          let txt := match expected with
            | none => fmtOut fmtMsg r
            | some _ => fmtOut (fun (m : Msg) => toString m.off) r
          { side := { sd with mlog := some l1 }, model := txt, viols := v }
      | none => { side := sd, model := "bad-op" }
    else if o = "gbt" ∨ o = "obt" then
      match k.toInt? with
      | some t =>
        let mono := sd.histMono
        let v := if !mono then [] else
          if o = "gbt" then
            match parseOutWith pMsg impl with
            | some r => viol (decideB (Spec.GetByTimeOK sd.params.times sd.spec t r)) "GetByTimeOK"
            | none => ["GetByTimeOK.unparsed"]
          else
            match impl with
            | ["ok", a, b] =>
              match a.toInt?, b.toInt? with
              | some off, some tm =>
                viol (sd.params.times && (sd.spec.live.find? (fun m => decide (t ≤ m.time))).map (fun m => (m.off, m.time)) == some (off, tm)) "OffsetByTimeOK"
              | _, _ => ["OffsetByTimeOK.unparsed"]
            | ["err", c] => viol (decideB (Spec.GetByTimeOK sd.params.times sd.spec t (.err (parseErr c)))) "OffsetByTimeOK"
            | _ => ["OffsetByTimeOK.unparsed"]
        withLog sd fun l =>
          let (l1, r) := l.getByTime t
          let txt := if o = "gbt" then fmtOut fmtMsg r
            else fmtOut (fun (m : Msg) => s!"{m.off} {m.time}") r
          { side := { sd with mlog := some l1 }, model := txt, viols := v }
      | none => { side := sd, model := "bad-op" }
    else if o = "msize" then
      -- Log.Size (C13): the record in the version new segments get, plus one index item
      match parseMsg k with
      | some m =>
        let want := recSize sd.nsv m + sd.params.size
        withLog sd fun _ => { side := sd, model := s!"ok {want}", viols := viol (impl == ["ok", toString want]) "SizeOK" }
      | none => { side := sd, model := "bad-op" }
    else if o = "del" ∨ o = "delmulti" ∨ o = "delmultio" then
      match parseInts k with
      | some offs =>
        if o = "del" then
          let implR := parseOutWith pDel impl
          let spec' := match implR with
            | some (.ok (del, _)) => removeReported sd.spec del
            | _ => sd.spec
          let v := match implR with
            | some r =>
              viol (decideB (Spec.DeleteOK sd.ro sd.params sd.spec offs r spec')) "DeleteOK" ++
              (match r with | .ok (del, _) => viol (reportedAreLive sd.spec del) "DeleteOK.content" | _ => []) ++
              (match r, sd.fsVers with
               | .ok (del, sz), some vers => viol (sz == exactSize sd.params vers del) "DeleteOK.size"
               | _, _ => [])
            | none => ["DeleteOK.unparsed"]
          withLog { sd with spec := spec' } fun l =>
            let (l1, r) := l.delete offs
            { side := { sd with spec := spec', mlog := some l1 },
              model := fmtOut (fun (r : List Msg × Int) => s!"{r.2} {fmtMsgs (sortMsgs r.1)}") r, viols := v }
        else
          let implR := parseMulti impl
          let spec' := match implR with
            | some mo => removeReported sd.spec mo.msgs
            | none => sd.spec
          let v := match implR with
            | some mo =>
              viol (reportedAreLive sd.spec mo.msgs) "DeleteMultiOK.content" ++
              viol (mo.msgs.all (fun d => offs.contains d.off)) "DeleteMultiOK.requested" ++
              viol (sd.ro || !(offs.all (fun o => sd.spec.live.any (fun m => m.off == o))) ||
                    spec'.live.all (fun m => !offs.contains m.off)) "DeleteMultiOK.all" ++
              viol (decideB (Spec.sumSizes .v1 sd.params mo.msgs ≤ mo.size ∧ mo.size ≤ Spec.sumSizes .v2 sd.params mo.msgs)) "DeleteMultiOK.size"
            | none => ["DeleteMultiOK.unparsed"]
          withLog { sd with spec := spec' } fun l =>
            -- (the offsets-only variant is observed through a scan taken before it: the model scans too)
            let l := if o = "delmultio" then (scanFirst sd l) else l
            let (l1, r) := Helpers.deleteMulti l offs
            { side := { sd with spec := spec', mlog := some l1 }, model := fmtMulti r, viols := v }
      | none => { side := sd, model := "bad-op" }
    else { side := sd, model := "bad-op" }
  | ["cbk", k, o, m] =>
    match decodeKey k, o.toInt?, m.toInt? with
    | some key, some off, some mc =>
      let v := match parseOutWith pCons impl with
        | some r => viol (decideB (Spec.ConsumeByKeyOK sd.params.keys sd.spec key off mc r)) "ConsumeByKeyOK"
        | none => ["ConsumeByKeyOK.unparsed"]
      withLog sd fun l =>
        let (l1, r) := l.consumeByKey key off mc
        { side := { sd with mlog := some l1 }, model := fmtOut fmtCons r, viols := v }
    | _, _, _ => { side := sd, model := "bad-op" }
  | ["find", kind, a] =>
    match a.toInt? with
    | none => { side := sd, model := "bad-op" }
    | some x =>
      let implR := parseOutWith pIntList impl
      withLog sd fun l =>
        let statSize := match l.stat with | (_, .ok st) => st.size | _ => 0
        let est := fun (m : Msg) => recSize sd.nsv m + sd.params.size
        let v := match implR with
          | none => ["FindOK.unparsed"]
          | some r =>
            match kind with
            | "off" => viol (decideB (Spec.FindByOffsetOK sd.spec x r)) "FindByOffsetOK"
            | "count" => viol (decideB (Spec.FindByCountOK sd.spec x r)) "FindByCountOK"
            | "size" => viol (decideB (Spec.FindBySizeOK sd.spec est statSize x r)) "FindBySizeOK"
            | "age" =>
              (match r with
               | .err e => viol (sd.spec.live.isEmpty && e == .invalidOffset && sd.params.times) "FindByAgeOK.err"
               | _ => viol (decideB (Spec.FindByAgeOK sd.histMono sd.spec x r)) "FindByAgeOK")
            | "upd" => viol (decideB (Spec.FindUpdatesOK sd.spec x r)) "FindUpdatesOK"
            | "del" => viol (decideB (Spec.FindDeletesOK sd.spec x r)) "FindDeletesOK"
            | _ => ["FindOK.kind"]
        let (l1, r) := match kind with
          | "off" => Helpers.findByOffset l x
          | "count" => Helpers.findByCount l x
          | "size" => Helpers.findBySize l x
          | "age" => Helpers.findByAge l x
          | "upd" => Helpers.findUpdates l x
          | _ => Helpers.findDeletes l x
        { side := { sd with mlog := some l1 }, model := fmtOut fmtInts r, viols := v }
  | "wlog" :: _ => let (m, v) := DBytes.handleBytes op impl; { side := sd, model := m, viols := v }
  | "widx" :: _ => let (m, v) := DBytes.handleBytes op impl; { side := sd, model := m, viols := v }
  | "segcheck" :: _ => let (m, v) := DBytes.handleBytes op impl; { side := sd, model := m, viols := v }
  | "segrecover" :: _ => let (m, v) := DBytes.handleBytes op impl; { side := sd, model := m, viols := v }
  | [grp, kind, a, mflag] =>
    if grp = "trim" ∨ grp = "compact" then
      match a.toInt? with
      | none => { side := sd, model := "bad-op" }
      | some x =>
        let multi := mflag = "1" ∨ mflag = "2"
        let offsVariant := mflag = "2" ∧ ¬ (grp = "trim" ∧ kind = "size")
        let isAll := grp = "compact" ∧ kind = "all"
        -- klevdb.Compact(age): the cut-off is now (everything is older) or a century back (nothing is)
        let cutAll : Int := if x = 0 then 9000000000000000000 else -9000000000000000000
        let implR := parseMulti impl
        let s := sd.spec
        let spec' := match implR with
          | some mo => removeReported s mo.msgs
          | none => s
        let mono := sd.histMono
        let delOffs := fun (mo : Helpers.MultiOut) => mo.msgs.map (·.off)
        let v := match implR with
          | none => ["TrimOK.unparsed"]
          | some mo =>
            viol (reportedAreLive s mo.msgs) (grp ++ ".content") ++
            -- (a helper on a read-only handle fails with ErrReadonly as soon as it has something to delete: the model says when)
            (if mo.err.isSome ∧ ¬ (kind = "age" ∧ s.live.isEmpty) ∧ ¬ sd.ro then [grp ++ ".err"] else []) ++
            (match grp, kind with
             | "trim", "off" =>
               let b := if x = offsetNewest then s.next else x
               viol (mo.msgs.all (fun d => decide (d.off < b)) || x = offsetOldest) "TrimByOffsetOK.only" ++
               viol (!multi || x = offsetOldest || spec'.live.all (fun m => decide (b ≤ m.off))) "TrimByOffsetOK.bound" ++
               viol (!(x = offsetOldest) || mo.msgs.isEmpty) "TrimByOffsetOK.oldest"
             | "trim", "count" =>
               let keep : Int := if (s.live.length : Int) < x then s.live.length else x
               viol (decideB (mo.msgs <+: s.live) || !multi) "TrimByCountOK.prefix" ++
               viol (!multi || x < 0 || (spec'.live.length : Int) == keep) "TrimByCountOK.bound" ++
               viol ((spec'.live.length : Int) ≥ keep || x < 0) "TrimByCountOK.notmore"
             | "trim", "size" =>
               viol (decideB (mo.msgs <+: s.live) || !multi) "TrimBySizeOK.prefix"
             | "trim", "age" =>
               viol (mo.msgs.all (fun d => decide (d.time ≤ x))) "TrimByAgeOK.newer" ++
               viol (decideB (mo.msgs <+: s.live) || !multi) "TrimByAgeOK.prefix" ++
               viol (!multi || !mono || spec'.live.all (fun m => decide (x ≤ m.time))) "TrimByAgeOK.older"
             | "compact", "upd" =>
               viol (decideB (Spec.CompactLatestOK s spec')) "CompactOK.latest" ++
               viol (decideB (Spec.CompactUpdatesRemovedOK s x mo.msgs)) "CompactUpdatesOK.removed" ++
               viol (!multi || !mono || decideB (Spec.AtMostOnePerKey spec' x)) "CompactUpdatesOK.one"
             | "compact", "del" =>
               viol (decideB (Spec.CompactLatestOK s spec')) "CompactOK.latest" ++
               viol (decideB (Spec.CompactDeletesRemovedOK s x mo.msgs)) "CompactDeletesOK.removed"
             | "compact", "all" =>
               -- updates, then deletes: the latest value of every key stays; what goes is not newer than the
               -- cut-off and either has a later message with its key or carries no value
               viol (decideB (Spec.CompactLatestOK s spec')) "CompactOK.latest" ++
               viol (mo.msgs.all (fun d => decide (d.time ≤ cutAll) &&
                       (d.val.isEmpty || s.live.any (fun n => n.key == d.key && decide (d.off < n.off))))) "CompactAllOK.removed" ++
               viol (!mono || x != 0 || decideB (Spec.AtMostOnePerKey spec' cutAll)) "CompactAllOK.one" ++
               viol (!mono || x != 0 || spec'.live.all (fun m => !m.val.isEmpty)) "CompactAllOK.tombstones"
             | _, _ => ["TrimOK.kind"])
        let _ := delOffs
        withLog { sd with spec := spec' } fun l =>
          -- for the size trim, what FindBySize selects on the model is what may be removed
          let l := if offsVariant ∨ isAll then scanFirst sd l else l
          let (l1, r) := match grp, kind with
            | "compact", "all" =>
              let (la, ra) := Helpers.thenDelete true (Helpers.findUpdates l cutAll)
              (match ra.err with
               | some _ => (scanFirst sd la, { ra with size := -1 })
               | none =>
                 let (lb, rb) := Helpers.thenDelete true (Helpers.findDeletes la cutAll)
                 let lc := match rb.err with | some _ => lb | none => lb.gc
                 -- observed through a scan taken after it
                 (scanFirst sd lc, ⟨rb.err, ra.msgs ++ rb.msgs, -1⟩))
            | "trim", "off" => Helpers.thenDelete multi (Helpers.findByOffset l x)
            | "trim", "count" => Helpers.thenDelete multi (Helpers.findByCount l x)
            | "trim", "size" => Helpers.thenDelete multi (Helpers.findBySize l x)
            | "trim", "age" => Helpers.thenDelete multi (Helpers.findByAge l x)
            | "compact", "upd" => Helpers.thenDelete multi (Helpers.findUpdates l x)
            | _, _ => Helpers.thenDelete multi (Helpers.findDeletes l x)
          -- "single-version logs for the size bound" (C15): every log file and every index file in the version new files get
          let singleVer := l.segs.all (fun sg => sg.ver == l.opts.nsv && (match sg.idxf with | some f => f.ver == l.opts.nsv | none => true))
          let pend := if grp = "trim" ∧ kind = "size" ∧ multi ∧ singleVer then some x else none
          { side := { sd with spec := spec', mlog := some l1, pendingSize := pend }, model := fmtMulti r, viols := v }
    else { side := sd, model := "bad-op" }
  | _ => { side := sd, model := "bad-op" }

/-- Parse the observation of a crash / power-loss image:
`ok <next> <n> msgs… views=… again=… append=…`. -/
def isFlagTok (t : String) : Bool :=
  t.startsWith "views=" || t.startsWith "again=" || t.startsWith "append=" || t.startsWith "retry=" || t.startsWith "mig="

/-- The interrupted Open retried on the image: it may fail to open (a torn image without
Recover), otherwise the directory passes Check and its logs hold the same content. -/
def retryOK (impl : List String) : Bool :=
  match impl.find? (·.startsWith "retry=") with
  | none => true
  | some t => let v := (t.drop 6).toString; v == "-" || v == "same" || v.startsWith "open-"

def parseImage (impl : List String) : Option (Int × List Msg × String × String × String) :=
  match impl with
  | "ok" :: nx :: rest =>
    let flags := rest.filter isFlagTok
    let msgsToks := rest.filter (fun t => !isFlagTok t)
    match nx.toInt?, parseMsgs msgsToks with
    | some n, some ms =>
      let get := fun (k : String) => ((flags.find? (·.startsWith k)).map (fun t => (t.drop k.length).toString)).getD "?"
      some (n, ms, get "views=", get "again=", get "append=")
    | _, _ => none
  | _ => none

/-- C05: what a crash image may recover to, given the L0 states before and after the
operation in flight. -/
def judgeCrash (pre post : Spec) (op : List String) (impl : List String) : List String :=
  match parseImage impl with
  | none => ["CrashOpenFails"]
  | some (n, L, views, again, app) =>
    let kind := op.headD ""
    let contentOK :=
      if kind = "pub" then
        -- acknowledged messages, possibly followed by a prefix of the batch in flight
        L.length ≥ pre.live.length && L.take pre.live.length == pre.live &&
          decide (L <+: post.live)
      else if kind = "del" then L == pre.live || L == post.live     -- fully applied or not at all
      else L == pre.live
    (if contentOK then [] else ["CrashContent"]) ++
    (if n ≥ pre.next then [] else ["CrashNextBackwards"]) ++
    (if L.all (fun m => decide (m.off < n)) then [] else ["CrashNextBelowLive"]) ++
    (if views = "ok" then [] else ["CrashViews"]) ++
    (if again = "same" then [] else ["CrashRecoverAgain"]) ++
    (if app = "ok" then [] else ["CrashAppend"]) ++
    (if retryOK impl then [] else ["CrashRetry"]) ++
    -- Recover together with eager migration to the other format: same content
    (match impl.find? (·.startsWith "mig=") with
     | some t => if (t.drop 4).toString == "same" then [] else ["CrashMigrate"]
     | none => [])

/-- C06: after losing unsynced data, everything below the acknowledged offset survives, the
survivors are a prefix of what was acknowledged, NextOffset is at least that offset. -/
def judgeLoss (ack : Spec) (w : Int) (impl : List String) : List String :=
  match parseImage impl with
  | none => ["LossOpenFails"]
  | some (n, L, views, again, app) =>
    (if L.filter (fun m => decide (m.off < w)) == ack.live.filter (fun m => decide (m.off < w)) then [] else ["LossBelowSync"]) ++
    (if decide (L <+: ack.live) then [] else ["LossNotPrefix"]) ++
    (if n ≥ w then [] else ["LossNextBelowSync"]) ++
    (if views = "ok" then [] else ["LossViews"]) ++
    (if again = "same" then [] else ["LossRecoverAgain"]) ++
    (if app = "ok" then [] else ["LossAppend"])

/-- The `lock` profile: returns the new state, the model's result and L0 violations. -/
def handleMh (m : MhState) (op impl : List String) : MhState × String × List String :=
  let rel := Klev.Gen.openReleasesLockOnError
  match op with
  | ["mh.setup"] => ({}, "ok", [])
  | "mh.open" :: k :: opts =>
    if (m.handles.lookup k).isSome then (m, "err already", []) else
    let ro := optBool opts "ro"
    let fl := optBool opts "fail"
    let torn := optInt opts "fail" 0 == 2      -- read-only Open with Recover on a torn head log
    let (l', r) := lockStep rel m.lock (if ro then .openRO fl else .openRW fl)
    match r with
    | .ok => ({ m with lock := l', handles := (k, ro) :: m.handles }, "ok", [])
    | .locked => ({ m with lock := l' }, "err locked", [])
    | .failed =>
      if torn then
        -- a read-only handle never changes any log file, whatever it is asked to do
        ({ m with lock := l' }, "err logcorrupt same", viol (impl.getLast? != some "changed") "ReadonlyNeverWrites")
      else ({ m with lock := l' }, "err indexcorrupt", [])
    | .noHandle => (m, "bad-op", [])
  | ["mh.close", k] =>
    match m.handles.lookup k with
    | none => (m, "err closed", [])
    | some ro =>
      let (l', _) := lockStep rel m.lock (if ro then .closeRO else .closeRW)
      ({ m with lock := l', handles := m.handles.filter (fun h => h.1 != k) }, "ok", [])
  | ["mh.pub", k] =>
    match m.handles.lookup k with
    | none => (m, "err closed", [])
    | some true => (m, "err readonly", viol (impl == ["err", "readonly"]) "ReadonlyRejects")
    | some false => ({ m with next := m.next + 1, mutated := true }, s!"ok {m.next + 1}", [])
  | ["mh.del", k] =>
    match m.handles.lookup k with
    | none => (m, "err closed", [])
    | some true => (m, "err readonly", viol (impl == ["err", "readonly"]) "ReadonlyRejects")
    | some false =>
      if m.deleted0 then (m, "err notfound", [])
      else ({ m with deleted0 := true, mutated := true }, "ok", [])
  | ["mh.digest"] =>
    let implD := match impl with | ["ok", d] => some d | _ => none
    if m.mutated ∨ m.digest.isNone then
      ({ m with digest := implD, mutated := false }, String.intercalate " " impl, [])
    else
      -- nothing was published or deleted through a writer: no log file may have changed
      (m, s!"ok {m.digest.getD "?"}", viol (implD == m.digest) "NoLogFileChange")
  | ["mh.missing"] => (m, "err other", viol (impl != ["ok"]) "MissingDirFails")
  | _ => (m, "bad-op", [])

def processLine (st : DState) (raw : String) : DState :=
  let line := raw.trimAscii.toString
  let st := { st with line := st.line + 1 }
  if line = "" then st
  else if line.startsWith "#" then
    if line.startsWith "# hist" then
      { st with main := {}, bak := {}, hists := st.hists + 1, ackW := 0, autosync := false, crashArmed := false, bl := {}, bs := {}, blPre := none, dmg := none, sc := [], skip := false, fr := #[], frFinal := [] }
    else st
  else if st.skip then st
  else
    match line.splitOn " => " with
    | [lhs, "err hang"] =>
      -- the call never returned (a loop that does not terminate): a violation of its own
      { st with viols := st.viols + 1, out := st.out.push s!"VIOL {st.line} Terminates {lhs} impl=err hang",
                main := { st.main with msync := false }, bak := { st.bak with msync := false } }
    | [lhs, rhs] =>
      let opToks := (lhs.splitOn " ").filter (· ≠ "")
      let implToks := (rhs.splitOn " ").filter (· ≠ "")
      match opToks with
      | [] => st
      | op0 :: restOps =>
        if op0 = "crash.begin" then
          { st with crashPre := st.main.spec, crashPreLog := st.main.mlog, crashPreDisk := st.main.disk, crashOp := [], crashArmed := true, counts := bump st.counts op0,
                    crashBases := (st.main.fsVers.getD []).map (·.1) }
        else if op0 = "crash.end" then
          { st with crashArmed := false, counts := bump st.counts op0 }
        else if op0 = "crash.img" then
          let vs := judgeCrash st.crashPre st.main.spec st.crashOp implToks
          -- a delete that removes the first message of its target segment but not all of it
          -- renames the rewritten segment to a new base ("rebase")
          let rebase : Bool := match st.crashOp, st.crashBases with
            | ["del", offsS], bases =>
              let offs := (parseInts offsS).getD []
              (match offs with
               | [] => false
               | _ =>
                 let lowest := minOff offs
                 let tb := (bases.filter (fun b => decide (b ≤ lowest))).getLast?
                 match tb with
                 | some b =>
                   let nextB := (bases.filter (fun x => decide (b < x))).head?
                   let segLive := st.crashPre.live.filter (fun m => decide (b ≤ m.off) && (match nextB with | some nb => decide (m.off < nb) | none => true))
                   let survivors := segLive.filter (fun m => !offs.contains m.off)
                   (match segLive.head? with
                    | some f => offs.contains f.off && !survivors.isEmpty
                    | none => false)
                 | none => false)
            | _, _ => false
          let out := vs.foldl (fun o v => o.push s!"VIOL {st.line} {v} {lhs} inflight={String.intercalate " " (st.crashOp.take 3)} rebase={if rebase then 1 else 0} impl={(String.intercalate " " implToks).take 300}") st.out
          -- the directory of a (whole-step, first-level) image is one of the model's crash states of the operation
          let fsTok := (restOps.find? (·.startsWith "fs=")).map (fun t => (t.drop 3).toString)
          let cop : Option Crash.COp := match st.crashOp with
            | "pub" :: _n :: b => (parseBatch b).map (fun bb => Crash.COp.publish (bb.map (fun (x : Option Int × Int × List UInt8 × List UInt8) => (x.2.1, x.2.2.1, x.2.2.2))))
            | ["del", offsS] => (parseInts offsS).map Crash.COp.delete
            | _ => none
          let (sdiff, key) : Option String × String := match fsTok, cop, st.crashPreLog with
            | some fs, some op, some l0 =>
              let implLs := String.intercalate " " ((fs.splitOn ",").filter (fun t => !t.startsWith "extra:"))
              -- the count in front counts segments only
              let implLs := match implLs.splitOn " " with
                | _ :: segs => String.intercalate " " (toString segs.length :: segs)
                | [] => implLs
              let states := (Crash.crashStates l0 op).map (fmtDisk l0.opts.params)
              if states.contains implLs then (none, "crash.state:modelled")
              else (some s!"impl={implLs} model-states={String.intercalate " | " states}", "crash.state:UNMODELLED")
            | some fs, none, none =>
              -- an Open in flight: the directory is one of the crash states of the Open program (Klev/CrashOpen.lean)
              (match st.crashOp with
               | "open" :: opts =>
                 let oo := mkOpts opts
                 let implLs := String.intercalate " " ((fs.splitOn ",").filter (fun t => !t.startsWith "extra:"))
                 let implLs := match implLs.splitOn " " with
                   | _ :: segs => String.intercalate " " (toString segs.length :: segs)
                   | [] => implLs
                 let states := (Crash.openCrashStates st.crashPreDisk oo).map (fmtDisk oo.opts.params)
                 if states.contains implLs then
                   -- which crash point it is (how far into the program), for the evidence
                   let k := (states.findIdx? (· == implLs)).getD 0
                   (none, s!"crash.openstate:modelled@{k}/{states.length - 1}")
                 else (some s!"impl={implLs} model-open-states={String.intercalate " | " states}", "crash.openstate:UNMODELLED")
               | _ => (none, "crash.state:n/a"))
            | _, _, _ => (none, "crash.state:n/a")
          let out := match sdiff with
            | some d => if st.main.msync then out.push s!"DIFF {st.line} crash-state {lhs} {d.take 900}" else out
            | none => out
          { st with out := out, viols := st.viols + vs.length, diffs := st.diffs + (if sdiff.isSome && st.main.msync then 1 else 0),
                    counts := bump (bump st.counts ("crash.img:" ++ (st.crashOp.headD "?"))) key }
        else if op0 = "loss.img" then
          -- `died` images: a new process recovered the directory and called Sync before the power went: the offset
          -- that Sync returned is the acknowledgement, and it acknowledges everything (nothing was lost so far)
          let ackTok := (restOps.find? (·.startsWith "ackw=")).bind (fun t => (t.drop 5).toString.toInt?)
          let ackUse := ackTok.getD st.ackW
          let vs := judgeLoss st.main.spec ackUse implToks ++
            (match ackTok with
             | some a => if a == st.main.spec.next then [] else ["SyncAfterRecoverOffset"]
             | none => [])
          let out := vs.foldl (fun o v => o.push s!"VIOL {st.line} {v} {lhs} w={ackUse} impl={(String.intercalate " " implToks).take 300}") st.out
          -- the loss model (Klev/Loss.lean): only the head's files have an unsynced tail
          let headBase : Option Int := match st.main.mlog with
            | some l => l.segs.getLast?.map (·.base)
            | none => st.main.disk.getLast?.map (·.base)
          let cutBases : List Int := match restOps.find? (·.startsWith "cuts=") with
            | some t =>
              -- the cuts of the first power loss (a second loss after recovery is listed behind `|`)
              let first := (((t.drop 5).toString.splitOn "|").headD "")
              (first.splitOn ",").filterMap (fun c =>
                if c.contains ".rewrite" || c.contains ".tmp" || c.contains ".recover" || c.contains ".migrate" then none
                else ((c.splitOn ".").headD "").toInt?)
            | none => []
          let outside := cutBases.filter (fun b => some b != headBase)
          let again := (restOps.getD 1 "").contains '+'
          let (out, nd) := if !outside.isEmpty && !again && st.main.msync then
              (out.push s!"DIFF {st.line} loss-model {lhs} unsynced tail outside the head segment: bases {outside} head={headBase}", 1)
            else (out, 0)
          { st with out := out, viols := st.viols + vs.length, diffs := st.diffs + nd,
                    counts := bump (bump st.counts ("loss.img:" ++ restOps.headD "?")) (if outside.isEmpty then "loss.model:head-only" else "loss.model:OUTSIDE") }
        else
        if op0 = "fr.open" then { st with counts := bump st.counts "fr.open" }
        else if op0 = "fr.cold" then
          -- a sequential prefix, a close, index files of closed segments removed, a reopen: a supported state
          if implToks = ["ok"] then { st with counts := bump st.counts "fr.cold" }
          else { st with viols := st.viols + 1, out := st.out.push s!"VIOL {st.line} SpuriousFailure {lhs} impl={rhs}" }
        else if op0 = "fr.call" then
          let (mt, opT) := (restOps.takeWhile (· ≠ "::"), (restOps.dropWhile (· ≠ "::")).drop 1)
          let c : DFree.Call := { g := (optInt mt "g" 0).toNat, inv := optInt mt "inv" 0, ret := optInt mt "ret" 0, op := opT, impl := implToks }
          let cls := match implToks with | "ok" :: _ => "ok" | "err" :: x :: _ => "err." ++ x | _ => "?"
          if implToks = ["err", "hang"] then
            { st with viols := st.viols + 1, out := st.out.push s!"VIOL {st.line} Terminates {lhs} impl=err hang" }
          else { st with fr := st.fr.push c, counts := bump st.counts ("fr." ++ (opT.headD "?") ++ ":" ++ cls) }
        else if op0 = "fr.end" then { st with frFinal := implToks }
        else if op0 = "fr.check" then
          let vs := DFree.judge st.fr.toList st.frFinal (String.intercalate " " implToks)
          -- one line per relation (the first instance), with the count
          let rels := vs.foldl (fun (acc : List (String × String × Nat)) (v : String × String) =>
            if acc.any (fun a => a.1 == v.1) then acc.map (fun a => if a.1 == v.1 then (a.1, a.2.1, a.2.2 + 1) else a)
            else acc ++ [(v.1, v.2, 1)]) []
          let out := rels.foldl (fun o r => o.push s!"VIOL {st.line} {r.1} fr.check x{r.2.2} {r.2.1}") st.out
          { st with out := out, viols := st.viols + rels.length, fr := #[], frFinal := [],
                    counts := bump st.counts ("fr.check:" ++ (if rels.isEmpty then "ok" else "viol")) }
        else
        if op0 = "sc.call" then
          -- sc.call id=H inv=1 ret=9 [at=… reached=…] [blocked=…] :: <op …> => <result>
          let (mt, opT) := (restOps.takeWhile (· ≠ "::"), (restOps.dropWhile (· ≠ "::")).drop 1)
          let point := ((mt.find? (·.startsWith "at=")).map (fun t => (t.drop 3).toString)).getD ""
          let c : DSched.Call := { id := ((mt.find? (·.startsWith "id=")).map (fun t => (t.drop 3).toString)).getD "?",
                                   inv := optInt mt "inv" 0, ret := optInt mt "ret" 0, op := opT, impl := implToks,
                                   point := point, reached := optBool mt "reached" }
          let key := if point = "" then "sc.mid:" ++ (opT.headD "?") ++ (if optBool mt "blocked" then ":blocked" else "")
                     else "sc.held:" ++ point ++ (if c.reached then "" else ":notreached")
          if implToks = ["err", "hang"] then
            { st with viols := st.viols + 1, out := st.out.push s!"VIOL {st.line} Terminates {lhs} impl=err hang", counts := bump st.counts key }
          else { st with sc := st.sc ++ [c], counts := bump st.counts key }
        else if op0 = "sc.judge" then
          let calls := st.sc
          -- one sequential run of the model over an order; `none` when some result differs
          let runOrder := fun (p : List DSched.Call) =>
            p.foldl (fun (acc : Option Side) (c : DSched.Call) =>
              match acc with
              | none => none
              | some sd =>
                let implTxt := String.intercalate " " c.impl
                if c.op.head? == some "stat" then some sd      -- Stat is excepted (it may count a batch still being appended)
                else
                  let h := handle sd c.op c.impl
                  if h.model == implTxt && h.viols.isEmpty then some { h.side with fsVers := none }
                  else none) (some st.main)
          let orders := (DSched.perms calls).filter DSched.respectsTime
          let implTxt := String.intercalate " " implToks
          -- an order explains the window when every result is the model's and the directory ends up as listed
          let layoutOK := fun (sd : Side) => (handle sd ["fsobs"] implToks).model == implTxt
          let found := orders.findSome? (fun p => (runOrder p).bind (fun sd => if layoutOK sd then some sd else none))
          let foundNoLayout := orders.findSome? runOrder
          match found, foundNoLayout with
          | some sd', _ => { st with main := sd', sc := [], counts := bump st.counts ("sc.judge:" ++ toString calls.length) }
          | none, some sd' =>
            -- the results are those of a sequential order, but the files are laid out as under no such order:
            -- the model does not follow the code here (not an L0 violation)
            { st with sc := [], diffs := st.diffs + 1, main := { sd' with msync := false }, skip := true,
                      out := st.out.push s!"DIFF {st.line} sc.judge layout impl={implTxt} model={(handle sd' ["fsobs"] implToks).model}",
                      counts := bump st.counts "sc.judge:layout" }
          | none, none =>
            -- report against the order "as invoked"
            let desc := String.intercalate " | " (calls.map (fun c => s!"{c.id}[{c.inv},{c.ret}] {String.intercalate " " c.op} => {(String.intercalate " " c.impl).take 160}"))
            let models := String.intercalate " | " (calls.map (fun c => s!"{c.id}: {(handle st.main c.op c.impl).model.take 160}"))
            { st with sc := [], viols := st.viols + 1, main := { st.main with msync := false }, skip := true,
                      out := st.out.push s!"VIOL {st.line} NotLinearizable sc.judge calls={desc} model-from-prestate={models}",
                      counts := bump st.counts "sc.judge:none" }
        else
        if op0.startsWith "dr." then
          let implTxt := String.intercalate " " implToks
          match opToks with
          | "dr.damage" :: opts =>
            let kind := ((opts.find? (·.startsWith "kind=")).map (fun t => (t.drop 5).toString)).getD "?"
            let recs := (((opts.find? (·.startsWith "recs=")).map (fun t => (t.drop 5).toString)).bind parseInts).getD []
            { st with dmg := some { lo := optInt opts "seg" 0, hi := optInt opts "end" 0, kind := kind, recs := recs,
                                    fsize := optInt opts "fsize" 0, pos := optInt opts "at" 0 },
                      counts := bump st.counts ("dr.damage:" ++ kind) }
          | ["dr.open"] =>
            let vs := if implTxt == "err panic" then ["NoPanic"] else []
            let out := vs.foldl (fun o v => o.push s!"VIOL {st.line} {v} {lhs} impl={implTxt}") st.out
            { st with out := out, viols := st.viols + vs.length,
                      counts := bump st.counts ("dr.open:" ++ (if implToks.head? == some "ok" then "ok" else "err")) }
          | ["dr.end"] => { st with dmg := none }
          | "dr.call" :: callT =>
            let d := st.dmg.getD default
            let alloc := optInt implToks "alloc" 0
            let implR := implToks.filter (fun t => !t.startsWith "alloc=")
            let implR' := String.intercalate " " implR
            -- what the undamaged log answers (the model; its agreement with the code on the undamaged
            -- directory is checked by the baseline sweep of the same calls)
            let h := handle st.main callT implR
            let r0 := (h.model.splitOn " ").filter (· ≠ "")
            let msgs0 := r0.filterMap parseMsg
            let msgsI := implR.filterMap parseMsg
            let implOk := implR.head? == some "ok"
            let inSeg := fun (o : Int) => decide (d.lo ≤ o) && decide (o < d.hi)
            let startOff : Option Int := match callT with
              | ["cons", o, _] => o.toInt?
              | ["get", o] => o.toInt?
              | ["cbk", _, o, _] => o.toInt?
              | _ => none
            -- the answer's own next offset lies in the damaged segment (e.g. it ends at NextOffset, which the head supplies)
            let nxt0 : Option Int := match callT.head?, r0 with
              | some "cons", "ok" :: n :: _ => n.toInt?
              | some "cbk", "ok" :: n :: _ => n.toInt?
              | _, _ => none
            let isHead := decide (d.hi ≥ 4611686018427387904)
            let lookupErr := (callT.head? == some "gbt" || callT.head? == some "gbk" || callT.head? == some "obt" || callT.head? == some "obk") && r0.head? != some "ok"
            let touchesSeg := lookupErr || msgs0.any (fun m => inSeg m.off) ||
              (match startOff with | some o => inSeg o || (o == -1 && isHead) | none => false) ||
              (match nxt0 with | some n => inSeg n | none => false)
            let includesDamaged := msgs0.any (fun m => d.recs.contains m.off)
            let overwrite := d.kind == "flip" || d.kind == "over" || d.kind == "zero"
            let vs : List String :=
              (if implR' == "err panic" then ["NoPanic"] else []) ++
              (if implOk && !(msgsI.all (fun m => st.main.spec.live.contains m)) then ["NeverDifferent"] else []) ++
              (if overwrite && includesDamaged && implOk then ["DamagedIsError"] else []) ++
              (if !touchesSeg && implR' ≠ h.model then ["OtherSegmentsSame"] else []) ++
              (if alloc > (maxBody : Int) + 8 * d.fsize + 16 * 1024 * 1024 then ["AllocBound"] else [])
            let out := vs.foldl (fun o v => o.push s!"VIOL {st.line} {v} {lhs} impl={implTxt.take 300} model={h.model.take 200} dmg={d.kind} seg={d.lo} at={d.pos} recs={d.recs}") st.out
            let cls := if includesDamaged then "hit" else if touchesSeg then "sameseg" else "other"
            { st with out := out, viols := st.viols + vs.length,
                      counts := bump st.counts ("dr.call:" ++ cls ++ ":" ++ (if implOk then "ok" else "err")) }
          | _ => { st with out := st.out.push s!"BADLINE {st.line} {line}" }
        else
        if op0.startsWith "bs." then
          let implTxt := String.intercalate " " implToks
          match opToks, implToks with
          | "bs.open" :: _, ["ok", n] =>
            { st with bs := { initial := n.toInt?.getD 0, total := n.toInt?.getD 0 }, counts := bump st.counts "bs.open" }
          | ["bs.pub", m], ["ok", n] =>
            (match parseMsg m with
             | some msg =>
               let nx := n.toInt?.getD 0
               -- every publisher publishes one message: it gets the offset just below the NextOffset it is told
               let vs := if msg.off + 1 == nx && !(st.bs.published.any (·.off == msg.off)) then [] else ["PublishRanges"]
               let out := vs.foldl (fun o v => o.push s!"VIOL {st.line} {v} {lhs} impl={implTxt}") st.out
               { st with bs := { st.bs with published := msg :: st.bs.published, total := if nx > st.bs.total then nx else st.bs.total },
                         out := out, viols := st.viols + vs.length, counts := bump st.counts "bs.pub" }
             | none => { st with out := st.out.push s!"BADLINE {st.line} {line}" })
          | ["bs.pub"], ["err", "hang"] =>
            { st with viols := st.viols + 1, out := st.out.push s!"VIOL {st.line} Terminates {lhs} impl=err hang (a Publish that never returns)" }
          | "bs.settled" :: _, "ok" :: toks => { st with bs := { st.bs with settled := toks }, counts := bump st.counts "bs.settled" }
          | "bs.ret" :: i :: kind :: opts, _ =>
            let vs := DBlock.judgeRet st.bs (i.toNat?.getD 0) kind (optInt opts "off" 0) (optInt opts "max" 0) (optBool opts "canc")
                        (((opts.find? (·.startsWith "phase=")).map (fun t => (t.drop 6).toString)).getD "?") implToks
            let out := vs.foldl (fun o v => o.push s!"VIOL {st.line} {v} {lhs} impl={implTxt.take 300} initial={st.bs.initial} total={st.bs.total} settled={st.bs.settled}") st.out
            let cls := match implToks with | "ok" :: _ :: n :: _ => (if n == "0" then "ok-empty" else "ok") | "err" :: c :: _ => "err." ++ c | _ => "?"
            { st with out := out, viols := st.viols + vs.length, counts := bump st.counts ("bs.ret:" ++ cls) }
          | "bs.close" :: opts, _ =>
            let vs := (if optBool opts "hung" then ["StuckAfterClose"] else []) ++ (if implToks == ["ok"] then [] else ["CloseFails"])
            let out := vs.foldl (fun o v => o.push s!"VIOL {st.line} {v} {lhs} impl={implTxt}") st.out
            { st with out := out, viols := st.viols + vs.length, counts := bump st.counts "bs.close" }
          | _, _ =>
            { st with viols := st.viols + 1, out := st.out.push s!"VIOL {st.line} SpuriousFailure {lhs} impl={implTxt}" }
        else
        if op0.startsWith "bl." then
          let implTxt := String.intercalate " " implToks
          let st := { st with counts := bump st.counts op0 }
          let specNext := (st.blPre.getD st.main).spec.next
          match opToks with
          | ["bl.wrap"] => { st with bl := DBlock.start st.main.spec.next, blPre := none }
          | "bl.wait" :: _ :: lhsT => { st with bl := DBlock.wait st.bl lhsT }
          | ["bl.cancel", i] => { st with bl := DBlock.cancel st.bl (i.toNat?.getD 0) }
          | ["bl.quiet", _] => { st with bl := { st.bl with lastEv := "other" } }   -- nothing happened for a long while: nobody may wake
          | "bl.ret" :: i :: lhsT =>
            let iN := i.toNat?.getD 0
            let w : DBlock.Waiter := (st.bl.waiters[iN]?).getD default
            let side := st.blPre.getD st.main
            let implOk := implToks.head? == some "ok"
            -- the read a returned call made, judged at this moment (model result and L0 relation)
            let h := handle side lhsT implToks
            let mres := DBlock.waiterRes st.bl iN
            let model := match mres with
              | some .nil => h.model
              | some .ctxErr => "err ctx"
              | some .errClosed => "err notifyclosed"
              | some .none_ => "?"
              | none => "blocked"
            -- once the log is closed a woken read may fail; only successful reads are compared
            let mdiff := model ≠ implTxt && !(st.bl.closed && !implOk && mres == some .nil)
            let ownSpawn := st.bl.lastEv == s!"wait:{iN}"
            let ownCancel := st.bl.lastEv == s!"cancel:{iN}"
            let wakeEv := st.bl.lastEv == "pub" || st.bl.lastEv == "close"
            let below := decide (w.off < specNext)      -- relative offsets are negative
            let vs : List String :=
              (if implOk then h.viols else []) ++
              (if ownSpawn || ownCancel || wakeEv then [] else ["SpuriousWake"]) ++
              (if ownSpawn && !below && implOk then [if st.bl.closed then "WaitAfterCloseSucceeds" else "ReturnedForNothing"] else []) ++
              (if ownSpawn && !below && st.bl.closed && implTxt ≠ "err notifyclosed" then ["WaitAfterClose"] else []) ++
              (if ownSpawn && below && !implOk && !st.bl.closed then ["ImmediateFails"] else []) ++
              (if ownCancel && implTxt ≠ "err ctx" then ["CancelResult"] else []) ++
              (if implTxt == "err panic" then ["NoPanic"] else [])
            let out := if mdiff then st.out.push s!"DIFF {st.line} {lhs} impl={implTxt} model={model}" else st.out
            let out := vs.foldl (fun o v => o.push s!"VIOL {st.line} {v} {lhs} impl={implTxt.take 300} ev={st.bl.lastEv}") out
            let side' := if mres == some .nil && implOk then h.side else side
            let st := if st.blPre.isSome then { st with blPre := some side' } else { st with main := side' }
            { st with out := out, diffs := st.diffs + (if mdiff then 1 else 0), viols := st.viols + vs.length,
                      bl := { st.bl with waiters := st.bl.waiters.set iN { w with implDone := true } } }
          | ["bl.status"] =>
            let implSt := match implToks with | "ok" :: rest => rest | _ => implToks
            let model := DBlock.modelStatus st.bl
            let mdiff := String.intercalate " " implSt ≠ model
            let vs := (List.range st.bl.waiters.length).flatMap (fun j =>
              match st.bl.waiters[j]?, implSt[j]? with
              | some w, some tok =>
                if tok.endsWith ":blocked" then
                  (if decide (w.off < specNext) then ["LostWakeup"] else []) ++
                  (if w.cancelled then ["CancelIgnored"] else []) ++
                  (if st.bl.closed then ["StuckAfterClose"] else [])
                else []
              | _, _ => [])
            let out := if mdiff then st.out.push s!"DIFF {st.line} {lhs} impl={implTxt} model=ok {model}" else st.out
            let out := vs.foldl (fun o v => o.push s!"VIOL {st.line} {v} {lhs} impl={implTxt.take 300} ev={st.bl.lastEv}") out
            { st with out := out, diffs := st.diffs + (if mdiff then 1 else 0), viols := st.viols + vs.length,
                      bl := { st.bl with lastEv := "other" } }
          | _ => { st with out := st.out.push s!"BADLINE {st.line} {line}" }
        else
        if op0.startsWith "nt." then
          let (n', model, vs) := DNotify.handle st.nt opToks implToks
          let implTxt := String.intercalate " " implToks
          let mdiff := !(DNotify.sameResult model implToks)
          let out := if mdiff then st.out.push s!"DIFF {st.line} {lhs} impl={implTxt} model={model}" else st.out
          let out := vs.foldl (fun o v => o.push s!"VIOL {st.line} {v} {lhs} impl={implTxt}") out
          { st with nt := n', out := out, diffs := st.diffs + (if mdiff then 1 else 0), viols := st.viols + vs.length,
                    counts := bump st.counts op0 }
        else
        if op0.startsWith "mh." then
          let (m', model, vs) := handleMh st.mh opToks implToks
          let implTxt := String.intercalate " " implToks
          let mdiff := model ≠ implTxt
          -- exclusion itself is also an L0 fact: never two writers, never a writer with readers
          let out := if mdiff then st.out.push s!"DIFF {st.line} {lhs} impl={implTxt} model={model}" else st.out
          let out := vs.foldl (fun o v => o.push s!"VIOL {st.line} {v} {lhs} impl={implTxt}") out
          let cls := match implToks with
            | "ok" :: _ => "ok"
            | "err" :: c :: _ => "err." ++ c
            | _ => "?"
          { st with mh := m', out := out, diffs := st.diffs + (if mdiff then 1 else 0), viols := st.viols + vs.length,
                    counts := bump st.counts (op0 ++ ":" ++ cls) }
        else
        -- backup side: `backup` snapshots the model directory; `b.<op>` acts on the backup
        if op0 = "backup" then
          let ds := match st.main.mlog with | some l => l.disk | none => st.main.disk
          let st := { st with bak := { disk := ds, spec := st.main.spec, params := st.main.params, nsv := st.main.nsv, histMono := st.main.histMono }, counts := bump st.counts "backup" }
          if implToks = ["ok"] then st
          else
            -- Backup of an open, healthy log into a directory the harness owns has no reason to fail
            { st with diffs := st.diffs + 1, viols := st.viols + 1,
                      out := (st.out.push s!"DIFF {st.line} {lhs} impl={rhs} model=ok").push s!"VIOL {st.line} BackupOK.err {lhs} impl={rhs}" }
        else
          let isB := op0.startsWith "b."
          let opName := if isB then (op0.drop 2).toString else op0
          let sd := if isB then st.bak else st.main
          let h := handle sd (opName :: restOps) implToks
          let implTxt := String.intercalate " " implToks
          let cls := match implToks with
            | "ok" :: _ => "ok"
            | "err" :: c :: _ => "err." ++ c
            | "errp" :: c :: _ => "errp." ++ c
            | _ => "?"
          let counts := bump st.counts (opName ++ (match restOps with
            | k :: _ => if opName = "find" ∨ opName = "trim" ∨ opName = "compact" then "." ++ k else ""
            | [] => "") ++ ":" ++ cls)
          -- the remembered directory listing is current only until the next call that may change files
          let keepFs := opName = "fsobs" || opName = "next" || opName = "sync"
          let h := if keepFs then h else
            (if opName = "del" then h else h)
          let mdiff := sd.msync && h.model ≠ implTxt
          let side0 := if keepFs then h.side else { h.side with fsVers := none }
          let side' := if mdiff then { side0 with msync := false } else { side0 with msync := sd.msync }
          let out := if mdiff then st.out.push s!"DIFF {st.line} {lhs} impl={implTxt} model={h.model}" else st.out
          -- rules that read the model's state (which file has which version, the exact Stat) say nothing once the model
          -- and the implementation have parted ways on an earlier line (that line was reported as a DIFF)
          -- (they stay on: on generated histories a parting of the ways is itself reported, and the shrinker no longer
          -- produces histories that are no API histories, which is where these rules misfired)
          let hv := h.viols
          let out := hv.foldl (fun o v => o.push s!"VIOL {st.line} {v} {lhs} impl={implTxt}") out
          let st := { st with counts := counts, out := out,
                              diffs := st.diffs + (if mdiff then 1 else 0),
                              viols := st.viols + hv.length }
          let st := if st.crashArmed && st.crashOp.isEmpty && !isB then { st with crashOp := opName :: restOps } else st
          -- durability acknowledgements (C06)
          let st := if isB then st else
            match opName, implToks with
            | "sync", ["ok", n] => { st with ackW := n.toInt?.getD st.ackW }
            | "pub", ["ok", n] => if st.autosync then { st with ackW := n.toInt?.getD st.ackW } else st
            | "close", ["ok"] => { st with ackW := st.main.spec.next }
            | "open", ["ok"] => { st with autosync := optBool restOps "as" }
            | _, _ => st
          -- the blocking wrapper: a successful Publish notifies with the offset it returned, Close closes the notifier first
          let st := if isB || !st.bl.active then st else
            match opName, implToks with
            | "pub", ["ok", n] => { st with bl := DBlock.published st.bl (n.toInt?.getD 0) }
            | "close", ["ok"] => { st with bl := DBlock.closedNow st.bl, blPre := some sd }
            | _, _ => { st with bl := { st.bl with lastEv := "other" } }
          if isB then { st with bak := side' } else { st with main := side' }
    | _ => { st with out := st.out.push s!"BADLINE {st.line} {line}" }

partial def loop (h : IO.FS.Stream) (st : DState) : IO DState := do
  let line ← h.getLine
  if line.isEmpty then return st
  let st := processLine st line
  -- flush the findings of this line
  for o in st.out do IO.println o
  loop h { st with out := #[] }

def main : IO Unit := do
  let st ← loop (← IO.getStdin) {}
  let cs := st.counts.toList.toArray.qsort (fun a b => a.1 < b.1)
  let ctxt := String.intercalate "," (cs.toList.map (fun (k, v) => s!"{k}={v}"))
  IO.println s!"SUMMARY lines={st.line} hists={st.hists} diffs={st.diffs} viols={st.viols} counts={ctxt}"
