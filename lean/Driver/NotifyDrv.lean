/-
Driver handlers for the `notify` profile (C18): the controller's macro-steps on the
interleaving model of `Klev/Notify.lean`.
-/
import Klev.Notify
import Klev.Proto
open Klev.Notify

namespace DNotify

inductive Status
  | new | held | blocked
  | done (res : String)
deriving DecidableEq, Repr, Inhabited

structure NtState where
  cfg : Cfg := ⟨initSt 0, []⟩
  status : List Status := []
  setMax : Int := 0          -- L0 view of the notifier's offset: the initial value and every Set the implementation has returned from
deriving Inhabited

def pausePcs : Kind → List Nat
  | .wait _ => [1, 3, 4, 5]
  | .set _ => [2, 3, 4]
  | .close => [2, 3]

def resName : Ret → String
  | .nil => "nil" | .errClosed => "errclosed" | .ctxErr => "ctx" | .none_ => "none"

/-- Run thread `k` until its next pause point, its end, or until it blocks. -/
def runUntilPause (c : Cfg) (k : Nat) : Nat → Cfg × Status
  | 0 => (c, .blocked)
  | fuel + 1 =>
    match c.ths[k]? with
    | none => (c, .blocked)
    | some t =>
      match stepTh c.st t with
      | none => (c, .blocked)
      | some (s', t') =>
        let c' : Cfg := { st := s', ths := c.ths.set k t' }
        match t'.res with
        | some r =>
          -- a waiter leaving its select with both cases ready may report either
          let amb := (match t.kind with | .wait _ => true | _ => false) && t.pc == 6 && t.ctxDone &&
            (match t.b with | some ch => c.st.closedCh.contains ch | none => false)
          (c', .done (if amb then "nil|ctx" else resName r))
        | none =>
          if (pausePcs t'.kind).contains t'.pc ∧ t'.pc ≠ t.pc then (c', .held)
          else runUntilPause c' k fuel

/-- Threads blocked inside the library proceed on their own as soon as they can. -/
def settle (n : NtState) : Nat → NtState
  | 0 => n
  | fuel + 1 =>
    let idx := (List.range n.status.length).find? (fun j =>
      n.status[j]? == some Status.blocked && enabled n.cfg j)
    match idx with
    | none => n
    | some j =>
      let (c', st') := runUntilPause n.cfg j 16
      settle { cfg := c', status := n.status.set j st' } fuel

def fmtStatus (n : NtState) : String :=
  if n.status.isEmpty then "-" else
  String.intercalate " " ((List.range n.status.length).map (fun j =>
    match (n.status[j]? : Option Status), (n.cfg.ths[j]? : Option Th) with
    | some Status.new, _ => s!"{j}:new"
    | some Status.held, some t => s!"{j}:held@{t.pc}"
    | some Status.blocked, some t =>
      if (match t.kind with | .wait _ => true | _ => false) && t.pc == 6 then s!"{j}:parked" else s!"{j}:blocked"
    | some Status.blocked, none => s!"{j}:blocked"
    | some (Status.done r), _ => s!"{j}:done:{r}"
    | _, _ => s!"{j}:?"))

/-- Accept either outcome where the Go `select` may pick either ready case. -/
def canon (model impl : List String) : List String :=
  (model.zip impl).map (fun (m, i) =>
    if m.endsWith ":done:nil|ctx" ∧ (i.endsWith ":done:nil" ∨ i.endsWith ":done:ctx") then m else i) ++
  impl.drop model.length

def handle (n : NtState) (op impl : List String) : NtState × String × List String :=
  let finish (n' : NtState) : NtState × String × List String :=
    let n'' := settle n' 64
    let model := fmtStatus n''
    let implSt := match impl with | "ok" :: rest => rest | _ => impl
    let implC := canon (model.splitOn " ") implSt
    -- L0 on the implementation's statuses
    let viols := (List.range n''.status.length).flatMap (fun j =>
      match n''.cfg.ths[j]?, implSt[j]? with
      | some t, some tok =>
        (if tok.endsWith ":done:panic" then ["NoPanic"] else []) ++
        (match t.kind with
         | .wait off =>
           let midflight := n''.cfg.ths.any (fun u => (match u.kind with | .wait _ => false | _ => true) && !u.done && u.pc != 0)
           let parked := t.pc == 6 && !t.done
           (if (tok.endsWith ":blocked" ∨ tok.endsWith ":parked") ∧ parked ∧ n''.cfg.st.next > off ∧ ¬ midflight then ["LostWakeup"] else []) ++
           (if tok.endsWith ":parked" ∧ t.ctxDone then ["CancelIgnored"] else []) ++
           let chClosed : Bool := match t.b with | some ch => n''.cfg.st.closedCh.contains ch | none => false
           (if tok.endsWith ":done:nil" && parked && !t.ctxDone && !chClosed then ["SpuriousWake"] else [])
         | _ => [])
      | _, _ => [])
    -- every Set the implementation has returned from counts towards the offset (L0 view)
    -- (a Set that races with or follows Close may return without storing: not counted)
    let closeSeen := (List.range n''.status.length).any (fun j =>
      match n''.cfg.ths[j]?, implSt[j]? with
      | some t, some tok => (match t.kind with | .close => !tok.endsWith ":new" | _ => false)
      | _, _ => false)
    let setMax' := (List.range n''.status.length).foldl (fun acc j =>
      match n''.cfg.ths[j]?, implSt[j]? with
      | some t, some tok =>
        (match t.kind with
         | .set v => if tok.endsWith ":done:none" && v > acc && !closeSeen then v else acc
         | _ => acc)
      | _, _ => acc) n.setMax
    -- a Wait that starts below the offset returns at once
    let imm : List String := match op with
      | ["nt.go", k] =>
        let j := k.toNat?.getD 0
        (match n.status[j]?, n.cfg.ths[j]?, implSt[j]? with
         | some Status.new, some t, some tok =>
           (match t.kind with
            | .wait off => if n.setMax > off && !tok.endsWith ":done:nil" then ["NotImmediate"] else []
            | _ => [])
         | _, _, _ => [])
      | _ => []
    -- a waiter sitting in its select although a Set that passed its offset has returned, with no
    -- Set/Close in flight (L0 view, from the implementation's own statuses)
    let inflight := (List.range n''.status.length).any (fun j =>
      match n''.cfg.ths[j]?, implSt[j]? with
      | some t, some tok => (match t.kind with | .wait _ => false | _ => !(tok.endsWith ":new" || (tok.splitOn ":done:").length > 1))
      | _, _ => false)
    let lost := (List.range n''.status.length).flatMap (fun j =>
      match n''.cfg.ths[j]?, implSt[j]? with
      | some t, some tok =>
        (match t.kind with
         | .wait off => if tok.endsWith ":parked" && setMax' > off && !inflight then ["LostWakeupL0"] else []
         | _ => [])
      | _, _ => [])
    ({ n'' with setMax := setMax' }, "ok " ++ model, viols ++ imm ++ lost)
  match op with
  | ["nt.init", v] => ({ cfg := ⟨initSt (v.toInt?.getD 0), []⟩, status := [], setMax := v.toInt?.getD 0 }, "ok", [])
  | ["nt.spawn", _k, kind, arg] =>
    let a := arg.toInt?.getD 0
    let kd : Kind := if kind = "wait" then .wait a else if kind = "set" then .set a else .close
    finish { cfg := stepCfg n.cfg (.spawn kd), status := n.status ++ [.new] }
  | ["nt.go", k] =>
    let j := k.toNat?.getD 0
    match n.status[j]? with
    | some .new | some .held =>
      let (c', st') := runUntilPause n.cfg j 16
      finish { cfg := c', status := n.status.set j st' }
    | _ => finish n
  | ["nt.cancel", k] =>
    let j := k.toNat?.getD 0
    finish { n with cfg := stepCfg n.cfg (.cancel j) }
  | _ => (n, "bad-op", [])

/-- Compare with the tolerance for the `select` ambiguity. -/
def sameResult (model : String) (impl : List String) : Bool :=
  match impl with
  | "ok" :: rest =>
    let m := (model.splitOn " ").drop 1
    String.intercalate " " (canon m rest) == String.intercalate " " m
  | _ => model == String.intercalate " " impl

end DNotify
