/-
Driver helpers for the `sched` profile (C08): the calls of one window with their invocation /
response times, and the enumeration of the sequential orders consistent with real time.
-/
namespace DSched

structure Call where
  id : String
  inv : Int
  ret : Int
  op : List String
  impl : List String
  point : String := ""
  reached : Bool := false
deriving Inhabited, Repr

/-- All permutations of a (short) list. -/
def perms {α : Type} : List α → List (List α)
  | [] => [[]]
  | x :: xs => (perms xs).flatMap (fun p => (List.range (p.length + 1)).map (fun i => p.take i ++ [x] ++ p.drop i))

/-- A sequential order respects real time: a call that returned before another was invoked
comes first. -/
def respectsTime (p : List Call) : Bool :=
  (List.range p.length).all (fun i => (List.range p.length).all (fun j =>
    if i < j then
      match p[i]?, p[j]? with
      | some a, some b => !(decide (b.ret < a.inv))
      | _, _ => true
    else true))

/-- Two calls overlap in real time. -/
def overlap (a b : Call) : Bool := !(decide (a.ret < b.inv)) && !(decide (b.ret < a.inv))

end DSched
