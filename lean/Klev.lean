import Klev.Basic
import Klev.Fnv
import Klev.Index
import Klev.Model
import Klev.Spec
import Klev.Helpers
