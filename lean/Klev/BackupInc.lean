/-
Repeated backup into the same directory (C20).

`Segment.Backup` copies the log file and the index file of every segment of the source into
the target directory; `copyFile` skips a file that already exists in the target with the same
size *and* modification time. The modification time is runtime behaviour: the model lets an
arbitrary oracle decide, per file, whether an existing target file of the **same size** is
skipped or copied again (the real rule skips in a subset of these cases, so whatever is proved
for every oracle holds for it). Files of the target that the source does not have are left
alone; an index file the source does not have is removed from the target.

`Proofs/BackupIncProofs.lean`: while the source has only been appended to, a file of the same
size is the same file, so a backup over the previous backup gives exactly the source's files —
whatever the oracle does.
-/
import Klev.Model
import Klev.Crash
namespace Klev.BackupInc
open Klev

/-- Which existing, same-size files are skipped: by base of the segment, for the log and for
the index file. -/
structure Oracle where
  skipLog : Int → Bool
  skipIdx : Int → Bool

/-- Copy of one segment of the source over what the target holds under the same base. -/
def copySeg (p : Params) (o : Oracle) (s : SegDisk) (t : Option SegDisk) : SegDisk :=
  match t with
  | none => s
  | some t =>
    -- the log file
    let keepLog := logSize t.ver t.recs = logSize s.ver s.recs ∧ o.skipLog s.base
    let (ver, recs) := if keepLog then (t.ver, t.recs) else (s.ver, s.recs)
    -- the index file: copied (or skipped when of the same size); removed when the source has none
    let idxf := match s.idxf, t.idxf with
      | none, _ => none
      | some f, none => some f
      | some f, some g => if idxSize p g = idxSize p f ∧ o.skipIdx s.base then some g else some f
    ⟨s.base, ver, recs, idxf⟩

/-- Backup of the directory `src` into the directory `tgt`: every segment of the source is
copied over the target's segment of the same base; target segments the source does not have
stay. (Directory listings are sorted by base.) -/
def backupInto (p : Params) (o : Oracle) (src tgt : List SegDisk) : List SegDisk :=
  let copied := src.map (fun s => copySeg p o s (tgt.find? (fun t => t.base == s.base)))
  let stale := tgt.filter (fun t => !(src.any (fun s => s.base == t.base)))
  -- the listing is sorted by base
  stale.foldl (fun acc t => Crash.insertSeg t acc) copied

/-- The source after any number of publishes. -/
def publishes (l : Log) : List (List (Int × List UInt8 × List UInt8)) → Log
  | [] => l
  | b :: bs => publishes (l.publish b).1 bs

end Klev.BackupInc
