/-
Basic data types shared by all layers of the model.
Core Lean only (no Mathlib) so the driver links as a native executable.
-/
namespace Klev

/-- A message as the API sees it. `time` is the Unix time in microseconds (what the
record formats store); `key`/`val` are byte lists, nil and empty being the same list. -/
structure Msg where
  off  : Int
  time : Int
  key  : List UInt8
  val  : List UInt8
deriving DecidableEq, Repr, Inhabited

/-- An index item (`pkg/index.Item`). Fields that the configured layout does not store
are `0`, exactly what `index.Read` leaves in the struct. -/
structure Item where
  off : Int
  pos : Int
  ts  : Int
  kh  : UInt64
deriving DecidableEq, Repr, Inhabited

/-- Format version of a log or index file. -/
inductive Ver | v1 | v2
deriving DecidableEq, Repr, Inhabited

/-- `index.Params`. -/
structure Params where
  times : Bool
  keys  : Bool
deriving DecidableEq, Repr, Inhabited

/-- Error classes the API is observed through (`errors.Is` classification in the harness). -/
inductive Err
  | invalidOffset | notFound | noIndex | readonly | logCorrupt | indexCorrupt
  | locked | closed | ctx | panic | other
deriving DecidableEq, Repr, Inhabited

def Err.name : Err → String
  | .invalidOffset => "invalidoffset" | .notFound => "notfound" | .noIndex => "noindex"
  | .readonly => "readonly" | .logCorrupt => "logcorrupt" | .indexCorrupt => "indexcorrupt"
  | .locked => "locked" | .closed => "closed" | .ctx => "ctx" | .panic => "panic"
  | .other => "other"

abbrev Res (α : Type) := Except Err α

deriving instance DecidableEq for Except

def offsetOldest : Int := -2
def offsetNewest : Int := -1
def offsetInvalid : Int := -3

/-- `index.Params.Size`. -/
def Params.size (p : Params) : Int :=
  16 + (if p.times then 8 else 0) + (if p.keys then 8 else 0)

/-- Size of the file header of a log or index file. -/
def hdrSize : Ver → Int
  | .v1 => 0
  | .v2 => 8

/-- `message.Size`: bytes one record occupies in a log file of the given version. -/
def recSize (v : Ver) (m : Msg) : Int :=
  match v with
  | .v1 => 28 + m.key.length + m.val.length
  | .v2 => 36 + m.key.length + m.val.length

theorem recSize_pos (v : Ver) (m : Msg) : 0 < recSize v m := by
  cases v <;> simp only [recSize] <;> omega

end Klev
