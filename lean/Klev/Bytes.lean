/-
Big-endian integers over `List UInt8`, and the two's-complement views of the Go code
(`uint64(x)` for an `int64`, `int32(uint32)`), written with `/` and `%` so that the
round-trips are linear arithmetic.
-/
namespace Klev

/-- `k` bytes, most significant first, of `x mod 256^k` (`binary.BigEndian.PutUintN`). -/
def be : Nat → Nat → List UInt8
  | 0, _ => []
  | k + 1, x => UInt8.ofNat (x / 256 ^ k % 256) :: be k x

/-- `binary.BigEndian.UintN`. -/
def unbe (bs : List UInt8) : Nat := bs.foldl (fun acc b => acc * 256 + b.toNat) 0

def two64 : Nat := 18446744073709551616
def two63 : Nat := 9223372036854775808
def two32 : Nat := 4294967296
def two31 : Nat := 2147483648

/-- `uint64(x)` for `x : int64`. -/
def u64 (x : Int) : Nat := (x % (two64 : Int)).toNat

/-- `int64(n)` for `n : uint64`. -/
def i64 (n : Nat) : Int := if n < two63 then (n : Int) else (n : Int) - (two64 : Int)

/-- `int32(n)` for `n : uint32`. -/
def i32 (n : Nat) : Int := if n < two31 then (n : Int) else (n : Int) - (two32 : Int)

end Klev
