/-
L2 — bytes. The V1 and V2 record codecs of `pkg/message/format.go`, the file headers and
version detection, and the index item layouts of `pkg/index/format.go`, over
`List UInt8`. Every layout constant is the regenerated one (`Klev.Gen.*`); the theorem
`consts_documented` (Props/C13) pins them to the documented layout.
-/
import Klev.Basic
import Klev.Bytes
import Klev.Crc
import Klev.Fnv
import Klev.Model
import Klev.Gen.Consts
namespace Klev

/-! ### layout constants (from the current source) -/

def maxBody : Nat := Gen.msgMaxMessageBodySize.toNat
def trailer : List UInt8 := Gen.msgTrailerMagic
def logMagic : List UInt8 := Gen.msgMagic
def idxMagic : List UInt8 := Gen.idxMagic
def v2Marker : Nat := Gen.msgV2Marker.toNat

/-- File header of a log file (`Version.newHeader`). -/
def logHdr : Ver → List UInt8
  | .v1 => Gen.msgV1FileHeader
  | .v2 => Gen.msgV2FileHeader

def paramsByte (p : Params) : Nat :=
  (if p.times then Gen.idxTimesBit.toNat else 0) + (if p.keys then Gen.idxKeysBit.toNat else 0)

/-- File header of an index file. -/
def idxHdr (p : Params) : Ver → List UInt8
  | .v1 => []
  | .v2 => idxMagic ++ [UInt8.ofNat Gen.idxV2Marker.toNat, UInt8.ofNat (paramsByte p)]

/-! ### records -/

def crcBytes (bs : List UInt8) : List UInt8 := be 4 (crc32c bs).toNat

def v2Body (m : Msg) : List UInt8 :=
  be 8 (u64 m.off) ++ be 8 (u64 m.time) ++ be 4 m.key.length ++ be 4 m.val.length ++
    m.key ++ m.val ++ trailer

/-- `Writer.writeV2`: crc(4) ‖ offset(8) ‖ unixmicro(8) ‖ keylen(4) ‖ vallen(4) ‖ key ‖ value ‖ trailer(8);
the CRC covers everything after itself. -/
def encV2 (m : Msg) : List UInt8 := crcBytes (v2Body m) ++ v2Body m

/-- `Writer.writeV1`: offset(8) ‖ unixmicro(8) ‖ keylen(4) ‖ vallen(4) ‖ crc(4) ‖ key ‖ value;
the CRC covers key ‖ value only. -/
def encV1 (m : Msg) : List UInt8 :=
  be 8 (u64 m.off) ++ be 8 (u64 m.time) ++ be 4 m.key.length ++ be 4 m.val.length ++
    crcBytes (m.key ++ m.val) ++ m.key ++ m.val

def enc : Ver → Msg → List UInt8
  | .v1 => encV1
  | .v2 => encV2

def encAll (v : Ver) (ms : List Msg) : List UInt8 := ms.flatMap (enc v)

/-- A whole log file. -/
def render (v : Ver) (ms : List Msg) : List UInt8 := logHdr v ++ encAll v ms

inductive DecErr
  | shortHeader | invalidHeader | shortData | crc | trailer
deriving DecidableEq, Repr

inductive Dec
  | ok (m : Msg) (next : Nat)
  | eof
  | bad (e : DecErr)
deriving DecidableEq, Repr

/-- `b[pos, pos+n)` as `ReadAt` delivers it (possibly short). -/
def slice (b : List UInt8) (pos n : Nat) : List UInt8 := (b.drop pos).take n

/-- `Reader.readV2` at a position of a file (the `os.File` reader; a partial header is
corruption, nothing at all is the end of the file). -/
def decV2 (b : List UInt8) (pos : Nat) : Dec :=
  let hdr := slice b pos 28
  if hdr.length = 0 then .eof
  else if hdr.length < 28 then .bad .shortHeader
  else
    let crcExp := unbe (hdr.take 4)
    let off := i64 (unbe ((hdr.drop 4).take 8))
    let time := i64 (unbe ((hdr.drop 12).take 8))
    let ksz := i32 (unbe ((hdr.drop 20).take 4))
    let vsz := i32 (unbe ((hdr.drop 24).take 4))
    if ksz < 0 ∨ vsz < 0 then .bad .invalidHeader
    else if ksz + vsz > (maxBody : Int) then .bad .invalidHeader
    else
      let k := ksz.toNat
      let vl := vsz.toNat
      let need := k + vl + 8
      let data := slice b (pos + 28) need
      if data.length < need then .bad .shortData
      else if (crc32c (hdr.drop 4 ++ data)).toNat ≠ crcExp then .bad .crc
      else if data.drop (k + vl) ≠ trailer then .bad .trailer
      else .ok ⟨off, time, data.take k, (data.drop k).take vl⟩ (pos + 28 + need)

/-- `Reader.readV1`. -/
def decV1 (b : List UInt8) (pos : Nat) : Dec :=
  let hdr := slice b pos 28
  if hdr.length = 0 then .eof
  else if hdr.length < 28 then .bad .shortHeader
  else
    let off := i64 (unbe (hdr.take 8))
    let time := i64 (unbe ((hdr.drop 8).take 8))
    let ksz := i32 (unbe ((hdr.drop 16).take 4))
    let vsz := i32 (unbe ((hdr.drop 20).take 4))
    let crcExp := unbe ((hdr.drop 24).take 4)
    if ksz < 0 ∨ vsz < 0 then .bad .invalidHeader
    else if ksz + vsz > (maxBody : Int) then .bad .invalidHeader
    else
      let k := ksz.toNat
      let vl := vsz.toNat
      let need := k + vl
      let data := slice b (pos + 28) need
      if data.length < need then .bad .shortData
      else if (crc32c data).toNat ≠ crcExp then .bad .crc
      else .ok ⟨off, time, data.take k, (data.drop k).take vl⟩ (pos + 28 + need)

def dec : Ver → List UInt8 → Nat → Dec
  | .v1 => decV1
  | .v2 => decV2

/-! ### file headers -/

inductive HdrErr
  | short | magicNotFound | unknownVersion | reserved | timesMismatch | keysMismatch
deriving DecidableEq, Repr

/-- `message.headerParse` as `OpenReader` applies it: an empty file is V1; fewer than 8
bytes is corruption. -/
def logVersion (b : List UInt8) (base : Int) : Except HdrErr Ver :=
  if b.length = 0 then .ok .v1
  else if b.length < 8 then .error .short
  else
    let h := b.take 8
    if h.take 6 = logMagic then
      let ver := (h.getD 6 0).toNat
      let rsv := (h.getD 7 0).toNat
      if ver > v2Marker then .error .unknownVersion
      else if rsv ≠ 0 then .error .reserved
      else if ver = v2Marker then .ok .v2
      else .error .unknownVersion
    else if i64 (unbe h) = base then .ok .v1
    else .error .magicNotFound

/-! ### index files -/

def encItem (p : Params) (it : Item) : List UInt8 :=
  be 8 (u64 it.off) ++ be 8 (u64 it.pos) ++
    (if p.times then be 8 (u64 it.ts) else []) ++
    (if p.keys then be 8 it.kh.toNat else [])

def renderIdx (p : Params) (v : Ver) (items : List Item) : List UInt8 :=
  idxHdr p v ++ items.flatMap (encItem p)

def decItem (p : Params) (bs : List UInt8) : Item :=
  { off := i64 (unbe (bs.take 8)),
    pos := i64 (unbe ((bs.drop 8).take 8)),
    ts := if p.times then i64 (unbe ((bs.drop 16).take 8)) else 0,
    kh := if p.keys then UInt64.ofNat (unbe ((bs.drop (if p.times then 24 else 16)).take 8)) else 0 }

def chunks (n : Nat) : Nat → List UInt8 → List (List UInt8)
  | 0, _ => []
  | fuel + 1, bs => if bs.isEmpty ∨ n = 0 then [] else bs.take n :: chunks n fuel (bs.drop n)

/-- `index.headerParse`. -/
def idxVersion (p : Params) (b : List UInt8) (base : Int) : Except HdrErr Ver :=
  let h := b.take 8
  if h.take 6 = idxMagic then
    let ver := (h.getD 6 0).toNat
    let par := (h.getD 7 0).toNat
    if ver > Gen.idxV2Marker.toNat then .error .unknownVersion
    else if p.times ≠ (par % 2 = 1) then .error .timesMismatch
    else if p.keys ≠ (par / 2 % 2 = 1) then .error .keysMismatch
    else if par / 4 > 0 then .error .reserved
    else if ver = Gen.idxV2Marker.toNat then .ok .v2
    else .error .unknownVersion
  else if i64 (unbe h) = base then .ok .v1
  else .error .magicNotFound

inductive IdxErr
  | hdr (e : HdrErr) | size
deriving DecidableEq, Repr

/-- `index.Read`: version and items, or why the file is corrupted. -/
def parseIdx (p : Params) (b : List UInt8) (base : Int) : Except IdxErr (Ver × List Item) :=
  if b.length = 0 then .ok (.v1, [])
  else if b.length < 8 then .error (.hdr .short)
  else match idxVersion p b base with
    | .error e => .error (.hdr e)
    | .ok v =>
      let data := match v with | .v1 => b | .v2 => b.drop 8
      let isz := p.size.toNat
      if data.length % isz ≠ 0 then .error .size
      else .ok (v, (chunks isz (data.length + 1) data).map (decItem p))

end Klev
