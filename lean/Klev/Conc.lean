/-
The locking discipline of `log.go` as an interleaving semantics (C08).

Granularity: one step = one critical section. What makes a section atomic is the lock it
runs under; which lock guards what is the regenerated structural fact set of Props/C08
(`readRegionLocked`, `writerGuarded`, `rolloverSwapUnderLock`).

* a read call (Consume, Get, GetByKey, GetByTime, ConsumeByKey, NextOffset, …) runs as a
  whole under the segment-list read lock and sees the head index at one instant: one step;
* Publish: take `writerMu`; stamp the batch from the next offset and write the files
  (invisible: readers go through the index); append the items to the head index (the
  batch becomes visible, the commit); release;
* Delete: take `deleteMu`; choose what to remove from what is visible now and rewrite
  (invisible); swap under the write locks (the commit) — a head that changed since it was
  rewritten is rewritten again; release.

The sequential specification is over the visible state only. For Delete it is the API's
own: "does not guarantee that it will delete all messages, it returns the list of actually
deleted messages" — any subset of the requested live messages.
-/
import Klev.Basic
namespace Klev.Conc

/-- The visible state. -/
structure Vis where
  live : List Msg
  next : Int
deriving DecidableEq, Repr

/-- A batch as the caller gives it: time, key, value. -/
abbrev Batch := List (Int × List UInt8 × List UInt8)

def stamp (next : Int) : Batch → List Msg
  | [] => []
  | (t, k, v) :: rest => ⟨next, t, k, v⟩ :: stamp (next + 1) rest

inductive Call
  | publish (b : Batch)
  | delete (offs : List Int)
  | read (q : Nat)            -- an uninterpreted read-only query, identified by a number
deriving DecidableEq, Repr

inductive Res
  | next (n : Int)            -- Publish
  | deleted (ms : List Msg)   -- Delete
  | answer (q : Nat) (v : Vis) -- a read: the visible state it answered from (any function of it)
deriving DecidableEq, Repr

/-! ### sequential specification -/

/-- One call, atomically. `choice` resolves Delete's freedom: the messages it removes. -/
def seqStep (v : Vis) (c : Call) (choice : List Msg) : Vis × Res :=
  match c with
  | .publish b => (⟨v.live ++ stamp v.next b, v.next + b.length⟩, .next (v.next + b.length))
  | .delete _ => (⟨v.live.filter (fun m => !choice.contains m), v.next⟩, .deleted choice)
  | .read q => (v, .answer q v)

/-- A legal choice for a Delete: requested and live. -/
def LegalChoice (v : Vis) (c : Call) (choice : List Msg) : Prop :=
  match c with
  | .delete offs => ∀ m ∈ choice, m ∈ v.live ∧ m.off ∈ offs
  | _ => choice = []

/-! ### concurrent semantics -/

inductive Phase
  | start                       -- invoked, nothing done
  | pubLocked                   -- Publish holds writerMu
  | pubWritten (ms : List Msg)  -- files written with these stamped messages, not yet in the index
  | pubCommitted (n : Int)      -- index appended; still holds writerMu
  | delLocked                   -- Delete holds deleteMu
  | delRewritten (ms : List Msg) -- target chosen and rewritten: these are to be removed
  | delCommitted (ms : List Msg) -- swapped; still holds deleteMu
  | done (r : Res)
deriving DecidableEq, Repr

structure Th where
  call : Call
  phase : Phase := .start
  /-- what a Delete picks when it (re)chooses: one list per attempt, consumed in order -/
  picks : List (List Msg) := []
deriving DecidableEq, Repr

structure Cfg where
  vis : Vis
  writerMu : Option Nat := none   -- holder
  deleteMu : Option Nat := none
  ths : List Th
  /-- commit log: thread, call, the choice it committed, its result — in commit order -/
  log : List (Nat × Call × List Msg × Res) := []
deriving DecidableEq, Repr

/-- A pick is usable when it is requested and live *now* (what the rewrite can find). -/
def usable (v : Vis) (offs : List Int) (ms : List Msg) : Bool :=
  ms.all (fun m => v.live.contains m && offs.contains m.off)

/-- One step of thread `i`; a blocked or finished thread leaves the configuration unchanged. -/
def step (c : Cfg) (i : Nat) : Cfg :=
  match c.ths[i]? with
  | none => c
  | some t =>
    let set := fun (t' : Th) => c.ths.set i t'
    match t.call, t.phase with
    -- reads: one atomic step
    | .read q, .start =>
      { c with ths := set { t with phase := .done (.answer q c.vis) },
               log := c.log ++ [(i, t.call, [], .answer q c.vis)] }
    -- Publish
    | .publish _, .start =>
      (match c.writerMu with
       | none => { c with writerMu := some i, ths := set { t with phase := .pubLocked } }
       | some _ => c)
    | .publish b, .pubLocked =>
      { c with ths := set { t with phase := .pubWritten (stamp c.vis.next b) } }
    | .publish b, .pubWritten ms =>
      { c with vis := ⟨c.vis.live ++ ms, c.vis.next + b.length⟩,
               ths := set { t with phase := .pubCommitted (c.vis.next + b.length) },
               log := c.log ++ [(i, t.call, [], .next (c.vis.next + b.length))] }
    | .publish _, .pubCommitted n =>
      { c with writerMu := none, ths := set { t with phase := .done (.next n) } }
    -- Delete
    | .delete _, .start =>
      (match c.deleteMu with
       | none => { c with deleteMu := some i, ths := set { t with phase := .delLocked } }
       | some _ => c)
    | .delete offs, .delLocked =>
      -- choose and rewrite: whatever is picked is requested and visible now
      (match t.picks with
       | [] => { c with ths := set { t with phase := .delRewritten [] } }
       | p :: rest =>
         { c with ths := set { t with phase := .delRewritten (if usable c.vis offs p then p else []), picks := rest } })
    | .delete _, .delRewritten ms =>
      -- the swap needs the writer lock (it looks at the writer) and the list write lock
      (match c.writerMu with
       | some _ => c
       | none =>
         { c with vis := ⟨c.vis.live.filter (fun m => !ms.contains m), c.vis.next⟩,
                  ths := set { t with phase := .delCommitted ms },
                  log := c.log ++ [(i, t.call, ms, .deleted ms)] })
    | .delete _, .delCommitted ms =>
      { c with deleteMu := none, ths := set { t with phase := .done (.deleted ms) } }
    | _, _ => c

def run (c : Cfg) : List Nat → Cfg
  | [] => c
  | i :: rest => run (step c i) rest

def init (v : Vis) (ths : List Th) : Cfg := { vis := v, ths := ths }

/-- Every thread is at its start. -/
def Fresh (ths : List Th) : Prop := ∀ t ∈ ths, t.phase = .start

/-- Replay of a commit log by the sequential specification. -/
def replay (v : Vis) : List (Nat × Call × List Msg × Res) → Vis
  | [] => v
  | (_, c, ch, _) :: rest => replay (seqStep v c ch).1 rest

/-- Every entry of a commit log is what the sequential specification returns, with a legal choice. -/
def LogOK (v : Vis) : List (Nat × Call × List Msg × Res) → Prop
  | [] => True
  | (_, c, ch, r) :: rest => LegalChoice v c ch ∧ (seqStep v c ch).2 = r ∧ LogOK (seqStep v c ch).1 rest

end Klev.Conc
