/-
Crash points of Publish and Delete at the level of whole files and records (C05).

An operation changes the directory by a short *program* of file-system steps; a crash
leaves the directory after some prefix of that program (a record torn in the middle of an
append is the byte-level matter of `Proofs/TornAppend.lean`: Recover cuts it off, which is
the state before that step). The programs below are read off `log.go`, `log_writer.go`,
`log_reader.go` and `pkg/segment/segment.go`; that the running code goes through exactly
these directory states is checked on every run by the crash profile (every crash image's
directory listing must be one of the model's crash states).

Temporary files (`.rewrite.*`, `.tmp`, `.recover`, `.migrate`) are not segments and are not
part of the state: Open does not look at them.
-/
import Klev.Model
namespace Klev.Crash
open Klev

inductive FsStep
  | createSeg (base : Int) (ver : Ver)       -- openWriter on a new segment, first half: the log file with its header
  | appendRec (m : Msg)                      -- one record appended to the head log
  | appendItem (it : Item)                   -- one item appended to the head index file
  | removeIdx (base : Int)                   -- the index file of a segment is removed
  | removeSeg (base : Int)                   -- the log file of a segment is removed: the segment is gone
  | putLog (base : Int) (ver : Ver) (recs : List Msg)   -- a rewritten log renamed over the log of a segment
  | putIdx (base : Int) (f : IdxFile)        -- a rewritten index renamed in
  | addSeg (base : Int) (ver : Ver) (recs : List Msg)   -- a rewritten log renamed in at a new base
deriving Repr

/-- Insert keeping the directory sorted by base (directory listings are sorted by name). -/
def insertSeg (d : SegDisk) : List SegDisk → List SegDisk
  | [] => [d]
  | x :: xs => if d.base < x.base then d :: x :: xs else x :: insertSeg d xs

def onSeg (base : Int) (f : SegDisk → SegDisk) (d : List SegDisk) : List SegDisk :=
  d.map (fun s => if s.base = base then f s else s)

def onLast (f : SegDisk → SegDisk) (d : List SegDisk) : List SegDisk := mapLast f d

def applyStep (d : List SegDisk) : FsStep → List SegDisk
  | .createSeg base ver => insertSeg ⟨base, ver, [], none⟩ d
  | .appendRec m => onLast (fun s => { s with recs := s.recs ++ [m] }) d
  | .appendItem it => onLast (fun s => { s with idxf := s.idxf.map (fun f => { f with items := f.items ++ [it] }) }) d
  | .removeIdx base => onSeg base (fun s => { s with idxf := none }) d
  | .removeSeg base => d.filter (fun s => s.base ≠ base)
  | .putLog base ver recs => onSeg base (fun s => { s with ver := ver, recs := recs }) d
  | .putIdx base f => onSeg base (fun s => { s with idxf := some f }) d
  | .addSeg base ver recs => insertSeg ⟨base, ver, recs, none⟩ d

def applySteps (d : List SegDisk) (steps : List FsStep) : List SegDisk := steps.foldl applyStep d

/-! ### the programs -/

/-- `openWriter` on a segment that does not exist yet: the log file, then the (empty) index file. -/
def newHead (base : Int) (ver : Ver) : List FsStep := [.createSeg base ver, .putIdx base ⟨ver, []⟩]

/-- Records and items of a batch interleaved the way `writer.Publish` writes them. -/
def interleave : List Msg → List Item → List FsStep
  | m :: ms, it :: its => .appendRec m :: .appendItem it :: interleave ms its
  | _, _ => []

/-- `log.Publish`: possibly a rollover (the new head segment is created; the old head's files
are complete and fsynced), then record, item, record, item, … -/
def publishProg (l : Log) (batch : List (Int × List UInt8 × List UInt8)) : List FsStep :=
  match l.segs.getLast? with
  | none => []
  | some h =>
    let roll := needsRollover l.opts h
    let l1 := l.rollover
    match l1.segs.getLast? with
    | none => []
    | some h1 =>
      let st := stamp l.opts.params h1.ver l1.wNextOff (logSize h1.ver h1.recs) l1.wNextTime batch
      (if roll then newHead l.wNextOff l.opts.nsv else []) ++ interleave st.1 st.2

/-- Swapping the rewritten files of segment `base` in: dropped, replaced in place, or moved
to the base of its lowest survivor. -/
def swapProg (p : Params) (base : Int) (rw : Rewrite) : List FsStep :=
  if rw.survive.isEmpty then [.removeIdx base, .removeSeg base]
  else
    let nb := minOff (rw.survive.map (·.off))
    let idx : IdxFile := ⟨rw.iver, derive p rw.ver rw.survive⟩
    if nb = base then [.removeIdx base, .putLog base rw.ver rw.survive, .putIdx base idx]
    else [.addSeg nb rw.ver rw.survive, .putIdx nb idx, .removeIdx base, .removeSeg base]

/-- `log.Delete`: nothing for a delete that removes nothing; in the head, a new head
segment named after the next offset is created *first* whenever the tail goes away. -/
def deleteProg (l : Log) (offs : List Int) : List FsStep :=
  if l.opts.readonly ∨ offs.isEmpty then [] else
  match deleteTarget l offs with
  | .error _ => []
  | .ok i =>
    match l.segs[i]? with
    | none => []
    | some s =>
      let mver := if l.opts.keep then s.ver else l.opts.nsv
      let rw := rewrite l.opts.params s offs mver mver
      if rw.deleted.isEmpty then []
      else if i + 1 == l.segs.length then
        (if rw.survive.isEmpty ∨ tailDeleted s rw then newHead l.wNextOff l.opts.nsv else []) ++
          swapProg l.opts.params s.base rw
      else swapProg l.opts.params s.base rw

/-- Does this delete move a segment to a new base (the known window D6)? -/
def rebasing (l : Log) (offs : List Int) : Bool :=
  (deleteProg l offs).any (fun st => match st with | .addSeg _ _ _ => true | _ => false)

inductive COp
  | publish (batch : List (Int × List UInt8 × List UInt8))
  | delete (offs : List Int)
deriving Repr

def prog (l : Log) : COp → List FsStep
  | .publish b => if l.opts.readonly then [] else publishProg l b
  | .delete o => deleteProg l o

/-- The directory a crash after `k` steps of the operation leaves. -/
def crashState (l : Log) (op : COp) (k : Nat) : List SegDisk :=
  applySteps l.disk ((prog l op).take k)

def crashStates (l : Log) (op : COp) : List (List SegDisk) :=
  (List.range ((prog l op).length + 1)).map (crashState l op)

end Klev.Crash
