/-
Crash points of `Open` itself (C05): a read-write Open with Recover and/or
EagerVersionMigrate changes the directory by a program of file-system steps too
(`Segment.Recover`, `Segment.Migrate` per segment, `openWriter` on the head). A crash leaves
the directory after a prefix of that program; `Proofs/CrashOpenProofs.lean` proves that every
such directory reopens (with Recover, any other options) to the same content, and that the
program ends exactly in the files of the model's `Log.open`.

Read off `log.go` `Open`, `pkg/segment/segment.go` `Recover` / `Migrate`, `log_writer.go`
`openWriter`; the temporary files (`.recover`, `.migrate`, the index temp) are not part of
the state. That the running code goes through exactly these directory states is checked on
every run by the crash profile (the listing of every image taken inside an Open must be one
of `openCrashStates`).
-/
import Klev.Crash
namespace Klev.Crash
open Klev

/-- `Segment.Recover` on a head whose log parses: a differing index file is removed and
written again (same index version). -/
def recoverProg (p : Params) (h : SegDisk) : List FsStep :=
  match h.idxf with
  | none => []
  | some f =>
    if f.items == derive p h.ver h.recs then []
    else [.removeIdx h.base, .putIdx h.base ⟨f.ver, derive p h.ver h.recs⟩]

/-- `Segment.Migrate` of one segment: index removed first, the migrated log renamed over the
log, the index written. -/
def migrateProg (p : Params) (mv iv : Ver) (s : SegDisk) : List FsStep :=
  if s.ver = mv then []
  else [.removeIdx s.base, .putLog s.base mv s.recs, .putIdx s.base ⟨iv, derive p mv s.recs⟩]

/-- `openWriter` on the head as found: a 0-byte log gets its header, the index file is
rebuilt or created when missing / header-only. -/
def writerProg (o : Opts) (h : SegDisk) : List FsStep :=
  let hs := (openWriter o h.toSeg 0).1
  (if hs.ver = h.ver then [] else [.putLog h.base hs.ver h.recs]) ++
  (match hs.idxf with
   | some f => if hs.idxf = h.idxf then [] else [.putIdx h.base f]
   | none => [])

/-- The directory after the first two phases of a read-write `Open`. -/
def afterRecover (disk : List SegDisk) (oo : OpenOpts) : List SegDisk :=
  if oo.recover then mapLast (segRecover oo.opts.params) disk else disk

def afterMigrate (disk : List SegDisk) (oo : OpenOpts) : List SegDisk :=
  let d1 := afterRecover disk oo
  if oo.eager then d1.map (segMigrate oo.opts.params oo.opts.nsv oo.opts.nsv) else d1

/-- The file-system program of a read-write `Open` of a directory with segments. -/
def openProg (disk : List SegDisk) (oo : OpenOpts) : List FsStep :=
  if oo.opts.readonly then [] else
  match disk.getLast? with
  | none => newHead 0 oo.opts.nsv
  | some h =>
    -- Check (without Recover) refuses a head whose index differs: nothing is touched
    if ¬ oo.recover ∧ oo.check ∧ ¬ segCheck oo.opts.params h then [] else
    (if oo.recover then recoverProg oo.opts.params h else []) ++
    (if oo.eager then (afterRecover disk oo).flatMap (migrateProg oo.opts.params oo.opts.nsv oo.opts.nsv) else []) ++
    (match (afterMigrate disk oo).getLast? with
     | some h2 => writerProg oo.opts h2
     | none => [])

def openCrashState (disk : List SegDisk) (oo : OpenOpts) (k : Nat) : List SegDisk :=
  applySteps disk ((openProg disk oo).take k)

def openCrashStates (disk : List SegDisk) (oo : OpenOpts) : List (List SegDisk) :=
  (List.range ((openProg disk oo).length + 1)).map (openCrashState disk oo)

end Klev.Crash
