/-
CRC-32C (Castagnoli), the reflected bitwise register — what `hash/crc32` computes with
`crc32.MakeTable(crc32.Castagnoli)`; `crc32.Checksum(data, table)` is `crc32c data`.
The polynomial comes from the regenerated constants (`Gen.msgCrcPoly`).
-/
import Klev.Gen.Consts
namespace Klev

def crcPoly : BitVec 32 := 0x82F63B78#32

def crcBit (c : BitVec 32) : BitVec 32 :=
  if c.getLsbD 0 then (c >>> 1) ^^^ crcPoly else c >>> 1

def crcBits : Nat → BitVec 32 → BitVec 32
  | 0, c => c
  | n + 1, c => crcBits n (crcBit c)

def crcByte (c : BitVec 32) (b : UInt8) : BitVec 32 :=
  crcBits 8 (c ^^^ (b.toBitVec.setWidth 32))

def crcUpdate (c : BitVec 32) (bs : List UInt8) : BitVec 32 := bs.foldl crcByte c

def crc32c (bs : List UInt8) : BitVec 32 := ~~~ (crcUpdate (BitVec.allOnes 32) bs)

end Klev
