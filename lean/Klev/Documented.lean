/-
The documented on-disk layout, written down once by hand. The theorem
`consts_documented` (Props/C13) requires the constants regenerated from the current
source (`Klev.Gen.*`) to equal these: a change of a magic byte, a header size, the trailer,
the CRC polynomial, a version marker or an index flag bit breaks that proof obligation.
-/
import Klev.Gen.Consts
namespace Klev.Documented

def msgMagic : List UInt8 := [0xFF, 0x6B, 0x6C, 0x65, 0x76, 0x73]          -- FF "klevs"
def idxMagic : List UInt8 := [0xFF, 0x6B, 0x6C, 0x65, 0x76, 0x69]          -- FF "klevi"
def trailer : List UInt8 := [0xDE, 0xAD, 0xBE, 0xEF, 0xFE, 0xED, 0xFA, 0xCE]

/-- Everything the formats depend on, as one record of the generated constants. -/
def generated : List (String × Int) × List (String × List UInt8) :=
  ([("msg.headerSize", Gen.msgHeaderSize), ("msg.v1HeaderSize", Gen.msgV1HeaderSize),
    ("msg.v2HeaderSize", Gen.msgV2HeaderSize), ("msg.trailerSize", Gen.msgTrailerSize),
    ("msg.fixedSize", Gen.msgFixedSize), ("msg.headerPayloadSize", Gen.msgHeaderPayloadSize),
    ("msg.maxMessageBodySize", Gen.msgMaxMessageBodySize),
    ("msg.v1Marker", Gen.msgV1Marker), ("msg.v2Marker", Gen.msgV2Marker),
    ("msg.crcPoly", Gen.msgCrcPoly), ("msg.crcTable128", Gen.msgCrcTable128), ("msg.crcTable1", Gen.msgCrcTable1),
    ("msg.offsetOldest", Gen.msgOffsetOldest), ("msg.offsetNewest", Gen.msgOffsetNewest),
    ("msg.offsetInvalid", Gen.msgOffsetInvalid),
    ("log.offsetOldest", Gen.logOffsetOldest), ("log.offsetNewest", Gen.logOffsetNewest),
    ("log.offsetInvalid", Gen.logOffsetInvalid),
    ("idx.headerSize", Gen.idxHeaderSize), ("idx.v1Marker", Gen.idxV1Marker), ("idx.v2Marker", Gen.idxV2Marker),
    ("idx.timesBit", Gen.idxTimesBit), ("idx.keysBit", Gen.idxKeysBit), ("idx.unusedBits", Gen.idxUnusedBits),
    ("idx.size00", Gen.idxSize00), ("idx.size10", Gen.idxSize10), ("idx.size01", Gen.idxSize01),
    ("idx.size11", Gen.idxSize11)],
   [("msg.magic", Gen.msgMagic), ("msg.trailerMagic", Gen.msgTrailerMagic),
    ("msg.v1FileHeader", Gen.msgV1FileHeader), ("msg.v2FileHeader", Gen.msgV2FileHeader),
    ("idx.magic", Gen.idxMagic), ("idx.hdr00", Gen.idxHdr00), ("idx.hdr10", Gen.idxHdr10),
    ("idx.hdr01", Gen.idxHdr01), ("idx.hdr11", Gen.idxHdr11)])

def documented : List (String × Int) × List (String × List UInt8) :=
  ([("msg.headerSize", 8), ("msg.v1HeaderSize", 28), ("msg.v2HeaderSize", 28), ("msg.trailerSize", 8),
    ("msg.fixedSize", 36), ("msg.headerPayloadSize", 24), ("msg.maxMessageBodySize", 64 * 1024 * 1024),
    ("msg.v1Marker", 255), ("msg.v2Marker", 1),
    ("msg.crcPoly", 0x82F63B78), ("msg.crcTable128", 0x82F63B78), ("msg.crcTable1", 0xF26B8303),
    ("msg.offsetOldest", -2), ("msg.offsetNewest", -1), ("msg.offsetInvalid", -3),
    ("log.offsetOldest", -2), ("log.offsetNewest", -1), ("log.offsetInvalid", -3),
    ("idx.headerSize", 8), ("idx.v1Marker", 255), ("idx.v2Marker", 1),
    ("idx.timesBit", 1), ("idx.keysBit", 2), ("idx.unusedBits", 252),
    ("idx.size00", 16), ("idx.size10", 24), ("idx.size01", 24), ("idx.size11", 32)],
   [("msg.magic", msgMagic), ("msg.trailerMagic", trailer),
    ("msg.v1FileHeader", []), ("msg.v2FileHeader", msgMagic ++ [1, 0]),
    ("idx.magic", idxMagic), ("idx.hdr00", idxMagic ++ [1, 0]), ("idx.hdr10", idxMagic ++ [1, 1]),
    ("idx.hdr01", idxMagic ++ [1, 2]), ("idx.hdr11", idxMagic ++ [1, 3])])

end Klev.Documented
