/-
The `.lock` file: handles over one directory. `flock(2)` semantics between open file
descriptions (trusted): an exclusive lock is granted iff nobody holds any lock, a shared
lock iff nobody holds the exclusive one; both are non-blocking. `Open` takes the lock
first; whether a later failure inside `Open` releases it is the structural fact
`releaseOnError`, extracted from the source (T3) — the model takes it as a parameter.
-/
namespace Klev

structure LockSt where
  writers : Nat      -- handles holding the exclusive lock
  readers : Nat      -- handles holding the shared lock
deriving DecidableEq, Repr, Inhabited

inductive LockOp
  | openRW (laterFails : Bool)     -- Open read-write; `laterFails`: Open fails after taking the lock
  | openRO (laterFails : Bool)
  | closeRW                        -- Close of a read-write handle (one exists)
  | closeRO
deriving DecidableEq, Repr

inductive LockRes | ok | locked | failed | noHandle
deriving DecidableEq, Repr

def lockStep (releaseOnError : Bool) (s : LockSt) : LockOp → LockSt × LockRes
  | .openRW laterFails =>
    if s.writers = 0 ∧ s.readers = 0 then
      if laterFails then ((if releaseOnError then s else { s with writers := 1 }), .failed)
      else ({ s with writers := 1 }, .ok)
    else (s, .locked)
  | .openRO laterFails =>
    if s.writers = 0 then
      if laterFails then ((if releaseOnError then s else { s with readers := s.readers + 1 }), .failed)
      else ({ s with readers := s.readers + 1 }, .ok)
    else (s, .locked)
  | .closeRW => if s.writers = 0 then (s, .noHandle) else ({ s with writers := s.writers - 1 }, .ok)
  | .closeRO => if s.readers = 0 then (s, .noHandle) else ({ s with readers := s.readers - 1 }, .ok)

def lockRun (rel : Bool) (s : LockSt) : List LockOp → LockSt
  | [] => s
  | op :: rest => lockRun rel (lockStep rel s op).1 rest

/-- At most one writer, and a writer excludes every reader. -/
def LockInv (s : LockSt) : Prop := s.writers ≤ 1 ∧ (s.writers = 1 → s.readers = 0)

end Klev
