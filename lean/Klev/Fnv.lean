/-
FNV-1a, 64 bit (`hash/fnv.New64a`), as used by `index.KeyHash`.
-/
namespace Klev

def fnvOffset64 : UInt64 := 14695981039346656037
def fnvPrime64  : UInt64 := 1099511628211

def fnv1a (bs : List UInt8) : UInt64 :=
  bs.foldl (fun h b => (h ^^^ b.toUInt64) * fnvPrime64) fnvOffset64

end Klev
