-- GENERATED (stub)
namespace Klev.Gen
end Klev.Gen
