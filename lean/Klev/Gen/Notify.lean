-- translator failed on the current source
#eval (throw (IO.userError "translator notifyprog failed: notifyprog: Wait: unrecognised statement: for { select { case <-b: return nil case <-ctx.Done(): return ctx.Err() case <-time.After(time.Second): if w.nextOffset.Load() >= offset { return nil } } }") : IO Unit)
