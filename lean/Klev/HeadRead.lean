/-
Reads of the head segment while publishes land (C08).

A read call holds the segment-list read lock, which keeps rollovers and deletes out, but the
head's index grows under the *writer* lock: a read of the head that looks at the index twice
sees two states of an append-only sequence. `Klev/Conc.lean` takes reads as atomic; this file
is the justification for the one read that is not a single look — `reader.ConsumeByKey`
(next offset, then the positions of the key) — and the counterexample for the other order
(defect D22). The order in the source is the regenerated fact `Gen.consumeByKeyNextFirst`.

`Consume` takes one snapshot (`index.Consume` returns position, limit and next offset under
one lock); `Get`, `GetByKey`, `GetByTime` look once and then read records at positions, which
never change in an append-only file: those are atomic at their one look.
-/
import Klev.Basic
namespace Klev.HeadRead
open Klev

/-- The head as a reader sees it: its records and the next offset. -/
structure Head where
  recs : List Msg
  next : Int
deriving Repr

/-- Offsets are below `next`. -/
def Head.OK (h : Head) : Prop := ∀ m ∈ h.recs, m.off < h.next

/-- `b` is `a` after some publishes: records appended with offsets from `a.next` on. -/
structure Grows (a b : Head) : Prop where
  ext : ∃ app, b.recs = a.recs ++ app ∧ ∀ m ∈ app, a.next ≤ m.off
  next : a.next ≤ b.next

/-- The messages `ConsumeByKey` picks from a state of the head. -/
def pick (recs : List Msg) (key : List UInt8) (off : Int) (max : Nat) : List Msg :=
  (recs.filter (fun m => m.key == key && decide (off ≤ m.off))).take max

/-- The answer from what was picked and the next offset at hand. -/
def answer (next : Int) (ms : List Msg) : Int × List Msg :=
  match ms.getLast? with
  | none => (next, [])
  | some l => (l.off + 1, ms)

/-- `ConsumeByKey` on one state of the head (what a sequential run returns). -/
def spec (h : Head) (key : List UInt8) (off : Int) (max : Nat) : Int × List Msg :=
  answer h.next (pick h.recs key off max)

/-- The source order: the next offset is read first (state `a`), the keys afterwards (state `b`). -/
def nextFirst (a b : Head) (key : List UInt8) (off : Int) (max : Nat) : Int × List Msg :=
  answer a.next (pick b.recs key off max)

/-- The other order (D22): the keys first (state `a`), the next offset afterwards (state `b`). -/
def keysFirst (a b : Head) (key : List UInt8) (off : Int) (max : Nat) : Int × List Msg :=
  answer b.next (pick a.recs key off max)

end Klev.HeadRead

/-! ### `GetByTime` past every message while the head it met empty fills up (defect D21)

`log.GetByTime` walks the segments from the newest to the oldest. When the head is empty at its
look and the segment before it answers "after its end", the answer is "not found" — unless the
walk looks at the head a second time (`Get(OffsetOldest)` of "the next segment"), which by then
may hold a message of a Publish that landed meanwhile, with any time. The repaired code remembers
that the head was empty (`headEmpty`, the regenerated fact `getByTimeRemembersEmptyHead`). -/
namespace Klev.HeadRead
open Klev

/-- The first message at or after `ts` (what a sequential `GetByTime` returns on these records). -/
def firstAt (recs : List Msg) (ts : Int) : Option Msg := recs.find? (fun m => decide (ts ≤ m.time))

/-- The walk with a sealed segment `seg` before a head that was empty at its look: repaired —
the head is not looked at again. -/
def gbtRemember (seg : List Msg) (ts : Int) : Option Msg := firstAt seg ts

/-- … and as it was: "after the end" of `seg` hands over to the first message of the head as it
is *now* (`headLater`). -/
def gbtRelook (seg headLater : List Msg) (ts : Int) : Option Msg :=
  match firstAt seg ts with
  | some m => some m
  | none => headLater.head?

end Klev.HeadRead
