/-
The client-side helpers (delete.go, trim_*.go, compact_*.go) as the same loops over the
L1 API: `Consume(offset, 32)` from `OffsetOldest`, a bound-specific stop rule, then
`Delete` / `DeleteMulti`. Sets of offsets are lists without duplicates in scan order.
-/
import Klev.Model
namespace Klev
namespace Helpers

/-- The scan loop shared by all `Find*` helpers:
`for offset := OffsetOldest; offset < maxOffset && cont st; { next, msgs := Consume(offset, 32); st = step st msgs }`.
`step` returns `(st', brk)` where `brk` is `break SEARCH`. -/
def scanLoop {σ : Type} (maxOff : Int) (cont : σ → Bool) (step : σ → List Msg → σ × Bool) :
    Nat → Log → Int → σ → Log × Out σ
  | 0, l, _, _ => (l, .err .panic)
  | fuel + 1, l, off, st =>
    if off < maxOff ∧ cont st then
      match l.consume off 32 with
      | (l1, .err e) => (l1, .err e)
      | (l1, .ok (nxt, msgs)) =>
        let (st', brk) := step st msgs
        if brk then (l1, .ok st') else scanLoop maxOff cont step fuel l1 nxt st'
    else (l, .ok st)

def fuelFor (maxOff : Int) : Nat := (maxOff + 4).toNat

/-- `FindByOffset`. -/
def findByOffset (l : Log) (before : Int) : Log × Out (List Int) :=
  if before = offsetOldest then (l, .ok []) else
  match l.nextOffset with
  | (l1, .err e) => (l1, .err e)
  | (l1, .ok next) =>
    let b := if before = offsetNewest then next else before
    let maxOff := if before = offsetNewest then next else (if next > before then before else next)
    scanLoop maxOff (fun _ => true)
      (fun acc msgs => (acc ++ ((msgs.takeWhile (fun m => decide (m.off < b))).map (·.off)), false))
      (fuelFor maxOff) l1 offsetOldest []

/-- `FindByCount`. -/
def findByCount (l : Log) (max : Int) : Log × Out (List Int) :=
  match l.stat with
  | (l1, .err e) => (l1, .err e)
  | (l1, .ok st) =>
    if st.messages ≤ max then (l1, .ok []) else
    match l1.nextOffset with
    | (l2, .err e) => (l2, .err e)
    | (l2, .ok next) =>
      let r := scanLoop next (fun (st : List Int × Int) => decide (st.2 > 0))
        (fun (acc, toRemove) msgs =>
          let take := msgs.take toRemove.toNat
          ((acc ++ take.map (·.off), toRemove - take.length), false))
        (fuelFor next) l2 offsetOldest ([], st.messages - max)
      match r with
      | (l3, .ok (acc, _)) => (l3, .ok acc)
      | (l3, .err e) => (l3, .err e)

/-- The inner loop of `FindBySize`: take messages until the running total drops below `sz`. -/
def takeSize (est : Msg → Int) (sz : Int) : Int → List Msg → List Msg × Int
  | total, [] => ([], total)
  | total, m :: ms =>
    let total' := total - est m
    if total' < sz then ([m], total')
    else let (r, t) := takeSize est sz total' ms; (m :: r, t)

/-- `log.Size(m)`. -/
def sizeOf (l : Log) (m : Msg) : Int := recSize l.opts.nsv m + l.opts.params.size

/-- `FindBySize`. -/
def findBySize (l : Log) (sz : Int) : Log × Out (List Int) :=
  match l.stat with
  | (l1, .err e) => (l1, .err e)
  | (l1, .ok st) =>
    if st.size < sz then (l1, .ok []) else
    match l1.nextOffset with
    | (l2, .err e) => (l2, .err e)
    | (l2, .ok next) =>
      let r := scanLoop next (fun (st : List Int × Int) => decide (st.2 ≥ sz))
        (fun (acc, total) msgs =>
          let (tk, total') := takeSize (sizeOf l) sz total msgs
          ((acc ++ tk.map (·.off), total'), false))
        (fuelFor next) l2 offsetOldest ([], st.size)
      match r with
      | (l3, .ok (acc, _)) => (l3, .ok acc)
      | (l3, .err e) => (l3, .err e)

/-- `OffsetByTime` as `FindByAge` uses it: `(offset, err)`. -/
def findByAge (l : Log) (before : Int) : Log × Out (List Int) :=
  let (l1, r) := l.getByTime before
  let bound : Log × Out Int := match r with
    | .ok m => (l1, .ok m.off)
    | .err .noIndex => l1.nextOffset
    | .err .notFound => l1.nextOffset
    | .err e => (l1, .err e)
  match bound with
  | (l2, .err e) => (l2, .err e)
  | (l2, .ok maxOff) =>
    scanLoop maxOff (fun _ => true)
      (fun acc msgs =>
        let tk := msgs.takeWhile (fun m => decide (m.time ≤ before))
        (acc ++ tk.map (·.off), decide (tk.length < msgs.length)))
      (fuelFor maxOff) l2 offsetOldest []

/-- `FindUpdates`: the radix tree `keyOffset` is an association list key ↦ last offset. -/
def updStep (st : List (List UInt8 × Int) × List Int) (m : Msg) :
    List (List UInt8 × Int) × List Int :=
  match st.1.lookup m.key with
  | some prev => ((m.key, m.off) :: st.1.filter (fun kv => kv.1 != m.key), st.2 ++ [prev])
  | none => ((m.key, m.off) :: st.1, st.2)

def findUpdates (l : Log) (before : Int) : Log × Out (List Int) :=
  match l.nextOffset with
  | (l1, .err e) => (l1, .err e)
  | (l1, .ok next) =>
    let r := scanLoop next (fun _ => true)
      (fun (st : List (List UInt8 × Int) × List Int) msgs =>
        let tk := msgs.takeWhile (fun m => decide (m.time ≤ before))
        (tk.foldl updStep st, decide (tk.length < msgs.length)))
      (fuelFor next) l1 offsetOldest ([], [])
    match r with
    | (l2, .ok (_, acc)) => (l2, .ok acc)
    | (l2, .err e) => (l2, .err e)

def delStep (st : List (List UInt8) × List Int) (m : Msg) : List (List UInt8) × List Int :=
  if st.1.contains m.key then st
  else if m.val = [] then (m.key :: st.1, st.2 ++ [m.off])
  else (m.key :: st.1, st.2)

def findDeletes (l : Log) (before : Int) : Log × Out (List Int) :=
  match l.nextOffset with
  | (l1, .err e) => (l1, .err e)
  | (l1, .ok next) =>
    let r := scanLoop next (fun _ => true)
      (fun (st : List (List UInt8) × List Int) msgs =>
        let tk := msgs.takeWhile (fun m => decide (m.time ≤ before))
        (tk.foldl delStep st, decide (tk.length < msgs.length)))
      (fuelFor next) l1 offsetOldest ([], [])
    match r with
    | (l2, .ok (_, acc)) => (l2, .ok acc)
    | (l2, .err e) => (l2, .err e)

/-- Result of a multi-pass delete: the error (if a pass failed), and the messages and
size deleted by the passes before it — `DeleteMulti` reports both. -/
structure MultiOut where
  err  : Option Err
  msgs : List Msg
  size : Int
deriving Repr

/-- `DeleteMulti`. -/
def deleteMultiLoop : Nat → Log → List Int → List Msg → Int → Log × MultiOut
  | 0, l, _, accM, accS => (l, ⟨some .panic, accM, accS⟩)
  | fuel + 1, l, remaining, accM, accS =>
    if remaining.isEmpty then (l, ⟨none, accM, accS⟩) else
    match l.delete remaining with
    | (l1, .err e) => (l1, ⟨some e, accM, accS⟩)
    | (l1, .ok (del, sz)) =>
      if del.isEmpty then (l1, ⟨none, accM, accS⟩)
      else deleteMultiLoop fuel l1 (remaining.filter (fun o => !(del.map (·.off)).contains o))
             (accM ++ del) (accS + sz)

def deleteMulti (l : Log) (offs : List Int) : Log × MultiOut :=
  deleteMultiLoop (offs.length + 1) l offs.eraseDups [] 0

def single (r : Log × Out (List Msg × Int)) : Log × MultiOut :=
  match r with
  | (l, .ok (ms, sz)) => (l, ⟨none, ms, sz⟩)
  | (l, .err e) => (l, ⟨some e, [], 0⟩)

/-- `Trim*` / `Compact*`: find, then `Delete` (single) or `DeleteMulti`. -/
def thenDelete (multi : Bool) (r : Log × Out (List Int)) : Log × MultiOut :=
  match r with
  | (l1, .err e) => (l1, ⟨some e, [], 0⟩)
  | (l1, .ok offs) => if multi then deleteMulti l1 offs else single (l1.delete offs)

end Helpers
end Klev
