/-
The in-segment searches of `pkg/index` (offset.go, times.go, keys.go) and the segment
selection of `pkg/segment/index.go`, written as the literal loops of the Go code:
same pre-checks, same `begin/end/mid` arithmetic, with a fuel argument in place of the
unbounded `for`. An out-of-range slice access of the Go code is the distinguished
result `.panic`; running out of fuel is `.diverged`. Theorems elsewhere show that
neither happens.
-/
import Klev.Basic
namespace Klev

/-- Result classes of `pkg/index` functions (the sentinel errors of that package). -/
inductive IErr
  | empty        -- ErrOffsetIndexEmpty  (wraps ErrInvalidOffset)
  | beforeStart  -- ErrOffsetBeforeStart (wraps ErrNotFound)
  | afterEnd     -- ErrOffsetAfterEnd    (wraps ErrInvalidOffset)
  | notFound     -- ErrOffsetNotFound    (wraps ErrNotFound)
  | timeEmpty    -- ErrTimeIndexEmpty    (wraps ErrInvalidOffset)
  | timeBefore   -- ErrTimeBeforeStart
  | timeAfter    -- ErrTimeAfterEnd
  | keyNotFound  -- ErrKeyNotFound       (wraps ErrNotFound)
  | panic        -- index out of range in the Go code
  | diverged     -- fuel exhausted (never: see `*_no_diverge`)
deriving DecidableEq, Repr, Inhabited

abbrev IRes (α : Type) := Except IErr α

/-- `items[i]` of the Go code with an `int` index: negative or too large panics. -/
def getI {α : Type} (l : List α) (i : Int) : IRes α :=
  if i < 0 then .error .panic else
  match l[i.toNat]? with
  | some x => .ok x
  | none => .error .panic

namespace Index

/-- The `for beginIndex <= endIndex` loop of `index.Consume`. -/
def consumeLoop (items : List Item) (off endPos : Int) : Nat → Int → Int → IRes (Int × Int)
  | 0, _, _ => .error .diverged
  | fuel + 1, b, e =>
    if b ≤ e then
      let mid := (b + e) / 2
      match getI items mid with
      | .error x => .error x
      | .ok it =>
        if it.off < off then consumeLoop items off endPos fuel (mid + 1) e
        else if it.off > off then consumeLoop items off endPos fuel b (mid - 1)
        else .ok (it.pos, endPos)
    else
      match getI items b with
      | .error x => .error x
      | .ok it => .ok (it.pos, endPos)

/-- `index.Consume(items, offset)`: `(position, maxPosition)`. -/
def consume (items : List Item) (off : Int) : IRes (Int × Int) :=
  match items.head?, items.getLast? with
  | some first, some last =>
    if off = offsetOldest then .ok (first.pos, last.pos)
    else if off = offsetNewest then .ok (last.pos, last.pos)
    else if off ≤ first.off then .ok (first.pos, last.pos)
    else if off > last.off then .error .afterEnd
    else if off = last.off then .ok (last.pos, last.pos)
    else consumeLoop items off last.pos (items.length + 1) 0 (items.length - 1)
  | _, _ => .error .empty

/-- The loop of `index.Get`. -/
def getLoop (items : List Item) (off : Int) : Nat → Int → Int → IRes Int
  | 0, _, _ => .error .diverged
  | fuel + 1, b, e =>
    if b ≤ e then
      let mid := (b + e) / 2
      match getI items mid with
      | .error x => .error x
      | .ok it =>
        if it.off < off then getLoop items off fuel (mid + 1) e
        else if it.off > off then getLoop items off fuel b (mid - 1)
        else .ok it.pos
    else .error .notFound

/-- `index.Get(items, offset)`: position of the item with exactly that offset. -/
def get (items : List Item) (off : Int) : IRes Int :=
  match items.head?, items.getLast? with
  | some first, some last =>
    if off = offsetOldest then .ok first.pos
    else if off = offsetNewest then .ok last.pos
    else if off < first.off then .error .beforeStart
    else if off = first.off then .ok first.pos
    else if off > last.off then .error .afterEnd
    else if off = last.off then .ok last.pos
    else getLoop items off (items.length + 1) 0 (items.length - 1)
  | _, _ => .error .empty

/-- `sort.Search(n, f)`: the loop of the Go standard library
(`i, j := 0, n; for i < j { h := int(uint(i+j) >> 1); if !f(h) { i = h+1 } else { j = h } }`). -/
def sortSearch (items : List Item) (ts : Int) : Nat → Nat → Nat → Nat
  | 0, i, _ => i
  | fuel + 1, i, j =>
    if i < j then
      let h := (i + j) / 2
      match items[h]? with
      | some it => if ¬ (it.ts ≥ ts) then sortSearch items ts fuel (h + 1) j
                   else sortSearch items ts fuel i h
      | none => i
    else i

/-- `sort.Search(n, f)` of the Go standard library for an arbitrary predicate on `int`
(library model, trusted; the translated `index.Time` calls it). -/
def sortSearchP (f : Int → Bool) : Nat → Int → Int → Int
  | 0, i, _ => i
  | fuel + 1, i, j =>
    if i < j then
      let h := (i + j) / 2
      if !f h then sortSearchP f fuel (h + 1) j else sortSearchP f fuel i h
    else i

/-- `index.Time(items, ts)`: position of the first item whose timestamp is `≥ ts`. -/
def time (items : List Item) (ts : Int) : IRes Int :=
  match items.head?, items.getLast? with
  | some first, some last =>
    if ts < first.ts then .error .timeBefore
    else if ts = first.ts then .ok first.pos
    else if last.ts < ts then .error .timeAfter
    else
      match getI items (sortSearch items ts (items.length + 1) 0 items.length) with
      | .error x => .error x
      | .ok it => .ok it.pos
  | _, _ => .error .timeEmpty

/-- `index.Keys` over the tree built by `AppendKeys`: the positions of the items with
that hash, in item order (the radix tree is modelled as this association; trusted). -/
def keys (items : List Item) (h : UInt64) : IRes (List Int) :=
  match (items.filter (fun it => it.kh == h)).map (·.pos) with
  | [] => .error .keyNotFound
  | ps => .ok ps

end Index

namespace SegSearch

/-- The `for beginIndex < endIndex` loop shared by `segment.Consume` and `segment.Get`,
including the final adjustment. `bases` are the segments' base offsets. -/
def loop (bases : List Int) (off : Int) : Nat → Int → Int → IRes Int
  | 0, _, _ => .error .diverged
  | fuel + 1, b, e =>
    if b < e then
      let mid := (b + e) / 2
      match getI bases mid with
      | .error x => .error x
      | .ok mb =>
        if mb < off then loop bases off fuel (mid + 1) e
        else if mb > off then loop bases off fuel b (mid - 1)
        else .ok mid
    else
      match getI bases b with
      | .error x => .error x
      | .ok bb =>
        if bb > off then
          match getI bases (b - 1) with
          | .error x => .error x
          | .ok _ => .ok (b - 1)
        else .ok b

/-- `segment.Consume(segments, offset)`: index of the segment to start consuming in. -/
def consume (bases : List Int) (off : Int) : IRes Int :=
  match bases.head?, bases.getLast? with
  | some first, some last =>
    if off = offsetOldest then .ok 0
    else if off = offsetNewest then .ok (bases.length - 1)
    else if off ≤ first then .ok 0
    else if last ≤ off then .ok (bases.length - 1)
    else loop bases off (bases.length + 1) 0 (bases.length - 1)
  | _, _ => .error .panic   -- segments[0] on an empty slice

inductive GetErr | relative | beforeStart
deriving DecidableEq, Repr

/-- `segment.Get(segments, offset)`. -/
def get (bases : List Int) (off : Int) : IRes (Except GetErr Int) :=
  match bases.head?, bases.getLast? with
  | some first, some last =>
    if off = offsetOldest then .ok (.ok 0)
    else if off = offsetNewest then .ok (.ok (bases.length - 1))
    else if off < first then
      (if first = 0 then .ok (.error .relative) else .ok (.error .beforeStart))
    else if off = first then .ok (.ok 0)
    else if last ≤ off then .ok (.ok (bases.length - 1))
    else match loop bases off (bases.length + 1) 0 (bases.length - 1) with
      | .ok i => .ok (.ok i)
      | .error x => .error x
  | _, _ => .error .panic

end SegSearch
end Klev
