/-
Losing unsynced data at record level (C06).

Sealed segments were fsynced when the head rolled over, rewritten files before they were
renamed in (regenerated facts `rolloverSyncsOldHead`, `syncBeforeRename`), so only the head's
two files can lose a tail: the log keeps its first `j` whole records (a cut inside a record is
the byte-level matter of `Proofs/TornAppend.lean`: Recover removes the fragment), the index
file may be left in any state at all.
-/
import Klev.Model
namespace Klev.Loss
open Klev

/-- The directory after a power loss: the head log cut back to its first `j` records, the
head index file replaced by anything (`none` = missing). -/
def lossState (l : Log) (j : Nat) (idx : Option IdxFile) : List SegDisk :=
  mapLast (fun s => { s with recs := s.recs.take j, idxf := idx }) l.disk

/-- What Sync acknowledged when the head held `n` records: one past the `n`-th record of the
head (the head's base if `n = 0`). -/
def ackAfter (l : Log) (n : Nat) : Int :=
  match l.segs.getLast? with
  | some h => (match (h.recs.take n).getLast? with | some m => m.off + 1 | none => h.base)
  | none => 0

end Klev.Loss
