/-
L1 — the mechanism of klevdb at record level.

A segment is its base offset, the version and the records of its log file (in file
order), its index file (absent, or a version and a list of items) and the reader's
in-memory index (absent until first use, dropped by GC). Record positions are the real
byte positions (file header + sizes of the preceding records); a read goes
index → position → record at that position, as in the Go code. The byte level below
this (that a log file with these records decodes to them at these positions) is
`Klev/Codec.lean` + `Klev/Scan.lean`.

Each function mirrors one Go function; the names say which.
-/
import Klev.Basic
import Klev.Fnv
import Klev.Index
namespace Klev

/-- An index file: its version and its items. (V2 header-only ≡ `⟨.v2, []⟩`, an empty V1
file ≡ `⟨.v1, []⟩`.) -/
structure IdxFile where
  ver   : Ver
  items : List Item
deriving DecidableEq, Repr, Inhabited

structure Seg where
  base : Int
  ver  : Ver
  recs : List Msg
  idxf : Option IdxFile
  mem  : Option (List Item)     -- reader index in memory (head: the writer's index)
deriving DecidableEq, Repr, Inhabited

/-- Options that matter after `Open` (Check/Recover/CreateDirs only act inside `Open`). -/
structure Opts where
  readonly : Bool
  params   : Params
  autosync : Bool
  rollover : Int
  nsv      : Ver      -- NewSegmentsVersion
  keep     : Bool     -- KeepRewriteVersion
deriving DecidableEq, Repr, Inhabited

/-- An open log. `segs` is never empty; the last one is the head. For a read-write log
`wNextOff/wNextTime` are the writer index's `nextOffset/nextTime`. -/
structure Log where
  opts      : Opts
  segs      : List Seg
  wNextOff  : Int
  wNextTime : Int
deriving DecidableEq, Repr, Inhabited

/-! ### files -/

/-- `(position, record)` for every record of a log file. -/
def layoutFrom (v : Ver) : Int → List Msg → List (Int × Msg)
  | _, [] => []
  | p, m :: ms => (p, m) :: layoutFrom v (p + recSize v m) ms

def layout (v : Ver) (recs : List Msg) : List (Int × Msg) := layoutFrom v (hdrSize v) recs

def sizeFrom (v : Ver) : Int → List Msg → Int
  | p, [] => p
  | p, m :: ms => sizeFrom v (p + recSize v m) ms

/-- Size in bytes of a log file. -/
def logSize (v : Ver) (recs : List Msg) : Int := sizeFrom v (hdrSize v) recs

/-- Size in bytes of an index file. -/
def idxSize (p : Params) (f : IdxFile) : Int := hdrSize f.ver + p.size * f.items.length

/-- `Params.NewItem`. The hash is the real FNV-1a; no proof unfolds it. -/
def newItem (p : Params) (m : Msg) (pos prevts : Int) : Item :=
  { off := m.off, pos := pos,
    ts := if p.times then max m.time prevts else 0,
    kh := if p.keys then fnv1a m.key else 0 }

/-- The index a scan of the file produces, `indexTime` starting at `ts0`
(Check, Recover, Reindex, Rewrite and Migrate start at 0; a writer continues). -/
def deriveFrom (p : Params) : Int → List (Int × Msg) → List Item
  | _, [] => []
  | ts, (pos, m) :: rest =>
    let it := newItem p m pos ts
    it :: deriveFrom p it.ts rest

def derive (p : Params) (v : Ver) (recs : List Msg) : List Item :=
  deriveFrom p 0 (layout v recs)

/-- `message.Reader.Get(position)`: the record at a position, if one starts there. -/
def readAt (s : Seg) (pos : Int) : Option Msg :=
  ((layout s.ver s.recs).find? (fun pm => pm.1 == pos)).map (·.2)

/-- `message.Reader.Consume(position, maxPosition, maxCount)`. -/
def consumeFile (s : Seg) (pos maxPos : Int) (mc : Nat) : List Msg :=
  ((((layout s.ver s.recs).dropWhile (fun pm => pm.1 != pos)).takeWhile
      (fun pm => pm.1 ≤ maxPos)).take mc).map (·.2)

/-! ### reader side -/

def lastOffOr (items : List Item) (dflt : Int) : Int :=
  match items.getLast? with
  | some it => it.off + 1
  | none => dflt

/-- Index version a (re)built index file gets: `index.Write` writes a fresh file (temp file
renamed in) with the requested version's header, whatever was there before. -/
def rebuiltIdxVer (_existing : Option IdxFile) (want : Ver) : Ver := want

def needsReindex (s : Seg) : Bool :=
  match s.idxf with
  | none => true
  | some f => f.items.isEmpty

/-- `Segment.ReindexAndReadIndex`: items and the (possibly rewritten) index file. -/
def reindexAndRead (p : Params) (want : Ver) (s : Seg) : List Item × Option IdxFile :=
  if needsReindex s then
    let its := derive p s.ver s.recs
    (its, some ⟨rebuiltIdxVer s.idxf want, its⟩)
  else
    match s.idxf with
    | some f => (f.items, s.idxf)
    | none => ([], none)  -- unreachable

/-- `reader.getIndexNow`: load lazily. -/
def loadIndex (o : Opts) (s : Seg) : Seg × List Item :=
  match s.mem with
  | some its => (s, its)
  | none =>
    let (its, f) := reindexAndRead o.params o.nsv s
    ({ s with idxf := f, mem := some its }, its)

/-- What kind of reader a segment has: the head of a read-write log answers from the
writer index (`nextOffset` is the writer's), the head of a read-only log and plain
readers from a `readerIndex`. -/
structure RCtx where
  head    : Bool
  nextOff : Int      -- the index's nextOffset
deriving Repr

def rctx (l : Log) (isLast : Bool) (s : Seg) (items : List Item) : RCtx :=
  if isLast then
    if l.opts.readonly then ⟨true, lastOffOr items s.base⟩ else ⟨true, l.wNextOff⟩
  else ⟨false, lastOffOr items s.base⟩

inductive ROut (α : Type)
  | ok (a : α)
  | ierr (e : IErr)          -- a `pkg/index` sentinel, as returned
  | invalid                   -- plain message.ErrInvalidOffset
  | corrupt                   -- a position the index names holds no record
deriving Repr

/-- `readerIndex.Consume` / `writerIndex.Consume`. -/
def ixConsume (c : RCtx) (items : List Item) (off : Int) : IRes (Int × Int × Int) :=
  match Index.consume items off with
  | .ok (p, mp) => .ok (p, mp, off)
  | .error e =>
    if (e = .empty ∨ e = .afterEnd) ∧ c.head ∧ off ≤ c.nextOff then .ok (-1, -1, c.nextOff)
    else .error e

/-- `reader.Consume`. -/
def readerConsume (c : RCtx) (s : Seg) (items : List Item) (off : Int) (mc : Nat) :
    ROut (Int × List Msg) :=
  if off = offsetNewest then .ok (c.nextOff, [])
  else match ixConsume c items off with
  | .error e => .ierr e
  | .ok (pos, maxPos, nxt) =>
    if pos = -1 then .ok (nxt, [])
    else
      match (consumeFile s pos maxPos mc).getLast? with
      | none => .corrupt
      | some lm => .ok (lm.off + 1, consumeFile s pos maxPos mc)

/-- `readerIndex.Get` / `writerIndex.Get`. -/
def ixGet (c : RCtx) (items : List Item) (off : Int) : ROut Int :=
  match Index.get items off with
  | .ok p => .ok p
  | .error e =>
    if e = .afterEnd ∧ c.head ∧ off ≥ c.nextOff then .invalid else .ierr e

/-- `reader.Get`. -/
def readerGet (c : RCtx) (s : Seg) (items : List Item) (off : Int) : ROut Msg :=
  match ixGet c items off with
  | .ok p => match readAt s p with
    | some m => .ok m
    | none => .corrupt
  | .ierr e => .ierr e
  | .invalid => .invalid
  | .corrupt => .corrupt

def readAll (s : Seg) : List Int → Option (List Msg)
  | [] => some []
  | p :: ps => match readAt s p, readAll s ps with
    | some m, some ms => some (m :: ms)
    | _, _ => none

/-- `reader.GetByKey`: last candidate whose stored key is byte-equal. -/
def readerGetByKey (s : Seg) (items : List Item) (key : List UInt8) : ROut Msg :=
  match Index.keys items (fnv1a key) with
  | .error e => .ierr e
  | .ok ps =>
    -- candidates are read last-to-first until one matches; a failed read is an error
    let rec go : List Int → ROut Msg
      | [] => .ierr .keyNotFound
      | p :: rest => match readAt s p with
        | none => .corrupt
        | some m => if m.key = key then .ok m else go rest
    go ps.reverse

/-- `reader.GetByTime`. -/
def readerGetByTime (s : Seg) (items : List Item) (ts : Int) : ROut Msg :=
  match Index.time items ts with
  | .error e => .ierr e
  | .ok p => match readAt s p with
    | some m => .ok m
    | none => .corrupt

/-- `reader.ConsumeByKey`. -/
def readerConsumeByKey (c : RCtx) (s : Seg) (items : List Item) (key : List UInt8)
    (off : Int) (mc : Int) : ROut (Int × List Msg) :=
  if off = offsetNewest then .ok (c.nextOff, [])
  else match Index.keys items (fnv1a key) with
  | .error .keyNotFound => .ok (c.nextOff, [])
  | .error e => .ierr e
  | .ok ps =>
    let rec go : List Int → List Msg → Option (List Msg)
      | [], acc => some acc.reverse
      | p :: rest, acc => match readAt s p with
        | none => none
        | some m =>
          if m.off < off then go rest acc
          else if m.key = key then
            (if ((m :: acc).length : Int) ≥ mc then some (m :: acc).reverse else go rest (m :: acc))
          else go rest acc
    match go ps [] with
    | none => .corrupt
    | some [] => .ok (c.nextOff, [])
    | some ms => match ms.getLast? with
      | some lm => .ok (lm.off + 1, ms)
      | none => .ok (c.nextOff, [])

/-! ### log: reads (every read may load an index, hence returns the new log) -/

def bases (l : Log) : List Int := l.segs.map (·.base)

def setSeg (l : Log) (i : Nat) (s : Seg) : Log := { l with segs := l.segs.set i s }

/-- Load the index of segment `i`. -/
def withIndex (l : Log) (i : Nat) : Option (Log × Seg × List Item × RCtx) :=
  match l.segs[i]? with
  | none => none
  | some s =>
    let (s', its) := loadIndex l.opts s
    some (setSeg l i s', s', its, rctx l (i + 1 == l.segs.length) s' its)

inductive Out (α : Type)
  | ok (a : α)
  | err (e : Err)
deriving Repr, DecidableEq

def ierrClass : IErr → Err
  | .empty => .invalidOffset | .beforeStart => .notFound | .afterEnd => .invalidOffset
  | .notFound => .notFound | .timeEmpty => .invalidOffset | .timeBefore => .other
  | .timeAfter => .other | .keyNotFound => .notFound | .panic => .panic | .diverged => .panic

def ROut.toOut {α : Type} : ROut α → Out α
  | .ok a => .ok a
  | .ierr e => .err (ierrClass e)
  | .invalid => .err .invalidOffset
  | .corrupt => .err .logCorrupt

/-- `log.Consume`. -/
def Log.consume (l : Log) (off : Int) (mc : Nat) : Log × Out (Int × List Msg) :=
  match SegSearch.consume (bases l) off with
  | .error _ => (l, .err .panic)
  | .ok i =>
    match withIndex l i.toNat with
    | none => (l, .err .panic)
    | some (l1, s, its, c) =>
      match readerConsume c s its off mc with
      | .ierr .afterEnd =>
        if i.toNat + 1 < l.segs.length then
          match withIndex l1 (i.toNat + 1) with
          | none => (l1, .err .panic)
          | some (l2, s2, its2, c2) => (l2, (readerConsume c2 s2 its2 offsetOldest mc).toOut)
        else (l1, .err .invalidOffset)
      | r => (l1, r.toOut)

/-- `log.Get` (with the repair for `OffsetNewest` on an empty head: the previous
segment answers). -/
def Log.get (l : Log) (off : Int) : Log × Out Msg :=
  match SegSearch.get (bases l) off with
  | .error _ => (l, .err .panic)
  | .ok (.error .relative) => (l, .err .invalidOffset)
  | .ok (.error .beforeStart) => (l, .err .notFound)
  | .ok (.ok i) =>
    match withIndex l i.toNat with
    | none => (l, .err .panic)
    | some (l1, s, its, c) =>
      match readerGet c s its off with
      | .ierr .afterEnd =>
        if i.toNat + 1 < l.segs.length then (l1, .err .notFound) else (l1, .err .invalidOffset)
      | .ierr .empty =>
        if off = offsetNewest ∧ 0 < i.toNat then
          match withIndex l1 (i.toNat - 1) with
          | none => (l1, .err .panic)
          | some (l2, s2, its2, c2) => (l2, (readerGet c2 s2 its2 off).toOut)
        else (l1, .err .invalidOffset)
      | r => (l1, r.toOut)

/-- `log.GetByKey`: newest segment to oldest. -/
def Log.getByKey (l : Log) (key : List UInt8) : Log × Out Msg :=
  if ¬ l.opts.params.keys then (l, .err .noIndex) else
  let rec go (l : Log) : Nat → Log × Out Msg
    | 0 => (l, .err .notFound)
    | i + 1 =>
      match withIndex l i with
      | none => (l, .err .panic)
      | some (l1, s, its, _) =>
        match readerGetByKey s its key with
        | .ok m => (l1, .ok m)
        | .ierr .keyNotFound => go l1 i
        | r => (l1, r.toOut)
  go l l.segs.length

/-- `log.GetByTime`: newest segment to oldest, with the before-start / after-end
hand-offs (and the repairs: an empty head is skipped; a tie with the first timestamp of
a segment continues in the previous one). -/
def Log.getByTime (l : Log) (ts : Int) : Log × Out Msg :=
  if ¬ l.opts.params.times then (l, .err .noIndex) else
  let n := l.segs.length
  let rec go (l : Log) : Nat → Log × Out Msg
    | 0 => (l, .err .notFound)
    | i + 1 =>
      match withIndex l i with
      | none => (l, .err .panic)
      | some (l1, s, its, c) =>
        match readerGetByTime s its ts with
        | .ok m =>
          -- first record of the segment: an equal timestamp may end the previous segment
          if 0 < i ∧ m.off = s.base then go l1 i else (l1, .ok m)
        | .ierr .timeEmpty =>
          if i = 0 then (l1, .err .invalidOffset) else go l1 i
        | .ierr .timeBefore =>
          if i = 0 then (l1, (readerGet c s its offsetOldest).toOut) else go l1 i
        | .ierr .timeAfter =>
          if i + 1 < n then
            match withIndex l1 (i + 1) with
            | none => (l1, .err .panic)
            | some (l2, s2, its2, c2) =>
              match readerGet c2 s2 its2 offsetOldest with
              | .ierr .empty => (l2, .err .notFound)
              | r => (l2, r.toOut)
          else (l1, .err .notFound)
        | r => (l1, r.toOut)
  go l n

/-- `log.ConsumeByKey`. -/
def Log.consumeByKey (l : Log) (key : List UInt8) (off : Int) (mc : Int) :
    Log × Out (Int × List Msg) :=
  if ¬ l.opts.params.keys then (l, .err .noIndex) else
  match SegSearch.consume (bases l) off with
  | .error _ => (l, .err .panic)
  | .ok i0 =>
    let rec go (l : Log) (i : Nat) (off : Int) : Nat → Log × Out (Int × List Msg)
      | 0 => (l, .err .panic)
      | fuel + 1 =>
        match withIndex l i with
        | none => (l, .err .panic)
        | some (l1, s, its, c) =>
          match readerConsumeByKey c s its key off mc with
          | .ok (nxt, ms) =>
            if ms ≠ [] then (l1, .ok (nxt, ms))
            else if i + 1 ≥ l1.segs.length then (l1, .ok (nxt, ms))
            else go l1 (i + 1) offsetOldest fuel
          | r => (l1, r.toOut)
    go l i0.toNat off (l.segs.length + 1)

/-- The head reader's `GetNextOffset` (read-only) or the writer's. -/
def Log.nextOffset (l : Log) : Log × Out Int :=
  if l.opts.readonly then
    match withIndex l (l.segs.length - 1) with
    | none => (l, .err .panic)
    | some (l1, _, _, c) => (l1, .ok c.nextOff)
  else (l, .ok l.wNextOff)

structure Stats where
  segments : Int
  messages : Int
  size     : Int
deriving DecidableEq, Repr, Inhabited

/-- `reader.Stat` with the repair: a missing index file is rebuilt first. -/
def segStat (o : Opts) (s : Seg) : Seg × Option Stats :=
  let s1 := match s.idxf with
    | none => (loadIndex o s).1
    | some _ => s
  match s1.idxf with
  | none => (s1, none)
  | some f => (s1, some ⟨1, f.items.length, logSize s1.ver s1.recs + idxSize o.params f⟩)

/-- `log.Stat`. -/
def Log.stat (l : Log) : Log × Out Stats :=
  let rec go (o : Opts) : List Seg → List Seg × Option Stats
    | [] => ([], some ⟨0, 0, 0⟩)
    | s :: rest =>
      let (s1, st) := segStat o s
      match st with
      | none => (s1 :: rest, none)
      | some a =>
        let (rest1, st2) := go o rest
        match st2 with
        | none => (s1 :: rest1, none)
        | some b => (s1 :: rest1, some ⟨a.segments + b.segments, a.messages + b.messages, a.size + b.size⟩)
  let (segs, st) := go l.opts l.segs
  match st with
  | some a => ({ l with segs := segs }, .ok a)
  | none =>
    -- a read-only log over an empty directory: the missing segment counts as nothing
    if l.opts.readonly ∧ l.segs.length = 1 then ({ l with segs := segs }, .ok ⟨0, 0, 0⟩)
    else ({ l with segs := segs }, .err .other)

/-- `log.GC(0)`: every non-head reader drops its index. -/
def Log.gc (l : Log) : Log :=
  { l with segs := l.segs.zipIdx.map (fun (s, i) =>
      if i + 1 == l.segs.length then s else { s with mem := none }) }

/-! ### publish -/

/-- `openWriter` on a segment file that is new or empty or existing: the resulting head
segment (index loaded or rebuilt) and the writer's `nextOffset/nextTime`. -/
def openWriter (o : Opts) (s : Seg) (nextTime : Int) : Seg × Int × Int :=
  -- message.OpenWriter: an empty (0 byte) file gets the header of the requested version
  let lver := if s.recs.isEmpty ∧ s.ver = .v1 then o.nsv else s.ver
  let s := { s with ver := lver }
  -- writer index: read or rebuild only when the log has records
  let (items, idxf1) :=
    if s.recs.isEmpty then (([] : List Item), s.idxf)
    else reindexAndRead o.params o.nsv s
  -- index.OpenWriter: creates the file (requested version) when missing or 0 bytes
  let idxf2 : Option IdxFile := match idxf1 with
    | none => some ⟨o.nsv, []⟩
    | some ⟨.v1, []⟩ => some ⟨o.nsv, []⟩
    | some f => some f
  let nOff := lastOffOr items s.base
  let nTime := match items.getLast? with
    | some it => it.ts
    | none => nextTime
  ({ s with idxf := idxf2, mem := some items }, nOff, nTime)

def emptySeg (base : Int) : Seg := { base := base, ver := .v1, recs := [], idxf := none, mem := none }

/-- `writer.NeedsRollover` (with the repair: an empty head never rolls). -/
def needsRollover (o : Opts) (s : Seg) : Bool :=
  decide (logSize s.ver s.recs > o.rollover) && !s.recs.isEmpty

/-- The loop of `writer.Publish`: records, positions, items. -/
def stamp (p : Params) (v : Ver) : Int → Int → Int → List (Int × List UInt8 × List UInt8) →
    List Msg × List Item
  | _, _, _, [] => ([], [])
  | off, pos, ts, (t, k, vl) :: rest =>
    let m : Msg := ⟨off, t, k, vl⟩
    let it := newItem p m pos ts
    let (ms, its) := stamp p v (off + 1) (pos + recSize v m) it.ts rest
    (m :: ms, it :: its)

/-- The rollover at the start of `log.Publish`: the old head becomes a reader (keeping the
writer's index snapshot), a new empty head opens at the next offset. -/
def Log.rollover (l : Log) : Log :=
  match l.segs.getLast? with
  | none => l
  | some h =>
    if needsRollover l.opts h then
      let r := openWriter l.opts (emptySeg l.wNextOff) l.wNextTime
      { l with segs := l.segs.dropLast ++ [h, r.1], wNextOff := r.2.1, wNextTime := r.2.2 }
    else l

/-- `writerIndex.append`: next offset and next time after appending items. -/
def lastOffTs (its : List Item) (dOff dTs : Int) : Int × Int :=
  match its.getLast? with
  | some it => (it.off + 1, it.ts)
  | none => (dOff, dTs)

/-- `writer.Publish`: append the batch to the head (records, index file, writer index). -/
def Log.append (l : Log) (batch : List (Int × List UInt8 × List UInt8)) : Log × Out Int :=
  match l.segs.getLast? with
  | none => (l, .err .panic)
  | some h1 =>
    let st := stamp l.opts.params h1.ver l.wNextOff (logSize h1.ver h1.recs) l.wNextTime batch
    let h2 : Seg := { h1 with
      recs := h1.recs ++ st.1,
      idxf := h1.idxf.map (fun f => { f with items := f.items ++ st.2 }),
      mem := h1.mem.map (· ++ st.2) }
    let nx : Int × Int := lastOffTs st.2 l.wNextOff l.wNextTime
    ({ l with segs := l.segs.dropLast ++ [h2], wNextOff := nx.1, wNextTime := nx.2 }, .ok nx.1)

/-- `log.Publish` with effective times already resolved. -/
def Log.publish (l : Log) (batch : List (Int × List UInt8 × List UInt8)) : Log × Out Int :=
  if l.opts.readonly then (l, .err .readonly) else l.rollover.append batch

/-! ### delete -/

structure Rewrite where
  ver      : Ver              -- version of the rewritten log
  iver     : Ver
  survive  : List Msg
  deleted  : List Msg
  delSize  : Int
deriving Repr

/-- `Segment.Rewrite`. -/
def rewrite (p : Params) (s : Seg) (drop : List Int) (mver iver : Ver) : Rewrite :=
  let deleted := s.recs.filter (fun m => drop.contains m.off)
  { ver := mver, iver := iver,
    survive := s.recs.filter (fun m => !drop.contains m.off),
    deleted := deleted,
    delSize := (deleted.map (fun m => recSize s.ver m + p.size)).sum }

def minOff : List Int → Int
  | [] => offsetInvalid
  | x :: xs => xs.foldl min x

/-- The segment a rewrite result becomes once renamed in: base = lowest survivor. -/
def rewrittenSeg (p : Params) (rw : Rewrite) : Seg :=
  { base := minOff (rw.survive.map (·.off)), ver := rw.ver, recs := rw.survive,
    idxf := some ⟨rw.iver, derive p rw.ver rw.survive⟩, mem := none }

/-- `segs[0,i) ++ new ++ segs(i, …)`: the segment list after segment `i` was swapped out. -/
def replaceAt (segs : List Seg) (i : Nat) (new : List Seg) : List Seg :=
  segs.take i ++ new ++ segs.drop (i + 1)

/-- `reader.Delete`: a reader segment is dropped (nothing survives) or replaced by the
rewritten one (renamed to its lowest surviving offset). -/
def swapReader (l : Log) (i : Nat) (rw : Rewrite) : Log :=
  if rw.survive.isEmpty then { l with segs := replaceAt l.segs i [] }
  else { l with segs := replaceAt l.segs i [rewrittenSeg l.opts.params rw] }

/-- The last offset the writer index knows (`writerIndex.getLastOffset`). -/
def headLastOff (s : Seg) : Int :=
  match s.mem.bind (·.getLast?) with
  | some it => it.off
  | none => offsetInvalid

def tailDeleted (s : Seg) (rw : Rewrite) : Bool :=
  match rw.deleted.getLast? with
  | some d => d.off == headLastOff s
  | none => false

/-- `writer.Delete`: nothing survives → a fresh empty head at the next offset; the tail was
deleted → the rewritten segment becomes a reader and a fresh empty head opens at the next
offset; otherwise the rewritten segment is reopened as the head. -/
def swapHead (l : Log) (i : Nat) (s : Seg) (rw : Rewrite) : Log :=
  if rw.survive.isEmpty then
    let r := openWriter l.opts (emptySeg l.wNextOff) l.wNextTime
    { l with segs := replaceAt l.segs i [r.1], wNextOff := r.2.1, wNextTime := r.2.2 }
  else if tailDeleted s rw then
    let r := openWriter l.opts (emptySeg l.wNextOff) l.wNextTime
    { l with segs := replaceAt l.segs i [rewrittenSeg l.opts.params rw, r.1],
             wNextOff := r.2.1, wNextTime := r.2.2 }
  else
    let r := openWriter l.opts (rewrittenSeg l.opts.params rw) l.wNextTime
    { l with segs := replaceAt l.segs i [r.1], wNextOff := r.2.1, wNextTime := r.2.2 }

/-- `findDeleteReader`: the segment holding the lowest requested offset. -/
def deleteTarget (l : Log) (offs : List Int) : Except Err Nat :=
  let lowest := minOff offs
  if lowest < 0 then .error .invalidOffset else
  match SegSearch.get (bases l) lowest with
  | .error _ => .error .panic
  | .ok (.error .relative) => .error .invalidOffset
  | .ok (.error .beforeStart) => .error .notFound
  | .ok (.ok iI) => .ok iI.toNat

/-- `log.Delete` / `log.delete`. Returns the deleted messages and their size. -/
def Log.delete (l : Log) (offs : List Int) : Log × Out (List Msg × Int) :=
  if l.opts.readonly then (l, .err .readonly) else
  if offs.isEmpty then (l, .ok ([], 0)) else
  match deleteTarget l offs with
  | .error e => (l, .err e)
  | .ok i =>
    match l.segs[i]? with
    | none => (l, .err .panic)
    | some s =>
      -- rewrite in the segment's own version (KeepRewriteVersion) or in NewSegmentsVersion
      let mver := if l.opts.keep then s.ver else l.opts.nsv
      let rw := rewrite l.opts.params s offs mver mver
      if rw.deleted.isEmpty then (l, .ok ([], 0))
      else if i + 1 == l.segs.length then (swapHead l i s rw, .ok (rw.deleted, rw.delSize))
      else (swapReader l i rw, .ok (rw.deleted, rw.delSize))

/-! ### open / close -/

/-- A segment as found on disk. -/
structure SegDisk where
  base : Int
  ver  : Ver
  recs : List Msg
  idxf : Option IdxFile
deriving DecidableEq, Repr, Inhabited

def Seg.toDisk (s : Seg) : SegDisk := ⟨s.base, s.ver, s.recs, s.idxf⟩
def SegDisk.toSeg (d : SegDisk) : Seg := ⟨d.base, d.ver, d.recs, d.idxf, none⟩

/-- Closing keeps the files. -/
def Log.disk (l : Log) : List SegDisk := l.segs.map Seg.toDisk

/-- Items of an index file as `index.Read` returns them for `Check`/`Recover`. -/
def idxItems (d : SegDisk) : Option (List Item) := d.idxf.map (·.items)

/-- `Segment.Check` on a segment whose log parses: the index, if present, must equal
the derived one. -/
def segCheck (p : Params) (d : SegDisk) : Bool :=
  match d.idxf with
  | none => true
  | some f => f.items == derive p d.ver d.recs

/-- `Segment.Recover` on a segment whose log parses completely: only a differing index
is rewritten (same index version). -/
def segRecover (p : Params) (d : SegDisk) : SegDisk :=
  match d.idxf with
  | none => d
  | some f =>
    if f.items == derive p d.ver d.recs then d
    else { d with idxf := some ⟨f.ver, derive p d.ver d.recs⟩ }

/-- `Segment.Migrate`. -/
def segMigrate (p : Params) (mv iv : Ver) (d : SegDisk) : SegDisk :=
  -- an empty V1 log file (0 bytes) reads as V1
  if d.ver = mv then d
  else { d with ver := mv, idxf := some ⟨iv, derive p mv d.recs⟩ }

structure OpenOpts where
  opts    : Opts
  check   : Bool
  recover : Bool
  eager   : Bool
deriving Repr

def mapLast {α : Type} (f : α → α) : List α → List α
  | [] => []
  | [x] => [f x]
  | x :: xs => x :: mapLast f xs

/-- `Open` on a directory whose files all parse (the byte-level cases are in
`Klev/SegBytes.lean`). -/
def Log.open (disk : List SegDisk) (oo : OpenOpts) : Out Log :=
  let o := oo.opts
  if o.readonly then
    match disk.getLast? with
    | none =>
      -- a reopened reader over a segment that does not exist, with an empty index
      .ok { opts := o, segs := [{ emptySeg 0 with mem := some [] }], wNextOff := 0, wNextTime := 0 }
    | some h =>
      if (oo.check ∨ oo.recover) ∧ ¬ segCheck o.params h then .err .indexCorrupt
      else .ok { opts := o, segs := disk.map SegDisk.toSeg, wNextOff := 0, wNextTime := 0 }
  else
    match disk.getLast? with
    | none =>
      let (h, nOff, nTime) := openWriter o (emptySeg 0) 0
      .ok { opts := o, segs := [h], wNextOff := nOff, wNextTime := nTime }
    | some h =>
      if ¬ oo.recover ∧ oo.check ∧ ¬ segCheck o.params h then .err .indexCorrupt else
      let d1 := if oo.recover then mapLast (segRecover o.params) disk else disk
      let d2 := if oo.eager then d1.map (segMigrate o.params o.nsv o.nsv) else d1
      match d2.getLast? with
      | none => .err .panic
      | some h2 =>
        let (hs, nOff, nTime) := openWriter o h2.toSeg 0
        .ok { opts := o, segs := (d2.dropLast.map SegDisk.toSeg) ++ [hs],
              wNextOff := nOff, wNextTime := nTime }

end Klev
