/-
The notifier of `pkg/notify` (blocking consume, C18) as an interleaving semantics.

`Wait`, `Set` and `Close` are lists of instructions — one per synchronisation-relevant
statement of `notify.go`. The lists the proofs are about (`waitProg`, `setProg`,
`closeProg`) must equal the lists the translator T2 regenerates from the current source
(`Klev.Gen.waitProg` …): that is the obligation `notify_prog_eq` in Props/C18.

Channel semantics used (trusted, Go spec): `barrier` is a buffered channel of capacity 1
holding the current signal channel (the "token"); a receive blocks while it is open and
empty and returns `ok = false` once it is closed; a signal channel is only ever closed;
a receive from a closed signal channel succeeds; sending on / closing a closed channel
panics.
-/
namespace Klev.Notify

inductive Ret | nil | errClosed | ctxErr | none_   -- `none_`: Set returns nothing
deriving DecidableEq, Repr

inductive Instr
  | fastPath        -- if w.nextOffset.Load() > offset { return nil }
  | recvBarrier     -- b, ok := <-w.barrier
  | ifNotOkRet (r : Ret)   -- if !ok { return r }
  | probe           -- updated := w.nextOffset.Load() > offset
  | sendBarrierB    -- w.barrier <- b
  | ifUpdRetNil     -- if updated { return nil }
  | selectWait      -- select { case <-b: return nil; case <-ctx.Done(): return ctx.Err() }
  | storeMax        -- if w.nextOffset.Load() < nextOffset { w.nextOffset.Store(nextOffset) }
  | closeB          -- close(b)
  | sendBarrierNew  -- w.barrier <- make(chan struct{})
  | closeBarrier    -- close(w.barrier)
  | ret (r : Ret)   -- return r
deriving DecidableEq, Repr

/-- `Offset.Wait`. -/
def waitProg : List Instr :=
  [.fastPath, .recvBarrier, .ifNotOkRet .errClosed, .probe, .sendBarrierB, .ifUpdRetNil, .selectWait]

/-- `Offset.Set`. -/
def setProg : List Instr :=
  [.recvBarrier, .ifNotOkRet .none_, .storeMax, .closeB, .sendBarrierNew, .ret .none_]

/-- `Offset.Close`. -/
def closeProg : List Instr :=
  [.recvBarrier, .ifNotOkRet .errClosed, .closeB, .closeBarrier, .ret .nil]

inductive Kind
  | wait (off : Int)
  | set (n : Int)
  | close
deriving DecidableEq, Repr

def progOf : Kind → List Instr
  | .wait _ => waitProg
  | .set _ => setProg
  | .close => closeProg

/-- The barrier channel. -/
inductive Barrier
  | closed
  | empty
  | full (c : Nat)     -- holds signal channel `c`
deriving DecidableEq, Repr

structure St where
  next : Int
  barrier : Barrier
  closedCh : List Nat       -- signal channels that were closed
  fresh : Nat               -- next unused channel id
  panicked : Bool := false  -- send on / close of a closed channel
deriving DecidableEq, Repr

structure Th where
  kind : Kind
  pc : Nat := 0
  b : Option Nat := none    -- local `b`
  ok : Bool := false        -- local `ok`
  upd : Bool := false       -- local `updated`
  ctxDone : Bool := false   -- the caller's context has ended (an external event)
  res : Option Ret := none  -- returned value once finished
deriving DecidableEq, Repr

def Th.done (t : Th) : Bool := t.res.isSome

def initSt (next : Int) : St := { next := next, barrier := .full 0, closedCh := [], fresh := 1 }

/-- One instruction of thread `t`. `none`: the thread is blocked (or finished). -/
def stepTh (s : St) (t : Th) : Option (St × Th) :=
  if t.done then none else
  match (progOf t.kind)[t.pc]? with
  | none => none
  | some i =>
    let adv : Th := { t with pc := t.pc + 1 }
    match i with
    | .fastPath =>
      (match t.kind with
       | .wait off => if s.next > off then some (s, { t with res := some .nil }) else some (s, adv)
       | _ => some (s, adv))
    | .recvBarrier =>
      (match s.barrier with
       | .closed => some (s, { adv with b := none, ok := false })
       | .empty => none                                   -- blocks
       | .full c => some ({ s with barrier := .empty }, { adv with b := some c, ok := true }))
    | .ifNotOkRet r => if t.ok then some (s, adv) else some (s, { t with res := some r })
    | .probe =>
      (match t.kind with
       | .wait off => some (s, { adv with upd := decide (s.next > off) })
       | _ => some (s, adv))
    | .sendBarrierB =>
      (match s.barrier, t.b with
       | .closed, _ => some ({ s with panicked := true }, adv)        -- send on closed channel
       | .full _, _ => none                                             -- buffer full: blocks
       | .empty, some c => some ({ s with barrier := .full c }, adv)
       | .empty, none => some ({ s with panicked := true }, adv))
    | .ifUpdRetNil => if t.upd then some (s, { t with res := some .nil }) else some (s, adv)
    | .selectWait =>
      (match t.b with
       | some c =>
         if s.closedCh.contains c then some (s, { t with res := some .nil })
         else if t.ctxDone then some (s, { t with res := some .ctxErr })
         else none                                                      -- parked
       | none => none)
    | .storeMax =>
      (match t.kind with
       | .set n => some ((if s.next < n then { s with next := n } else s), adv)
       | _ => some (s, adv))
    | .closeB =>
      (match t.b with
       | some c =>
         if s.closedCh.contains c then some ({ s with panicked := true }, adv)   -- double close
         else some ({ s with closedCh := c :: s.closedCh }, adv)
       | none => some ({ s with panicked := true }, adv))
    | .sendBarrierNew =>
      (match s.barrier with
       | .closed => some ({ s with panicked := true }, adv)
       | .full _ => none
       | .empty => some ({ s with barrier := .full s.fresh, fresh := s.fresh + 1 }, adv))
    | .closeBarrier =>
      (match s.barrier with
       | .closed => some ({ s with panicked := true }, adv)
       | _ => some ({ s with barrier := .closed }, adv))
    | .ret r => some (s, { t with res := some r })

/-- A configuration: shared state and a pool of threads. -/
structure Cfg where
  st : St
  ths : List Th
deriving DecidableEq, Repr

inductive Ev
  | step (i : Nat)        -- thread `i` executes one instruction
  | cancel (i : Nat)      -- the context of thread `i` ends
  | spawn (k : Kind)      -- a new call starts
deriving DecidableEq, Repr

/-- One event; an event that is not enabled leaves the configuration unchanged. -/
def stepCfg (c : Cfg) : Ev → Cfg
  | .step i =>
    match c.ths[i]? with
    | none => c
    | some t =>
      match stepTh c.st t with
      | none => c
      | some (s', t') => { st := s', ths := c.ths.set i t' }
  | .cancel i =>
    match c.ths[i]? with
    | none => c
    | some t => { c with ths := c.ths.set i { t with ctxDone := true } }
  | .spawn k => { c with ths := c.ths ++ [{ kind := k }] }

def run (c : Cfg) : List Ev → Cfg
  | [] => c
  | e :: rest => run (stepCfg c e) rest

/-- Is thread `i` enabled (could take a step now)? -/
def enabled (c : Cfg) (i : Nat) : Bool :=
  match c.ths[i]? with
  | none => false
  | some t => (stepTh c.st t).isSome

end Klev.Notify
