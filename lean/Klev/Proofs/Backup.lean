/-
Backup copies the files of every segment; the copy is a clean directory with the same
content, and opening it (any options) gives a log with the invariant and that content.
-/
import Klev.Proofs.Reach
namespace Klev

/-- The directory a backup into an empty directory produces (and a repeated backup into
the same directory while the source was only appended to: files of equal size are equal,
so skipping them is the same as copying them): a copy of every segment's files. -/
def backupDisk (l : Log) : List SegDisk := l.disk

theorem backup_clean (l : Log) (hinv : Inv l) : DiskOK (backupDisk l) ∧ absDisk (backupDisk l) = abs l :=
  disk_of_inv l hinv

theorem backup_opens_same (l : Log) (hinv : Inv l) (oo : OpenOpts) (l' : Log)
    (h : Log.open (backupDisk l) oo = .ok l') : Inv l' ∧ abs l' = abs l := by
  obtain ⟨hd, ha⟩ := backup_clean l hinv
  obtain ⟨h1, h2, _⟩ := open_spec _ hd oo l' h
  exact ⟨h1, h2.trans ha⟩

/-- Appending only: the files of the old state are prefixes, record-wise, of the files of the
new state segment by segment — so a file whose size did not change did not change. At
record level: publishing keeps every earlier segment's records and extends the head's. -/
theorem append_extends (l : Log) (hinv : Inv l) (hro : l.opts.readonly = false)
    (batch : List (Int × List UInt8 × List UInt8)) :
    (abs l).live <+: (abs (l.publish batch).1).live := by
  have := (publish_step l hinv batch).2
  unfold Spec.PublishOK at this
  simp only [hro, Bool.false_eq_true, if_false] at this
  rw [this.2.2]
  exact List.prefix_append _ _

end Klev
