/-
Repeated backup into the same directory (C20).

While the source has only been appended to (`Extends`), a file of the target that has the same
size as the source's file *is* the source's file, so a backup over the previous backup gives
exactly the source's files — whichever same-size files the copy skips (`backup_repeat`, for every
oracle). Publishes only append (`publishes_extends`), hence `backup_repeat_log`, and the result
opens to the source's content (`backup_repeat_opens_same`). Without the hypothesis the property is
false: a record replaced by another of the same size survives in the target
(`stale_file_survives`).
-/
import Klev.BackupInc
import Klev.Proofs.Backup
import Klev.Proofs.CrashProofs
namespace Klev.BackupInc
open Klev Klev.Crash

/-! ### (A) "only appended to" -/

/-- The segment `s` is the segment `t` after appends only: same base, same format, the records
extended at the end, and the index file — if `t` had one — still there in the same format,
extended at the end by as many items. (An index file may have appeared.) -/
def SegExt (t s : SegDisk) : Prop :=
  s.base = t.base ∧ s.ver = t.ver ∧ ∃ e, s.recs = t.recs ++ e ∧
    match t.idxf with
    | none => True
    | some g => ∃ f more, s.idxf = some f ∧ f.ver = g.ver ∧ f.items = g.items ++ more ∧
        more.length = e.length

/-- `b` is `a` after appends only: every segment of `a` is still there under its base, in the same
format, with its records extended at the end and its index file (if it had one) extended at the
end by as many items; index files may have appeared; new segments only after the old ones. -/
def Extends (a b : List SegDisk) : Prop :=
  (∀ t ∈ a, ∃ s ∈ b, SegExt t s) ∧
  (∀ s ∈ b, (∃ t ∈ a, t.base = s.base) ∨ (∀ t ∈ a, t.base < s.base))

theorem SegExt.refl (t : SegDisk) : SegExt t t := by
  refine ⟨rfl, rfl, [], by simp, ?_⟩
  cases h : t.idxf with
  | none => trivial
  | some g => exact ⟨g, [], rfl, rfl, by simp, rfl⟩

theorem SegExt.trans {t s u : SegDisk} (h1 : SegExt t s) (h2 : SegExt s u) : SegExt t u := by
  obtain ⟨hb1, hv1, e1, hr1, hi1⟩ := h1
  obtain ⟨hb2, hv2, e2, hr2, hi2⟩ := h2
  refine ⟨hb2.trans hb1, hv2.trans hv1, e1 ++ e2, by rw [hr2, hr1, List.append_assoc], ?_⟩
  cases hg : t.idxf with
  | none => trivial
  | some g =>
    rw [hg] at hi1
    obtain ⟨f, m1, hsf, hfv, hfi, hl1⟩ := hi1
    rw [hsf] at hi2
    obtain ⟨f', m2, huf, hfv', hfi', hl2⟩ := hi2
    refine ⟨f', m1 ++ m2, huf, hfv'.trans hfv, by rw [hfi', hfi, List.append_assoc], ?_⟩
    simp only [List.length_append, hl1, hl2]

theorem Extends.refl (a : List SegDisk) : Extends a a :=
  ⟨fun t ht => ⟨t, ht, SegExt.refl t⟩, fun s hs => Or.inl ⟨s, hs, rfl⟩⟩

theorem Extends.trans {a b c : List SegDisk} (h1 : Extends a b) (h2 : Extends b c) :
    Extends a c := by
  refine ⟨?_, ?_⟩
  · intro t ht
    obtain ⟨s, hs, hts⟩ := h1.1 t ht
    obtain ⟨u, hu, hsu⟩ := h2.1 s hs
    exact ⟨u, hu, hts.trans hsu⟩
  · intro u hu
    rcases h2.2 u hu with ⟨s, hs, hsb⟩ | hlt
    · rcases h1.2 s hs with ⟨t, ht, htb⟩ | hlt
      · exact Or.inl ⟨t, ht, htb.trans hsb⟩
      · exact Or.inr (fun t ht => by rw [← hsb]; exact hlt t ht)
    · refine Or.inr (fun t ht => ?_)
      obtain ⟨s, hs, hts⟩ := h1.1 t ht
      rw [← hts.1]; exact hlt s hs

/-- A new segment behind all the others. -/
theorem extends_snoc (a : List SegDisk) (n : SegDisk) (h : ∀ t ∈ a, t.base < n.base) :
    Extends a (a ++ [n]) := by
  refine ⟨fun t ht => ⟨t, List.mem_append_left _ ht, SegExt.refl t⟩, ?_⟩
  intro s hs
  rcases List.mem_append.mp hs with hs | hs
  · exact Or.inl ⟨s, hs, rfl⟩
  · simp only [List.mem_singleton] at hs
    subst hs; exact Or.inr h

/-- The last segment appended to. -/
theorem extends_last (pre : List SegDisk) (x y : SegDisk) (h : SegExt x y) :
    Extends (pre ++ [x]) (pre ++ [y]) := by
  refine ⟨?_, ?_⟩
  · intro t ht
    rcases List.mem_append.mp ht with ht | ht
    · exact ⟨t, List.mem_append_left _ ht, SegExt.refl t⟩
    · simp only [List.mem_singleton] at ht
      subst ht; exact ⟨y, by simp, h⟩
  · intro s hs
    rcases List.mem_append.mp hs with hs | hs
    · exact Or.inl ⟨s, List.mem_append_left _ hs, rfl⟩
    · simp only [List.mem_singleton] at hs
      subst hs; exact Or.inl ⟨x, by simp, h.1.symm⟩

/-! #### what a publish does to the files -/

theorem rollover_extends (l : Log) (hinv : Inv l) (hrw : l.opts.readonly = false) :
    Extends l.disk l.rollover.disk := by
  obtain ⟨h, hl⟩ := inv_getLast l hinv
  by_cases hroll : needsRollover l.opts h = true
  · have hsn := segs_snoc hl
    have hrne : h.recs ≠ [] := by
      unfold needsRollover at hroll
      simp only [Bool.and_eq_true, Bool.not_eq_true', decide_eq_true_eq] at hroll
      intro he; rw [he] at hroll; simp at hroll
    have hd : l.disk = l.segs.dropLast.map Seg.toDisk ++ [h.toDisk] := by
      unfold Log.disk
      conv => lhs; rw [hsn]
      simp
    have hr : l.rollover.disk = l.disk ++ [nhD l] := by
      unfold Log.rollover
      rw [hl]
      simp only [hroll, if_true, openWriter_empty]
      rw [hd]
      simp [Log.disk, nhD, Seg.toDisk]
    obtain ⟨_, _, hlt⟩ := nh_shape l hinv hrw _ _ hd hrne (nhD l) rfl rfl
    rw [hr]
    exact extends_snoc _ _ hlt
  · have hroll' : needsRollover l.opts h = false := by
      cases hc : needsRollover l.opts h with
      | true => exact absurd hc hroll
      | false => rfl
    have hr : l.rollover = l := by
      unfold Log.rollover
      rw [hl]
      simp only [hroll', Bool.false_eq_true, if_false]
    rw [hr]; exact Extends.refl _

theorem append_extends_disk (l : Log) (hinv : Inv l)
    (batch : List (Int × List UInt8 × List UInt8)) :
    Extends l.disk (l.append batch).1.disk := by
  obtain ⟨h, hl⟩ := inv_getLast l hinv
  have hd : l.disk = l.segs.dropLast.map Seg.toDisk ++ [h.toDisk] := by
    unfold Log.disk
    conv => lhs; rw [segs_snoc hl]
    simp
  unfold Log.append
  rw [hl]
  simp only
  rw [hd]
  simp only [Log.disk, List.map_append, List.map_cons, List.map_nil]
  apply extends_last
  refine ⟨rfl, rfl, _, rfl, ?_⟩
  simp only [Seg.toDisk]
  cases hg : h.idxf with
  | none => trivial
  | some g =>
    exact ⟨_, _, rfl, rfl, rfl, (stamp_lengths _ _ _ _ _ _).symm⟩

theorem publish_extends (l : Log) (hinv : Inv l) (hrw : l.opts.readonly = false)
    (batch : List (Int × List UInt8 × List UInt8)) :
    Extends l.disk (l.publish batch).1.disk ∧ Inv (l.publish batch).1 ∧
      (l.publish batch).1.opts = l.opts := by
  obtain ⟨hinv1, _, hopts1⟩ := rollover_spec l hinv hrw
  refine ⟨?_, (publish_step l hinv batch).1, ?_⟩
  · unfold Log.publish
    simp only [hrw, Bool.false_eq_true, if_false]
    exact (rollover_extends l hinv hrw).trans (append_extends_disk l.rollover hinv1 batch)
  · unfold Log.publish
    simp only [hrw, Bool.false_eq_true, if_false]
    obtain ⟨h1, hl1⟩ := inv_getLast _ hinv1
    unfold Log.append
    rw [hl1]
    exact hopts1

theorem publishes_spec (bs : List (List (Int × List UInt8 × List UInt8))) :
    ∀ (l : Log), Inv l → l.opts.readonly = false →
      Extends l.disk (publishes l bs).disk ∧ Inv (publishes l bs) ∧ (publishes l bs).opts = l.opts := by
  induction bs with
  | nil => intro l hinv _; exact ⟨Extends.refl _, hinv, rfl⟩
  | cons b bs ih =>
    intro l hinv hrw
    obtain ⟨he, hinv1, hopts⟩ := publish_extends l hinv hrw b
    obtain ⟨he2, hinv2, hopts2⟩ := ih (l.publish b).1 hinv1 (by rw [hopts]; exact hrw)
    exact ⟨he.trans he2, hinv2, hopts2.trans hopts⟩

/-- Publishes only append to the files of the log. -/
theorem publishes_extends (l : Log) (hinv : Inv l) (hrw : l.opts.readonly = false)
    (bs : List (List (Int × List UInt8 × List UInt8))) :
    Extends l.disk (publishes l bs).disk ∧ Inv (publishes l bs) :=
  ⟨(publishes_spec bs l hinv hrw).1, (publishes_spec bs l hinv hrw).2.1⟩

theorem publishes_opts (l : Log) (hinv : Inv l) (hrw : l.opts.readonly = false)
    (bs : List (List (Int × List UInt8 × List UInt8))) : (publishes l bs).opts = l.opts :=
  (publishes_spec bs l hinv hrw).2.2

/-! ### (B) a file of the same size is the same file -/

theorem sizeFrom_append (v : Ver) : ∀ (r e : List Msg) (p : Int),
    sizeFrom v p (r ++ e) = sizeFrom v (sizeFrom v p r) e := by
  intro r
  induction r with
  | nil => intro e p; rfl
  | cons m r ih => intro e p; simp only [List.cons_append, sizeFrom]; exact ih e _

theorem sizeFrom_ge (v : Ver) : ∀ (e : List Msg) (p : Int), p ≤ sizeFrom v p e := by
  intro e
  induction e with
  | nil => intro p; exact Int.le_refl _
  | cons m e ih =>
    intro p
    have := ih (p + recSize v m)
    have := recSize_pos v m
    simp only [sizeFrom]; omega

theorem sizeFrom_eq_nil (v : Ver) (e : List Msg) (p : Int) (h : sizeFrom v p e = p) : e = [] := by
  cases e with
  | nil => rfl
  | cons m e =>
    have := sizeFrom_ge v e (p + recSize v m)
    have := recSize_pos v m
    simp only [sizeFrom] at h; omega

/-- A log file that was appended to and has the same size was appended nothing. -/
theorem logSize_append_eq (v : Ver) (r e : List Msg) (h : logSize v r = logSize v (r ++ e)) :
    e = [] := by
  unfold logSize at h
  rw [sizeFrom_append] at h
  exact sizeFrom_eq_nil v e _ h.symm

theorem params_size_pos (p : Params) : 0 < p.size := by
  unfold Params.size; split <;> split <;> omega

/-- An index file that was appended to and has the same size was appended nothing. -/
theorem idxSize_append_eq (p : Params) (v : Ver) (its more : List Item)
    (h : idxSize p ⟨v, its⟩ = idxSize p ⟨v, its ++ more⟩) : more = [] := by
  unfold idxSize at h
  simp only [List.length_append, Int.natCast_add, Int.mul_add] at h
  have hp := params_size_pos p
  have h0 : p.size * (more.length : Int) = 0 := by omega
  rcases Int.mul_eq_zero.mp h0 with h1 | h1
  · omega
  · exact List.eq_nil_of_length_eq_zero (by omega)

/-- The index file of a copy over an earlier state of the index file. -/
theorem copyIdx_ext (p : Params) (o : Oracle) (sb : Int) (f g : IdxFile) (more : List Item)
    (hfv : f.ver = g.ver) (hfi : f.items = g.items ++ more) :
    (if idxSize p g = idxSize p f ∧ o.skipIdx sb = true then some g else some f) = some f := by
  obtain ⟨fv, fi⟩ := f
  obtain ⟨gv, gi⟩ := g
  simp only at hfv hfi
  subst hfv hfi
  by_cases hc : idxSize p ⟨fv, gi⟩ = idxSize p ⟨fv, gi ++ more⟩ ∧ o.skipIdx sb = true
  · rw [if_pos hc, idxSize_append_eq p fv gi more hc.1, List.append_nil]
  · rw [if_neg hc]

/-- Copying a segment over its earlier state gives the segment, whatever is skipped. -/
theorem copySeg_ext (p : Params) (o : Oracle) (t s : SegDisk) (h : SegExt t s) :
    copySeg p o s (some t) = s := by
  obtain ⟨hb, hv, e, hr, hi⟩ := h
  obtain ⟨sb, sv, sr, si⟩ := s
  obtain ⟨tb, tv, tr, ti⟩ := t
  simp only at hb hv hr hi
  subst hb hv hr
  have hlog : (if logSize sv tr = logSize sv (tr ++ e) ∧ o.skipLog sb = true then (sv, tr)
      else (sv, tr ++ e)) = (sv, tr ++ e) := by
    by_cases hc : logSize sv tr = logSize sv (tr ++ e) ∧ o.skipLog sb = true
    · rw [if_pos hc, logSize_append_eq sv tr e hc.1, List.append_nil]
    · rw [if_neg hc]
  unfold copySeg
  simp only
  rw [hlog]
  cases si with
  | none => rfl
  | some f =>
    cases ti with
    | none => rfl
    | some g =>
      simp only at hi
      obtain ⟨f', more, hf, hfv, hfi, _⟩ := hi
      simp only [Option.some.injEq] at hf
      subst hf
      simp only
      rw [copyIdx_ext p o sb f g more hfv hfi]

theorem copySeg_none (p : Params) (o : Oracle) (s : SegDisk) : copySeg p o s none = s := rfl

/-- Segments of a directory sorted by base are told apart by their base. -/
theorem eq_of_base {b : List SegDisk} (hb : b.Pairwise (fun s t => s.base < t.base))
    {s s' : SegDisk} (hs : s ∈ b) (hs' : s' ∈ b) (h : s.base = s'.base) : s = s' := by
  induction b with
  | nil => cases hs
  | cons x xs ih =>
    rw [List.pairwise_cons] at hb
    rcases List.mem_cons.mp hs with rfl | hs1
    · rcases List.mem_cons.mp hs' with rfl | hs2
      · rfl
      · have := hb.1 _ hs2; omega
    · rcases List.mem_cons.mp hs' with rfl | hs2
      · have := hb.1 _ hs1; omega
      · exact ih hb.2 hs1 hs2

/-- **Repeated backup**: over the previous backup `a`, the source `b` having only been appended
to since, a backup gives exactly the source's files — whatever the oracle skips, and with any
index parameters. -/
theorem backup_repeat (p : Params) (o : Oracle) (a b : List SegDisk) (h : Extends a b)
    (hb : b.Pairwise (fun s t => s.base < t.base)) :
    backupInto p o b a = b := by
  have hstale : a.filter (fun t => !(b.any (fun s => s.base == t.base))) = [] := by
    rw [List.filter_eq_nil_iff]
    intro t ht
    obtain ⟨s, hs, hts⟩ := h.1 t ht
    simp only [Bool.not_eq_true', Bool.not_eq_false, List.any_eq_true, beq_iff_eq]
    exact ⟨s, hs, hts.1⟩
  have hcopied : b.map (fun s => copySeg p o s (a.find? (fun t => t.base == s.base))) = b := by
    conv => rhs; rw [← List.map_id b]
    apply List.map_congr_left
    intro s hs
    simp only [id]
    cases hf : a.find? (fun t => t.base == s.base) with
    | none => rfl
    | some t =>
      have hta : t ∈ a := List.mem_of_find?_eq_some hf
      have htb : t.base = s.base := by
        have := List.find?_some hf
        simpa using this
      obtain ⟨s', hs', hts'⟩ := h.1 t hta
      have : s' = s := eq_of_base hb hs' hs (hts'.1.trans htb)
      subst this
      exact copySeg_ext p o t s' hts'
  unfold backupInto
  simp only
  rw [hstale, hcopied]
  rfl

/-- Bases of a well-shaped directory are strictly increasing. -/
theorem bases_increasing {d : List SegDisk} (h : ShapeOK (shapeD d)) :
    d.Pairwise (fun s t => s.base < t.base) := by
  have ho := h.order
  unfold shapeD at ho
  rw [List.pairwise_map] at ho
  exact ho.imp (fun h => h.1)

theorem backup_repeat_shape (p : Params) (o : Oracle) (a b : List SegDisk) (h : Extends a b)
    (hb : ShapeOK (shapeD b)) : backupInto p o b a = b :=
  backup_repeat p o a b h (bases_increasing hb)

/-- The first backup, into an empty directory: the source's files. -/
theorem backup_first (p : Params) (o : Oracle) (d : List SegDisk) : backupInto p o d [] = d := by
  unfold backupInto
  simp only [List.find?_nil, List.filter_nil, List.foldl_nil]
  conv => rhs; rw [← List.map_id d]
  apply List.map_congr_left
  intro s _; rfl

/-- A backup of a log over the backup taken any number of publishes earlier. -/
theorem backup_repeat_log (l : Log) (hinv : Inv l) (hrw : l.opts.readonly = false)
    (bs : List (List (Int × List UInt8 × List UInt8))) (o : Oracle) :
    backupInto l.opts.params o (publishes l bs).disk l.disk = (publishes l bs).disk := by
  obtain ⟨he, hinv'⟩ := publishes_extends l hinv hrw bs
  exact backup_repeat_shape _ o _ _ he (disk_of_inv _ hinv').1.shape

/-! ### (C) the repeated backup opens to the source's content -/

theorem backup_repeat_clean (l : Log) (hinv : Inv l) (hrw : l.opts.readonly = false)
    (bs : List (List (Int × List UInt8 × List UInt8))) (o : Oracle) :
    DiskOK (backupInto l.opts.params o (publishes l bs).disk l.disk) ∧
      absDisk (backupInto l.opts.params o (publishes l bs).disk l.disk) = abs (publishes l bs) := by
  rw [backup_repeat_log l hinv hrw bs o]
  exact backup_clean _ (publishes_extends l hinv hrw bs).2

theorem backup_repeat_opens_same (l : Log) (hinv : Inv l) (hrw : l.opts.readonly = false)
    (bs : List (List (Int × List UInt8 × List UInt8))) (o : Oracle) (oo : OpenOpts) (l' : Log)
    (h : Log.open (backupInto l.opts.params o (publishes l bs).disk l.disk) oo = .ok l') :
    Inv l' ∧ abs l' = abs (publishes l bs) := by
  rw [backup_repeat_log l hinv hrw bs o] at h
  exact backup_opens_same (publishes l bs) (publishes_extends l hinv hrw bs).2 oo l' h

/-! ### the format of a segment does not change on publish

`Log.rollover` leaves the old head as it is and `Log.append` keeps the head's `ver` and its index
file's `ver`; `openWriter` — the only place where an empty V1 file gets the header of
`NewSegmentsVersion` — runs on the *new* segment of a rollover and inside `Open`, not on an
existing segment during a publish. So no hypothesis on the format is needed. The corner, evaluated:
an empty V1 head with an empty V1 index under `nsv = v2` (a state `Open` never leaves, it satisfies
`Inv` all the same) stays V1 when published to. -/

def cornerL : Log :=
  { opts := { readonly := false, params := ⟨false, false⟩, autosync := false, rollover := 1000,
              nsv := .v2, keep := false },
    segs := [⟨0, .v1, [], some ⟨.v1, []⟩, some []⟩], wNextOff := 0, wNextTime := 0 }

example : (cornerL.publish [(10, [], [1])]).1.disk =
    [⟨0, .v1, [⟨0, 10, [], [1]⟩], some ⟨.v1, [⟨0, 0, 0, 0⟩]⟩⟩] := by decide

/-! ### (D) the hypothesis matters

The source's record was replaced by another one of the same size (same base, same format): not an
append. A copy that skips same-size files leaves the stale file in the target. (The real rule
also compares modification times; the property is about sources that are only appended to.) -/

def skipAll : Oracle := ⟨fun _ => true, fun _ => true⟩
def copyAll : Oracle := ⟨fun _ => false, fun _ => false⟩

def staleA : List SegDisk := [⟨0, .v2, [⟨0, 10, [], [1]⟩], some ⟨.v2, [⟨0, 8, 0, 0⟩]⟩⟩]
def staleB : List SegDisk := [⟨0, .v2, [⟨0, 10, [], [2]⟩], some ⟨.v2, [⟨0, 8, 0, 0⟩]⟩⟩]

theorem stale_file_survives :
    backupInto ⟨false, false⟩ skipAll staleB staleA ≠ staleB ∧
    backupInto ⟨false, false⟩ skipAll staleB staleA = staleA ∧
    backupInto ⟨false, false⟩ copyAll staleB staleA = staleB := by decide

/-- Hence the two directories are not in the relation (bases of `staleB` are increasing). -/
theorem stale_not_extends : ¬ Extends staleA staleB := by
  intro h
  exact stale_file_survives.1 (backup_repeat _ skipAll staleA staleB h (by simp [staleB]))

/-! ### (E) non-vacuity

Rollover at 50 bytes, times and keys indexed. The previous backup was taken of `exL`: segments
`0: [0, 1]` and `2: [2]`. Then two publishes: `[3, 4]` go to the head `2`, the next one rolls over
into a new segment `5: [5]`. The repeated backup with an oracle that skips whenever it may: both
files of segment 0 are skipped (same sizes 84 and 72), both files of segment 2 are copied (46 → 122
and 40 → 104 bytes), segment 5 is new. -/

def exOpts : OpenOpts :=
  { opts := { readonly := false, params := ⟨true, true⟩, autosync := false, rollover := 50,
              nsv := .v2, keep := false },
    check := false, recover := false, eager := false }

def exL0 : Log := okOr default (Log.open [] exOpts)
def exL : Log := publishes exL0 [[(10, [1], [1]), (11, [2], [2])], [(12, [3], [3])]]
def exBs : List (List (Int × List UInt8 × List UInt8)) :=
  [[(13, [4], [4]), (14, [5], [5])], [(15, [6], [6])]]

theorem exL0_open : Log.open [] exOpts = .ok exL0 := by decide

theorem exL0_inv : Inv exL0 := by
  obtain ⟨l', h, hinv, _⟩ := open_empty exOpts
  rw [exL0_open] at h
  simp only [Out.ok.injEq] at h
  rw [h]; exact hinv

theorem exL_inv : Inv exL := (publishes_extends exL0 exL0_inv (by decide) _).2
theorem exL_rw : exL.opts.readonly = false := by decide

/-- The shapes and the file sizes (log, index) before and after. -/
example : exL.disk.map (fun s => (s.base, s.recs.map (·.off), logSize s.ver s.recs,
      s.idxf.map (idxSize exL.opts.params))) =
    [(0, [0, 1], 84, some 72), (2, [2], 46, some 40)] := by decide

example : (publishes exL exBs).disk.map (fun s => (s.base, s.recs.map (·.off), logSize s.ver s.recs,
      s.idxf.map (idxSize exL.opts.params))) =
    [(0, [0, 1], 84, some 72), (2, [2, 3, 4], 122, some 104), (5, [5], 46, some 40)] := by decide

/-- The repeated backup, evaluated: exactly the source's files … -/
example : backupInto exL.opts.params skipAll (publishes exL exBs).disk exL.disk =
    (publishes exL exBs).disk := by decide

/-- … which is the instance of the theorem (its hypotheses hold here) … -/
example : backupInto exL.opts.params skipAll (publishes exL exBs).disk exL.disk =
    (publishes exL exBs).disk := backup_repeat_log exL exL_inv exL_rw exBs skipAll

example : Extends exL.disk (publishes exL exBs).disk := (publishes_extends exL exL_inv exL_rw exBs).1

/-- … and the files of segment 0 really were skipped, not copied: with a marked record (same size)
in the previous backup's segment 0 and a marked item in its index, the marks are still there
afterwards, while segments 2 and 5 are the source's. -/
def exMarked : List SegDisk :=
  match exL.disk with
  | ⟨b, v, [m0, m1], some ⟨iv, [i0, i1]⟩⟩ :: rest =>
    ⟨b, v, [m0, { m1 with val := [99] }], some ⟨iv, [i0, { i1 with ts := 99 }]⟩⟩ :: rest
  | d => d

example : exMarked ≠ exL.disk := by decide

example : backupInto exL.opts.params skipAll (publishes exL exBs).disk exMarked =
    exMarked.take 1 ++ (publishes exL exBs).disk.drop 1 := by decide

example : backupInto exL.opts.params copyAll (publishes exL exBs).disk exMarked =
    (publishes exL exBs).disk := by decide

/-- The result opens (here: read-write, with Check) to the source's content. -/
example : ∃ l', Log.open (backupInto exL.opts.params skipAll (publishes exL exBs).disk exL.disk)
      { exOpts with check := true } = .ok l' ∧ (abs l').live.map (·.off) = [0, 1, 2, 3, 4, 5] ∧
      (abs l').next = 6 := by
  refine ⟨okOr default (Log.open (backupInto exL.opts.params skipAll (publishes exL exBs).disk exL.disk)
      { exOpts with check := true }), by decide, by decide, by decide⟩

end Klev.BackupInc

#print axioms Klev.BackupInc.publishes_extends
#print axioms Klev.BackupInc.publishes_opts
#print axioms Klev.BackupInc.backup_repeat
#print axioms Klev.BackupInc.backup_repeat_shape
#print axioms Klev.BackupInc.backup_first
#print axioms Klev.BackupInc.backup_repeat_log
#print axioms Klev.BackupInc.backup_repeat_clean
#print axioms Klev.BackupInc.backup_repeat_opens_same
#print axioms Klev.BackupInc.stale_file_survives
#print axioms Klev.BackupInc.stale_not_extends
