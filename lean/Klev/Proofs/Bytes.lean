/-
Big-endian round trips and the two's-complement views (`Klev/Bytes.lean`).
-/
import Klev.Bytes
namespace Klev

theorem be_length (k x : Nat) : (be k x).length = k := by
  induction k with
  | zero => rfl
  | succ k ih => simp [be, ih]

theorem unbe_foldl (bs : List UInt8) (acc : Nat) :
    bs.foldl (fun acc b => acc * 256 + b.toNat) acc = acc * 256 ^ bs.length + unbe bs := by
  induction bs generalizing acc with
  | nil => simp [unbe]
  | cons b bs ih =>
    simp only [List.foldl_cons, List.length_cons, unbe]
    rw [ih, ih (0 * 256 + b.toNat), Nat.pow_succ, Nat.add_mul, Nat.add_mul, Nat.mul_assoc,
      Nat.mul_comm (256 ^ bs.length) 256]
    simp [Nat.add_assoc]

theorem unbe_nil : unbe [] = 0 := rfl

theorem unbe_cons (b : UInt8) (bs : List UInt8) :
    unbe (b :: bs) = b.toNat * 256 ^ bs.length + unbe bs := by
  have := unbe_foldl bs (0 * 256 + b.toNat)
  simpa [unbe] using this

theorem unbe_append (a b : List UInt8) : unbe (a ++ b) = unbe a * 256 ^ b.length + unbe b := by
  show (a ++ b).foldl _ 0 = _
  rw [List.foldl_append, unbe_foldl b]
  rfl

theorem unbe_lt (bs : List UInt8) : unbe bs < 256 ^ bs.length := by
  induction bs with
  | nil => simp [unbe]
  | cons b bs ih =>
    rw [unbe_cons, List.length_cons, Nat.pow_succ]
    have hb : b.toNat < 256 := b.toNat_lt
    have h1 : b.toNat * 256 ^ bs.length ≤ 255 * 256 ^ bs.length :=
      Nat.mul_le_mul_right _ (by omega)
    omega

theorem unbe_be_mod (k x : Nat) : unbe (be k x) = x % 256 ^ k := by
  induction k with
  | zero => simp [be, unbe, Nat.mod_one]
  | succ k ih =>
    have h256 : x / 256 ^ k % 256 % 2 ^ 8 = x / 256 ^ k % 256 := by omega
    rw [be, unbe_cons, ih, be_length, UInt8.toNat_ofNat', h256, Nat.mod_pow_succ,
      Nat.mul_comm, Nat.add_comm]

theorem unbe_be (k x : Nat) (h : x < 256 ^ k) : unbe (be k x) = x := by
  rw [unbe_be_mod, Nat.mod_eq_of_lt h]

theorem u64_lt (x : Int) : u64 x < two64 := by
  unfold u64 two64
  omega

theorem i64_u64 (x : Int) (h1 : -(two63 : Int) ≤ x) (h2 : x < (two63 : Int)) :
    i64 (u64 x) = x := by
  unfold i64 u64 two63 two64 at *
  split <;> omega

theorem i32_nat (n : Nat) (h : n < two31) : i32 n = n := by
  simp [i32, h]

end Klev

#print axioms Klev.be_length
#print axioms Klev.unbe_be
#print axioms Klev.unbe_append
#print axioms Klev.i64_u64
#print axioms Klev.u64_lt
#print axioms Klev.i32_nat
