/-
The record codecs and the index item codec round-trip (`Klev/Codec.lean`).
`crc32c` is never unfolded: the proofs only use that the decoder recomputes the CRC over
exactly the bytes the encoder covered, and that a CRC fits in four bytes.
-/
import Klev.Codec
import Klev.Proofs.Bytes
namespace Klev

/-- What `Publish` can store without loss: offset and time are `int64`, and the body is
within `MaxMessageBodySize`. -/
def Msg.Encodable (m : Msg) : Prop :=
  -(two63 : Int) ≤ m.off ∧ m.off < two63 ∧ -(two63 : Int) ≤ m.time ∧ m.time < two63 ∧
    m.key.length + m.val.length ≤ maxBody

theorem maxBody_eq : maxBody = 67108864 := by rfl
theorem trailer_length : trailer.length = 8 := by rfl
theorem pow256_8 : (256 : Nat) ^ 8 = two64 := by rfl
theorem pow256_4 : (256 : Nat) ^ 4 = two32 := by rfl

/-! ### slices of a file around an embedded block -/

theorem slice_mid (pre x post : List UInt8) (i n : Nat) (h : i + n ≤ x.length) :
    slice (pre ++ x ++ post) (pre.length + i) n = (x.drop i).take n := by
  unfold slice
  rw [List.append_assoc, List.drop_append, List.drop_eq_nil_of_le (by omega), List.nil_append,
    show pre.length + i - pre.length = i by omega, List.drop_append_of_le_length (by omega),
    List.take_append_of_le_length (by simp; omega)]

/-- A block reads back whole from the position it was written at. -/
theorem slice_block (pre x post : List UInt8) :
    slice (pre ++ x ++ post) pre.length x.length = x := by
  have := slice_mid pre x post 0 x.length (by omega)
  simpa using this

/-! ### field round trips -/

theorem unbe_be8_u64 (x : Int) : unbe (be 8 (u64 x)) = u64 x :=
  unbe_be 8 _ (by rw [pow256_8]; exact u64_lt x)

theorem i64_field (x : Int) (h1 : -(two63 : Int) ≤ x) (h2 : x < (two63 : Int)) :
    i64 (unbe (be 8 (u64 x))) = x := by
  rw [unbe_be8_u64, i64_u64 x h1 h2]

theorem i32_field (n : Nat) (h : n < two31) : i32 (unbe (be 4 n)) = (n : Int) := by
  rw [unbe_be 4 n (by rw [pow256_4]; unfold two31 at h; unfold two32; omega), i32_nat n h]

theorem crcBytes_length (bs : List UInt8) : (crcBytes bs).length = 4 := be_length _ _

theorem unbe_crcBytes (bs : List UInt8) : unbe (crcBytes bs) = (crc32c bs).toNat := by
  unfold crcBytes
  exact unbe_be 4 _ (by rw [pow256_4]; exact (crc32c bs).isLt)

/-! ### five fixed-width fields followed by a tail -/

theorem fields5 {α : Type} (a b c d e t : List α) (ha : a.length = 8) (hb : b.length = 8)
    (hc : c.length = 4) (hd : d.length = 4) (he : e.length = 4) :
    let x := a ++ b ++ c ++ d ++ e ++ t
    (x.take 28).take 8 = a ∧ ((x.take 28).drop 8).take 8 = b ∧
    ((x.take 28).drop 16).take 4 = c ∧ ((x.take 28).drop 20).take 4 = d ∧
    ((x.take 28).drop 24).take 4 = e ∧ x.drop 28 = t ∧ (x.take 28).length = 28 := by
  intro x
  have hx : x = a ++ (b ++ (c ++ (d ++ (e ++ t)))) := by simp [x]
  have h28 : x.take 28 = a ++ (b ++ (c ++ (d ++ e))) := by
    have : x = (a ++ (b ++ (c ++ (d ++ e)))) ++ t := by simp [x]
    rw [this]
    exact List.take_left' (by simp; omega)
  refine ⟨?_, ?_, ?_, ?_, ?_, ?_, ?_⟩
  · rw [h28]; exact List.take_left' ha
  · rw [h28, List.drop_left' ha]; exact List.take_left' hb
  · rw [h28, ← List.append_assoc, List.drop_left' (by simp; omega)]; exact List.take_left' hc
  · rw [h28, ← List.append_assoc, ← List.append_assoc, List.drop_left' (by simp; omega)]
    exact List.take_left' hd
  · rw [h28, ← List.append_assoc, ← List.append_assoc, ← List.append_assoc,
      List.drop_left' (by simp; omega)]
    exact List.take_of_length_le (by omega)
  · have : x = (a ++ (b ++ (c ++ (d ++ e)))) ++ t := by simp [x]
    rw [this]
    exact List.drop_left' (by simp; omega)
  · rw [h28]; simp; omega

/-! ### V1 records -/

theorem encV1_length (m : Msg) : (encV1 m).length = 28 + (m.key.length + m.val.length) := by
  simp only [encV1, List.length_append, be_length, crcBytes_length]
  omega

theorem decV1_encV1 (pre post : List UInt8) (m : Msg) (h : m.Encodable) :
    decV1 (pre ++ encV1 m ++ post) pre.length = .ok m (pre.length + (encV1 m).length) := by
  obtain ⟨ho1, ho2, ht1, ht2, hb⟩ := h
  rw [maxBody_eq] at hb
  have hlen := encV1_length m
  have hE : encV1 m = be 8 (u64 m.off) ++ be 8 (u64 m.time) ++ be 4 m.key.length ++
      be 4 m.val.length ++ crcBytes (m.key ++ m.val) ++ (m.key ++ m.val) := by
    simp [encV1]
  obtain ⟨f1, f2, f3, f4, f5, f6, f7⟩ := fields5 (be 8 (u64 m.off)) (be 8 (u64 m.time))
    (be 4 m.key.length) (be 4 m.val.length) (crcBytes (m.key ++ m.val)) (m.key ++ m.val)
    (be_length _ _) (be_length _ _) (be_length _ _) (be_length _ _) (crcBytes_length _)
  rw [← hE] at f1 f2 f3 f4 f5 f6 f7
  have hh : slice (pre ++ encV1 m ++ post) pre.length 28 = (encV1 m).take 28 := by
    have := slice_mid pre (encV1 m) post 0 28 (by omega)
    simpa using this
  have hd : slice (pre ++ encV1 m ++ post) (pre.length + 28) (m.key.length + m.val.length)
      = m.key ++ m.val := by
    rw [slice_mid _ _ _ _ _ (by omega), f6]
    exact List.take_of_length_le (by simp)
  have hk : i32 (unbe (be 4 m.key.length)) = (m.key.length : Int) :=
    i32_field _ (by unfold two31; omega)
  have hv : i32 (unbe (be 4 m.val.length)) = (m.val.length : Int) :=
    i32_field _ (by unfold two31; omega)
  have hmax : ¬ ((m.key.length : Int) + (m.val.length : Int) > (maxBody : Int)) := by
    rw [maxBody_eq]; omega
  unfold decV1
  simp only [hh, f1, f2, f3, f4, f5, f7, hk, hv, i64_field _ ho1 ho2, i64_field _ ht1 ht2,
    unbe_crcBytes, Int.toNat_natCast, hd, hmax]
  rw [hlen]
  cases m
  simp [Nat.add_assoc]

/-! ### V2 records -/

/-- The V2 header: a 4-byte field, then 8, 8, 4, 4, then the tail. -/
theorem fields5' {α : Type} (e a b c d t : List α) (he : e.length = 4) (ha : a.length = 8)
    (hb : b.length = 8) (hc : c.length = 4) (hd : d.length = 4) :
    let x := e ++ (a ++ b ++ c ++ d ++ t)
    (x.take 28).take 4 = e ∧ ((x.take 28).drop 4).take 8 = a ∧
    ((x.take 28).drop 12).take 8 = b ∧ ((x.take 28).drop 20).take 4 = c ∧
    ((x.take 28).drop 24).take 4 = d ∧ (x.take 28).drop 4 = a ++ b ++ c ++ d ∧
    x.drop 28 = t ∧ (x.take 28).length = 28 := by
  intro x
  have hx : x = (e ++ (a ++ (b ++ (c ++ d)))) ++ t := by simp [x]
  have h28 : x.take 28 = e ++ (a ++ (b ++ (c ++ d))) := by
    rw [hx]
    exact List.take_left' (by simp; omega)
  refine ⟨?_, ?_, ?_, ?_, ?_, ?_, ?_, ?_⟩
  · rw [h28]; exact List.take_left' he
  · rw [h28, List.drop_left' he]; exact List.take_left' ha
  · rw [h28, ← List.append_assoc, List.drop_left' (by simp; omega)]; exact List.take_left' hb
  · rw [h28, ← List.append_assoc, ← List.append_assoc, List.drop_left' (by simp; omega)]
    exact List.take_left' hc
  · rw [h28, ← List.append_assoc, ← List.append_assoc, ← List.append_assoc,
      List.drop_left' (by simp; omega)]
    exact List.take_of_length_le (by omega)
  · rw [h28, List.drop_left' he]; simp
  · rw [hx]
    exact List.drop_left' (by simp; omega)
  · rw [h28]; simp; omega

theorem v2Body_length (m : Msg) : (v2Body m).length = 24 + (m.key.length + m.val.length + 8) := by
  simp only [v2Body, List.length_append, be_length, trailer_length]
  omega

theorem encV2_length (m : Msg) : (encV2 m).length = 28 + (m.key.length + m.val.length + 8) := by
  simp only [encV2, List.length_append, crcBytes_length, v2Body_length]
  omega

theorem decV2_encV2 (pre post : List UInt8) (m : Msg) (h : m.Encodable) :
    decV2 (pre ++ encV2 m ++ post) pre.length = .ok m (pre.length + (encV2 m).length) := by
  obtain ⟨ho1, ho2, ht1, ht2, hb⟩ := h
  rw [maxBody_eq] at hb
  have hlen := encV2_length m
  have hB : v2Body m = be 8 (u64 m.off) ++ be 8 (u64 m.time) ++ be 4 m.key.length ++
      be 4 m.val.length ++ (m.key ++ m.val ++ trailer) := by
    simp [v2Body]
  have hE : encV2 m = crcBytes (v2Body m) ++ (be 8 (u64 m.off) ++ be 8 (u64 m.time) ++
      be 4 m.key.length ++ be 4 m.val.length ++ (m.key ++ m.val ++ trailer)) := by
    rw [← hB]; rfl
  obtain ⟨f1, f2, f3, f4, f5, f6, f7, f8⟩ := fields5' (crcBytes (v2Body m)) (be 8 (u64 m.off))
    (be 8 (u64 m.time)) (be 4 m.key.length) (be 4 m.val.length) (m.key ++ m.val ++ trailer)
    (crcBytes_length _) (be_length _ _) (be_length _ _) (be_length _ _) (be_length _ _)
  rw [← hE] at f1 f2 f3 f4 f5 f6 f7 f8
  have hh : slice (pre ++ encV2 m ++ post) pre.length 28 = (encV2 m).take 28 := by
    have := slice_mid pre (encV2 m) post 0 28 (by omega)
    simpa using this
  have hd : slice (pre ++ encV2 m ++ post) (pre.length + 28) (m.key.length + m.val.length + 8)
      = m.key ++ m.val ++ trailer := by
    rw [slice_mid _ _ _ _ _ (by omega), f7]
    exact List.take_of_length_le (by simp only [List.length_append, trailer_length]; omega)
  have hk : i32 (unbe (be 4 m.key.length)) = (m.key.length : Int) :=
    i32_field _ (by unfold two31; omega)
  have hv : i32 (unbe (be 4 m.val.length)) = (m.val.length : Int) :=
    i32_field _ (by unfold two31; omega)
  have hmax : ¬ ((m.key.length : Int) + (m.val.length : Int) > (maxBody : Int)) := by
    rw [maxBody_eq]; omega
  have htr : (m.key ++ m.val ++ trailer).drop (m.key.length + m.val.length) = trailer :=
    List.drop_left' (by simp)
  unfold decV2
  simp only [hh, f1, f2, f3, f4, f5, f8, hk, hv, i64_field _ ho1 ho2, i64_field _ ht1 ht2,
    unbe_crcBytes, Int.toNat_natCast, hd, hmax]
  simp only [f6, ← hB, htr]
  rw [hlen]
  cases m
  simp [Nat.add_assoc, trailer_length]

/-! ### both versions -/

/-- `Size(m)` is exactly the number of bytes a record occupies. -/
theorem enc_length (v : Ver) (m : Msg) : ((enc v m).length : Int) = recSize v m := by
  cases v
  · show ((encV1 m).length : Int) = _
    rw [encV1_length]; simp only [recSize]; omega
  · show ((encV2 m).length : Int) = _
    rw [encV2_length]; simp only [recSize]; omega

theorem enc_length_ge (v : Ver) (m : Msg) : 28 ≤ (enc v m).length := by
  cases v
  · show 28 ≤ (encV1 m).length
    rw [encV1_length]; omega
  · show 28 ≤ (encV2 m).length
    rw [encV2_length]; omega

/-- A record reads back identical from the position it was written at, whatever
surrounds it. -/
theorem dec_enc (v : Ver) (pre post : List UInt8) (m : Msg) (h : m.Encodable) :
    dec v (pre ++ enc v m ++ post) pre.length = .ok m (pre.length + (enc v m).length) := by
  cases v
  · exact decV1_encV1 pre post m h
  · exact decV2_encV2 pre post m h

/-! ### index items -/

theorem encItem_length (p : Params) (it : Item) : ((encItem p it).length : Int) = p.size := by
  obtain ⟨t, k⟩ := p
  cases t <;> cases k <;> simp [encItem, Params.size, be_length]

theorem u64_field (x : UInt64) : UInt64.ofNat (unbe (be 8 x.toNat)) = x := by
  rw [unbe_be 8 _ (by rw [pow256_8]; exact x.toNat_lt), UInt64.ofNat_toNat]

theorem be8_take (x : Nat) (l : List UInt8) : (be 8 x ++ l).take 8 = be 8 x :=
  List.take_left' (be_length 8 x)

theorem be8_take' (x : Nat) : (be 8 x).take 8 = be 8 x :=
  List.take_of_length_le (by rw [be_length]; omega)

theorem be8_drop (x : Nat) (l : List UInt8) : (be 8 x ++ l).drop 8 = l :=
  List.drop_left' (be_length 8 x)

theorem be8_drop16 (x y : Nat) (l : List UInt8) : (be 8 x ++ (be 8 y ++ l)).drop 16 = l := by
  rw [← List.append_assoc]
  exact List.drop_left' (by simp [be_length])

theorem be8_drop24 (x y z : Nat) (l : List UInt8) :
    (be 8 x ++ (be 8 y ++ (be 8 z ++ l))).drop 24 = l := by
  rw [← List.append_assoc, ← List.append_assoc]
  exact List.drop_left' (by simp [be_length])

theorem decItem_encItem (p : Params) (it : Item)
    (ho1 : -(two63 : Int) ≤ it.off) (ho2 : it.off < (two63 : Int))
    (hp1 : -(two63 : Int) ≤ it.pos) (hp2 : it.pos < (two63 : Int))
    (hts : p.times = true → -(two63 : Int) ≤ it.ts ∧ it.ts < (two63 : Int)) :
    decItem p (encItem p it) =
      { it with ts := if p.times then it.ts else 0, kh := if p.keys then it.kh else 0 } := by
  obtain ⟨t, k⟩ := p
  obtain ⟨off, pos, ts, kh⟩ := it
  simp only at ho1 ho2 hp1 hp2 hts
  have ho := i64_field off ho1 ho2
  have hp := i64_field pos hp1 hp2
  cases t
  · cases k <;>
      simp [decItem, encItem, be8_take, be8_take', be8_drop, be8_drop16, ho, hp,
        u64_field]
  · obtain ⟨ht1, ht2⟩ := hts rfl
    have ht := i64_field ts ht1 ht2
    cases k <;>
      simp [decItem, encItem, be8_take, be8_take', be8_drop, be8_drop16, be8_drop24, ho, hp, ht,
        u64_field]

end Klev

#print axioms Klev.enc_length
#print axioms Klev.dec_enc
#print axioms Klev.decItem_encItem
#print axioms Klev.encItem_length
