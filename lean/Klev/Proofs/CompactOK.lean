/-
Compaction (compact_updates.go, compact_deletes.go) = `FindUpdates` / `FindDeletes`, then
`Delete` (single: one segment per call) or `DeleteMulti`. Whatever subset of the selection a
call removes, the latest value of every key is unchanged; each removed message is what the
helper promises (superseded, resp. the oldest value-less message of its key, not newer than
the cut-off). After `CompactUpdatesMulti` on a read-write log with non-decreasing times
there is at most one message per key among those not newer than the cut-off.

The pure L0 facts are in `Klev/Proofs/CompactPure.lean`; here they are lifted to the model.
-/
import Klev.Proofs.DeleteMultiOK
import Klev.Proofs.CompactPure
namespace Klev

open Helpers

/-- The selection of `FindUpdates` consists of offsets of live messages. -/
theorem updates_sel_live (s : Spec) (hwf : Spec.WF s) (t : Int) :
    ∀ o ∈ Spec.offsOf (Spec.hasLaterSameKey (Spec.scanned s t)), ∃ m ∈ s.live, m.off = o := by
  intro o ho
  obtain ⟨m, hm, hmo⟩ := List.mem_map.mp ho
  have h1 := (Spec.mem_hasLaterSameKey (Spec.scanned_pairwise hwf t) hm).1
  exact ⟨m, (Spec.mem_scanned h1).1, hmo⟩

/-- The selection of `FindDeletes` consists of offsets of live messages. -/
theorem deletes_sel_live (s : Spec) (hwf : Spec.WF s) (t : Int) :
    ∀ o ∈ Spec.offsOf (Spec.firstOfKeyNoValue (Spec.scanned s t) []), ∃ m ∈ s.live, m.off = o := by
  intro o ho
  obtain ⟨m, hm, hmo⟩ := List.mem_map.mp ho
  have h1 := (Spec.mem_firstOfKeyNoValue (Spec.scanned_pairwise hwf t) hm).1
  exact ⟨m, (Spec.mem_scanned h1).1, hmo⟩

/-- **CompactUpdates / CompactUpdatesMulti.** The call keeps the invariant, removes exactly the
messages it reports, never changes the latest value of any key, and every removed message is
not newer than `t` and has a later live message with the same key. -/
theorem compactUpdates_model (l : Log) (h : Inv l) (t : Int) (multi : Bool) :
    let r := thenDelete multi (findUpdates l t)
    Inv r.1 ∧ (abs r.1).live = Spec.removeAll (abs l).live r.2.msgs ∧ (abs r.1).next = (abs l).next ∧
    Spec.CompactLatestOK (abs l) (abs r.1) ∧ (∀ k, Spec.latest (abs r.1) k = Spec.latest (abs l) k) ∧
    Spec.CompactUpdatesRemovedOK (abs l) t r.2.msgs := by
  intro r
  obtain ⟨l', hld, heq⟩ := findUpdates_eq l h t
  have hss := updStep_fold_sameSet (Spec.scanned (abs l) t)
  have hr : r = thenDelete multi (l', .ok ((Spec.scanned (abs l) t).foldl updStep ([], [])).2) := by
    show thenDelete multi (findUpdates l t) = _
    rw [heq]
  rw [hr]
  have hrem := thenDelete_removed l l' hld multi ((Spec.scanned (abs l) t).foldl updStep ([], [])).2
  obtain ⟨h1, h2, h3⟩ := Spec.compactUpdates_latest (abs l) (abs (thenDelete multi (l', .ok _)).1)
    (abs_wf l h) t _ (fun d hd => ⟨(hrem.sub d hd).1, hss.1 _ (hrem.sub d hd).2⟩) hrem.live
  exact ⟨hrem.inv, hrem.live, hrem.next, h1, h2, h3⟩

/-- **CompactDeletes / CompactDeletesMulti.** The call keeps the invariant, removes exactly the
messages it reports, never changes the latest value of any key (a removed tombstone that was
the only message of its key leaves the key absent, as it was), and every removed message is
value-less, not newer than `t`, and the oldest live message of its key. -/
theorem compactDeletes_model (l : Log) (h : Inv l) (t : Int) (multi : Bool) :
    let r := thenDelete multi (findDeletes l t)
    Inv r.1 ∧ (abs r.1).live = Spec.removeAll (abs l).live r.2.msgs ∧ (abs r.1).next = (abs l).next ∧
    Spec.CompactLatestOK (abs l) (abs r.1) ∧ (∀ k, Spec.latest (abs r.1) k = Spec.latest (abs l) k) ∧
    Spec.CompactDeletesRemovedOK (abs l) t r.2.msgs := by
  intro r
  obtain ⟨l', hld, heq⟩ := findDeletes_eq l h t
  have hr : r = thenDelete multi
      (l', .ok (Spec.offsOf (Spec.firstOfKeyNoValue (Spec.scanned (abs l) t) []))) := by
    show thenDelete multi (findDeletes l t) = _
    rw [heq]
  rw [hr]
  have hrem := thenDelete_removed l l' hld multi
    (Spec.offsOf (Spec.firstOfKeyNoValue (Spec.scanned (abs l) t) []))
  obtain ⟨h1, h2, h3⟩ := Spec.compactDeletes_latest (abs l) (abs (thenDelete multi (l', .ok _)).1)
    (abs_wf l h) t _ (fun d hd => hrem.sub d hd) hrem.live
  exact ⟨hrem.inv, hrem.live, hrem.next, h1, h2, h3⟩

/-- `thenDelete true` after a `Find*` that only loaded indexes and selected live offsets, on a
read-write log: no error, and exactly the selected messages are gone. -/
theorem thenDelete_multi_complete (l l1 : Log) (hld : Loaded l l1) (hro : l.opts.readonly = false)
    (offs : List Int) (hlive : ∀ o ∈ offs, ∃ m ∈ (abs l).live, m.off = o) :
    let r := thenDelete true (l1, .ok offs)
    Inv r.1 ∧ r.2.err = none ∧
    (abs r.1).live = (abs l).live.filter (fun m => !offs.contains m.off) ∧
    (abs r.1).next = (abs l).next ∧
    (∀ d, d ∈ r.2.msgs ↔ d ∈ (abs l).live ∧ d.off ∈ offs) ∧
    r.2.msgs = (abs l).live.filter (fun m => offs.contains m.off) := by
  intro r
  have hr : r = deleteMulti l1 offs := by
    show thenDelete true (l1, .ok offs) = _
    unfold thenDelete; simp only [if_true]
  rw [hr]
  have := deleteMulti_complete l1 hld.inv (by rw [hld.opts]; exact hro) offs
    (by rw [hld.abs]; exact hlive)
  rw [hld.abs] at this
  exact this

/-- **CompactUpdatesMulti.** On a read-write log whose times never decrease, the call does not
fail, and afterwards there is at most one message per key among those not newer than `t`. -/
theorem compactUpdatesMulti_model (l : Log) (h : Inv l) (hro : l.opts.readonly = false) (t : Int)
    (hmono : Spec.Monotone (abs l)) :
    let r := thenDelete true (findUpdates l t)
    r.2.err = none ∧ Spec.AtMostOnePerKey (abs r.1) t ∧
    (∀ d, d ∈ r.2.msgs ↔ d ∈ Spec.hasLaterSameKey (Spec.scanned (abs l) t)) := by
  intro r
  obtain ⟨l', hld, heq⟩ := findUpdates_eq l h t
  have hss := updStep_fold_sameSet (Spec.scanned (abs l) t)
  have hwf := abs_wf l h
  have hr : r = thenDelete true (l', .ok ((Spec.scanned (abs l) t).foldl updStep ([], [])).2) := by
    show thenDelete true (findUpdates l t) = _
    rw [heq]
  rw [hr]
  obtain ⟨_, he, hl, _, hm, _⟩ := thenDelete_multi_complete l l' hld hro
    ((Spec.scanned (abs l) t).foldl updStep ([], [])).2
    (fun o ho => updates_sel_live (abs l) hwf t o (hss.1 o ho))
  have hrem := thenDelete_removed l l' hld true ((Spec.scanned (abs l) t).foldl updStep ([], [])).2
  refine ⟨he, ?_, ?_⟩
  · apply Spec.compactUpdatesMulti_one_per_key (abs l) _ hwf hmono t _ hrem.live
    intro m hm' hsel
    rw [hl, List.mem_filter] at hm'
    have := hss.2 _ hsel
    simp only [List.contains_eq_mem, Bool.not_eq_true', decide_eq_false_iff_not] at hm'
    exact hm'.2 this
  · intro d
    rw [hm d]
    constructor
    · intro ⟨hd, hdo⟩
      exact Spec.live_of_off_mem hwf
        (fun x hx => (Spec.mem_hasLaterSameKey (Spec.scanned_pairwise hwf t) hx).1) hd (hss.1 _ hdo)
    · intro hd
      have h1 := (Spec.mem_hasLaterSameKey (Spec.scanned_pairwise hwf t) hd).1
      exact ⟨(Spec.mem_scanned h1).1, hss.2 _ (List.mem_map.mpr ⟨d, hd, rfl⟩)⟩

/-- **CompactDeletesMulti.** On a read-write log the call does not fail and removes exactly the
selection: every value-less message not newer than `t` (in scan order) that is the oldest of
its key. -/
theorem compactDeletesMulti_model (l : Log) (h : Inv l) (hro : l.opts.readonly = false) (t : Int) :
    let r := thenDelete true (findDeletes l t)
    r.2.err = none ∧
    (∀ d, d ∈ r.2.msgs ↔ d ∈ Spec.firstOfKeyNoValue (Spec.scanned (abs l) t) []) := by
  intro r
  obtain ⟨l', hld, heq⟩ := findDeletes_eq l h t
  have hwf := abs_wf l h
  have hr : r = thenDelete true
      (l', .ok (Spec.offsOf (Spec.firstOfKeyNoValue (Spec.scanned (abs l) t) []))) := by
    show thenDelete true (findDeletes l t) = _
    rw [heq]
  rw [hr]
  obtain ⟨_, he, _, _, hm, _⟩ := thenDelete_multi_complete l l' hld hro
    (Spec.offsOf (Spec.firstOfKeyNoValue (Spec.scanned (abs l) t) []))
    (deletes_sel_live (abs l) hwf t)
  refine ⟨he, ?_⟩
  intro d
  rw [hm d]
  constructor
  · intro ⟨hd, hdo⟩
    exact Spec.live_of_off_mem hwf
      (fun x hx => (Spec.mem_firstOfKeyNoValue (Spec.scanned_pairwise hwf t) hx).1) hd hdo
  · intro hd
    have h1 := (Spec.mem_firstOfKeyNoValue (Spec.scanned_pairwise hwf t) hd).1
    exact ⟨(Spec.mem_scanned h1).1, List.mem_map.mpr ⟨d, hd, rfl⟩⟩

end Klev

#print axioms Klev.compactUpdates_model
#print axioms Klev.compactDeletes_model
#print axioms Klev.thenDelete_multi_complete
#print axioms Klev.compactUpdatesMulti_model
#print axioms Klev.compactDeletesMulti_model
