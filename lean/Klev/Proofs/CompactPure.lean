import Klev.Proofs.HelpersOK
import Klev.Proofs.Delete
namespace Klev
namespace Spec

/-! ### one-step unfoldings -/

theorem hasLaterSameKey_cons (m : Msg) (ms : List Msg) :
    hasLaterSameKey (m :: ms) =
      (if ms.any (fun m' => m'.key == m.key) then m :: hasLaterSameKey ms
       else hasLaterSameKey ms) := rfl

theorem firstOfKeyNoValue_cons (m : Msg) (ms : List Msg) (seen : List (List UInt8)) :
    firstOfKeyNoValue (m :: ms) seen =
      (if seen.contains m.key then firstOfKeyNoValue ms seen
       else if m.val = [] then m :: firstOfKeyNoValue ms (m.key :: seen)
       else firstOfKeyNoValue ms (m.key :: seen)) := rfl

theorem any_key_iff (m : Msg) (ms : List Msg) :
    ms.any (fun m' => m'.key == m.key) = true ↔ ∃ m' ∈ ms, m'.key = m.key := by
  rw [List.any_eq_true]
  constructor
  · rintro ⟨m', hm', hk⟩; exact ⟨m', hm', by simpa using hk⟩
  · rintro ⟨m', hm', hk⟩; exact ⟨m', hm', by simpa using hk⟩

theorem contains_msg_iff (l : List Msg) (m : Msg) : l.contains m = true ↔ m ∈ l := by
  simp

theorem not_contains_msg_iff (l : List Msg) (m : Msg) : (!l.contains m) = true ↔ m ∉ l := by
  simp

/-! ### the two selections -/

theorem mem_hasLaterSameKey {L : List Msg} (hp : L.Pairwise (fun a b => a.off < b.off)) {d : Msg}
    (hd : d ∈ hasLaterSameKey L) : d ∈ L ∧ ∃ m ∈ L, m.key = d.key ∧ d.off < m.off := by
  induction L with
  | nil => simp [hasLaterSameKey] at hd
  | cons m ms ih =>
    rw [List.pairwise_cons] at hp
    rw [hasLaterSameKey_cons] at hd
    by_cases ha : ms.any (fun m' => m'.key == m.key) = true
    · simp only [ha, if_true] at hd
      rcases List.mem_cons.mp hd with hdm | hd
      · subst hdm
        obtain ⟨m', hm', hk⟩ := (any_key_iff _ ms).mp ha
        exact ⟨List.mem_cons_self, m', List.mem_cons_of_mem _ hm', hk, hp.1 m' hm'⟩
      · obtain ⟨h1, m', hm', hk, hlt⟩ := ih hp.2 hd
        exact ⟨List.mem_cons_of_mem _ h1, m', List.mem_cons_of_mem _ hm', hk, hlt⟩
    · simp only [ha, Bool.false_eq_true, if_false] at hd
      obtain ⟨h1, m', hm', hk, hlt⟩ := ih hp.2 hd
      exact ⟨List.mem_cons_of_mem _ h1, m', List.mem_cons_of_mem _ hm', hk, hlt⟩

theorem mem_firstOfKeyNoValue_seen : ∀ (L : List Msg) (seen : List (List UInt8)),
    L.Pairwise (fun a b => a.off < b.off) → ∀ d : Msg, d ∈ firstOfKeyNoValue L seen →
      d ∈ L ∧ d.val = [] ∧ d.key ∉ seen ∧ ∀ m ∈ L, m.key = d.key → d.off ≤ m.off
  | [], seen, _, d, hd => by simp [firstOfKeyNoValue] at hd
  | m :: ms, seen, hp, d, hd => by
    rw [List.pairwise_cons] at hp
    rw [firstOfKeyNoValue_cons] at hd
    by_cases hc : seen.contains m.key = true
    · simp only [hc, if_true] at hd
      obtain ⟨h1, h2, h3, h4⟩ := mem_firstOfKeyNoValue_seen ms seen hp.2 d hd
      refine ⟨List.mem_cons_of_mem _ h1, h2, h3, ?_⟩
      intro m' hm' hk
      rcases List.mem_cons.mp hm' with rfl | hm'
      · exfalso; apply h3; rw [← hk]; simpa using hc
      · exact h4 m' hm' hk
    · have hns : m.key ∉ seen := by simpa using hc
      have hrest : d ∈ firstOfKeyNoValue ms (m.key :: seen) →
          d ∈ m :: ms ∧ d.val = [] ∧ d.key ∉ seen ∧ ∀ m' ∈ m :: ms, m'.key = d.key → d.off ≤ m'.off := by
        intro hd
        obtain ⟨h1, h2, h3, h4⟩ := mem_firstOfKeyNoValue_seen ms (m.key :: seen) hp.2 d hd
        refine ⟨List.mem_cons_of_mem _ h1, h2, fun h => h3 (List.mem_cons_of_mem _ h), ?_⟩
        intro m' hm' hk
        rcases List.mem_cons.mp hm' with rfl | hm'
        · exfalso; apply h3; rw [← hk]; exact List.mem_cons_self
        · exact h4 m' hm' hk
      by_cases hv : m.val = []
      · simp only [hc, Bool.false_eq_true, if_false, hv, if_true] at hd
        rcases List.mem_cons.mp hd with hdm | hd
        · subst hdm
          refine ⟨List.mem_cons_self, hv, hns, ?_⟩
          intro m' hm' _
          rcases List.mem_cons.mp hm' with rfl | hm'
          · exact Int.le_refl _
          · exact Int.le_of_lt (hp.1 m' hm')
        · exact hrest hd
      · simp only [hc, Bool.false_eq_true, if_false, hv] at hd
        exact hrest hd

theorem mem_firstOfKeyNoValue {L : List Msg} (hp : L.Pairwise (fun a b => a.off < b.off)) {d : Msg}
    (hd : d ∈ firstOfKeyNoValue L []) :
    d ∈ L ∧ d.val = [] ∧ ∀ m ∈ L, m.key = d.key → d.off ≤ m.off := by
  obtain ⟨h1, h2, _, h4⟩ := mem_firstOfKeyNoValue_seen L [] hp d hd
  exact ⟨h1, h2, h4⟩

/-! ### `latest` under removal -/

theorem withKey_removeAll (live del : List Msg) (k : List UInt8) :
    withKey (removeAll live del) k = (withKey live k).filter (fun m => !del.contains m) := by
  unfold withKey removeAll
  rw [List.filter_filter, List.filter_filter]
  apply List.filter_congr
  intro x _
  exact Bool.and_comm _ _

theorem mem_withKey {ms : List Msg} {k : List UInt8} {m : Msg} :
    m ∈ withKey ms k ↔ m ∈ ms ∧ m.key = k := by
  unfold withKey; simp [List.mem_filter]

theorem withKey_pairwise {ms : List Msg} (h : ms.Pairwise (fun a b => a.off < b.off))
    (k : List UInt8) : (withKey ms k).Pairwise (fun a b => a.off < b.off) := h.filter _

/-- The last element of an offset-increasing list has the greatest offset. -/
theorem getLast_off_max {l : List Msg} (hp : l.Pairwise (fun a b => a.off < b.off)) {m : Msg}
    (hl : l.getLast? = some m) : ∀ x ∈ l, x.off ≤ m.off := by
  obtain ⟨ys, rfl⟩ := List.getLast?_eq_some_iff.mp hl
  intro x hx
  rcases List.mem_append.mp hx with hx | hx
  · exact Int.le_of_lt ((List.pairwise_append.mp hp).2.2 x hx m (by simp))
  · have : x = m := by simpa using hx
    rw [this]; exact Int.le_refl _

/-- The common core: if the last message of key `k` is removed only when it has no value and is
also the oldest of its key, `latest k` does not change. -/
theorem latest_removeAll_core (s s' : Spec) (hwf : WF s) (del : List Msg)
    (hlive : s'.live = removeAll s.live del) (k : List UInt8)
    (h : ∀ m, (withKey s.live k).getLast? = some m → m ∈ del →
      m.val = [] ∧ ∀ x ∈ withKey s.live k, m.off ≤ x.off) :
    latest s' k = latest s k := by
  have hpw := withKey_pairwise hwf.1 k
  unfold latest
  rw [hlive, withKey_removeAll]
  cases hl : (withKey s.live k).getLast? with
  | none =>
    have : withKey s.live k = [] := List.getLast?_eq_none_iff.mp hl
    rw [this]; rfl
  | some m =>
    by_cases hm : m ∈ del
    · obtain ⟨hv, hmin⟩ := h m hl hm
      have hmax := getLast_off_max hpw hl
      have hmk : m ∈ withKey s.live k := List.mem_of_getLast? hl
      have hnil : (withKey s.live k).filter (fun m => !del.contains m) = [] := by
        rw [List.filter_eq_nil_iff]
        intro x hx
        have hxm : x = m := eq_of_off_eq hpw hx hmk (by
          have := hmin x hx; have := hmax x hx; omega)
        rw [hxm]
        simpa using hm
      rw [hnil]
      simp only [hv, if_true]
      rfl
    · rw [filter_getLast_of_last _ _ m hl (by simpa using hm)]

/-- Removing messages each of which has a LATER live message with the same key never changes `latest`. -/
theorem latest_removeAll_of_later (s s' : Spec) (hwf : WF s) (del : List Msg)
    (hlive : s'.live = removeAll s.live del)
    (hdel : ∀ d ∈ del, ∃ m ∈ s.live, m.key = d.key ∧ d.off < m.off) :
    ∀ k, latest s' k = latest s k := by
  intro k
  apply latest_removeAll_core s s' hwf del hlive k
  intro m hl hm
  exfalso
  obtain ⟨m', hm', hk, hlt⟩ := hdel m hm
  have hmk : m ∈ withKey s.live k := List.mem_of_getLast? hl
  have hm'k : m' ∈ withKey s.live k := mem_withKey.mpr ⟨hm', by rw [hk]; exact (mem_withKey.mp hmk).2⟩
  have := getLast_off_max (withKey_pairwise hwf.1 k) hl m' hm'k
  omega

/-- Removing value-less messages each of which is the OLDEST live message of its key never changes `latest`
(if such a message is also the last of its key, `latest` was `none` before — value-less means absent — and the key has no message afterwards, `none` again). -/
theorem latest_removeAll_of_first_novalue (s s' : Spec) (hwf : WF s) (del : List Msg)
    (hlive : s'.live = removeAll s.live del)
    (hdel : ∀ d ∈ del, d ∈ s.live ∧ d.val = [] ∧ ∀ m ∈ s.live, m.key = d.key → d.off ≤ m.off) :
    ∀ k, latest s' k = latest s k := by
  intro k
  apply latest_removeAll_core s s' hwf del hlive k
  intro m hl hm
  obtain ⟨_, hv, hmin⟩ := hdel m hm
  have hmk : m ∈ withKey s.live k := List.mem_of_getLast? hl
  refine ⟨hv, ?_⟩
  intro x hx
  obtain ⟨hx1, hx2⟩ := mem_withKey.mp hx
  exact hmin x hx1 (by rw [hx2]; exact (mem_withKey.mp hmk).2.symm)

/-! ### facts about `scanned` -/

theorem scanned_prefix (s : Spec) (t : Int) : scanned s t <+: s.live := List.takeWhile_prefix _

theorem scanned_pairwise {s : Spec} (hwf : WF s) (t : Int) :
    (scanned s t).Pairwise (fun a b => a.off < b.off) :=
  hwf.1.sublist (scanned_prefix s t).sublist

theorem mem_scanned {s : Spec} {t : Int} {m : Msg} (h : m ∈ scanned s t) :
    m ∈ s.live ∧ m.time ≤ t := by
  obtain ⟨h1, h2⟩ := Klev.mem_takeWhile _ _ _ h
  exact ⟨h1, by simpa using h2⟩

/-- A live message is scanned, or lies beyond every scanned one. -/
theorem live_scanned_or_later {s : Spec} (hwf : WF s) (t : Int) {m : Msg} (hm : m ∈ s.live) :
    m ∈ scanned s t ∨ ∀ x ∈ scanned s t, x.off < m.off := by
  obtain ⟨rest, hr⟩ := scanned_prefix s t
  have hp := hwf.1
  rw [← hr] at hp hm
  rcases List.mem_append.mp hm with hm | hm
  · exact Or.inl hm
  · exact Or.inr (fun x hx => (List.pairwise_append.mp hp).2.2 x hx m hm)

/-- A live message whose offset is that of a message of a sublist `H` of `scanned` is that message. -/
theorem live_of_off_mem {s : Spec} (hwf : WF s) {t : Int} {H : List Msg}
    (hH : ∀ x ∈ H, x ∈ scanned s t) {d : Msg} (hd : d ∈ s.live) (ho : d.off ∈ offsOf H) :
    d ∈ H := by
  obtain ⟨x, hx, hxo⟩ := List.mem_map.mp ho
  have : x = d := eq_of_off_eq hwf.1 (mem_scanned (hH x hx)).1 hd hxo
  rw [← this]; exact hx

/-! ### the compaction steps -/

/-- CompactUpdates: removing ANY subset of the FindUpdates selection. -/
theorem compactUpdates_latest (s s' : Spec) (hwf : WF s) (t : Int) (del : List Msg)
    (hsel : ∀ d ∈ del, d ∈ s.live ∧ d.off ∈ offsOf (hasLaterSameKey (scanned s t)))
    (hlive : s'.live = removeAll s.live del) :
    CompactLatestOK s s' ∧ (∀ k, latest s' k = latest s k) ∧ CompactUpdatesRemovedOK s t del := by
  have hpw := scanned_pairwise hwf t
  have hrem : CompactUpdatesRemovedOK s t del := by
    intro d hd
    obtain ⟨hdl, hdo⟩ := hsel d hd
    have hdH : d ∈ hasLaterSameKey (scanned s t) :=
      live_of_off_mem hwf (fun x hx => (mem_hasLaterSameKey hpw hx).1) hdl hdo
    obtain ⟨hds, m, hm, hk, hlt⟩ := mem_hasLaterSameKey hpw hdH
    exact ⟨(mem_scanned hds).2, m, (mem_scanned hm).1, hk, hlt⟩
  have hlat : ∀ k, latest s' k = latest s k :=
    latest_removeAll_of_later s s' hwf del hlive (fun d hd => (hrem d hd).2)
  exact ⟨fun k _ => hlat k, hlat, hrem⟩

/-- CompactDeletes: removing ANY subset of the FindDeletes selection. -/
theorem compactDeletes_latest (s s' : Spec) (hwf : WF s) (t : Int) (del : List Msg)
    (hsel : ∀ d ∈ del, d ∈ s.live ∧ d.off ∈ offsOf (firstOfKeyNoValue (scanned s t) []))
    (hlive : s'.live = removeAll s.live del) :
    CompactLatestOK s s' ∧ (∀ k, latest s' k = latest s k) ∧ CompactDeletesRemovedOK s t del := by
  have hpw := scanned_pairwise hwf t
  have hrem : CompactDeletesRemovedOK s t del := by
    intro d hd
    obtain ⟨hdl, hdo⟩ := hsel d hd
    have hdH : d ∈ firstOfKeyNoValue (scanned s t) [] :=
      live_of_off_mem hwf (fun x hx => (mem_firstOfKeyNoValue hpw hx).1) hdl hdo
    obtain ⟨hds, hv, hmin⟩ := mem_firstOfKeyNoValue hpw hdH
    refine ⟨(mem_scanned hds).2, hv, ?_⟩
    intro m hm hk
    rcases live_scanned_or_later hwf t hm with hms | hlater
    · exact hmin m hms hk
    · exact Int.le_of_lt (hlater d hds)
  have hlat : ∀ k, latest s' k = latest s k :=
    latest_removeAll_of_first_novalue s s' hwf del hlive
      (fun d hd => ⟨(hsel d hd).1, (hrem d hd).2⟩)
  exact ⟨fun k _ => hlat k, hlat, hrem⟩

/-! ### at most one message per key -/

/-- On a list with non-decreasing times, taking while not newer than `t` is filtering. -/
theorem takeWhile_time_eq_filter (t : Int) :
    ∀ (l : List Msg), l.Pairwise (fun x y => x.time ≤ y.time) →
      l.takeWhile (fun m => decide (m.time ≤ t)) = l.filter (fun m => decide (m.time ≤ t))
  | [], _ => rfl
  | m :: l, h => by
    rw [List.pairwise_cons] at h
    rw [List.takeWhile_cons, List.filter_cons]
    by_cases hm : m.time ≤ t
    · simp only [hm, decide_true, if_true]
      rw [takeWhile_time_eq_filter t l h.2]
    · simp only [hm, decide_false, Bool.false_eq_true, if_false]
      symm
      rw [List.filter_eq_nil_iff]
      intro x hx
      have := h.1 x hx
      simp only [decide_eq_true_eq]; omega

/-- What survives the removal of the whole `hasLaterSameKey` selection has distinct keys. -/
theorem nodup_keys_without_hasLater : ∀ (L : List Msg), L.Pairwise (fun a b => a.off < b.off) →
    ((L.filter (fun m => !(hasLaterSameKey L).contains m)).map (·.key)).Nodup
  | [], _ => by simp
  | m :: ms, hp => by
    have hp' := List.pairwise_cons.mp hp
    have ih := nodup_keys_without_hasLater ms hp'.2
    have hmms : m ∉ ms := fun h => by have := hp'.1 m h; omega
    have hsub : ∀ x ∈ hasLaterSameKey ms, x ∈ ms := fun x hx => (mem_hasLaterSameKey hp'.2 hx).1
    rw [hasLaterSameKey_cons]
    by_cases ha : ms.any (fun m' => m'.key == m.key) = true
    · simp only [ha, if_true]
      rw [List.filter_cons]
      have h1 : (!(m :: hasLaterSameKey ms).contains m) = false := by simp
      simp only [h1, Bool.false_eq_true, if_false]
      have hcongr : ms.filter (fun x => !(m :: hasLaterSameKey ms).contains x) =
          ms.filter (fun x => !(hasLaterSameKey ms).contains x) := by
        apply List.filter_congr
        intro x hx
        have hxm : x ≠ m := fun h => hmms (h ▸ hx)
        by_cases hxH : x ∈ hasLaterSameKey ms
        · simp [hxH]
        · simp [hxH, hxm]
      rw [hcongr]
      exact ih
    · simp only [ha, Bool.false_eq_true, if_false]
      rw [List.filter_cons]
      have h1 : (!(hasLaterSameKey ms).contains m) = true := by
        have : m ∉ hasLaterSameKey ms := fun h => hmms (hsub m h)
        simpa using this
      simp only [h1, if_true, List.map_cons]
      rw [List.nodup_cons]
      refine ⟨?_, ih⟩
      intro hk
      obtain ⟨x, hx, hxk⟩ := List.mem_map.mp hk
      apply ha
      exact (any_key_iff m ms).mpr ⟨x, (List.mem_filter.mp hx).1, hxk⟩

/-- After the whole FindUpdates selection is gone (no live message of s' has a selected offset), on a log with non-decreasing times there is at most one message per key among those not newer than t. -/
theorem compactUpdatesMulti_one_per_key (s s' : Spec) (hwf : WF s) (hmono : Monotone s) (t : Int)
    (del : List Msg) (hlive : s'.live = removeAll s.live del)
    (hfull : ∀ m ∈ s'.live, m.off ∉ offsOf (hasLaterSameKey (scanned s t))) :
    AtMostOnePerKey s' t := by
  unfold AtMostOnePerKey
  have hsc : scanned s t = s.live.filter (fun m => decide (m.time ≤ t)) :=
    takeWhile_time_eq_filter t s.live hmono.1
  have hsub1 : (s'.live.filter (fun m => decide (m.time ≤ t))).Sublist (scanned s t) := by
    rw [hsc, hlive]
    exact (List.filter_sublist (l := s.live)).filter _
  have hall : ∀ x ∈ s'.live.filter (fun m => decide (m.time ≤ t)),
      (!(hasLaterSameKey (scanned s t)).contains x) = true := by
    intro x hx
    have hxl := (List.mem_filter.mp hx).1
    have hno := hfull x hxl
    have : x ∉ hasLaterSameKey (scanned s t) := fun h => hno (List.mem_map.mpr ⟨x, h, rfl⟩)
    simpa using this
  have hsub2 : (s'.live.filter (fun m => decide (m.time ≤ t))).Sublist
      ((scanned s t).filter (fun m => !(hasLaterSameKey (scanned s t)).contains m)) := by
    have := hsub1.filter (fun m => !(hasLaterSameKey (scanned s t)).contains m)
    rwa [List.filter_eq_self.mpr hall] at this
  exact (nodup_keys_without_hasLater _ (scanned_pairwise hwf t)).sublist (hsub2.map _)

end Spec
end Klev

#print axioms Klev.Spec.mem_hasLaterSameKey
#print axioms Klev.Spec.mem_firstOfKeyNoValue
#print axioms Klev.Spec.latest_removeAll_of_later
#print axioms Klev.Spec.latest_removeAll_of_first_novalue
#print axioms Klev.Spec.compactUpdates_latest
#print axioms Klev.Spec.compactDeletes_latest
#print axioms Klev.Spec.compactUpdatesMulti_one_per_key
