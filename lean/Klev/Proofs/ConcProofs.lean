/-
C08: the lock discipline of `Klev/Conc.lean` is linearizable.

`Inv v0 c` is the reachability invariant of the interleaving semantics: the commit log is a
legal sequential execution from `v0` whose replay is the visible state; each mutex is held by
exactly the thread whose phase says so; a publisher between its file write and its index
append has stamped from the *current* next offset (only the `writerMu` holder moves it); a
deleter between its rewrite and its swap has chosen messages that are *still* visible (only
the `deleteMu` holder removes, a publish only appends); a thread has a log entry exactly when
its phase says it committed, exactly one, carrying its call and its result.

Main statements: `linearizable`, `done_result_in_log`, `start_not_in_log`, `log_prefix`,
`realtime_order` (`realtime_order_unique`), `replay_next`, `publish_entry_range`,
`no_unreported_loss` (`unreported_stays`, `replay_live_origin`), mutual exclusion
(`writer_exclusive`, `deleter_exclusive`), and `decide`d instances in `Ex`.
-/
import Klev.Conc
namespace Klev.Conc

abbrev Entry := Nat × Call × List Msg × Res

theorem replay_append (v : Vis) (l1 l2 : List Entry) :
    replay v (l1 ++ l2) = replay (replay v l1) l2 := by
  induction l1 generalizing v with
  | nil => rfl
  | cons e l ih => obtain ⟨i, c, ch, r⟩ := e; simp [replay, ih]

theorem logOK_append (v : Vis) (l1 l2 : List Entry) :
    LogOK v (l1 ++ l2) ↔ LogOK v l1 ∧ LogOK (replay v l1) l2 := by
  induction l1 generalizing v with
  | nil => simp [LogOK, replay]
  | cons e l ih => obtain ⟨i, c, ch, r⟩ := e; simp [LogOK, replay, ih, and_assoc]

theorem logOK_snoc {v : Vis} {l : List Entry} {i c ch r} (h : LogOK v l)
    (hl : LegalChoice (replay v l) c ch) (hr : (seqStep (replay v l) c ch).2 = r) :
    LogOK v (l ++ [(i, c, ch, r)]) := by
  rw [logOK_append]; exact ⟨h, hl, hr, trivial⟩

theorem replay_snoc (v : Vis) (l : List Entry) (i c ch r) :
    replay v (l ++ [(i, c, ch, r)]) = (seqStep (replay v l) c ch).1 := by
  rw [replay_append]; rfl

@[simp] def holdsW : Phase → Bool
  | .pubLocked | .pubWritten _ | .pubCommitted _ => true
  | _ => false

@[simp] def holdsD : Phase → Bool
  | .delLocked | .delRewritten _ | .delCommitted _ => true
  | _ => false

@[simp] def phaseRes : Phase → Option Res
  | .pubCommitted n => some (.next n)
  | .delCommitted ms => some (.deleted ms)
  | .done r => some r
  | _ => none

@[simp] def Compat : Call → Phase → Bool
  | _, .start => true
  | _, .done _ => true
  | .publish _, .pubLocked | .publish _, .pubWritten _ | .publish _, .pubCommitted _ => true
  | .delete _, .delLocked | .delete _, .delRewritten _ | .delete _, .delCommitted _ => true
  | _, _ => false

structure Inv (v0 : Vis) (c : Cfg) : Prop where
  logOK : LogOK v0 c.log
  replayEq : replay v0 c.log = c.vis
  wmu : ∀ (i : Nat) (t : Th), c.ths[i]? = some t → (holdsW t.phase = true ↔ c.writerMu = some i)
  dmu : ∀ (i : Nat) (t : Th), c.ths[i]? = some t → (holdsD t.phase = true ↔ c.deleteMu = some i)
  wvalid : ∀ i, c.writerMu = some i → i < c.ths.length
  dvalid : ∀ i, c.deleteMu = some i → i < c.ths.length
  pubW : ∀ (i : Nat) (t : Th) b ms, c.ths[i]? = some t → t.call = .publish b → t.phase = .pubWritten ms →
    ms = stamp c.vis.next b
  delR : ∀ (i : Nat) (t : Th) offs ms, c.ths[i]? = some t → t.call = .delete offs → t.phase = .delRewritten ms →
    ∀ m ∈ ms, m ∈ c.vis.live ∧ m.off ∈ offs
  noEntry : ∀ (i : Nat) (t : Th), c.ths[i]? = some t → phaseRes t.phase = none → ∀ e ∈ c.log, e.1 ≠ i
  entry : ∀ (i : Nat) (t : Th) r, c.ths[i]? = some t → phaseRes t.phase = some r →
    (∃ ch, (i, t.call, ch, r) ∈ c.log) ∧ (c.log.filter (fun e => e.1 == i)).length = 1
  compat : ∀ (i : Nat) (t : Th), c.ths[i]? = some t → Compat t.call t.phase = true

theorem getElem?_set_cases {α} {l : List α} {i j : Nat} {a b : α} (h : (l.set i a)[j]? = some b) :
    (j = i ∧ b = a) ∨ (j ≠ i ∧ l[j]? = some b) := by
  rw [List.getElem?_set] at h
  split at h
  · subst_vars; split at h <;> simp_all
  · exact Or.inr ⟨by omega, h⟩

theorem lt_of_getElem?_eq_some {α} {l : List α} {i : Nat} {a : α} (h : l[i]? = some a) : i < l.length := by
  have := List.getElem?_eq_some_iff.mp h
  exact this.1

theorem filter_snoc_ne {l : List Entry} {i j : Nat} {x : Call × List Msg × Res} (h : j ≠ i) :
    (l ++ [(i, x)]).filter (fun e => e.1 == j) = l.filter (fun e => e.1 == j) := by
  simp [List.filter_append, Ne.symm h]

theorem filter_snoc_self {l : List Entry} {i : Nat} {x : Call × List Msg × Res}
    (h : ∀ e ∈ l, e.1 ≠ i) :
    (l ++ [(i, x)]).filter (fun e => e.1 == i) = [(i, x)] := by
  have : l.filter (fun e => e.1 == i) = [] := by
    rw [List.filter_eq_nil_iff]; intro a ha; simpa using h a ha
  simp [List.filter_append, this]


theorem Inv.commit {v0 : Vis} {c : Cfg} {i : Nat} {t t' : Th} {vis' : Vis} {ch : List Msg} {r : Res}
    (h : Inv v0 c) (hi : c.ths[i]? = some t)
    (hcall : t'.call = t.call) (hnone : phaseRes t.phase = none) (hsome : phaseRes t'.phase = some r)
    (hcompat : Compat t'.call t'.phase = true)
    (hW : holdsW t'.phase = holdsW t.phase) (hD : holdsD t'.phase = holdsD t.phase)
    (hlegal : LegalChoice c.vis t.call ch) (hseq : seqStep c.vis t.call ch = (vis', r))
    (hnext : vis'.next = c.vis.next ∨ holdsW t.phase = true)
    (hlive : (∀ m ∈ c.vis.live, m ∈ vis'.live) ∨ holdsD t.phase = true) :
    Inv v0 { c with vis := vis', ths := c.ths.set i t',
                    log := c.log ++ [(i, t.call, ch, r)] } := by
  have hlt := lt_of_getElem?_eq_some hi
  have hWi := h.wmu i t hi
  have hDi := h.dmu i t hi
  have hN := h.noEntry i t hi hnone
  constructor
  · exact logOK_snoc h.logOK (by rw [h.replayEq]; exact hlegal) (by rw [h.replayEq, hseq])
  · show replay v0 (c.log ++ _) = vis'
    rw [replay_snoc, h.replayEq, hseq]
  · intro j tj hj
    rcases getElem?_set_cases hj with ⟨rfl, rfl⟩ | ⟨hne, hj'⟩
    · rw [hW]; exact hWi
    · exact h.wmu j tj hj'
  · intro j tj hj
    rcases getElem?_set_cases hj with ⟨rfl, rfl⟩ | ⟨hne, hj'⟩
    · rw [hD]; exact hDi
    · exact h.dmu j tj hj'
  · intro j hj; simpa using h.wvalid j hj
  · intro j hj; simpa using h.dvalid j hj
  · intro j tj b ms hj hcj hpj
    rcases getElem?_set_cases hj with ⟨rfl, rfl⟩ | ⟨hne, hj'⟩
    · rw [hpj] at hsome; simp at hsome
    · show ms = stamp vis'.next b
      rcases hnext with hn | hw
      · rw [hn]; exact h.pubW j tj b ms hj' hcj hpj
      · have h1 := (h.wmu j tj hj').mp (by rw [hpj]; rfl)
        have h2 := hWi.mp hw
        rw [h1] at h2; exact absurd (Option.some.inj h2) hne
  · intro j tj offs ms hj hcj hpj
    rcases getElem?_set_cases hj with ⟨rfl, rfl⟩ | ⟨hne, hj'⟩
    · rw [hpj] at hsome; simp at hsome
    · show ∀ m ∈ ms, m ∈ vis'.live ∧ m.off ∈ offs
      rcases hlive with hl | hd
      · intro m hm
        have := h.delR j tj offs ms hj' hcj hpj m hm
        exact ⟨hl m this.1, this.2⟩
      · have h1 := (h.dmu j tj hj').mp (by rw [hpj]; rfl)
        have h2 := hDi.mp hd
        rw [h1] at h2; exact absurd (Option.some.inj h2) hne
  · intro j tj hj
    rcases getElem?_set_cases hj with ⟨rfl, rfl⟩ | ⟨hne, hj'⟩
    · intro hr; rw [hsome] at hr; simp at hr
    · intro hr e he
      simp only [List.mem_append, List.mem_singleton] at he
      rcases he with he | rfl
      · exact h.noEntry j tj hj' hr e he
      · exact Ne.symm hne
  · intro j tj r' hj
    rcases getElem?_set_cases hj with ⟨rfl, rfl⟩ | ⟨hne, hj'⟩
    · intro hr
      rw [hsome] at hr; cases hr
      refine ⟨⟨ch, by simp [hcall]⟩, ?_⟩
      show ((c.log ++ _).filter _).length = 1
      rw [filter_snoc_self hN]; rfl
    · intro hr
      obtain ⟨⟨ch', hm⟩, hl⟩ := h.entry j tj r' hj' hr
      refine ⟨⟨ch', List.mem_append_left _ hm⟩, ?_⟩
      show ((c.log ++ _).filter _).length = 1
      rw [filter_snoc_ne hne]; exact hl
  · intro j tj hj
    rcases getElem?_set_cases hj with ⟨rfl, rfl⟩ | ⟨hne, hj'⟩
    · exact hcompat
    · exact h.compat j tj hj'

theorem Inv.move {v0 : Vis} {c : Cfg} {i : Nat} {t t' : Th} {w' d' : Option Nat}
    (h : Inv v0 c) (hi : c.ths[i]? = some t)
    (hcall : t'.call = t.call) (hres : phaseRes t'.phase = phaseRes t.phase)
    (hcompat : Compat t'.call t'.phase = true)
    (hw : holdsW t'.phase = true ↔ w' = some i)
    (hwo : ∀ j, j ≠ i → (w' = some j ↔ c.writerMu = some j))
    (hd : holdsD t'.phase = true ↔ d' = some i)
    (hdo : ∀ j, j ≠ i → (d' = some j ↔ c.deleteMu = some j))
    (hpw : ∀ b ms, t'.call = .publish b → t'.phase = .pubWritten ms → ms = stamp c.vis.next b)
    (hdr : ∀ offs ms, t'.call = .delete offs → t'.phase = .delRewritten ms →
      ∀ m ∈ ms, m ∈ c.vis.live ∧ m.off ∈ offs) :
    Inv v0 { c with writerMu := w', deleteMu := d', ths := c.ths.set i t' } := by
  have hlt := lt_of_getElem?_eq_some hi
  constructor
  · exact h.logOK
  · exact h.replayEq
  · intro j tj hj
    rcases getElem?_set_cases hj with ⟨rfl, rfl⟩ | ⟨hne, hj'⟩
    · exact hw
    · exact (h.wmu j tj hj').trans (hwo j hne).symm
  · intro j tj hj
    rcases getElem?_set_cases hj with ⟨rfl, rfl⟩ | ⟨hne, hj'⟩
    · exact hd
    · exact (h.dmu j tj hj').trans (hdo j hne).symm
  · intro j hj
    show j < (c.ths.set i t').length
    rw [List.length_set]
    by_cases hji : j = i
    · subst hji; exact hlt
    · exact h.wvalid j ((hwo j hji).mp hj)
  · intro j hj
    show j < (c.ths.set i t').length
    rw [List.length_set]
    by_cases hji : j = i
    · subst hji; exact hlt
    · exact h.dvalid j ((hdo j hji).mp hj)
  · intro j tj b ms hj hcj hpj
    rcases getElem?_set_cases hj with ⟨rfl, rfl⟩ | ⟨hne, hj'⟩
    · exact hpw b ms hcj hpj
    · exact h.pubW j tj b ms hj' hcj hpj
  · intro j tj offs ms hj hcj hpj
    rcases getElem?_set_cases hj with ⟨rfl, rfl⟩ | ⟨hne, hj'⟩
    · exact hdr offs ms hcj hpj
    · exact h.delR j tj offs ms hj' hcj hpj
  · intro j tj hj
    rcases getElem?_set_cases hj with ⟨rfl, rfl⟩ | ⟨hne, hj'⟩
    · intro hr; rw [hres] at hr; exact h.noEntry j t hi hr
    · exact h.noEntry j tj hj'
  · intro j tj r hj
    rcases getElem?_set_cases hj with ⟨rfl, rfl⟩ | ⟨hne, hj'⟩
    · intro hr; rw [hres] at hr; rw [hcall]; exact h.entry j t r hi hr
    · exact h.entry j tj r hj'
  · intro j tj hj
    rcases getElem?_set_cases hj with ⟨rfl, rfl⟩ | ⟨hne, hj'⟩
    · exact hcompat
    · exact h.compat j tj hj'


theorem usable_spec {v : Vis} {offs : List Int} {p : List Msg} (h : usable v offs p = true) :
    ∀ m ∈ p, m ∈ v.live ∧ m.off ∈ offs := by
  intro m hm
  simp only [usable, List.all_eq_true, Bool.and_eq_true, List.contains_iff_mem] at h
  exact h m hm

theorem Inv.step {v0 : Vis} {c : Cfg} (h : Inv v0 c) (i : Nat) : Inv v0 (step c i) := by
  unfold Klev.Conc.step
  split
  · exact h
  · rename_i t hi
    have hWi := h.wmu i t hi
    have hDi := h.dmu i t hi
    split
    · -- read
      rename_i q hc hp
      exact Inv.commit (t' := { t with phase := .done (.answer q c.vis) }) (ch := []) h hi rfl
        (by rw [hp]; rfl) rfl (by simp) (by rw [hp]; rfl) (by rw [hp]; rfl)
        (by rw [hc]; rfl) (by rw [hc]; rfl) (Or.inl rfl) (Or.inl (fun _ hm => hm))
    · -- publish, start
      rename_i b hc hp
      rw [hp] at hWi hDi
      split
      · rename_i hw
        exact Inv.move (t' := { t with phase := .pubLocked }) (w' := some i) (d' := c.deleteMu)
          h hi rfl (by rw [hp]; rfl) (by simp [hc]) (by simp)
          (by intro j hne; simp [hw]; omega) (by simpa using hDi) (fun _ _ => Iff.rfl)
          (by intro _ _ _ hph; cases hph) (by intro _ _ _ hph; cases hph)
      · exact h
    · -- publish, locked
      rename_i b hc hp
      rw [hp] at hWi hDi
      exact Inv.move (t' := { t with phase := .pubWritten (stamp c.vis.next b) })
        (w' := c.writerMu) (d' := c.deleteMu)
        h hi rfl (by rw [hp]; rfl) (by simp [hc]) (by simpa using hWi)
        (fun _ _ => Iff.rfl) (by simpa using hDi) (fun _ _ => Iff.rfl)
        (by intro b' ms hcb hph; rw [hc] at hcb; cases hcb; cases hph; rfl)
        (by intro _ _ _ hph; cases hph)
    · -- publish, written: the commit
      rename_i b ms hc hp
      have hms := h.pubW i t b ms hi hc hp
      subst hms
      exact Inv.commit (t' := { t with phase := .pubCommitted (c.vis.next + b.length) }) (ch := [])
        h hi rfl (by rw [hp]; rfl) rfl (by simp [hc]) (by rw [hp]; rfl) (by rw [hp]; rfl)
        (by rw [hc]; rfl) (by rw [hc]; rfl) (Or.inr (by rw [hp]; rfl))
        (Or.inl (fun _ hm => List.mem_append_left _ hm))
    · -- publish, committed: release
      rename_i b n hc hp
      rw [hp] at hWi hDi
      have hw : c.writerMu = some i := hWi.mp rfl
      exact Inv.move (t' := { t with phase := .done (.next n) }) (w' := none) (d' := c.deleteMu)
        h hi rfl (by rw [hp]; rfl) (by simp) (by simp)
        (by intro j hne; simp [hw]; omega) (by simpa using hDi) (fun _ _ => Iff.rfl)
        (by intro _ _ _ hph; cases hph) (by intro _ _ _ hph; cases hph)
    · -- delete, start
      rename_i offs hc hp
      rw [hp] at hWi hDi
      split
      · rename_i hd
        exact Inv.move (t' := { t with phase := .delLocked }) (w' := c.writerMu) (d' := some i)
          h hi rfl (by rw [hp]; rfl) (by simp [hc]) (by simpa using hWi) (fun _ _ => Iff.rfl)
          (by simp) (by intro j hne; simp [hd]; omega)
          (by intro _ _ _ hph; cases hph) (by intro _ _ _ hph; cases hph)
      · exact h
    · -- delete, locked: choose and rewrite
      rename_i offs hc hp
      rw [hp] at hWi hDi
      split
      · exact Inv.move (t' := { t with phase := .delRewritten [] })
          (w' := c.writerMu) (d' := c.deleteMu)
          h hi rfl (by rw [hp]; rfl) (by simp [hc]) (by simpa using hWi) (fun _ _ => Iff.rfl)
          (by simpa using hDi) (fun _ _ => Iff.rfl)
          (by intro _ _ _ hph; cases hph)
          (by intro _ ms _ hph; cases hph; intro m hm; cases hm)
      · rename_i p rest hpk
        exact Inv.move
          (t' := { t with phase := .delRewritten (if usable c.vis offs p then p else []), picks := rest })
          (w' := c.writerMu) (d' := c.deleteMu)
          h hi rfl (by rw [hp]; rfl) (by simp [hc]) (by simpa using hWi) (fun _ _ => Iff.rfl)
          (by simpa using hDi) (fun _ _ => Iff.rfl)
          (by intro _ _ _ hph; cases hph)
          (by
            intro offs' ms hco hph
            rw [hc] at hco; cases hco; cases hph
            split
            · rename_i hu; exact usable_spec hu
            · intro m hm; cases hm)
    · -- delete, rewritten: the commit (needs the writer lock free)
      rename_i offs ms hc hp
      split
      · exact h
      · exact Inv.commit (t' := { t with phase := .delCommitted ms }) (ch := ms)
          (vis' := ⟨c.vis.live.filter (fun m => !ms.contains m), c.vis.next⟩)
          h hi rfl (by rw [hp]; rfl) rfl (by simp [hc]) (by rw [hp]; rfl) (by rw [hp]; rfl)
          (by rw [hc]; exact h.delR i t offs ms hi hc hp) (by rw [hc]; rfl) (Or.inl rfl)
          (Or.inr (by rw [hp]; rfl))
    · -- delete, committed: release
      rename_i offs ms hc hp
      rw [hp] at hWi hDi
      have hd : c.deleteMu = some i := hDi.mp rfl
      exact Inv.move (t' := { t with phase := .done (.deleted ms) }) (w' := c.writerMu) (d' := none)
        h hi rfl (by rw [hp]; rfl) (by simp) (by simpa using hWi) (fun _ _ => Iff.rfl)
        (by simp) (by intro j hne; simp [hd]; omega)
        (by intro _ _ _ hph; cases hph) (by intro _ _ _ hph; cases hph)
    · exact h


/-! ### the invariant holds initially and along every schedule -/

theorem Inv.init {v0 : Vis} {ths : List Th} (h : Fresh ths) : Inv v0 (init v0 ths) := by
  have hs : ∀ (i : Nat) (t : Th), (Klev.Conc.init v0 ths).ths[i]? = some t → t.phase = .start :=
    fun i t hi => h t (List.mem_of_getElem? hi)
  constructor
  · trivial
  · rfl
  · intro i t hi; rw [hs i t hi]; simp [Klev.Conc.init]
  · intro i t hi; rw [hs i t hi]; simp [Klev.Conc.init]
  · intro i hi; simp [Klev.Conc.init] at hi
  · intro i hi; simp [Klev.Conc.init] at hi
  · intro i t b ms hi _ hp; rw [hs i t hi] at hp; cases hp
  · intro i t b ms hi _ hp; rw [hs i t hi] at hp; cases hp
  · intro i t _ _ e he; simp [Klev.Conc.init] at he
  · intro i t r hi hp; rw [hs i t hi] at hp; simp at hp
  · intro i t hi; rw [hs i t hi]; simp

theorem Inv.run {v0 : Vis} {c : Cfg} (h : Inv v0 c) (sched : List Nat) : Inv v0 (run c sched) := by
  induction sched generalizing c with
  | nil => exact h
  | cons i rest ih => exact ih (h.step i)

theorem inv_reachable (v0 : Vis) (ths : List Th) (h : Fresh ths) (sched : List Nat) :
    Inv v0 (run (init v0 ths) sched) :=
  (Inv.init h).run sched

/-! ### 1. linearizability -/

theorem linearizable (v0 : Vis) (ths : List Th) (h : Fresh ths) (sched : List Nat) :
    LogOK v0 (run (init v0 ths) sched).log ∧
      replay v0 (run (init v0 ths) sched).log = (run (init v0 ths) sched).vis :=
  ⟨(inv_reachable v0 ths h sched).logOK, (inv_reachable v0 ths h sched).replayEq⟩

/-! ### 2. results and log entries -/

theorem done_result_in_log (v0 : Vis) (ths : List Th) (h : Fresh ths) (sched : List Nat)
    (i : Nat) (t : Th) (r : Res)
    (hi : (run (init v0 ths) sched).ths[i]? = some t) (hd : t.phase = .done r) :
    ∃ ch, (i, t.call, ch, r) ∈ (run (init v0 ths) sched).log ∧
      ((run (init v0 ths) sched).log.filter (fun e => e.1 == i)).length = 1 := by
  obtain ⟨⟨ch, hm⟩, hl⟩ := (inv_reachable v0 ths h sched).entry i t r hi (by rw [hd]; rfl)
  exact ⟨ch, hm, hl⟩

theorem start_not_in_log (v0 : Vis) (ths : List Th) (h : Fresh ths) (sched : List Nat)
    (i : Nat) (t : Th)
    (hi : (run (init v0 ths) sched).ths[i]? = some t) (hs : t.phase = .start) :
    ∀ e ∈ (run (init v0 ths) sched).log, e.1 ≠ i :=
  (inv_reachable v0 ths h sched).noEntry i t hi (by rw [hs]; rfl)

/-! ### 3. real-time order -/

theorem step_log (c : Cfg) (i : Nat) : ∃ ext, (step c i).log = c.log ++ ext := by
  unfold Klev.Conc.step
  split
  · exact ⟨[], (List.append_nil _).symm⟩
  · split <;> (try split) <;>
      first
        | exact ⟨[], (List.append_nil _).symm⟩
        | exact ⟨_, rfl⟩

theorem log_prefix (c : Cfg) (sched : List Nat) : ∃ ext, (run c sched).log = c.log ++ ext := by
  induction sched generalizing c with
  | nil => exact ⟨[], (List.append_nil _).symm⟩
  | cons i rest ih =>
    obtain ⟨e1, h1⟩ := step_log c i
    obtain ⟨e2, h2⟩ := ih (step c i)
    exact ⟨e1 ++ e2, by show (Klev.Conc.run (step c i) rest).log = _; rw [h2, h1, List.append_assoc]⟩

theorem run_append (c : Cfg) (s1 s2 : List Nat) : run c (s1 ++ s2) = run (run c s1) s2 := by
  induction s1 generalizing c with
  | nil => rfl
  | cons i rest ih => exact ih (step c i)

theorem exists_first {α : Type} (p : α → Prop) [DecidablePred p] :
    ∀ (l : List α), (∃ x ∈ l, p x) →
      ∃ pre x post, l = pre ++ x :: post ∧ p x ∧ ∀ y ∈ pre, ¬ p y
  | [], h => by obtain ⟨x, hx, _⟩ := h; cases hx
  | a :: l, h => by
    by_cases ha : p a
    · exact ⟨[], a, l, rfl, ha, fun _ hy => by cases hy⟩
    · have : ∃ x ∈ l, p x := by
        obtain ⟨x, hx, hpx⟩ := h
        rcases List.mem_cons.mp hx with rfl | hx
        · exact absurd hpx ha
        · exact ⟨x, hx, hpx⟩
      obtain ⟨pre, x, post, hl, hpx, hpre⟩ := exists_first p l this
      refine ⟨a :: pre, x, post, by rw [hl]; rfl, hpx, ?_⟩
      intro y hy
      rcases List.mem_cons.mp hy with rfl | hy
      · exact ha
      · exact hpre y hy

theorem realtime_order (v0 : Vis) (ths : List Th) (h : Fresh ths) (s1 s2 : List Nat) (i j : Nat)
    (ti tj : Th) (r : Res)
    (hi : (run (init v0 ths) s1).ths[i]? = some ti) (hdi : ti.phase = .done r)
    (hj : (run (init v0 ths) s1).ths[j]? = some tj) (hsj : tj.phase = .start) :
    ∃ pre post ei, (run (init v0 ths) (s1 ++ s2)).log = pre ++ ei :: post ∧ ei.1 = i ∧
      (∀ e ∈ pre, e.1 ≠ j) ∧ (∀ e ∈ pre, e.1 ≠ i) := by
  obtain ⟨ch, hm, _⟩ := done_result_in_log v0 ths h s1 i ti r hi hdi
  have hnj := start_not_in_log v0 ths h s1 j tj hj hsj
  obtain ⟨pre, ei, post, hl, hei, hpre⟩ :=
    exists_first (fun e : Entry => e.1 = i) _ ⟨_, hm, rfl⟩
  obtain ⟨ext, hext⟩ := log_prefix (run (init v0 ths) s1) s2
  refine ⟨pre, post ++ ext, ei, ?_, hei, ?_, hpre⟩
  · rw [run_append, hext, hl]; simp
  · intro e he
    exact hnj e (by rw [hl]; exact List.mem_append_left _ he)


theorem step_length (c : Cfg) (i : Nat) : (step c i).ths.length = c.ths.length := by
  unfold Klev.Conc.step
  split
  · rfl
  · split <;> (try split) <;> simp only [List.length_set]

theorem run_length (c : Cfg) (sched : List Nat) : (run c sched).ths.length = c.ths.length := by
  induction sched generalizing c with
  | nil => rfl
  | cons i rest ih => exact (ih (step c i)).trans (step_length c i)

/-- In a reachable configuration a thread has at most one entry. -/
theorem Inv.entry_unique {v0 : Vis} {c : Cfg} (h : Inv v0 c) {i : Nat} (hlt : i < c.ths.length)
    {pre post : List Entry} {ei : Entry} (hl : c.log = pre ++ ei :: post) (hei : ei.1 = i) :
    (∀ e ∈ pre, e.1 ≠ i) ∧ (∀ e ∈ post, e.1 ≠ i) := by
  obtain ⟨t, ht⟩ : ∃ t, c.ths[i]? = some t := ⟨c.ths[i], List.getElem?_eq_getElem hlt⟩
  cases hp : phaseRes t.phase with
  | none =>
    exact absurd hei (h.noEntry i t ht hp ei (by rw [hl]; simp))
  | some r =>
    have hlen := (h.entry i t r ht hp).2
    subst hei
    rw [hl, List.filter_append, List.filter_cons] at hlen
    simp only [beq_self_eq_true, if_true, List.length_append, List.length_cons] at hlen
    rw [← Nat.add_assoc] at hlen
    obtain ⟨h1, h2⟩ := Nat.add_eq_zero_iff.mp (Nat.succ.inj hlen)
    rw [List.length_eq_zero_iff, List.filter_eq_nil_iff] at h1 h2
    exact ⟨fun e he => by simpa using h1 e he, fun e he => by simpa using h2 e he⟩

/-- The same with uniqueness spelled out: `i`'s only entry precedes every entry of `j`. -/
theorem realtime_order_unique (v0 : Vis) (ths : List Th) (h : Fresh ths) (s1 s2 : List Nat)
    (i j : Nat) (ti tj : Th) (r : Res)
    (hi : (run (init v0 ths) s1).ths[i]? = some ti) (hdi : ti.phase = .done r)
    (hj : (run (init v0 ths) s1).ths[j]? = some tj) (hsj : tj.phase = .start) :
    ∃ pre post ei, (run (init v0 ths) (s1 ++ s2)).log = pre ++ ei :: post ∧ ei.1 = i ∧
      (∀ e ∈ pre, e.1 ≠ j) ∧ (∀ e ∈ pre, e.1 ≠ i) ∧ (∀ e ∈ post, e.1 ≠ i) := by
  obtain ⟨pre, post, ei, hl, hei, hpj, hpi⟩ :=
    realtime_order v0 ths h s1 s2 i j ti tj r hi hdi hj hsj
  have hlt : i < (run (init v0 ths) (s1 ++ s2)).ths.length := by
    rw [run_length, ← run_length (init v0 ths) s1]
    exact lt_of_getElem?_eq_some hi
  exact ⟨pre, post, ei, hl, hei, hpj, hpi,
    ((inv_reachable v0 ths h (s1 ++ s2)).entry_unique hlt hl hei).2⟩


/-! ### mutual exclusion -/

theorem writer_exclusive (v0 : Vis) (ths : List Th) (h : Fresh ths) (sched : List Nat)
    (i j : Nat) (ti tj : Th)
    (hi : (run (init v0 ths) sched).ths[i]? = some ti) (hj : (run (init v0 ths) sched).ths[j]? = some tj)
    (hwi : holdsW ti.phase = true) (hwj : holdsW tj.phase = true) : i = j := by
  have inv := inv_reachable v0 ths h sched
  have h1 := (inv.wmu i ti hi).mp hwi
  have h2 := (inv.wmu j tj hj).mp hwj
  rw [h1] at h2; exact Option.some.inj h2

theorem deleter_exclusive (v0 : Vis) (ths : List Th) (h : Fresh ths) (sched : List Nat)
    (i j : Nat) (ti tj : Th)
    (hi : (run (init v0 ths) sched).ths[i]? = some ti) (hj : (run (init v0 ths) sched).ths[j]? = some tj)
    (hdi : holdsD ti.phase = true) (hdj : holdsD tj.phase = true) : i = j := by
  have inv := inv_reachable v0 ths h sched
  have h1 := (inv.dmu i ti hi).mp hdi
  have h2 := (inv.dmu j tj hj).mp hdj
  rw [h1] at h2; exact Option.some.inj h2

/-- The swap of a Delete waits while any Publish holds the writer lock: a Delete cannot commit
between a Publish's file write and its index append. -/
theorem delete_commit_waits {v0 : Vis} {c : Cfg} (inv : Inv v0 c) {i k : Nat} {t tk : Th}
    {offs : List Int} {ms : List Msg}
    (hi : c.ths[i]? = some t) (hc : t.call = .delete offs) (hp : t.phase = .delRewritten ms)
    (hk : c.ths[k]? = some tk) (hwk : holdsW tk.phase = true) : step c i = c := by
  have hw := (inv.wmu k tk hk).mp hwk
  simp [step, hi, hc, hp, hw]

/-! ### 4. publishers receive disjoint consecutive ranges -/

theorem replay_next' (v : Vis) (log : List Entry) :
    (replay v log).next = v.next +
      ((log.filterMap (fun e => match e.2.1 with
        | .publish b => some (b.length : Int) | _ => none)).sum) := by
  induction log generalizing v with
  | nil => simp [replay]
  | cons e rest ih =>
    obtain ⟨i, c, ch, r⟩ := e
    cases c with
    | publish b =>
      simp only [replay, List.filterMap_cons, List.sum_cons]
      rw [ih]; simp only [seqStep]; omega
    | delete offs =>
      simp only [replay, List.filterMap_cons]
      rw [ih]; simp only [seqStep]
    | read q =>
      simp only [replay, List.filterMap_cons]
      rw [ih]; simp only [seqStep]

/-- next offset after replaying a log -/
theorem replay_next (v : Vis) (log : List Entry) (_h : LogOK v log) :
    (replay v log).next = v.next +
      ((log.filterMap (fun e => match e.2.1 with
        | .publish b => some (b.length : Int) | _ => none)).sum) :=
  replay_next' v log

theorem publish_entry_range (v : Vis) (pre post : List Entry) (i : Nat) (b : Batch)
    (ch : List Msg) (r : Res)
    (h : LogOK v (pre ++ (i, Call.publish b, ch, r) :: post)) :
    r = .next ((replay v pre).next + b.length) := by
  rw [logOK_append] at h
  exact h.2.2.1.symm

/-- and the messages it made visible are exactly its batch stamped from there -/
theorem publish_entry_live (v : Vis) (pre : List Entry) (i : Nat) (b : Batch)
    (ch : List Msg) (r : Res) :
    (replay v (pre ++ [(i, Call.publish b, ch, r)])).live =
      (replay v pre).live ++ stamp (replay v pre).next b := by
  rw [replay_snoc]; rfl

theorem stamp_length (n : Int) (b : Batch) : (stamp n b).length = b.length := by
  induction b generalizing n with
  | nil => rfl
  | cons x rest ih => obtain ⟨t, k, v⟩ := x; simp [stamp, ih]

/-- the offsets of a stamped batch lie in `[n, n + length)` -/
theorem stamp_range (n : Int) (b : Batch) :
    ∀ m ∈ stamp n b, n ≤ m.off ∧ m.off < n + b.length := by
  induction b generalizing n with
  | nil => intro m hm; cases hm
  | cons x rest ih =>
    obtain ⟨t, k, v⟩ := x
    intro m hm
    simp only [stamp, List.mem_cons] at hm
    rcases hm with rfl | hm
    · simp only [List.length_cons]; omega
    · have := ih (n + 1) m hm
      simp only [List.length_cons]; omega

/-! ### 5. a visible message disappears only by a Delete that reports it -/

theorem no_unreported_loss (v : Vis) (log : List Entry) (h : LogOK v log) (m : Msg)
    (hm : m ∈ v.live) (hgone : m ∉ (replay v log).live) :
    ∃ e ∈ log, ∃ offs, e.2.1 = Call.delete offs ∧ m ∈ e.2.2.1 ∧ e.2.2.2 = .deleted e.2.2.1 := by
  induction log generalizing v with
  | nil => exact absurd hm hgone
  | cons e rest ih =>
    obtain ⟨i, c, ch, r⟩ := e
    obtain ⟨_, hr, hrest⟩ := h
    have lift : (∃ e ∈ rest, ∃ offs, e.2.1 = Call.delete offs ∧ m ∈ e.2.2.1 ∧
        e.2.2.2 = .deleted e.2.2.1) →
        ∃ e ∈ (i, c, ch, r) :: rest, ∃ offs, e.2.1 = Call.delete offs ∧ m ∈ e.2.2.1 ∧
          e.2.2.2 = .deleted e.2.2.1 := by
      rintro ⟨e, he, hx⟩; exact ⟨e, List.mem_cons_of_mem _ he, hx⟩
    cases c with
    | publish b =>
      exact lift (ih _ hrest (List.mem_append_left _ hm) hgone)
    | read q =>
      exact lift (ih _ hrest hm hgone)
    | delete offs =>
      by_cases hc : m ∈ ch
      · exact ⟨_, List.mem_cons_self, offs, rfl, hc, hr.symm⟩
      · refine lift (ih _ hrest ?_ hgone)
        simp only [seqStep, List.mem_filter]
        exact ⟨hm, by simpa using hc⟩

/-- the contrapositive: visible and never reported by a Delete, still visible -/
theorem unreported_stays (v : Vis) (log : List Entry) (h : LogOK v log) (m : Msg)
    (hm : m ∈ v.live)
    (hnever : ∀ e ∈ log, ∀ offs, e.2.1 = Call.delete offs → m ∉ e.2.2.1) :
    m ∈ (replay v log).live := by
  apply Classical.byContradiction
  intro hgone
  obtain ⟨e, he, offs, hc, hin, _⟩ := no_unreported_loss v log h m hm hgone
  exact hnever e he offs hc hin

/-- replay never invents or alters a message: what is visible afterwards was visible before
or is a published message, stamped from the next offset at its commit -/
theorem replay_live_origin (v : Vis) (log : List Entry) :
    ∀ m ∈ (replay v log).live, m ∈ v.live ∨
      ∃ pre e post b, log = pre ++ e :: post ∧ e.2.1 = Call.publish b ∧
        m ∈ stamp (replay v pre).next b := by
  induction log generalizing v with
  | nil => intro m hm; exact Or.inl hm
  | cons e rest ih =>
    obtain ⟨i, c, ch, r⟩ := e
    intro m hm
    have lift : (∃ pre e post b, rest = pre ++ e :: post ∧ e.2.1 = Call.publish b ∧
        m ∈ stamp (replay (seqStep v c ch).1 pre).next b) →
        ∃ pre e post b, (i, c, ch, r) :: rest = pre ++ e :: post ∧ e.2.1 = Call.publish b ∧
          m ∈ stamp (replay v pre).next b := by
      rintro ⟨pre, e, post, b, hl, hb, hs⟩
      exact ⟨(i, c, ch, r) :: pre, e, post, b, by rw [hl]; rfl, hb, hs⟩
    rcases ih _ m hm with h1 | h1
    · cases c with
      | publish b =>
        rcases List.mem_append.mp h1 with h2 | h2
        · exact Or.inl h2
        · exact Or.inr ⟨[], _, rest, b, rfl, rfl, h2⟩
      | read q => exact Or.inl h1
      | delete offs => exact Or.inl (List.mem_filter.mp h1).1
    · exact Or.inr (lift h1)


/-! ### 6. non-vacuity -/

instance instDecLegalChoice (v : Vis) : (c : Call) → (ch : List Msg) → Decidable (LegalChoice v c ch)
  | .delete offs, ch => inferInstanceAs (Decidable (∀ m ∈ ch, m ∈ v.live ∧ m.off ∈ offs))
  | .publish _, ch => inferInstanceAs (Decidable (ch = []))
  | .read _, ch => inferInstanceAs (Decidable (ch = []))

instance instDecLogOK : (v : Vis) → (l : List Entry) → Decidable (LogOK v l)
  | _, [] => inferInstanceAs (Decidable True)
  | v, (_, c, ch, r) :: rest =>
    have := instDecLogOK (seqStep v c ch).1 rest
    inferInstanceAs (Decidable (LegalChoice v c ch ∧ (seqStep v c ch).2 = r ∧
      LogOK (seqStep v c ch).1 rest))

namespace Ex

def m0 : Msg := ⟨0, 10, [], []⟩
def m1 : Msg := ⟨1, 11, [1], [2]⟩
def m2 : Msg := ⟨2, 20, [3], [4]⟩
def m3 : Msg := ⟨3, 21, [], [5]⟩
def v0 : Vis := ⟨[m0, m1], 2⟩

/-- thread 0 publishes two messages, thread 1 deletes offset 0, thread 2 reads -/
def ths : List Th :=
  [ { call := .publish [(20, [3], [4]), (21, [], [5])] },
    { call := .delete [0], picks := [[m0]] },
    { call := .read 7 } ]

/-- P locks, D locks, P writes its files, D chooses and rewrites, D tries to swap (blocked: the
writer lock is held), the read, P appends to the index (commit), D tries again (still blocked),
P releases, D swaps (commit), D releases. -/
def sched : List Nat := [0, 1, 0, 1, 1, 2, 0, 1, 0, 1, 1]

example : Fresh ths := by unfold Fresh; decide

-- in the middle: files written, delete target rewritten, nothing visible has changed
example : (run (init v0 ths) [0, 1, 0, 1]).vis = v0 := by decide
example : (run (init v0 ths) [0, 1, 0, 1]).ths.map (·.phase) =
    [.pubWritten [m2, m3], .delRewritten [m0], .start] := by decide
-- the swap waits for the writer lock
example : run (init v0 ths) [0, 1, 0, 1, 1] = run (init v0 ths) [0, 1, 0, 1] := by decide

-- the end
example : (run (init v0 ths) sched).vis = ⟨[m1, m2, m3], 4⟩ := by decide
example : (run (init v0 ths) sched).ths.map (·.phase) =
    [.done (.next 4), .done (.deleted [m0]), .done (.answer 7 v0)] := by decide
example : (run (init v0 ths) sched).log.map (·.1) = [2, 0, 1] := by decide
example : (run (init v0 ths) sched).log =
    [(2, .read 7, [], .answer 7 v0),
     (0, .publish [(20, [3], [4]), (21, [], [5])], [], .next 4),
     (1, .delete [0], [m0], .deleted [m0])] := by decide
example : (run (init v0 ths) sched).writerMu = none ∧ (run (init v0 ths) sched).deleteMu = none := by
  decide
example : LogOK v0 (run (init v0 ths) sched).log := by decide
example : replay v0 (run (init v0 ths) sched).log = (run (init v0 ths) sched).vis := by decide

-- another order: the delete commits first, the read sees its effect but not the publish
example : (run (init v0 ths) [1, 1, 1, 0, 2, 1, 0, 0, 0]).log.map (·.1) = [1, 2, 0] := by decide
example : (run (init v0 ths) [1, 1, 1, 0, 2, 1, 0, 0, 0]).ths.map (·.phase) =
    [.done (.next 4), .done (.deleted [m0]), .done (.answer 7 ⟨[m1], 2⟩)] := by decide
example : (run (init v0 ths) [1, 1, 1, 0, 2, 1, 0, 0, 0]).vis = ⟨[m1, m2, m3], 4⟩ := by decide

/-- a pick that is not requested (offset 1) or not live is not taken: the Delete reports nothing -/
def thsStale : List Th :=
  [ { call := .delete [0], picks := [[m1]] }, { call := .delete [5], picks := [[m3]] } ]

example : (run (init v0 thsStale) [0, 0, 0, 0, 1, 1, 1, 1]).log =
    [(0, .delete [0], [], .deleted []), (1, .delete [5], [], .deleted [])] := by decide
example : (run (init v0 thsStale) [0, 0, 0, 0, 1, 1, 1, 1]).vis = v0 := by decide
-- two Deletes are serialized by deleteMu: the second cannot start while the first holds it
example : run (init v0 thsStale) [0, 1] = run (init v0 thsStale) [0] := by decide

-- the specification can fail: a log whose result is not the sequential one is not `LogOK`
example : ¬ LogOK v0 [(0, .publish [(20, [3], [4])], [], .next 5)] := by decide
example : ¬ LogOK v0 [(1, .delete [0], [m1], .deleted [m1])] := by decide

end Ex


#print axioms inv_reachable
#print axioms linearizable
#print axioms done_result_in_log
#print axioms start_not_in_log
#print axioms log_prefix
#print axioms realtime_order
#print axioms realtime_order_unique
#print axioms writer_exclusive
#print axioms deleter_exclusive
#print axioms delete_commit_waits
#print axioms replay_next
#print axioms publish_entry_range
#print axioms publish_entry_live
#print axioms stamp_range
#print axioms no_unreported_loss
#print axioms unreported_stays
#print axioms replay_live_origin

end Klev.Conc
