/-
The sequential specification of the lock-discipline model (`Klev/Conc.lean`, `seqStep`) is the
content semantics of the L1 operations: what `Log.publish` and `Log.delete` do to the abstract
content `abs l` is one `seqStep` (for Delete: with the legal choice "what it reported"). Together
with `linearizable` this reads: every concurrent execution of the discipline has the results and
the content of a sequential run of the real (modelled) operations.
-/
import Klev.Proofs.ConcProofs
import Klev.Proofs.Delete
import Klev.Proofs.Publish
namespace Klev.Conc
open Klev

def toVis (s : Spec) : Vis := ⟨s.live, s.next⟩

theorem stamp_eq_stampSpec (b : Batch) : ∀ n : Int, stamp n b = Spec.stampSpec n b := by
  induction b with
  | nil => intro n; rfl
  | cons x xs ih =>
    intro n
    obtain ⟨t, k, v⟩ := x
    simp only [stamp, Spec.stampSpec, ih]

/-- Publish on a read-write log is one sequential step of the specification. -/
theorem publish_refines (l : Log) (hinv : Klev.Inv l) (hrw : l.opts.readonly = false) (b : Batch) :
    (l.publish b).2 = .ok ((abs l).next + b.length) ∧
    seqStep (toVis (abs l)) (.publish b) [] =
      (toVis (abs (l.publish b).1), .next ((abs l).next + b.length)) := by
  have h := (publish_step l hinv b).2
  unfold Spec.PublishOK at h
  rw [hrw] at h
  simp only [Bool.false_eq_true, if_false] at h
  obtain ⟨hr, hn, hl⟩ := h
  refine ⟨hr, ?_⟩
  simp only [seqStep, toVis, stamp_eq_stampSpec, hn, hl]

theorem removeAll_eq_filter (live del : List Msg) :
    Spec.removeAll live del = live.filter (fun m => !del.contains m) := by
  unfold Spec.removeAll
  rfl

/-- Delete on a read-write log that reports `del` is one sequential step of the specification with the
legal choice `del` (what it reported was live and requested). -/
theorem delete_refines (l : Log) (hinv : Klev.Inv l) (hrw : l.opts.readonly = false) (offs : List Int)
    (del : List Msg) (size : Int) (h : (l.delete offs).2 = .ok (del, size)) :
    LegalChoice (toVis (abs l)) (.delete offs) del ∧
    seqStep (toVis (abs l)) (.delete offs) del = (toVis (abs (l.delete offs).1), .deleted del) := by
  have hd := (delete_step l hinv offs).2
  unfold Spec.DeleteOK at hd
  rw [hrw, h] at hd
  simp only [Bool.false_eq_true, if_false] at hd
  by_cases h0 : offs = []
  · rw [if_pos h0] at hd
    obtain ⟨hr, hs⟩ := hd
    have hdel : del = [] := by
      have := congrArg (fun (o : Out (List Msg × Int)) => match o with | .ok p => p.1 | .err _ => []) hr
      simpa using this
    subst hdel
    refine ⟨?_, ?_⟩
    · intro m hm
      cases hm
    · simp only [seqStep, toVis, hs]
      simp
  · rw [if_neg h0] at hd
    by_cases hneg : ∃ o ∈ offs, o < 0
    · rw [if_pos hneg] at hd
      exact absurd hd.1 (by intro hc; cases hc)
    · rw [if_neg hneg] at hd
      obtain ⟨hsub, hreq, hl, hn, _⟩ := hd
      refine ⟨fun m hm => ⟨hsub.subset hm, hreq m hm⟩, ?_⟩
      simp only [seqStep, toVis, hl, hn, removeAll_eq_filter]

end Klev.Conc

#print axioms Klev.Conc.publish_refines
#print axioms Klev.Conc.delete_refines
