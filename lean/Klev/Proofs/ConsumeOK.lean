/-
`Log.consume` satisfies the L0 relation `ConsumeOK` on every log that satisfies the
invariant — the refinement theorem for C03.
-/
import Klev.Proofs.ShapeLemmas
namespace Klev

theorem readerConsume_spec' (c : RCtx) (s : Seg) (its : List Item) (off : Int) (mc : Nat)
    (hit : ItemsFor s.ver s.recs its) (hs : s.recs.Pairwise (fun a b => a.off < b.off))
    (hlow : ∀ m ∈ s.recs, 0 ≤ m.off) (hn : off ≠ offsetNewest) (hmc : 1 ≤ mc) :
    (segFrom s.recs off ≠ [] →
      ∃ lm, ((segFrom s.recs off).take mc).getLast? = some lm ∧
        readerConsume c s its off mc = .ok (lm.off + 1, (segFrom s.recs off).take mc)) ∧
    (segFrom s.recs off = [] →
      readerConsume c s its off mc =
        if c.head = true ∧ off ≤ c.nextOff then .ok (c.nextOff, [])
        else .ierr (if s.recs = [] then .empty else .afterEnd)) := by
  have := readerConsume_spec c s its off mc hit hs hlow hn hmc (Or.inr (Or.inr trivial))
  have hoo : (if off = offsetOldest then (-2 : Int) else off) = off := by
    split
    · next h => rw [h]; rfl
    · rfl
  rw [hoo] at this
  exact this

theorem rctx_last (l : Log) (hinv : Inv l) (s' : Seg) (its : List Item)
    (hit : ItemsFor s'.ver s'.recs its)
    (hb : s'.base = ((shape l.segs)[(shape l.segs).length - 1]'(by
        have := List.length_pos_iff.mpr hinv.shape.ne; omega)).1)
    (hr : s'.recs = ((shape l.segs)[(shape l.segs).length - 1]'(by
        have := List.length_pos_iff.mpr hinv.shape.ne; omega)).2) :
    (rctx l true s' its).head = true ∧ (rctx l true s' its).nextOff = shapeNext (shape l.segs) := by
  unfold rctx
  simp only [if_true]
  cases hro : l.opts.readonly with
  | true =>
    simp only [if_true, true_and]
    rw [lastOffOr_eq hit, shapeNext_last _ hinv.shape.ne, hb, hr]
  | false =>
    simp only [Bool.false_eq_true, if_false, true_and]
    exact hinv.next hro

theorem rctx_notlast (l : Log) (s' : Seg) (its : List Item) :
    (rctx l false s' its).head = false := by
  unfold rctx; simp

theorem shape_getElem (segs : List Seg) (i : Nat) (hi : i < segs.length) :
    ((shape segs)[i]'(by simpa [shape] using hi)) = ((segs[i]).base, (segs[i]).recs) := by
  simp [shape]

theorem shape_length (segs : List Seg) : (shape segs).length = segs.length := by simp [shape]

theorem take_prefix_append {α : Type} (a b : List α) (n : Nat) : a.take n <+: a ++ b :=
  (List.take_prefix n a).trans (List.prefix_append a b)

/-- The core of `consume_ok`: once segment selection has named the start segment. -/
theorem consume_core (l : Log) (hinv : Inv l) (off : Int) (mc : Nat) (hmc : 1 ≤ mc)
    (hn : off ≠ offsetNewest) (i : Nat)
    (hsearch : SegSearch.consume (bases l) off = .ok (i : Int))
    (hst : SegStart (shape l.segs) off i) :
    Spec.ConsumeOK (abs l) off mc (l.consume off mc).2 := by
  have hsh := hinv.shape
  have hlen := shape_length l.segs
  have hi : i < l.segs.length := by rw [← hlen]; exact hst.lt
  obtain ⟨l1, s', its, c, hw, hb, hv, hr, hit, hc, hinv1, hsh1, hopts1, hnext1, _, hlen1⟩ :=
    withIndex_spec l i hinv hi
  have hsi := shape_getElem l.segs i hi
  have hrecs : s'.recs = ((shape l.segs)[i]'hst.lt).2 := by rw [hsi, hr]
  have hsorted : s'.recs.Pairwise (fun a b => a.off < b.off) := by
    rw [hrecs]; exact hsh.sorted _ (List.getElem_mem hst.lt)
  have hlow : ∀ m ∈ s'.recs, 0 ≤ m.off := by
    intro m hm
    rw [hrecs] at hm
    have := hsh.lower _ (List.getElem_mem hst.lt) m hm
    have := hsh.base0 _ (List.getElem_mem hst.lt)
    omega
  obtain ⟨hA, hB⟩ := readerConsume_spec' c s' its off mc hit hsorted hlow hn hmc
  have hsplit := fromOff_split hsh hst
  rw [← hrecs] at hsplit
  unfold Log.consume
  rw [hsearch]
  simp only [Int.toNat_natCast, hw]
  unfold Spec.ConsumeOK
  simp only [hn, if_false]
  have habs : abs l = absShape (shape l.segs) := rfl
  by_cases hF : segFrom s'.recs off = []
  · -- nothing left in the start segment
    have hres := hB hF
    have hfrom : (abs l).fromOff off = flat ((shape l.segs).drop (i + 1)) := by
      rw [habs, hsplit, hF]; rfl
    by_cases hlast : i + 1 < l.segs.length
    · -- a reader segment: hand off to the next segment from the oldest offset
      have hne : s'.recs ≠ [] := by
        rw [hrecs]; exact hsh.nonempty_idx i (by omega)
      have hchead : c.head = false := by
        rw [hc]
        have : (i + 1 == l.segs.length) = false := by simp; omega
        rw [this]; exact rctx_notlast l s' its
      rw [hres]
      simp only [hchead, Bool.false_eq_true, false_and, if_false, hne, hlast, if_true]
      have hnextv : (abs l).next = shapeNext (shape l.segs) := rfl
      have hi1 : i + 1 < (shape l.segs).length := by rw [hlen]; exact hlast
      -- `off` is below the base of the next segment, hence below the next offset
      have hoffb := hst.after (i + 1) (by omega) hi1
      have hbn := hsh.base_le_next (i + 1) hi1
      have hgt : ¬ off > (abs l).next := by rw [hnextv]; omega
      simp only [hgt, if_false]
      obtain ⟨l2, s2, its2, c2, hw2, hb2, hv2, hr2, hit2, hc2, hinv2, hsh2, _, _, _, _⟩ :=
        withIndex_spec l1 (i + 1) hinv1 (by omega)
      rw [hw2]
      simp only
      have hs2 : ((shape l.segs)[i + 1]'hi1) = (s2.base, s2.recs) := by
        have := shape_getElem l1.segs (i + 1) (by omega)
        simp only [hsh1] at this
        rw [this, hb2, hr2]
      have hrecs2 : s2.recs = ((shape l.segs)[i + 1]'hi1).2 := by rw [hs2]
      have hsorted2 : s2.recs.Pairwise (fun a b => a.off < b.off) := by
        rw [hrecs2]; exact hsh.sorted _ (List.getElem_mem hi1)
      have hlow2 : ∀ m ∈ s2.recs, 0 ≤ m.off := by
        intro m hm
        rw [hrecs2] at hm
        have := hsh.lower _ (List.getElem_mem hi1) m hm
        have := hsh.base0 _ (List.getElem_mem hi1)
        omega
      obtain ⟨hA2, hB2⟩ := readerConsume_spec' c2 s2 its2 offsetOldest mc hit2 hsorted2 hlow2
        (by decide) hmc
      have hall : segFrom s2.recs offsetOldest = s2.recs :=
        segFrom_all _ _ (by intro m hm; have := hlow2 m hm; simp [offsetOldest]; omega)
      rw [hall] at hA2 hB2
      have hfrom2 : (abs l).fromOff off = s2.recs ++ flat ((shape l.segs).drop (i + 1 + 1)) := by
        rw [hfrom, flat_drop_cons _ _ hi1, ← hrecs2]
      by_cases hne2 : s2.recs = []
      · -- the next segment is the empty head: caught up
        have hlast2 : ¬ i + 1 + 1 < (shape l.segs).length := by
          intro h
          exact hsh.nonempty_idx (i + 1) h (by rw [← hrecs2]; exact hne2)
        have hil : (shape l.segs).length - 1 = i + 1 := by omega
        have hctx := rctx_last l1 hinv1 s2 its2 hit2
          (by simp only [hsh1, hil]; rw [hs2])
          (by simp only [hsh1, hil]; rw [hs2])
        have hlast1 : (i + 1 + 1 == l1.segs.length) = true := by
          simp only [beq_iff_eq]; rw [hlen1]; omega
        rw [hlast1] at hc2
        rw [← hc2] at hctx
        have hnn := hsh.next_nonneg
        rw [hB2 hne2]
        have hcond : c2.head = true ∧ offsetOldest ≤ c2.nextOff := by
          refine ⟨hctx.1, ?_⟩
          rw [hctx.2, hsh1]; simp [offsetOldest]; omega
        simp only [hcond, and_self, if_true, ROut.toOut]
        rw [hfrom2, hne2, flat_drop_len _ _ (by omega), hctx.2, hsh1, hnextv]
        simp
      · -- the next segment has messages: its first `mc`
        obtain ⟨lm, hlm, hres2⟩ := hA2 hne2
        rw [hres2]
        simp only [ROut.toOut, hlm]
        have hlmr : lm ∈ s2.recs := List.mem_of_mem_take (List.mem_of_getLast? hlm)
        have hlb : ((shape l.segs)[i + 1]'hi1).1 ≤ lm.off := by
          apply hsh.lower _ (List.getElem_mem hi1)
          rw [← hrecs2]; exact hlmr
        refine ⟨?_, ?_, trivial, Or.inl (by omega)⟩
        · rw [hfrom2]; exact take_prefix_append _ _ _
        · simp only [List.length_take]; omega
    · -- the head segment: caught up, or beyond the next offset
      have hil : (shape l.segs).length - 1 = i := by omega
      have hctx := rctx_last l hinv s' its hit
        (by simp only [hil]; rw [hsi, hb])
        (by simp only [hil]; rw [hsi, hr])
      have hlastb : (i + 1 == l.segs.length) = true := by
        simp only [beq_iff_eq]; omega
      rw [hlastb] at hc
      rw [← hc] at hctx
      have hnextv : (abs l).next = shapeNext (shape l.segs) := rfl
      rw [hres]
      by_cases hgt : off > (abs l).next
      · have hcond : ¬ (c.head = true ∧ off ≤ c.nextOff) := by
          rw [hctx.2, ← hnextv]; intro h; omega
        simp only [hgt, if_true, hcond, if_false]
        by_cases hre : s'.recs = []
        · simp [hre, ROut.toOut, ierrClass]
        · simp [hre, hlast]
      · have hcond : c.head = true ∧ off ≤ c.nextOff := by
          rw [hctx.2, ← hnextv]; exact ⟨hctx.1, by omega⟩
        simp only [hgt, if_false, hcond, and_self, if_true, ROut.toOut]
        rw [hfrom, flat_drop_len _ _ (by omega), hctx.2, hnextv]
        simp
  · -- the start segment still has messages at or after `off`
    obtain ⟨lm, hlm, hres⟩ := hA hF
    rw [hres]
    simp only [ROut.toOut]
    have hlmF : lm ∈ segFrom s'.recs off := List.mem_of_mem_take (List.mem_of_getLast? hlm)
    have hlm2 : lm ∈ s'.recs ∧ off ≤ lm.off := by
      unfold segFrom at hlmF
      rw [List.mem_filter] at hlmF
      exact ⟨hlmF.1, by simpa using hlmF.2⟩
    have hlmflat : lm ∈ flat (shape l.segs) := by
      rw [flat_split _ i hst.lt]
      simp only [List.mem_append]
      left; right
      rw [← hrecs]; exact hlm2.1
    have hlt := hsh.lt_next hlmflat
    have hnext : (abs l).next = shapeNext (shape l.segs) := rfl
    have hgt : ¬ off > (abs l).next := by rw [hnext]; omega
    simp only [hgt, if_false, hlm]
    refine ⟨?_, ?_, trivial, Or.inl (by omega)⟩
    · rw [habs, hsplit]; exact take_prefix_append _ _ _
    · simp only [List.length_take]; omega

end Klev

namespace Klev

theorem bases_eq_shape (l : Log) : bases l = (shape l.segs).map (·.1) := shape_bases l.segs

/-- **C03 refinement**: on every log satisfying the invariant, for every offset and every
`maxCount ≥ 1`, `Log.consume` returns what the L0 relation `ConsumeOK` allows. -/
theorem consume_ok (l : Log) (hinv : Inv l) (off : Int) (mc : Nat) (hmc : 1 ≤ mc) :
    Spec.ConsumeOK (abs l) off mc (l.consume off mc).2 := by
  have hsh := hinv.shape
  have hlen := shape_length l.segs
  have hpos : 0 < (shape l.segs).length := List.length_pos_iff.mpr hsh.ne
  have hbne : bases l ≠ [] := by
    rw [bases_eq_shape]; intro h; exact hsh.ne (List.map_eq_nil_iff.mp h)
  by_cases hn : off = offsetNewest
  · -- OffsetNewest: the head reports the next offset
    subst hn
    have hsearch := SegSearch.consume_newest (bases l) hbne
    have hbl : (bases l).length = l.segs.length := by simp [bases]
    have hi : l.segs.length - 1 < l.segs.length := by omega
    obtain ⟨l1, s', its, c, hw, hb, hv, hr, hit, hc, hinv1, hsh1, _, _, _, _⟩ :=
      withIndex_spec l (l.segs.length - 1) hinv hi
    unfold Log.consume
    rw [hsearch, hbl]
    have hcast : ((l.segs.length : Int) - 1).toNat = l.segs.length - 1 := by omega
    simp only [hcast, hw]
    have hsi := shape_getElem l.segs (l.segs.length - 1) hi
    have hctx := rctx_last l hinv s' its hit
      (by simp only [hlen]; rw [hsi, hb]) (by simp only [hlen]; rw [hsi, hr])
    have hlastb : (l.segs.length - 1 + 1 == l.segs.length) = true := by
      simp only [beq_iff_eq]; omega
    rw [hlastb] at hc
    rw [← hc] at hctx
    unfold readerConsume Spec.ConsumeOK
    simp only [if_true, ROut.toOut, hctx.2]
    rfl
  · by_cases hfirst : off = offsetOldest ∨ off ≤ ((shape l.segs)[0]).1
    · -- at or below the first base: the first segment
      have hsearch : SegSearch.consume (bases l) off = .ok ((0 : Nat) : Int) := by
        apply SegSearch.consume_first _ _ hbne
        rcases hfirst with h | h
        · exact Or.inl h
        · refine Or.inr ⟨hn, ?_⟩
          intro h0
          simp only [bases_eq_shape, List.getElem_map]
          exact h
      have hst : SegStart (shape l.segs) off 0 := by
        apply SegStart.first hsh
        intro h0
        rcases hfirst with h | h
        · have := hsh.base0 _ (List.getElem_mem h0)
          rw [h]; simp [offsetOldest]; omega
        · exact h
      exact consume_core l hinv off mc hmc hn 0 hsearch hst
    · -- above the first base: binary search over the segment bases
      have h1 : off ≠ offsetOldest := fun h => hfirst (Or.inl h)
      have h2 : ((shape l.segs)[0]).1 < off := by
        have : ¬ off ≤ ((shape l.segs)[0]).1 := fun h => hfirst (Or.inr h)
        omega
      obtain ⟨i, hsearch, hseg⟩ := SegSearch.consume_spec (bases l) off
        (by rw [bases_eq_shape]; exact hsh.sortedB) hbne h1 hn
        (by intro h0; simp only [bases_eq_shape, List.getElem_map]; exact h2)
      rw [bases_eq_shape] at hseg
      exact consume_core l hinv off mc hmc hn i hsearch (SegStart.of_isSegFor hsh hseg)

end Klev
