/-
Crash points of `Open` itself (C05): every directory a crash may leave after a prefix of the
file-system program of a read-write Open (`Klev/CrashOpen.lean`) reopens with Recover to the
same content; the program ends exactly in the files of the model's `Log.open`.

Every step of the program acts on one segment (`removeIdx`, `putLog`, `putIdx`), so a state
after any prefix is `d.map (fun s => segRun s prefix)`; what a program does to one segment is
what its steps on that segment's base do (`segRun_filter`), and bases are distinct.
-/
import Klev.CrashOpen
import Klev.Proofs.CrashProofs
namespace Klev.Crash
open Klev

/-! ### steps that act on one segment -/

/-- The base of the segment a step rewrites files of (none for steps that add or remove
segments or append to the head). -/
def stepOn : FsStep → Option Int
  | .removeIdx b => some b
  | .putLog b _ _ => some b
  | .putIdx b _ => some b
  | _ => none

/-- What a step does to one segment. -/
def segStep (s : SegDisk) : FsStep → SegDisk
  | .removeIdx b => if s.base = b then { s with idxf := none } else s
  | .putLog b v r => if s.base = b then { s with ver := v, recs := r } else s
  | .putIdx b f => if s.base = b then { s with idxf := some f } else s
  | _ => s

def segRun (s : SegDisk) (steps : List FsStep) : SegDisk := steps.foldl segStep s

theorem segRun_nil (s : SegDisk) : segRun s [] = s := rfl

theorem segRun_cons (s : SegDisk) (st : FsStep) (rest : List FsStep) :
    segRun s (st :: rest) = segRun (segStep s st) rest := rfl

theorem segRun_append (s : SegDisk) (a b : List FsStep) :
    segRun s (a ++ b) = segRun (segRun s a) b := List.foldl_append

theorem applyStep_map (d : List SegDisk) (st : FsStep) (b : Int) (h : stepOn st = some b) :
    applyStep d st = d.map (fun s => segStep s st) := by
  cases st <;> simp [stepOn] at h <;> rfl

theorem applySteps_map (steps : List FsStep) (h : ∀ st ∈ steps, ∃ b, stepOn st = some b)
    (d : List SegDisk) : applySteps d steps = d.map (fun s => segRun s steps) := by
  induction steps generalizing d with
  | nil => simp [applySteps, segRun]
  | cons st rest ih =>
    obtain ⟨b, hb⟩ := h st (by simp)
    rw [applySteps_cons, applyStep_map d st b hb,
      ih (fun st' h' => h st' (List.mem_cons_of_mem _ h')), List.map_map]
    rfl

theorem segStep_base (s : SegDisk) (st : FsStep) : (segStep s st).base = s.base := by
  cases st <;> simp only [segStep] <;> (try split) <;> rfl

theorem segRun_base (steps : List FsStep) (s : SegDisk) : (segRun s steps).base = s.base := by
  induction steps generalizing s with
  | nil => rfl
  | cons st rest ih => rw [segRun_cons, ih, segStep_base]

def touches (b : Int) (st : FsStep) : Bool := stepOn st == some b

theorem segStep_not_touch (s : SegDisk) (st : FsStep) (h : touches s.base st = false) :
    segStep s st = s := by
  cases st <;> simp [touches, stepOn] at h <;> simp only [segStep] <;>
    exact if_neg (fun e => h e.symm)

/-- What a program does to a segment is what its steps on that segment's base do. -/
theorem segRun_filter (steps : List FsStep) (s : SegDisk) :
    segRun s steps = segRun s (steps.filter (touches s.base)) := by
  induction steps generalizing s with
  | nil => rfl
  | cons st rest ih =>
    rw [segRun_cons, List.filter_cons]
    cases ht : touches s.base st with
    | true =>
      simp only [if_true]
      rw [segRun_cons, ih, segStep_base]
    | false =>
      simp only [Bool.false_eq_true, if_false]
      rw [segStep_not_touch s st ht, ih]

theorem filter_all (b : Int) (P : List FsStep) (h : ∀ st ∈ P, stepOn st = some b) :
    P.filter (touches b) = P := by
  rw [List.filter_eq_self]
  intro st hst
  simp [touches, h st hst]

theorem filter_none (b b' : Int) (P : List FsStep) (h : ∀ st ∈ P, stepOn st = some b')
    (hne : b' ≠ b) : P.filter (touches b) = [] := by
  rw [List.filter_eq_nil_iff]
  intro st hst
  simp [touches, h st hst, hne]

theorem flatMap_filter_none (f : SegDisk → List FsStep)
    (hf : ∀ s, ∀ st ∈ f s, stepOn st = some s.base) (b : Int) (L : List SegDisk)
    (h : ∀ y ∈ L, y.base ≠ b) : (L.flatMap f).filter (touches b) = [] := by
  induction L with
  | nil => rfl
  | cons y ys ih =>
    rw [List.flatMap_cons, List.filter_append, filter_none b y.base (f y) (hf y) (h y (by simp)),
      ih (fun z hz => h z (List.mem_cons_of_mem _ hz))]
    rfl

/-- Of a per-segment program run over a directory with distinct bases, the steps on the base
of one segment are the program of that segment. -/
theorem flatMap_filter (f : SegDisk → List FsStep)
    (hf : ∀ s, ∀ st ∈ f s, stepOn st = some s.base) (L : List SegDisk)
    (hd : L.Pairwise (fun a b => a.base ≠ b.base)) (s : SegDisk) (hs : s ∈ L) :
    (L.flatMap f).filter (touches s.base) = f s := by
  induction L with
  | nil => cases hs
  | cons y ys ih =>
    rw [List.pairwise_cons] at hd
    rw [List.flatMap_cons, List.filter_append]
    rcases List.mem_cons.mp hs with h | h
    · subst h
      rw [filter_all _ _ (hf s), flatMap_filter_none f hf s.base ys (fun z hz => (hd.1 z hz).symm)]
      simp
    · rw [filter_none _ y.base _ (hf y) (hd.1 s h), ih hd.2 h]
      rfl

/-- Base and records of a segment survive a program whose `putLog`s on it carry its records. -/
theorem segRun_shape (steps : List FsStep) (s : SegDisk)
    (h : ∀ b v r, FsStep.putLog b v r ∈ steps → b = s.base → r = s.recs) :
    (segRun s steps).base = s.base ∧ (segRun s steps).recs = s.recs := by
  induction steps generalizing s with
  | nil => exact ⟨rfl, rfl⟩
  | cons st rest ih =>
    have h0 := segStep_base s st
    have h1 : (segStep s st).recs = s.recs := by
      cases st with
      | putLog b v r =>
        simp only [segStep]
        split
        · next hb => exact h b v r (by simp) hb.symm
        · rfl
      | removeIdx b => simp only [segStep]; split <;> rfl
      | putIdx b f => simp only [segStep]; split <;> rfl
      | _ => rfl
    have := ih (segStep s st) (by
      intro b v r hm hb
      rw [h1]
      exact h b v r (List.mem_cons_of_mem _ hm) (by rw [hb, h0]))
    rw [segRun_cons]
    exact ⟨this.1.trans h0, this.2.trans h1⟩

/-! ### the three parts of the program, on their segment -/

theorem recoverProg_on (p : Params) (x : SegDisk) : ∀ st ∈ recoverProg p x, stepOn st = some x.base := by
  intro st hst
  unfold recoverProg at hst
  split at hst
  · cases hst
  · split at hst
    · cases hst
    · simp only [List.mem_cons, List.not_mem_nil, or_false] at hst
      rcases hst with rfl | rfl <;> rfl

theorem migrateProg_on (p : Params) (mv iv : Ver) (s : SegDisk) :
    ∀ st ∈ migrateProg p mv iv s, stepOn st = some s.base := by
  intro st hst
  unfold migrateProg at hst
  split at hst
  · cases hst
  · simp only [List.mem_cons, List.not_mem_nil, or_false] at hst
    rcases hst with rfl | rfl | rfl <;> rfl

theorem writerProg_on (o : Opts) (h : SegDisk) : ∀ st ∈ writerProg o h, stepOn st = some h.base := by
  intro st hst
  simp only [writerProg, List.mem_append] at hst
  rcases hst with hst | hst
  · split at hst
    · cases hst
    · simp only [List.mem_singleton] at hst; subst hst; rfl
  · split at hst
    · split at hst
      · cases hst
      · simp only [List.mem_singleton] at hst; subst hst; rfl
    · cases hst

theorem recoverProg_noLog (p : Params) (x : SegDisk) (b : Int) (v : Ver) (r : List Msg) :
    FsStep.putLog b v r ∉ recoverProg p x := by
  intro hst
  unfold recoverProg at hst
  split at hst
  · cases hst
  · split at hst
    · cases hst
    · simp at hst

theorem migrateProg_log (p : Params) (mv iv : Ver) (s : SegDisk) (b : Int) (v : Ver) (r : List Msg)
    (hst : FsStep.putLog b v r ∈ migrateProg p mv iv s) : b = s.base ∧ r = s.recs := by
  unfold migrateProg at hst
  split at hst
  · cases hst
  · simp at hst; exact ⟨hst.1, hst.2.2⟩

theorem writerProg_log (o : Opts) (h : SegDisk) (b : Int) (v : Ver) (r : List Msg)
    (hst : FsStep.putLog b v r ∈ writerProg o h) : b = h.base ∧ r = h.recs := by
  simp only [writerProg, List.mem_append] at hst
  rcases hst with hst | hst
  · split at hst
    · cases hst
    · simp at hst; exact ⟨hst.1, hst.2.2⟩
  · split at hst
    · split at hst
      · cases hst
      · simp at hst
    · cases hst

theorem recover_final (p : Params) (x : SegDisk) : segRun x (recoverProg p x) = segRecover p x := by
  unfold recoverProg segRecover
  cases hi : x.idxf with
  | none => rfl
  | some f =>
    simp only
    split
    · rfl
    · simp [segRun, segStep]

theorem migrate_final (p : Params) (mv iv : Ver) (s : SegDisk) :
    segRun s (migrateProg p mv iv s) = segMigrate p mv iv s := by
  unfold migrateProg segMigrate
  split
  · rfl
  · simp [segRun, segStep]

/-- A crash inside the migration of one segment: its index is absent or exact at every point. -/
theorem migrate_states (p : Params) (mv iv : Ver) (s : SegDisk) (hs : Exact s) (j : Nat) :
    Exact (segRun s ((migrateProg p mv iv s).take j)) := by
  unfold migrateProg
  split
  · simpa [segRun] using hs
  · rcases j with _ | _ | _ | j
    · simpa [segRun] using hs
    · intro f hf; simp [segRun, segStep] at hf
    · intro f hf; simp [segRun, segStep] at hf
    · intro f hf
      simp [segRun, segStep] at hf
      subst hf
      simp [segRun, segStep]
      exact derive_itemsFor _ _ _

/-! ### `openWriter` on the head as found -/

theorem openWriter_disk (o : Opts) (s : Seg) (nt : Int) :
    (openWriter o s nt).1.base = s.base ∧ (openWriter o s nt).1.recs = s.recs ∧
    ∃ f, (openWriter o s nt).1.idxf = some f := by
  unfold openWriter
  simp only
  refine ⟨trivial, trivial, ?_⟩
  split <;> exact ⟨_, rfl⟩

theorem writer_final (o : Opts) (h : SegDisk) :
    segRun h (writerProg o h) = (openWriter o h.toSeg 0).1.toDisk := by
  obtain ⟨hb, hr, f, hf⟩ := openWriter_disk o h.toSeg 0
  simp only [writerProg]
  generalize (openWriter o h.toSeg 0).1 = hs at hb hr hf ⊢
  obtain ⟨b, v, r, i⟩ := h
  obtain ⟨b', v', r', i', m'⟩ := hs
  simp only [SegDisk.toSeg] at hb hr hf
  subst hb hr hf
  simp only [Seg.toDisk]
  by_cases hv : v' = v <;> by_cases hi : some f = i <;>
    simp [hv, hi, segRun, segStep]

/-! ### the program of Open on `pre ++ [x]` -/

/-- The head after `Segment.Recover`, and after the eager migration. -/
def recHead (oo : OpenOpts) (x : SegDisk) : SegDisk :=
  if oo.recover then segRecover oo.opts.params x else x

def migHead (oo : OpenOpts) (x : SegDisk) : SegDisk :=
  if oo.eager then segMigrate oo.opts.params oo.opts.nsv oo.opts.nsv (recHead oo x) else recHead oo x

/-- Check (without Recover) refuses the head. -/
def Refused (oo : OpenOpts) (x : SegDisk) : Prop :=
  ¬ oo.recover ∧ oo.check ∧ ¬ segCheck oo.opts.params x

theorem recHead_shape (oo : OpenOpts) (x : SegDisk) :
    (recHead oo x).base = x.base ∧ (recHead oo x).recs = x.recs := by
  unfold recHead
  split
  · exact ⟨(segRecover_shape _ x).1, (segRecover_shape _ x).2.1⟩
  · exact ⟨rfl, rfl⟩

theorem segMigrate_shape (p : Params) (mv iv : Ver) (s : SegDisk) :
    (segMigrate p mv iv s).base = s.base ∧ (segMigrate p mv iv s).recs = s.recs := by
  unfold segMigrate
  split <;> exact ⟨rfl, rfl⟩

theorem migHead_shape (oo : OpenOpts) (x : SegDisk) :
    (migHead oo x).base = x.base ∧ (migHead oo x).recs = x.recs := by
  unfold migHead
  split
  · exact ⟨(segMigrate_shape _ _ _ _).1.trans (recHead_shape oo x).1,
      (segMigrate_shape _ _ _ _).2.trans (recHead_shape oo x).2⟩
  · exact recHead_shape oo x

theorem openProg_refused (pre : List SegDisk) (x : SegDisk) (oo : OpenOpts) (hc : Refused oo x) :
    openProg (pre ++ [x]) oo = [] := by
  unfold openProg
  split
  · rfl
  · simp only [List.getLast?_append, List.getLast?_singleton, Option.some_or]
    unfold Refused at hc
    rw [if_pos hc]

theorem openProg_snoc (pre : List SegDisk) (x : SegDisk) (oo : OpenOpts)
    (hro : oo.opts.readonly = false) (hc : ¬ Refused oo x) :
    openProg (pre ++ [x]) oo =
      (if oo.recover then recoverProg oo.opts.params x else []) ++
      (if oo.eager then (pre ++ [recHead oo x]).flatMap
          (migrateProg oo.opts.params oo.opts.nsv oo.opts.nsv) else []) ++
      writerProg oo.opts (migHead oo x) := by
  unfold openProg
  simp only [hro, Bool.false_eq_true, if_false, List.getLast?_append, List.getLast?_singleton,
    Option.some_or]
  unfold Refused at hc
  rw [if_neg hc]
  have h1 : afterRecover (pre ++ [x]) oo = pre ++ [recHead oo x] := by
    unfold afterRecover recHead
    split
    · rw [mapLast_snoc]
    · rfl
  have h2 : (afterMigrate (pre ++ [x]) oo).getLast? = some (migHead oo x) := by
    unfold afterMigrate migHead
    simp only [h1]
    split <;> simp
  rw [h1, h2]

/-- The files of the model's Open. -/
theorem open_snoc_disk (pre : List SegDisk) (x : SegDisk) (oo : OpenOpts)
    (hro : oo.opts.readonly = false) (l' : Log) (h : Log.open (pre ++ [x]) oo = .ok l') :
    ¬ Refused oo x ∧
    l'.disk = (if oo.eager then pre.map (segMigrate oo.opts.params oo.opts.nsv oo.opts.nsv) else pre) ++
      [(openWriter oo.opts (migHead oo x).toSeg 0).1.toDisk] := by
  have hid : ∀ L : List SegDisk, (L.map SegDisk.toSeg).map Seg.toDisk = L := by
    intro L
    rw [List.map_map]
    conv => rhs; rw [← List.map_id L]
    rfl
  unfold Log.open at h
  simp only [hro, Bool.false_eq_true, if_false, List.getLast?_append, List.getLast?_singleton,
    Option.some_or] at h
  by_cases hc : Refused oo x
  · unfold Refused at hc
    rw [if_pos hc] at h; cases h
  · refine ⟨hc, ?_⟩
    unfold Refused at hc
    rw [if_neg hc] at h
    unfold migHead recHead
    cases hr : oo.recover <;> cases he : oo.eager <;>
      simp only [hr, he, Bool.false_eq_true, if_false, if_true, mapLast_snoc, List.map_append,
        List.map_cons, List.map_nil, List.getLast?_append, List.getLast?_singleton, Option.some_or,
        List.dropLast_concat, Out.ok.injEq] at h ⊢ <;>
      subst h <;> simp only [Log.disk, List.map_append, List.map_cons, List.map_nil, hid]

/-! ### distinct bases -/

theorem bases_distinct (d : List SegDisk) (h : ShapeOK (shapeD d)) :
    d.Pairwise (fun a b => a.base ≠ b.base) := by
  have ho := h.order
  unfold shapeD at ho
  rw [List.pairwise_map] at ho
  exact ho.imp (fun h => by have := h.1; simp only at this; omega)

theorem base_inj (d : List SegDisk) (hd : d.Pairwise (fun a b => a.base ≠ b.base)) (s t : SegDisk)
    (hs : s ∈ d) (ht : t ∈ d) (hb : s.base = t.base) : s = t := by
  induction d with
  | nil => cases hs
  | cons y ys ih =>
    rw [List.pairwise_cons] at hd
    rcases List.mem_cons.mp hs with h1 | h1 <;> rcases List.mem_cons.mp ht with h2 | h2
    · rw [h1, h2]
    · subst h1; exact absurd hb (hd.1 t h2)
    · subst h2; exact absurd hb.symm (hd.1 s h1)
    · exact ih hd.2 h1 h2

theorem dist_snoc (pre : List SegDisk) (x y : SegDisk)
    (h : (pre ++ [x]).Pairwise (fun a b => a.base ≠ b.base)) (hb : y.base = x.base) :
    (pre ++ [y]).Pairwise (fun a b => a.base ≠ b.base) := by
  rw [List.pairwise_append] at h ⊢
  refine ⟨h.1, by simp, ?_⟩
  intro a ha b hb'
  simp only [List.mem_singleton] at hb'
  subst hb'
  rw [hb]
  exact h.2.2 a ha x (by simp)

/-! ### every step of the program is a step on a segment of the directory -/

theorem mem_ite_nil {α : Type} {c : Prop} [Decidable c] {a : α} {l : List α}
    (h : a ∈ (if c then l else [])) : c ∧ a ∈ l := by
  split at h
  · next hc => exact ⟨hc, h⟩
  · cases h

theorem openProg_steps (pre : List SegDisk) (x : SegDisk) (oo : OpenOpts) :
    (∀ st ∈ openProg (pre ++ [x]) oo, ∃ b, stepOn st = some b) ∧
    (∀ b v r, FsStep.putLog b v r ∈ openProg (pre ++ [x]) oo →
      ∃ s ∈ pre ++ [x], s.base = b ∧ s.recs = r) := by
  by_cases hro : oo.opts.readonly = true
  · have : openProg (pre ++ [x]) oo = [] := by unfold openProg; rw [if_pos hro]
    rw [this]
    exact ⟨fun st h => (by cases h), fun b v r h => (by cases h)⟩
  have hro' : oo.opts.readonly = false := by
    cases hc : oo.opts.readonly with
    | true => exact absurd hc hro
    | false => rfl
  by_cases hc : Refused oo x
  · rw [openProg_refused pre x oo hc]
    exact ⟨fun st h => (by cases h), fun b v r h => (by cases h)⟩
  rw [openProg_snoc pre x oo hro' hc]
  constructor
  · intro st hst
    rcases List.mem_append.mp hst with hst | hst
    · rcases List.mem_append.mp hst with hst | hst
      · exact ⟨_, recoverProg_on _ _ st (mem_ite_nil hst).2⟩
      · obtain ⟨s1, _, hs1⟩ := List.mem_flatMap.mp (mem_ite_nil hst).2
        exact ⟨_, migrateProg_on _ _ _ s1 st hs1⟩
    · exact ⟨_, writerProg_on _ _ st hst⟩
  · intro b v r hst
    have hx : x ∈ pre ++ [x] := by simp
    rcases List.mem_append.mp hst with hst | hst
    · rcases List.mem_append.mp hst with hst | hst
      · exact absurd (mem_ite_nil hst).2 (recoverProg_noLog _ _ _ _ _)
      · obtain ⟨s1, hs1m, hs1⟩ := List.mem_flatMap.mp (mem_ite_nil hst).2
        obtain ⟨e1, e2⟩ := migrateProg_log _ _ _ _ _ _ _ hs1
        rcases List.mem_append.mp hs1m with h | h
        · exact ⟨s1, List.mem_append_left _ h, e1.symm, e2.symm⟩
        · simp only [List.mem_singleton] at h
          subst h
          exact ⟨x, hx, by rw [e1, (recHead_shape oo x).1], by rw [e2, (recHead_shape oo x).2]⟩
    · obtain ⟨e1, e2⟩ := writerProg_log _ _ _ _ _ hst
      exact ⟨x, hx, by rw [e1, (migHead_shape oo x).1], by rw [e2, (migHead_shape oo x).2]⟩

/-- The steps of the program on a non-head segment: its migration, if any. -/
theorem openProg_filter_pre (pre : List SegDisk) (x : SegDisk) (oo : OpenOpts)
    (hro : oo.opts.readonly = false) (hc : ¬ Refused oo x)
    (hdist : (pre ++ [x]).Pairwise (fun a b => a.base ≠ b.base)) (s : SegDisk) (hs : s ∈ pre) :
    (openProg (pre ++ [x]) oo).filter (touches s.base) =
      if oo.eager then migrateProg oo.opts.params oo.opts.nsv oo.opts.nsv s else [] := by
  have hne : x.base ≠ s.base := by
    rw [List.pairwise_append] at hdist
    exact (hdist.2.2 s hs x (by simp)).symm
  rw [openProg_snoc pre x oo hro hc, List.filter_append, List.filter_append]
  rw [filter_none s.base x.base _ (fun st hst => recoverProg_on _ _ st (mem_ite_nil hst).2) hne]
  rw [filter_none s.base (migHead oo x).base _ (writerProg_on _ _) (by rw [(migHead_shape oo x).1]; exact hne)]
  simp only [List.nil_append, List.append_nil]
  split
  · exact flatMap_filter _ (migrateProg_on _ _ _) _ (dist_snoc pre x _ hdist (recHead_shape oo x).1) s
      (List.mem_append_left _ hs)
  · rfl

/-! ### (1) a crash anywhere inside Open -/

/-- Every crash state of Open has the bases and records of the directory it started from, and
every index file except the head's is absent or exact. -/
theorem open_crash_disk (d : List SegDisk) (hd : DiskOKH d) (oo : OpenOpts) (k : Nat) :
    shapeD (openCrashState d oo k) = shapeD d ∧ DiskOKH (openCrashState d oo k) := by
  have hne : d ≠ [] := by
    intro he
    have := hd.shape.ne
    rw [he] at this; exact this rfl
  have hdist := bases_distinct d hd.shape
  obtain ⟨pre, x, rfl⟩ := snoc_of_ne hne
  obtain ⟨hon, hlog⟩ := openProg_steps pre x oo
  unfold openCrashState
  have hT : ∀ st ∈ (openProg (pre ++ [x]) oo).take k, ∃ b, stepOn st = some b :=
    fun st hst => hon st (List.mem_of_mem_take hst)
  rw [applySteps_map _ hT]
  have hsh : shapeD ((pre ++ [x]).map (fun s => segRun s ((openProg (pre ++ [x]) oo).take k))) =
      shapeD (pre ++ [x]) := by
    unfold shapeD
    rw [List.map_map]
    apply List.map_congr_left
    intro s hs
    simp only [Function.comp]
    have := segRun_shape ((openProg (pre ++ [x]) oo).take k) s (by
      intro b v r hm hb
      obtain ⟨s1, hs1, e1, e2⟩ := hlog b v r (List.mem_of_mem_take hm)
      have : s1 = s := base_inj _ hdist s1 s hs1 hs (by rw [e1, hb])
      rw [← this, e2])
    rw [this.1, this.2]
  refine ⟨hsh, ⟨by rw [hsh]; exact hd.shape, ?_⟩⟩
  intro sd hsd
  rw [List.map_append, List.map_cons, List.map_nil, List.dropLast_concat] at hsd
  obtain ⟨s, hs, rfl⟩ := List.mem_map.mp hsd
  have hex : Exact s := hd.idx s (by rw [List.dropLast_concat]; exact hs)
  by_cases hro : oo.opts.readonly = true
  · have : openProg (pre ++ [x]) oo = [] := by unfold openProg; rw [if_pos hro]
    rw [this, List.take_nil]; exact hex
  have hro' : oo.opts.readonly = false := by
    cases hc : oo.opts.readonly with
    | true => exact absurd hc hro
    | false => rfl
  by_cases hc : Refused oo x
  · rw [openProg_refused pre x oo hc, List.take_nil]; exact hex
  rw [segRun_filter]
  have hpre : ((openProg (pre ++ [x]) oo).take k).filter (touches s.base) <+:
      (openProg (pre ++ [x]) oo).filter (touches s.base) := (List.take_prefix _ _).filter _
  rw [openProg_filter_pre pre x oo hro' hc hdist s hs] at hpre
  rw [List.prefix_iff_eq_take.mp hpre]
  split
  · exact migrate_states _ _ _ s hex _
  · simpa [segRun] using hex

/-- **A crash anywhere inside a read-write Open** leaves a directory that reopens with Recover
(any other options) to the same content. -/
theorem open_crash_reopens (d : List SegDisk) (hd : DiskOKH d) (oo : OpenOpts) (k : Nat)
    (oo' : OpenOpts) (hrec : oo'.recover = true) (hro : oo'.opts.readonly = false) :
    ∃ l', Log.open (openCrashState d oo k) oo' = .ok l' ∧ Inv l' ∧ abs l' = absDisk d := by
  obtain ⟨hsh, hok⟩ := open_crash_disk d hd oo k
  obtain ⟨l', h1, h2, h3⟩ := open_recover_spec _ hok oo' hrec hro
  refine ⟨l', h1, h2, ?_⟩
  rw [h3]; unfold absDisk; rw [hsh]

/-! ### (2) the program ends in the files of the model's Open -/

theorem open_prog_final (d : List SegDisk) (hd : DiskOKH d) (oo : OpenOpts)
    (hro : oo.opts.readonly = false) (l' : Log) (h : Log.open d oo = .ok l') :
    applySteps d (openProg d oo) = l'.disk := by
  have hne : d ≠ [] := by
    intro he
    have := hd.shape.ne
    rw [he] at this; exact this rfl
  have hdist := bases_distinct d hd.shape
  obtain ⟨pre, x, rfl⟩ := snoc_of_ne hne
  obtain ⟨hc, hdisk⟩ := open_snoc_disk pre x oo hro l' h
  rw [hdisk, applySteps_map _ (openProg_steps pre x oo).1, List.map_append, List.map_cons, List.map_nil]
  congr 1
  · -- the segments before the head: migrated, or untouched
    have hpre : ∀ s ∈ pre, segRun s (openProg (pre ++ [x]) oo) =
        if oo.eager then segMigrate oo.opts.params oo.opts.nsv oo.opts.nsv s else s := by
      intro s hs
      rw [segRun_filter, openProg_filter_pre pre x oo hro hc hdist s hs]
      split
      · exact migrate_final _ _ _ s
      · rfl
    split
    · apply List.map_congr_left
      intro s hs
      rw [hpre s hs, if_pos (by assumption)]
    · conv => rhs; rw [← List.map_id pre]
      apply List.map_congr_left
      intro s hs
      rw [hpre s hs, if_neg (by assumption)]
      rfl
  · -- the head: recovered, migrated, opened for writing
    rw [openProg_snoc pre x oo hro hc, segRun_append, segRun_append]
    have h1 : segRun x (if oo.recover then recoverProg oo.opts.params x else []) = recHead oo x := by
      unfold recHead
      split
      · exact recover_final _ x
      · rfl
    have h2 : segRun (recHead oo x) (if oo.eager then (pre ++ [recHead oo x]).flatMap
        (migrateProg oo.opts.params oo.opts.nsv oo.opts.nsv) else []) = migHead oo x := by
      unfold migHead
      split
      · rw [segRun_filter, flatMap_filter _ (migrateProg_on _ _ _) _
          (dist_snoc pre x _ hdist (recHead_shape oo x).1) (recHead oo x) (by simp)]
        exact migrate_final _ _ _ _
      · rfl
    rw [h1, h2, writer_final]

/-- The last crash state is the closed directory of the opened log. -/
theorem openCrashState_last (d : List SegDisk) (hd : DiskOKH d) (oo : OpenOpts)
    (hro : oo.opts.readonly = false) (l' : Log) (h : Log.open d oo = .ok l') :
    openCrashState d oo (openProg d oo).length = l'.disk := by
  unfold openCrashState
  rw [List.take_of_length_le (Nat.le_refl _)]
  exact open_prog_final d hd oo hro l' h

/-! ### (3) the empty directory -/

theorem diskOKH_fresh (v : Ver) (i : Option IdxFile) : DiskOKH [⟨0, v, [], i⟩] := by
  refine ⟨?_, ?_⟩
  · show ShapeOK [((0 : Int), ([] : List Msg))]
    rw [shapeOK_singleton]
    refine ⟨by simp, ?_, ?_⟩
    · intro m hm; simp at hm
    · simp
  · intro sd hsd; simp at hsd

theorem open_crash_reopens_empty (oo : OpenOpts) (hro0 : oo.opts.readonly = false) (k : Nat)
    (oo' : OpenOpts) (hrec : oo'.recover = true) (hro : oo'.opts.readonly = false) :
    ∃ l', Log.open (openCrashState [] oo k) oo' = .ok l' ∧ Inv l' ∧ (abs l').live = [] ∧ (abs l').next = 0 := by
  have hprog : openProg [] oo = newHead 0 oo.opts.nsv := by
    unfold openProg
    rw [if_neg (by rw [hro0]; simp)]
    rfl
  unfold openCrashState
  rw [hprog]
  have hfresh : ∀ i, ∃ l', Log.open [⟨0, oo.opts.nsv, [], i⟩] oo' = .ok l' ∧ Inv l' ∧
      (abs l').live = [] ∧ (abs l').next = 0 := by
    intro i
    obtain ⟨l', h1, h2, h3⟩ := open_recover_spec _ (diskOKH_fresh oo.opts.nsv i) oo' hrec hro
    exact ⟨l', h1, h2, by rw [h3]; rfl, by rw [h3]; rfl⟩
  rcases newHead_states [] 0 oo.opts.nsv (by intro s hs; cases hs) k with h | h | h
  · rw [h]
    obtain ⟨l', h1, h2, h3, _⟩ := open_empty oo'
    exact ⟨l', h1, h2, by rw [h3], by rw [h3]⟩
  · rw [h]; exact hfresh none
  · rw [h]; exact hfresh _

/-! ### (4) the crash states as a list -/

theorem open_crash_state_mem (d : List SegDisk) (oo : OpenOpts) (k : Nat)
    (hk : k ≤ (openProg d oo).length) : openCrashState d oo k ∈ openCrashStates d oo := by
  unfold openCrashStates
  exact List.mem_map.mpr ⟨k, List.mem_range.mpr (by omega), rfl⟩

theorem open_crash_state_beyond (d : List SegDisk) (oo : OpenOpts) (k : Nat)
    (hk : (openProg d oo).length ≤ k) :
    openCrashState d oo k = openCrashState d oo (openProg d oo).length := by
  unfold openCrashState
  rw [List.take_of_length_le hk, List.take_of_length_le (Nat.le_refl _)]

/-- Every crash state, at any `k`, is one of the listed ones. -/
theorem open_crash_state_mem' (d : List SegDisk) (oo : OpenOpts) (k : Nat) :
    openCrashState d oo k ∈ openCrashStates d oo := by
  by_cases hk : k ≤ (openProg d oo).length
  · exact open_crash_state_mem d oo k hk
  · rw [open_crash_state_beyond d oo k (by omega)]
    exact open_crash_state_mem d oo _ (Nat.le_refl _)

/-! ### (5) non-vacuity: a V1 segment and a V1 head with a stale index, opened with Recover
and EagerVersionMigrate to V2 -/

def oxOpts : OpenOpts :=
  { opts := { readonly := false, params := ⟨false, false⟩, autosync := false, rollover := 1000,
              nsv := .v2, keep := false },
    check := false, recover := true, eager := true }

def oxR0 : List Msg := [⟨0, 10, [], [1]⟩, ⟨1, 11, [], [2]⟩]
def oxR2 : List Msg := [⟨2, 12, [], [3]⟩, ⟨3, 13, [], [4]⟩]

/-- Segment `0: [0, 1]` (V1, exact index) and head `2: [2, 3]` (V1) whose index file holds
only the item of the first record (a crash between a record and its item). -/
def oxD : List SegDisk :=
  [⟨0, .v1, oxR0, some ⟨.v1, derive ⟨false, false⟩ .v1 oxR0⟩⟩,
   ⟨2, .v1, oxR2, some ⟨.v1, (derive ⟨false, false⟩ .v1 oxR2).take 1⟩⟩]

theorem oxD_ok : DiskOKH oxD := by
  refine ⟨?_, ?_⟩
  · show ShapeOK ([((0 : Int), oxR0)] ++ [((2 : Int), oxR2)])
    rw [shapeOK_snoc_iff]
    refine ⟨?_, by simp, ?_, ?_⟩
    · intro br hbr
      simp only [List.mem_singleton] at hbr; subst hbr
      exact ⟨⟨by decide, by decide, by decide⟩, by decide⟩
    · intro br hbr
      simp only [List.mem_singleton] at hbr; subst hbr
      exact ⟨by decide, by decide⟩
    · exact ⟨by decide, by decide, by decide⟩
  · intro sd hsd
    have : sd = ⟨0, .v1, oxR0, some ⟨.v1, derive ⟨false, false⟩ .v1 oxR0⟩⟩ := by
      simpa [oxD] using hsd
    subst this
    intro f hf
    simp only [Option.some.injEq] at hf; subst hf
    exact derive_itemsFor _ _ _

/-- The head index is stale: Check refuses this directory. -/
example : Log.open oxD { oxOpts with recover := false, eager := false, check := true } = .err .indexCorrupt := by
  decide

/-- Recover of the head (2 steps), migration of both segments (3 + 3 steps); `openWriter` finds
nothing left to do. -/
theorem ox_prog_length : (openProg oxD oxOpts).length = 8 := by decide

theorem ox_prog_steps : (openProg oxD oxOpts).map stepOn =
    [some 2, some 2, some 0, some 0, some 0, some 2, some 2, some 2] := by decide

/-- The nine crash states are pairwise distinct. -/
theorem ox_states_distinct : (openCrashStates oxD oxOpts).Nodup := by decide

theorem ox_states_length : (openCrashStates oxD oxOpts).length = 9 := by decide

/-- Versions of the log files and presence of the index files along the program. -/
theorem ox_states_view :
    (openCrashStates oxD oxOpts).map (fun d => d.map (fun s => (s.base, s.ver, s.idxf.isSome))) =
      [[(0, .v1, true), (2, .v1, true)], [(0, .v1, true), (2, .v1, false)], [(0, .v1, true), (2, .v1, true)],
       [(0, .v1, false), (2, .v1, true)], [(0, .v2, false), (2, .v1, true)], [(0, .v2, true), (2, .v1, true)],
       [(0, .v2, true), (2, .v1, false)], [(0, .v2, true), (2, .v2, false)], [(0, .v2, true), (2, .v2, true)]] := by
  decide

/-- The content of every crash state is the content of the directory. -/
theorem ox_states_content :
    (openCrashStates oxD oxOpts).all
      (fun d => decide (((absDisk d).live.map (·.off), (absDisk d).next) = ([0, 1, 2, 3], 4))) = true := by
  decide

/-- The program ends in the files of the model's Open (an instance of `open_prog_final`,
computed). -/
theorem ox_final : Log.open oxD oxOpts = .ok (okOr default (Log.open oxD oxOpts)) ∧
    applySteps oxD (openProg oxD oxOpts) = (okOr default (Log.open oxD oxOpts)).disk := by decide

/-- One instance of `open_crash_reopens` with the recovered content computed: the crash after
`putLog 0` (segment 0 is V2 without an index, the head is still V1), reopened without eager
migration. -/
theorem ox_crash_reopens :
    ∃ l', Log.open (openCrashState oxD oxOpts 4) { oxOpts with eager := false } = .ok l' ∧ Inv l' ∧
      (abs l').live.map (·.off) = [0, 1, 2, 3] ∧ (abs l').next = 4 ∧
      l'.segs.map (·.ver) = [.v2, .v1] := by
  obtain ⟨l', h, hinv, _⟩ := open_crash_reopens oxD oxD_ok oxOpts 4 { oxOpts with eager := false } rfl rfl
  refine ⟨l', h, hinv, ?_⟩
  have h' : Log.open (openCrashState oxD oxOpts 4) { oxOpts with eager := false } =
      .ok (okOr default (Log.open (openCrashState oxD oxOpts 4) { oxOpts with eager := false })) := by decide
  rw [h'] at h
  simp only [Out.ok.injEq] at h
  subst h
  decide

/-- The empty directory: `createSeg 0`, `putIdx 0`. -/
theorem ox_empty_states : openCrashStates [] oxOpts =
    [[], [⟨0, .v2, [], none⟩], [⟨0, .v2, [], some ⟨.v2, []⟩⟩]] := by decide

end Klev.Crash

#print axioms Klev.Crash.open_crash_disk
#print axioms Klev.Crash.open_crash_reopens
#print axioms Klev.Crash.open_prog_final
#print axioms Klev.Crash.openCrashState_last
#print axioms Klev.Crash.open_crash_reopens_empty
#print axioms Klev.Crash.open_crash_state_mem
#print axioms Klev.Crash.open_crash_state_beyond
#print axioms Klev.Crash.open_crash_state_mem'
#print axioms Klev.Crash.oxD_ok
#print axioms Klev.Crash.ox_prog_length
#print axioms Klev.Crash.ox_states_distinct
#print axioms Klev.Crash.ox_states_view
#print axioms Klev.Crash.ox_states_content
#print axioms Klev.Crash.ox_final
#print axioms Klev.Crash.ox_crash_reopens
