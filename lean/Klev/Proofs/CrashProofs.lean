/-
Crash points of Publish and Delete (C05): every directory a crash may leave after a prefix
of the file-system program of a non-rebasing operation is recovered by Open(Recover) to a
log that satisfies the invariant and whose content is allowed by `CrashOK`; the programs
end exactly where the model's operation ends; the rebasing delete is a proved counterexample.
-/
import Klev.Crash
import Klev.Proofs.Delete
import Klev.Proofs.Publish
import Klev.Proofs.Open
namespace Klev.Crash
open Klev

/-! ### (A) what a crash may leave -/

def CrashOK (l : Log) : COp → Spec → Prop
  | .publish b, s => ∃ j, j ≤ b.length ∧ s.live = (abs l).live ++ (Spec.stampSpec (abs l).next b).take j ∧ s.next = (abs l).next + j
  | .delete o, s => s = abs l ∨ s = abs (l.delete o).1

/-! ### directories whose head index may be anything -/

/-- The index file of a segment on disk is exact (or absent). -/
def Exact (sd : SegDisk) : Prop := ∀ f, sd.idxf = some f → ItemsFor sd.ver sd.recs f.items

/-- A directory that is clean except, possibly, for the index file of its last segment. -/
structure DiskOKH (d : List SegDisk) : Prop where
  shape : ShapeOK (shapeD d)
  idx : ∀ sd ∈ d.dropLast, Exact sd

theorem diskOK_toH {d : List SegDisk} (h : DiskOK d) : DiskOKH d :=
  ⟨h.shape, fun sd hsd => h.idx sd (List.dropLast_subset d hsd)⟩

theorem diskOK_iff (d : List SegDisk) : DiskOK d ↔ ShapeOK (shapeD d) ∧ ∀ sd ∈ d, Exact sd :=
  ⟨fun h => ⟨h.shape, h.idx⟩, fun h => ⟨h.1, h.2⟩⟩

theorem mapLast_snoc {α : Type} (f : α → α) : ∀ (pre : List α) (x : α), mapLast f (pre ++ [x]) = pre ++ [f x] := by
  intro pre
  induction pre with
  | nil => intro x; rfl
  | cons a as ih =>
    intro x
    cases as with
    | nil => rfl
    | cons b bs =>
      have := ih x
      simp only [List.cons_append, mapLast] at this ⊢
      rw [this]

theorem snoc_of_ne {α : Type} {d : List α} (h : d ≠ []) : ∃ pre x, d = pre ++ [x] :=
  ⟨d.dropLast, d.getLast h, (List.dropLast_concat_getLast h).symm⟩

theorem segRecover_exact (p : Params) (sd : SegDisk) : Exact (segRecover p sd) := by
  intro f hf
  have hsh := segRecover_shape p sd
  rw [hsh.2.1, hsh.2.2]
  unfold segRecover at hf
  split at hf
  · next hn => rw [hn] at hf; simp at hf
  · next f0 hf0 =>
    split at hf
    · next heq =>
      rw [hf0] at hf
      simp only [Option.some.injEq] at hf; subst hf
      have : f0.items = derive p sd.ver sd.recs := by simpa using heq
      rw [this]; exact derive_itemsFor _ _ _
    · simp only [Option.some.injEq] at hf; subst hf
      exact derive_itemsFor _ _ _

theorem segRecover_idem (p : Params) (sd : SegDisk) : segRecover p (segRecover p sd) = segRecover p sd := by
  unfold segRecover
  cases hf : sd.idxf with
  | none => simp [hf]
  | some f =>
    simp only
    by_cases heq : (f.items == derive p sd.ver sd.recs) = true
    · simp [heq, hf]
    · simp [heq]

/-- Recover on a directory whose head index may be anything: afterwards the directory is
clean, with the same content. -/
theorem recoverH_ok (d : List SegDisk) (h : DiskOKH d) (p : Params) :
    DiskOK (mapLast (segRecover p) d) ∧ absDisk (mapLast (segRecover p) d) = absDisk d := by
  have hs : shapeD (mapLast (segRecover p) d) = shapeD d := by
    unfold shapeD
    apply mapLast_map
    intro a
    have := segRecover_shape p a
    rw [this.1, this.2.1]
  refine ⟨⟨by rw [hs]; exact h.shape, ?_⟩, by unfold absDisk; rw [hs]⟩
  have hne : d ≠ [] := by
    intro he
    have := h.shape.ne
    rw [he] at this; exact this rfl
  obtain ⟨pre, x, rfl⟩ := snoc_of_ne hne
  rw [mapLast_snoc]
  intro sd hsd
  rcases List.mem_append.mp hsd with h1 | h1
  · apply h.idx
    rw [List.dropLast_concat]; exact h1
  · simp only [List.mem_singleton] at h1; subst h1
    exact segRecover_exact p x

theorem open_recover_eq (d : List SegDisk) (oo : OpenOpts) (hro : oo.opts.readonly = false)
    (hrec : oo.recover = true) :
    Log.open d oo = Log.open (mapLast (segRecover oo.opts.params) d) oo := by
  by_cases hne : d = []
  · subst hne; rfl
  · obtain ⟨pre, x, rfl⟩ := snoc_of_ne hne
    rw [mapLast_snoc]
    unfold Log.open
    simp only [hro, hrec, Bool.false_eq_true, if_false, if_true, not_true_eq_false, false_and,
      List.getLast?_append, List.getLast?_singleton, Option.some_or, mapLast_snoc, segRecover_idem]

theorem open_rw_recover_ok (d : List SegDisk) (hne : d ≠ []) (oo : OpenOpts)
    (hro : oo.opts.readonly = false) (hrec : oo.recover = true) : ∃ l', Log.open d oo = .ok l' := by
  obtain ⟨pre, x, rfl⟩ := snoc_of_ne hne
  unfold Log.open
  simp only [hro, hrec, Bool.false_eq_true, if_false, if_true, not_true_eq_false, false_and,
    List.getLast?_append, List.getLast?_singleton, Option.some_or, mapLast_snoc]
  split
  · next hn =>
    exfalso
    split at hn
    · simp at hn
    · simp at hn
  · exact ⟨_, rfl⟩

/-- **Open with Recover** on a directory whose head index may be anything. -/
theorem open_recover_spec (d : List SegDisk) (hd : DiskOKH d) (oo : OpenOpts)
    (hrec : oo.recover = true) (hro : oo.opts.readonly = false) :
    ∃ l', Log.open d oo = .ok l' ∧ Inv l' ∧ abs l' = absDisk d := by
  have hne : d ≠ [] := by
    intro he
    have := hd.shape.ne
    rw [he] at this; exact this rfl
  obtain ⟨l', hl'⟩ := open_rw_recover_ok d hne oo hro hrec
  refine ⟨l', hl', ?_⟩
  rw [open_recover_eq d oo hro hrec] at hl'
  obtain ⟨hd1, habs1⟩ := recoverH_ok d hd oo.opts.params
  obtain ⟨hinv, habs, _⟩ := open_spec _ hd1 oo l' hl'
  exact ⟨hinv, habs.trans habs1⟩

/-! ### file-system steps on a split directory -/

theorem applySteps_append (d : List SegDisk) (a b : List FsStep) :
    applySteps d (a ++ b) = applySteps (applySteps d a) b := List.foldl_append

theorem applySteps_nil (d : List SegDisk) : applySteps d [] = d := rfl

theorem applySteps_cons (d : List SegDisk) (a : FsStep) (b : List FsStep) :
    applySteps d (a :: b) = applySteps (applyStep d a) b := rfl

theorem take_append_cases {α : Type} (A B : List α) (k : Nat) :
    (∃ k', (A ++ B).take k = A.take k') ∨ (∃ k', (A ++ B).take k = A ++ B.take k') := by
  rw [List.take_append]
  by_cases hk : k ≤ A.length
  · left
    refine ⟨k, ?_⟩
    have : k - A.length = 0 := by omega
    rw [this]; simp
  · right
    refine ⟨k - A.length, ?_⟩
    rw [List.take_of_length_le (by omega)]

theorem insertSeg_split (n : SegDisk) : ∀ (A B : List SegDisk), (∀ s ∈ A, s.base ≤ n.base) →
    (∀ s ∈ B, n.base < s.base) → insertSeg n (A ++ B) = A ++ n :: B := by
  intro A
  induction A with
  | nil =>
    intro B _ hB
    cases B with
    | nil => rfl
    | cons y ys =>
      simp only [List.nil_append, insertSeg]
      rw [if_pos (hB y (by simp))]
  | cons a as ih =>
    intro B hA hB
    have ha : ¬ n.base < a.base := by
      have := hA a (by simp); omega
    simp only [List.cons_append, insertSeg]
    rw [if_neg ha, ih B (fun s hs => hA s (List.mem_cons_of_mem _ hs)) hB]

theorem onSeg_ne (b : Int) (f : SegDisk → SegDisk) (A : List SegDisk) (h : ∀ s ∈ A, s.base ≠ b) :
    onSeg b f A = A := by
  unfold onSeg
  induction A with
  | nil => rfl
  | cons a as ih =>
    simp only [List.map_cons]
    rw [if_neg (h a (by simp)), ih (fun s hs => h s (List.mem_cons_of_mem _ hs))]

theorem onSeg_mid (b : Int) (f : SegDisk → SegDisk) (PRE POST : List SegDisk) (x : SegDisk)
    (hx : x.base = b) (hpre : ∀ s ∈ PRE, s.base ≠ b) (hpost : ∀ s ∈ POST, s.base ≠ b) :
    onSeg b f (PRE ++ x :: POST) = PRE ++ f x :: POST := by
  have h1 : onSeg b f (PRE ++ x :: POST) = onSeg b f PRE ++ (onSeg b f [x] ++ onSeg b f POST) := by
    unfold onSeg; simp
  rw [h1, onSeg_ne b f PRE hpre, onSeg_ne b f POST hpost]
  unfold onSeg
  simp [hx]

theorem filter_ne (b : Int) (A : List SegDisk) (h : ∀ s ∈ A, s.base ≠ b) :
    A.filter (fun s => s.base ≠ b) = A := by
  rw [List.filter_eq_self]
  intro a ha
  simpa using h a ha

theorem filter_mid (b : Int) (PRE POST : List SegDisk) (x : SegDisk)
    (hx : x.base = b) (hpre : ∀ s ∈ PRE, s.base ≠ b) (hpost : ∀ s ∈ POST, s.base ≠ b) :
    (PRE ++ x :: POST).filter (fun s => s.base ≠ b) = PRE ++ POST := by
  rw [List.filter_append, List.filter_cons, filter_ne b PRE hpre, filter_ne b POST hpost]
  simp [hx]

theorem shapeD_append (a b : List SegDisk) : shapeD (a ++ b) = shapeD a ++ shapeD b := by
  simp [shapeD]

theorem shapeD_cons (x : SegDisk) (b : List SegDisk) : shapeD (x :: b) = (x.base, x.recs) :: shapeD b := rfl

/-- Bases around a segment of a well-shaped directory. -/
theorem split_order (PRE POST : List SegDisk) (x : SegDisk) (h : ShapeOK (shapeD (PRE ++ x :: POST))) :
    (∀ s ∈ PRE, s.base < x.base) ∧ (∀ s ∈ POST, x.base < s.base) := by
  have ho := h.order
  rw [shapeD_append, shapeD_cons, List.pairwise_append] at ho
  obtain ⟨_, h2, h3⟩ := ho
  rw [List.pairwise_cons] at h2
  constructor
  · intro s hs
    exact (h3 (s.base, s.recs) (List.mem_map.mpr ⟨s, hs, rfl⟩) (x.base, x.recs) (by simp)).1
  · intro s hs
    exact (h2.1 (s.base, s.recs) (List.mem_map.mpr ⟨s, hs, rfl⟩)).1

/-! ### the swap program on a split directory -/

/-- The rewritten segment as it lies on disk once both files are renamed in. -/
def rsD (p : Params) (rw : Rewrite) : SegDisk :=
  ⟨minOff (rw.survive.map (·.off)), rw.ver, rw.survive, some ⟨rw.iver, derive p rw.ver rw.survive⟩⟩

theorem rsD_eq (p : Params) (rw : Rewrite) : rsD p rw = (rewrittenSeg p rw).toDisk := rfl

def fin (p : Params) (rw : Rewrite) : List SegDisk := if rw.survive.isEmpty then [] else [rsD p rw]

theorem onSeg_mid' (b : Int) (f : SegDisk → SegDisk) (PRE POST : List SegDisk) (v : Ver) (r : List Msg)
    (i : Option IdxFile) (hpre : ∀ s ∈ PRE, s.base ≠ b) (hpost : ∀ s ∈ POST, s.base ≠ b) :
    onSeg b f (PRE ++ ⟨b, v, r, i⟩ :: POST) = PRE ++ f ⟨b, v, r, i⟩ :: POST :=
  onSeg_mid b f PRE POST _ rfl hpre hpost

theorem filter_mid' (b : Int) (PRE POST : List SegDisk) (v : Ver) (r : List Msg)
    (i : Option IdxFile) (hpre : ∀ s ∈ PRE, s.base ≠ b) (hpost : ∀ s ∈ POST, s.base ≠ b) :
    (PRE ++ ⟨b, v, r, i⟩ :: POST).filter (fun s => s.base ≠ b) = PRE ++ POST :=
  filter_mid b PRE POST _ rfl hpre hpost

theorem swap_final (p : Params) (rw : Rewrite) (PRE POST : List SegDisk) (x : SegDisk)
    (hpre : ∀ s ∈ PRE, s.base < x.base) (hpost : ∀ s ∈ POST, x.base < s.base)
    (hnb : rw.survive.isEmpty = false →
      x.base ≤ minOff (rw.survive.map (·.off)) ∧ ∀ s ∈ POST, minOff (rw.survive.map (·.off)) < s.base) :
    applySteps (PRE ++ x :: POST) (swapProg p x.base rw) = PRE ++ (fin p rw ++ POST) := by
  have hpre' : ∀ s ∈ PRE, s.base ≠ x.base := fun s hs => by have := hpre s hs; omega
  have hpost' : ∀ s ∈ POST, s.base ≠ x.base := fun s hs => by have := hpost s hs; omega
  have on0 : ∀ f, onSeg x.base f (PRE ++ x :: POST) = PRE ++ f x :: POST :=
    fun f => onSeg_mid _ f PRE POST x rfl hpre' hpost'
  unfold swapProg fin
  cases hE : rw.survive.isEmpty with
  | true =>
    simp only [if_true, applySteps, List.foldl, applyStep]
    rw [on0, filter_mid' _ _ _ _ _ _ hpre' hpost']
    rfl
  | false =>
    simp only [Bool.false_eq_true, if_false]
    obtain ⟨hle, hgt⟩ := hnb hE
    by_cases hb : minOff (rw.survive.map (·.off)) = x.base
    · simp only [hb, if_true, applySteps, List.foldl, applyStep]
      rw [on0, onSeg_mid' _ _ _ _ _ _ _ hpre' hpost', onSeg_mid' _ _ _ _ _ _ _ hpre' hpost']
      simp only [rsD, hb, List.cons_append, List.nil_append]
    · simp only [hb, if_false, applySteps, List.foldl, applyStep]
      have hlt : x.base < minOff (rw.survive.map (·.off)) := by omega
      have e1 : PRE ++ x :: POST = (PRE ++ [x]) ++ POST := by simp
      rw [e1, insertSeg_split _ (PRE ++ [x]) POST
        (by
          intro s hs
          rcases List.mem_append.mp hs with h | h
          · have := hpre s h; simp only; omega
          · simp only [List.mem_singleton] at h; subst h; simp only; omega)
        (by intro s hs; exact hgt s hs)]
      rw [onSeg_mid' _ _ (PRE ++ [x]) POST _ _ _
        (by
          intro s hs
          rcases List.mem_append.mp hs with h | h
          · have := hpre s h; omega
          · simp only [List.mem_singleton] at h; subst h; omega)
        (by intro s hs; have := hgt s hs; omega)]
      have e2 : ∀ y : SegDisk, (PRE ++ [x]) ++ y :: POST = PRE ++ x :: (y :: POST) := by intro y; simp
      have hpost2 : ∀ y : SegDisk, y.base = minOff (rw.survive.map (·.off)) → ∀ s ∈ y :: POST, s.base ≠ x.base := by
        intro y hy s hs
        rcases List.mem_cons.mp hs with h | h
        · subst h; omega
        · exact hpost' s h
      rw [e2, onSeg_mid _ _ PRE _ x rfl hpre' (hpost2 _ rfl), filter_mid' _ PRE _ _ _ _ hpre' (hpost2 _ rfl)]
      rfl

/-- The directories a crash inside a non-rebasing swap may leave. -/
theorem swap_states (p : Params) (rw : Rewrite) (PRE POST : List SegDisk) (x : SegDisk)
    (hpre : ∀ s ∈ PRE, s.base < x.base) (hpost : ∀ s ∈ POST, x.base < s.base)
    (hnr : rw.survive.isEmpty = true ∨ minOff (rw.survive.map (·.off)) = x.base) (k : Nat) :
    applySteps (PRE ++ x :: POST) ((swapProg p x.base rw).take k) = PRE ++ x :: POST ∨
    applySteps (PRE ++ x :: POST) ((swapProg p x.base rw).take k) = PRE ++ ⟨x.base, x.ver, x.recs, none⟩ :: POST ∨
    (rw.survive.isEmpty = false ∧ minOff (rw.survive.map (·.off)) = x.base ∧
      applySteps (PRE ++ x :: POST) ((swapProg p x.base rw).take k) =
        PRE ++ ⟨x.base, rw.ver, rw.survive, none⟩ :: POST) ∨
    applySteps (PRE ++ x :: POST) ((swapProg p x.base rw).take k) = PRE ++ (fin p rw ++ POST) := by
  have hpre' : ∀ s ∈ PRE, s.base ≠ x.base := fun s hs => by have := hpre s hs; omega
  have hpost' : ∀ s ∈ POST, s.base ≠ x.base := fun s hs => by have := hpost s hs; omega
  have on0 : ∀ f, onSeg x.base f (PRE ++ x :: POST) = PRE ++ f x :: POST :=
    fun f => onSeg_mid _ f PRE POST x rfl hpre' hpost'
  have hfinal : ∀ k, (swapProg p x.base rw).length ≤ k →
      applySteps (PRE ++ x :: POST) ((swapProg p x.base rw).take k) = PRE ++ (fin p rw ++ POST) := by
    intro k hk
    rw [List.take_of_length_le hk]
    apply swap_final p rw PRE POST x hpre hpost
    intro hE
    rcases hnr with h | h
    · rw [h] at hE; cases hE
    · rw [h]; exact ⟨Int.le_refl _, hpost⟩
  cases hE : rw.survive.isEmpty with
  | true =>
    have hprog : swapProg p x.base rw = [.removeIdx x.base, .removeSeg x.base] := by
      unfold swapProg; rw [hE]; rfl
    rcases k with _ | _ | k
    · left; rfl
    · right; left
      rw [hprog]
      simp only [List.take, applySteps, List.foldl, applyStep]
      rw [on0]
    · right; right; right
      exact hfinal _ (by rw [hprog]; simp)
  | false =>
    have hb : minOff (rw.survive.map (·.off)) = x.base := by
      rcases hnr with h | h
      · rw [h] at hE; cases hE
      · exact h
    have hprog : swapProg p x.base rw = [.removeIdx x.base, .putLog x.base rw.ver rw.survive,
        .putIdx x.base ⟨rw.iver, derive p rw.ver rw.survive⟩] := by
      unfold swapProg; rw [hE]; simp only [Bool.false_eq_true, if_false, hb, if_true]
    rcases k with _ | _ | _ | k
    · left; rfl
    · right; left
      rw [hprog]
      simp only [List.take, applySteps, List.foldl, applyStep]
      rw [on0]
    · right; right; left
      refine ⟨rfl, hb, ?_⟩
      rw [hprog]
      simp only [List.take, applySteps, List.foldl, applyStep]
      rw [on0, onSeg_mid' _ _ _ _ _ _ _ hpre' hpost']
    · right; right; right
      exact hfinal _ (by rw [hprog]; simp)

/-! ### a new head segment -/

theorem newHead_final (d : List SegDisk) (nb : Int) (v : Ver) (hlt : ∀ s ∈ d, s.base < nb) :
    applySteps d (newHead nb v) = d ++ [⟨nb, v, [], some ⟨v, []⟩⟩] := by
  have h1 : insertSeg ⟨nb, v, [], none⟩ d = d ++ [⟨nb, v, [], none⟩] := by
    have := insertSeg_split ⟨nb, v, [], none⟩ d []
      (by intro s hs; have := hlt s hs; simp only; omega) (by intro s hs; cases hs)
    simpa using this
  simp only [newHead, applySteps, List.foldl, applyStep]
  rw [h1, onSeg_mid' _ _ _ _ _ _ _ (fun s hs => by have := hlt s hs; omega) (by intro s hs; cases hs)]

theorem newHead_states (d : List SegDisk) (nb : Int) (v : Ver) (hlt : ∀ s ∈ d, s.base < nb) (k : Nat) :
    applySteps d ((newHead nb v).take k) = d ∨
    applySteps d ((newHead nb v).take k) = d ++ [⟨nb, v, [], none⟩] ∨
    applySteps d ((newHead nb v).take k) = d ++ [⟨nb, v, [], some ⟨v, []⟩⟩] := by
  rcases k with _ | _ | k
  · left; rfl
  · right; left
    have := insertSeg_split ⟨nb, v, [], none⟩ d []
      (by intro s hs; have := hlt s hs; simp only; omega) (by intro s hs; cases hs)
    simpa [newHead, applySteps, applyStep] using this
  · right; right
    rw [List.take_of_length_le (by simp [newHead])]
    exact newHead_final d nb v hlt

/-- A fresh empty head named after the next offset, behind a non-empty head. -/
theorem shapeOK_newHead (pre : Shape) (b : Int) (recs : List Msg) (h : ShapeOK (pre ++ [(b, recs)]))
    (hrne : recs ≠ []) : ShapeOK ((pre ++ [(b, recs)]) ++ [(recsNext b recs, [])]) := by
  have h' := h
  rw [shapeOK_snoc_iff] at h'
  obtain ⟨hpre, hpw, hr, hlast⟩ := h'
  have hgt := recsNext_gt b recs hlast.1
  have hge := recsNext_ge b recs hlast.2.1
  obtain ⟨m0, hm0⟩ : ∃ m0, m0 ∈ recs := by
    cases hrc : recs with
    | nil => exact absurd hrc hrne
    | cons a as => exact ⟨a, by simp⟩
  rw [shapeOK_snoc_iff]
  refine ⟨?_, h.order, ?_, ⟨by simp, by intro m hm; simp at hm, ?_⟩⟩
  · intro br hbr
    rcases List.mem_append.mp hbr with hb | hb
    · exact hpre br hb
    · simp only [List.mem_singleton] at hb; subst hb; exact ⟨hlast, hrne⟩
  · intro br hbr
    rcases List.mem_append.mp hbr with hb | hb
    · exact shapeR_left_mono (hr br hb) hge
    · simp only [List.mem_singleton] at hb; subst hb
      refine ⟨?_, fun m hm => hgt m hm⟩
      have := hlast.2.1 m0 hm0
      have := hgt m0 hm0
      simp only at *; omega
  · have := hlast.2.2; simp only at *; omega

theorem absShape_newHead (pre : Shape) (b : Int) (recs : List Msg) :
    absShape ((pre ++ [(b, recs)]) ++ [(recsNext b recs, [])]) = absShape (pre ++ [(b, recs)]) := by
  unfold absShape
  rw [shapeNext_snoc, shapeNext_snoc]
  simp [recsNext]

/-! ### Delete: the program next to the model -/

/-- The rewrite `log.Delete` runs on segment `s`. -/
def rwOf (l : Log) (s : Seg) (offs : List Int) : Rewrite :=
  rewrite l.opts.params s offs (if l.opts.keep then s.ver else l.opts.nsv) (if l.opts.keep then s.ver else l.opts.nsv)

theorem delete_cases (l : Log) (hrw : l.opts.readonly = false) (offs : List Int) :
    (deleteProg l offs = [] ∧ (l.delete offs).1 = l) ∨
    ∃ i, ∃ hi : i < l.segs.length,
      (rwOf l (l.segs[i]) offs).deleted.isEmpty = false ∧
      ((i + 1 = l.segs.length ∧
        deleteProg l offs =
          (if (rwOf l (l.segs[i]) offs).survive.isEmpty ∨ tailDeleted (l.segs[i]) (rwOf l (l.segs[i]) offs)
            then newHead l.wNextOff l.opts.nsv else []) ++
          swapProg l.opts.params (l.segs[i]).base (rwOf l (l.segs[i]) offs) ∧
        (l.delete offs).1 = swapHead l i (l.segs[i]) (rwOf l (l.segs[i]) offs)) ∨
       (i + 1 < l.segs.length ∧
        deleteProg l offs = swapProg l.opts.params (l.segs[i]).base (rwOf l (l.segs[i]) offs) ∧
        (l.delete offs).1 = swapReader l i (rwOf l (l.segs[i]) offs))) := by
  unfold deleteProg Log.delete
  simp only [hrw, Bool.false_eq_true, false_or, if_false]
  by_cases hoe : offs.isEmpty = true
  · left; simp [hoe]
  · simp only [hoe, Bool.false_eq_true, if_false]
    cases hdt : deleteTarget l offs with
    | error e => left; exact ⟨rfl, rfl⟩
    | ok i =>
      simp only
      cases hsi : l.segs[i]? with
      | none => left; exact ⟨rfl, rfl⟩
      | some s =>
        simp only
        obtain ⟨hi, hs⟩ := List.getElem?_eq_some_iff.mp hsi
        subst hs
        by_cases hde : (rwOf l (l.segs[i]) offs).deleted.isEmpty = true
        · left
          have hde' : (rewrite l.opts.params l.segs[i] offs (if l.opts.keep = true then (l.segs[i]).ver else l.opts.nsv)
            (if l.opts.keep = true then (l.segs[i]).ver else l.opts.nsv)).deleted.isEmpty = true := hde
          simp only [hde', if_true]
          exact ⟨trivial, trivial⟩
        · right
          have hde' : (rewrite l.opts.params l.segs[i] offs (if l.opts.keep = true then (l.segs[i]).ver else l.opts.nsv)
            (if l.opts.keep = true then (l.segs[i]).ver else l.opts.nsv)).deleted.isEmpty = false := by
            cases hc : (rwOf l (l.segs[i]) offs).deleted.isEmpty with
            | true => exact absurd hc hde
            | false => exact hc
          refine ⟨i, hi, hde', ?_⟩
          simp only [hde', Bool.false_eq_true, if_false]
          by_cases hlast : (i + 1 == l.segs.length) = true
          · left
            simp only [hlast, if_true]
            exact ⟨by simpa using hlast, rfl, rfl⟩
          · right
            simp only [hlast, Bool.false_eq_true, if_false]
            refine ⟨?_, rfl, rfl⟩
            have : ¬ i + 1 = l.segs.length := by simpa using hlast
            omega

theorem openWriter_rewritten_disk (o : Opts) (rw : Rewrite) (nt : Int) (hne : rw.survive ≠ []) :
    (openWriter o (rewrittenSeg o.params rw) nt).1.toDisk = rsD o.params rw := by
  have hdl := derive_length o.params rw.ver rw.survive
  have hdne : derive o.params rw.ver rw.survive ≠ [] := by
    intro he; rw [he] at hdl; simp only [List.length_nil] at hdl
    exact hne (List.eq_nil_of_length_eq_zero hdl.symm)
  have hie : rw.survive.isEmpty = false := by
    cases hrs : rw.survive with
    | nil => exact absurd hrs hne
    | cons a as => rfl
  have hde : (derive o.params rw.ver rw.survive).isEmpty = false := by
    cases hrs : derive o.params rw.ver rw.survive with
    | nil => exact absurd hrs hdne
    | cons a as => rfl
  unfold openWriter reindexAndRead needsReindex
  simp only [rewrittenSeg, hie, Bool.false_eq_true, false_and, if_false, hde]
  cases hd : derive o.params rw.ver rw.survive with
  | nil => exact absurd hd hdne
  | cons a as => cases hiv : rw.iver <;> simp [Seg.toDisk, rsD, hd, hiv]

/-- The new head as it lies on disk. -/
def nhD (l : Log) : SegDisk := ⟨l.wNextOff, l.opts.nsv, [], some ⟨l.opts.nsv, []⟩⟩

theorem disk_split (l : Log) (i : Nat) (hi : i < l.segs.length) :
    l.disk = (l.segs.take i).map Seg.toDisk ++ (l.segs[i]).toDisk :: (l.segs.drop (i + 1)).map Seg.toDisk := by
  have h : l.segs = l.segs.take i ++ l.segs[i] :: l.segs.drop (i + 1) := by
    rw [← List.drop_eq_getElem_cons hi, List.take_append_drop]
  unfold Log.disk
  conv => lhs; rw [h]
  rw [List.map_append, List.map_cons]

theorem disk_replaceAt (segs : List Seg) (i : Nat) (new : List Seg) :
    (replaceAt segs i new).map Seg.toDisk =
      (segs.take i).map Seg.toDisk ++ (new.map Seg.toDisk ++ (segs.drop (i + 1)).map Seg.toDisk) := by
  unfold replaceAt; simp

theorem isEmpty_false_of_ne {α : Type} {l : List α} (h : l ≠ []) : l.isEmpty = false := by
  cases l with
  | nil => exact absurd rfl h
  | cons a as => rfl

theorem ne_of_isEmpty_false {α : Type} {l : List α} (h : l.isEmpty = false) : l ≠ [] := by
  intro he; rw [he] at h; cases h

/-- Delete, program and model side by side on the split directory. -/
theorem delete_disk (l : Log) (hrw : l.opts.readonly = false) (offs : List Int) :
    (deleteProg l offs = [] ∧ (l.delete offs).1 = l) ∨
    ∃ (PRE : List SegDisk) (x : SegDisk) (POST0 : List SegDisk) (rw : Rewrite) (nh : Bool),
      l.disk = PRE ++ x :: POST0 ∧
      deleteProg l offs =
        (if nh then newHead l.wNextOff l.opts.nsv else []) ++ swapProg l.opts.params x.base rw ∧
      (l.delete offs).1.disk = PRE ++ (fin l.opts.params rw ++ (POST0 ++ if nh then [nhD l] else [])) ∧
      (nh = true → POST0 = []) ∧ x.recs ≠ [] ∧ rw.survive.Sublist x.recs ∧
      rw.ver = (if l.opts.keep then x.ver else l.opts.nsv) ∧ rw.iver = rw.ver := by
  rcases delete_cases l hrw offs with h | ⟨i, hi, hde, h⟩
  · exact Or.inl h
  · right
    have hsub : (rwOf l (l.segs[i]) offs).survive.Sublist (l.segs[i]).recs := List.filter_sublist
    have hrne : (l.segs[i]).recs ≠ [] := by
      intro he
      have : (rwOf l (l.segs[i]) offs).deleted = [] := by
        show (l.segs[i]).recs.filter _ = []
        rw [he]; rfl
      rw [this] at hde; cases hde
    rcases h with ⟨hlast, hprog, hres⟩ | ⟨hlt, hprog, hres⟩
    · -- the head
      have hdrop : l.segs.drop (i + 1) = [] := List.drop_eq_nil_of_le (by omega)
      refine ⟨(l.segs.take i).map Seg.toDisk, (l.segs[i]).toDisk, [], rwOf l (l.segs[i]) offs,
        decide ((rwOf l (l.segs[i]) offs).survive.isEmpty ∨ tailDeleted (l.segs[i]) (rwOf l (l.segs[i]) offs)),
        ?_, ?_, ?_, fun _ => rfl, hrne, hsub, rfl, rfl⟩
      · have := disk_split l i hi
        rw [hdrop] at this; exact this
      · rw [hprog]
        simp only [decide_eq_true_eq]
        rfl
      · rw [hres]
        unfold swapHead fin
        cases hE : (rwOf l (l.segs[i]) offs).survive.isEmpty with
        | true =>
          simp only [if_true, openWriter_empty, Log.disk, true_or, decide_true]
          rw [disk_replaceAt, hdrop]
          rfl
        | false =>
          simp only [Bool.false_eq_true, if_false, false_or]
          cases htd : tailDeleted (l.segs[i]) (rwOf l (l.segs[i]) offs) with
          | true =>
            simp only [if_true, openWriter_empty, Log.disk, decide_true]
            rw [disk_replaceAt, hdrop]
            rfl
          | false =>
            simp only [Bool.false_eq_true, if_false, Log.disk, decide_false]
            rw [disk_replaceAt, hdrop]
            simp only [List.map_cons, List.map_nil, List.append_nil]
            rw [openWriter_rewritten_disk _ _ _ (ne_of_isEmpty_false hE)]
    · -- a reader
      refine ⟨(l.segs.take i).map Seg.toDisk, (l.segs[i]).toDisk, (l.segs.drop (i + 1)).map Seg.toDisk,
        rwOf l (l.segs[i]) offs, false, disk_split l i hi, ?_, ?_, (fun h => by cases h), hrne, hsub, rfl, rfl⟩
      · rw [hprog]; rfl
      · rw [hres]
        unfold swapReader fin
        cases hE : (rwOf l (l.segs[i]) offs).survive.isEmpty with
        | true =>
          simp only [if_true, Log.disk]
          rw [disk_replaceAt]; simp
        | false =>
          simp only [Bool.false_eq_true, if_false, Log.disk]
          rw [disk_replaceAt]; simp [rsD_eq]

/-! ### shapes before and after -/

theorem diskOK_congr (d d' : List SegDisk) (hs : shapeD d = shapeD d') (hok : ShapeOK (shapeD d'))
    (hex : ∀ sd ∈ d, Exact sd) : DiskOK d ∧ absDisk d = absDisk d' :=
  ⟨⟨by rw [hs]; exact hok, hex⟩, by unfold absDisk; rw [hs]⟩

theorem exact_nil (b : Int) (v : Ver) (i : Option IdxFile) (hi : ∀ f, i = some f → f.items = []) :
    Exact ⟨b, v, [], i⟩ := by
  intro f hf
  have := hi f hf
  rw [this]; rfl

theorem exact_none (b : Int) (v : Ver) (r : List Msg) : Exact ⟨b, v, r, none⟩ := by
  intro f hf; cases hf

theorem exact_rsD (p : Params) (rw : Rewrite) : Exact (rsD p rw) := by
  intro f hf
  simp only [rsD, Option.some.injEq] at hf
  subst hf
  exact derive_itemsFor _ _ _

/-- A directory whose last segment has records, with a fresh empty segment named after the
next offset behind it: well-shaped, same content. -/
theorem nh_shape (l : Log) (hinv : Inv l) (hrw : l.opts.readonly = false) (PRE : List SegDisk) (x : SegDisk)
    (hd : l.disk = PRE ++ [x]) (hrne : x.recs ≠ []) (y : SegDisk) (hyb : y.base = l.wNextOff)
    (hyr : y.recs = []) :
    ShapeOK (shapeD (l.disk ++ [y])) ∧ absDisk (l.disk ++ [y]) = abs l ∧ ∀ s ∈ l.disk, s.base < l.wNextOff := by
  have hsh : shape l.segs = shapeD PRE ++ [(x.base, x.recs)] := by
    rw [← shapeD_disk, hd, shapeD_append]; rfl
  have hok := hinv.shape
  rw [hsh] at hok
  have hnext := hinv.next hrw
  rw [hsh, shapeNext_snoc] at hnext
  simp only at hnext
  have hs1 : shapeD (l.disk ++ [y]) = (shapeD PRE ++ [(x.base, x.recs)]) ++ [(recsNext x.base x.recs, [])] := by
    rw [shapeD_append, shapeD_disk, hsh, ← hnext, ← hyb, ← hyr]; rfl
  have hnew := shapeOK_newHead _ _ _ hok hrne
  refine ⟨by rw [hs1]; exact hnew, ?_, ?_⟩
  · unfold absDisk abs
    rw [hs1, absShape_newHead, hsh]
  · intro s hs
    have ho := hnew.order
    rw [List.pairwise_append] at ho
    have := ho.2.2 (s.base, s.recs) (by
      rw [← hsh, ← shapeD_disk]
      exact List.mem_map.mpr ⟨s, hs, rfl⟩) (recsNext x.base x.recs, []) (by simp)
    rw [hnext]; exact this.1

theorem rebasing_false (l : Log) (offs : List Int) (nh : Bool) (b : Int) (rw : Rewrite)
    (hprog : deleteProg l offs =
      (if nh then newHead l.wNextOff l.opts.nsv else []) ++ swapProg l.opts.params b rw)
    (hnr : rebasing l offs = false) :
    rw.survive.isEmpty = true ∨ minOff (rw.survive.map (·.off)) = b := by
  cases hE : rw.survive.isEmpty with
  | true => left; rfl
  | false =>
    right
    apply Classical.byContradiction
    intro hb
    have : rebasing l offs = true := by
      unfold rebasing
      rw [hprog, List.any_append]
      unfold swapProg
      simp [hE, hb]
    rw [this] at hnr; cases hnr

theorem exact_nhD (l : Log) : Exact (nhD l) := exact_nil _ _ _ (by intro f hf; simp only [Option.some.injEq] at hf; subst hf; rfl)

/-- Everything the two Delete theorems need about the directory after the optional new head. -/
theorem delete_setup (l : Log) (hinv : Inv l) (hrw : l.opts.readonly = false) (offs : List Int)
    (PRE : List SegDisk) (x : SegDisk) (POST0 : List SegDisk) (rw : Rewrite) (nh : Bool)
    (hd : l.disk = PRE ++ x :: POST0)
    (hres : (l.delete offs).1.disk = PRE ++ (fin l.opts.params rw ++ (POST0 ++ if nh then [nhD l] else [])))
    (hnh : nh = true → POST0 = []) (hrne : x.recs ≠ []) (hsub : rw.survive.Sublist x.recs) :
    applySteps l.disk (if nh then newHead l.wNextOff l.opts.nsv else []) =
      PRE ++ x :: (POST0 ++ if nh then [nhD l] else []) ∧
    ShapeOK (shapeD (PRE ++ x :: (POST0 ++ if nh then [nhD l] else []))) ∧
    absDisk (PRE ++ x :: (POST0 ++ if nh then [nhD l] else [])) = abs l ∧
    (∀ sd ∈ PRE ++ x :: (POST0 ++ if nh then [nhD l] else []), Exact sd) ∧
    (rw.survive.isEmpty = false →
      x.base ≤ minOff (rw.survive.map (·.off)) ∧
      ∀ s ∈ (POST0 ++ if nh then [nhD l] else []), minOff (rw.survive.map (·.off)) < s.base) ∧
    (∀ k, DiskOK (applySteps l.disk ((if nh then newHead l.wNextOff l.opts.nsv else []).take k)) ∧
      absDisk (applySteps l.disk ((if nh then newHead l.wNextOff l.opts.nsv else []).take k)) = abs l) := by
  obtain ⟨hdok, hdabs⟩ := disk_of_inv l hinv
  have hresok : ShapeOK (shapeD (l.delete offs).1.disk) := by
    rw [shapeD_disk]; exact (delete_step l hinv offs).1.shape
  have hxmem : (x.base, x.recs) ∈ shapeD l.disk := by
    rw [hd]; exact List.mem_map.mpr ⟨x, by simp, rfl⟩
  have hxseg : SegShapeOK (x.base, x.recs) :=
    ⟨hdok.shape.sorted _ hxmem, hdok.shape.lower _ hxmem, hdok.shape.base0 _ hxmem⟩
  have hnb : rw.survive.isEmpty = false →
      x.base ≤ minOff (rw.survive.map (·.off)) ∧
      ∀ s ∈ (POST0 ++ if nh then [nhD l] else []), minOff (rw.survive.map (·.off)) < s.base := by
    intro hE
    refine ⟨(segShapeOK_rewritten hxseg hsub (ne_of_isEmpty_false hE)).2.1, ?_⟩
    rw [hres] at hresok
    unfold fin at hresok
    simp only [hE, Bool.false_eq_true, if_false, List.cons_append, List.nil_append] at hresok
    exact (split_order _ _ _ hresok).2
  cases nh with
  | false =>
    simp only [Bool.false_eq_true, if_false, List.append_nil] at hnb ⊢
    rw [← hd]
    refine ⟨rfl, hdok.shape, hdabs, hdok.idx, hnb, ?_⟩
    intro k
    simp only [List.take_nil, applySteps_nil]
    exact ⟨hdok, hdabs⟩
  | true =>
    have hp0 := hnh rfl
    subst hp0
    simp only [if_true, List.nil_append] at hnb ⊢
    obtain ⟨hs1, ha1, hlt⟩ := nh_shape l hinv hrw PRE x hd hrne (nhD l) rfl rfl
    have e1 : PRE ++ [x, nhD l] = l.disk ++ [nhD l] := by rw [hd]; simp
    have hex1 : ∀ sd ∈ l.disk ++ [nhD l], Exact sd := by
      intro sd hsd
      rcases List.mem_append.mp hsd with h | h
      · exact hdok.idx sd h
      · simp only [List.mem_singleton] at h; subst h; exact exact_nhD l
    rw [e1]
    refine ⟨newHead_final _ _ _ hlt, hs1, ha1, hex1, hnb, ?_⟩
    intro k
    rcases newHead_states l.disk l.wNextOff l.opts.nsv hlt k with h | h | h
    · rw [h]; exact ⟨hdok, hdabs⟩
    · rw [h]
      obtain ⟨hs2, ha2, _⟩ := nh_shape l hinv hrw PRE x hd hrne ⟨l.wNextOff, l.opts.nsv, [], none⟩ rfl rfl
      refine ⟨⟨hs2, ?_⟩, ha2⟩
      intro sd hsd
      rcases List.mem_append.mp hsd with h | h
      · exact hdok.idx sd h
      · simp only [List.mem_singleton] at h; subst h; exact exact_none _ _ _
    · rw [h]
      exact ⟨⟨hs1, hex1⟩, ha1⟩

/-- The Delete program ends exactly where the model's Delete ends. -/
theorem delete_final (l : Log) (hinv : Inv l) (hrw : l.opts.readonly = false) (offs : List Int) :
    applySteps l.disk (deleteProg l offs) = (l.delete offs).1.disk := by
  rcases delete_disk l hrw offs with ⟨hp, hl⟩ | ⟨PRE, x, POST0, rw, nh, hd, hprog, hres, hnh, hrne, hsub, _, _⟩
  · rw [hp, hl]; rfl
  · obtain ⟨h1, hok, _, _, hnb, _⟩ := delete_setup l hinv hrw offs PRE x POST0 rw nh hd hres hnh hrne hsub
    obtain ⟨hpre, hpost⟩ := split_order _ _ _ hok
    rw [hprog, applySteps_append, h1, hres]
    exact swap_final _ rw PRE _ x hpre hpost hnb

/-- Every crash state of a non-rebasing Delete is a clean directory holding the content
before or the content after. -/
theorem delete_crash_disk (l : Log) (hinv : Inv l) (hrw : l.opts.readonly = false) (offs : List Int)
    (hnr : rebasing l offs = false) (k : Nat) :
    DiskOK (crashState l (.delete offs) k) ∧
    (absDisk (crashState l (.delete offs) k) = abs l ∨
     absDisk (crashState l (.delete offs) k) = abs (l.delete offs).1) := by
  obtain ⟨hdok, hdabs⟩ := disk_of_inv l hinv
  unfold crashState prog
  simp only
  rcases delete_disk l hrw offs with ⟨hp, hl⟩ | ⟨PRE, x, POST0, rw, nh, hd, hprog, hres, hnh, hrne, hsub, _, _⟩
  · rw [hp]
    simp only [List.take_nil, applySteps_nil]
    exact ⟨hdok, Or.inl hdabs⟩
  · obtain ⟨h1, hok, habs, hex, hnb, hstates⟩ :=
      delete_setup l hinv hrw offs PRE x POST0 rw nh hd hres hnh hrne hsub
    obtain ⟨hpre, hpost⟩ := split_order _ _ _ hok
    have hnr' := rebasing_false l offs nh x.base rw hprog hnr
    obtain ⟨hrok, hrabs⟩ := disk_of_inv _ (delete_step l hinv offs).1
    rw [hprog]
    rcases take_append_cases (if nh then newHead l.wNextOff l.opts.nsv else [])
      (swapProg l.opts.params x.base rw) k with ⟨k', hk⟩ | ⟨k', hk⟩
    · rw [hk]
      exact ⟨(hstates k').1, Or.inl (hstates k').2⟩
    · rw [hk, applySteps_append, h1]
      generalize hPOST : (POST0 ++ if nh then [nhD l] else []) = POST at *
      have hexP : ∀ sd ∈ PRE, Exact sd := fun sd h => hex sd (List.mem_append_left _ h)
      have hexQ : ∀ sd ∈ POST, Exact sd :=
        fun sd h => hex sd (List.mem_append_right _ (List.mem_cons_of_mem _ h))
      have hexmid : ∀ y : SegDisk, Exact y → ∀ sd ∈ PRE ++ y :: POST, Exact sd := by
        intro y hy sd hsd
        rcases List.mem_append.mp hsd with h | h
        · exact hexP sd h
        · rcases List.mem_cons.mp h with h | h
          · subst h; exact hy
          · exact hexQ sd h
      rcases swap_states l.opts.params rw PRE POST x hpre hpost hnr' k' with h | h | ⟨hE, hb, h⟩ | h
      · rw [h]; exact ⟨⟨hok, hex⟩, Or.inl habs⟩
      · rw [h]
        obtain ⟨h2, h3⟩ := diskOK_congr (PRE ++ ⟨x.base, x.ver, x.recs, none⟩ :: POST) (PRE ++ x :: POST)
          (by simp [shapeD]) hok (hexmid _ (exact_none _ _ _))
        exact ⟨h2, Or.inl (h3.trans habs)⟩
      · rw [h]
        have hsh : shapeD (PRE ++ ⟨x.base, rw.ver, rw.survive, none⟩ :: POST) = shapeD (l.delete offs).1.disk := by
          rw [hres]
          unfold fin
          simp [hE, shapeD, rsD, hb]
        obtain ⟨h2, h3⟩ := diskOK_congr _ _ hsh hrok.shape (hexmid _ (exact_none _ _ _))
        exact ⟨h2, Or.inr (h3.trans hrabs)⟩
      · rw [h, ← hres]
        exact ⟨hrok, Or.inr hrabs⟩

/-! ### Publish -/

theorem onLast_snoc (f : SegDisk → SegDisk) (pre : List SegDisk) (x : SegDisk) :
    onLast f (pre ++ [x]) = pre ++ [f x] := mapLast_snoc f pre x

/-- A prefix of the interleaved appends leaves a prefix of the records in the head; what
the head's index file holds at that point does not matter. -/
theorem interleave_take : ∀ (ms : List Msg) (its : List Item) (k : Nat) (pre : List SegDisk) (h : SegDisk),
    ∃ j, j ≤ ms.length ∧ ∃ f', applySteps (pre ++ [h]) ((interleave ms its).take k) =
      pre ++ [⟨h.base, h.ver, h.recs ++ ms.take j, f'⟩] := by
  intro ms
  induction ms with
  | nil =>
    intro its k pre h
    refine ⟨0, Nat.le_refl _, h.idxf, ?_⟩
    simp [interleave, applySteps]
  | cons m ms ih =>
    intro its k pre h
    cases its with
    | nil =>
      refine ⟨0, Nat.zero_le _, h.idxf, ?_⟩
      simp [interleave, applySteps]
    | cons it its =>
      rcases k with _ | _ | k
      · refine ⟨0, Nat.zero_le _, h.idxf, ?_⟩
        simp [applySteps]
      · refine ⟨1, by simp, h.idxf, ?_⟩
        simp only [interleave, List.take, applySteps, List.foldl, applyStep]
        rw [onLast_snoc]
      · obtain ⟨j, hj, f', hst⟩ := ih its k pre
          ⟨h.base, h.ver, h.recs ++ [m], h.idxf.map (fun f => { f with items := f.items ++ [it] })⟩
        refine ⟨j + 1, by simp only [List.length_cons]; omega, f', ?_⟩
        simp only [interleave, List.take, applySteps_cons, applyStep]
        rw [onLast_snoc, onLast_snoc, hst]
        simp

theorem interleave_full : ∀ (ms : List Msg) (its : List Item) (pre : List SegDisk) (h : SegDisk),
    ms.length = its.length →
    applySteps (pre ++ [h]) (interleave ms its) =
      pre ++ [⟨h.base, h.ver, h.recs ++ ms, h.idxf.map (fun f => { f with items := f.items ++ its })⟩] := by
  intro ms
  induction ms with
  | nil =>
    intro its pre h hlen
    cases its with
    | nil =>
      simp only [interleave, applySteps_nil, List.append_nil]
      obtain ⟨hb, hv, hr, hi⟩ := h
      cases hi <;> simp
    | cons it its => simp at hlen
  | cons m ms ih =>
    intro its pre h hlen
    cases its with
    | nil => simp at hlen
    | cons it its =>
      simp only [interleave, applySteps_cons, applyStep]
      rw [onLast_snoc, onLast_snoc, ih its pre _ (by simpa using hlen)]
      obtain ⟨hb, hv, hr, hi⟩ := h
      cases hi <;> simp

theorem stamp_lengths (p : Params) (v : Ver) : ∀ (batch : List (Int × List UInt8 × List UInt8)) (off pos ts : Int),
    (stamp p v off pos ts batch).1.length = (stamp p v off pos ts batch).2.length := by
  intro batch
  induction batch with
  | nil => intro _ _ _; rfl
  | cons b rest ih =>
    intro off pos ts
    obtain ⟨t, k, vl⟩ := b
    simp only [stamp, List.length_cons]
    rw [ih]

theorem stampSpec_take : ∀ (batch : List (Int × List UInt8 × List UInt8)) (off : Int) (j : Nat),
    (Spec.stampSpec off batch).take j = Spec.stampSpec off (batch.take j) := by
  intro batch
  induction batch with
  | nil => intro off j; simp [Spec.stampSpec]
  | cons b rest ih =>
    intro off j
    obtain ⟨t, k, vl⟩ := b
    cases j with
    | zero => simp [Spec.stampSpec]
    | succ j => simp [Spec.stampSpec, ih]

theorem append_shape (l : Log) (h : Seg) (hl : l.segs.getLast? = some h)
    (batch : List (Int × List UInt8 × List UInt8)) :
    shape (l.append batch).1.segs =
      shape l.segs.dropLast ++ [(h.base, h.recs ++ Spec.stampSpec l.wNextOff batch)] := by
  unfold Log.append
  rw [hl]
  simp only
  rw [shape_append, stamp_fst]
  rfl

/-- Creating the new head behind a head that has records: every prefix state is clean with
the content unchanged. -/
theorem nh_states (l : Log) (hinv : Inv l) (hrw : l.opts.readonly = false) (PRE : List SegDisk) (x : SegDisk)
    (hd : l.disk = PRE ++ [x]) (hrne : x.recs ≠ []) :
    applySteps l.disk (newHead l.wNextOff l.opts.nsv) = l.disk ++ [nhD l] ∧
    ∀ k, DiskOK (applySteps l.disk ((newHead l.wNextOff l.opts.nsv).take k)) ∧
      absDisk (applySteps l.disk ((newHead l.wNextOff l.opts.nsv).take k)) = abs l := by
  obtain ⟨hdok, hdabs⟩ := disk_of_inv l hinv
  obtain ⟨hs1, ha1, hlt⟩ := nh_shape l hinv hrw PRE x hd hrne (nhD l) rfl rfl
  have hex1 : ∀ sd ∈ l.disk ++ [nhD l], Exact sd := by
    intro sd hsd
    rcases List.mem_append.mp hsd with h | h
    · exact hdok.idx sd h
    · simp only [List.mem_singleton] at h; subst h; exact exact_nhD l
  refine ⟨newHead_final _ _ _ hlt, ?_⟩
  intro k
  rcases newHead_states l.disk l.wNextOff l.opts.nsv hlt k with h | h | h
  · rw [h]; exact ⟨hdok, hdabs⟩
  · rw [h]
    obtain ⟨hs2, ha2, _⟩ := nh_shape l hinv hrw PRE x hd hrne ⟨l.wNextOff, l.opts.nsv, [], none⟩ rfl rfl
    refine ⟨⟨hs2, ?_⟩, ha2⟩
    intro sd hsd
    rcases List.mem_append.mp hsd with h | h
    · exact hdok.idx sd h
    · simp only [List.mem_singleton] at h; subst h; exact exact_none _ _ _
  · rw [h]
    exact ⟨⟨hs1, hex1⟩, ha1⟩

theorem publish_prog_eq (l : Log) (h h1 : Seg) (hl : l.segs.getLast? = some h)
    (hl1 : l.rollover.segs.getLast? = some h1) (b : List (Int × List UInt8 × List UInt8)) :
    publishProg l b = (if needsRollover l.opts h then newHead l.wNextOff l.opts.nsv else []) ++
      interleave (stamp l.opts.params h1.ver l.rollover.wNextOff (logSize h1.ver h1.recs) l.rollover.wNextTime b).1
        (stamp l.opts.params h1.ver l.rollover.wNextOff (logSize h1.ver h1.recs) l.rollover.wNextTime b).2 := by
  unfold publishProg
  rw [hl]
  simp only
  rw [hl1]

/-- The rollover part of the Publish program: it ends in the files of the rolled log, and
every prefix state is clean with the content unchanged. -/
theorem rollover_disk (l : Log) (hinv : Inv l) (hrw : l.opts.readonly = false) (h : Seg)
    (hl : l.segs.getLast? = some h) :
    applySteps l.disk (if needsRollover l.opts h then newHead l.wNextOff l.opts.nsv else []) = l.rollover.disk ∧
    ∀ k, DiskOK (applySteps l.disk ((if needsRollover l.opts h then newHead l.wNextOff l.opts.nsv else []).take k)) ∧
      absDisk (applySteps l.disk ((if needsRollover l.opts h then newHead l.wNextOff l.opts.nsv else []).take k)) = abs l := by
  obtain ⟨hdok, hdabs⟩ := disk_of_inv l hinv
  by_cases hroll : needsRollover l.opts h = true
  · have hsn := segs_snoc hl
    have hrne : h.recs ≠ [] := by
      unfold needsRollover at hroll
      simp only [Bool.and_eq_true, Bool.not_eq_true', decide_eq_true_eq] at hroll
      intro he; rw [he] at hroll; simp at hroll
    have hd : l.disk = l.segs.dropLast.map Seg.toDisk ++ [h.toDisk] := by
      unfold Log.disk
      conv => lhs; rw [hsn]
      simp
    have hr : l.rollover.disk = l.disk ++ [nhD l] := by
      unfold Log.rollover
      rw [hl]
      simp only [hroll, if_true, openWriter_empty]
      rw [hd]
      simp [Log.disk, nhD, Seg.toDisk]
    obtain ⟨h1, h2⟩ := nh_states l hinv hrw _ _ hd hrne
    simp only [hroll, if_true]
    rw [hr]
    exact ⟨h1, h2⟩
  · have hroll' : needsRollover l.opts h = false := by
      cases hc : needsRollover l.opts h with
      | true => exact absurd hc hroll
      | false => rfl
    have hr : l.rollover = l := by
      unfold Log.rollover
      rw [hl]
      simp only [hroll', Bool.false_eq_true, if_false]
    simp only [hroll', Bool.false_eq_true, if_false, List.take_nil, applySteps_nil]
    rw [hr]
    exact ⟨rfl, fun _ => ⟨hdok, hdabs⟩⟩

/-- The Publish program ends exactly where the model's Publish ends. -/
theorem publish_final (l : Log) (hinv : Inv l) (hrw : l.opts.readonly = false)
    (b : List (Int × List UInt8 × List UInt8)) :
    applySteps l.disk (publishProg l b) = (l.publish b).1.disk := by
  obtain ⟨h, hl⟩ := inv_getLast l hinv
  obtain ⟨hinv1, _, hopts1⟩ := rollover_spec l hinv hrw
  obtain ⟨h1, hl1⟩ := inv_getLast _ hinv1
  rw [publish_prog_eq l h h1 hl hl1 b, applySteps_append, (rollover_disk l hinv hrw h hl).1]
  have hd1 : l.rollover.disk = l.rollover.segs.dropLast.map Seg.toDisk ++ [h1.toDisk] := by
    unfold Log.disk
    conv => lhs; rw [segs_snoc hl1]
    simp
  rw [hd1, interleave_full _ _ _ _ (stamp_lengths _ _ _ _ _ _)]
  unfold Log.publish
  simp only [hrw, Bool.false_eq_true, if_false]
  unfold Log.append
  rw [hl1]
  simp only [Log.disk, List.map_append, List.map_cons, List.map_nil, hopts1]
  rfl

/-- Every crash state of Publish: a directory clean up to the head index, holding all
acknowledged messages and a prefix of the batch. -/
theorem publish_crash_disk (l : Log) (hinv : Inv l) (hrw : l.opts.readonly = false)
    (b : List (Int × List UInt8 × List UInt8)) (k : Nat) :
    DiskOKH (crashState l (.publish b) k) ∧ CrashOK l (.publish b) (absDisk (crashState l (.publish b) k)) := by
  obtain ⟨h, hl⟩ := inv_getLast l hinv
  obtain ⟨hinv1, habs1, hopts1⟩ := rollover_spec l hinv hrw
  obtain ⟨h1, hl1⟩ := inv_getLast _ hinv1
  have hrw1 : l.rollover.opts.readonly = false := by rw [hopts1]; exact hrw
  obtain ⟨hroll, hstates⟩ := rollover_disk l hinv hrw h hl
  unfold crashState prog
  simp only [hrw, Bool.false_eq_true, if_false]
  rw [publish_prog_eq l h h1 hl hl1 b]
  rcases take_append_cases (if needsRollover l.opts h then newHead l.wNextOff l.opts.nsv else [])
    (interleave (stamp l.opts.params h1.ver l.rollover.wNextOff (logSize h1.ver h1.recs) l.rollover.wNextTime b).1
      (stamp l.opts.params h1.ver l.rollover.wNextOff (logSize h1.ver h1.recs) l.rollover.wNextTime b).2) k
    with ⟨k', hk⟩ | ⟨k', hk⟩
  · rw [hk]
    refine ⟨diskOK_toH (hstates k').1, 0, Nat.zero_le _, ?_, ?_⟩
    · rw [(hstates k').2]; simp
    · rw [(hstates k').2]; simp
  · rw [hk, applySteps_append, hroll]
    have hd1 : l.rollover.disk = l.rollover.segs.dropLast.map Seg.toDisk ++ [h1.toDisk] := by
      unfold Log.disk
      conv => lhs; rw [segs_snoc hl1]
      simp
    obtain ⟨hdok1, _⟩ := disk_of_inv _ hinv1
    rw [hd1]
    obtain ⟨j, hj, f', hst⟩ := interleave_take
      (stamp l.opts.params h1.ver l.rollover.wNextOff (logSize h1.ver h1.recs) l.rollover.wNextTime b).1
      (stamp l.opts.params h1.ver l.rollover.wNextOff (logSize h1.ver h1.recs) l.rollover.wNextTime b).2
      k' (l.rollover.segs.dropLast.map Seg.toDisk) h1.toDisk
    rw [hst]
    rw [stamp_fst, stampSpec_length] at hj
    rw [stamp_fst, stampSpec_take]
    obtain ⟨hinv2, _, habs2⟩ := append_spec l.rollover hinv1 hrw1 (b.take j)
    have hsh : shapeD (l.rollover.segs.dropLast.map Seg.toDisk ++
        [⟨h1.toDisk.base, h1.toDisk.ver, h1.toDisk.recs ++ Spec.stampSpec l.rollover.wNextOff (b.take j), f'⟩]) =
        shape (l.rollover.append (b.take j)).1.segs := by
      rw [append_shape _ h1 hl1, shapeD_append]
      simp [shapeD, shape, Seg.toDisk, List.map_map, Function.comp_def]
    have hnext : l.rollover.wNextOff = (abs l).next := by
      rw [← habs1]; exact hinv1.next hrw1
    have hlen : (b.take j).length = j := by simp; omega
    refine ⟨⟨by rw [hsh]; exact hinv2.shape, ?_⟩, j, hj, ?_, ?_⟩
    · intro sd hsd
      rw [List.dropLast_concat] at hsd
      apply hdok1.idx
      rw [hd1]; exact List.mem_append_left _ hsd
    · unfold absDisk
      rw [hsh]
      show (abs (l.rollover.append (b.take j)).1).live = _
      rw [habs2, habs1, stampSpec_take]
    · unfold absDisk
      rw [hsh]
      show (abs (l.rollover.append (b.take j)).1).next = _
      rw [habs2, habs1, hlen]

/-! ### (B) the main theorem -/

/-- Every crash state of a non-rebasing operation is clean up to the head index and holds a
content `CrashOK` allows. -/
theorem crash_disk (l : Log) (hinv : Inv l) (hrw : l.opts.readonly = false) (op : COp)
    (hnr : ∀ o, op = .delete o → rebasing l o = false) (k : Nat) :
    DiskOKH (crashState l op k) ∧ CrashOK l op (absDisk (crashState l op k)) := by
  cases op with
  | publish b => exact publish_crash_disk l hinv hrw b k
  | delete o =>
    obtain ⟨h1, h2⟩ := delete_crash_disk l hinv hrw o (hnr o rfl) k
    exact ⟨diskOK_toH h1, h2⟩

/-- **Crash recovery**: every crash state of a non-rebasing operation is recovered by
Open(Recover) to a log that satisfies the invariant and whose content is allowed by
`CrashOK`. (`hp` is not needed: exactness of an index does not depend on the parameters.) -/
theorem crash_recovers (l : Log) (hinv : Inv l) (hrw : l.opts.readonly = false) (op : COp)
    (hnr : ∀ o, op = .delete o → rebasing l o = false) (k : Nat)
    (oo : OpenOpts) (hro : oo.opts.readonly = false) (hrec : oo.recover = true)
    (hp : oo.opts.params = l.opts.params) :
    ∃ l', Log.open (crashState l op k) oo = .ok l' ∧ Inv l' ∧ CrashOK l op (abs l') := by
  have _ := hp
  obtain ⟨hd, hc⟩ := crash_disk l hinv hrw op hnr k
  obtain ⟨l', hopen, hinv', habs'⟩ := open_recover_spec _ hd oo hrec hro
  exact ⟨l', hopen, hinv', by rw [habs']; exact hc⟩

/-! ### (C) the programs end where the model's operations end -/

theorem prog_final (l : Log) (hinv : Inv l) (hrw : l.opts.readonly = false) (op : COp) :
    applySteps l.disk (prog l op) =
      (match op with | .publish b => (l.publish b).1 | .delete o => (l.delete o).1).disk := by
  cases op with
  | publish b =>
    simp only [prog, hrw, Bool.false_eq_true, if_false]
    exact publish_final l hinv hrw b
  | delete o => exact delete_final l hinv hrw o

theorem prog_final_shape (l : Log) (hinv : Inv l) (hrw : l.opts.readonly = false) (op : COp) :
    shapeD (applySteps l.disk (prog l op)) =
      shape (match op with | .publish b => (l.publish b).1 | .delete o => (l.delete o).1).segs := by
  rw [prog_final l hinv hrw op, shapeD_disk]

/-- The last crash state is the closed directory of the finished operation. -/
theorem crashState_last (l : Log) (hinv : Inv l) (hrw : l.opts.readonly = false) (op : COp) :
    crashState l op (prog l op).length =
      (match op with | .publish b => (l.publish b).1 | .delete o => (l.delete o).1).disk := by
  unfold crashState
  rw [List.take_of_length_le (Nat.le_refl _)]
  exact prog_final l hinv hrw op

/-! ### (D) the known window: a rebasing Delete, as a proved counterexample -/

def cxOpts : OpenOpts :=
  { opts := { readonly := false, params := ⟨false, false⟩, autosync := false, rollover := 1000,
              nsv := .v2, keep := false },
    check := false, recover := false, eager := false }

def cxRecoverOpts : OpenOpts := { cxOpts with recover := true }

def okOr (d : Log) : Out Log → Log
  | .ok l => l
  | .err _ => d

/-- An empty log, then one batch of three messages: one segment `0: [0, 1, 2]`. -/
def cxL0 : Log := okOr default (Log.open [] cxOpts)
def cxL : Log := (cxL0.publish [(10, [], [1]), (11, [], [2]), (12, [], [3])]).1

theorem cxL0_open : Log.open [] cxOpts = .ok cxL0 := by decide

theorem cxL0_inv : Inv cxL0 := by
  obtain ⟨l', h, hinv, _⟩ := open_empty cxOpts
  rw [cxL0_open] at h
  simp only [Out.ok.injEq] at h
  rw [h]; exact hinv

theorem cxL_inv : Inv cxL := (publish_step cxL0 cxL0_inv _).1

theorem cxL_rw : cxL.opts.readonly = false := by decide

theorem cxL_content : (abs cxL).live.map (·.off) = [0, 1, 2] ∧ (abs cxL).next = 3 := by decide

/-- `Delete [0]` removes the first message of the only segment while survivors remain: the
segment moves to base 1. -/
theorem rebase_is_rebasing : rebasing cxL [0] = true := by decide

/-- The log Open(Recover) makes of the directory two steps into that delete (the rewritten
segment is in at base 1 with its index, the old one is still there). -/
def cxCrashed : Log := okOr default (Log.open (crashState cxL (.delete [0]) 2) cxRecoverOpts)

theorem cxCrashed_open : Log.open (crashState cxL (.delete [0]) 2) cxRecoverOpts = .ok cxCrashed := by decide

/-- Two overlapping segments: the survivors appear twice. -/
theorem rebase_crash_counterexample :
    ∃ l', Log.open (crashState cxL (.delete [0]) 2) cxRecoverOpts = .ok l' ∧
      (abs l').live.map (·.off) = [0, 1, 2, 1, 2] :=
  ⟨cxCrashed, cxCrashed_open, by decide⟩

theorem rebase_crash_not_ok (l' : Log)
    (h : Log.open (crashState cxL (.delete [0]) 2) cxRecoverOpts = .ok l') :
    ¬ CrashOK cxL (.delete [0]) (abs l') := by
  rw [cxCrashed_open] at h
  simp only [Out.ok.injEq] at h
  subst h
  show ¬ (abs cxCrashed = abs cxL ∨ abs cxCrashed = abs (cxL.delete [0]).1)
  decide

/-- The recovered log does not even satisfy the invariant (its segments overlap). -/
theorem rebase_crash_not_inv (l' : Log)
    (h : Log.open (crashState cxL (.delete [0]) 2) cxRecoverOpts = .ok l') : ¬ Inv l' := by
  rw [cxCrashed_open] at h
  simp only [Out.ok.injEq] at h
  subst h
  intro hinv
  have ho := hinv.shape.order
  have h2 : shape cxCrashed.segs =
      [(0, [⟨0, 10, [], [1]⟩, ⟨1, 11, [], [2]⟩, ⟨2, 12, [], [3]⟩]), (1, [⟨1, 11, [], [2]⟩, ⟨2, 12, [], [3]⟩])] := by
    decide
  rw [h2] at ho
  simp only [List.pairwise_cons] at ho
  have h3 := (ho.1 (1, [⟨1, 11, [], [2]⟩, ⟨2, 12, [], [3]⟩]) (List.mem_singleton.mpr rfl)).2
    ⟨1, 11, [], [2]⟩ (by simp)
  exact absurd h3 (by decide)

/-- Hence (B) is false without the hypothesis `hnr`. -/
theorem crash_recovers_needs_nonrebasing :
    ¬ (∀ (l : Log), Inv l → l.opts.readonly = false → ∀ (op : COp) (k : Nat) (oo : OpenOpts),
        oo.opts.readonly = false → oo.recover = true → oo.opts.params = l.opts.params →
        ∃ l', Log.open (crashState l op k) oo = .ok l' ∧ Inv l' ∧ CrashOK l op (abs l')) := by
  intro hall
  obtain ⟨l', h, _, hc⟩ := hall cxL cxL_inv cxL_rw (.delete [0]) 2 cxRecoverOpts (by decide) (by decide) (by decide)
  exact rebase_crash_not_ok l' h hc

/-! ### non-vacuity: a non-rebasing Delete and a rolling Publish on a two-segment log -/

def cx2Opts : OpenOpts := { cxOpts with opts := { cxOpts.opts with rollover := 50 } }
def cx2RecoverOpts : OpenOpts := { cx2Opts with recover := true }

/-- Two batches with a rollover in between: segments `0: [0, 1]` and `2: [2, 3]`. -/
def cx2L0 : Log := okOr default (Log.open [] cx2Opts)
def cx2L1 : Log := (cx2L0.publish [(10, [], [1]), (11, [], [2])]).1
def cx2L : Log := (cx2L1.publish [(12, [], [3]), (13, [], [4])]).1

theorem cx2L0_open : Log.open [] cx2Opts = .ok cx2L0 := by decide

theorem cx2L_inv : Inv cx2L := by
  have h0 : Inv cx2L0 := by
    obtain ⟨l', h, hinv, _⟩ := open_empty cx2Opts
    rw [cx2L0_open] at h
    simp only [Out.ok.injEq] at h
    rw [h]; exact hinv
  exact (publish_step cx2L1 (publish_step cx2L0 h0 _).1 _).1

theorem cx2L_shape : (shape cx2L.segs).map (fun br => (br.1, br.2.map (·.off))) = [(0, [0, 1]), (2, [2, 3])] := by
  decide

/-- Deleting the last message: the tail of the head goes away, the survivor keeps base 2, a
new head opens at 4 — the program is
`[createSeg 4, putIdx 4, removeIdx 2, putLog 2 [2], putIdx 2]`, not rebasing. -/
theorem cx2_not_rebasing : rebasing cx2L [3] = false := by decide

theorem cx2_prog_length : (prog cx2L (.delete [3])).length = 5 := by decide

/-- The content of every crash state of that delete: before, …, before, after, after. -/
theorem cx2_crash_contents :
    (crashStates cx2L (.delete [3])).map (fun d => ((absDisk d).live.map (·.off), (absDisk d).next)) =
      [([0, 1, 2, 3], 4), ([0, 1, 2, 3], 4), ([0, 1, 2, 3], 4), ([0, 1, 2, 3], 4), ([0, 1, 2], 4), ([0, 1, 2], 4)] := by
  decide

/-- One instance of the conclusion of `crash_recovers`, with the recovered content computed:
the crash after `putLog 2` (the rewritten log is in, its index is not). -/
theorem cx2_crash_recovers :
    ∃ l', Log.open (crashState cx2L (.delete [3]) 4) cx2RecoverOpts = .ok l' ∧ Inv l' ∧
      CrashOK cx2L (.delete [3]) (abs l') ∧ (abs l').live.map (·.off) = [0, 1, 2] ∧ (abs l').next = 4 := by
  obtain ⟨l', h, hinv, hc⟩ := crash_recovers cx2L cx2L_inv (by decide) (.delete [3])
    (by intro o ho; cases ho; exact cx2_not_rebasing) 4 cx2RecoverOpts (by decide) (by decide) (by decide)
  refine ⟨l', h, hinv, hc, ?_⟩
  have h' : Log.open (crashState cx2L (.delete [3]) 4) cx2RecoverOpts =
      .ok (okOr default (Log.open (crashState cx2L (.delete [3]) 4) cx2RecoverOpts)) := by decide
  rw [h'] at h
  simp only [Out.ok.injEq] at h
  subst h
  decide

/-- A Publish that rolls: the content of every crash state is the acknowledged messages
plus a prefix of the batch
(`[createSeg 4, putIdx 4, appendRec, appendItem, appendRec, appendItem]`). -/
theorem cx2_publish_contents :
    (crashStates cx2L (.publish [(14, [], [5]), (15, [], [6])])).map
        (fun d => ((absDisk d).live.map (·.off), (absDisk d).next)) =
      [([0, 1, 2, 3], 4), ([0, 1, 2, 3], 4), ([0, 1, 2, 3], 4), ([0, 1, 2, 3, 4], 5), ([0, 1, 2, 3, 4], 5),
       ([0, 1, 2, 3, 4, 5], 6), ([0, 1, 2, 3, 4, 5], 6)] := by
  decide

/-- Recover rewrites the stale head index of the crash between a record and its item. -/
theorem cx2_publish_recovers :
    ∃ l', Log.open (crashState cx2L (.publish [(14, [], [5]), (15, [], [6])]) 3) cx2RecoverOpts = .ok l' ∧
      Inv l' ∧ (abs l').live.map (·.off) = [0, 1, 2, 3, 4] ∧ (abs l').next = 5 := by
  obtain ⟨l', h, hinv, _⟩ := crash_recovers cx2L cx2L_inv (by decide) (.publish [(14, [], [5]), (15, [], [6])])
    (by intro o ho; cases ho) 3 cx2RecoverOpts (by decide) (by decide) (by decide)
  refine ⟨l', h, hinv, ?_⟩
  have h' : Log.open (crashState cx2L (.publish [(14, [], [5]), (15, [], [6])]) 3) cx2RecoverOpts =
      .ok (okOr default (Log.open (crashState cx2L (.publish [(14, [], [5]), (15, [], [6])]) 3) cx2RecoverOpts)) := by
    decide
  rw [h'] at h
  simp only [Out.ok.injEq] at h
  subst h
  decide

end Klev.Crash

#print axioms Klev.Crash.open_recover_spec
#print axioms Klev.Crash.crash_disk
#print axioms Klev.Crash.crash_recovers
#print axioms Klev.Crash.prog_final
#print axioms Klev.Crash.prog_final_shape
#print axioms Klev.Crash.crashState_last
#print axioms Klev.Crash.rebase_is_rebasing
#print axioms Klev.Crash.rebase_crash_counterexample
#print axioms Klev.Crash.rebase_crash_not_ok
#print axioms Klev.Crash.rebase_crash_not_inv
#print axioms Klev.Crash.crash_recovers_needs_nonrebasing
#print axioms Klev.Crash.cx2_crash_contents
#print axioms Klev.Crash.cx2_crash_recovers
#print axioms Klev.Crash.cx2_publish_contents
#print axioms Klev.Crash.cx2_publish_recovers
