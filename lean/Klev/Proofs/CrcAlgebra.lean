/-
Algebra of the CRC-32C register (`Klev/Crc.lean`): GF(2)-linearity, injectivity of the
shift step, and the detection guarantees that follow (single byte, burst ≤ 4 bytes).
Core Lean only.
-/
import Klev.Crc
namespace Klev

/-! ## 1. Sanity vectors (kernel evaluation) -/

theorem crc32c_rfc3720_zeros : crc32c (List.replicate 32 0) = 0x8A9136AA#32 := by
  decide +kernel

theorem crc32c_check :
    crc32c [0x31,0x32,0x33,0x34,0x35,0x36,0x37,0x38,0x39] = 0xE3069283#32 := by
  decide +kernel

/-! ## 2. Linearity over GF(2) -/

/-- Byte → register embedding. -/
def crcExt (b : UInt8) : BitVec 32 := b.toBitVec.setWidth 32

theorem crcByte_eq (c : BitVec 32) (b : UInt8) : crcByte c b = crcBits 8 (c ^^^ crcExt b) := rfl

theorem crcBit_zero : crcBit 0 = 0 := by decide

theorem xor_xor_cancel_right (x y p : BitVec 32) : (x ^^^ p) ^^^ (y ^^^ p) = x ^^^ y := by
  rw [show (x ^^^ p) ^^^ (y ^^^ p) = (x ^^^ y) ^^^ (p ^^^ p) by ac_rfl]
  simp

theorem crcBit_xor (a b : BitVec 32) : crcBit (a ^^^ b) = crcBit a ^^^ crcBit b := by
  unfold crcBit
  rw [BitVec.getLsbD_xor, BitVec.ushiftRight_xor_distrib]
  cases a.getLsbD 0 <;> cases b.getLsbD 0 <;> simp only [Bool.xor_false, Bool.xor_true,
    Bool.not_false, Bool.not_true, Bool.false_eq_true, if_false, if_true]
  · ac_rfl
  · ac_rfl
  · exact (xor_xor_cancel_right _ _ _).symm

theorem crcBits_zero (n : Nat) : crcBits n 0 = 0 := by
  induction n with
  | zero => rfl
  | succ n ih => show crcBits n (crcBit 0) = 0; rw [crcBit_zero, ih]

theorem crcBits_xor (n : Nat) (a b : BitVec 32) :
    crcBits n (a ^^^ b) = crcBits n a ^^^ crcBits n b := by
  induction n generalizing a b with
  | zero => rfl
  | succ n ih => simp only [crcBits, crcBit_xor, ih]

theorem crcBits_add (m n : Nat) (c : BitVec 32) : crcBits (m + n) c = crcBits n (crcBits m c) := by
  induction m generalizing c with
  | zero => simp [crcBits]
  | succ m ih => rw [Nat.succ_add]; simp only [crcBits, ih]

theorem crcExt_zero : crcExt 0 = 0 := by decide

theorem crcExt_xor (x y : UInt8) : crcExt (x ^^^ y) = crcExt x ^^^ crcExt y := by
  simp [crcExt, BitVec.setWidth_xor]

theorem crcExt_injective {x y : UInt8} (h : crcExt x = crcExt y) : x = y := by
  apply UInt8.eq_of_toBitVec_eq
  have := congrArg (BitVec.setWidth 8) h
  simpa [crcExt] using this

/-- `crcByte` is affine in the register: a register difference `d` propagates as `crcBits 8 d`. -/
theorem crcByte_xor (c d : BitVec 32) (b : UInt8) :
    crcByte (c ^^^ d) b = crcByte c b ^^^ crcBits 8 d := by
  rw [crcByte_eq, crcByte_eq, ← crcBits_xor]
  congr 1; ac_rfl

theorem crcByte_zero_byte (c : BitVec 32) : crcByte c 0 = crcBits 8 c := by
  rw [crcByte_eq, crcExt_zero]; simp

/-- Fully linear form: both register and byte differences. -/
theorem crcByte_xor_xor (c d : BitVec 32) (x y : UInt8) :
    crcByte c x ^^^ crcByte d y = crcByte (c ^^^ d) (x ^^^ y) := by
  rw [crcByte_eq, crcByte_eq, crcByte_eq, ← crcBits_xor, crcExt_xor]
  congr 1; ac_rfl

theorem crcUpdate_nil (c : BitVec 32) : crcUpdate c [] = c := rfl

theorem crcUpdate_cons (c : BitVec 32) (b : UInt8) (bs : List UInt8) :
    crcUpdate c (b :: bs) = crcUpdate (crcByte c b) bs := rfl

theorem crcUpdate_append (c : BitVec 32) (xs ys : List UInt8) :
    crcUpdate c (xs ++ ys) = crcUpdate (crcUpdate c xs) ys := by
  simp [crcUpdate, List.foldl_append]

theorem crcUpdate_zeros (c : BitVec 32) (n : Nat) :
    crcUpdate c (List.replicate n 0) = crcBits (8 * n) c := by
  induction n generalizing c with
  | zero => rfl
  | succ n ih =>
    rw [List.replicate_succ, crcUpdate_cons, ih, crcByte_zero_byte, Nat.mul_succ, Nat.add_comm,
      crcBits_add]

/-- General two-register, two-message linearity. -/
theorem crcUpdate_xor_xor (c d : BitVec 32) (xs ys : List UInt8) (h : xs.length = ys.length) :
    crcUpdate c xs ^^^ crcUpdate d ys = crcUpdate (c ^^^ d) (List.zipWith (· ^^^ ·) xs ys) := by
  induction xs generalizing c d ys with
  | nil => cases ys with
    | nil => rfl
    | cons y ys => simp at h
  | cons x xs ih => cases ys with
    | nil => simp at h
    | cons y ys =>
      simp only [List.length_cons, Nat.add_right_cancel_iff] at h
      simp only [crcUpdate_cons, List.zipWith_cons_cons]
      rw [ih _ _ _ h, crcByte_xor_xor]

theorem crcUpdate_diff (c : BitVec 32) (xs ys : List UInt8) (h : xs.length = ys.length) :
    crcUpdate c xs ^^^ crcUpdate c ys = crcUpdate 0 (List.zipWith (· ^^^ ·) xs ys) := by
  rw [crcUpdate_xor_xor c c xs ys h, BitVec.xor_self]; rfl

theorem crcUpdate_xor (c d : BitVec 32) (bs : List UInt8) :
    crcUpdate (c ^^^ d) bs = crcUpdate c bs ^^^ crcUpdate d (List.replicate bs.length 0) := by
  rw [crcUpdate_xor_xor c d bs _ (by simp)]
  congr 1
  induction bs with
  | nil => rfl
  | cons b bs ih => simp [List.replicate_succ, ← ih]

/-! ## 3. Injectivity of the step -/

/-- The bit shifted out is recoverable: the polynomial's top bit is set. -/
theorem crcBit_msb (a : BitVec 32) : (crcBit a).getLsbD 31 = a.getLsbD 0 := by
  have hp : crcPoly.getLsbD 31 = true := by decide
  unfold crcBit
  cases h : a.getLsbD 0 <;> simp [hp]

theorem xor_right_cancel {x y p : BitVec 32} (h : x ^^^ p = y ^^^ p) : x = y := by
  have := congrArg (· ^^^ p) h
  simpa [BitVec.xor_assoc] using this

theorem eq_of_lsb_of_shift {a b : BitVec 32} (h0 : a.getLsbD 0 = b.getLsbD 0)
    (h1 : a >>> 1 = b >>> 1) : a = b := by
  apply BitVec.eq_of_getLsbD_eq
  intro i hi
  cases i with
  | zero => exact h0
  | succ i =>
    have := congrArg (·.getLsbD i) h1
    simpa [BitVec.getLsbD_ushiftRight, Nat.add_comm] using this

theorem crcBit_injective {a b : BitVec 32} (h : crcBit a = crcBit b) : a = b := by
  have h0 : a.getLsbD 0 = b.getLsbD 0 := by
    rw [← crcBit_msb a, ← crcBit_msb b, h]
  apply eq_of_lsb_of_shift h0
  unfold crcBit at h
  rw [h0] at h
  split at h
  · exact xor_right_cancel h
  · exact h

theorem crcBit_eq_zero_iff (a : BitVec 32) : crcBit a = 0 ↔ a = 0 := by
  constructor
  · intro h; exact crcBit_injective (h.trans crcBit_zero.symm)
  · intro h; rw [h, crcBit_zero]

theorem crcBits_injective (n : Nat) {a b : BitVec 32} (h : crcBits n a = crcBits n b) : a = b := by
  induction n generalizing a b with
  | zero => exact h
  | succ n ih => exact crcBit_injective (ih h)

theorem crcBits_eq_zero_iff (n : Nat) (a : BitVec 32) : crcBits n a = 0 ↔ a = 0 := by
  constructor
  · intro h; exact crcBits_injective n (h.trans (crcBits_zero n).symm)
  · intro h; rw [h, crcBits_zero]

theorem crcUpdate_zero_zeros (n : Nat) : crcUpdate 0 (List.replicate n 0) = 0 := by
  rw [crcUpdate_zeros, crcBits_zero]

/-- A non-zero register stays non-zero under zero bytes. -/
theorem crcUpdate_zeros_eq_zero_iff (c : BitVec 32) (n : Nat) :
    crcUpdate c (List.replicate n 0) = 0 ↔ c = 0 := by
  rw [crcUpdate_zeros, crcBits_eq_zero_iff]

theorem crcByte_injective_reg {c d : BitVec 32} {b : UInt8} (h : crcByte c b = crcByte d b) :
    c = d :=
  xor_right_cancel (crcBits_injective 8 h)

theorem crcByte_injective_byte {c : BitVec 32} {x y : UInt8} (h : crcByte c x = crcByte c y) :
    x = y := by
  have := crcBits_injective 8 h
  rw [BitVec.xor_comm c, BitVec.xor_comm c] at this
  exact crcExt_injective (xor_right_cancel this)

/-- For a fixed message, the register update is injective in the start register. -/
theorem crcUpdate_injective_reg (bs : List UInt8) {c d : BitVec 32}
    (h : crcUpdate c bs = crcUpdate d bs) : c = d := by
  induction bs generalizing c d with
  | nil => exact h
  | cons b bs ih => exact crcByte_injective_reg (ih h)

/-! ## 4. A single damaged byte is always detected -/

theorem not_injective {a b : BitVec 32} (h : ~~~a = ~~~b) : a = b := by
  have := congrArg (~~~ ·) h
  simpa using this

theorem crc_single_byte (pre post : List UInt8) (x y : UInt8) (h : x ≠ y) :
    crc32c (pre ++ x :: post) ≠ crc32c (pre ++ y :: post) := by
  intro he
  unfold crc32c at he
  have he := not_injective he
  rw [crcUpdate_append, crcUpdate_append, crcUpdate_cons, crcUpdate_cons] at he
  exact h (crcByte_injective_byte (crcUpdate_injective_reg post he))

/-! ## 5. Damage confined to ≤ 4 consecutive bytes is always detected -/

/-- Little-endian packing of (up to four) bytes into a register word. -/
def crcPack : List UInt8 → BitVec 32
  | [] => 0
  | b :: bs => crcExt b ^^^ (crcPack bs <<< 8)

theorem crcExt_high (b : UInt8) (i : Nat) (h : 8 ≤ i) : (crcExt b).getLsbD i = false := by
  simp [crcExt, BitVec.getLsbD_setWidth, BitVec.getLsbD_of_ge _ _ h]

theorem crcPack_high (bs : List UInt8) (i : Nat) (h : 8 * bs.length ≤ i) :
    (crcPack bs).getLsbD i = false := by
  induction bs generalizing i with
  | nil => simp [crcPack]
  | cons b bs ih =>
    simp only [List.length_cons] at h
    have h8 : 8 ≤ i := by omega
    have := ih (i - 8) (by omega)
    simp [crcPack, BitVec.getLsbD_xor, crcExt_high b i h8, BitVec.getLsbD_shiftLeft, this]

/-- Shifting a word in from above and back out loses nothing when its top byte is clear. -/
theorem shl_shr_8 (w : BitVec 32) (h : ∀ i, 24 ≤ i → w.getLsbD i = false) :
    (w <<< 8) >>> 8 = w := by
  apply BitVec.eq_of_getLsbD_eq
  intro i hi
  simp only [BitVec.getLsbD_ushiftRight, BitVec.getLsbD_shiftLeft]
  by_cases h24 : 24 ≤ i
  · rw [h i h24]; simp; omega
  · have h1 : 8 + i < 32 := by omega
    have h2 : ¬ (8 + i < 8) := by omega
    simp [h1, h2]

/-- With the low bit clear the step is a pure shift. -/
theorem crcBit_of_even (v : BitVec 32) (h : v.getLsbD 0 = false) : crcBit v = v >>> 1 := by
  unfold crcBit; rw [h]; rfl

theorem crcBits_of_low_zero (n : Nat) (v : BitVec 32) (h : ∀ i, i < n → v.getLsbD i = false) :
    crcBits n v = v >>> n := by
  induction n generalizing v with
  | zero => simp [crcBits]
  | succ n ih =>
    rw [crcBits, crcBit_of_even v (h 0 (by omega)), ih, Nat.add_comm n 1, BitVec.shiftRight_add]
    intro i hi
    rw [BitVec.getLsbD_ushiftRight]
    exact h (1 + i) (by omega)

theorem crcBits_8_shl (w : BitVec 32) (h : ∀ i, 24 ≤ i → w.getLsbD i = false) :
    crcBits 8 (w <<< 8) = w := by
  rw [crcBits_of_low_zero 8 (w <<< 8), shl_shr_8 w h]
  intro i hi
  simp [BitVec.getLsbD_shiftLeft, hi]

/-- Feeding ≤ 4 bytes equals clocking 8k bits over the register xor the packed word. -/
theorem crcUpdate_eq_crcBits_pack (c : BitVec 32) (bs : List UInt8) (h : bs.length ≤ 4) :
    crcUpdate c bs = crcBits (8 * bs.length) (c ^^^ crcPack bs) := by
  induction bs generalizing c with
  | nil => simp [crcPack, crcBits]; rfl
  | cons b bs ih =>
    simp only [List.length_cons] at h
    have hp : ∀ i, 24 ≤ i → (crcPack bs).getLsbD i = false :=
      fun i hi => crcPack_high bs i (by omega)
    rw [crcUpdate_cons, ih _ (by omega), List.length_cons, Nat.mul_succ, Nat.add_comm,
      crcBits_add, crcPack, ← BitVec.xor_assoc, crcBits_xor 8, crcBits_8_shl _ hp, ← crcByte_eq]

theorem crcPack_eq_zero (bs : List UInt8) (h : bs.length ≤ 4) (hz : crcPack bs = 0) :
    ∀ b ∈ bs, b = 0 := by
  induction bs with
  | nil => simp
  | cons b bs ih =>
    simp only [List.length_cons] at h
    have hp : ∀ i, 24 ≤ i → (crcPack bs).getLsbD i = false :=
      fun i hi => crcPack_high bs i (by omega)
    have he : crcExt b >>> 8 = 0 := by
      apply BitVec.eq_of_getLsbD_eq
      intro i hi
      rw [BitVec.getLsbD_ushiftRight, crcExt_high b (8 + i) (by omega)]; simp
    have h8 : crcPack (b :: bs) >>> 8 = (0 : BitVec 32) >>> 8 := by rw [hz]
    simp only [crcPack, BitVec.ushiftRight_xor_distrib, he, shl_shr_8 _ hp] at h8
    have hbs : crcPack bs = 0 := by simpa using h8
    have hb : crcExt b = 0 := by
      have := hz
      rw [crcPack, hbs] at this
      simpa using this
    intro x hx
    rcases List.mem_cons.mp hx with rfl | hx
    · exact crcExt_injective (hb.trans crcExt_zero.symm)
    · exact ih (by omega) hbs x hx

/-- A non-zero difference of 1..4 bytes never clocks the zero register back to zero. -/
theorem crcUpdate_zero_eq_zero (ds : List UInt8) (h : ds.length ≤ 4) (hz : crcUpdate 0 ds = 0) :
    ∀ b ∈ ds, b = 0 := by
  rw [crcUpdate_eq_crcBits_pack 0 ds h, crcBits_eq_zero_iff] at hz
  exact crcPack_eq_zero ds h (by simpa using hz)

theorem eq_of_zipWith_xor_zero (xs ys : List UInt8) (hl : xs.length = ys.length)
    (hz : ∀ b ∈ List.zipWith (· ^^^ ·) xs ys, b = 0) : xs = ys := by
  induction xs generalizing ys with
  | nil => cases ys with
    | nil => rfl
    | cons y ys => simp at hl
  | cons x xs ih => cases ys with
    | nil => simp at hl
    | cons y ys =>
      simp only [List.length_cons, Nat.add_right_cancel_iff] at hl
      simp only [List.zipWith_cons_cons, List.mem_cons, forall_eq_or_imp] at hz
      rw [UInt8.xor_eq_zero_iff.mp hz.1, ih ys hl hz.2]

/-- Equal-length damage of ≤ 4 bytes changes the register, whatever the start state. -/
theorem crcUpdate_burst4 (c : BitVec 32) (d1 d2 : List UInt8) (hl : d1.length = d2.length)
    (h4 : d1.length ≤ 4) (he : crcUpdate c d1 = crcUpdate c d2) : d1 = d2 := by
  have hx : crcUpdate c d1 ^^^ crcUpdate c d2 = 0 := by rw [he]; simp
  rw [crcUpdate_diff c d1 d2 hl] at hx
  apply eq_of_zipWith_xor_zero d1 d2 hl
  apply crcUpdate_zero_eq_zero _ _ hx
  simp [List.length_zipWith, ← hl, h4]

theorem crc_burst4 (pre post d1 d2 : List UInt8) (hl : d1.length = d2.length)
    (h4 : d1.length ≤ 4) (hne : d1 ≠ d2) :
    crc32c (pre ++ d1 ++ post) ≠ crc32c (pre ++ d2 ++ post) := by
  intro he
  unfold crc32c at he
  have he := not_injective he
  rw [crcUpdate_append, crcUpdate_append, crcUpdate_append, crcUpdate_append] at he
  exact hne (crcUpdate_burst4 _ d1 d2 hl h4 (crcUpdate_injective_reg post he))

/-! ## 6. Stored-field mismatch -/

/-- The 4-byte little-endian CRC field as stored on disk. -/
def crcField (c : BitVec 32) : List UInt8 :=
  [UInt8.ofBitVec (c.setWidth 8), UInt8.ofBitVec ((c >>> 8).setWidth 8),
   UInt8.ofBitVec ((c >>> 16).setWidth 8), UInt8.ofBitVec ((c >>> 24).setWidth 8)]

/-- A stored field differing from the computed one fails the equality check (trivial form). -/
theorem crc_stored_field (body f : List UInt8) (h : f ≠ crcField (crc32c body)) :
    (f == crcField (crc32c body)) = false := by
  simpa using h

end Klev

/-! ## Axiom audit -/
#print axioms Klev.crc32c_rfc3720_zeros
#print axioms Klev.crc32c_check
#print axioms Klev.crcBit_xor
#print axioms Klev.crcBits_xor
#print axioms Klev.crcByte_xor
#print axioms Klev.crcByte_xor_xor
#print axioms Klev.crcUpdate_xor
#print axioms Klev.crcUpdate_diff
#print axioms Klev.crcBit_injective
#print axioms Klev.crcBit_eq_zero_iff
#print axioms Klev.crcBits_eq_zero_iff
#print axioms Klev.crcUpdate_zero_zeros
#print axioms Klev.crcUpdate_zeros_eq_zero_iff
#print axioms Klev.crcUpdate_injective_reg
#print axioms Klev.crc_single_byte
#print axioms Klev.crcUpdate_eq_crcBits_pack
#print axioms Klev.crcUpdate_burst4
#print axioms Klev.crc_burst4
#print axioms Klev.crc_stored_field
