/-
In-place damage to a V2 record (`crc(4) ‖ body`, `Klev/Codec.lean`).

* a changed stored CRC field is rejected with a CRC error (`v2_crc_field_damage`);
* a change of at most four consecutive body bytes that leaves the two length fields
  (body bytes [16, 24)) alone is rejected with a CRC error (`v2_body_damage`), whatever else
  it hits (offset, time, key, value, trailer) — the CRC check precedes the trailer check;
* records that were not touched still read back (`untouched_record_reads_back`).

`crc32c` is only used through `crc_burst4` (`Klev/Proofs/CrcAlgebra.lean`).
-/
import Klev.Proofs.Codec
import Klev.Proofs.CrcAlgebra
namespace Klev

/-! ### `unbe` is injective on lists of equal length -/

theorem mul_add_inj {P x y r s : Nat} (hr : r < P) (hs : s < P) (h : x * P + r = y * P + s) :
    x = y ∧ r = s := by
  have hx : x = y := by
    rcases Nat.lt_trichotomy x y with hlt | heq | hgt
    · have : (x + 1) * P ≤ y * P := Nat.mul_le_mul_right P hlt
      rw [Nat.add_mul] at this
      omega
    · exact heq
    · have : (y + 1) * P ≤ x * P := Nat.mul_le_mul_right P hgt
      rw [Nat.add_mul] at this
      omega
  subst hx
  exact ⟨rfl, by omega⟩

theorem unbe_injective : ∀ (xs ys : List UInt8), xs.length = ys.length → unbe xs = unbe ys → xs = ys
  | [], [], _, _ => rfl
  | [], _ :: _, hl, _ => by simp at hl
  | _ :: _, [], hl, _ => by simp at hl
  | x :: xs, y :: ys, hl, h => by
    have hl' : xs.length = ys.length := by simpa using hl
    rw [unbe_cons, unbe_cons, ← hl'] at h
    have hy := unbe_lt ys
    rw [← hl'] at hy
    obtain ⟨h1, h2⟩ := mul_add_inj (unbe_lt xs) hy h
    rw [UInt8.toNat_inj.mp h1, unbe_injective xs ys hl' h2]

/-- A four-byte field that is not the stored CRC does not decode to the CRC. -/
theorem unbe_ne_crc (c' bs : List UInt8) (hc : c'.length = 4) (hne : c' ≠ crcBytes bs) :
    (crc32c bs).toNat ≠ unbe c' := by
  intro he
  apply hne
  apply unbe_injective
  · rw [hc, crcBytes_length]
  · rw [unbe_crcBytes, he]

/-! ### the decoder on a frame `crc(4) ‖ body` with known length fields -/

/-- `decV2` answers `.bad .crc` as soon as the header is whole, the lengths are sane, the data
is all there, and the checksum over `header[4:] ‖ data` differs from the stored one. -/
theorem decV2_crc (b : List UInt8) (pos k vl : Nat)
    (hlen : (slice b pos 28).length = 28)
    (hk : i32 (unbe (((slice b pos 28).drop 20).take 4)) = (k : Int))
    (hv : i32 (unbe (((slice b pos 28).drop 24).take 4)) = (vl : Int))
    (hmax : k + vl ≤ maxBody)
    (hdata : (slice b (pos + 28) (k + vl + 8)).length = k + vl + 8)
    (hcrc : (crc32c ((slice b pos 28).drop 4 ++ slice b (pos + 28) (k + vl + 8))).toNat ≠
      unbe ((slice b pos 28).take 4)) :
    decV2 b pos = .bad .crc := by
  have hd : ¬ (slice b (pos + 28) (k + vl + 8)).length < k + vl + 8 := by omega
  have hneg : ¬ ((k : Int) < 0 ∨ (vl : Int) < 0) := by omega
  have hmx : ¬ ((k : Int) + (vl : Int) > (maxBody : Int)) := by omega
  unfold decV2
  simp only [hlen, hk, hv, Int.toNat_natCast]
  rw [if_neg (by decide), if_neg (by decide), if_neg hneg, if_neg hmx, if_neg hd, if_pos hcrc]

/-- The slices `decV2` takes of a file holding a frame `c ‖ B` at `pre.length`, where `c` is
four bytes and `B` is `24 + need` bytes long. -/
theorem frame_slices (pre post c B : List UInt8) (need : Nat) (hc : c.length = 4)
    (hB : B.length = 24 + need) :
    slice (pre ++ (c ++ B) ++ post) pre.length 28 = c ++ B.take 24 ∧
    slice (pre ++ (c ++ B) ++ post) (pre.length + 28) need = B.drop 24 := by
  constructor
  · have h := slice_mid pre (c ++ B) post 0 28 (by rw [List.length_append]; omega)
    rw [Nat.add_zero, List.drop_zero] at h
    rw [h, List.take_append, hc, List.take_of_length_le (by omega : c.length ≤ 28)]
  · have h := slice_mid pre (c ++ B) post 28 need (by rw [List.length_append]; omega)
    rw [h, List.drop_append, hc, List.drop_eq_nil_of_le (by omega : c.length ≤ 28),
      List.nil_append]
    exact List.take_of_length_le (by rw [List.length_drop]; omega)

theorem take24_drop16 (B : List UInt8) : ((B.take 24).drop 16).take 4 = (B.drop 16).take 4 := by
  rw [List.drop_take, List.take_take]; rfl

theorem take24_drop20 (B : List UInt8) : ((B.take 24).drop 20).take 4 = (B.drop 20).take 4 := by
  rw [List.drop_take, List.take_take]; rfl

/-- A frame `c ‖ B` whose body `B` carries the length fields `k`, `vl` at body bytes [16, 24)
and has the matching length, but whose checksum differs from the stored field `c`, is
rejected with a CRC error. -/
theorem decV2_frame_crc (pre post c B : List UInt8) (k vl : Nat) (hc : c.length = 4)
    (hB : B.length = 24 + (k + vl + 8))
    (hk : (B.drop 16).take 4 = be 4 k) (hv : (B.drop 20).take 4 = be 4 vl)
    (hmax : k + vl ≤ maxBody) (hcrc : (crc32c B).toNat ≠ unbe c) :
    decV2 (pre ++ (c ++ B) ++ post) pre.length = .bad .crc := by
  obtain ⟨hh, hd⟩ := frame_slices pre post c B (k + vl + 8) hc hB
  have hmb := maxBody_eq
  have h24 : (B.take 24).length = 24 := by rw [List.length_take]; omega
  have hdr20 : ((c ++ B.take 24).drop 20).take 4 = be 4 k := by
    rw [List.drop_append, hc, List.drop_eq_nil_of_le (by omega : c.length ≤ 20), List.nil_append,
      take24_drop16, hk]
  have hdr24 : ((c ++ B.take 24).drop 24).take 4 = be 4 vl := by
    rw [List.drop_append, hc, List.drop_eq_nil_of_le (by omega : c.length ≤ 24), List.nil_append,
      take24_drop20, hv]
  have hdr4 : (c ++ B.take 24).drop 4 = B.take 24 := List.drop_left' hc
  have hdr0 : (c ++ B.take 24).take 4 = c := List.take_left' hc
  apply decV2_crc _ _ k vl
  · rw [hh, List.length_append, hc, h24]
  · rw [hh, hdr20]; exact i32_field _ (by unfold two31; omega)
  · rw [hh, hdr24]; exact i32_field _ (by unfold two31; omega)
  · exact hmax
  · rw [hd, List.length_drop]; omega
  · rw [hh, hd, hdr4, hdr0, List.take_append_drop]; exact hcrc

/-! ### the length fields of a V2 body -/

theorem v2Body_klen (m : Msg) : ((v2Body m).drop 16).take 4 = be 4 m.key.length := by
  have hB : v2Body m = (be 8 (u64 m.off) ++ be 8 (u64 m.time)) ++ (be 4 m.key.length ++
      (be 4 m.val.length ++ (m.key ++ m.val ++ trailer))) := by
    simp [v2Body]
  rw [hB, List.drop_left' (by rw [List.length_append, be_length, be_length])]
  exact List.take_left' (be_length _ _)

theorem v2Body_vlen (m : Msg) : ((v2Body m).drop 20).take 4 = be 4 m.val.length := by
  have hB : v2Body m = (be 8 (u64 m.off) ++ be 8 (u64 m.time) ++ be 4 m.key.length) ++
      (be 4 m.val.length ++ (m.key ++ m.val ++ trailer)) := by
    simp [v2Body]
  rw [hB, List.drop_left' (by rw [List.length_append, List.length_append, be_length, be_length,
    be_length])]
  exact List.take_left' (be_length _ _)

/-! ### 1. damage to the stored CRC field -/

/-- Only the stored CRC is changed: the record is rejected with a CRC error. -/
theorem v2_crc_field_damage (pre post : List UInt8) (m : Msg) (h : m.Encodable) (c' : List UInt8)
    (hc : c'.length = 4) (hne : c' ≠ crcBytes (v2Body m)) :
    dec .v2 (pre ++ c' ++ v2Body m ++ post) pre.length = .bad .crc := by
  show decV2 _ _ = _
  rw [List.append_assoc pre c' (v2Body m)]
  exact decV2_frame_crc pre post c' (v2Body m) m.key.length m.val.length hc (v2Body_length m)
    (v2Body_klen m) (v2Body_vlen m) h.2.2.2.2 (unbe_ne_crc c' _ hc hne)

/-! ### 2. damage to the body outside the length fields -/

/-- A window that lies wholly after, or wholly before, the replaced part reads the same. -/
theorem window_eq (a d1 d2 z : List UInt8) (hl : d1.length = d2.length) (i n : Nat)
    (h : a.length + d1.length ≤ i ∨ i + n ≤ a.length) :
    ((a ++ d1 ++ z).drop i).take n = ((a ++ d2 ++ z).drop i).take n := by
  rcases h with h | h
  · have e1 : (a ++ d1).drop i = [] :=
      List.drop_eq_nil_of_le (by rw [List.length_append]; omega)
    have e2 : (a ++ d2).drop i = [] :=
      List.drop_eq_nil_of_le (by rw [List.length_append]; omega)
    rw [List.drop_append, List.drop_append (l₁ := a ++ d2), e1, e2, List.length_append,
      List.length_append, hl]
  · rw [List.append_assoc, List.append_assoc, List.drop_append_of_le_length (by omega),
      List.drop_append_of_le_length (by omega),
      List.take_append_of_le_length (by rw [List.length_drop]; omega),
      List.take_append_of_le_length (by rw [List.length_drop]; omega)]

/-- At most four consecutive body bytes are changed, none of them in the two length fields:
the record is rejected with a CRC error. -/
theorem v2_body_damage (pre post : List UInt8) (m : Msg) (h : m.Encodable)
    (a d1 d2 z : List UInt8) (hsplit : v2Body m = a ++ d1 ++ z)
    (hl : d1.length = d2.length) (h4 : d1.length ≤ 4) (hne : d1 ≠ d2)
    (hlenFields : a.length + d1.length ≤ 16 ∨ 24 ≤ a.length) :
    dec .v2 (pre ++ crcBytes (v2Body m) ++ (a ++ d2 ++ z) ++ post) pre.length = .bad .crc := by
  show decV2 _ _ = _
  rw [List.append_assoc pre (crcBytes (v2Body m)) (a ++ d2 ++ z)]
  have hlen : (a ++ d2 ++ z).length = 24 + (m.key.length + m.val.length + 8) := by
    rw [← v2Body_length m, hsplit]
    simp only [List.length_append, hl]
  have hk : ((a ++ d2 ++ z).drop 16).take 4 = be 4 m.key.length := by
    rw [← v2Body_klen m, hsplit]
    exact (window_eq a d1 d2 z hl 16 4 (by omega)).symm
  have hv : ((a ++ d2 ++ z).drop 20).take 4 = be 4 m.val.length := by
    rw [← v2Body_vlen m, hsplit]
    exact (window_eq a d1 d2 z hl 20 4 (by omega)).symm
  apply decV2_frame_crc pre post _ _ m.key.length m.val.length (crcBytes_length _) hlen hk hv
    h.2.2.2.2
  rw [unbe_crcBytes, hsplit]
  intro he
  exact crc_burst4 a z d1 d2 hl h4 hne (BitVec.eq_of_toNat_eq he).symm

/-! ### 3. "never returned as data", and the single-byte case -/

theorem v2_crc_field_damage_not_ok (pre post : List UInt8) (m : Msg) (h : m.Encodable)
    (c' : List UInt8) (hc : c'.length = 4) (hne : c' ≠ crcBytes (v2Body m)) :
    ∀ m' n, dec .v2 (pre ++ c' ++ v2Body m ++ post) pre.length ≠ .ok m' n := by
  intro m' n
  rw [v2_crc_field_damage pre post m h c' hc hne]
  exact Dec.noConfusion

theorem v2_body_damage_not_ok (pre post : List UInt8) (m : Msg) (h : m.Encodable)
    (a d1 d2 z : List UInt8) (hsplit : v2Body m = a ++ d1 ++ z)
    (hl : d1.length = d2.length) (h4 : d1.length ≤ 4) (hne : d1 ≠ d2)
    (hlenFields : a.length + d1.length ≤ 16 ∨ 24 ≤ a.length) :
    ∀ m' n, dec .v2 (pre ++ crcBytes (v2Body m) ++ (a ++ d2 ++ z) ++ post) pre.length ≠
      .ok m' n := by
  intro m' n
  rw [v2_body_damage pre post m h a d1 d2 z hsplit hl h4 hne hlenFields]
  exact Dec.noConfusion

/-- One changed byte (a single bit flip in particular) anywhere in the body outside the
length fields. -/
theorem v2_body_byte_damage (pre post : List UInt8) (m : Msg) (h : m.Encodable)
    (a z : List UInt8) (x y : UInt8) (hsplit : v2Body m = a ++ x :: z) (hxy : x ≠ y)
    (hlenFields : a.length + 1 ≤ 16 ∨ 24 ≤ a.length) :
    dec .v2 (pre ++ crcBytes (v2Body m) ++ (a ++ y :: z) ++ post) pre.length = .bad .crc := by
  have e : ∀ w : UInt8, a ++ w :: z = a ++ [w] ++ z := fun w => by
    rw [List.append_assoc, List.singleton_append]
  rw [e y]
  exact v2_body_damage pre post m h a [x] [y] z (by rw [hsplit, e x]) rfl (by simp)
    (fun hh => hxy (List.cons.inj hh).1) hlenFields

theorem v2_body_byte_damage_not_ok (pre post : List UInt8) (m : Msg) (h : m.Encodable)
    (a z : List UInt8) (x y : UInt8) (hsplit : v2Body m = a ++ x :: z) (hxy : x ≠ y)
    (hlenFields : a.length + 1 ≤ 16 ∨ 24 ≤ a.length) :
    ∀ m' n, dec .v2 (pre ++ crcBytes (v2Body m) ++ (a ++ y :: z) ++ post) pre.length ≠
      .ok m' n := by
  intro m' n
  rw [v2_body_byte_damage pre post m h a z x y hsplit hxy hlenFields]
  exact Dec.noConfusion

/-! ### 4. records that were not touched -/

set_option linter.unusedVariables false in
/-- Whatever replaces the bytes after a record, and whatever (of the same length) replaces the
bytes before it, the record reads back identical (`pre`, `post` are what was there before). -/
theorem untouched_record_reads_back (v : Ver) (pre pre' post post' : List UInt8) (m : Msg)
    (h : m.Encodable) (hp : pre'.length = pre.length) :
    dec v (pre' ++ enc v m ++ post') pre.length = .ok m (pre.length + (enc v m).length) := by
  rw [← hp]
  exact dec_enc v pre' post' m h

/-! ### 5. the hypotheses are satisfiable -/

/-- A concrete message: offset 3, time 1000 µs, key `[1,2]`, value `[9]`. -/
def damageDemo : Msg := ⟨3, 1000, [1, 2], [9]⟩

theorem damageDemo_encodable : damageDemo.Encodable := by
  simp only [Msg.Encodable, damageDemo, two63, maxBody_eq]
  decide

/-- The split `v2Body m = a ++ d1 ++ z` with `a` the 24-byte fixed part, `d1` the key, `z` the
value and trailer; the replacement `[1, 3]` (one flipped bit) meets every hypothesis of
`v2_body_damage`. -/
example :
    let a := (v2Body damageDemo).take 24
    let d1 : List UInt8 := [1, 2]
    let d2 : List UInt8 := [1, 3]
    let z := (v2Body damageDemo).drop 26
    v2Body damageDemo = a ++ d1 ++ z ∧ d1.length = d2.length ∧ d1.length ≤ 4 ∧ d1 ≠ d2 ∧
      (a.length + d1.length ≤ 16 ∨ 24 ≤ a.length) := by
  decide +kernel

/-- A split in the other branch of `hlenFields`: the low byte of the offset (body byte 7). -/
example :
    let a := (v2Body damageDemo).take 7
    let d1 : List UInt8 := [3]
    let d2 : List UInt8 := [2]
    let z := (v2Body damageDemo).drop 8
    v2Body damageDemo = a ++ d1 ++ z ∧ d1.length = d2.length ∧ d1.length ≤ 4 ∧ d1 ≠ d2 ∧
      (a.length + d1.length ≤ 16 ∨ 24 ≤ a.length) := by
  decide +kernel

/-- The decoder evaluated on the concretely damaged record (key `[1,2]` → `[1,3]`). -/
example :
    dec .v2 ([7, 7, 7] ++ crcBytes (v2Body damageDemo) ++
      ((v2Body damageDemo).take 24 ++ [1, 3] ++ (v2Body damageDemo).drop 26) ++ [5, 5]) 3
      = .bad .crc := by
  decide +kernel

/-- … and on the undamaged one. -/
example :
    dec .v2 ([7, 7, 7] ++ enc .v2 damageDemo ++ [5, 5]) 3 = .ok damageDemo 42 := by
  decide +kernel

/-- The same damaged record, through the theorem. -/
example :
    dec .v2 ([7, 7, 7] ++ crcBytes (v2Body damageDemo) ++
      ((v2Body damageDemo).take 24 ++ [1, 3] ++ (v2Body damageDemo).drop 26) ++ [5, 5])
      ([7, 7, 7] : List UInt8).length = .bad .crc :=
  v2_body_damage [7, 7, 7] [5, 5] damageDemo damageDemo_encodable _ [1, 2] [1, 3] _
    (by decide +kernel) rfl (by decide) (by decide) (Or.inr (by decide +kernel))

end Klev

#print axioms Klev.unbe_injective
#print axioms Klev.decV2_frame_crc
#print axioms Klev.v2_crc_field_damage
#print axioms Klev.v2_body_damage
#print axioms Klev.v2_crc_field_damage_not_ok
#print axioms Klev.v2_body_damage_not_ok
#print axioms Klev.v2_body_byte_damage
#print axioms Klev.v2_body_byte_damage_not_ok
#print axioms Klev.untouched_record_reads_back
