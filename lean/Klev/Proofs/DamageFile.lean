/-
Damage to a whole V2 segment log file, read through the (intact) positions of its index.

The file is `render .v2 ms = logHdr .v2 ++ encAll .v2 ms`; the index holds, for record `j`,
the position `(render .v2 (ms.take j)).length` (`pos_eq_layout`: it is the `j`-th position
of `layout .v2 ms`). The per-record theorems of `Klev/Proofs/Damage.lean` and
`Klev/Proofs/TornAppend.lean` are lifted to the file:

* undamaged, every record reads back from its position (`file_reads`);
* one record damaged in place (a burst of at most four body bytes outside the two length
  fields, or a changed stored CRC): that record reads as a CRC error, every other record
  reads back unchanged from the same position (`damaged_file_reads`,
  `crc_damaged_file_reads`);
* the file cut to `c` bytes: every record wholly below the cut reads back, every other
  record never parses (`truncated_file_reads`; what it says instead:
  `truncated_file_class`);
* in each of those files a read at the position of record `j` never returns a message
  other than `ms[j]` (`damaged_never_other`).
-/
import Klev.Proofs.ScanProofs
import Klev.Proofs.Layout
import Klev.Proofs.Damage
import Klev.Proofs.TornAppend
namespace Klev

/-! ### records of a file around record `j` -/

theorem render_take_succ (v : Ver) (ms : List Msg) (j : Nat) (hj : j < ms.length) :
    render v (ms.take (j + 1)) = render v (ms.take j) ++ enc v ms[j] := by
  rw [List.take_succ_eq_append_getElem hj, render_snoc]

theorem encAll_take_succ (v : Ver) (ms : List Msg) (j : Nat) (hj : j < ms.length) :
    encAll v (ms.take (j + 1)) = encAll v (ms.take j) ++ enc v ms[j] := by
  rw [List.take_succ_eq_append_getElem hj, encAll_append, encAll_singleton]

theorem encAll_split (v : Ver) (ms : List Msg) (j : Nat) (hj : j < ms.length) :
    encAll v ms = encAll v (ms.take j) ++ enc v ms[j] ++ encAll v (ms.drop (j + 1)) := by
  conv => lhs; rw [← List.take_append_drop j ms]
  rw [encAll_append, List.drop_eq_getElem_cons hj, encAll_cons, List.append_assoc]

theorem render_split (v : Ver) (ms : List Msg) (j : Nat) (hj : j < ms.length) :
    render v ms = render v (ms.take j) ++ enc v ms[j] ++ encAll v (ms.drop (j + 1)) := by
  conv => lhs; rw [← List.take_append_drop j ms]
  rw [render_append, List.drop_eq_getElem_cons hj, encAll_cons, List.append_assoc]

theorem render_take_drop (v : Ver) (ms : List Msg) (k : Nat) :
    render v ms = render v (ms.take k) ++ encAll v (ms.drop k) := by
  conv => lhs; rw [← List.take_append_drop k ms]
  rw [render_append]

theorem render_length' (v : Ver) (ms : List Msg) :
    (render v ms).length = (logHdr v).length + (encAll v ms).length := by
  rw [render, List.length_append]

theorem render_take_succ_length (v : Ver) (ms : List Msg) (j : Nat) (hj : j < ms.length) :
    (render v (ms.take (j + 1))).length = (render v (ms.take j)).length + (enc v ms[j]).length := by
  rw [render_take_succ v ms j hj, List.length_append]

/-- Positions are monotone in the record number. -/
theorem render_take_length_mono (v : Ver) (ms : List Msg) {j k : Nat} (hjk : j ≤ k) :
    (render v (ms.take j)).length ≤ (render v (ms.take k)).length := by
  have e : ms.take j = (ms.take k).take j := by
    rw [List.take_take, Nat.min_eq_left hjk]
  rw [render_take_drop v (ms.take k) j, ← e, List.length_append]
  omega

/-! ### the positions are the ones the index holds -/

theorem layoutFrom_getElem_fst (v : Ver) : ∀ (ms : List Msg) (p : Int) (j : Nat)
    (hj : j < (layoutFrom v p ms).length),
    ((layoutFrom v p ms)[j]).1 = p + ((encAll v (ms.take j)).length : Int) := by
  intro ms
  induction ms with
  | nil => intro p j hj; simp [layoutFrom] at hj
  | cons m ms ih =>
    intro p j hj
    cases j with
    | zero => simp [layoutFrom, encAll]
    | succ j =>
      simp only [layoutFrom, List.getElem_cons_succ, List.take_succ_cons, encAll_cons,
        List.length_append]
      rw [ih (p + recSize v m) j (by simpa [layoutFrom] using hj), ← enc_length]
      omega

/-- The position of record `j` is the `j`-th position of the model's `layout`: what the
index holds for it (`ItemsFor`, `scan_render`). -/
theorem pos_eq_layout (ms : List Msg) (j : Nat) (hj : j < ms.length) :
    ((layout .v2 ms)[j]'(by rw [layout_length]; exact hj)).1 =
      ((render .v2 (ms.take j)).length : Int) := by
  unfold layout
  rw [layoutFrom_getElem_fst, render_length', logHdr_length, ← initialPos_hdrSize]
  omega

/-- The same for either version. -/
theorem pos_eq_layout' (v : Ver) (ms : List Msg) (j : Nat) (hj : j < ms.length) :
    ((layout v ms)[j]'(by rw [layout_length]; exact hj)).1 =
      ((render v (ms.take j)).length : Int) := by
  unfold layout
  rw [layoutFrom_getElem_fst, render_length', logHdr_length, ← initialPos_hdrSize]
  omega

/-! ### a run of records inside any file -/

/-- Record `j` of a run of records reads back from its place in the run, whatever is before
and after the run. -/
theorem block_reads (v : Ver) (pre post : List UInt8) (ms : List Msg)
    (h : ∀ m ∈ ms, m.Encodable) (j : Nat) (hj : j < ms.length) :
    dec v (pre ++ encAll v ms ++ post) (pre.length + (encAll v (ms.take j)).length) =
      .ok ms[j] (pre.length + (encAll v (ms.take (j + 1))).length) := by
  have hm : ms[j].Encodable := h _ (List.getElem_mem hj)
  have hd := dec_enc v (pre ++ encAll v (ms.take j)) (encAll v (ms.drop (j + 1)) ++ post) ms[j] hm
  have hb : pre ++ encAll v ms ++ post =
      pre ++ encAll v (ms.take j) ++ enc v ms[j] ++ (encAll v (ms.drop (j + 1)) ++ post) := by
    rw [encAll_split v ms j hj]
    simp only [List.append_assoc]
  rw [hb, encAll_take_succ v ms j hj]
  rw [List.length_append] at hd
  rw [hd, List.length_append, Nat.add_assoc]

/-! ### 1. the undamaged file -/

/-- Every record of an undamaged file reads back from its position, and the read ends at the
position of the next record. -/
theorem file_reads (ms : List Msg) (h : ∀ m ∈ ms, m.Encodable) (j : Nat) (hj : j < ms.length) :
    dec .v2 (render .v2 ms) (render .v2 (ms.take j)).length =
      .ok ms[j] (render .v2 (ms.take (j + 1))).length := by
  have hd := dec_enc .v2 (render .v2 (ms.take j)) (encAll .v2 (ms.drop (j + 1))) ms[j]
    (h _ (List.getElem_mem hj))
  rw [render_split .v2 ms j hj, hd, render_take_succ_length .v2 ms j hj]

/-! ### a file with the bytes of one record replaced -/

/-- The file with the bytes of record `i` replaced by `r`. -/
def replacedFile (ms : List Msg) (i : Nat) (r : List UInt8) : List UInt8 :=
  render .v2 (ms.take i) ++ r ++ encAll .v2 (ms.drop (i + 1))

theorem replacedFile_length (ms : List Msg) (i : Nat) (hi : i < ms.length) (r : List UInt8)
    (hr : r.length = (enc .v2 ms[i]).length) :
    (replacedFile ms i r).length = (render .v2 ms).length := by
  rw [replacedFile, render_split .v2 ms i hi]
  simp only [List.length_append, hr]

/-- Whatever (of the same length) replaces record `i`, every other record reads back from
its position. -/
theorem replacedFile_other (ms : List Msg) (h : ∀ m ∈ ms, m.Encodable) (i : Nat)
    (hi : i < ms.length) (r : List UInt8) (hr : r.length = (enc .v2 ms[i]).length)
    (j : Nat) (hj : j < ms.length) (hji : j ≠ i) :
    dec .v2 (replacedFile ms i r) (render .v2 (ms.take j)).length =
      .ok ms[j] (render .v2 (ms.take (j + 1))).length := by
  rcases Nat.lt_or_gt_of_ne hji with hlt | hgt
  · -- `j < i`: record `j` is one of the run before the replaced record
    have hT : ∀ m ∈ ms.take i, m.Encodable := fun m hm => h m (List.mem_of_mem_take hm)
    have hjT : j < (ms.take i).length := by rw [List.length_take]; omega
    have hb := block_reads .v2 (logHdr .v2) (r ++ encAll .v2 (ms.drop (i + 1))) (ms.take i) hT j hjT
    rw [List.take_take, List.take_take, Nat.min_eq_left (by omega : j ≤ i),
      Nat.min_eq_left (by omega : j + 1 ≤ i), List.getElem_take, ← render_length',
      ← render_length'] at hb
    rw [replacedFile, render, List.append_assoc]
    rw [render] at hb
    exact hb
  · -- `i < j`: record `j` is one of the run after the replaced record
    obtain ⟨j', rfl⟩ : ∃ j', j = i + 1 + j' := ⟨j - (i + 1), by omega⟩
    have hD : ∀ m ∈ ms.drop (i + 1), m.Encodable := fun m hm => h m (List.mem_of_mem_drop hm)
    have hjD : j' < (ms.drop (i + 1)).length := by rw [List.length_drop]; omega
    have hb := block_reads .v2 (render .v2 (ms.take i) ++ r) [] (ms.drop (i + 1)) hD j' hjD
    have hpre : (render .v2 (ms.take i) ++ r).length = (render .v2 (ms.take (i + 1))).length := by
      rw [List.length_append, hr, render_take_succ_length .v2 ms i hi]
    have hpos : ∀ k, (render .v2 (ms.take (i + 1 + k))).length =
        (render .v2 (ms.take (i + 1))).length + (encAll .v2 ((ms.drop (i + 1)).take k)).length := by
      intro k
      rw [List.take_add, render_append, List.length_append]
    rw [List.append_nil, hpre, List.getElem_drop, ← hpos, ← hpos] at hb
    rw [replacedFile]
    exact hb

/-! ### 2. one record damaged in place -/

/-- The file with body bytes `d1` of record `i` (`v2Body ms[i] = a ++ d1 ++ z`) replaced by
`d2`; the stored CRC of the record is the original one. -/
def damagedFile (ms : List Msg) (i : Nat) (hi : i < ms.length) (a d2 z : List UInt8) :
    List UInt8 :=
  render .v2 (ms.take i) ++ (crcBytes (v2Body ms[i]) ++ (a ++ d2 ++ z)) ++
    encAll .v2 (ms.drop (i + 1))

/-- One record damaged by a burst of at most four body bytes outside the two length fields:
the file keeps its length, the damaged record reads as a CRC error, and every other record
reads back unchanged from its position. -/
theorem damaged_file_reads (ms : List Msg) (h : ∀ m ∈ ms, m.Encodable) (i : Nat)
    (hi : i < ms.length) (a d1 d2 z : List UInt8) (hsplit : v2Body ms[i] = a ++ d1 ++ z)
    (hl : d1.length = d2.length) (h4 : d1.length ≤ 4) (hne : d1 ≠ d2)
    (hlenFields : a.length + d1.length ≤ 16 ∨ 24 ≤ a.length)
    (j : Nat) (hj : j < ms.length) :
    (damagedFile ms i hi a d2 z).length = (render .v2 ms).length ∧
    dec .v2 (damagedFile ms i hi a d2 z) (render .v2 (ms.take j)).length =
      if j = i then .bad .crc else .ok ms[j] (render .v2 (ms.take (j + 1))).length := by
  have hr : (crcBytes (v2Body ms[i]) ++ (a ++ d2 ++ z)).length = (enc .v2 ms[i]).length := by
    show _ = (crcBytes (v2Body ms[i]) ++ v2Body ms[i]).length
    rw [hsplit]
    simp only [List.length_append, hl]
  refine ⟨replacedFile_length ms i hi _ hr, ?_⟩
  by_cases hji : j = i
  · subst hji
    rw [if_pos rfl, damagedFile, ← List.append_assoc (render .v2 (ms.take j))]
    exact v2_body_damage _ _ ms[j] (h _ (List.getElem_mem hi)) a d1 d2 z hsplit hl h4 hne
      hlenFields
  · rw [if_neg hji]
    exact replacedFile_other ms h i hi _ hr j hj hji

/-- The file with the stored CRC of record `i` replaced by `c'`. -/
def crcDamagedFile (ms : List Msg) (i : Nat) (hi : i < ms.length) (c' : List UInt8) :
    List UInt8 :=
  render .v2 (ms.take i) ++ (c' ++ v2Body ms[i]) ++ encAll .v2 (ms.drop (i + 1))

/-- The stored CRC of one record damaged: the file keeps its length, that record reads as a
CRC error, and every other record reads back unchanged from its position. -/
theorem crc_damaged_file_reads (ms : List Msg) (h : ∀ m ∈ ms, m.Encodable) (i : Nat)
    (hi : i < ms.length) (c' : List UInt8) (hc : c'.length = 4)
    (hne : c' ≠ crcBytes (v2Body ms[i])) (j : Nat) (hj : j < ms.length) :
    (crcDamagedFile ms i hi c').length = (render .v2 ms).length ∧
    dec .v2 (crcDamagedFile ms i hi c') (render .v2 (ms.take j)).length =
      if j = i then .bad .crc else .ok ms[j] (render .v2 (ms.take (j + 1))).length := by
  have hr : (c' ++ v2Body ms[i]).length = (enc .v2 ms[i]).length := by
    show _ = (crcBytes (v2Body ms[i]) ++ v2Body ms[i]).length
    rw [List.length_append, List.length_append, hc, crcBytes_length]
  refine ⟨replacedFile_length ms i hi _ hr, ?_⟩
  by_cases hji : j = i
  · subst hji
    rw [if_pos rfl, crcDamagedFile, ← List.append_assoc (render .v2 (ms.take j))]
    exact v2_crc_field_damage _ _ ms[j] (h _ (List.getElem_mem hi)) c' hc hne
  · rw [if_neg hji]
    exact replacedFile_other ms h i hi _ hr j hj hji

/-! ### 3. the file cut to `c` bytes -/

/-- The file cut inside record `j` (or exactly at its start): the records before it, and the
first `c - pos j` bytes of it. -/
theorem take_render_inside (ms : List Msg) (j : Nat) (hj : j < ms.length) (c : Nat)
    (h1 : (render .v2 (ms.take j)).length ≤ c) (h2 : c ≤ (render .v2 (ms.take (j + 1))).length) :
    (render .v2 ms).take c =
      render .v2 (ms.take j) ++ (enc .v2 ms[j]).take (c - (render .v2 (ms.take j)).length) := by
  rw [render_take_succ_length .v2 ms j hj] at h2
  rw [render_split .v2 ms j hj, List.append_assoc, List.take_append,
    List.take_of_length_le h1, List.take_append_of_le_length (by omega)]

/-- What a read at the position of record `j` says when the cut is below the end of that
record: nothing at all at or above the cut is the end of the file, fewer than 28 bytes of
the record is a short header, otherwise the body the (intact) header announces is short. -/
theorem truncated_file_class (ms : List Msg) (h : ∀ m ∈ ms, m.Encodable) (c : Nat) (j : Nat)
    (hj : j < ms.length) (hc : c < (render .v2 (ms.take (j + 1))).length) :
    dec .v2 ((render .v2 ms).take c) (render .v2 (ms.take j)).length =
      if c ≤ (render .v2 (ms.take j)).length then .eof
      else if c < (render .v2 (ms.take j)).length + 28 then .bad .shortHeader
      else .bad .shortData := by
  by_cases hle : c ≤ (render .v2 (ms.take j)).length
  · rw [if_pos hle]
    apply (dec_eof_iff .v2 _ _).mpr
    rw [List.length_take]
    omega
  · rw [if_neg hle, take_render_inside ms j hj c (by omega) (by omega)]
    have hlen := render_take_succ_length .v2 ms j hj
    rw [torn_record_class .v2 (render .v2 (ms.take j)) ms[j] (h _ (List.getElem_mem hj))
      (c - (render .v2 (ms.take j)).length) (by omega)]
    rw [if_neg (by omega)]
    by_cases h28 : c < (render .v2 (ms.take j)).length + 28
    · rw [if_pos h28, if_pos (by omega)]
    · rw [if_neg h28, if_neg (by omega)]

/-- The file cut to `c` bytes: every record that lies wholly below the cut reads back from
its position; every other record never parses. -/
theorem truncated_file_reads (ms : List Msg) (h : ∀ m ∈ ms, m.Encodable) (c : Nat) (j : Nat)
    (hj : j < ms.length) :
    let f := (render .v2 ms).take c
    ((render .v2 (ms.take (j + 1))).length ≤ c →
      dec .v2 f (render .v2 (ms.take j)).length =
        .ok ms[j] (render .v2 (ms.take (j + 1))).length) ∧
    (c < (render .v2 (ms.take (j + 1))).length →
      ∀ m n, dec .v2 f (render .v2 (ms.take j)).length ≠ .ok m n) := by
  intro f
  constructor
  · intro hc
    have hd := dec_enc .v2 (render .v2 (ms.take j))
      ((encAll .v2 (ms.drop (j + 1))).take (c - (render .v2 (ms.take (j + 1))).length)) ms[j]
      (h _ (List.getElem_mem hj))
    have hf : f = render .v2 (ms.take j) ++ enc .v2 ms[j] ++
        (encAll .v2 (ms.drop (j + 1))).take (c - (render .v2 (ms.take (j + 1))).length) := by
      show (render .v2 ms).take c = _
      rw [render_take_drop .v2 ms (j + 1), List.take_append, List.take_of_length_le hc,
        render_take_succ .v2 ms j hj]
    rw [hf, hd, render_take_succ_length .v2 ms j hj]
  · intro hc m n hd
    rw [show f = (render .v2 ms).take c from rfl, truncated_file_class ms h c j hj hc] at hd
    split at hd
    · cases hd
    · split at hd <;> cases hd

/-! ### 4. never a different message -/

/-- The damaged files of this module: one record hit by a burst of at most four body bytes
outside the length fields, one record's stored CRC changed, or the file cut short. -/
inductive FileDamage (ms : List Msg) : List UInt8 → Prop
  | body (i : Nat) (hi : i < ms.length) (a d1 d2 z : List UInt8)
      (hsplit : v2Body ms[i] = a ++ d1 ++ z) (hl : d1.length = d2.length) (h4 : d1.length ≤ 4)
      (hne : d1 ≠ d2) (hlenFields : a.length + d1.length ≤ 16 ∨ 24 ≤ a.length) :
      FileDamage ms (damagedFile ms i hi a d2 z)
  | crc (i : Nat) (hi : i < ms.length) (c' : List UInt8) (hc : c'.length = 4)
      (hne : c' ≠ crcBytes (v2Body ms[i])) : FileDamage ms (crcDamagedFile ms i hi c')
  | cut (c : Nat) : FileDamage ms ((render .v2 ms).take c)

/-- In every one of those damaged files, a read at the position the index holds for record
`j` either fails or returns exactly `ms[j]` (and ends at the position of the next record):
damage is never returned as a different message. -/
theorem damaged_never_other (ms : List Msg) (h : ∀ m ∈ ms, m.Encodable) (f : List UInt8)
    (hf : FileDamage ms f) (j : Nat) (hj : j < ms.length) (m : Msg) (n : Nat)
    (hd : dec .v2 f (render .v2 (ms.take j)).length = .ok m n) :
    m = ms[j] ∧ n = (render .v2 (ms.take (j + 1))).length := by
  cases hf with
  | body i hi a d1 d2 z hsplit hl h4 hne hlenFields =>
    rw [(damaged_file_reads ms h i hi a d1 d2 z hsplit hl h4 hne hlenFields j hj).2] at hd
    split at hd
    · cases hd
    · cases hd; exact ⟨rfl, rfl⟩
  | crc i hi c' hc hne =>
    rw [(crc_damaged_file_reads ms h i hi c' hc hne j hj).2] at hd
    split at hd
    · cases hd
    · cases hd; exact ⟨rfl, rfl⟩
  | cut c =>
    obtain ⟨h1, h2⟩ := truncated_file_reads ms h c j hj
    by_cases hc : (render .v2 (ms.take (j + 1))).length ≤ c
    · rw [h1 hc] at hd
      cases hd; exact ⟨rfl, rfl⟩
    · exact absurd hd (h2 (by omega) m n)

/-- The three cases spelled out, without the inductive predicate. -/
theorem damaged_never_other' (ms : List Msg) (h : ∀ m ∈ ms, m.Encodable) (j : Nat)
    (hj : j < ms.length) :
    (∀ (i : Nat) (hi : i < ms.length) (a d1 d2 z : List UInt8),
      v2Body ms[i] = a ++ d1 ++ z → d1.length = d2.length → d1.length ≤ 4 → d1 ≠ d2 →
      (a.length + d1.length ≤ 16 ∨ 24 ≤ a.length) →
      ∀ m n, dec .v2 (damagedFile ms i hi a d2 z) (render .v2 (ms.take j)).length = .ok m n →
        m = ms[j]) ∧
    (∀ (i : Nat) (hi : i < ms.length) (c' : List UInt8), c'.length = 4 →
      c' ≠ crcBytes (v2Body ms[i]) →
      ∀ m n, dec .v2 (crcDamagedFile ms i hi c') (render .v2 (ms.take j)).length = .ok m n →
        m = ms[j]) ∧
    (∀ (c : Nat) m n,
      dec .v2 ((render .v2 ms).take c) (render .v2 (ms.take j)).length = .ok m n → m = ms[j]) :=
  ⟨fun i hi a d1 d2 z hsplit hl h4 hne hlf m n hd =>
      (damaged_never_other ms h _ (.body i hi a d1 d2 z hsplit hl h4 hne hlf) j hj m n hd).1,
   fun i hi c' hc hne m n hd =>
      (damaged_never_other ms h _ (.crc i hi c' hc hne) j hj m n hd).1,
   fun c m n hd => (damaged_never_other ms h _ (.cut c) j hj m n hd).1⟩

/-! ### 5. a concrete file -/

/-- Three records: positions 8, 46, 85; the file is 123 bytes. -/
def fileDemo : List Msg :=
  [⟨0, 1000, [1], [7]⟩, ⟨1, 1001, [1, 2], [9]⟩, ⟨2, 1002, [], [4, 4]⟩]

theorem fileDemo_encodable : ∀ m ∈ fileDemo, m.Encodable := by
  intro m hm
  simp only [fileDemo, List.mem_cons, List.not_mem_nil, or_false] at hm
  rcases hm with rfl | rfl | rfl <;>
    (simp only [Msg.Encodable, two63, maxBody_eq]; decide)

/-- The positions, evaluated. -/
example : (render .v2 (fileDemo.take 0)).length = 8 ∧ (render .v2 (fileDemo.take 1)).length = 46 ∧
    (render .v2 (fileDemo.take 2)).length = 85 ∧ (render .v2 fileDemo).length = 123 := by
  decide +kernel

/-- The undamaged file, evaluated: the three reads. -/
example : dec .v2 (render .v2 fileDemo) 8 = .ok fileDemo[0] 46 ∧
    dec .v2 (render .v2 fileDemo) 46 = .ok fileDemo[1] 85 ∧
    dec .v2 (render .v2 fileDemo) 85 = .ok fileDemo[2] 123 ∧
    dec .v2 (render .v2 fileDemo) 123 = .eof := by
  decide +kernel

/-- The key of the second record damaged (`[1,2]` → `[1,3]`, one flipped bit), evaluated: the
file keeps its length, the first and third records read back from their positions, the second
is a CRC error. -/
example :
    let f := damagedFile fileDemo 1 (by decide) ((v2Body fileDemo[1]).take 24) [1, 3]
      ((v2Body fileDemo[1]).drop 26)
    f.length = 123 ∧ dec .v2 f 8 = .ok fileDemo[0] 46 ∧ dec .v2 f 46 = .bad .crc ∧
      dec .v2 f 85 = .ok fileDemo[2] 123 := by
  decide +kernel

/-- The same file through the theorem (its hypotheses hold for this split). -/
example (j : Nat) (hj : j < fileDemo.length) :
    dec .v2 (damagedFile fileDemo 1 (by decide) ((v2Body fileDemo[1]).take 24) [1, 3]
        ((v2Body fileDemo[1]).drop 26)) (render .v2 (fileDemo.take j)).length =
      if j = 1 then .bad .crc else .ok fileDemo[j] (render .v2 (fileDemo.take (j + 1))).length :=
  (damaged_file_reads fileDemo fileDemo_encodable 1 (by decide) _ [1, 2] [1, 3] _
    (by decide +kernel) rfl (by decide) (by decide) (Or.inr (by decide +kernel)) j hj).2

/-- The stored CRC of the second record replaced by four zero bytes, evaluated. -/
example :
    let f := crcDamagedFile fileDemo 1 (by decide) [0, 0, 0, 0]
    f.length = 123 ∧ dec .v2 f 8 = .ok fileDemo[0] 46 ∧ dec .v2 f 46 = .bad .crc ∧
      dec .v2 f 85 = .ok fileDemo[2] 123 := by
  decide +kernel

/-- The file cut inside the second record, evaluated: inside its header (60 bytes), inside its
body (80 bytes), and exactly at its start (46 bytes). -/
example :
    dec .v2 ((render .v2 fileDemo).take 60) 8 = .ok fileDemo[0] 46 ∧
    dec .v2 ((render .v2 fileDemo).take 60) 46 = .bad .shortHeader ∧
    dec .v2 ((render .v2 fileDemo).take 60) 85 = .eof ∧
    dec .v2 ((render .v2 fileDemo).take 80) 8 = .ok fileDemo[0] 46 ∧
    dec .v2 ((render .v2 fileDemo).take 80) 46 = .bad .shortData ∧
    dec .v2 ((render .v2 fileDemo).take 80) 85 = .eof ∧
    dec .v2 ((render .v2 fileDemo).take 46) 8 = .ok fileDemo[0] 46 ∧
    dec .v2 ((render .v2 fileDemo).take 46) 46 = .eof := by
  decide +kernel

end Klev

#print axioms Klev.pos_eq_layout
#print axioms Klev.file_reads
#print axioms Klev.damaged_file_reads
#print axioms Klev.crc_damaged_file_reads
#print axioms Klev.truncated_file_class
#print axioms Klev.truncated_file_reads
#print axioms Klev.damaged_never_other
#print axioms Klev.damaged_never_other'
