/-
`Log.delete` keeps the invariant, removes from the L0 state exactly the messages it
reports, and reports exactly the live requested messages of the target segment — the step
theorem behind C12 (and C01, C02, C17).
-/
import Klev.Proofs.Publish
namespace Klev

/-! ### shapes as concatenations -/

theorem shapeOK_append_iff (A B : Shape) (hB : B ≠ []) :
    ShapeOK (A ++ B) ↔
      (∀ br ∈ A, SegShapeOK br ∧ br.2 ≠ []) ∧ A.Pairwise ShapeR ∧ (∀ a ∈ A, ∀ b ∈ B, ShapeR a b) ∧
      ShapeOK B := by
  have hdl : (A ++ B).dropLast = A ++ B.dropLast := List.dropLast_append_of_ne_nil hB
  constructor
  · intro h
    have hp := List.pairwise_append.mp h.order
    refine ⟨?_, hp.1, ?_, ⟨hB, ?_, ?_, hp.2.1, ?_, ?_⟩⟩
    · intro br hbr
      have hm : br ∈ A ++ B := List.mem_append_left _ hbr
      refine ⟨⟨h.sorted br hm, h.lower br hm, h.base0 br hm⟩, ?_⟩
      apply h.nonempty
      rw [hdl]; exact List.mem_append_left _ hbr
    · intro a ha b hb; exact hp.2.2 a ha b hb
    · intro br hbr; exact h.sorted br (List.mem_append_right _ hbr)
    · intro br hbr; exact h.lower br (List.mem_append_right _ hbr)
    · intro br hbr
      apply h.nonempty
      rw [hdl]; exact List.mem_append_right _ hbr
    · intro br hbr; exact h.base0 br (List.mem_append_right _ hbr)
  · intro ⟨hA, hpw, hab, hBok⟩
    refine ⟨by simp [hB], ?_, ?_, ?_, ?_, ?_⟩
    · intro br hbr
      rcases List.mem_append.mp hbr with h | h
      · exact (hA br h).1.1
      · exact hBok.sorted br h
    · intro br hbr
      rcases List.mem_append.mp hbr with h | h
      · exact (hA br h).1.2.1
      · exact hBok.lower br h
    · rw [List.pairwise_append]
      exact ⟨hpw, hBok.order, hab⟩
    · intro br hbr
      rw [hdl] at hbr
      rcases List.mem_append.mp hbr with h | h
      · exact (hA br h).2
      · exact hBok.nonempty br h
    · intro br hbr
      rcases List.mem_append.mp hbr with h | h
      · exact (hA br h).1.2.2
      · exact hBok.base0 br h

theorem shapeOK_singleton (br : Int × List Msg) : ShapeOK [br] ↔ SegShapeOK br := by
  have := shapeOK_snoc_iff [] br
  simp only [List.nil_append, List.not_mem_nil, false_implies, implies_true, List.Pairwise.nil, true_and] at this
  exact this

/-! ### the rewrite -/

theorem foldl_min_le_init (l : List Int) : ∀ a : Int, l.foldl min a ≤ a := by
  induction l with
  | nil => intro a; exact Int.le_refl _
  | cons y ys ih =>
    intro a
    simp only [List.foldl_cons]
    have := ih (min a y)
    omega

theorem foldl_min_le_mem (l : List Int) : ∀ a : Int, ∀ x ∈ l, l.foldl min a ≤ x := by
  induction l with
  | nil => intro a x h; cases h
  | cons y ys ih =>
    intro a x hx
    simp only [List.foldl_cons]
    rcases List.mem_cons.mp hx with h | h
    · subst h
      have := foldl_min_le_init ys (min a x)
      omega
    · exact ih (min a y) x h

theorem foldl_min_mem (l : List Int) : ∀ a : Int, l.foldl min a = a ∨ l.foldl min a ∈ l := by
  induction l with
  | nil => intro a; left; rfl
  | cons y ys ih =>
    intro a
    simp only [List.foldl_cons]
    rcases ih (min a y) with h | h
    · rw [h]
      by_cases hc : a ≤ y
      · left; omega
      · right; have : min a y = y := by omega
        rw [this]; simp
    · right; exact List.mem_cons_of_mem _ h

theorem minOff_cons (x : Int) (xs : List Int) : minOff (x :: xs) = xs.foldl min x := rfl

theorem minOff_le (xs : List Int) : ∀ x ∈ xs, minOff xs ≤ x := by
  cases xs with
  | nil => intro x h; cases h
  | cons a rest =>
    intro x hx
    rw [minOff_cons]
    rcases List.mem_cons.mp hx with h | h
    · subst h; exact foldl_min_le_init rest x
    · exact foldl_min_le_mem rest a x h

theorem minOff_mem (xs : List Int) (h : xs ≠ []) : minOff xs ∈ xs := by
  cases xs with
  | nil => exact absurd rfl h
  | cons a rest =>
    rw [minOff_cons]
    rcases foldl_min_mem rest a with h1 | h1
    · rw [h1]; simp
    · exact List.mem_cons_of_mem _ h1

theorem minOff_sorted (x : Int) (xs : List Int) (h : (x :: xs).Pairwise (fun a b => a < b)) :
    minOff (x :: xs) = x := by
  rw [minOff_cons]
  have hx := (List.pairwise_cons.mp h).1
  rcases foldl_min_mem xs x with h1 | h1
  · exact h1
  · have := hx _ h1
    have := foldl_min_le_init xs x
    omega

end Klev

namespace Klev

/-! ### shape of the rewritten segment -/

theorem sublist_sorted {recs sub : List Msg} (h : sub.Sublist recs)
    (hs : recs.Pairwise (fun a b => a.off < b.off)) : sub.Pairwise (fun a b => a.off < b.off) :=
  hs.sublist h

/-- The rewritten segment: base = lowest surviving offset. -/
theorem segShapeOK_rewritten {b : Int} {recs sub : List Msg} (h : SegShapeOK (b, recs))
    (hsub : sub.Sublist recs) (hne : sub ≠ []) :
    SegShapeOK (minOff (sub.map (·.off)), sub) ∧ b ≤ minOff (sub.map (·.off)) ∧
    (∃ m ∈ sub, m.off = minOff (sub.map (·.off))) := by
  have hsorted := sublist_sorted hsub h.1
  have hmem : minOff (sub.map (·.off)) ∈ sub.map (·.off) :=
    minOff_mem _ (by intro he; exact hne (List.map_eq_nil_iff.mp he))
  obtain ⟨m0, hm0, hm0o⟩ := List.mem_map.mp hmem
  refine ⟨⟨hsorted, ?_, ?_⟩, ?_, ⟨m0, hm0, hm0o⟩⟩
  · intro m hm
    exact minOff_le _ _ (List.mem_map.mpr ⟨m, hm, rfl⟩)
  · have := h.2.1 m0 (hsub.subset hm0)
    have := h.2.2
    simp only at *; omega
  · have := h.2.1 m0 (hsub.subset hm0)
    simp only at *; omega

theorem shapeR_left_mono {a : Int × List Msg} {b b' : Int} {r r' : List Msg} (h : ShapeR a (b, r))
    (hb : b ≤ b') : ShapeR a (b', r') := by
  refine ⟨by have := h.1; simp only at *; omega, ?_⟩
  intro m hm
  have := h.2 m hm
  simp only at *; omega

theorem shapeR_right_sub {y : Int × List Msg} {b b' : Int} {recs sub : List Msg}
    (h : ShapeR (b, recs) y) (hsub : sub.Sublist recs)
    (hb : ∃ m ∈ sub, m.off = b') : ShapeR (b', sub) y := by
  obtain ⟨m0, hm0, hm0o⟩ := hb
  refine ⟨?_, ?_⟩
  · have := h.2 m0 (hsub.subset hm0)
    simp only at *; omega
  · intro m hm
    exact h.2 m (hsub.subset hm)

/-- T1/T2 — a reader segment (something follows it) is replaced by its survivors, or dropped. -/
theorem shape_replace_reader (pre post : Shape) (b : Int) (recs sub : List Msg) (hpost : post ≠ [])
    (h : ShapeOK (pre ++ ([(b, recs)] ++ post))) (hsub : sub.Sublist recs) :
    ShapeOK (pre ++ ((if sub = [] then [] else [(minOff (sub.map (·.off)), sub)]) ++ post)) := by
  rw [shapeOK_append_iff _ _ (by simp)] at h
  obtain ⟨hA, hpw, hab, hB⟩ := h
  rw [shapeOK_append_iff [(b, recs)] post hpost] at hB
  obtain ⟨hs, _, hsp, hpostok⟩ := hB
  have hseg := (hs (b, recs) (by simp)).1
  by_cases he : sub = []
  · simp only [he, if_true, List.nil_append]
    rw [shapeOK_append_iff _ _ hpost]
    exact ⟨hA, hpw, fun a ha y hy => hab a ha y (by simp [hy]), hpostok⟩
  · simp only [he, if_false]
    obtain ⟨hnew, hble, hwit⟩ := segShapeOK_rewritten hseg hsub he
    rw [shapeOK_append_iff _ _ (by simp)]
    refine ⟨hA, hpw, ?_, ?_⟩
    · intro a ha y hy
      rcases List.mem_append.mp hy with h1 | h1
      · simp only [List.mem_singleton] at h1; subst h1
        exact shapeR_left_mono (hab a ha (b, recs) (by simp)) hble
      · exact hab a ha y (by simp [h1])
    · rw [shapeOK_append_iff _ post hpost]
      refine ⟨?_, by simp, ?_, hpostok⟩
      · intro br hbr
        simp only [List.mem_singleton] at hbr; subst hbr
        exact ⟨hnew, he⟩
      · intro a ha y hy
        simp only [List.mem_singleton] at ha; subst ha
        exact shapeR_right_sub (hsp (b, recs) (by simp) y hy) hsub hwit

/-- T3 — the head is emptied: a fresh empty head at the next offset. -/
theorem shape_replace_head_empty (pre : Shape) (b : Int) (recs : List Msg)
    (h : ShapeOK (pre ++ [(b, recs)])) :
    ShapeOK (pre ++ [(recsNext b recs, [])]) := by
  rw [shapeOK_snoc_iff] at h ⊢
  obtain ⟨hpre, hpw, hr, hlast⟩ := h
  have hge := recsNext_ge b recs hlast.2.1
  refine ⟨hpre, hpw, ?_, ⟨by simp, by intro m hm; simp at hm, ?_⟩⟩
  · intro br hbr
    exact shapeR_left_mono (hr br hbr) hge
  · have := hlast.2.2; simp only at *; omega

/-- T5 — the head is replaced by its survivors. -/
theorem shape_replace_head_sub (pre : Shape) (b : Int) (recs sub : List Msg)
    (h : ShapeOK (pre ++ [(b, recs)])) (hsub : sub.Sublist recs) (hne : sub ≠ []) :
    ShapeOK (pre ++ [(minOff (sub.map (·.off)), sub)]) := by
  rw [shapeOK_snoc_iff] at h ⊢
  obtain ⟨hpre, hpw, hr, hlast⟩ := h
  obtain ⟨hnew, hble, _⟩ := segShapeOK_rewritten hlast hsub hne
  exact ⟨hpre, hpw, fun br hbr => shapeR_left_mono (hr br hbr) hble, hnew⟩

/-- T4 — the tail of the head was deleted: survivors become a reader, a fresh empty head
opens at the next offset. -/
theorem shape_replace_head_tail (pre : Shape) (b : Int) (recs sub : List Msg)
    (h : ShapeOK (pre ++ [(b, recs)])) (hsub : sub.Sublist recs) (hne : sub ≠ []) :
    ShapeOK (pre ++ [(minOff (sub.map (·.off)), sub), (recsNext b recs, [])]) := by
  have h5 := shape_replace_head_sub pre b recs sub h hsub hne
  rw [shapeOK_snoc_iff] at h
  obtain ⟨hpre, hpw, hr, hlast⟩ := h
  obtain ⟨hnew, hble, m0, hm0, hm0o⟩ := segShapeOK_rewritten hlast hsub hne
  have hgt := recsNext_gt b recs hlast.1
  have hge := recsNext_ge b recs hlast.2.1
  have : pre ++ [(minOff (sub.map (·.off)), sub), (recsNext b recs, [])] =
      (pre ++ [(minOff (sub.map (·.off)), sub)]) ++ [(recsNext b recs, [])] := by simp
  rw [this, shapeOK_snoc_iff]
  rw [shapeOK_snoc_iff] at h5
  obtain ⟨hpre5, hpw5, hr5, hlast5⟩ := h5
  refine ⟨?_, ?_, ?_, ⟨by simp, by intro m hm; simp at hm, ?_⟩⟩
  · intro br hbr
    rcases List.mem_append.mp hbr with h1 | h1
    · exact hpre5 br h1
    · simp only [List.mem_singleton] at h1; subst h1; exact ⟨hlast5, hne⟩
  · rw [List.pairwise_append]
    refine ⟨hpw5, by simp, ?_⟩
    intro a ha y hy
    simp only [List.mem_singleton] at hy; subst hy
    exact hr5 a ha
  · intro br hbr
    rcases List.mem_append.mp hbr with h1 | h1
    · exact shapeR_left_mono (hr br h1) hge
    · simp only [List.mem_singleton] at h1; subst h1
      refine ⟨?_, ?_⟩
      · have := hgt m0 (hsub.subset hm0)
        simp only at *; omega
      · intro m hm
        exact hgt m (hsub.subset hm)
  · have := hlast.2.2; simp only at *; omega

end Klev

namespace Klev

/-! ### content after the swap -/

theorem flat_append (a b : Shape) : flat (a ++ b) = flat a ++ flat b := by
  unfold flat; exact List.flatMap_append

theorem flat_singleton (br : Int × List Msg) : flat [br] = br.2 := by
  unfold flat; simp

theorem flat_nil : flat ([] : Shape) = [] := rfl

/-- Removing the deleted messages of one segment from the content leaves every other
segment untouched (offsets are unique across segments) and the survivors of that segment. -/
theorem removeAll_flat (pre post : Shape) (b : Int) (recs : List Msg) (d : Msg → Bool)
    (h : ShapeOK (pre ++ ([(b, recs)] ++ post))) :
    Spec.removeAll (flat (pre ++ ([(b, recs)] ++ post))) (recs.filter d) =
      flat pre ++ recs.filter (fun m => !d m) ++ flat post := by
  unfold Spec.removeAll
  rw [flat_append, flat_append, flat_singleton, List.filter_append, List.filter_append]
  have hpw := h.order
  rw [List.pairwise_append] at hpw
  obtain ⟨_, hpw2, hcross⟩ := hpw
  rw [List.pairwise_append] at hpw2
  obtain ⟨_, _, hcross2⟩ := hpw2
  have hlow : ∀ m ∈ recs, b ≤ m.off := h.lower (b, recs) (by simp)
  have h1 : (flat pre).filter (fun m => !(recs.filter d).contains m) = flat pre := by
    rw [List.filter_eq_self]
    intro m hm
    simp only [Bool.not_eq_true', List.contains_eq_mem, List.mem_filter, decide_eq_false_iff_not, not_and]
    intro hmr
    exfalso
    obtain ⟨j, hj, hmj⟩ := mem_flat hm
    have := (hcross (pre[j]) (List.getElem_mem hj) (b, recs) (by simp)).2 m hmj
    have := hlow m hmr
    simp only at *; omega
  have h3 : (flat post).filter (fun m => !(recs.filter d).contains m) = flat post := by
    rw [List.filter_eq_self]
    intro m hm
    simp only [Bool.not_eq_true', List.contains_eq_mem, List.mem_filter, decide_eq_false_iff_not, not_and]
    intro hmr
    exfalso
    obtain ⟨j, hj, hmj⟩ := mem_flat hm
    have h4 := (hcross2 (b, recs) (by simp) (post[j]) (List.getElem_mem hj)).2 m hmr
    have h5 := h.lower (post[j]) (by simp [List.getElem_mem hj]) m hmj
    omega
  have h2 : recs.filter (fun m => !(recs.filter d).contains m) = recs.filter (fun m => !d m) := by
    apply List.filter_congr
    intro m hm
    simp only [List.contains_eq_mem, List.mem_filter, hm, true_and, Bool.decide_eq_true]
  rw [h1, h2, h3, List.append_assoc]

theorem filter_getLast_of_last {α : Type} (l : List α) (p : α → Bool) (x : α)
    (hl : l.getLast? = some x) (hp : p x = true) : (l.filter p).getLast? = some x := by
  have hne : l ≠ [] := by intro he; rw [he] at hl; simp at hl
  have hd := List.dropLast_concat_getLast hne
  have hx : l.getLast hne = x := by
    have := List.getLast?_eq_some_getLast hne
    rw [hl] at this; simpa using this.symm
  rw [← hd, hx, List.filter_append]
  simp [hp]

end Klev

namespace Klev

/-! ### the swap at log level -/

theorem shape_replaceAt (segs : List Seg) (i : Nat) (new : List Seg) :
    shape (replaceAt segs i new) = (shape segs).take i ++ (shape new ++ (shape segs).drop (i + 1)) := by
  unfold replaceAt shape
  simp [List.map_append, List.map_take, List.map_drop, List.append_assoc]

theorem shape_split_at (segs : List Seg) (i : Nat) (hi : i < segs.length) :
    shape segs = (shape segs).take i ++ ([((segs[i]).base, (segs[i]).recs)] ++ (shape segs).drop (i + 1)) := by
  have hi' : i < (shape segs).length := by rw [shape_length]; exact hi
  have h1 : shape segs = (shape segs).take i ++ (shape segs).drop i := (List.take_append_drop i _).symm
  have h2 : (shape segs).drop i = (shape segs)[i] :: (shape segs).drop (i + 1) := List.drop_eq_getElem_cons hi'
  rw [shape_getElem segs i hi] at h2
  rw [h2] at h1
  exact h1

theorem getLast?_append_ne {α : Type} (a b : List α) (hb : b ≠ []) :
    (a ++ b).getLast? = b.getLast? := by
  rw [List.getLast?_append]
  cases h : b.getLast? with
  | none => exact absurd (List.getLast?_eq_none_iff.mp h) hb
  | some x => rfl

theorem shapeNext_append (A B : Shape) (hB : B ≠ []) : shapeNext (A ++ B) = shapeNext B := by
  unfold shapeNext
  rw [getLast?_append_ne _ _ hB]

theorem rewrittenSeg_idxOK (p : Params) (rw : Rewrite) : IdxOK (rewrittenSeg p rw) := by
  refine ⟨?_, ?_⟩
  · intro its hi; simp [rewrittenSeg] at hi
  · intro f hf
    simp only [rewrittenSeg, Option.some.injEq] at hf
    subst hf
    exact derive_itemsFor _ _ _

theorem mem_replaceAt {segs : List Seg} {i : Nat} {new : List Seg} {s : Seg}
    (h : s ∈ replaceAt segs i new) : s ∈ segs ∨ s ∈ new := by
  unfold replaceAt at h
  rcases List.mem_append.mp h with h1 | h1
  · rcases List.mem_append.mp h1 with h2 | h2
    · exact Or.inl (List.mem_of_mem_take h2)
    · exact Or.inr h2
  · exact Or.inl (List.mem_of_mem_drop h1)

/-- `reader.Delete`: invariant kept; content = old content minus the deleted messages; next
offset unchanged. -/
theorem swapReader_spec (l : Log) (hinv : Inv l) (i : Nat) (hi : i + 1 < l.segs.length)
    (offs : List Int) (mv iv : Ver) :
    let s := l.segs[i]'(by omega)
    let rw := rewrite l.opts.params s offs mv iv
    Inv (swapReader l i rw) ∧
    abs (swapReader l i rw) = ⟨Spec.removeAll (abs l).live rw.deleted, (abs l).next⟩ := by
  intro s rw
  have hi0 : i < l.segs.length := by omega
  have hsplit := shape_split_at l.segs i hi0
  have hpost : (shape l.segs).drop (i + 1) ≠ [] := by
    intro he
    have := congrArg List.length he
    simp only [List.length_drop, shape_length, List.length_nil] at this
    omega
  have hsh := hinv.shape
  rw [hsplit] at hsh
  have hsurv : rw.survive = s.recs.filter (fun m => !offs.contains m.off) := rfl
  have hdel : rw.deleted = s.recs.filter (fun m => offs.contains m.off) := rfl
  have hsub : rw.survive.Sublist s.recs := by rw [hsurv]; exact List.filter_sublist
  have hnew := shape_replace_reader _ _ _ _ rw.survive hpost hsh hsub
  -- the shape after the swap, in both outcomes
  have hshape : shape (swapReader l i rw).segs =
      (shape l.segs).take i ++ ((if rw.survive = [] then [] else [(minOff (rw.survive.map (·.off)), rw.survive)]) ++
        (shape l.segs).drop (i + 1)) := by
    unfold swapReader
    by_cases he : rw.survive = []
    · simp only [he, List.isEmpty_nil, if_true]
      rw [shape_replaceAt]; rfl
    · have : rw.survive.isEmpty = false := by
        cases hrs : rw.survive with
        | nil => exact absurd hrs he
        | cons a as => rfl
      simp only [this, Bool.false_eq_true, if_false, he]
      rw [shape_replaceAt]; rfl
  have hopts : (swapReader l i rw).opts = l.opts := by unfold swapReader; split <;> rfl
  have hnoff : (swapReader l i rw).wNextOff = l.wNextOff := by unfold swapReader; split <;> rfl
  have hnextsame : shapeNext (shape (swapReader l i rw).segs) = shapeNext (shape l.segs) := by
    rw [hshape]
    conv => rhs; rw [hsplit]
    rw [shapeNext_append _ _ (by simp [hpost]), shapeNext_append _ _ hpost,
      shapeNext_append _ _ (by simp [hpost]), shapeNext_append _ _ hpost]
  refine ⟨⟨?_, ?_, ?_, ?_⟩, ?_⟩
  · rw [hshape]; exact hnew
  · intro s' hs'
    have hmem : s' ∈ l.segs ∨ s' = rewrittenSeg l.opts.params rw := by
      unfold swapReader at hs'
      split at hs'
      · rcases mem_replaceAt hs' with h | h
        · exact Or.inl h
        · simp at h
      · rcases mem_replaceAt hs' with h | h
        · exact Or.inl h
        · simp only [List.mem_singleton] at h; exact Or.inr h
    rcases hmem with h | h
    · exact hinv.idx s' h
    · subst h; exact rewrittenSeg_idxOK _ _
  · intro hro
    rw [hnoff, hnextsame]
    exact hinv.next (by rw [← hopts]; exact hro)
  · intro hro h hh
    -- the head is untouched
    have hlast : (swapReader l i rw).segs.getLast? = l.segs.getLast? := by
      have hd : l.segs.drop (i + 1) ≠ [] := by
        intro he
        have := congrArg List.length he
        simp only [List.length_drop, List.length_nil] at this
        omega
      have h1 : ∀ new, (replaceAt l.segs i new).getLast? = (l.segs.drop (i + 1)).getLast? := by
        intro new; unfold replaceAt
        rw [getLast?_append_ne _ _ hd]
      have h2 : l.segs.getLast? = (l.segs.drop (i + 1)).getLast? := by
        conv => lhs; rw [← List.take_append_drop (i + 1) l.segs]
        rw [getLast?_append_ne _ _ hd]
      unfold swapReader
      split <;> simp only [h1, h2]
    rw [hlast] at hh
    exact hinv.head (by rw [← hopts]; exact hro) h hh
  · unfold abs absShape
    rw [hnextsame]
    congr 1
    rw [hshape]
    have hlive : List.flatMap (fun x => x.2) (shape l.segs) =
        flat ((shape l.segs).take i ++ ([(s.base, s.recs)] ++ (shape l.segs).drop (i + 1))) := by
      rw [← hsplit]; rfl
    rw [hlive, hdel, removeAll_flat _ _ _ _ _ hsh]
    show flat _ = _
    rw [flat_append, flat_append, ← hsurv]
    by_cases he : rw.survive = []
    · simp [he, flat_nil]
    · simp [he, flat_singleton, List.append_assoc]

end Klev

namespace Klev

theorem derive_length (p : Params) (v : Ver) (recs : List Msg) : (derive p v recs).length = recs.length :=
  (derive_itemsFor p v recs).length

/-- Reopening the rewritten segment (survivors non-empty) as the head. -/
theorem openWriter_rewritten (o : Opts) (rw : Rewrite) (nt : Int) (hne : rw.survive ≠ []) :
    let r := openWriter o (rewrittenSeg o.params rw) nt
    r.1.base = (rewrittenSeg o.params rw).base ∧ r.1.recs = rw.survive ∧ IdxOK r.1 ∧ HeadOK r.1 ∧
    r.2.1 = recsNext (rewrittenSeg o.params rw).base rw.survive := by
  intro r
  have hdl := derive_length o.params rw.ver rw.survive
  have hdne : derive o.params rw.ver rw.survive ≠ [] := by
    intro he; rw [he] at hdl; simp only [List.length_nil] at hdl
    exact hne (List.eq_nil_of_length_eq_zero hdl.symm)
  have hie : rw.survive.isEmpty = false := by
    cases hrs : rw.survive with
    | nil => exact absurd hrs hne
    | cons a as => rfl
  have hde : (derive o.params rw.ver rw.survive).isEmpty = false := by
    cases hrs : derive o.params rw.ver rw.survive with
    | nil => exact absurd hrs hdne
    | cons a as => rfl
  have hr : r = ({ rewrittenSeg o.params rw with mem := some (derive o.params rw.ver rw.survive) },
      lastOffOr (derive o.params rw.ver rw.survive) (rewrittenSeg o.params rw).base,
      (match (derive o.params rw.ver rw.survive).getLast? with
        | some it => it.ts
        | none => nt)) := by
    show openWriter o (rewrittenSeg o.params rw) nt = _
    unfold openWriter reindexAndRead needsReindex
    simp only [rewrittenSeg, hie, Bool.false_eq_true, false_and, if_false, hde]
    cases hd : derive o.params rw.ver rw.survive with
    | nil => exact absurd hd hdne
    | cons a as => cases rw.iver <;> rfl
  rw [hr]
  refine ⟨rfl, rfl, ⟨?_, ?_⟩, ⟨_, rfl, _, rfl, rfl⟩, ?_⟩
  · intro its hi
    simp only [Option.some.injEq] at hi; subst hi
    exact derive_itemsFor _ _ _
  · intro f hf
    simp only [rewrittenSeg, Option.some.injEq] at hf; subst hf
    exact derive_itemsFor _ _ _
  · simp only
    exact lastOffOr_eq (derive_itemsFor o.params rw.ver rw.survive) _

/-- `tailDeleted` says whether the last record of the head is among the deleted ones. -/
theorem tailDeleted_eq (p : Params) (s : Seg) (offs : List Int) (mv iv : Ver) (its : List Item)
    (hm : s.mem = some its) (hit : ItemsFor s.ver s.recs its)
    (hs : s.recs.Pairwise (fun a b => a.off < b.off)) (lastm : Msg) (hl : s.recs.getLast? = some lastm) :
    tailDeleted s (rewrite p s offs mv iv) = offs.contains lastm.off := by
  have hne : s.recs ≠ [] := by intro he; rw [he] at hl; simp at hl
  -- the writer's last offset is the last record's offset
  have hlo : headLastOff s = lastm.off := by
    unfold headLastOff
    rw [hm]
    simp only [Option.bind_some]
    have hlen := hit.length
    have hine : its ≠ [] := by
      intro he; rw [he] at hlen; simp only [List.length_nil] at hlen
      exact hne (List.eq_nil_of_length_eq_zero hlen.symm)
    rw [List.getLast?_eq_some_getLast hine]
    simp only
    rw [List.getLast_eq_getElem]
    obtain ⟨_, h3, ho, _⟩ := hit.getElem (its.length - 1) (by have := List.length_pos_iff.mpr hine; omega)
    rw [ho]
    have hx : s.recs.getLast hne = lastm := by
      have := List.getLast?_eq_some_getLast hne
      rw [hl] at this; simpa using this.symm
    rw [List.getLast_eq_getElem] at hx
    have : its.length - 1 = s.recs.length - 1 := by omega
    simp only [this, hx]
  unfold tailDeleted
  rw [hlo]
  show (match (s.recs.filter (fun m => offs.contains m.off)).getLast? with
    | some d => d.off == lastm.off
    | none => false) = offs.contains lastm.off
  cases hc : offs.contains lastm.off with
  | true =>
    rw [filter_getLast_of_last s.recs _ lastm hl hc]
    simp
  | false =>
    cases hg : (s.recs.filter (fun m => offs.contains m.off)).getLast? with
    | none => rfl
    | some x =>
      simp only [beq_eq_false_iff_ne, ne_eq]
      have hx := List.mem_of_getLast? hg
      rw [List.mem_filter] at hx
      intro heq
      -- x is a record other than the last one, so its offset is smaller
      obtain ⟨k, hk, rfl⟩ := List.getElem_of_mem hx.1
      have hlast : s.recs.getLast hne = lastm := by
        have := List.getLast?_eq_some_getLast hne
        rw [hl] at this; simpa using this.symm
      rw [List.getLast_eq_getElem] at hlast
      by_cases hkl : k = s.recs.length - 1
      · subst hkl
        rw [hlast] at hx
        rw [hc] at hx; exact absurd hx.2 (by simp)
      · have := List.pairwise_iff_getElem.mp hs k (s.recs.length - 1) hk (by omega) (by omega)
        rw [hlast] at this; omega

end Klev

namespace Klev

theorem replaceAt_last (segs : List Seg) (i : Nat) (new : List Seg) (hi : i + 1 = segs.length) :
    replaceAt segs i new = segs.dropLast ++ new := by
  unfold replaceAt
  have h1 : segs.drop (i + 1) = [] := List.drop_eq_nil_of_le (by omega)
  have h2 : segs.take i = segs.dropLast := by
    rw [List.dropLast_eq_take]; congr 1; omega
  rw [h1, h2, List.append_nil]

/-- `writer.Delete`: invariant kept; content = old content minus the deleted messages; next
offset unchanged — in all three outcomes. -/
theorem swapHead_spec (l : Log) (hinv : Inv l) (hro : l.opts.readonly = false) (i : Nat)
    (hi : i + 1 = l.segs.length) (offs : List Int) (mv iv : Ver) :
    let s := l.segs[i]'(by omega)
    let rw := rewrite l.opts.params s offs mv iv
    Inv (swapHead l i s rw) ∧
    abs (swapHead l i s rw) = ⟨Spec.removeAll (abs l).live rw.deleted, (abs l).next⟩ := by
  intro s rw
  have hi0 : i < l.segs.length := by omega
  have hl : l.segs.getLast? = some s := by
    rw [List.getLast?_eq_getElem?]
    have : l.segs.length - 1 = i := by omega
    rw [this, List.getElem?_eq_getElem hi0]
  have hsn := segs_snoc hl
  have hs : shape l.segs = shape l.segs.dropLast ++ [(s.base, s.recs)] := by
    conv => lhs; rw [hsn]
    rw [shape_append]; rfl
  have hsh := hinv.shape
  rw [hs] at hsh
  have hsh' := hsh
  rw [shapeOK_snoc_iff] at hsh'
  obtain ⟨hpre, hpw, hr, hlast⟩ := hsh'
  have hnext := hinv.next hro
  rw [hs, shapeNext_snoc] at hnext
  simp only at hnext
  have habs := abs_snoc hl
  obtain ⟨its0, hm0, f0, hf0, hfi0⟩ := (hinv.head hro s hl).loaded
  have hidx := hinv.idx s (by rw [hsn]; simp)
  have hsurv : rw.survive = s.recs.filter (fun m => !offs.contains m.off) := rfl
  have hdel : rw.deleted = s.recs.filter (fun m => offs.contains m.off) := rfl
  have hsub : rw.survive.Sublist s.recs := by rw [hsurv]; exact List.filter_sublist
  -- content of the old log and what removal leaves
  have hrem : Spec.removeAll (abs l).live rw.deleted = flat (shape l.segs.dropLast) ++ rw.survive := by
    have h0 : ShapeOK (shape l.segs.dropLast ++ ([(s.base, s.recs)] ++ [])) := by simpa using hsh
    have := removeAll_flat (shape l.segs.dropLast) [] s.base s.recs (fun m => offs.contains m.off) h0
    simp only [List.append_nil, flat_nil] at this
    rw [habs]
    simp only
    rw [hdel, hsurv, ← this, flat_append, flat_singleton]
  have hidxpre : ∀ s' ∈ l.segs.dropLast, IdxOK s' := by
    intro s' hs'
    exact hinv.idx s' (by rw [hsn]; exact List.mem_append_left _ hs')
  have hnh : openWriter l.opts (emptySeg l.wNextOff) l.wNextTime =
      (⟨l.wNextOff, l.opts.nsv, [], some ⟨l.opts.nsv, []⟩, some []⟩, l.wNextOff, l.wNextTime) :=
    openWriter_empty _ _ _
  have hnh_idx : IdxOK (⟨l.wNextOff, l.opts.nsv, [], some ⟨l.opts.nsv, []⟩, some []⟩ : Seg) := by
    refine ⟨?_, ?_⟩
    · intro its hi; simp only [Option.some.injEq] at hi; subst hi; rfl
    · intro f hf; simp only [Option.some.injEq] at hf; subst hf; rfl
  have hnh_head : HeadOK (⟨l.wNextOff, l.opts.nsv, [], some ⟨l.opts.nsv, []⟩, some []⟩ : Seg) :=
    ⟨[], rfl, _, rfl, rfl⟩
  unfold swapHead
  by_cases he : rw.survive = []
  · -- nothing survives: a fresh empty head at the next offset
    simp only [he, List.isEmpty_nil, if_true, hnh]
    rw [replaceAt_last _ _ _ hi]
    have hshape : shape (l.segs.dropLast ++ [(⟨l.wNextOff, l.opts.nsv, [], some ⟨l.opts.nsv, []⟩, some []⟩ : Seg)]) =
        shape l.segs.dropLast ++ [(recsNext s.base s.recs, [])] := by
      rw [shape_append, hnext]; rfl
    refine ⟨⟨?_, ?_, ?_, ?_⟩, ?_⟩
    · simp only; rw [hshape]; exact shape_replace_head_empty _ _ _ hsh
    · intro s' hs'
      simp only at hs'
      rcases List.mem_append.mp hs' with h | h
      · exact hidxpre s' h
      · simp only [List.mem_singleton] at h; subst h; exact hnh_idx
    · intro _; simp only; rw [hshape, shapeNext_snoc]; simp only [recsNext, List.getLast?_nil]; exact hnext
    · intro _ h' hh'
      simp only at hh'
      rw [getLast?_append_ne _ _ (by simp)] at hh'
      simp only [List.getLast?_singleton, Option.some.injEq] at hh'
      subst hh'; exact hnh_head
    · show (⟨flat (shape _), shapeNext (shape _)⟩ : Spec) = _
      rw [hshape, shapeNext_snoc, hrem, he, flat_snoc, habs]
      simp [recsNext]
  · have hie : rw.survive.isEmpty = false := by
      cases hrs : rw.survive with
      | nil => exact absurd hrs he
      | cons a as => rfl
    simp only [hie, Bool.false_eq_true, if_false]
    -- the last record of the head
    have hrne : s.recs ≠ [] := by
      intro h0; rw [hsurv, h0] at he; exact he rfl
    obtain ⟨lastm, hlastm⟩ : ∃ m, s.recs.getLast? = some m := ⟨_, List.getLast?_eq_some_getLast hrne⟩
    have htd := tailDeleted_eq l.opts.params s offs mv iv its0 hm0 (hidx.mem its0 hm0) hlast.1 lastm hlastm
    have hbase : (rewrittenSeg l.opts.params rw).base = minOff (rw.survive.map (·.off)) := rfl
    have hrecs : (rewrittenSeg l.opts.params rw).recs = rw.survive := rfl
    by_cases htail : offs.contains lastm.off = true
    · -- the tail was deleted: survivors become a reader, fresh empty head at the next offset
      rw [htd, htail]
      simp only [if_true, hnh]
      rw [replaceAt_last _ _ _ hi]
      have hshape : shape (l.segs.dropLast ++ [rewrittenSeg l.opts.params rw,
            (⟨l.wNextOff, l.opts.nsv, [], some ⟨l.opts.nsv, []⟩, some []⟩ : Seg)]) =
          shape l.segs.dropLast ++ [(minOff (rw.survive.map (·.off)), rw.survive), (recsNext s.base s.recs, [])] := by
        rw [shape_append, hnext]; rfl
      refine ⟨⟨?_, ?_, ?_, ?_⟩, ?_⟩
      · simp only; rw [hshape]; exact shape_replace_head_tail _ _ _ _ hsh hsub he
      · intro s' hs'
        simp only at hs'
        rcases List.mem_append.mp hs' with h | h
        · exact hidxpre s' h
        · simp only [List.mem_cons, List.mem_singleton, List.not_mem_nil, or_false] at h
          rcases h with rfl | rfl
          · exact rewrittenSeg_idxOK _ _
          · exact hnh_idx
      · intro _
        simp only
        rw [hshape]
        have : shape l.segs.dropLast ++ [(minOff (rw.survive.map (·.off)), rw.survive), (recsNext s.base s.recs, [])] =
            (shape l.segs.dropLast ++ [(minOff (rw.survive.map (·.off)), rw.survive)]) ++ [(recsNext s.base s.recs, [])] := by simp
        rw [this, shapeNext_snoc]
        simp only [recsNext, List.getLast?_nil]; exact hnext
      · intro _ h' hh'
        simp only at hh'
        rw [getLast?_append_ne _ _ (by simp)] at hh'
        simp only [List.getLast?_cons_cons, List.getLast?_singleton, Option.some.injEq] at hh'
        subst hh'; exact hnh_head
      · show (⟨flat (shape _), shapeNext (shape _)⟩ : Spec) = _
        rw [hshape, hrem]
        have : shape l.segs.dropLast ++ [(minOff (rw.survive.map (·.off)), rw.survive), (recsNext s.base s.recs, [])] =
            (shape l.segs.dropLast ++ [(minOff (rw.survive.map (·.off)), rw.survive)]) ++ [(recsNext s.base s.recs, [])] := by simp
        rw [this, shapeNext_snoc, flat_snoc, flat_snoc, habs]
        simp [recsNext]
    · -- the last record survives: the rewritten segment is reopened as the head
      have htail' : offs.contains lastm.off = false := by
        cases hc : offs.contains lastm.off with
        | true => exact absurd hc htail
        | false => rfl
      rw [htd, htail']
      simp only [Bool.false_eq_true, if_false]
      rw [replaceAt_last _ _ _ hi]
      obtain ⟨hb, hrc, hidxn, hheadn, hnoff⟩ := openWriter_rewritten l.opts rw l.wNextTime he
      have hshape : shape (l.segs.dropLast ++ [(openWriter l.opts (rewrittenSeg l.opts.params rw) l.wNextTime).1]) =
          shape l.segs.dropLast ++ [(minOff (rw.survive.map (·.off)), rw.survive)] := by
        rw [shape_append]
        simp only [shape, List.map_cons, List.map_nil, hb, hrc, hbase]
      -- the last survivor is the old last record, so the next offset is unchanged
      have hslast : rw.survive.getLast? = some lastm := by
        rw [hsurv]
        exact filter_getLast_of_last s.recs _ lastm hlastm (by rw [htail']; rfl)
      have hnsame : recsNext (minOff (rw.survive.map (·.off))) rw.survive = recsNext s.base s.recs := by
        unfold recsNext; rw [hslast, hlastm]
      refine ⟨⟨?_, ?_, ?_, ?_⟩, ?_⟩
      · simp only; rw [hshape]; exact shape_replace_head_sub _ _ _ _ hsh hsub he
      · intro s' hs'
        simp only at hs'
        rcases List.mem_append.mp hs' with h | h
        · exact hidxpre s' h
        · simp only [List.mem_singleton] at h; subst h; exact hidxn
      · intro _
        simp only
        rw [hshape, shapeNext_snoc, hnoff, hbase]
      · intro _ h' hh'
        simp only at hh'
        rw [getLast?_append_ne _ _ (by simp)] at hh'
        simp only [List.getLast?_singleton, Option.some.injEq] at hh'
        subst hh'; exact hheadn
      · show (⟨flat (shape _), shapeNext (shape _)⟩ : Spec) = _
        rw [hshape, shapeNext_snoc, hrem, flat_snoc, habs]
        simp only
        rw [hnsame]

end Klev

namespace Klev

theorem sumSizes_bounds (p : Params) (v : Ver) (ms : List Msg) :
    Spec.sumSizes .v1 p ms ≤ (ms.map (fun m => recSize v m + p.size)).sum ∧
    (ms.map (fun m => recSize v m + p.size)).sum ≤ Spec.sumSizes .v2 p ms ∧
    ((ms.map (fun m => recSize v m + p.size)).sum - Spec.sumSizes .v1 p ms) % 8 = 0 := by
  unfold Spec.sumSizes
  induction ms with
  | nil => simp
  | cons m rest ih =>
    simp only [List.map_cons, List.sum_cons]
    cases v <;> simp only [recSize] at * <;> omega

theorem recs_sublist_flat' (sh : Shape) (i : Nat) (hi : i < sh.length) : (sh[i]).2.Sublist (flat sh) := by
  rw [flat_split sh i hi]
  exact (List.sublist_append_right _ _).trans (List.sublist_append_left _ _)

theorem exists_neg_iff_minOff (offs : List Int) (hne : offs ≠ []) :
    (∃ o ∈ offs, o < 0) ↔ minOff offs < 0 := by
  constructor
  · intro ⟨o, ho, hlt⟩
    have := minOff_le offs o ho
    omega
  · intro h
    exact ⟨minOff offs, minOff_mem offs hne, h⟩

/-- **Delete step**: the invariant is kept; the result and the new L0 state are what
`DeleteOK` says: only reported messages are removed, they were live, requested and of the
target segment, carry their full content, the size is the sum of their storage sizes;
relative offsets are rejected, the empty set is a no-op, a read-only handle refuses. -/
theorem delete_step (l : Log) (hinv : Inv l) (offs : List Int) :
    Inv (l.delete offs).1 ∧
    Spec.DeleteOK l.opts.readonly l.opts.params (abs l) offs (l.delete offs).2 (abs (l.delete offs).1) := by
  have hsh := hinv.shape
  have hlen := shape_length l.segs
  have hpos : 0 < (shape l.segs).length := List.length_pos_iff.mpr hsh.ne
  have hbne : bases l ≠ [] := by
    rw [bases_eq_shape]; intro h; exact hsh.ne (List.map_eq_nil_iff.mp h)
  unfold Log.delete Spec.DeleteOK
  cases hro : l.opts.readonly with
  | true => simp [hinv]
  | false =>
    simp only [Bool.false_eq_true, if_false]
    by_cases hem : offs = []
    · simp [hem, hinv]
    · have hie : offs.isEmpty = false := by
        cases ho : offs with
        | nil => exact absurd ho hem
        | cons a as => rfl
      simp only [hie, Bool.false_eq_true, if_false, hem]
      unfold deleteTarget
      simp only
      by_cases hneg : minOff offs < 0
      · have : ∃ o ∈ offs, o < 0 := (exists_neg_iff_minOff offs hem).mpr hneg
        simp [hneg, this, hinv]
      · have hnn : ¬ ∃ o ∈ offs, o < 0 := fun h => hneg ((exists_neg_iff_minOff offs hem).mp h)
        simp only [hneg, if_false, hnn]
        have h1 : minOff offs ≠ offsetOldest := by simp [offsetOldest]; omega
        have h2 : minOff offs ≠ offsetNewest := by simp [offsetNewest]; omega
        rcases SegSearch.get_spec (bases l) (minOff offs) (by rw [bases_eq_shape]; exact hsh.sortedB) hbne h1 h2 with
          ⟨h0, hlt, hres⟩ | ⟨i, hres, hseg⟩
        · -- below the first segment: nothing there
          have hb0eq : (bases l)[0] = ((shape l.segs)[0]).1 := by simp [bases_eq_shape]
          rw [hb0eq] at hlt hres
          have hb0 := hsh.base0 _ (List.getElem_mem hpos)
          have hz : ¬ ((shape l.segs)[0]).1 = 0 := by omega
          rw [hres]
          simp only [hz, if_false]
          refine ⟨hinv, trivial, trivial, minOff offs, minOff_mem offs hem, ?_⟩
          intro m hm
          obtain ⟨j, hj, hmj⟩ := mem_flat (sh := shape l.segs) hm
          have := hsh.lower _ (List.getElem_mem hj) m hmj
          by_cases hj0 : j = 0
          · subst hj0; omega
          · have := hsh.base_lt (i := 0) (j := j) (by omega) hj
            omega
        · rw [hres]
          simp only [Int.toNat_natCast]
          rw [bases_eq_shape] at hseg
          obtain ⟨hi', _, _⟩ := hseg
          have hi : i < l.segs.length := by simpa [shape_length] using hi'
          rw [List.getElem?_eq_getElem hi]
          simp only
          -- facts about the rewrite of the target segment
          have hdsub : ∀ mv iv, (rewrite l.opts.params l.segs[i] offs mv iv).deleted.Sublist (abs l).live := by
            intro mv iv
            have h1 : (rewrite l.opts.params l.segs[i] offs mv iv).deleted.Sublist (l.segs[i]).recs :=
              List.filter_sublist
            have h2 := recs_sublist_flat' (shape l.segs) i (by rw [hlen]; exact hi)
            rw [shape_getElem l.segs i hi] at h2
            exact h1.trans h2
          have hdreq : ∀ mv iv, ∀ d ∈ (rewrite l.opts.params l.segs[i] offs mv iv).deleted, d.off ∈ offs := by
            intro mv iv d hd
            have : d ∈ (l.segs[i]).recs.filter (fun m => offs.contains m.off) := hd
            rw [List.mem_filter] at this
            simpa using this.2
          have hsize : ∀ mv iv, Spec.sumSizes .v1 l.opts.params (rewrite l.opts.params l.segs[i] offs mv iv).deleted ≤
                (rewrite l.opts.params l.segs[i] offs mv iv).delSize ∧
              (rewrite l.opts.params l.segs[i] offs mv iv).delSize ≤
                Spec.sumSizes .v2 l.opts.params (rewrite l.opts.params l.segs[i] offs mv iv).deleted ∧
              ((rewrite l.opts.params l.segs[i] offs mv iv).delSize -
                Spec.sumSizes .v1 l.opts.params (rewrite l.opts.params l.segs[i] offs mv iv).deleted) % 8 = 0 := by
            intro mv iv
            exact sumSizes_bounds l.opts.params (l.segs[i]).ver _
          generalize hmv : (if l.opts.keep = true then (l.segs[i]).ver else l.opts.nsv) = mv
          by_cases hde : (rewrite l.opts.params l.segs[i] offs mv mv).deleted.isEmpty = true
          · simp only [hde, if_true]
            refine ⟨hinv, ?_⟩
            simp only [Spec.removeAll, Spec.sumSizes, List.nil_sublist, List.not_mem_nil, false_implies,
              implies_true, List.contains_nil, Bool.not_false, List.map_nil, List.sum_nil, Int.le_refl,
              Int.sub_self, Int.zero_emod, and_self, and_true, true_and]
            rw [List.filter_eq_self.mpr (by intro a _; rfl)]
          · simp only [hde, Bool.false_eq_true, if_false]
            by_cases hlastseg : (i + 1 == l.segs.length) = true
            · simp only [hlastseg, if_true]
              have hi1 : i + 1 = l.segs.length := by simpa using hlastseg
              obtain ⟨hinv', habs'⟩ := swapHead_spec l hinv hro i hi1 offs mv mv
              refine ⟨hinv', hdsub mv mv, hdreq mv mv, ?_, ?_, hsize mv mv⟩
              · rw [habs']
              · rw [habs']
            · simp only [hlastseg, Bool.false_eq_true, if_false]
              have hi1 : i + 1 < l.segs.length := by
                have : ¬ i + 1 = l.segs.length := by simpa using hlastseg
                omega
              obtain ⟨hinv', habs'⟩ := swapReader_spec l hinv i hi1 offs mv mv
              refine ⟨hinv', hdsub mv mv, hdreq mv mv, ?_, ?_, hsize mv mv⟩
              · rw [habs']
              · rw [habs']

end Klev
