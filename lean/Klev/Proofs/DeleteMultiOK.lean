/-
`DeleteMulti` (delete.go): repeated `Delete` on the still-requested offsets. Each pass
rewrites the segment holding the lowest requested offset. The reported messages are exactly
the messages removed; for a set of live offsets on a read-write log every pass removes at
least the lowest requested message, so the loop ends with none of them live and no error.
-/
import Klev.Proofs.HelpersOK
import Klev.Proofs.Delete
namespace Klev

open Helpers

/-! ### what one `Delete` does, in the shape the loop needs -/

theorem removeAll_nil (live : List Msg) : Spec.removeAll live [] = live := by
  unfold Spec.removeAll
  rw [List.filter_eq_self]
  intro a _; rfl

theorem removeAll_removeAll (live a b : List Msg) :
    Spec.removeAll (Spec.removeAll live a) b = Spec.removeAll live (a ++ b) := by
  unfold Spec.removeAll
  rw [List.filter_filter]
  apply List.filter_congr
  intro m _
  simp only [List.contains_eq_mem, List.mem_append, Bool.decide_or, Bool.not_or, Bool.and_comm]

theorem mem_removeAll {live del : List Msg} {m : Msg} :
    m ∈ Spec.removeAll live del ↔ m ∈ live ∧ m ∉ del := by
  unfold Spec.removeAll
  simp [List.mem_filter]

/-- `delete_step` read as a case distinction: an error changes nothing; a success reports
live requested messages and removes exactly them. -/
theorem delete_cases (l : Log) (hinv : Inv l) (offs : List Int) :
    Inv (l.delete offs).1 ∧
    ((∃ e, (l.delete offs).2 = .err e ∧ abs (l.delete offs).1 = abs l) ∨
     (∃ del sz, (l.delete offs).2 = .ok (del, sz) ∧ del.Sublist (abs l).live ∧
        (∀ d ∈ del, d.off ∈ offs) ∧
        (abs (l.delete offs).1).live = Spec.removeAll (abs l).live del ∧
        (abs (l.delete offs).1).next = (abs l).next ∧
        Spec.sumSizes .v1 l.opts.params del ≤ sz ∧ sz ≤ Spec.sumSizes .v2 l.opts.params del)) := by
  obtain ⟨hi, hok⟩ := delete_step l hinv offs
  refine ⟨hi, ?_⟩
  unfold Spec.DeleteOK at hok
  cases hr : (l.delete offs).2 with
  | err e =>
    left
    refine ⟨e, rfl, ?_⟩
    rw [hr] at hok
    split at hok
    · exact hok.2
    · split at hok
      · exact hok.2
      · split at hok
        · exact hok.2
        · exact hok.1
  | ok p =>
    obtain ⟨del, sz⟩ := p
    right
    rw [hr] at hok
    refine ⟨del, sz, rfl, ?_⟩
    split at hok
    · cases hok.1
    · split at hok
      · obtain ⟨h1, h2⟩ := hok
        simp only [Out.ok.injEq, Prod.mk.injEq] at h1
        obtain ⟨rfl, rfl⟩ := h1
        rw [h2, removeAll_nil]
        refine ⟨List.nil_sublist _, (by intro d hd; cases hd), rfl, rfl, ?_, ?_⟩ <;>
          simp [Spec.sumSizes]
      · split at hok
        · cases hok.1
        · obtain ⟨h1, h2, h3, h4, h5, h6, _⟩ := hok
          exact ⟨h1, h2, h3, h4, h5, h6⟩

theorem delete_opts (l : Log) (offs : List Int) : (l.delete offs).1.opts = l.opts := by
  unfold Log.delete swapHead swapReader
  simp only []
  repeat' split
  all_goals rfl

/-- **The pass makes progress.** On a read-write log, when the lowest requested offset is the
offset of a live message `m0`, `Delete` succeeds and reports exactly the requested records of
the segment holding `m0` — all of them, in particular `m0`. (`DeleteOK` alone allows the empty
report.) -/
theorem delete_target (l : Log) (hinv : Inv l) (hro : l.opts.readonly = false) (offs : List Int)
    (hne : offs ≠ []) (m0 : Msg) (hm0 : m0 ∈ (abs l).live) (hoff : m0.off = minOff offs) :
    ∃ (i : Nat) (hi : i < l.segs.length) (sz : Int), m0 ∈ (l.segs[i]).recs ∧
      (l.delete offs).2 = .ok ((l.segs[i]).recs.filter (fun m => offs.contains m.off), sz) := by
  have hsh := hinv.shape
  have hlen := shape_length l.segs
  have hpos : 0 < (shape l.segs).length := List.length_pos_iff.mpr hsh.ne
  have hbne : bases l ≠ [] := by
    rw [bases_eq_shape]; intro h; exact hsh.ne (List.map_eq_nil_iff.mp h)
  have hm0' : m0 ∈ flat (shape l.segs) := hm0
  have hm0nn : 0 ≤ m0.off := hsh.rec_nonneg hm0'
  obtain ⟨j, hj, hmj⟩ := mem_flat hm0'
  have hlow := hsh.lower _ (List.getElem_mem hj) m0 hmj
  unfold Log.delete
  have hie : offs.isEmpty = false := by
    cases ho : offs with
    | nil => exact absurd ho hne
    | cons a as => rfl
  simp only [hro, Bool.false_eq_true, if_false, hie]
  unfold deleteTarget
  simp only
  have hneg : ¬ minOff offs < 0 := by omega
  simp only [hneg, if_false]
  have h1 : minOff offs ≠ offsetOldest := by simp [offsetOldest]; omega
  have h2 : minOff offs ≠ offsetNewest := by simp [offsetNewest]; omega
  rcases SegSearch.get_spec (bases l) (minOff offs) (by rw [bases_eq_shape]; exact hsh.sortedB) hbne h1 h2 with
    ⟨h0, hlt, _⟩ | ⟨i, hres, hseg⟩
  · exfalso
    have hb0eq : (bases l)[0] = ((shape l.segs)[0]).1 := by simp [bases_eq_shape]
    rw [hb0eq] at hlt
    by_cases hj0 : j = 0
    · subst hj0; omega
    · have := hsh.base_lt (i := 0) (j := j) (by omega) hj
      omega
  · rw [hres]
    simp only [Int.toNat_natCast]
    rw [bases_eq_shape] at hseg
    have hst := SegStart.of_isSegFor hsh hseg
    have hji : j = i := by
      rcases Nat.lt_trichotomy j i with h | h | h
      · have := hst.before j h hj m0 hmj; omega
      · exact h
      · have := hst.after j h hj; omega
    subst hji
    have hi : j < l.segs.length := by rw [← hlen]; exact hj
    rw [List.getElem?_eq_getElem hi]
    simp only
    have hrec : m0 ∈ (l.segs[j]).recs := by
      have := shape_getElem l.segs j hi
      rw [this] at hmj; exact hmj
    have hmem : m0 ∈ (l.segs[j]).recs.filter (fun m => offs.contains m.off) := by
      rw [List.mem_filter]
      refine ⟨hrec, ?_⟩
      rw [hoff]
      simpa using minOff_mem offs hne
    generalize hmv : (if l.opts.keep = true then (l.segs[j]).ver else l.opts.nsv) = mv
    have hdel : (rewrite l.opts.params l.segs[j] offs mv mv).deleted =
        (l.segs[j]).recs.filter (fun m => offs.contains m.off) := rfl
    have hde : (rewrite l.opts.params l.segs[j] offs mv mv).deleted.isEmpty = false := by
      rw [hdel]
      cases hf : (l.segs[j]).recs.filter (fun m => offs.contains m.off) with
      | nil => rw [hf] at hmem; cases hmem
      | cons a as => rfl
    simp only [hde, Bool.false_eq_true, if_false]
    split
    · exact ⟨j, hi, _, hrec, rfl⟩
    · exact ⟨j, hi, _, hrec, rfl⟩

/-- The form the loop uses. -/
theorem delete_lowest (l : Log) (hinv : Inv l) (hro : l.opts.readonly = false) (offs : List Int)
    (hne : offs ≠ []) (m0 : Msg) (hm0 : m0 ∈ (abs l).live) (hoff : m0.off = minOff offs) :
    ∃ del sz, (l.delete offs).2 = .ok (del, sz) ∧ m0 ∈ del := by
  obtain ⟨i, hi, sz, hrec, hres⟩ := delete_target l hinv hro offs hne m0 hm0 hoff
  refine ⟨_, sz, hres, ?_⟩
  rw [List.mem_filter]
  refine ⟨hrec, ?_⟩
  rw [hoff]
  simpa using minOff_mem offs hne

/-- The report of a pass is downward closed among the requested live messages: together with
`m0 ∈ del` it is a non-empty initial run of them (segments hold contiguous offset ranges). -/
theorem delete_run (l : Log) (hinv : Inv l) (hro : l.opts.readonly = false) (offs : List Int)
    (hne : offs ≠ []) (m0 : Msg) (hm0 : m0 ∈ (abs l).live) (hoff : m0.off = minOff offs) :
    ∃ del sz, (l.delete offs).2 = .ok (del, sz) ∧ m0 ∈ del ∧
      ∀ d ∈ del, ∀ x ∈ (abs l).live, x.off ∈ offs → x.off ≤ d.off → x ∈ del := by
  obtain ⟨i, hi, sz, hrec, hres⟩ := delete_target l hinv hro offs hne m0 hm0 hoff
  have hsh := hinv.shape
  have hlen := shape_length l.segs
  have hil : i < (shape l.segs).length := by rw [hlen]; exact hi
  have hsi := shape_getElem l.segs i hi
  refine ⟨_, sz, hres, ?_, ?_⟩
  · rw [List.mem_filter]
    refine ⟨hrec, ?_⟩
    rw [hoff]
    simpa using minOff_mem offs hne
  · intro d hd x hx hxo hxd
    obtain ⟨hd1, _⟩ := List.mem_filter.mp hd
    have hx' : x ∈ flat (shape l.segs) := hx
    obtain ⟨j, hj, hxj⟩ := mem_flat hx'
    have hmin := minOff_le offs x.off hxo
    have hrec' : m0 ∈ ((shape l.segs)[i]).2 := by rw [hsi]; exact hrec
    have hd' : d ∈ ((shape l.segs)[i]).2 := by rw [hsi]; exact hd1
    have hji : j = i := by
      rcases Nat.lt_trichotomy j i with h | h | h
      · have h1 := hsh.rec_lt_base h hil hxj
        have h2 := hsh.lower _ (List.getElem_mem hil) m0 hrec'
        omega
      · exact h
      · have h1 := hsh.rec_lt_base h hj hd'
        have h2 := hsh.lower _ (List.getElem_mem hj) x hxj
        omega
    subst hji
    rw [List.mem_filter]
    refine ⟨by rw [hsi] at hxj; exact hxj, ?_⟩
    simpa using hxo

/-! ### the loop: safety -/

/-- `l` is `l0` with exactly the messages `msgs` removed; they were live and requested. -/
structure Removed (l0 l : Log) (offs : List Int) (msgs : List Msg) : Prop where
  inv : Inv l
  live : (abs l).live = Spec.removeAll (abs l0).live msgs
  next : (abs l).next = (abs l0).next
  sub : ∀ d ∈ msgs, d ∈ (abs l0).live ∧ d.off ∈ offs
  nodup : msgs.Nodup
  opts : l.opts = l0.opts

theorem Removed.refl {l : Log} (h : Inv l) (offs : List Int) : Removed l l offs [] :=
  ⟨h, (removeAll_nil _).symm, rfl, (by intro d hd; cases hd), List.nodup_nil, rfl⟩

theorem Removed.of_loaded {l l1 : Log} (h : Loaded l l1) (offs : List Int) : Removed l l1 offs [] :=
  ⟨h.inv, by rw [h.abs, removeAll_nil], by rw [h.abs], (by intro d hd; cases hd), List.nodup_nil, h.opts⟩

theorem pairwise_off_nodup {l : List Msg} (h : l.Pairwise (fun a b => a.off < b.off)) : l.Nodup := by
  unfold List.Nodup
  apply h.imp
  intro a b hab heq
  rw [heq] at hab
  omega

/-- One successful pass extends the removed set. -/
theorem Removed.step {l0 l : Log} {offs remaining : List Int} {accM : List Msg}
    (h : Removed l0 l offs accM) (hrem : ∀ o ∈ remaining, o ∈ offs)
    {del : List Msg} {sz : Int} (hr : (l.delete remaining).2 = .ok (del, sz)) :
    Removed l0 (l.delete remaining).1 offs (accM ++ del) := by
  obtain ⟨hi, hc⟩ := delete_cases l h.inv remaining
  rcases hc with ⟨e, he, _⟩ | ⟨del', sz', hr', hsub, hreq, hlive, hnext, _⟩
  · rw [hr] at he; cases he
  · rw [hr] at hr'
    simp only [Out.ok.injEq, Prod.mk.injEq] at hr'
    obtain ⟨rfl, rfl⟩ := hr'
    have hdl : ∀ d ∈ del, d ∈ (abs l).live := fun d hd => hsub.subset hd
    refine ⟨hi, ?_, ?_, ?_, ?_, ?_⟩
    · rw [hlive, h.live, removeAll_removeAll]
    · rw [hnext, h.next]
    · intro d hd
      rcases List.mem_append.mp hd with hd | hd
      · exact h.sub d hd
      · have := hdl d hd
        rw [h.live] at this
        exact ⟨(mem_removeAll.mp this).1, hrem _ (hreq d hd)⟩
    · rw [List.nodup_append]
      refine ⟨h.nodup, ?_, ?_⟩
      · exact pairwise_off_nodup ((abs_wf l h.inv).1.sublist hsub)
      · intro a ha b hb hab
        subst hab
        have := hdl a hb
        rw [h.live] at this
        exact (mem_removeAll.mp this).2 ha
    · rw [delete_opts, h.opts]

theorem deleteMultiLoop_safe (l0 : Log) (offs : List Int) :
    ∀ (fuel : Nat) (l : Log) (remaining : List Int) (accM : List Msg) (accS : Int),
      Removed l0 l offs accM → (∀ o ∈ remaining, o ∈ offs) →
      Removed l0 (deleteMultiLoop fuel l remaining accM accS).1 offs
        (deleteMultiLoop fuel l remaining accM accS).2.msgs
  | 0, l, remaining, accM, accS, h, _ => by
    unfold deleteMultiLoop; exact h
  | fuel + 1, l, remaining, accM, accS, h, hrem => by
    unfold deleteMultiLoop
    split
    · exact h
    · obtain ⟨hi, hc⟩ := delete_cases l h.inv remaining
      cases hr : l.delete remaining with
      | mk l1 r =>
        rw [hr] at hi hc
        simp only at hi hc
        cases r with
        | err e =>
          simp only
          rcases hc with ⟨e', _, habs⟩ | ⟨del, sz, hr', _⟩
          · have ho := delete_opts l remaining
            rw [hr] at ho
            exact ⟨hi, by rw [habs]; exact h.live, by rw [habs]; exact h.next, h.sub, h.nodup,
              ho.trans h.opts⟩
          · cases hr'
        | ok p =>
          obtain ⟨del, sz⟩ := p
          simp only
          have hst := h.step hrem (del := del) (sz := sz) (by rw [hr])
          rw [hr] at hst
          simp only at hst
          split
          · next hde =>
            have : del = [] := by simpa using hde
            subst this
            rw [List.append_nil] at hst
            exact hst
          · apply deleteMultiLoop_safe l0 offs fuel l1 _ _ _ hst
            intro o ho
            exact hrem o (List.mem_filter.mp ho).1

/-! ### the loop: completion -/

theorem deleteMultiLoop_complete :
    ∀ (fuel : Nat) (l : Log) (remaining : List Int) (accM : List Msg) (accS : Int),
      Inv l → l.opts.readonly = false →
      (∀ o ∈ remaining, ∃ m ∈ (abs l).live, m.off = o) → remaining.length < fuel →
      (deleteMultiLoop fuel l remaining accM accS).2.err = none ∧
      ∀ m ∈ (abs (deleteMultiLoop fuel l remaining accM accS).1).live,
        m ∈ (abs l).live ∧ m.off ∉ remaining
  | 0, _, _, _, _, _, _, _, hf => by omega
  | fuel + 1, l, remaining, accM, accS, hinv, hro, hlive, hf => by
    unfold deleteMultiLoop
    by_cases hem : remaining = []
    · subst hem
      simp only [List.isEmpty_nil, if_true]
      exact ⟨trivial, fun m hm => ⟨hm, by simp⟩⟩
    · have hie : remaining.isEmpty = false := by
        cases ho : remaining with
        | nil => exact absurd ho hem
        | cons a as => rfl
      simp only [hie, Bool.false_eq_true, if_false]
      have hwf := abs_wf l hinv
      -- the lowest requested offset is live, so the pass removes it
      obtain ⟨m0, hm0, hm0o⟩ := hlive _ (minOff_mem remaining hem)
      obtain ⟨del, sz, hres, hm0d⟩ := delete_lowest l hinv hro remaining hem m0 hm0 hm0o
      obtain ⟨hi, hc⟩ := delete_cases l hinv remaining
      have hopts := delete_opts l remaining
      cases hr : l.delete remaining with
      | mk l1 r =>
        rw [hr] at hi hc hres hopts
        simp only at hi hc hres hopts
        subst hres
        simp only
        rcases hc with ⟨e, he, _⟩ | ⟨del', sz', hr', hsub, hreq, hlive1, _⟩
        · cases he
        · simp only [Out.ok.injEq, Prod.mk.injEq] at hr'
          obtain ⟨rfl, rfl⟩ := hr'
          have hdne : del.isEmpty = false := by
            cases hd : del with
            | nil => rw [hd] at hm0d; cases hm0d
            | cons a as => rfl
          simp only [hdne, Bool.false_eq_true, if_false]
          have hdl : ∀ d ∈ del, d ∈ (abs l).live := fun d hd => hsub.subset hd
          -- the new request: strictly shorter, still all live
          have hlt : (remaining.filter (fun o => !(del.map (·.off)).contains o)).length < remaining.length := by
            apply List.length_filter_lt_length_iff_exists.mpr
            refine ⟨minOff remaining, minOff_mem remaining hem, ?_⟩
            simp only [List.contains_eq_mem, List.mem_map, decide_eq_false_iff_not,
              Decidable.not_not, Bool.not_eq_eq_eq_not, Bool.not_true]
            exact ⟨m0, hm0d, hm0o⟩
          have hlive' : ∀ o ∈ remaining.filter (fun o => !(del.map (·.off)).contains o),
              ∃ m ∈ (abs l1).live, m.off = o := by
            intro o ho
            obtain ⟨ho1, ho2⟩ := List.mem_filter.mp ho
            obtain ⟨m, hm, hmo⟩ := hlive o ho1
            refine ⟨m, ?_, hmo⟩
            rw [hlive1, mem_removeAll]
            refine ⟨hm, ?_⟩
            intro hmd
            simp only [List.contains_eq_mem, List.mem_map, Bool.not_eq_true', decide_eq_false_iff_not] at ho2
            exact ho2 ⟨m, hmd, hmo⟩
          obtain ⟨ih1, ih2⟩ := deleteMultiLoop_complete fuel l1
            (remaining.filter (fun o => !(del.map (·.off)).contains o)) (accM ++ del) (accS + sz) hi
            (by rw [hopts]; exact hro) hlive' (by omega)
          refine ⟨ih1, ?_⟩
          intro m hm
          obtain ⟨hm1, hm2⟩ := ih2 m hm
          rw [hlive1, mem_removeAll] at hm1
          refine ⟨hm1.1, ?_⟩
          intro hmr
          apply hm2
          rw [List.mem_filter]
          refine ⟨hmr, ?_⟩
          simp only [List.contains_eq_mem, List.mem_map, Bool.not_eq_true', decide_eq_false_iff_not]
          intro ⟨d, hd, hdo⟩
          have := eq_of_off_eq hwf.1 (hdl d hd) hm1.1 hdo
          subst this
          exact hm1.2 hd

/-! ### the loop: size and order of the report -/

theorem sumSizes_append (v : Ver) (p : Params) (a b : List Msg) :
    Spec.sumSizes v p (a ++ b) = Spec.sumSizes v p a + Spec.sumSizes v p b := by
  unfold Spec.sumSizes
  rw [List.map_append, List.sum_append_int]

/-- The reported size is the sum of the storage sizes of the reported messages (each in the
version of the file it was in). -/
theorem deleteMultiLoop_size (p : Params) :
    ∀ (fuel : Nat) (l : Log) (remaining : List Int) (accM : List Msg) (accS : Int),
      Inv l → l.opts.params = p →
      Spec.sumSizes .v1 p accM ≤ accS → accS ≤ Spec.sumSizes .v2 p accM →
      Spec.sumSizes .v1 p (deleteMultiLoop fuel l remaining accM accS).2.msgs ≤
        (deleteMultiLoop fuel l remaining accM accS).2.size ∧
      (deleteMultiLoop fuel l remaining accM accS).2.size ≤
        Spec.sumSizes .v2 p (deleteMultiLoop fuel l remaining accM accS).2.msgs
  | 0, l, remaining, accM, accS, _, _, h1, h2 => by
    unfold deleteMultiLoop; exact ⟨h1, h2⟩
  | fuel + 1, l, remaining, accM, accS, hinv, hp, h1, h2 => by
    unfold deleteMultiLoop
    split
    · exact ⟨h1, h2⟩
    · obtain ⟨hi, hc⟩ := delete_cases l hinv remaining
      have hopts := delete_opts l remaining
      cases hr : l.delete remaining with
      | mk l1 r =>
        rw [hr] at hi hc hopts
        simp only at hi hc hopts
        cases r with
        | err e => exact ⟨h1, h2⟩
        | ok q =>
          obtain ⟨del, sz⟩ := q
          simp only
          split
          · exact ⟨h1, h2⟩
          · rcases hc with ⟨_, he, _⟩ | ⟨del', sz', hr', _, _, _, _, hs1, hs2⟩
            · cases he
            · simp only [Out.ok.injEq, Prod.mk.injEq] at hr'
              obtain ⟨rfl, rfl⟩ := hr'
              rw [hp] at hs1 hs2
              apply deleteMultiLoop_size p fuel l1 _ _ _ hi (by rw [hopts]; exact hp)
              · rw [sumSizes_append]; omega
              · rw [sumSizes_append]; omega

/-- Lists with increasing offsets and the same members are equal. -/
theorem sorted_ext : ∀ (A B : List Msg), A.Pairwise (fun a b => a.off < b.off) →
    B.Pairwise (fun a b => a.off < b.off) → (∀ x, x ∈ A ↔ x ∈ B) → A = B
  | [], [], _, _, _ => rfl
  | [], b :: B, _, _, h => by have := (h b).mpr List.mem_cons_self; cases this
  | a :: A, [], _, _, h => by have := (h a).mp List.mem_cons_self; cases this
  | a :: A, b :: B, hA, hB, h => by
    rw [List.pairwise_cons] at hA hB
    have hab : a = b := by
      rcases List.mem_cons.mp ((h a).mp List.mem_cons_self) with h1 | h1
      · exact h1
      · rcases List.mem_cons.mp ((h b).mpr List.mem_cons_self) with h2 | h2
        · exact h2.symm
        · have := hA.1 b h2
          have := hB.1 a h1
          omega
    subst hab
    congr 1
    apply sorted_ext A B hA.2 hB.2
    intro x
    constructor
    · intro hx
      rcases List.mem_cons.mp ((h x).mp (List.mem_cons_of_mem _ hx)) with h1 | h1
      · have := hA.1 x hx
        rw [h1] at this; omega
      · exact h1
    · intro hx
      rcases List.mem_cons.mp ((h x).mpr (List.mem_cons_of_mem _ hx)) with h1 | h1
      · have := hB.1 x hx
        rw [h1] at this; omega
      · exact h1

/-- Over live offsets on a read-write log the passes report initial runs of what is left, so
the whole report is in offset order. -/
theorem deleteMultiLoop_sorted :
    ∀ (fuel : Nat) (l : Log) (remaining : List Int) (accM : List Msg) (accS : Int),
      Inv l → l.opts.readonly = false →
      (∀ o ∈ remaining, ∃ m ∈ (abs l).live, m.off = o) →
      accM.Pairwise (fun a b => a.off < b.off) → (∀ a ∈ accM, ∀ o ∈ remaining, a.off < o) →
      (deleteMultiLoop fuel l remaining accM accS).2.msgs.Pairwise (fun a b => a.off < b.off)
  | 0, _, _, _, _, _, _, _, hs, _ => by unfold deleteMultiLoop; exact hs
  | fuel + 1, l, remaining, accM, accS, hinv, hro, hlive, hs, hlt => by
    unfold deleteMultiLoop
    by_cases hem : remaining = []
    · subst hem
      simp only [List.isEmpty_nil, if_true]
      exact hs
    · have hie : remaining.isEmpty = false := by
        cases ho : remaining with
        | nil => exact absurd ho hem
        | cons a as => rfl
      simp only [hie, Bool.false_eq_true, if_false]
      have hwf := abs_wf l hinv
      obtain ⟨m0, hm0, hm0o⟩ := hlive _ (minOff_mem remaining hem)
      obtain ⟨del, sz, hres, hm0d, hrun⟩ := delete_run l hinv hro remaining hem m0 hm0 hm0o
      obtain ⟨hi, hc⟩ := delete_cases l hinv remaining
      have hopts := delete_opts l remaining
      cases hr : l.delete remaining with
      | mk l1 r =>
        rw [hr] at hi hc hres hopts
        simp only at hi hc hres hopts
        subst hres
        simp only
        rcases hc with ⟨e, he, _⟩ | ⟨del', sz', hr', hsub, hreq, hlive1, _⟩
        · cases he
        · simp only [Out.ok.injEq, Prod.mk.injEq] at hr'
          obtain ⟨rfl, rfl⟩ := hr'
          split
          · exact hs
          · apply deleteMultiLoop_sorted fuel l1 _ _ _ hi (by rw [hopts]; exact hro)
            · intro o ho
              obtain ⟨ho1, ho2⟩ := List.mem_filter.mp ho
              obtain ⟨m, hm, hmo⟩ := hlive o ho1
              refine ⟨m, ?_, hmo⟩
              rw [hlive1, mem_removeAll]
              refine ⟨hm, ?_⟩
              intro hmd
              simp only [List.contains_eq_mem, List.mem_map, Bool.not_eq_true',
                decide_eq_false_iff_not] at ho2
              exact ho2 ⟨m, hmd, hmo⟩
            · rw [List.pairwise_append]
              refine ⟨hs, hwf.1.sublist hsub, ?_⟩
              intro a ha d hd
              exact hlt a ha d.off (hreq d hd)
            · intro a ha o ho
              obtain ⟨ho1, ho2⟩ := List.mem_filter.mp ho
              rcases List.mem_append.mp ha with ha | ha
              · exact hlt a ha o ho1
              · obtain ⟨x, hx, hxo⟩ := hlive o ho1
                false_or_by_contra
                rename_i hnlt
                have hxd := hrun a ha x hx (by rw [hxo]; exact ho1) (by omega)
                simp only [List.contains_eq_mem, List.mem_map, Bool.not_eq_true',
                  decide_eq_false_iff_not] at ho2
                exact ho2 ⟨x, hxd, hxo⟩

/-! ### `DeleteMulti` -/

theorem eraseDups_length_le : ∀ (n : Nat) (l : List Int), l.length ≤ n → l.eraseDups.length ≤ l.length
  | _, [], _ => by simp
  | 0, a :: l, h => by simp at h
  | n + 1, a :: l, h => by
    rw [List.eraseDups_cons]
    simp only [List.length_cons] at h ⊢
    have h1 : (l.filter (fun b => !b == a)).length ≤ l.length := List.length_filter_le _ _
    have := eraseDups_length_le n (l.filter (fun b => !b == a)) (by omega)
    omega

/-- **DeleteMulti.** For every log satisfying the invariant and every offset list: the
invariant is kept; the reported messages are exactly the messages removed (the new content is
the old content minus them, the next offset is unchanged), each was live and requested, none
is reported twice — whether or not a pass failed. On a read-write log, when every requested
offset is the offset of a live message, no pass fails and afterwards none of them is live. -/
theorem deleteMulti_spec (l : Log) (h : Inv l) (offs : List Int) :
    let r := Helpers.deleteMulti l offs
    Inv r.1 ∧
    ((abs r.1).live = Spec.removeAll (abs l).live r.2.msgs ∧ (abs r.1).next = (abs l).next ∧
      (∀ d ∈ r.2.msgs, d ∈ (abs l).live ∧ d.off ∈ offs) ∧ r.2.msgs.Nodup ∧
      Spec.sumSizes .v1 l.opts.params r.2.msgs ≤ r.2.size ∧
      r.2.size ≤ Spec.sumSizes .v2 l.opts.params r.2.msgs) ∧
    (l.opts.readonly = false → (∀ o ∈ offs, ∃ m ∈ (abs l).live, m.off = o) →
      r.2.err = none ∧ ∀ m ∈ (abs r.1).live, m.off ∉ offs) := by
  intro r
  have hs := deleteMultiLoop_safe l offs (offs.length + 1) l offs.eraseDups [] 0 (Removed.refl h offs)
    (fun o ho => List.mem_eraseDups.mp ho)
  have hsz := deleteMultiLoop_size l.opts.params (offs.length + 1) l offs.eraseDups [] 0 h rfl
    (by simp [Spec.sumSizes]) (by simp [Spec.sumSizes])
  refine ⟨hs.inv, ⟨hs.live, hs.next, hs.sub, hs.nodup, hsz.1, hsz.2⟩, ?_⟩
  intro hro hlive
  obtain ⟨h1, h2⟩ := deleteMultiLoop_complete (offs.length + 1) l offs.eraseDups [] 0 h hro
    (fun o ho => hlive o (List.mem_eraseDups.mp ho))
    (by have := eraseDups_length_le offs.length offs (Nat.le_refl _); omega)
  refine ⟨h1, ?_⟩
  intro m hm ho
  exact (h2 m hm).2 (List.mem_eraseDups.mpr ho)

/-- Closed form of the completed case: exactly the messages with a requested offset are gone. -/
theorem deleteMulti_complete (l : Log) (h : Inv l) (hro : l.opts.readonly = false) (offs : List Int)
    (hlive : ∀ o ∈ offs, ∃ m ∈ (abs l).live, m.off = o) :
    let r := Helpers.deleteMulti l offs
    Inv r.1 ∧ r.2.err = none ∧
    (abs r.1).live = (abs l).live.filter (fun m => !offs.contains m.off) ∧
    (abs r.1).next = (abs l).next ∧
    (∀ d, d ∈ r.2.msgs ↔ d ∈ (abs l).live ∧ d.off ∈ offs) ∧
    r.2.msgs = (abs l).live.filter (fun m => offs.contains m.off) := by
  intro r
  obtain ⟨hi, ⟨hl, hn, hsub, _⟩, hc⟩ := deleteMulti_spec l h offs
  have hsorted : r.2.msgs.Pairwise (fun a b => a.off < b.off) :=
    deleteMultiLoop_sorted (offs.length + 1) l offs.eraseDups [] 0 h hro
      (fun o ho => hlive o (List.mem_eraseDups.mp ho)) List.Pairwise.nil
      (by intro a ha; cases ha)
  obtain ⟨he, hgone⟩ := hc hro hlive
  have hiff : ∀ d ∈ (abs l).live, d ∈ r.2.msgs ↔ d.off ∈ offs := by
    intro d hd
    constructor
    · intro hdm; exact (hsub d hdm).2
    · intro hdo
      false_or_by_contra
      rename_i hnd
      have : d ∈ (abs r.1).live := by
        show d ∈ (abs (Helpers.deleteMulti l offs).1).live
        rw [hl, mem_removeAll]; exact ⟨hd, hnd⟩
      exact hgone d this hdo
  refine ⟨hi, he, ?_, hn, ?_, ?_⟩
  · show (abs (Helpers.deleteMulti l offs).1).live = _
    rw [hl]
    unfold Spec.removeAll
    apply List.filter_congr
    intro m hm
    have := hiff m hm
    by_cases hmo : m.off ∈ offs
    · simp [hmo]
      exact this.mpr hmo
    · have hnm : m ∉ r.2.msgs := fun hc => hmo (this.mp hc)
      simp only [List.contains_eq_mem, hmo, decide_false, Bool.not_false, Bool.not_eq_true',
        decide_eq_false_iff_not]
      exact hnm
  · intro d
    constructor
    · intro hd; exact hsub d hd
    · intro ⟨hd, hdo⟩; exact (hiff d hd).mpr hdo
  · apply sorted_ext _ _ hsorted ((abs_wf l h).1.filter _)
    intro d
    rw [List.mem_filter]
    constructor
    · intro hd; exact ⟨(hsub d hd).1, by simpa using (hsub d hd).2⟩
    · intro ⟨hd, hdo⟩; exact (hiff d hd).mpr (by simpa using hdo)

/-! ### `Trim*` / `Compact*`: find, then `Delete` or `DeleteMulti` -/

/-- A single `Delete` in the same shape. -/
theorem single_delete_removed (l : Log) (h : Inv l) (offs : List Int) :
    Removed l (single (l.delete offs)).1 offs (single (l.delete offs)).2.msgs := by
  obtain ⟨hi, hc⟩ := delete_cases l h offs
  have ho := delete_opts l offs
  cases hr : l.delete offs with
  | mk l1 r =>
    rw [hr] at hi hc ho
    simp only at hi hc ho
    cases r with
    | err e =>
      rcases hc with ⟨_, _, habs⟩ | ⟨_, _, hr', _⟩
      · unfold single
        exact ⟨hi, by simp only; rw [habs, removeAll_nil], by simp only; rw [habs],
          (by intro d hd; cases hd), List.nodup_nil, ho⟩
      · cases hr'
    | ok p =>
      obtain ⟨del, sz⟩ := p
      have := (Removed.refl h offs).step (remaining := offs) (fun o ho => ho) (del := del) (sz := sz)
        (by rw [hr])
      rw [hr, List.nil_append] at this
      unfold single
      exact this

/-- What `thenDelete` removed is what it reports, for both modes, after a `Find*` that only
loaded indexes. -/
theorem thenDelete_removed (l l1 : Log) (hld : Loaded l l1) (multi : Bool) (offs : List Int) :
    Removed l (thenDelete multi (l1, .ok offs)).1 offs (thenDelete multi (l1, .ok offs)).2.msgs := by
  have key : Removed l1 (thenDelete multi (l1, .ok offs)).1 offs (thenDelete multi (l1, .ok offs)).2.msgs := by
    unfold thenDelete
    cases multi with
    | true =>
      simp only [if_true]
      exact deleteMultiLoop_safe l1 offs _ l1 _ [] 0 (Removed.refl hld.inv offs)
        (fun o ho => List.mem_eraseDups.mp ho)
    | false =>
      simp only [Bool.false_eq_true, if_false]
      exact single_delete_removed l1 hld.inv offs
  exact ⟨key.inv, by rw [key.live, hld.abs], by rw [key.next, hld.abs],
    (by intro d hd; have := key.sub d hd; rw [hld.abs] at this; exact this), key.nodup,
    key.opts.trans hld.opts⟩

theorem thenDelete_err (l1 : Log) (e : Err) (multi : Bool) :
    thenDelete multi (l1, .err e) = (l1, ⟨some e, [], 0⟩) := rfl

end Klev

#print axioms Klev.delete_cases
#print axioms Klev.delete_target
#print axioms Klev.delete_lowest
#print axioms Klev.deleteMultiLoop_safe
#print axioms Klev.deleteMultiLoop_complete
#print axioms Klev.delete_run
#print axioms Klev.deleteMultiLoop_size
#print axioms Klev.deleteMultiLoop_sorted
#print axioms Klev.deleteMulti_spec
#print axioms Klev.deleteMulti_complete
#print axioms Klev.single_delete_removed
#print axioms Klev.thenDelete_removed
