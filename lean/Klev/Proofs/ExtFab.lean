/-
`FirstAtBase` — the first record of every segment sits at the segment's base offset — is
an invariant of the API: it holds after Open on an empty directory and is kept by every
step, hence along every history. (`getByTime_ok` takes it as a hypothesis.)
-/
import Klev.Proofs.ExtSteps
import Klev.Proofs.TimeOK
namespace Klev

/-! ## A. `FirstAtBase` -/

/-- The first record of the segment sits at the segment's base offset. -/
def FabSeg (s : Seg) : Prop := ∀ m, s.recs.head? = some m → m.off = s.base

theorem firstAtBase_iff_seg (l : Log) : FirstAtBase l ↔ ∀ s ∈ l.segs, FabSeg s := Iff.rfl

/-- `FirstAtBase` only depends on the shape of the segment list. -/
theorem firstAtBase_iff_shape (l : Log) :
    FirstAtBase l ↔ ∀ br ∈ shape l.segs, ∀ m, br.2.head? = some m → m.off = br.1 := by
  constructor
  · exact fun h => h.toShape
  · intro h s hs m hm
    exact h (s.base, s.recs) (List.mem_map.mpr ⟨s, hs, rfl⟩) m hm

theorem fabSeg_of_eq {s s' : Seg} (hb : s'.base = s.base) (hr : s'.recs = s.recs)
    (h : FabSeg s) : FabSeg s' := by
  intro m hm
  rw [hr] at hm
  rw [hb]
  exact h m hm

theorem fabSeg_nil {s : Seg} (hr : s.recs = []) : FabSeg s := by
  intro m hm
  rw [hr] at hm
  simp at hm

/-- A rewritten segment is renamed to its lowest surviving offset, which is the offset of
its first record because the records are sorted. -/
theorem fabSeg_rewritten (p : Params) (s : Seg) (offs : List Int) (mv iv : Ver)
    (hs : s.recs.Pairwise (fun a b => a.off < b.off)) :
    FabSeg (rewrittenSeg p (rewrite p s offs mv iv)) := by
  intro m hm
  have hsurv : (rewrite p s offs mv iv).survive = s.recs.filter (fun m => !offs.contains m.off) := rfl
  have hsorted : (rewrite p s offs mv iv).survive.Pairwise (fun a b => a.off < b.off) := by
    rw [hsurv]; exact hs.sublist List.filter_sublist
  show m.off = minOff ((rewrite p s offs mv iv).survive.map (·.off))
  have hm' : (rewrite p s offs mv iv).survive.head? = some m := hm
  generalize (rewrite p s offs mv iv).survive = sv at hm' hsorted
  cases sv with
  | nil => simp at hm'
  | cons a as =>
    simp only [List.head?_cons, Option.some.injEq] at hm'
    subst hm'
    rw [List.map_cons, minOff_sorted]
    have := (List.pairwise_map (f := fun m : Msg => m.off) (R := fun a b => a < b)).mpr hsorted
    simpa using this

theorem stampSpec_head (b : List (Int × List UInt8 × List UInt8)) (off : Int) (m : Msg)
    (h : (Spec.stampSpec off b).head? = some m) : m.off = off := by
  cases b with
  | nil => simp [Spec.stampSpec] at h
  | cons x rest =>
    obtain ⟨t, k, vl⟩ := x
    simp only [Spec.stampSpec, List.head?_cons, Option.some.injEq] at h
    subst h; rfl

theorem seg_sorted_of_inv {l : Log} (hinv : Inv l) {s : Seg} (hs : s ∈ l.segs) :
    s.recs.Pairwise (fun a b => a.off < b.off) :=
  hinv.shape.sorted (s.base, s.recs) (List.mem_map.mpr ⟨s, hs, rfl⟩)

/-- **`FirstAtBase` is kept by every API step.** -/
theorem firstAtBase_step (l : Log) (hinv : Inv l) (hf : FirstAtBase l) (op : Op) :
    FirstAtBase (stepOp l op) := by
  cases op with
  | publish b =>
    simp only [stepOp]
    unfold Log.publish
    cases hro : l.opts.readonly with
    | true => simpa using hf
    | false =>
      simp only [Bool.false_eq_true, if_false]
      obtain ⟨hinv1, _, _⟩ := rollover_spec l hinv hro
      obtain ⟨ho1, hoff1, htime1, hsegs1⟩ := rollover_facts l
      have hf1 : ∀ s ∈ l.rollover.segs, FabSeg s := by
        rcases hsegs1 with h | h
        · rw [h]; exact hf
        · rw [h]
          intro s hs
          rcases List.mem_append.mp hs with h1 | h1
          · exact hf s h1
          · simp only [List.mem_singleton] at h1
            subst h1
            exact fabSeg_nil rfl
      refine append_forall FabSeg l.rollover b hf1 ?_
      intro h hl m hm
      have hmem : h ∈ l.rollover.segs := List.mem_of_getLast? hl
      show m.off = h.base
      have hm' : (h.recs ++ (stamp l.rollover.opts.params h.ver l.rollover.wNextOff
          (logSize h.ver h.recs) l.rollover.wNextTime b).1).head? = some m := hm
      rw [stamp_fst] at hm'
      cases hrecs : h.recs with
      | nil =>
        rw [hrecs, List.nil_append] at hm'
        have h1 := stampSpec_head b _ m hm'
        have h2 := hinv1.next (by rw [ho1]; exact hro)
        have h3 : (abs l.rollover).next = shapeNext (shape l.rollover.segs) := rfl
        rw [abs_snoc hl] at h3
        simp only [recsNext, hrecs, List.getLast?_nil] at h3
        rw [h1, h2, ← h3]
      | cons a as =>
        rw [hrecs] at hm'
        simp only [List.cons_append, List.head?_cons, Option.some.injEq] at hm'
        subst hm'
        exact hf1 h hmem a (by rw [hrecs]; rfl)
  | delete o =>
    simp only [stepOp]
    refine delete_forall FabSeg l o hf (fabSeg_nil rfl) ?_
    intro s hs mv _
    have h1 := fabSeg_rewritten l.opts.params s o mv mv (seg_sorted_of_inv hinv hs)
    obtain ⟨hb, hr⟩ := openWriter_base_recs l.opts
      (rewrittenSeg l.opts.params (rewrite l.opts.params s o mv mv)) l.wNextTime
    exact ⟨h1, fabSeg_of_eq hb hr h1⟩
  | consume off mc =>
    simp only [stepOp]
    refine consume_forall FabSeg l off mc ?_ hf
    intro s hs
    exact fabSeg_of_eq (loadIndex_base_recs l.opts s).1 (loadIndex_base_recs l.opts s).2.1 hs
  | get off =>
    simp only [stepOp]
    refine get_forall FabSeg l off ?_ hf
    intro s hs
    exact fabSeg_of_eq (loadIndex_base_recs l.opts s).1 (loadIndex_base_recs l.opts s).2.1 hs
  | gc =>
    simp only [stepOp]
    exact gc_forall FabSeg l (fun s h => h) hf
  | reopen rm mig rec oo =>
    simp only [stepOp]
    cases ho : Log.open (closedDisk l rm mig rec) oo with
    | err e => exact hf
    | ok l' =>
      simp only
      have hmigk : ∀ (p : Params) (a c : Ver) (sd : SegDisk),
          (∀ m, sd.recs.head? = some m → m.off = sd.base) →
          (∀ m, (segMigrate p a c sd).recs.head? = some m → m.off = (segMigrate p a c sd).base) := by
        intro p a c sd h
        unfold segMigrate
        split <;> exact h
      have hreck : ∀ (p : Params) (sd : SegDisk),
          (∀ m, sd.recs.head? = some m → m.off = sd.base) →
          (∀ m, (segRecover p sd).recs.head? = some m → m.off = (segRecover p sd).base) := by
        intro p sd h
        rw [(segRecover_shape p sd).1, (segRecover_shape p sd).2.1]
        exact h
      refine open_forall (fun sd => ∀ m, sd.recs.head? = some m → m.off = sd.base) FabSeg
        (closedDisk l rm mig rec) oo l' ho (closedDisk_ne l hinv rm mig rec) ?_
        (hreck _) (hmigk _ _ _) (fun sd h => h) ?_
      · exact closedDisk_forall _ l rm mig rec (fun s hs => hf s hs) (fun sd h => h)
          (fun v => hmigk _ v v) (hreck _)
      · intro sd h
        obtain ⟨hb, hr⟩ := openWriter_base_recs oo.opts sd.toSeg 0
        intro m hm
        rw [hr] at hm
        rw [hb]
        exact h m hm

/-- What Open makes of an empty directory: one empty segment with empty indexes. -/
theorem open_empty_segs (oo : OpenOpts) (l0 : Log) (h : Log.open [] oo = .ok l0) :
    ∀ s ∈ l0.segs, s.recs = [] ∧ (∀ its, s.mem = some its → its = []) ∧
      (∀ f, s.idxf = some f → f.items = []) := by
  unfold Log.open at h
  simp only [List.getLast?_nil, openWriter_fresh] at h
  split at h
  · simp only [Out.ok.injEq] at h
    subst h
    intro s hs
    simp only [List.mem_singleton] at hs
    subst hs
    refine ⟨rfl, ?_, ?_⟩
    · intro its hi; simp only [Option.some.injEq] at hi; exact hi.symm
    · intro f hf; simp [emptySeg] at hf
  · simp only [Out.ok.injEq] at h
    subst h
    intro s hs
    simp only [List.mem_singleton] at hs
    subst hs
    refine ⟨rfl, ?_, ?_⟩
    · intro its hi; simp only [freshSeg, Option.some.injEq] at hi; exact hi.symm
    · intro f hf; simp only [freshSeg, Option.some.injEq] at hf; subst hf; rfl

theorem firstAtBase_open_empty (oo : OpenOpts) :
    ∀ l0, Log.open [] oo = .ok l0 → FirstAtBase l0 := by
  intro l0 h s hs
  exact fabSeg_nil (open_empty_segs oo l0 h s hs).1

/-- **`FirstAtBase` holds along every history.** -/
theorem firstAtBase_run (l : Log) (hinv : Inv l) (hf : FirstAtBase l) (ops : List Op) :
    FirstAtBase (runOps l ops) := by
  induction ops generalizing l with
  | nil => exact hf
  | cons op rest ih =>
    exact ih (stepOp l op) (step_inv_abs l hinv op).1 (firstAtBase_step l hinv hf op)

end Klev
