/-
A generic step theorem for "every index of every segment satisfies `P`" (`SegsP P`),
instantiated in `ExtInv.lean` with `KeysFor` (→ `KeysInv`) and `TimesFor` (→ `TimesInv`).

`P recs items` must hold of the empty index, be compatible with appending a stamped
batch, and hold of every index the rebuild paths (`derive`: missing index file, rewrite,
migrate, recover) produce for the records of a segment or a sublist of them (`SegDer`).
-/
import Klev.Proofs.ExtSteps
import Klev.Proofs.IdxExtra
namespace Klev

/-- `P` holds of every index (loaded, file) of every segment. `KeysInv` and `TimesInv` are
instances (by definition). -/
def SegsP (P : List Msg → List Item → Prop) (l : Log) : Prop := ∀ s ∈ l.segs, SegP P s

/-- Every rebuilt index over (a sublist of) these records satisfies `P`. -/
def SegDer (P : List Msg → List Item → Prop) (p : Params) (recs : List Msg) : Prop :=
  ∀ v sub, sub.Sublist recs → P sub (derive p v sub)

/-- The index configuration a reopen uses is the one the log was created with. -/
def OpParams (p : Params) : Op → Prop
  | .reopen _ _ _ oo => oo.opts.params = p
  | _ => True

/-- The index configuration never changes along the history. -/
def SameParams (p : Params) : List Op → Prop
  | [] => True
  | op :: rest => OpParams p op ∧ SameParams p rest

/-! ### options along a history -/

theorem consume_opts (l : Log) (off : Int) (mc : Nat) : (l.consume off mc).1.opts = l.opts := by
  unfold Log.consume
  split
  · rfl
  · next i _ =>
    cases hw : withIndex l i.toNat with
    | none => rfl
    | some r =>
      obtain ⟨l1, s, its, c⟩ := r
      have ho1 := (withIndex_forall (fun _ => True) l i.toNat (fun _ _ => trivial)
        (fun _ _ => trivial) hw).2
      simp only
      split
      · split
        · cases hw2 : withIndex l1 (i.toNat + 1) with
          | none => exact ho1
          | some r2 =>
            obtain ⟨l2, s2, its2, c2⟩ := r2
            exact ((withIndex_forall (fun _ => True) l1 (i.toNat + 1) (fun _ _ => trivial)
              (fun _ _ => trivial) hw2).2).trans ho1
        · exact ho1
      · exact ho1

theorem get_opts (l : Log) (off : Int) : (l.get off).1.opts = l.opts := by
  unfold Log.get
  split
  · rfl
  · rfl
  · rfl
  · next i _ =>
    cases hw : withIndex l i.toNat with
    | none => rfl
    | some r =>
      obtain ⟨l1, s, its, c⟩ := r
      have ho1 := (withIndex_forall (fun _ => True) l i.toNat (fun _ _ => trivial)
        (fun _ _ => trivial) hw).2
      simp only
      split
      · split <;> exact ho1
      · split
        · cases hw2 : withIndex l1 (i.toNat - 1) with
          | none => exact ho1
          | some r2 =>
            obtain ⟨l2, s2, its2, c2⟩ := r2
            exact ((withIndex_forall (fun _ => True) l1 (i.toNat - 1) (fun _ _ => trivial)
              (fun _ _ => trivial) hw2).2).trans ho1
        · exact ho1
      · exact ho1

theorem publish_opts (l : Log) (b : List (Int × List UInt8 × List UInt8)) :
    (l.publish b).1.opts = l.opts := by
  unfold Log.publish
  split
  · rfl
  · cases hl : l.rollover.segs.getLast? with
    | none => rw [append_none _ hl]; exact (rollover_facts l).1
    | some h => rw [(append_some _ h hl b).1]; exact (rollover_facts l).1

theorem open_opts (d : List SegDisk) (oo : OpenOpts) (l' : Log) (h : Log.open d oo = .ok l') :
    l'.opts = oo.opts := by
  unfold Log.open at h
  simp only at h
  split at h
  · split at h
    · simp only [Out.ok.injEq] at h; subst h; rfl
    · split at h
      · simp at h
      · simp only [Out.ok.injEq] at h; subst h; rfl
  · split at h
    · simp only [Out.ok.injEq] at h; subst h; rfl
    · split at h
      · simp at h
      · split at h
        · simp at h
        · simp only [Out.ok.injEq] at h; subst h; rfl

/-- A step keeps the index configuration when a reopen does. -/
theorem step_params (l : Log) (op : Op) (hpar : OpParams l.opts.params op) :
    (stepOp l op).opts.params = l.opts.params := by
  cases op with
  | publish b => simp only [stepOp]; rw [publish_opts]
  | delete o => simp only [stepOp]; rw [delete_opts]
  | consume off mc => simp only [stepOp]; rw [consume_opts]
  | get off => simp only [stepOp]; rw [get_opts]
  | gc => rfl
  | reopen rm mig rec oo =>
    simp only [stepOp]
    cases ho : Log.open (closedDisk l rm mig rec) oo with
    | err e => rfl
    | ok l' =>
      simp only
      rw [open_opts _ _ _ ho]
      exact hpar

theorem run_params (l : Log) (ops : List Op) (hsame : SameParams l.opts.params ops) :
    (runOps l ops).opts.params = l.opts.params := by
  induction ops generalizing l with
  | nil => rfl
  | cons op rest ih =>
    obtain ⟨h1, h2⟩ := hsame
    have hs := step_params l op h1
    simp only [runOps]
    rw [ih (stepOp l op) (by rw [hs]; exact h2), hs]

/-! ### `openWriter` -/

theorem reindexAndRead_P (P : List Msg → List Item → Prop) (p : Params) (want : Ver) (s : Seg)
    (hidx : ∀ f, s.idxf = some f → P s.recs f.items)
    (hder : P s.recs (derive p s.ver s.recs)) :
    ∃ f, (reindexAndRead p want s).2 = some f ∧ f.items = (reindexAndRead p want s).1 ∧
      P s.recs f.items := by
  unfold reindexAndRead
  by_cases hr : needsReindex s = true
  · simp only [hr, if_true]
    exact ⟨_, rfl, rfl, hder⟩
  · simp only [hr, Bool.false_eq_true, if_false]
    cases hf : s.idxf with
    | none => simp [needsReindex, hf] at hr
    | some f => exact ⟨f, rfl, rfl, hidx f hf⟩

/-- The head `openWriter` produces: both its indexes satisfy `P` when the index file (if
any) and the rebuilt index do. -/
theorem openWriter_segP (P : List Msg → List Item → Prop) (hnil : P [] []) (o : Opts) (s : Seg)
    (nt : Int) (hidx : ∀ f, s.idxf = some f → P s.recs f.items)
    (hder : P s.recs (derive o.params s.ver s.recs)) :
    SegP P (openWriter o s nt).1 := by
  by_cases hre : s.recs = []
  · have hidx' : ∀ f, s.idxf = some f → P [] f.items := by
      intro f hf; have := hidx f hf; rw [hre] at this; exact this
    unfold openWriter SegP
    simp only [hre, List.isEmpty_nil, true_and, if_true]
    cases hsi : s.idxf with
    | none =>
      refine ⟨?_, ?_⟩
      · intro its hi; simp only [Option.some.injEq] at hi; subst hi; exact hnil
      · intro f hf; simp only [Option.some.injEq] at hf; subst hf; exact hnil
    | some f0 =>
      have h0 := hidx' f0 hsi
      obtain ⟨fv, fi⟩ := f0
      cases fi with
      | nil =>
        cases fv with
        | v1 =>
          refine ⟨?_, ?_⟩
          · intro its hi; simp only [Option.some.injEq] at hi; subst hi; exact hnil
          · intro f hf; simp only [Option.some.injEq] at hf; subst hf; exact hnil
        | v2 =>
          refine ⟨?_, ?_⟩
          · intro its hi; simp only [Option.some.injEq] at hi; subst hi; exact hnil
          · intro f hf; simp only [Option.some.injEq] at hf; subst hf; exact hnil
      | cons a as =>
        refine ⟨?_, ?_⟩
        · intro its hi; simp only [Option.some.injEq] at hi; subst hi; exact hnil
        · intro f hf; simp only [Option.some.injEq] at hf; subst hf; exact h0
  · have hie := isEmpty_false_of_ne hre
    obtain ⟨f, hf, hfi, hPf⟩ := reindexAndRead_P P o.params o.nsv s hidx hder
    unfold openWriter SegP
    simp only [hie, Bool.false_eq_true, false_and, if_false, hf]
    refine ⟨?_, ?_⟩
    · intro its hi
      simp only [Option.some.injEq] at hi
      subst hi
      rw [← hfi]; exact hPf
    · obtain ⟨fv, fi⟩ := f
      simp only at hPf
      cases fi with
      | nil =>
        cases fv with
        | v1 => intro f' hf'; simp only [Option.some.injEq] at hf'; subst hf'; exact hPf
        | v2 => intro f' hf'; simp only [Option.some.injEq] at hf'; subst hf'; exact hPf
      | cons a as =>
        intro f' hf'; simp only [Option.some.injEq] at hf'; subst hf'; exact hPf

/-! ### the step theorem -/

theorem segP_fresh (P : List Msg → List Item → Prop) (hnil : P [] []) (o : Opts) (b : Int) :
    SegP P (freshSeg o b) := by
  refine ⟨?_, ?_⟩
  · intro its hi; simp only [freshSeg, Option.some.injEq] at hi; subst hi; exact hnil
  · intro f hf; simp only [freshSeg, Option.some.injEq] at hf; subst hf; exact hnil

/-- **Generic step theorem**: every API step keeps "every index satisfies `P`". -/
theorem segsP_step (P : List Msg → List Item → Prop) (hnil : P [] [])
    (happ : ∀ r1 i1 r2 i2, P r1 i1 → P r2 i2 → P (r1 ++ r2) (i1 ++ i2))
    (l : Log) (hinv : Inv l) (hP : SegsP P l)
    (hder : ∀ s ∈ l.segs, SegDer P l.opts.params s.recs) (op : Op)
    (hpar : OpParams l.opts.params op)
    (hst : ∀ b, op = .publish b → l.opts.readonly = false → ∀ v pos,
      P (stamp l.opts.params v l.wNextOff pos l.wNextTime b).1
        (stamp l.opts.params v l.wNextOff pos l.wNextTime b).2) :
    SegsP P (stepOp l op) := by
  cases op with
  | publish b =>
    simp only [stepOp]
    unfold Log.publish
    cases hro : l.opts.readonly with
    | true => simpa using hP
    | false =>
      simp only [Bool.false_eq_true, if_false]
      obtain ⟨ho1, hoff1, htime1, hsegs1⟩ := rollover_facts l
      have hP1 : ∀ s ∈ l.rollover.segs, SegP P s := by
        rcases hsegs1 with h | h
        · rw [h]; exact hP
        · rw [h]
          intro s hs
          rcases List.mem_append.mp hs with h1 | h1
          · exact hP s h1
          · simp only [List.mem_singleton] at h1
            subst h1
            exact segP_fresh P hnil _ _
      refine append_forall (SegP P) l.rollover b hP1 ?_
      intro h hl
      have hmem : h ∈ l.rollover.segs := List.mem_of_getLast? hl
      have hstamp := hst b rfl hro h.ver (logSize h.ver h.recs)
      rw [ho1, hoff1, htime1]
      generalize stamp l.opts.params h.ver l.wNextOff (logSize h.ver h.recs) l.wNextTime b = st
        at hstamp
      obtain ⟨hm1, hm2⟩ := hP1 h hmem
      refine ⟨?_, ?_⟩
      · intro its hi
        show P (h.recs ++ st.1) its
        have hi' : h.mem.map (· ++ st.2) = some its := hi
        cases hm : h.mem with
        | none => rw [hm] at hi'; simp at hi'
        | some its0 =>
          rw [hm] at hi'
          simp only [Option.map_some, Option.some.injEq] at hi'
          subst hi'
          exact happ _ _ _ _ (hm1 its0 hm) hstamp
      · intro f hf
        show P (h.recs ++ st.1) f.items
        have hf' : h.idxf.map (fun f => { f with items := f.items ++ st.2 }) = some f := hf
        cases hx : h.idxf with
        | none => rw [hx] at hf'; simp at hf'
        | some f0 =>
          rw [hx] at hf'
          simp only [Option.map_some, Option.some.injEq] at hf'
          subst hf'
          exact happ _ _ _ _ (hm2 f0 hx) hstamp
  | delete o =>
    simp only [stepOp]
    refine delete_forall (SegP P) l o hP (segP_fresh P hnil _ _) ?_
    intro s hs mv hne
    have hd : P (rewrite l.opts.params s o mv mv).survive
        (derive l.opts.params mv (rewrite l.opts.params s o mv mv).survive) :=
      hder s hs mv _ List.filter_sublist
    have h1 : SegP P (rewrittenSeg l.opts.params (rewrite l.opts.params s o mv mv)) := by
      refine ⟨?_, ?_⟩
      · intro its hi; simp [rewrittenSeg] at hi
      · intro f hf
        simp only [rewrittenSeg, Option.some.injEq] at hf
        subst hf
        exact hd
    refine ⟨h1, ?_⟩
    rw [openWriter_rewritten_eq l.opts _ l.wNextTime hne]
    refine ⟨?_, h1.2⟩
    intro its hi
    simp only [Option.some.injEq] at hi
    subst hi
    exact hd
  | consume off mc =>
    simp only [stepOp]
    have hcl : ∀ s, (SegP P s ∧ SegDer P l.opts.params s.recs) →
        (SegP P (loadIndex l.opts s).1 ∧ SegDer P l.opts.params (loadIndex l.opts s).1.recs) := by
      intro s ⟨h1, h2⟩
      rw [(loadIndex_base_recs l.opts s).2.1]
      exact ⟨(loadIndex_P P l.opts s (h2 _ _ (List.Sublist.refl _)) h1).2, h2⟩
    intro s hs
    exact (consume_forall (fun s => SegP P s ∧ SegDer P l.opts.params s.recs) l off mc hcl
      (fun s hs => ⟨hP s hs, hder s hs⟩) s hs).1
  | get off =>
    simp only [stepOp]
    have hcl : ∀ s, (SegP P s ∧ SegDer P l.opts.params s.recs) →
        (SegP P (loadIndex l.opts s).1 ∧ SegDer P l.opts.params (loadIndex l.opts s).1.recs) := by
      intro s ⟨h1, h2⟩
      rw [(loadIndex_base_recs l.opts s).2.1]
      exact ⟨(loadIndex_P P l.opts s (h2 _ _ (List.Sublist.refl _)) h1).2, h2⟩
    intro s hs
    exact (get_forall (fun s => SegP P s ∧ SegDer P l.opts.params s.recs) l off hcl
      (fun s hs => ⟨hP s hs, hder s hs⟩) s hs).1
  | gc =>
    simp only [stepOp]
    refine gc_forall (SegP P) l ?_ hP
    intro s h
    exact ⟨by intro its hi; simp at hi, h.2⟩
  | reopen rm mig rec oo =>
    simp only [stepOp]
    have hpar' : oo.opts.params = l.opts.params := hpar
    cases ho : Log.open (closedDisk l rm mig rec) oo with
    | err e => exact hP
    | ok l' =>
      simp only
      have hmigk : ∀ (a : Ver) (sd : SegDisk),
          ((∀ f, sd.idxf = some f → P sd.recs f.items) ∧ SegDer P l.opts.params sd.recs) →
          ((∀ f, (segMigrate l.opts.params a a sd).idxf = some f →
              P (segMigrate l.opts.params a a sd).recs f.items) ∧
            SegDer P l.opts.params (segMigrate l.opts.params a a sd).recs) := by
        intro a sd h
        unfold segMigrate
        split
        · exact h
        · refine ⟨?_, h.2⟩
          intro f hf
          simp only [Option.some.injEq] at hf
          subst hf
          exact h.2 _ _ (List.Sublist.refl _)
      have hreck : ∀ (sd : SegDisk),
          ((∀ f, sd.idxf = some f → P sd.recs f.items) ∧ SegDer P l.opts.params sd.recs) →
          ((∀ f, (segRecover l.opts.params sd).idxf = some f →
              P (segRecover l.opts.params sd).recs f.items) ∧
            SegDer P l.opts.params (segRecover l.opts.params sd).recs) := by
        intro sd h
        unfold segRecover
        split
        · exact h
        · split
          · exact h
          · refine ⟨?_, h.2⟩
            intro f hf
            simp only [Option.some.injEq] at hf
            subst hf
            exact h.2 _ _ (List.Sublist.refl _)
      refine open_forall
        (fun sd => (∀ f, sd.idxf = some f → P sd.recs f.items) ∧ SegDer P l.opts.params sd.recs)
        (SegP P) (closedDisk l rm mig rec) oo l' ho (closedDisk_ne l hinv rm mig rec) ?_
        (by rw [hpar']; exact hreck) (by rw [hpar']; exact hmigk _) ?_ ?_
      · exact closedDisk_forall _ l rm mig rec (fun s hs => ⟨(hP s hs).2, hder s hs⟩)
          (fun sd h => ⟨by intro f hf; simp at hf, h.2⟩) hmigk hreck
      · intro sd h
        exact ⟨by intro its hi; simp [SegDisk.toSeg] at hi, h.1⟩
      · intro sd h
        refine openWriter_segP P hnil oo.opts sd.toSeg 0 h.1 ?_
        rw [hpar']
        exact h.2 _ _ (List.Sublist.refl _)

/-- Open on an empty directory: every index is empty. -/
theorem segsP_open_empty (P : List Msg → List Item → Prop) (hnil : P [] []) (oo : OpenOpts)
    (l0 : Log) (h : Log.open [] oo = .ok l0) : SegsP P l0 := by
  unfold Log.open at h
  simp only [List.getLast?_nil, openWriter_fresh] at h
  split at h
  · simp only [Out.ok.injEq] at h
    subst h
    intro s hs
    simp only [List.mem_singleton] at hs
    subst hs
    refine ⟨?_, ?_⟩
    · intro its hi; simp only [Option.some.injEq] at hi; subst hi; exact hnil
    · intro f hf; simp [emptySeg] at hf
  · simp only [Out.ok.injEq] at h
    subst h
    intro s hs
    simp only [List.mem_singleton] at hs
    subst hs
    exact segP_fresh P hnil _ _

end Klev
