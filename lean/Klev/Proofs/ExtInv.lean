/-
The side conditions of the key and time lookups (`KeysInv`, `TimesInv`, `Spec.Monotone`,
`FirstAtBase` — hypotheses of `getByKey_ok`, `consumeByKey_ok`, `getByTime_ok`) are
invariants of the API. Entry point; the development is in

* `ExtSteps.lean` — which segments a log holds after each step, in terms of those before;
* `ExtFab.lean`   — A. `FirstAtBase` (`firstAtBase_step`, `firstAtBase_open_empty`,
                    `firstAtBase_run`);
* `ExtIdx.lean`   — the generic step theorem `segsP_step` for "every index satisfies `P`",
                    `SameParams`, `step_params`, `run_params`;
* `ExtRun.lean`   — B. `KeysInv` (`keysInv_step`, `keysInv_run`), C. `TimesInv`/`Monotone`
                    (`timesInv_step`, `monotone_step`, `times_run`, `timeCarry_step`,
                    `timesOKRun_of_pubMono`), D. the lookups on reachable states
                    (`getByKey_ok_run`, `consumeByKey_ok_run`, `getByTime_ok_run`,
                    `getByTime_ok_mono`);
* `ExtReads.lean` — the same with the lookups themselves as steps of the history
                    (`Good`, `good_runX`, `lookups_ok_runX`, `lookups_ok_monoX`).

Below: why the publish hypothesis has to mention the writer's `nextTime`.
-/
import Klev.Proofs.ExtReads
namespace Klev

/-! ### the publish hypothesis cannot be weakened to the live messages

Time index on. Publish one message with time 10, delete it (the head is emptied; the
writer's `nextTime` stays 10), publish one message with time 7. At the third step the
batch is sorted, non-negative and at or after every live time (there is none), and the
content stays `Monotone` — yet the stamped index timestamp is `max 7 10 = 10`, `TimesInv`
fails and `GetByTime 8` answers with the message of time 7 where the specification says
"not found". `PubTimesOK` excludes the history (7 < `wNextTime` = 10), as does `PubMono`. -/

def cxOpen : OpenOpts := ⟨⟨false, ⟨true, false⟩, false, 1000, .v2, false⟩, false, false, false⟩

def cxOps : List Op := [.publish [(10, [], [])], .delete [0], .publish [(7, [], [])]]

def cxStart : Log :=
  match Log.open [] cxOpen with
  | .ok l => l
  | .err _ => default

theorem cx_start : Log.open [] cxOpen = .ok cxStart := by decide

/-- Before the last publish: nothing is live, the writer still remembers time 10. -/
theorem cx_before : (abs (runOps cxStart (cxOps.take 2))).live = [] ∧
    (runOps cxStart (cxOps.take 2)).wNextTime = 10 := by decide

theorem cx_monotone : Spec.Monotone (abs (runOps cxStart cxOps)) := by decide

/-- The head's record has time 7, its index item timestamp 10. -/
theorem cx_index : (runOps cxStart cxOps).segs.map
    (fun s => (s.recs.map (·.time), s.mem.map (·.map (·.ts)))) = [([7], some [10])] := by decide

theorem cx_not_timesInv : ¬ TimesInv (runOps cxStart cxOps) := by
  intro h
  have hseg : ∃ s, s ∈ (runOps cxStart cxOps).segs ∧ s.recs.map (·.time) = [7] ∧
      s.mem.map (·.map (·.ts)) = some [10] := by decide
  obtain ⟨s, hs, h1, h2⟩ := hseg
  cases hm : s.mem with
  | none => rw [hm] at h2; simp at h2
  | some its =>
    rw [hm] at h2
    simp only [Option.map_some, Option.some.injEq] at h2
    have := (h s hs).1 its hm
    unfold TimesFor at this
    rw [h1, h2] at this
    exact absurd this (by decide)

theorem cx_getByTime : ¬ Spec.GetByTimeOK true (abs (runOps cxStart cxOps)) 8
    ((runOps cxStart cxOps).getByTime 8).2 := by decide

end Klev

#print axioms Klev.firstAtBase_step
#print axioms Klev.firstAtBase_open_empty
#print axioms Klev.firstAtBase_run
#print axioms Klev.segsP_step
#print axioms Klev.step_params
#print axioms Klev.run_params
#print axioms Klev.keysInv_step
#print axioms Klev.keysInv'_step
#print axioms Klev.keysInv_open_empty
#print axioms Klev.keysInv_run
#print axioms Klev.keysInv'_run
#print axioms Klev.getByKey_ok_run
#print axioms Klev.consumeByKey_ok_run
#print axioms Klev.monotone_step
#print axioms Klev.timesInv_step
#print axioms Klev.timesInv_open_empty
#print axioms Klev.times_run
#print axioms Klev.getByTime_ok_run
#print axioms Klev.timeCarry_step
#print axioms Klev.timesOKRun_of_pubMono
#print axioms Klev.getByTime_ok_mono
#print axioms Klev.Good.loads
#print axioms Klev.Good.step
#print axioms Klev.Good.lookups
#print axioms Klev.good_runX
#print axioms Klev.lookups_ok_runX
#print axioms Klev.lookups_ok_monoX
#print axioms Klev.cx_not_timesInv
#print axioms Klev.cx_getByTime
