/-
Histories that also contain the lookups. `GetByKey`, `ConsumeByKey` and `GetByTime` change
the state (they load indexes), and `Reach.Op` does not list them; here they are added
(`OpX`) and every invariant — `Inv`, `FirstAtBase`, `KeysInv`, `TimesInv`, `Monotone`, the
time carry — is shown to survive them, so the refinement theorems of all three lookups
hold in every state reachable by publishes, deletes, reads, lookups, GC and reopens.
-/
import Klev.Proofs.ExtRun
namespace Klev

/-! ### a state obtained by loading indexes -/

/-- `l'` is `l` after a sequence of `withIndex` loads. -/
inductive Loads : Log → Log → Prop
  | refl (l : Log) : Loads l l
  | step {l l1 l2 : Log} {s : Seg} {its : List Item} {c : RCtx} (i : Nat)
      (hw : withIndex l i = some (l1, s, its, c)) (h : Loads l1 l2) : Loads l l2

theorem Loads.forall (Q : Seg → Prop) (o : Opts) (hcl : ∀ s, Q s → Q (loadIndex o s).1)
    {l l' : Log} (h : Loads l l') : l.opts = o → (∀ s ∈ l.segs, Q s) →
    (∀ s ∈ l'.segs, Q s) ∧ l'.opts = o := by
  induction h with
  | refl l => intro ho hQ; exact ⟨hQ, ho⟩
  | step i hw _ ih =>
    intro ho hQ
    obtain ⟨hQ1, ho1⟩ := withIndex_forall Q _ i (by rw [ho]; exact hcl) hQ hw
    exact ih (ho1.trans ho) hQ1

theorem Loads.loaded {l l' : Log} (h : Loads l l') : Inv l → Loaded l l' := by
  induction h with
  | refl l => intro hinv; exact Loaded.refl hinv
  | step i hw _ ih =>
    intro hinv
    rcases withIndex_loaded _ i hinv with ⟨hn, _⟩ | ⟨l1', s', its', c', hw', hl1⟩
    · rw [hn] at hw; simp at hw
    · rw [hw'] at hw
      simp only [Option.some.injEq, Prod.mk.injEq] at hw
      obtain ⟨rfl, _, _, _⟩ := hw
      exact hl1.trans (ih hl1.inv)

/-- Loading keeps "every index satisfies `P`" when rebuilt indexes satisfy it. -/
theorem Loads.segsP (P : List Msg → List Item → Prop) {l l' : Log} (h : Loads l l')
    (hP : SegsP P l) (hder : ∀ s ∈ l.segs, SegDer P l.opts.params s.recs) : SegsP P l' := by
  have hcl : ∀ s, (SegP P s ∧ SegDer P l.opts.params s.recs) →
      (SegP P (loadIndex l.opts s).1 ∧ SegDer P l.opts.params (loadIndex l.opts s).1.recs) := by
    intro s ⟨h1, h2⟩
    rw [(loadIndex_base_recs l.opts s).2.1]
    exact ⟨(loadIndex_P P l.opts s (h2 _ _ (List.Sublist.refl _)) h1).2, h2⟩
  intro s hs
  exact ((h.forall (fun s => SegP P s ∧ SegDer P l.opts.params s.recs) l.opts hcl rfl
    (fun s hs => ⟨hP s hs, hder s hs⟩)).1 s hs).1

theorem Loads.fab {l l' : Log} (h : Loads l l') (hf : FirstAtBase l) : FirstAtBase l' :=
  (h.forall FabSeg l.opts
    (fun s hs => fabSeg_of_eq (loadIndex_base_recs l.opts s).1 (loadIndex_base_recs l.opts s).2.1 hs)
    rfl hf).1

theorem Loads.opts {l l' : Log} (h : Loads l l') : l'.opts = l.opts :=
  (h.forall (fun _ => True) l.opts (fun _ _ => trivial) rfl (fun _ _ => trivial)).2

/-! ### the lookups only load indexes -/

theorem getByKey_go_loads (key : List UInt8) :
    ∀ (i : Nat) (l : Log), Loads l (Log.getByKey.go key l i).1 := by
  intro i
  induction i with
  | zero => intro l; rw [Log.getByKey.go.eq_1]; exact .refl l
  | succ i ih =>
    intro l
    rw [Log.getByKey.go.eq_2]
    cases hw : withIndex l i with
    | none => exact .refl l
    | some r =>
      obtain ⟨l1, s, its, c⟩ := r
      simp only
      split
      · exact .step i hw (.refl _)
      · exact .step i hw (ih l1)
      · exact .step i hw (.refl _)

theorem getByKey_loads (l : Log) (key : List UInt8) : Loads l (l.getByKey key).1 := by
  unfold Log.getByKey
  split
  · exact .refl l
  · exact getByKey_go_loads key _ l

theorem consumeByKey_go_loads (key : List UInt8) (mc : Int) :
    ∀ (fuel : Nat) (l : Log) (i : Nat) (off : Int),
      Loads l (Log.consumeByKey.go key mc l i off fuel).1 := by
  intro fuel
  induction fuel with
  | zero => intro l i off; rw [Log.consumeByKey.go.eq_1]; exact .refl l
  | succ fuel ih =>
    intro l i off
    rw [Log.consumeByKey.go.eq_2]
    cases hw : withIndex l i with
    | none => exact .refl l
    | some r =>
      obtain ⟨l1, s, its, c⟩ := r
      simp only
      split
      · split
        · exact .step i hw (.refl _)
        · split
          · exact .step i hw (.refl _)
          · exact .step i hw (ih l1 _ _)
      · exact .step i hw (.refl _)

theorem consumeByKey_loads (l : Log) (key : List UInt8) (off mc : Int) :
    Loads l (l.consumeByKey key off mc).1 := by
  unfold Log.consumeByKey
  split
  · exact .refl l
  · split
    · exact .refl l
    · exact consumeByKey_go_loads key mc _ l _ _

theorem getByTime_go_loads (t : Int) (n : Nat) :
    ∀ (i : Nat) (l : Log), Loads l (Log.getByTime.go t n l i).1 := by
  intro i
  induction i with
  | zero => intro l; rw [Log.getByTime.go.eq_1]; exact .refl l
  | succ i ih =>
    intro l
    rw [Log.getByTime.go.eq_2]
    cases hw : withIndex l i with
    | none => exact .refl l
    | some r =>
      obtain ⟨l1, s, its, c⟩ := r
      simp only
      split
      · split
        · exact .step i hw (ih l1)
        · exact .step i hw (.refl _)
      · split
        · exact .step i hw (.refl _)
        · exact .step i hw (ih l1)
      · split
        · exact .step i hw (.refl _)
        · exact .step i hw (ih l1)
      · split
        · cases hw2 : withIndex l1 (i + 1) with
          | none => exact .step i hw (.refl _)
          | some r2 =>
            obtain ⟨l2, s2, its2, c2⟩ := r2
            simp only
            split <;> exact .step i hw (.step (i + 1) hw2 (.refl _))
        · exact .step i hw (.refl _)
      · exact .step i hw (.refl _)

theorem getByTime_loads (l : Log) (t : Int) : Loads l (l.getByTime t).1 := by
  unfold Log.getByTime
  split
  · exact .refl l
  · exact getByTime_go_loads t _ _ l

/-! ### everything the lookups need, as one invariant -/

/-- All side conditions of the lookups' refinement theorems. -/
structure Good (l : Log) : Prop where
  inv : Inv l
  fab : FirstAtBase l
  keys : l.opts.params.keys = true → KeysInv l
  times : l.opts.params.times = true → TimesInv l ∧ Spec.Monotone (abs l)

/-- Loading indexes keeps `Good`. -/
theorem Good.loads {l l' : Log} (hg : Good l) (h : Loads l l') : Good l' := by
  have hl := h.loaded hg.inv
  refine ⟨hl.inv, h.fab hg.fab, ?_, ?_⟩
  · intro hk
    rw [hl.opts] at hk
    exact h.segsP KeysFor (hg.keys hk) (fun _ _ _ _ _ => derive_keysFor _ _ _ hk)
  · intro hp
    rw [hl.opts] at hp
    obtain ⟨hti, hm⟩ := hg.times hp
    exact ⟨h.segsP TimesFor hti (segDer_times l hp hm), by rw [hl.abs]; exact hm⟩

/-- **Every API step keeps `Good`** (a reopen keeps the index configuration; a Publish
satisfies `PubTimesOK` when the time index is configured). -/
theorem Good.step {l : Log} (hg : Good l) (op : Op) (hpar : OpParams l.opts.params op)
    (hpub : l.opts.params.times = true → PubTimesOK l op) : Good (stepOp l op) := by
  refine ⟨(step_inv_abs l hg.inv op).1, firstAtBase_step l hg.inv hg.fab op,
    keysInv'_step l hg.inv hg.keys op hpar, ?_⟩
  intro hp
  rw [step_params l op hpar] at hp
  obtain ⟨hti, hm⟩ := hg.times hp
  exact ⟨timesInv_step l hg.inv hp hti hm op hpar (hpub hp), monotone_step l hg.inv hm op (hpub hp)⟩

theorem good_open_empty (oo : OpenOpts) (l0 : Log) (h : Log.open [] oo = .ok l0) : Good l0 := by
  obtain ⟨hinv, habs, _⟩ := open_empty_unique oo l0 h
  exact ⟨hinv, firstAtBase_open_empty oo l0 h, fun _ => keysInv_open_empty oo l0 h,
    fun _ => ⟨timesInv_open_empty oo l0 h, by rw [habs]; exact monotone_empty⟩⟩

/-- **All three lookups are correct on a `Good` state.** -/
theorem Good.lookups {l : Log} (hg : Good l) :
    (∀ key, Spec.GetByKeyOK l.opts.params.keys (abs l) key (l.getByKey key).2) ∧
    (∀ key off mc, Spec.ConsumeByKeyOK l.opts.params.keys (abs l) key off mc
      (l.consumeByKey key off mc).2) ∧
    (∀ t, Spec.GetByTimeOK l.opts.params.times (abs l) t (l.getByTime t).2) := by
  refine ⟨fun key => getByKey_ok' l hg.inv hg.keys key,
    fun key off mc => consumeByKey_ok' l hg.inv hg.keys key off mc, ?_⟩
  intro t
  by_cases hp : l.opts.params.times = true
  · obtain ⟨hti, hm⟩ := hg.times hp
    exact getByTime_ok l hg.inv hti hm hg.fab t
  · unfold Spec.GetByTimeOK Log.getByTime
    simp [hp]

/-! ### histories with lookups -/

inductive OpX where
  | op (o : Op)
  | getByKey (key : List UInt8)
  | consumeByKey (key : List UInt8) (off mc : Int)
  | getByTime (t : Int)

def stepX (l : Log) : OpX → Log
  | .op o => stepOp l o
  | .getByKey key => (l.getByKey key).1
  | .consumeByKey key off mc => (l.consumeByKey key off mc).1
  | .getByTime t => (l.getByTime t).1

def runX (l : Log) : List OpX → Log
  | [] => l
  | x :: rest => runX (stepX l x) rest

def OpParamsX (p : Params) : OpX → Prop
  | .op o => OpParams p o
  | _ => True

def SameParamsX (p : Params) : List OpX → Prop
  | [] => True
  | x :: rest => OpParamsX p x ∧ SameParamsX p rest

def PubTimesOKX (l : Log) : OpX → Prop
  | .op o => PubTimesOK l o
  | _ => True

def TimesOKRunX (l : Log) : List OpX → Prop
  | [] => True
  | x :: rest => PubTimesOKX l x ∧ TimesOKRunX (stepX l x) rest

/-- A lookup step only loads indexes. -/
theorem stepX_loads (l : Log) (x : OpX) : (∃ o, x = .op o) ∨ Loads l (stepX l x) := by
  cases x with
  | op o => exact Or.inl ⟨o, rfl⟩
  | getByKey key => exact Or.inr (getByKey_loads l key)
  | consumeByKey key off mc => exact Or.inr (consumeByKey_loads l key off mc)
  | getByTime t => exact Or.inr (getByTime_loads l t)

theorem stepX_params (l : Log) (x : OpX) (hpar : OpParamsX l.opts.params x) :
    (stepX l x).opts.params = l.opts.params := by
  rcases stepX_loads l x with ⟨o, rfl⟩ | h
  · exact step_params l o hpar
  · rw [h.opts]

/-- **Every step of an extended history keeps `Good`.** -/
theorem Good.stepX {l : Log} (hg : Good l) (x : OpX) (hpar : OpParamsX l.opts.params x)
    (hpub : l.opts.params.times = true → PubTimesOKX l x) : Good (stepX l x) := by
  rcases stepX_loads l x with ⟨o, rfl⟩ | h
  · exact hg.step o hpar hpub
  · exact hg.loads h

/-- **`Good` holds along every extended history** that keeps the index configuration and
whose publishes satisfy `PubTimesOK` (asked only when the time index is configured). -/
theorem good_runX (l : Log) (hg : Good l) (xs : List OpX) (hsame : SameParamsX l.opts.params xs)
    (hok : l.opts.params.times = true → TimesOKRunX l xs) : Good (runX l xs) := by
  induction xs generalizing l with
  | nil => exact hg
  | cons x rest ih =>
    obtain ⟨h1, h2⟩ := hsame
    have hs := stepX_params l x h1
    refine ih (stepX l x) (hg.stepX x h1 (fun hp => (hok hp).1)) (by rw [hs]; exact h2) ?_
    intro hp
    rw [hs] at hp
    exact (hok hp).2

/-- **C09 and C10 on every reachable state**, lookups included in the history. -/
theorem lookups_ok_runX (oo : OpenOpts) (xs : List OpX) (hsame : SameParamsX oo.opts.params xs) :
    ∀ l0, Log.open [] oo = .ok l0 → (oo.opts.params.times = true → TimesOKRunX l0 xs) →
    (∀ key, Spec.GetByKeyOK (runX l0 xs).opts.params.keys (abs (runX l0 xs)) key
      ((runX l0 xs).getByKey key).2) ∧
    (∀ key off mc, Spec.ConsumeByKeyOK (runX l0 xs).opts.params.keys (abs (runX l0 xs)) key off mc
      ((runX l0 xs).consumeByKey key off mc).2) ∧
    (∀ t, Spec.GetByTimeOK (runX l0 xs).opts.params.times (abs (runX l0 xs)) t
      ((runX l0 xs).getByTime t).2) := by
  intro l0 ho hok
  obtain ⟨_, _, hopts⟩ := open_empty_unique oo l0 ho
  exact (good_runX l0 (good_open_empty oo l0 ho) xs (by rw [hopts]; exact hsame)
    (by rw [hopts]; exact hok)).lookups

/-! ### monotone extended histories -/

def hwNextX (hw : Int) : OpX → Int
  | .op o => hwNext hw o
  | _ => hw

def PubMonoOpX (hw : Int) : OpX → Prop
  | .op o => PubMonoOp hw o
  | _ => True

/-- The published times never decrease along the extended history, starting from `hw`. -/
def PubMonoX (hw : Int) : List OpX → Prop
  | [] => True
  | x :: rest => PubMonoOpX hw x ∧ PubMonoX (hwNextX hw x) rest

theorem timeCarry_stepX (l : Log) (hg : Good l) (hp : l.opts.params.times = true) (hw : Int)
    (hc : TimeCarry l hw) (x : OpX) (hpar : OpParamsX l.opts.params x)
    (hmono : PubMonoOpX hw x) : PubTimesOKX l x ∧ TimeCarry (stepX l x) (hwNextX hw x) := by
  cases x with
  | op o =>
    obtain ⟨hti, hm⟩ := hg.times hp
    exact timeCarry_step l hg.inv hp hti hm hw hc o hpar hmono
  | getByKey key =>
    have hl := (getByKey_loads l key).loaded hg.inv
    refine ⟨trivial, hc.1, ?_, ?_⟩
    · simp only [stepX]; rw [hl.nextTime]; exact hc.2.1
    · simp only [stepX]; rw [hl.abs]; exact hc.2.2
  | consumeByKey key off mc =>
    have hl := (consumeByKey_loads l key off mc).loaded hg.inv
    refine ⟨trivial, hc.1, ?_, ?_⟩
    · simp only [stepX]; rw [hl.nextTime]; exact hc.2.1
    · simp only [stepX]; rw [hl.abs]; exact hc.2.2
  | getByTime t =>
    have hl := (getByTime_loads l t).loaded hg.inv
    refine ⟨trivial, hc.1, ?_, ?_⟩
    · simp only [stepX]; rw [hl.nextTime]; exact hc.2.1
    · simp only [stepX]; rw [hl.abs]; exact hc.2.2

theorem timesOKRunX_of_pubMonoX (l : Log) (hg : Good l) (hp : l.opts.params.times = true)
    (hw : Int) (hc : TimeCarry l hw) (xs : List OpX) (hsame : SameParamsX l.opts.params xs)
    (hmono : PubMonoX hw xs) : TimesOKRunX l xs := by
  induction xs generalizing l hw with
  | nil => trivial
  | cons x rest ih =>
    obtain ⟨h1, h2⟩ := hsame
    obtain ⟨k1, k2⟩ := hmono
    obtain ⟨hpub, hc'⟩ := timeCarry_stepX l hg hp hw hc x h1 k1
    have hs := stepX_params l x h1
    exact ⟨hpub, ih (stepX l x) (hg.stepX x h1 (fun _ => hpub)) (by rw [hs]; exact hp)
      (hwNextX hw x) hc' (by rw [hs]; exact h2) k2⟩

/-- **C09 and C10 for monotone histories** (lookups included): the only conditions are on the
operation list — reopens keep the index configuration and, when the time index is
configured, published times are non-negative and never decrease. -/
theorem lookups_ok_monoX (oo : OpenOpts) (xs : List OpX) (hsame : SameParamsX oo.opts.params xs)
    (hmono : oo.opts.params.times = true → PubMonoX 0 xs) :
    ∀ l0, Log.open [] oo = .ok l0 →
    (∀ key, Spec.GetByKeyOK (runX l0 xs).opts.params.keys (abs (runX l0 xs)) key
      ((runX l0 xs).getByKey key).2) ∧
    (∀ key off mc, Spec.ConsumeByKeyOK (runX l0 xs).opts.params.keys (abs (runX l0 xs)) key off mc
      ((runX l0 xs).consumeByKey key off mc).2) ∧
    (∀ t, Spec.GetByTimeOK (runX l0 xs).opts.params.times (abs (runX l0 xs)) t
      ((runX l0 xs).getByTime t).2) := by
  intro l0 ho
  obtain ⟨_, habs, hopts⟩ := open_empty_unique oo l0 ho
  refine lookups_ok_runX oo xs hsame l0 ho ?_
  intro hp
  refine timesOKRunX_of_pubMonoX l0 (good_open_empty oo l0 ho) (by rw [hopts]; exact hp) 0 ?_ xs
    (by rw [hopts]; exact hsame) (hmono hp)
  refine ⟨Int.le_refl _, by rw [open_empty_time oo l0 ho]; exact Int.le_refl _, ?_⟩
  rw [habs]
  intro m hmm; cases hmm

end Klev
