/-
The side conditions of the key and time lookups are invariants of the API.

`getByKey_ok`, `consumeByKey_ok` and `getByTime_ok` take `KeysInv l`, `TimesInv l`,
`Spec.Monotone (abs l)` and `FirstAtBase l` as hypotheses. Here they are shown to hold
in every state a history (`runOps`) reaches from an empty directory:

* `FirstAtBase` — unconditionally (`ExtFab.lean`);
* `KeysInv` — when the key index is configured and stays configured across reopens
  (`SameParams`);
* `TimesInv` and `Monotone` — when the time index is configured and stays configured, and
  every published time is at or after the writer's `nextTime`, every live time and 0
  (`TimesOKRun`); a history whose published times never decrease (`PubMono`, a condition
  on the operation list alone) is such a history.

The lookups' refinement theorems then hold unconditionally of reachable states
(`getByKey_ok_run`, `consumeByKey_ok_run`, `getByTime_ok_run`, `getByTime_ok_mono`).
`ExtReads.lean` extends the histories with the lookups themselves (they load indexes).
-/
import Klev.Proofs.ExtFab
import Klev.Proofs.ExtIdx
import Klev.Proofs.KeyOK
import Klev.Proofs.TimeOK
namespace Klev

/-! ## B. `KeysInv` -/

theorem keysFor_nil : KeysFor [] [] := rfl

theorem keysFor_append (r1 : List Msg) (i1 : List Item) (r2 : List Msg) (i2 : List Item)
    (h1 : KeysFor r1 i1) (h2 : KeysFor r2 i2) : KeysFor (r1 ++ r2) (i1 ++ i2) := by
  unfold KeysFor at *
  rw [List.map_append, List.map_append, h1, h2]

/-- The items `writer.Publish` stamps carry the key hashes of the messages. -/
theorem stamp_keys (p : Params) (hk : p.keys = true) (v : Ver) :
    ∀ (b : List (Int × List UInt8 × List UInt8)) (off pos ts : Int),
      KeysFor (stamp p v off pos ts b).1 (stamp p v off pos ts b).2 := by
  intro b
  induction b with
  | nil => intro _ _ _; rfl
  | cons x rest ih =>
    intro off pos ts
    obtain ⟨t, k, vl⟩ := x
    have := ih (off + 1) (pos + recSize v ⟨off, t, k, vl⟩) (newItem p ⟨off, t, k, vl⟩ pos ts).ts
    unfold KeysFor at this ⊢
    simp only [stamp, List.map_cons, this]
    simp [newItem, hk]

/-- The key index is configured: then every index carries the key hashes. -/
def KeysInv' (l : Log) : Prop := l.opts.params.keys = true → KeysInv l

/-- **`KeysInv` is kept by every API step** (a reopen must keep the index configuration). -/
theorem keysInv_step (l : Log) (hinv : Inv l) (hk : l.opts.params.keys = true) (hki : KeysInv l)
    (op : Op) (hpar : OpParams l.opts.params op) : KeysInv (stepOp l op) :=
  segsP_step KeysFor keysFor_nil keysFor_append l hinv hki
    (fun _ _ _ _ _ => derive_keysFor _ _ _ hk) op hpar
    (fun b _ _ v _ => stamp_keys _ hk v b _ _ _)

theorem keysInv'_step (l : Log) (hinv : Inv l) (hki : KeysInv' l)
    (op : Op) (hpar : OpParams l.opts.params op) : KeysInv' (stepOp l op) := by
  intro hk
  rw [step_params l op hpar] at hk
  exact keysInv_step l hinv hk (hki hk) op hpar

theorem keysInv_open_empty (oo : OpenOpts) : ∀ l0, Log.open [] oo = .ok l0 → KeysInv l0 :=
  fun l0 h => segsP_open_empty KeysFor keysFor_nil oo l0 h

/-- **`KeysInv` holds along every history** that keeps the index configuration. -/
theorem keysInv'_run (l : Log) (hinv : Inv l) (hki : KeysInv' l) (ops : List Op)
    (hsame : SameParams l.opts.params ops) : KeysInv' (runOps l ops) := by
  induction ops generalizing l with
  | nil => exact hki
  | cons op rest ih =>
    obtain ⟨h1, h2⟩ := hsame
    exact ih (stepOp l op) (step_inv_abs l hinv op).1 (keysInv'_step l hinv hki op h1)
      (by rw [step_params l op h1]; exact h2)

theorem keysInv_run (l : Log) (hinv : Inv l) (hk : l.opts.params.keys = true) (hki : KeysInv l)
    (ops : List Op) (hsame : SameParams l.opts.params ops) : KeysInv (runOps l ops) :=
  keysInv'_run l hinv (fun _ => hki) ops hsame (by rw [run_params l ops hsame]; exact hk)

/-! ## D (keys). The key lookups on reachable states -/

/-- `getByKey_ok` needs `KeysInv` only when the key index is configured. -/
theorem getByKey_ok' (l : Log) (hinv : Inv l) (hki : KeysInv' l) (key : List UInt8) :
    Spec.GetByKeyOK l.opts.params.keys (abs l) key (l.getByKey key).2 := by
  by_cases hp : l.opts.params.keys = true
  · exact getByKey_ok l hinv (hki hp) key
  · unfold Spec.GetByKeyOK Log.getByKey
    simp [hp]

theorem consumeByKey_ok' (l : Log) (hinv : Inv l) (hki : KeysInv' l) (key : List UInt8)
    (off mc : Int) :
    Spec.ConsumeByKeyOK l.opts.params.keys (abs l) key off mc (l.consumeByKey key off mc).2 := by
  by_cases hp : l.opts.params.keys = true
  · exact consumeByKey_ok l hinv (hki hp) key off mc
  · unfold Spec.ConsumeByKeyOK Log.consumeByKey
    simp [hp]

/-- The state a history reaches from an empty directory. -/
theorem open_empty_unique (oo : OpenOpts) (l0 : Log) (h : Log.open [] oo = .ok l0) :
    Inv l0 ∧ abs l0 = ⟨[], 0⟩ ∧ l0.opts = oo.opts := by
  obtain ⟨l', ho, hinv, habs, hopts⟩ := open_empty oo
  rw [h] at ho
  simp only [Out.ok.injEq] at ho
  subst ho
  exact ⟨hinv, habs, hopts⟩

/-- **C09 on reachable states (GetByKey)**: after any history from an empty directory that
keeps the index configuration, `GetByKey` returns the last live message with the key. -/
theorem getByKey_ok_run (oo : OpenOpts) (ops : List Op) (hsame : SameParams oo.opts.params ops)
    (key : List UInt8) : ∀ l0, Log.open [] oo = .ok l0 →
    Spec.GetByKeyOK (runOps l0 ops).opts.params.keys (abs (runOps l0 ops)) key
      ((runOps l0 ops).getByKey key).2 := by
  intro l0 ho
  obtain ⟨hinv, _, hopts⟩ := open_empty_unique oo l0 ho
  exact getByKey_ok' _ (run_inv_abs l0 hinv ops).1
    (keysInv'_run l0 hinv (fun _ => keysInv_open_empty oo l0 ho) ops (by rw [hopts]; exact hsame)) key

/-- **C09 on reachable states (ConsumeByKey)**. -/
theorem consumeByKey_ok_run (oo : OpenOpts) (ops : List Op)
    (hsame : SameParams oo.opts.params ops) (key : List UInt8) (off mc : Int) :
    ∀ l0, Log.open [] oo = .ok l0 →
    Spec.ConsumeByKeyOK (runOps l0 ops).opts.params.keys (abs (runOps l0 ops)) key off mc
      ((runOps l0 ops).consumeByKey key off mc).2 := by
  intro l0 ho
  obtain ⟨hinv, _, hopts⟩ := open_empty_unique oo l0 ho
  exact consumeByKey_ok' _ (run_inv_abs l0 hinv ops).1
    (keysInv'_run l0 hinv (fun _ => keysInv_open_empty oo l0 ho) ops (by rw [hopts]; exact hsame))
    key off mc

/-! ## C. `TimesInv` and `Monotone` -/

theorem timesFor_nil : TimesFor [] [] := rfl

theorem timesFor_append (r1 : List Msg) (i1 : List Item) (r2 : List Msg) (i2 : List Item)
    (h1 : TimesFor r1 i1) (h2 : TimesFor r2 i2) : TimesFor (r1 ++ r2) (i1 ++ i2) := by
  unfold TimesFor at *
  rw [List.map_append, List.map_append, h1, h2]

/-- The items `writer.Publish` stamps carry the message times when the batch times never
decrease and start at or after the writer's `nextTime`. -/
theorem stamp_times (p : Params) (hp : p.times = true) (v : Ver) :
    ∀ (b : List (Int × List UInt8 × List UInt8)) (off pos ts : Int),
      (b.map (·.1)).Pairwise (fun a c => a ≤ c) → (∀ t ∈ b.map (·.1), ts ≤ t) →
      TimesFor (stamp p v off pos ts b).1 (stamp p v off pos ts b).2 := by
  intro b
  induction b with
  | nil => intro _ _ _ _ _; rfl
  | cons x rest ih =>
    intro off pos ts hs hge
    obtain ⟨t, k, vl⟩ := x
    simp only [List.map_cons, List.pairwise_cons] at hs
    have hts : (newItem p ⟨off, t, k, vl⟩ pos ts).ts = t := by
      have := hge t (by simp)
      simp only [newItem, hp, if_true]
      omega
    have := ih (off + 1) (pos + recSize v ⟨off, t, k, vl⟩) (newItem p ⟨off, t, k, vl⟩ pos ts).ts
      hs.2 (by rw [hts]; exact hs.1)
    unfold TimesFor at this ⊢
    rw [hts] at this
    simp only [stamp, List.map_cons, hts, this]

theorem stampSpec_times : ∀ (b : List (Int × List UInt8 × List UInt8)) (off : Int),
    (Spec.stampSpec off b).map (·.time) = b.map (·.1) := by
  intro b
  induction b with
  | nil => intro _; rfl
  | cons x rest ih =>
    intro off
    obtain ⟨t, k, vl⟩ := x
    simp only [Spec.stampSpec, List.map_cons, ih]

/-- What a history must satisfy at a Publish for the time index to stay exact: the batch
times never decrease and none is before the writer's `nextTime`, before 0, or before a
live message's time. (Nothing is asked of a read-only handle: it refuses to publish.) -/
def PubTimesOK (l : Log) : Op → Prop
  | .publish b => l.opts.readonly = false →
      (b.map (·.1)).Pairwise (fun a c => a ≤ c) ∧
      ∀ t ∈ b.map (·.1), l.wNextTime ≤ t ∧ 0 ≤ t ∧ ∀ m ∈ (abs l).live, m.time ≤ t
  | _ => True

/-- Every Publish of the history satisfies `PubTimesOK` in the state it is applied to. -/
def TimesOKRun (l : Log) : List Op → Prop
  | [] => True
  | op :: rest => PubTimesOK l op ∧ TimesOKRun (stepOp l op) rest

/-- (ii) **`Monotone` is kept by every step** under the publish hypothesis. -/
theorem monotone_step (l : Log) (hinv : Inv l) (hm : Spec.Monotone (abs l)) (op : Op)
    (hpub : PubTimesOK l op) : Spec.Monotone (abs (stepOp l op)) := by
  rw [(step_inv_abs l hinv op).2]
  cases op with
  | publish b =>
    simp only [specStep]
    cases hro : l.opts.readonly with
    | true => simpa using hm
    | false =>
      simp only [Bool.false_eq_true, if_false]
      obtain ⟨hs, hall⟩ := hpub hro
      have htimes := stampSpec_times b (abs l).next
      have hmemt : ∀ m ∈ Spec.stampSpec (abs l).next b, m.time ∈ b.map (·.1) := by
        intro m hmm
        rw [← htimes]
        exact List.mem_map_of_mem hmm
      refine ⟨?_, ?_⟩
      · simp only
        rw [List.pairwise_append]
        refine ⟨hm.1, ?_, ?_⟩
        · rw [← htimes] at hs
          exact (List.pairwise_map (R := fun a c : Int => a ≤ c)).mp hs
        · intro a ha c hc
          exact (hall _ (hmemt c hc)).2.2 a ha
      · intro m hmm
        simp only at hmm
        rcases List.mem_append.mp hmm with h | h
        · exact hm.2 m h
        · exact (hall _ (hmemt m h)).2.1
  | delete o =>
    simp only [specStep]
    split
    · have hsub : (Spec.removeAll (abs l).live ‹_›).Sublist (abs l).live := List.filter_sublist
      exact ⟨hm.1.sublist hsub, fun m hmm => hm.2 m (hsub.subset hmm)⟩
    · exact hm
  | consume off mc => exact hm
  | get off => exact hm
  | gc => exact hm
  | reopen rm mig rec oo => exact hm

/-- Under `Monotone`, every rebuilt index over (a sublist of) a segment's records carries
the record times. -/
theorem segDer_times (l : Log) (hp : l.opts.params.times = true) (hm : Spec.Monotone (abs l)) :
    ∀ s ∈ l.segs, SegDer TimesFor l.opts.params s.recs := by
  intro s hs v sub hsub
  obtain ⟨h1, h2⟩ := seg_times_mono l hm s hs
  exact derive_timesFor _ _ _ hp (h1.sublist hsub) (fun m hmm => h2 m (hsub.subset hmm))

/-- (i) **`TimesInv` is kept by every step** under the publish hypothesis (a reopen must
keep the index configuration). -/
theorem timesInv_step (l : Log) (hinv : Inv l) (hp : l.opts.params.times = true)
    (hti : TimesInv l) (hm : Spec.Monotone (abs l)) (op : Op)
    (hpar : OpParams l.opts.params op) (hpub : PubTimesOK l op) : TimesInv (stepOp l op) := by
  refine segsP_step TimesFor timesFor_nil timesFor_append l hinv hti (segDer_times l hp hm)
    op hpar ?_
  intro b hb hro v pos
  subst hb
  obtain ⟨hs, hall⟩ := hpub hro
  exact stamp_times _ hp v b _ _ _ hs (fun t ht => (hall t ht).1)

theorem timesInv_open_empty (oo : OpenOpts) : ∀ l0, Log.open [] oo = .ok l0 → TimesInv l0 :=
  fun l0 h => segsP_open_empty TimesFor timesFor_nil oo l0 h

/-- **`TimesInv` and `Monotone` hold along every history** that keeps the index
configuration and whose publishes satisfy `PubTimesOK`. -/
theorem times_run (l : Log) (hinv : Inv l) (hp : l.opts.params.times = true) (hti : TimesInv l)
    (hm : Spec.Monotone (abs l)) (ops : List Op) (hsame : SameParams l.opts.params ops)
    (hok : TimesOKRun l ops) :
    TimesInv (runOps l ops) ∧ Spec.Monotone (abs (runOps l ops)) := by
  induction ops generalizing l with
  | nil => exact ⟨hti, hm⟩
  | cons op rest ih =>
    obtain ⟨h1, h2⟩ := hsame
    obtain ⟨k1, k2⟩ := hok
    have hs := step_params l op h1
    exact ih (stepOp l op) (step_inv_abs l hinv op).1 (by rw [hs]; exact hp)
      (timesInv_step l hinv hp hti hm op h1 k1) (monotone_step l hinv hm op k1)
      (by rw [hs]; exact h2) k2

/-! ## D (time). `GetByTime` on reachable states -/

theorem monotone_empty : Spec.Monotone ⟨[], 0⟩ := ⟨List.Pairwise.nil, fun _ h => by cases h⟩

/-- **C10 on reachable states**: after any history from an empty directory that keeps the
index configuration and whose publishes satisfy `PubTimesOK`, `GetByTime` returns the first
live message whose time is not before `t`. -/
theorem getByTime_ok_run (oo : OpenOpts) (ops : List Op) (hsame : SameParams oo.opts.params ops)
    (t : Int) : ∀ l0, Log.open [] oo = .ok l0 → TimesOKRun l0 ops →
    Spec.GetByTimeOK (runOps l0 ops).opts.params.times (abs (runOps l0 ops)) t
      ((runOps l0 ops).getByTime t).2 := by
  intro l0 ho hok
  obtain ⟨hinv, habs, hopts⟩ := open_empty_unique oo l0 ho
  have hsame' : SameParams l0.opts.params ops := by rw [hopts]; exact hsame
  have hinvr := (run_inv_abs l0 hinv ops).1
  by_cases hp : (runOps l0 ops).opts.params.times = true
  · have hp0 : l0.opts.params.times = true := by rw [← run_params l0 ops hsame']; exact hp
    obtain ⟨hti, hm⟩ := times_run l0 hinv hp0 (timesInv_open_empty oo l0 ho)
      (by rw [habs]; exact monotone_empty) ops hsame' hok
    exact getByTime_ok _ hinvr hti hm
      (firstAtBase_run l0 hinv (firstAtBase_open_empty oo l0 ho) ops) t
  · unfold Spec.GetByTimeOK Log.getByTime
    simp [hp]

/-! ## C (iii). The carry: histories whose published times never decrease

`PubTimesOK` mentions the writer's `nextTime`. After a Delete of the newest messages (or
of everything) that counter is larger than every live time — it remembers the newest time
ever published into the head — so no condition on the live messages alone would do. What
does: a high-water mark `hw` of the published times bounds the counter and every live
time (`TimeCarry`), and a history in which every published time is at or after all
earlier ones (`PubMono`, a condition on the operation list alone) satisfies `TimesOKRun`. -/

/-- The high-water mark after a batch: its last time. -/
def lastTime (hw : Int) (b : List (Int × List UInt8 × List UInt8)) : Int :=
  ((b.map (·.1)).getLast?).getD hw

def hwNext (hw : Int) : Op → Int
  | .publish b => lastTime hw b
  | _ => hw

def PubMonoOp (hw : Int) : Op → Prop
  | .publish b => (b.map (·.1)).Pairwise (fun a c => a ≤ c) ∧ ∀ t ∈ b.map (·.1), hw ≤ t
  | _ => True

/-- The published times never decrease along the history, starting from `hw`. -/
def PubMono (hw : Int) : List Op → Prop
  | [] => True
  | op :: rest => PubMonoOp hw op ∧ PubMono (hwNext hw op) rest

/-- The carry invariant: the writer's `nextTime` and every live time are at most `hw`. -/
def TimeCarry (l : Log) (hw : Int) : Prop :=
  0 ≤ hw ∧ l.wNextTime ≤ hw ∧ ∀ m ∈ (abs l).live, m.time ≤ hw

theorem lastTime_ge (hw : Int) (b : List (Int × List UInt8 × List UInt8))
    (hge : ∀ t ∈ b.map (·.1), hw ≤ t) : hw ≤ lastTime hw b := by
  unfold lastTime
  cases h : (b.map (·.1)).getLast? with
  | none => exact Int.le_refl _
  | some t => exact hge t (List.mem_of_getLast? h)

theorem le_lastTime (hw : Int) (b : List (Int × List UInt8 × List UInt8))
    (hs : (b.map (·.1)).Pairwise (fun a c => a ≤ c)) : ∀ t ∈ b.map (·.1), t ≤ lastTime hw b := by
  intro t ht
  unfold lastTime
  cases h : (b.map (·.1)).getLast? with
  | none =>
    have := List.getLast?_eq_none_iff.mp h
    rw [this] at ht; cases ht
  | some t' =>
    simp only [Option.getD_some]
    obtain ⟨hn, hlast⟩ := getLast?_eq_getElem h
    obtain ⟨k, hk, rfl⟩ := List.getElem_of_mem ht
    by_cases hc : k = (b.map (·.1)).length - 1
    · subst hc; rw [hlast]; exact Int.le_refl _
    · have := List.pairwise_iff_getElem.mp hs k ((b.map (·.1)).length - 1) hk hn (by omega)
      rw [hlast] at this; exact this

/-- The last timestamp of a loaded index is the time of a live message. -/
theorem last_ts_live (l : Log) (hti : TimesInv l) (h : Seg) (hh : h ∈ l.segs) (its : List Item)
    (hm : h.mem = some its) (it : Item) (hl : its.getLast? = some it) :
    ∃ m ∈ (abs l).live, m.time = it.ts := by
  have htf : TimesFor h.recs its := (hti h hh).1 its hm
  unfold TimesFor at htf
  have h1 := congrArg List.getLast? htf
  rw [List.getLast?_map, List.getLast?_map, hl] at h1
  cases hr : h.recs.getLast? with
  | none => rw [hr] at h1; simp at h1
  | some m =>
    rw [hr] at h1
    simp only [Option.map_some, Option.some.injEq] at h1
    refine ⟨m, ?_, h1.symm⟩
    show m ∈ (shape l.segs).flatMap (·.2)
    rw [List.mem_flatMap]
    exact ⟨(h.base, h.recs), List.mem_map.mpr ⟨h, hh, rfl⟩, List.mem_of_getLast? hr⟩

theorem lastOffTs_snd_some (its : List Item) (a c : Int) (it : Item) (h : its.getLast? = some it) :
    (lastOffTs its a c).2 = it.ts := by
  unfold lastOffTs; rw [h]

theorem lastOffTs_snd_none (its : List Item) (a c : Int) (h : its.getLast? = none) :
    (lastOffTs its a c).2 = c := by
  unfold lastOffTs; rw [h]

/-- The writer's `nextTime` after a Publish on a read-write log. -/
theorem publish_time (l : Log) (b : List (Int × List UInt8 × List UInt8))
    (hro : l.opts.readonly = false) :
    (l.publish b).1.wNextTime = l.wNextTime ∨
    ∃ v pos, (l.publish b).1.wNextTime =
      (lastOffTs (stamp l.opts.params v l.wNextOff pos l.wNextTime b).2 l.wNextOff l.wNextTime).2 := by
  obtain ⟨ho1, hoff1, htime1, _⟩ := rollover_facts l
  unfold Log.publish
  simp only [hro, Bool.false_eq_true, if_false]
  cases hl : l.rollover.segs.getLast? with
  | none => left; rw [append_none _ hl]; exact htime1
  | some h =>
    right
    refine ⟨h.ver, logSize h.ver h.recs, ?_⟩
    rw [(append_some _ h hl b).2.2, ho1, hoff1, htime1]

theorem open_empty_time (oo : OpenOpts) (l0 : Log) (h : Log.open [] oo = .ok l0) :
    l0.wNextTime = 0 := by
  unfold Log.open at h
  simp only [List.getLast?_nil, openWriter_fresh] at h
  split at h <;> (simp only [Out.ok.injEq] at h; subst h; rfl)

/-- **The carry is kept by every step**, and it gives the publish hypothesis. -/
theorem timeCarry_step (l : Log) (hinv : Inv l) (hp : l.opts.params.times = true)
    (hti : TimesInv l) (hm : Spec.Monotone (abs l)) (hw : Int) (hc : TimeCarry l hw) (op : Op)
    (hpar : OpParams l.opts.params op) (hmono : PubMonoOp hw op) :
    PubTimesOK l op ∧ TimeCarry (stepOp l op) (hwNext hw op) := by
  obtain ⟨hw0, hwt, hwl⟩ := hc
  have hpub : PubTimesOK l op := by
    cases op with
    | publish b =>
      intro _
      obtain ⟨hs, hge⟩ := hmono
      refine ⟨hs, ?_⟩
      intro t ht
      have := hge t ht
      exact ⟨by omega, by omega, fun m hmm => by have := hwl m hmm; omega⟩
    | delete o => trivial
    | consume off mc => trivial
    | get off => trivial
    | gc => trivial
    | reopen rm mig rec oo => trivial
  refine ⟨hpub, ?_⟩
  have hti' := timesInv_step l hinv hp hti hm op hpar hpub
  have habs := (step_inv_abs l hinv op).2
  -- a `nextTime` read back from a loaded index is a live time
  have hread : ∀ (hw' : Int), (∀ m ∈ (abs (stepOp l op)).live, m.time ≤ hw') →
      ∀ (o : Opts) (s : Seg) (nt : Int), nt ≤ hw' → (openWriter o s nt).1 ∈ (stepOp l op).segs →
      (openWriter o s nt).2.2 ≤ hw' := by
    intro hw' hlive o s nt hnt hmem
    obtain ⟨its, hmi, ht⟩ := openWriter_time o s nt
    rw [ht]
    cases hg : its.getLast? with
    | none => exact hnt
    | some it =>
      obtain ⟨m, hmm, hmt⟩ := last_ts_live _ hti' _ hmem its hmi it hg
      simp only
      rw [← hmt]; exact hlive m hmm
  cases op with
  | publish b =>
    obtain ⟨hs, hge⟩ := hmono
    have hle := lastTime_ge hw b hge
    simp only [hwNext]
    cases hro : l.opts.readonly with
    | true =>
      have hsame : stepOp l (.publish b) = l := by
        simp only [stepOp]; unfold Log.publish; simp [hro]
      rw [hsame]
      exact ⟨by omega, by omega, fun m hmm => by have := hwl m hmm; omega⟩
    | false =>
      have htimes := stampSpec_times b (abs l).next
      refine ⟨by omega, ?_, ?_⟩
      · -- the writer's counter is the last stamped time
        simp only [stepOp]
        rcases publish_time l b hro with h | ⟨v, pos, h⟩
        · rw [h]; omega
        · rw [h]
          have hst := stamp_times l.opts.params hp v b l.wNextOff pos l.wNextTime hs
            (fun t ht => by have := hge t ht; omega)
          unfold TimesFor at hst
          rw [stamp_fst, stampSpec_times] at hst
          have h1 := congrArg List.getLast? hst
          rw [List.getLast?_map] at h1
          cases hg : (stamp l.opts.params v l.wNextOff pos l.wNextTime b).2.getLast? with
          | none =>
            rw [lastOffTs_snd_none _ _ _ hg]; omega
          | some it =>
            rw [lastOffTs_snd_some _ _ _ it hg]
            rw [hg] at h1
            simp only [Option.map_some] at h1
            unfold lastTime
            rw [← h1]
            exact Int.le_refl _
      · rw [habs]
        simp only [specStep, hro, Bool.false_eq_true, if_false]
        intro m hmm
        rcases List.mem_append.mp hmm with h | h
        · have := hwl m h; omega
        · apply le_lastTime hw b hs
          rw [← htimes]
          exact List.mem_map_of_mem h
  | delete o =>
    simp only [hwNext]
    have hlive : ∀ m ∈ (abs (stepOp l (.delete o))).live, m.time ≤ hw := by
      rw [habs]
      simp only [specStep]
      split
      · intro m hmm
        exact hwl m ((List.filter_sublist (l := (abs l).live)).subset hmm)
      · exact hwl
    refine ⟨hw0, ?_, hlive⟩
    rcases delete_time l o with h | ⟨s, _, mv, _, h1, h2⟩
    · simp only [stepOp]; rw [h]; exact hwt
    · simp only [stepOp]; rw [h1]
      exact hread hw hlive _ _ _ hwt h2
  | consume off mc =>
    simp only [hwNext]
    refine ⟨hw0, ?_, ?_⟩
    · simp only [stepOp]; rw [(consume_loaded l hinv off mc).nextTime]; exact hwt
    · rw [habs]; exact hwl
  | get off =>
    simp only [hwNext]
    refine ⟨hw0, ?_, ?_⟩
    · simp only [stepOp]; rw [(get_loaded l hinv off).nextTime]; exact hwt
    · rw [habs]; exact hwl
  | gc =>
    simp only [hwNext]
    exact ⟨hw0, hwt, by rw [habs]; exact hwl⟩
  | reopen rm mig rec oo =>
    simp only [hwNext]
    have hlive : ∀ m ∈ (abs (stepOp l (.reopen rm mig rec oo))).live, m.time ≤ hw := by
      rw [habs]; exact hwl
    refine ⟨hw0, ?_, hlive⟩
    revert hread hlive
    simp only [stepOp]
    cases ho : Log.open (closedDisk l rm mig rec) oo with
    | err e => intro _ _; exact hwt
    | ok l' =>
      simp only
      intro hread hlive
      rcases open_time _ _ _ ho with h | ⟨sd, h1, h2⟩
      · rw [h]; exact hw0
      · rw [h2]; exact hread hw hlive _ _ _ hw0 h1

/-- **A history whose published times never decrease satisfies `TimesOKRun`.** -/
theorem timesOKRun_of_pubMono (l : Log) (hinv : Inv l) (hp : l.opts.params.times = true)
    (hti : TimesInv l) (hm : Spec.Monotone (abs l)) (hw : Int) (hc : TimeCarry l hw)
    (ops : List Op) (hsame : SameParams l.opts.params ops) (hmono : PubMono hw ops) :
    TimesOKRun l ops := by
  induction ops generalizing l hw with
  | nil => trivial
  | cons op rest ih =>
    obtain ⟨h1, h2⟩ := hsame
    obtain ⟨k1, k2⟩ := hmono
    obtain ⟨hpub, hc'⟩ := timeCarry_step l hinv hp hti hm hw hc op h1 k1
    have hs := step_params l op h1
    exact ⟨hpub, ih (stepOp l op) (step_inv_abs l hinv op).1 (by rw [hs]; exact hp)
      (timesInv_step l hinv hp hti hm op h1 hpub) (monotone_step l hinv hm op hpub)
      (hwNext hw op) hc' (by rw [hs]; exact h2) k2⟩

/-- **C10 for monotone histories**: after any history from an empty directory that keeps the
index configuration and whose published times are non-negative and never decrease —
a condition on the operation list alone — `GetByTime` returns the first live message
whose time is not before `t`. -/
theorem getByTime_ok_mono (oo : OpenOpts) (ops : List Op) (hsame : SameParams oo.opts.params ops)
    (hmono : PubMono 0 ops) (t : Int) : ∀ l0, Log.open [] oo = .ok l0 →
    Spec.GetByTimeOK (runOps l0 ops).opts.params.times (abs (runOps l0 ops)) t
      ((runOps l0 ops).getByTime t).2 := by
  intro l0 ho
  obtain ⟨hinv, habs, hopts⟩ := open_empty_unique oo l0 ho
  have hsame' : SameParams l0.opts.params ops := by rw [hopts]; exact hsame
  by_cases hp : (runOps l0 ops).opts.params.times = true
  · have hp0 : l0.opts.params.times = true := by rw [← run_params l0 ops hsame']; exact hp
    refine getByTime_ok_run oo ops hsame t l0 ho ?_
    refine timesOKRun_of_pubMono l0 hinv hp0 (timesInv_open_empty oo l0 ho)
      (by rw [habs]; exact monotone_empty) 0 ?_ ops hsame' hmono
    refine ⟨Int.le_refl _, by rw [open_empty_time oo l0 ho]; exact Int.le_refl _, ?_⟩
    rw [habs]
    intro m hmm; cases hmm
  · unfold Spec.GetByTimeOK Log.getByTime
    simp [hp]

end Klev
