/-
Structural descriptions of every API step: which segments the log holds after the step,
in terms of the segments it held before. They need no invariant; the invariants of
`ExtInv.lean` (`FirstAtBase`, `KeysInv`, `TimesInv`) are all of the form "every segment
satisfies …", so each step theorem reduces to a statement about the few new segments.
-/
import Klev.Proofs.Reach
namespace Klev

/-- The fresh empty head `openWriter` creates at `base`. -/
def freshSeg (o : Opts) (base : Int) : Seg :=
  ⟨base, o.nsv, [], some ⟨o.nsv, []⟩, some []⟩

theorem openWriter_fresh (o : Opts) (base nt : Int) :
    openWriter o (emptySeg base) nt = (freshSeg o base, base, nt) := openWriter_empty o base nt

/-! ### publish -/

/-- Rollover changes neither options nor the writer's counters; it may add a fresh head. -/
theorem rollover_facts (l : Log) :
    l.rollover.opts = l.opts ∧ l.rollover.wNextOff = l.wNextOff ∧
    l.rollover.wNextTime = l.wNextTime ∧
    (l.rollover.segs = l.segs ∨ l.rollover.segs = l.segs ++ [freshSeg l.opts l.wNextOff]) := by
  unfold Log.rollover
  cases hl : l.segs.getLast? with
  | none => exact ⟨rfl, rfl, rfl, Or.inl rfl⟩
  | some h =>
    simp only
    by_cases hroll : needsRollover l.opts h = true
    · rw [if_pos hroll]
      simp only [openWriter_fresh]
      refine ⟨trivial, trivial, trivial, Or.inr ?_⟩
      have hsn := segs_snoc hl
      conv => rhs; rw [hsn]
      simp
    · rw [if_neg hroll]
      exact ⟨rfl, rfl, rfl, Or.inl rfl⟩

/-- The head after a batch was appended. -/
def appendHead (h : Seg) (st : List Msg × List Item) : Seg :=
  { h with
    recs := h.recs ++ st.1,
    idxf := h.idxf.map (fun f => { f with items := f.items ++ st.2 }),
    mem := h.mem.map (· ++ st.2) }

theorem append_none (l : Log) (hl : l.segs.getLast? = none)
    (b : List (Int × List UInt8 × List UInt8)) : (l.append b).1 = l := by
  unfold Log.append; rw [hl]

theorem append_some (l : Log) (h : Seg) (hl : l.segs.getLast? = some h)
    (b : List (Int × List UInt8 × List UInt8)) :
    (l.append b).1.opts = l.opts ∧
    (l.append b).1.segs = l.segs.dropLast ++
      [appendHead h (stamp l.opts.params h.ver l.wNextOff (logSize h.ver h.recs) l.wNextTime b)] ∧
    (l.append b).1.wNextTime =
      (lastOffTs (stamp l.opts.params h.ver l.wNextOff (logSize h.ver h.recs) l.wNextTime b).2
        l.wNextOff l.wNextTime).2 := by
  unfold Log.append; rw [hl]
  exact ⟨rfl, rfl, rfl⟩

theorem mem_dropLast_mem {α : Type} {l : List α} {x : α} (h : x ∈ l.dropLast) : x ∈ l :=
  (List.dropLast_sublist l).subset h

/-- Every segment after `append` is an old one or the appended head. -/
theorem append_forall (Q : Seg → Prop) (l : Log) (b : List (Int × List UInt8 × List UInt8))
    (hQ : ∀ s ∈ l.segs, Q s)
    (hh : ∀ h, l.segs.getLast? = some h →
      Q (appendHead h (stamp l.opts.params h.ver l.wNextOff (logSize h.ver h.recs) l.wNextTime b))) :
    ∀ s ∈ (l.append b).1.segs, Q s := by
  cases hl : l.segs.getLast? with
  | none => rw [append_none l hl]; exact hQ
  | some h =>
    intro s hs
    rw [(append_some l h hl b).2.1] at hs
    rcases List.mem_append.mp hs with h1 | h1
    · exact hQ s (mem_dropLast_mem h1)
    · simp only [List.mem_singleton] at h1
      subst h1
      exact hh h hl

/-! ### delete -/

theorem isEmpty_false_of_ne {α : Type} {l : List α} (h : l ≠ []) : l.isEmpty = false := by
  cases l with
  | nil => exact absurd rfl h
  | cons a as => rfl

/-- Reopening the rewritten segment (survivors non-empty) as the head: the index the
rewrite built is read back. -/
theorem openWriter_rewritten_eq (o : Opts) (rw : Rewrite) (nt : Int) (hne : rw.survive ≠ []) :
    openWriter o (rewrittenSeg o.params rw) nt =
      ({ rewrittenSeg o.params rw with mem := some (derive o.params rw.ver rw.survive) },
       lastOffOr (derive o.params rw.ver rw.survive) (rewrittenSeg o.params rw).base,
       (match (derive o.params rw.ver rw.survive).getLast? with
        | some it => it.ts
        | none => nt)) := by
  have hdl := derive_length o.params rw.ver rw.survive
  have hdne : derive o.params rw.ver rw.survive ≠ [] := by
    intro he; rw [he] at hdl; simp only [List.length_nil] at hdl
    exact hne (List.eq_nil_of_length_eq_zero hdl.symm)
  have hie := isEmpty_false_of_ne hne
  have hde := isEmpty_false_of_ne hdne
  unfold openWriter reindexAndRead needsReindex
  simp only [rewrittenSeg, hie, Bool.false_eq_true, false_and, if_false, hde]
  cases hd : derive o.params rw.ver rw.survive with
  | nil => exact absurd hd hdne
  | cons a as => cases rw.iver <;> rfl

theorem swapReader_facts (l : Log) (i : Nat) (rw : Rewrite) :
    (swapReader l i rw).opts = l.opts ∧ (swapReader l i rw).wNextTime = l.wNextTime ∧
    (swapReader l i rw).wNextOff = l.wNextOff := by
  unfold swapReader; split <;> exact ⟨rfl, rfl, rfl⟩

theorem swapReader_mem (l : Log) (i : Nat) (rw : Rewrite) (s' : Seg)
    (h : s' ∈ (swapReader l i rw).segs) :
    s' ∈ l.segs ∨ (rw.survive ≠ [] ∧ s' = rewrittenSeg l.opts.params rw) := by
  unfold swapReader at h
  split at h
  · rcases mem_replaceAt h with h1 | h1
    · exact Or.inl h1
    · simp at h1
  · next hne =>
    rcases mem_replaceAt h with h1 | h1
    · exact Or.inl h1
    · simp only [List.mem_singleton] at h1
      refine Or.inr ⟨?_, h1⟩
      intro he; rw [he] at hne; exact hne rfl

theorem swapHead_opts (l : Log) (i : Nat) (s : Seg) (rw : Rewrite) :
    (swapHead l i s rw).opts = l.opts := by
  unfold swapHead; split
  · rfl
  · split <;> rfl

theorem swapHead_mem (l : Log) (i : Nat) (s : Seg) (rw : Rewrite) (s' : Seg)
    (h : s' ∈ (swapHead l i s rw).segs) :
    s' ∈ l.segs ∨ s' = freshSeg l.opts l.wNextOff ∨
    (rw.survive ≠ [] ∧ (s' = rewrittenSeg l.opts.params rw ∨
      s' = (openWriter l.opts (rewrittenSeg l.opts.params rw) l.wNextTime).1)) := by
  unfold swapHead at h
  split at h
  · simp only [openWriter_fresh] at h
    rcases mem_replaceAt h with h1 | h1
    · exact Or.inl h1
    · simp only [List.mem_singleton] at h1
      exact Or.inr (Or.inl h1)
  · next hne =>
    have hne' : rw.survive ≠ [] := by intro he; rw [he] at hne; exact hne rfl
    split at h
    · simp only [openWriter_fresh] at h
      rcases mem_replaceAt h with h1 | h1
      · exact Or.inl h1
      · simp only [List.mem_cons, List.not_mem_nil, or_false] at h1
        rcases h1 with h1 | h1
        · exact Or.inr (Or.inr ⟨hne', Or.inl h1⟩)
        · exact Or.inr (Or.inl h1)
    · rcases mem_replaceAt h with h1 | h1
      · exact Or.inl h1
      · simp only [List.mem_singleton] at h1
        exact Or.inr (Or.inr ⟨hne', Or.inr h1⟩)

/-- The writer's `nextTime` after `writer.Delete`: unchanged, or — when the rewritten
segment is reopened as the head — what `openWriter` reads from its index. -/
theorem swapHead_time (l : Log) (i : Nat) (s : Seg) (rw : Rewrite) :
    (swapHead l i s rw).wNextTime = l.wNextTime ∨
    (rw.survive ≠ [] ∧
      (swapHead l i s rw).wNextTime =
        (openWriter l.opts (rewrittenSeg l.opts.params rw) l.wNextTime).2.2 ∧
      (openWriter l.opts (rewrittenSeg l.opts.params rw) l.wNextTime).1 ∈ (swapHead l i s rw).segs) := by
  unfold swapHead
  split
  · left; simp only [openWriter_fresh]
  · next hne =>
    have hne' : rw.survive ≠ [] := by intro he; rw [he] at hne; exact hne rfl
    split
    · left; simp only [openWriter_fresh]
    · right
      refine ⟨hne', rfl, ?_⟩
      simp only [replaceAt]
      simp

/-- What `Log.delete` does to the state: nothing, a head swap or a reader swap. -/
theorem delete_shape_cases (l : Log) (offs : List Int) :
    (l.delete offs).1 = l ∨
    ∃ i s mv, l.segs[i]? = some s ∧
      ((l.delete offs).1 = swapHead l i s (rewrite l.opts.params s offs mv mv) ∨
       (l.delete offs).1 = swapReader l i (rewrite l.opts.params s offs mv mv)) := by
  unfold Log.delete
  split
  · exact Or.inl rfl
  · split
    · exact Or.inl rfl
    · split
      · exact Or.inl rfl
      · next i _ =>
        cases hs : l.segs[i]? with
        | none => exact Or.inl rfl
        | some s =>
          simp only
          generalize (if l.opts.keep = true then s.ver else l.opts.nsv) = mv
          split
          · exact Or.inl rfl
          · split
            · exact Or.inr ⟨i, s, mv, hs, Or.inl rfl⟩
            · exact Or.inr ⟨i, s, mv, hs, Or.inr rfl⟩

theorem delete_opts (l : Log) (offs : List Int) : (l.delete offs).1.opts = l.opts := by
  rcases delete_shape_cases l offs with h | ⟨i, s, mv, _, h | h⟩
  · rw [h]
  · rw [h]; exact swapHead_opts _ _ _ _
  · rw [h]; exact (swapReader_facts _ _ _).1

/-- Every segment after `Delete` is an old one, a fresh empty head, a rewritten segment or
a rewritten segment reopened as the head. -/
theorem delete_forall (Q : Seg → Prop) (l : Log) (offs : List Int)
    (hQ : ∀ s ∈ l.segs, Q s)
    (hfresh : Q (freshSeg l.opts l.wNextOff))
    (hrw : ∀ s ∈ l.segs, ∀ mv, (rewrite l.opts.params s offs mv mv).survive ≠ [] →
      Q (rewrittenSeg l.opts.params (rewrite l.opts.params s offs mv mv)) ∧
      Q (openWriter l.opts (rewrittenSeg l.opts.params (rewrite l.opts.params s offs mv mv))
        l.wNextTime).1) :
    ∀ s' ∈ (l.delete offs).1.segs, Q s' := by
  intro s' hs'
  rcases delete_shape_cases l offs with h | ⟨i, s, mv, hs, h | h⟩
  · rw [h] at hs'; exact hQ s' hs'
  · rw [h] at hs'
    have hmem : s ∈ l.segs := List.mem_of_getElem? hs
    rcases swapHead_mem _ _ _ _ _ hs' with h1 | h1 | ⟨hne, h1 | h1⟩
    · exact hQ s' h1
    · rw [h1]; exact hfresh
    · rw [h1]; exact (hrw s hmem mv hne).1
    · rw [h1]; exact (hrw s hmem mv hne).2
  · rw [h] at hs'
    have hmem : s ∈ l.segs := List.mem_of_getElem? hs
    rcases swapReader_mem _ _ _ _ hs' with h1 | ⟨hne, h1⟩
    · exact hQ s' h1
    · rw [h1]; exact (hrw s hmem mv hne).1

/-- The writer's `nextTime` after `Delete`. -/
theorem delete_time (l : Log) (offs : List Int) :
    (l.delete offs).1.wNextTime = l.wNextTime ∨
    ∃ s ∈ l.segs, ∃ mv, (rewrite l.opts.params s offs mv mv).survive ≠ [] ∧
      (l.delete offs).1.wNextTime =
        (openWriter l.opts (rewrittenSeg l.opts.params (rewrite l.opts.params s offs mv mv))
          l.wNextTime).2.2 ∧
      (openWriter l.opts (rewrittenSeg l.opts.params (rewrite l.opts.params s offs mv mv))
          l.wNextTime).1 ∈ (l.delete offs).1.segs := by
  rcases delete_shape_cases l offs with h | ⟨i, s, mv, hs, h | h⟩
  · rw [h]; exact Or.inl rfl
  · rw [h]
    rcases swapHead_time l i s (rewrite l.opts.params s offs mv mv) with h1 | ⟨hne, h1, h2⟩
    · exact Or.inl h1
    · exact Or.inr ⟨s, List.mem_of_getElem? hs, mv, hne, h1, h2⟩
  · rw [h]; exact Or.inl (swapReader_facts _ _ _).2.1

/-! ### reads and GC -/

theorem loadIndex_base_recs (o : Opts) (s : Seg) :
    (loadIndex o s).1.base = s.base ∧ (loadIndex o s).1.recs = s.recs ∧
    (loadIndex o s).1.ver = s.ver := by
  unfold loadIndex
  cases hm : s.mem <;> exact ⟨rfl, rfl, rfl⟩

/-- Every segment after `withIndex` is an old one or an old one with its index loaded. -/
theorem withIndex_forall (Q : Seg → Prop) (l : Log) (i : Nat)
    (hcl : ∀ s, Q s → Q (loadIndex l.opts s).1) (hQ : ∀ s ∈ l.segs, Q s)
    {l1 : Log} {s' : Seg} {its : List Item} {c : RCtx}
    (hw : withIndex l i = some (l1, s', its, c)) :
    (∀ s ∈ l1.segs, Q s) ∧ l1.opts = l.opts := by
  unfold withIndex at hw
  cases hs : l.segs[i]? with
  | none => rw [hs] at hw; simp at hw
  | some s =>
    rw [hs] at hw
    simp only [Option.some.injEq, Prod.mk.injEq] at hw
    obtain ⟨rfl, _, _, _⟩ := hw
    refine ⟨?_, rfl⟩
    intro t ht
    unfold setSeg at ht
    simp only at ht
    rcases List.mem_or_eq_of_mem_set ht with h | h
    · exact hQ t h
    · subst h; exact hcl s (hQ s (List.mem_of_getElem? hs))

theorem consume_forall (Q : Seg → Prop) (l : Log) (off : Int) (mc : Nat)
    (hcl : ∀ s, Q s → Q (loadIndex l.opts s).1) (hQ : ∀ s ∈ l.segs, Q s) :
    ∀ s ∈ (l.consume off mc).1.segs, Q s := by
  unfold Log.consume
  split
  · exact hQ
  · next i _ =>
    cases hw : withIndex l i.toNat with
    | none => exact hQ
    | some r =>
      obtain ⟨l1, s, its, c⟩ := r
      obtain ⟨hQ1, ho1⟩ := withIndex_forall Q l i.toNat hcl hQ hw
      simp only
      split
      · split
        · cases hw2 : withIndex l1 (i.toNat + 1) with
          | none => exact hQ1
          | some r2 =>
            obtain ⟨l2, s2, its2, c2⟩ := r2
            exact (withIndex_forall Q l1 (i.toNat + 1) (by rw [ho1]; exact hcl) hQ1 hw2).1
        · exact hQ1
      · exact hQ1

theorem get_forall (Q : Seg → Prop) (l : Log) (off : Int)
    (hcl : ∀ s, Q s → Q (loadIndex l.opts s).1) (hQ : ∀ s ∈ l.segs, Q s) :
    ∀ s ∈ (l.get off).1.segs, Q s := by
  unfold Log.get
  split
  · exact hQ
  · exact hQ
  · exact hQ
  · next i _ =>
    cases hw : withIndex l i.toNat with
    | none => exact hQ
    | some r =>
      obtain ⟨l1, s, its, c⟩ := r
      obtain ⟨hQ1, ho1⟩ := withIndex_forall Q l i.toNat hcl hQ hw
      simp only
      split
      · split <;> exact hQ1
      · split
        · cases hw2 : withIndex l1 (i.toNat - 1) with
          | none => exact hQ1
          | some r2 =>
            obtain ⟨l2, s2, its2, c2⟩ := r2
            exact (withIndex_forall Q l1 (i.toNat - 1) (by rw [ho1]; exact hcl) hQ1 hw2).1
        · exact hQ1
      · exact hQ1

/-- Every segment after GC is an old one, possibly with its index dropped. -/
theorem gc_forall (Q : Seg → Prop) (l : Log) (hdrop : ∀ s, Q s → Q { s with mem := none })
    (hQ : ∀ s ∈ l.segs, Q s) : ∀ s ∈ l.gc.segs, Q s := by
  intro s hs
  unfold Log.gc at hs
  simp only at hs
  obtain ⟨⟨s0, k⟩, hmem, rfl⟩ := List.mem_map.mp hs
  have hs0 : s0 ∈ l.segs := by
    have := List.mem_zipIdx hmem
    exact (List.mem_iff_getElem.mpr ⟨k - 0, by omega, by simpa using this.2.2.symm⟩)
  simp only
  split
  · exact hQ s0 hs0
  · exact hdrop s0 (hQ s0 hs0)

/-! ### close and reopen -/

theorem closedDisk_forall (DQ : SegDisk → Prop) (l : Log) (rm : List Int) (mig : Option Ver)
    (rec : Bool) (h0 : ∀ s ∈ l.segs, DQ s.toDisk)
    (hrm : ∀ sd, DQ sd → DQ { sd with idxf := none })
    (hmig : ∀ v sd, DQ sd → DQ (segMigrate l.opts.params v v sd))
    (hrec : ∀ sd, DQ sd → DQ (segRecover l.opts.params sd)) :
    ∀ sd ∈ closedDisk l rm mig rec, DQ sd := by
  have h1 : ∀ sd ∈ l.disk.map (fun sd => if rm.contains sd.base then { sd with idxf := none } else sd),
      DQ sd := by
    intro sd hsd
    obtain ⟨sd0, hsd0, rfl⟩ := List.mem_map.mp hsd
    unfold Log.disk at hsd0
    obtain ⟨s, hs, rfl⟩ := List.mem_map.mp hsd0
    split
    · exact hrm _ (h0 s hs)
    · exact h0 s hs
  unfold closedDisk
  simp only
  generalize l.disk.map (fun sd => if rm.contains sd.base then { sd with idxf := none } else sd) = d1 at h1
  have h2 : ∀ sd ∈ (match mig with
      | some v => d1.map (segMigrate l.opts.params v v)
      | none => d1), DQ sd := by
    cases mig with
    | none => exact h1
    | some v =>
      intro sd hsd
      obtain ⟨sd0, hsd0, rfl⟩ := List.mem_map.mp hsd
      exact hmig v sd0 (h1 sd0 hsd0)
  generalize (match mig with
      | some v => d1.map (segMigrate l.opts.params v v)
      | none => d1) = d2 at h2
  split
  · intro sd hsd
    rcases mem_mapLast _ _ _ hsd with h | ⟨y, hy, rfl⟩
    · exact h2 sd h
    · exact hrec y (h2 y hy)
  · exact h2

theorem closedDisk_ne (l : Log) (hinv : Inv l) (rm : List Int) (mig : Option Ver) (rec : Bool) :
    closedDisk l rm mig rec ≠ [] := shapeD_ne (closedDisk_ok l hinv rm mig rec).1

/-- Every segment of a log opened on a non-empty directory is a (recovered, migrated)
segment of the directory, the last one opened by the writer. -/
theorem open_forall (DQ : SegDisk → Prop) (Q : Seg → Prop) (d : List SegDisk) (oo : OpenOpts)
    (l' : Log) (h : Log.open d oo = .ok l') (hne : d ≠ [])
    (hd : ∀ sd ∈ d, DQ sd)
    (hrec : ∀ sd, DQ sd → DQ (segRecover oo.opts.params sd))
    (hmig : ∀ sd, DQ sd → DQ (segMigrate oo.opts.params oo.opts.nsv oo.opts.nsv sd))
    (hseg : ∀ sd, DQ sd → Q sd.toSeg)
    (hopen : ∀ sd, DQ sd → Q (openWriter oo.opts sd.toSeg 0).1) :
    ∀ s' ∈ l'.segs, Q s' := by
  obtain ⟨hlast0, hl0⟩ : ∃ x, d.getLast? = some x := ⟨_, List.getLast?_eq_some_getLast hne⟩
  unfold Log.open at h
  simp only at h
  by_cases hro : oo.opts.readonly = true
  · simp only [hro, if_true, hl0] at h
    split at h
    · simp at h
    · simp only [Out.ok.injEq] at h
      subst h
      intro s' hs'
      simp only at hs'
      obtain ⟨sd, hsd, rfl⟩ := List.mem_map.mp hs'
      exact hseg sd (hd sd hsd)
  · have hro' : oo.opts.readonly = false := by
      cases hc : oo.opts.readonly with
      | true => exact absurd hc hro
      | false => rfl
    simp only [hro', Bool.false_eq_true, if_false, hl0] at h
    split at h
    · simp at h
    · have hd1 : ∀ sd ∈ (if oo.recover = true then mapLast (segRecover oo.opts.params) d else d), DQ sd := by
        split
        · intro sd hsd
          rcases mem_mapLast _ _ _ hsd with h1 | ⟨y, hy, rfl⟩
          · exact hd sd h1
          · exact hrec y (hd y hy)
        · exact hd
      generalize (if oo.recover = true then mapLast (segRecover oo.opts.params) d else d) = d1 at h hd1
      have hd2 : ∀ sd ∈ (if oo.eager = true then d1.map (segMigrate oo.opts.params oo.opts.nsv oo.opts.nsv) else d1),
          DQ sd := by
        split
        · intro sd hsd
          obtain ⟨sd0, hsd0, rfl⟩ := List.mem_map.mp hsd
          exact hmig sd0 (hd1 sd0 hsd0)
        · exact hd1
      generalize (if oo.eager = true then d1.map (segMigrate oo.opts.params oo.opts.nsv oo.opts.nsv) else d1) = d2 at h hd2
      cases hl2 : d2.getLast? with
      | none => simp [hl2] at h
      | some h2 =>
        simp only [hl2] at h
        simp only [Out.ok.injEq] at h
        subst h
        intro s' hs'
        simp only at hs'
        rcases List.mem_append.mp hs' with h1 | h1
        · obtain ⟨sd, hsd, rfl⟩ := List.mem_map.mp h1
          exact hseg sd (hd2 sd (mem_dropLast_mem hsd))
        · simp only [List.mem_singleton] at h1
          subst h1
          exact hopen h2 (hd2 h2 (List.mem_of_getLast? hl2))

/-- The writer's `nextTime` after Open: 0, or what `openWriter` read from the head's index. -/
theorem open_time (d : List SegDisk) (oo : OpenOpts) (l' : Log) (h : Log.open d oo = .ok l') :
    l'.wNextTime = 0 ∨
    ∃ sd : SegDisk, (openWriter oo.opts sd.toSeg 0).1 ∈ l'.segs ∧
      l'.wNextTime = (openWriter oo.opts sd.toSeg 0).2.2 := by
  unfold Log.open at h
  simp only at h
  by_cases hro : oo.opts.readonly = true
  · simp only [hro, if_true] at h
    split at h
    · simp only [Out.ok.injEq] at h; subst h; exact Or.inl rfl
    · split at h
      · simp at h
      · simp only [Out.ok.injEq] at h; subst h; exact Or.inl rfl
  · have hro' : oo.opts.readonly = false := by
      cases hc : oo.opts.readonly with
      | true => exact absurd hc hro
      | false => rfl
    simp only [hro', Bool.false_eq_true, if_false] at h
    split at h
    · simp only [openWriter_fresh, Out.ok.injEq] at h; subst h; exact Or.inl rfl
    · split at h
      · simp at h
      · split at h
        · simp at h
        · next h2 _ =>
          simp only [Out.ok.injEq] at h
          subst h
          exact Or.inr ⟨h2, by simp, rfl⟩

theorem openWriter_base_recs (o : Opts) (s : Seg) (nt : Int) :
    (openWriter o s nt).1.base = s.base ∧ (openWriter o s nt).1.recs = s.recs := by
  unfold openWriter
  simp only
  exact ⟨trivial, trivial⟩

/-- `openWriter` keeps the writer index in memory; `nextTime` is its last timestamp. -/
theorem openWriter_time (o : Opts) (s : Seg) (nt : Int) :
    ∃ its, (openWriter o s nt).1.mem = some its ∧
      (openWriter o s nt).2.2 = (match its.getLast? with
        | some it => it.ts
        | none => nt) := by
  unfold openWriter
  simp only
  split <;> exact ⟨_, rfl, rfl⟩

end Klev
