/-
The monotone clause of C15 for `FindByAge`: when message times never decrease with the
offset, `FindByAge t` leaves no message older than `t` behind.

`HelpersOK.findByAge_res` only says that the result is `takeWhile (time ≤ t)` of *some*
prefix `P` of the live messages. Here the prefix is named (`findByAge_res'`): the scan
stopped either inside `P`, at a message newer than `t`, or at the bound computed from
`GetByTime t` — and `TimeOK.getByTime_ok` says that bound is the offset of the first live
message at or after `t` (or `NextOffset` when there is none, or no time index). Under
`Spec.Monotone` every message older than `t` lies below that bound and `takeWhile` reaches it.
-/
import Klev.Proofs.HelpersOK
import Klev.Proofs.ExtReads
namespace Klev

open Helpers

/-! ### pure list facts -/

/-- In a list whose times never decrease, `takeWhile (time ≤ t)` reaches every element whose
time is at most `t`. -/
theorem mem_takeWhile_of_mono (t : Int) :
    ∀ (L : List Msg), L.Pairwise (fun a b => a.time ≤ b.time) → ∀ x ∈ L, x.time ≤ t →
      x ∈ L.takeWhile (fun m => decide (m.time ≤ t))
  | [], _, x, hx, _ => by cases hx
  | a :: L, h, x, hx, hxt => by
    rw [List.pairwise_cons] at h
    rw [List.takeWhile_cons]
    rcases List.mem_cons.mp hx with rfl | hx
    · simp only [hxt, decide_true, if_true]
      exact List.mem_cons_self
    · have hat : a.time ≤ t := Int.le_trans (h.1 x hx) hxt
      simp only [hat, decide_true, if_true]
      exact List.mem_cons_of_mem _ (mem_takeWhile_of_mono t L h.2 x hx hxt)

/-- Offsets increase strictly and times never decrease: a message at a lower-or-equal offset
has a lower-or-equal time. -/
theorem time_le_of_off_le : ∀ {L : List Msg}, L.Pairwise (fun a b => a.off < b.off) →
    L.Pairwise (fun a b => a.time ≤ b.time) → ∀ {a b : Msg}, a ∈ L → b ∈ L → a.off ≤ b.off →
    a.time ≤ b.time
  | [], _, _, _, _, ha, _, _ => by cases ha
  | c :: L, ho, ht, a, b, ha, hb, hab => by
    rw [List.pairwise_cons] at ho ht
    rcases List.mem_cons.mp ha with ha | ha <;> rcases List.mem_cons.mp hb with hb | hb
    · rw [ha, hb]; exact Int.le_refl _
    · rw [ha]; exact ht.1 b hb
    · have := ho.1 a ha; rw [hb] at hab; omega
    · exact time_le_of_off_le ho.2 ht.2 ha hb hab

/-! ### the scan, with the prefix named -/

/-- `ageTail_spec` keeping what `scanLoop_takeWhile` says about the prefix `P`: it holds a
message newer than `before`, or everything below `maxOff`. The loop fails only with the
fuel-exhausted `.err .panic`, and only for a `maxOff` outside `-4 < maxOff ≤ next`. -/
theorem ageTail_spec' (before : Int) (l2 : Log) (maxOff : Int) (h : Inv l2) :
    Loaded l2 (ageTail before (l2, .ok maxOff)).1 ∧
    ((∃ P R, P ++ R = (abs l2).live ∧
        (ageTail before (l2, .ok maxOff)).2 =
          .ok (Spec.offsOf (P.takeWhile (fun m => decide (m.time ≤ before)))) ∧
        ((∃ m ∈ P, decide (m.time ≤ before) = false) ∨ ∀ m ∈ R, maxOff ≤ m.off)) ∨
     ((ageTail before (l2, .ok maxOff)).2 = .err .panic ∧
        (fuelFor maxOff < (maxOff - offsetOldest).toNat + 1 ∨ (abs l2).next < maxOff))) := by
  unfold ageTail
  simp only
  obtain ⟨l', hld, hres⟩ := scanLoop_takeWhile maxOff (fun m => decide (m.time ≤ before))
    (fun (acc : List Int) xs => acc ++ xs.map (·.off)) (by intro st a b; simp)
    (by intro st; simp) (fuelFor maxOff) l2 h []
  generalize hsl : scanLoop _ _ _ _ _ _ _ = res
  rcases hres with ⟨st', hr, P, R, hPR, hst, hcase⟩ | ⟨hr, hbad⟩
  · have hres' : res = _ := hsl.symm.trans hr
    rw [hres']
    refine ⟨hld, Or.inl ⟨P, R, hPR, ?_, hcase⟩⟩
    rw [hst]
    simp [Spec.offsOf]
  · have hres' : res = _ := hsl.symm.trans hr
    rw [hres']
    exact ⟨hld, Or.inr ⟨rfl, hbad⟩⟩

/-- The bound `FindByAge t` scans up to, given what `GetByTime t` answered: either the walk
ends with `ErrInvalidOffset` on an empty log (time index on), or the bound is an offset in
`0 … next` below which every message older than `t` lies. -/
theorem ageBound_spec (l : Log) (hinv : Inv l) (hm : Spec.Monotone (abs l)) (t : Int)
    (hgt : Spec.GetByTimeOK l.opts.params.times (abs l) t (l.getByTime t).2) :
    Loaded l (ageBound (l.getByTime t).1 (l.getByTime t).2).1 ∧
    (((abs l).live = [] ∧ l.opts.params.times = true ∧
        (ageBound (l.getByTime t).1 (l.getByTime t).2).2 = .err .invalidOffset) ∨
     ∃ maxOff, (ageBound (l.getByTime t).1 (l.getByTime t).2).2 = .ok maxOff ∧
        0 ≤ maxOff ∧ maxOff ≤ (abs l).next ∧
        ∀ x ∈ (abs l).live, x.time < t → x.off < maxOff) := by
  have hwf := abs_wf l hinv
  have hnn := abs_next_nonneg l hinv
  have h1 := getByTime_loaded' l hinv t
  have h2 := ageBound_loaded _ h1.inv (l.getByTime t).2
  refine ⟨h1.trans h2, ?_⟩
  obtain ⟨hno, _⟩ := nextOffset_spec (l.getByTime t).1 h1.inv
  rw [h1.abs] at hno
  -- the bound `NextOffset` is above every live message
  have hnext : ∃ maxOff, ((l.getByTime t).1.nextOffset).2 = .ok maxOff ∧
      0 ≤ maxOff ∧ maxOff ≤ (abs l).next ∧ ∀ x ∈ (abs l).live, x.time < t → x.off < maxOff :=
    ⟨(abs l).next, hno, hnn, Int.le_refl _, fun x hx _ => (hwf.2 x hx).2⟩
  unfold Spec.GetByTimeOK at hgt
  by_cases hp : l.opts.params.times = true
  · simp only [hp, not_true_eq_false, if_false] at hgt
    cases hf : (abs l).live.find? (fun m => decide (t ≤ m.time)) with
    | some m =>
      rw [hf] at hgt
      simp only at hgt
      rw [hgt]
      right
      have hml : m ∈ (abs l).live := List.mem_of_find?_eq_some hf
      have hmt : t ≤ m.time := by simpa using List.find?_some hf
      refine ⟨m.off, rfl, (hwf.2 m hml).1, Int.le_of_lt (hwf.2 m hml).2, ?_⟩
      intro x hx hxt
      apply Int.lt_of_not_ge
      intro hge
      have := time_le_of_off_le hwf.1 hm.1 hml hx hge
      omega
    | none =>
      rw [hf] at hgt
      simp only at hgt
      rcases hgt with hgt | ⟨hnil, hgt⟩
      · rw [hgt]; right; exact hnext
      · rw [hgt]; left; exact ⟨hnil, hp, rfl⟩
  · simp only [hp] at hgt
    rw [hgt]; right; exact hnext

/-- **`findByAge_res` with the prefix named.** `FindByAge t` fails only on an empty log with
the time index on (`findByAge_empty_times`); otherwise it returns the offsets of
`takeWhile (time ≤ t)` of a prefix `P` of the live messages, and `P` holds a message newer
than `t` or every message below a bound `maxOff` that is above all messages older than `t`
(the first live message at or after `t` found by `GetByTime`, else `NextOffset`). -/
theorem findByAge_res' (l : Log) (hinv : Inv l) (hm : Spec.Monotone (abs l)) (t : Int)
    (hgt : Spec.GetByTimeOK l.opts.params.times (abs l) t (l.getByTime t).2) :
    Loaded l (findByAge l t).1 ∧
    (((abs l).live = [] ∧ l.opts.params.times = true ∧
        (findByAge l t).2 = .err .invalidOffset) ∨
     ∃ maxOff P R, P ++ R = (abs l).live ∧
        (findByAge l t).2 = .ok (Spec.offsOf (P.takeWhile (fun m => decide (m.time ≤ t)))) ∧
        (∀ x ∈ (abs l).live, x.time < t → x.off < maxOff) ∧
        ((∃ m ∈ P, decide (m.time ≤ t) = false) ∨ ∀ m ∈ R, maxOff ≤ m.off)) := by
  rw [findByAge_unfold]
  obtain ⟨hld, hb⟩ := ageBound_spec l hinv hm t hgt
  generalize hbd : ageBound (l.getByTime t).1 (l.getByTime t).2 = b at hld hb
  obtain ⟨l2, r⟩ := b
  simp only at hld hb
  rcases hb with ⟨hnil, hp, hr⟩ | ⟨maxOff, hr, h0, hle, hbelow⟩
  · subst hr
    exact ⟨hld, Or.inl ⟨hnil, hp, rfl⟩⟩
  · subst hr
    obtain ⟨hld2, hres⟩ := ageTail_spec' t l2 maxOff hld.inv
    refine ⟨hld.trans hld2, Or.inr ?_⟩
    rw [hld.abs] at hres
    rcases hres with ⟨P, R, hPR, hr, hcase⟩ | ⟨_, hbad⟩
    · exact ⟨maxOff, P, R, hPR, hr, hbelow, hcase⟩
    · have := fuelFor_enough maxOff (by omega)
      omega

/-! ### the monotone clause -/

/-- The core: from the L0 relation of `GetByTime` and non-decreasing times. -/
theorem findByAge_mono_of_getByTimeOK (l : Log) (hinv : Inv l) (hm : Spec.Monotone (abs l))
    (t : Int) (hgt : Spec.GetByTimeOK l.opts.params.times (abs l) t (l.getByTime t).2)
    (offs : List Int) (hr : (findByAge l t).2 = .ok offs) :
    Spec.FindByAgeOK true (abs l) t (.ok offs) ∧
    Inv (findByAge l t).1 ∧ abs (findByAge l t).1 = abs l := by
  obtain ⟨hok, hi, ha⟩ := findByAge_ok_of_ok l hinv t offs hr
  refine ⟨?_, hi, ha⟩
  unfold Spec.FindByAgeOK at hok ⊢
  simp only at hok ⊢
  refine ⟨hok.1, hok.2.1, ?_⟩
  intro _ x hx hxt
  obtain ⟨_, hres⟩ := findByAge_res' l hinv hm t hgt
  rcases hres with ⟨_, _, he⟩ | ⟨maxOff, P, R, hPR, hro, hbelow, hcase⟩
  · rw [he] at hr; cases hr
  · rw [hro] at hr
    simp only [Out.ok.injEq] at hr
    rw [← hr]
    apply List.mem_map_of_mem (f := fun m : Msg => m.off)
    have hpw : (P ++ R).Pairwise (fun a b => a.time ≤ b.time) := by rw [hPR]; exact hm.1
    rcases hcase with hneg | hge
    · -- the scan stopped at a message newer than `t`: it is `takeWhile` of all live messages
      rw [← takeWhile_append_of_neg _ P R hneg]
      exact mem_takeWhile_of_mono t _ hpw x (by rw [hPR]; exact hx) (Int.le_of_lt hxt)
    · -- the scan reached the bound: `x` is below it, hence in `P`
      have hxP : x ∈ P := by
        rw [← hPR] at hx
        rcases List.mem_append.mp hx with h | h
        · exact h
        · have h1 := hge x h
          have h2 := hbelow x (by rw [← hPR]; exact List.mem_append_right _ h) hxt
          omega
      exact mem_takeWhile_of_mono t P (List.pairwise_append.mp hpw).1 x hxP (Int.le_of_lt hxt)

/-- **C15, the monotone clause.** Under non-decreasing times, with the time index carrying the
record times (`TimesInv`) and segments starting at their base offset (`FirstAtBase`) — the
hypotheses of `getByTime_ok` — `FindByAge t` selects every message older than `t`. -/
theorem findByAge_mono (l : Log) (hinv : Inv l) (ht : TimesInv l) (hm : Spec.Monotone (abs l))
    (hfab : FirstAtBase l) (t : Int) (offs : List Int)
    (hr : (findByAge l t).2 = .ok offs) :
    Spec.FindByAgeOK true (abs l) t (.ok offs) ∧
    Inv (findByAge l t).1 ∧ abs (findByAge l t).1 = abs l :=
  findByAge_mono_of_getByTimeOK l hinv hm t (getByTime_ok l hinv ht hm hfab t) offs hr

/-- The total form: `FindByAge` does return, unless the log is empty with the time index on
(`findByAge_empty_times`: there it passes on `GetByTime`'s `ErrInvalidOffset`). -/
theorem findByAge_mono_total (l : Log) (hinv : Inv l) (ht : TimesInv l)
    (hm : Spec.Monotone (abs l)) (hfab : FirstAtBase l) (t : Int)
    (hne : (abs l).live ≠ [] ∨ l.opts.params.times = false) :
    Spec.FindByAgeOK true (abs l) t (findByAge l t).2 ∧
    Inv (findByAge l t).1 ∧ abs (findByAge l t).1 = abs l := by
  have hgt := getByTime_ok l hinv ht hm hfab t
  obtain ⟨_, hres⟩ := findByAge_res' l hinv hm t hgt
  rcases hres with ⟨hnil, hp, _⟩ | ⟨_, P, _, _, hro, _, _⟩
  · rcases hne with h | h
    · exact absurd hnil h
    · rw [hp] at h; cases h
  · have := findByAge_mono_of_getByTimeOK l hinv hm t hgt _ hro
    rw [hro]
    exact this

/-! ### on reachable states -/

/-- **C15, the monotone clause, on every reachable state**: after any history from an empty
directory (publishes, deletes, reads, lookups, GC, reopens) that keeps the time index
configured and whose published times are non-negative and never decrease — conditions on
the operation list alone — `FindByAge t` selects every message older than `t`. -/
theorem findByAge_mono_run (oo : OpenOpts) (xs : List OpX) (hsame : SameParamsX oo.opts.params xs)
    (hp : oo.opts.params.times = true) (hmono : PubMonoX 0 xs) (t : Int) :
    ∀ l0, Log.open [] oo = .ok l0 → ∀ offs, (findByAge (runX l0 xs) t).2 = .ok offs →
    Spec.FindByAgeOK true (abs (runX l0 xs)) t (.ok offs) ∧
    Inv (findByAge (runX l0 xs) t).1 ∧ abs (findByAge (runX l0 xs) t).1 = abs (runX l0 xs) := by
  intro l0 ho offs hr
  obtain ⟨_, habs, hopts⟩ := open_empty_unique oo l0 ho
  have hg0 := good_open_empty oo l0 ho
  have hp0 : l0.opts.params.times = true := by rw [hopts]; exact hp
  have hsame0 : SameParamsX l0.opts.params xs := by rw [hopts]; exact hsame
  have hc0 : TimeCarry l0 0 := by
    refine ⟨Int.le_refl _, by rw [open_empty_time oo l0 ho]; exact Int.le_refl _, ?_⟩
    rw [habs]
    intro m hmm; cases hmm
  have hok := timesOKRunX_of_pubMonoX l0 hg0 hp0 0 hc0 xs hsame0 hmono
  have hg := good_runX l0 hg0 xs hsame0 (fun _ => hok)
  have hpr : (runX l0 xs).opts.params.times = true := by
    have : ∀ (l : Log) (ys : List OpX), SameParamsX l.opts.params ys →
        (runX l ys).opts.params = l.opts.params := by
      intro l ys
      induction ys generalizing l with
      | nil => intro _; rfl
      | cons y rest ih =>
        intro hs
        have h1 := stepX_params l y hs.1
        show (runX (stepX l y) rest).opts.params = l.opts.params
        rw [ih (stepX l y) (by rw [h1]; exact hs.2), h1]
    rw [this l0 xs hsame0]; exact hp0
  obtain ⟨hti, hm⟩ := hg.times hpr
  exact findByAge_mono (runX l0 xs) hg.inv hti hm hg.fab t offs hr

/-! ### a concrete log: the hypotheses are satisfiable -/

namespace FindByAgeEx

/-- Read-write, time index on, rollover after 60 bytes. -/
def oo : OpenOpts := ⟨⟨false, ⟨true, false⟩, false, 60, Ver.v2, false⟩, false, false, false⟩

/-- Two publishes with non-decreasing times (the second rolls over) and a lookup between. -/
def ops : List OpX :=
  [.op (.publish [(10, [1], [1]), (20, [2], [2])]),
   .getByTime 20,
   .op (.publish [(20, [3], [3]), (30, [4], [4]), (40, [5], [5])])]

/-- What `Open` on an empty directory returns. -/
def l0 : Log := ⟨oo.opts, [⟨0, .v2, [], some ⟨.v2, []⟩, some []⟩], 0, 0⟩

/-- Two segments: offsets 0–1 (times 10, 20) and 2–4 (times 20, 30, 40). -/
def l : Log := runX l0 ops

theorem open_l0 : Log.open [] oo = .ok l0 := by decide

theorem ops_same : SameParamsX oo.opts.params ops := by
  simp [SameParamsX, OpParamsX, OpParams, ops]

theorem ops_mono : PubMonoX 0 ops := by
  simp [PubMonoX, PubMonoOpX, PubMonoOp, hwNextX, hwNext, lastTime, ops]

/-- The hypotheses of `findByAge_mono` hold of `l`. -/
theorem l_hyps : Inv l ∧ TimesInv l ∧ Spec.Monotone (abs l) ∧ FirstAtBase l := by
  have hg0 := good_open_empty oo l0 open_l0
  have hc0 : TimeCarry l0 0 := by unfold TimeCarry; decide
  have hok := timesOKRunX_of_pubMonoX l0 hg0 rfl 0 hc0 ops ops_same ops_mono
  have hg : Good l := good_runX l0 hg0 ops ops_same (fun _ => hok)
  obtain ⟨hti, hm⟩ := hg.times (by decide)
  exact ⟨hg.inv, hti, hm, hg.fab⟩

/-- The shape of the example and the evaluated result, `t = 25` in the middle: the bound
`GetByTime 25` finds is offset 3 in the second segment. -/
example : l.segs.length = 2 ∧ (abs l).live.map (fun m => (m.off, m.time)) =
      [(0, 10), (1, 20), (2, 20), (3, 30), (4, 40)] ∧
    (l.getByTime 25).2 = .ok ⟨3, 30, [4], [4]⟩ ∧ (findByAge l 25).2 = .ok [0, 1, 2] := by decide

/-- The relation with the monotone clause, checked directly on the evaluated result … -/
example : Spec.FindByAgeOK true (abs l) 25 (findByAge l 25).2 := by decide

/-- … and the same from the theorem. -/
example : Spec.FindByAgeOK true (abs l) 25 (.ok [0, 1, 2]) :=
  (findByAge_mono l l_hyps.1 l_hyps.2.1 l_hyps.2.2.1 l_hyps.2.2.2 25 [0, 1, 2] (by decide)).1

/-- … and from the corollary over histories. -/
example : Spec.FindByAgeOK true (abs l) 25 (.ok [0, 1, 2]) :=
  (findByAge_mono_run oo ops ops_same rfl ops_mono 25 l0 open_l0 [0, 1, 2] (by decide)).1

/-- The clause is about messages *older* than `t`, and cannot be about `time ≤ t`: with `t`
equal to a message time the bound is the first message at `t` (offset 1), the scan ends
with the chunk that holds it, and the message at offset 2 — also at time 20, in the next
segment — stays. -/
example : (findByAge l 20).2 = .ok [0, 1] ∧ Spec.FindByAgeOK true (abs l) 20 (findByAge l 20).2 ∧
    ∃ m ∈ (abs l).live, m.time ≤ 20 ∧ m.off ∉ [0, 1] := by decide

end FindByAgeEx

end Klev

#print axioms Klev.findByAge_res'
#print axioms Klev.findByAge_mono_of_getByTimeOK
#print axioms Klev.findByAge_mono
#print axioms Klev.findByAge_mono_total
#print axioms Klev.findByAge_mono_run
