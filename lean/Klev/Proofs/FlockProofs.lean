import Klev.Flock
namespace Klev

theorem lockStep_inv (rel : Bool) (s : LockSt) (op : LockOp) (h : LockInv s) (hrel : rel = true) :
    LockInv (lockStep rel s op).1 := by
  subst hrel
  obtain ⟨h1, h2⟩ := h
  cases op with
  | openRW lf =>
    unfold lockStep LockInv
    by_cases hc : s.writers = 0 ∧ s.readers = 0
    · simp only [hc, and_self, if_true]
      cases lf
      · simp [hc.2]
      · simp [hc.1]
    · simp only [hc, if_false]; exact ⟨h1, h2⟩
  | openRO lf =>
    unfold lockStep LockInv
    by_cases hc : s.writers = 0
    · simp only [hc, if_true]
      cases lf
      · simp [hc]
      · simp [hc]
    · simp only [hc, if_false]; exact ⟨h1, h2⟩
  | closeRW =>
    unfold lockStep LockInv
    by_cases hc : s.writers = 0
    · simp only [hc, if_true]; exact ⟨by omega, by intro h; omega⟩
    · simp only [hc, if_false]
      refine ⟨by omega, ?_⟩
      intro h; omega
  | closeRO =>
    unfold lockStep LockInv
    by_cases hc : s.readers = 0
    · simp only [hc, if_true]; exact ⟨h1, fun _ => trivial⟩
    · simp only [hc, if_false]
      exact ⟨h1, fun h => by have := h2 h; omega⟩

theorem lockRun_inv (s : LockSt) (ops : List LockOp) (h : LockInv s) : LockInv (lockRun true s ops) := by
  induction ops generalizing s with
  | nil => exact h
  | cons op rest ih => exact ih _ (lockStep_inv true s op h rfl)

/-- While a read-write handle is open every other Open fails. -/
theorem open_fails_while_writer (s : LockSt) (h : s.writers = 1) (lf : Bool) :
    (lockStep true s (.openRW lf)).2 = .locked ∧ (lockStep true s (.openRO lf)).2 = .locked ∧
    (lockStep true s (.openRW lf)).1 = s ∧ (lockStep true s (.openRO lf)).1 = s := by
  unfold lockStep
  simp [h]

/-- While read-only handles are open, read-write opens fail and read-only opens succeed. -/
theorem readers_admit_readers (s : LockSt) (hw : s.writers = 0) (hr : 0 < s.readers) :
    (lockStep true s (.openRW false)).2 = .locked ∧ (lockStep true s (.openRO false)).2 = .ok := by
  unfold lockStep
  have : ¬ s.readers = 0 := by omega
  simp [hw, this]

/-- A failed Open (after the lock was taken) leaves the lock table as it was: the lock is
released. -/
theorem failed_open_releases (s : LockSt) :
    (lockStep true s (.openRW true)).1 = s ∧ (lockStep true s (.openRO true)).1 = s := by
  unfold lockStep
  constructor
  · by_cases hc : s.writers = 0 ∧ s.readers = 0 <;> simp [hc]
  · by_cases hc : s.writers = 0 <;> simp [hc]

/-- Close releases: after the only writer closes, a new writer can open. -/
theorem close_releases (s : LockSt) (hi : LockInv s) (h : s.writers = 1) :
    (lockStep true (lockStep true s .closeRW).1 (.openRW false)).2 = .ok := by
  have hr := hi.2 h
  unfold lockStep
  simp [h, hr]

end Klev
