/-
`Log.get` satisfies the L0 relation `GetOK` on every log that satisfies the invariant —
the refinement theorem for C04.
-/
import Klev.Proofs.ReadInv
namespace Klev

theorem find_sorted_msg {recs : List Msg} (h : recs.Pairwise (fun a b => a.off < b.off)) {m : Msg}
    (hi : m ∈ recs) {off : Int} (ho : m.off = off) :
    recs.find? (fun x => decide (x.off = off)) = some m := by
  induction recs with
  | nil => cases hi
  | cons x xs ih =>
    have hx := List.pairwise_cons.mp h
    by_cases hxo : x.off = off
    · rcases List.mem_cons.mp hi with rfl | hm
      · simp [hxo]
      · have := hx.1 m hm
        omega
    · have hne : m ≠ x := by intro e; subst e; exact hxo ho
      rcases List.mem_cons.mp hi with e | hm
      · exact absurd e hne
      · simp [hxo, ih hx.2 hm]

/-- What `reader.Get` returns on a consistent segment, in terms of its records. -/
def readerGetSpec (c : RCtx) (recs : List Msg) (off : Int) : ROut Msg :=
  match recs.head?, recs.getLast? with
  | some first, some last =>
    if off = offsetOldest then .ok first
    else if off = offsetNewest then .ok last
    else if off < first.off then .ierr .beforeStart
    else if off > last.off then
      (if c.head = true ∧ off ≥ c.nextOff then .invalid else .ierr .afterEnd)
    else match recs.find? (fun x => decide (x.off = off)) with
      | some m => .ok m
      | none => .ierr .notFound
  | _, _ => .ierr .empty

theorem readerGet_spec (c : RCtx) (s : Seg) (its : List Item) (off : Int)
    (hit : ItemsFor s.ver s.recs its) (hs : s.recs.Pairwise (fun a b => a.off < b.off)) :
    readerGet c s its off = readerGetSpec c s.recs off := by
  have hsorted := hit.sorted hs
  have hlen := hit.length
  unfold readerGet ixGet readerGetSpec
  rw [Index.get_eq_spec its off hsorted]
  unfold Index.getSpec
  cases hh : its.head? with
  | none =>
    have hnil : its = [] := by cases its <;> simp_all
    have hrn : s.recs = [] := by
      apply List.eq_nil_of_length_eq_zero; rw [← hlen, hnil]; rfl
    simp [hrn]
  | some first =>
    cases hl : its.getLast? with
    | none => cases its <;> simp_all
    | some last =>
      obtain ⟨h0, hf⟩ := head?_eq_getElem hh
      obtain ⟨hnl, hlast⟩ := getLast?_eq_getElem hl
      obtain ⟨_, h03, h0o, _⟩ := hit.getElem 0 h0
      obtain ⟨_, hl3, hlo, _⟩ := hit.getElem (its.length - 1) hnl
      obtain ⟨_, hr0⟩ := readAt_item hit 0 h0
      obtain ⟨_, hrl⟩ := readAt_item hit (its.length - 1) hnl
      have hrh : s.recs.head? = some (s.recs[0]) := by
        rw [List.head?_eq_getElem?, List.getElem?_eq_getElem h03]
      have hrne : s.recs ≠ [] := by intro he; rw [he] at h03; simp at h03
      have hrl' : s.recs.getLast? = some (s.recs[its.length - 1]) := by
        rw [List.getLast?_eq_some_getLast hrne, List.getLast_eq_getElem]
        have : its.length - 1 = s.recs.length - 1 := by omega
        simp only [this]
      rw [hrh, hrl']
      simp only
      rw [hf] at h0o hr0
      rw [hlast] at hlo hrl
      by_cases c1 : off = offsetOldest
      · simp [c1, hr0]
      simp only [c1, if_false]
      by_cases c2 : off = offsetNewest
      · simp [c2, hrl]
      simp only [c2, if_false]
      rw [← h0o, ← hlo]
      by_cases c3 : off < first.off
      · simp [c3]
      simp only [c3, if_false]
      by_cases c5 : off > last.off
      · simp only [c5, if_true]
        by_cases hc : c.head = true ∧ off ≥ c.nextOff
        · simp [hc]
        · simp only [hc, if_false]
          have : ¬ (IErr.afterEnd = IErr.afterEnd ∧ c.head = true ∧ off ≥ c.nextOff) := fun h => hc h.2
          simp [this]
      simp only [c5, if_false]
      cases hfd : its.find? (fun x => x.off == off) with
      | none =>
        have hnone : s.recs.find? (fun x => decide (x.off = off)) = none := by
          rw [List.find?_eq_none] at hfd ⊢
          intro m hm
          obtain ⟨k, hk, rfl⟩ := List.getElem_of_mem hm
          obtain ⟨_, _, hko, _⟩ := hit.getElem k (by omega)
          have := hfd (its[k]'(by omega)) (List.getElem_mem _)
          simp only [beq_iff_eq] at this
          simp only [decide_eq_true_eq]
          omega
        simp [hnone]
      | some it =>
        rw [List.find?_eq_some_iff_getElem] at hfd
        obtain ⟨hpit, k, hk, hkit, _⟩ := hfd
        simp only [beq_iff_eq] at hpit
        obtain ⟨hk3, hrk⟩ := readAt_item hit k hk
        obtain ⟨_, _, hko, _⟩ := hit.getElem k hk
        rw [hkit] at hrk hko
        have hfound : s.recs.find? (fun x => decide (x.off = off)) = some (s.recs[k]) :=
          find_sorted_msg hs (List.getElem_mem hk3) (by omega)
        simp [hrk, hfound]

end Klev

namespace Klev

theorem find_flat {sh : Shape} (h : ShapeOK sh) {off : Int} {i : Nat} (hs : SegStart sh off i) :
    (flat sh).find? (fun x => decide (x.off = off)) =
      ((sh[i]'hs.lt).2).find? (fun x => decide (x.off = off)) := by
  rw [flat_split sh i hs.lt, List.find?_append, List.find?_append]
  have h1 : (flat (sh.take i)).find? (fun x => decide (x.off = off)) = none := by
    rw [List.find?_eq_none]
    intro m hm
    obtain ⟨j, hj, hmj⟩ := mem_flat hm
    simp only [List.length_take] at hj
    simp only [List.getElem_take] at hmj
    have := hs.before j (by omega) (by omega) m hmj
    simp only [decide_eq_true_eq]; omega
  have h2 : (flat (sh.drop (i + 1))).find? (fun x => decide (x.off = off)) = none := by
    rw [List.find?_eq_none]
    intro m hm
    obtain ⟨j, hj, hmj⟩ := mem_flat hm
    simp only [List.length_drop] at hj
    simp only [List.getElem_drop] at hmj
    have h3 := hs.after (i + 1 + j) (by omega) (by omega)
    have h4 := h.lower _ (List.getElem_mem (by omega : i + 1 + j < sh.length)) m hmj
    simp only [decide_eq_true_eq]; omega
  rw [h1, h2]
  simp

theorem flat_take_last (sh : Shape) (hne : sh ≠ []) :
    flat sh = flat (sh.take (sh.length - 1)) ++
      (sh[sh.length - 1]'(by have := List.length_pos_iff.mpr hne; omega)).2 := by
  have hpos := List.length_pos_iff.mpr hne
  rw [flat_split sh (sh.length - 1) (by omega), flat_drop_len _ _ (by omega)]
  simp

/-- The message `Get` addresses, as the L0 state sees it. -/
theorem get_ok (l : Log) (hinv : Inv l) (off : Int) :
    Spec.GetOK (abs l) off (l.get off).2 := by
  have hsh := hinv.shape
  have hlen := shape_length l.segs
  have hpos : 0 < (shape l.segs).length := List.length_pos_iff.mpr hsh.ne
  have hbne : bases l ≠ [] := by
    rw [bases_eq_shape]; intro h; exact hsh.ne (List.map_eq_nil_iff.mp h)
  have hbl : (bases l).length = l.segs.length := by simp [bases]
  have hlive : (abs l).live = flat (shape l.segs) := rfl
  have hnextv : (abs l).next = shapeNext (shape l.segs) := rfl
  -- shared: run the reader on segment `i`
  have reader : ∀ i (hi : i < l.segs.length), ∃ l1 s' its c,
      withIndex l i = some (l1, s', its, c) ∧
      s'.recs = ((shape l.segs)[i]'(by omega)).2 ∧
      readerGet c s' its off = readerGetSpec c s'.recs off ∧
      c = rctx l (i + 1 == l.segs.length) s' its ∧ ItemsFor s'.ver s'.recs its ∧
      s'.base = ((shape l.segs)[i]'(by omega)).1 ∧ Inv l1 ∧ shape l1.segs = shape l.segs ∧
      l1.segs.length = l.segs.length := by
    intro i hi
    obtain ⟨l1, s', its, c, hw, hb, hv, hr, hit, hc, hinv1, hsh1, _, _, _, hlen1⟩ :=
      withIndex_spec l i hinv hi
    have hsi := shape_getElem l.segs i hi
    have hrecs : s'.recs = ((shape l.segs)[i]'(by omega)).2 := by rw [hsi, hr]
    have hsorted : s'.recs.Pairwise (fun a b => a.off < b.off) := by
      rw [hrecs]; exact hsh.sorted _ (List.getElem_mem (by omega))
    exact ⟨l1, s', its, c, hw, hrecs, readerGet_spec c s' its off hit hsorted, hc, hit,
      by rw [hsi, hb], hinv1, hsh1, hlen1⟩
  unfold Spec.GetOK
  by_cases c1 : off = offsetOldest
  · -- the first live message
    simp only [c1, if_true]
    have hsearch : SegSearch.get (bases l) offsetOldest = .ok (.ok 0) := by
      unfold SegSearch.get
      cases hh : (bases l).head? with
      | none => cases hb : bases l <;> simp_all
      | some f => cases hl : (bases l).getLast? with
        | none => cases hb : bases l <;> simp_all
        | some la => simp
    obtain ⟨l1, s', its, c, hw, hrecs, hrg, _, _, _, _, _, _⟩ := reader 0 (by omega)
    unfold Log.get
    rw [hsearch]
    simp only [Int.toNat_zero, hw]
    rw [← c1, hrg, c1]
    unfold readerGetSpec
    by_cases hre : s'.recs = []
    · -- an empty first segment is the head of an empty log
      have hone : (shape l.segs).length = 1 := by
        have h := hsh.nonempty_idx 0
        by_cases h2 : 0 + 1 < (shape l.segs).length
        · exact absurd (hrecs ▸ hre) (h h2)
        · omega
      have hflat : flat (shape l.segs) = [] := by
        rw [flat_take_last _ hsh.ne]
        simp only [hone, Nat.sub_self, List.take_zero]
        rw [← hrecs, hre]; rfl
      rw [hlive, hflat, hre]
      simp [ROut.toOut, ierrClass, offsetOldest, offsetNewest]
    · obtain ⟨f, hf⟩ : ∃ f, s'.recs.head? = some f := by
        cases hrc : s'.recs with
        | nil => exact absurd hrc hre
        | cons a as => exact ⟨a, rfl⟩
      obtain ⟨la, hla⟩ : ∃ la, s'.recs.getLast? = some la :=
        ⟨_, List.getLast?_eq_some_getLast hre⟩
      have hhead : (flat (shape l.segs)).head? = some f := by
        rw [flat_split _ 0 hpos]
        simp only [List.take_zero, flat, List.flatMap_nil, List.nil_append]
        rw [← hrecs, List.head?_append, hf]; rfl
      rw [hlive, hhead, hf, hla]
      simp [ROut.toOut]
  simp only [c1, if_false]
  by_cases c2 : off = offsetNewest
  · -- the last live message (the head may be empty: then the previous segment has it)
    simp only [c2, if_true]
    have hsearch : SegSearch.get (bases l) offsetNewest = .ok (.ok ((l.segs.length : Int) - 1)) := by
      unfold SegSearch.get
      cases hh : (bases l).head? with
      | none => cases hb : bases l <;> simp_all
      | some f => cases hl : (bases l).getLast? with
        | none => cases hb : bases l <;> simp_all
        | some la => simp [offsetNewest, offsetOldest, hbl]
    have hcast : ((l.segs.length : Int) - 1).toNat = l.segs.length - 1 := by omega
    obtain ⟨l1, s', its, c, hw, hrecs, hrg, _, _, _, hinv1, hsh1, hlen1⟩ :=
      reader (l.segs.length - 1) (by omega)
    unfold Log.get
    rw [hsearch]
    simp only [hcast, hw]
    rw [← c2, hrg, c2]
    have hflat := flat_take_last _ hsh.ne
    simp only [hlen] at hflat
    rw [← hrecs] at hflat
    by_cases hre : s'.recs = []
    · -- empty head
      have hspec : readerGetSpec c s'.recs offsetNewest = .ierr .empty := by
        unfold readerGetSpec; rw [hre]; rfl
      rw [hspec]
      simp only [true_and]
      by_cases hi0 : 0 < l.segs.length - 1
      · simp only [hi0, if_true]
        obtain ⟨l2, s2, its2, c2', hw2, hb2, hv2, hr2, hit2, hc2, _, _, _, _, _, _⟩ :=
          withIndex_spec l1 (l.segs.length - 1 - 1) hinv1 (by omega)
        rw [hw2]
        simp only
        have hi2 : l.segs.length - 1 - 1 < (shape l.segs).length := by omega
        have hs2 : ((shape l.segs)[l.segs.length - 1 - 1]'hi2) = (s2.base, s2.recs) := by
          have := shape_getElem l1.segs (l.segs.length - 1 - 1) (by omega)
          simp only [hsh1] at this
          rw [this, hb2, hr2]
        have hrecs2 : s2.recs = ((shape l.segs)[l.segs.length - 1 - 1]'hi2).2 := by rw [hs2]
        have hsorted2 : s2.recs.Pairwise (fun a b => a.off < b.off) := by
          rw [hrecs2]; exact hsh.sorted _ (List.getElem_mem hi2)
        rw [readerGet_spec c2' s2 its2 offsetNewest hit2 hsorted2]
        have hne2 : s2.recs ≠ [] := by
          rw [hrecs2]; exact hsh.nonempty_idx _ (by omega)
        obtain ⟨f, hf⟩ : ∃ f, s2.recs.head? = some f := by
          cases hrc : s2.recs with
          | nil => exact absurd hrc hne2
          | cons a as => exact ⟨a, rfl⟩
        obtain ⟨la, hla⟩ : ∃ la, s2.recs.getLast? = some la :=
          ⟨_, List.getLast?_eq_some_getLast hne2⟩
        have hlast : (flat (shape l.segs)).getLast? = some la := by
          rw [hflat, hre, List.append_nil]
          have hpre := flat_take_last ((shape l.segs).take (l.segs.length - 1))
            (by intro h
                have h' := congrArg List.length h
                simp only [List.length_take, List.length_nil] at h'
                omega)
          simp only [List.length_take, List.take_take, List.getElem_take] at hpre
          have hmin : min (l.segs.length - 1) (shape l.segs).length = l.segs.length - 1 := by omega
          simp only [hmin] at hpre
          rw [hpre, ← hrecs2, List.getLast?_append, hla]; rfl
        unfold readerGetSpec
        rw [hlive, hlast, hf, hla]
        simp [ROut.toOut, offsetNewest, offsetOldest]
      · -- a single empty segment: empty log
        have hone : l.segs.length - 1 = 0 := by omega
        simp only [hi0, if_false]
        have : flat (shape l.segs) = [] := by
          rw [hflat, hre]; simp only [hone, List.take_zero]; rfl
        rw [hlive, this]
        simp
    · obtain ⟨f, hf⟩ : ∃ f, s'.recs.head? = some f := by
        cases hrc : s'.recs with
        | nil => exact absurd hrc hre
        | cons a as => exact ⟨a, rfl⟩
      obtain ⟨la, hla⟩ : ∃ la, s'.recs.getLast? = some la :=
        ⟨_, List.getLast?_eq_some_getLast hre⟩
      have hlast : (flat (shape l.segs)).getLast? = some la := by
        rw [hflat, List.getLast?_append, hla]; rfl
      unfold readerGetSpec
      rw [hlive, hlast, hf, hla]
      simp [ROut.toOut, offsetNewest, offsetOldest]
  simp only [c2, if_false]
  -- a plain offset
  rcases SegSearch.get_spec (bases l) off (by rw [bases_eq_shape]; exact hsh.sortedB) hbne c1 c2 with
    ⟨h0, hlt, hres⟩ | ⟨i, hres, hseg⟩
  · -- before the first base
    have hb0eq : (bases l)[0] = ((shape l.segs)[0]).1 := by simp [bases_eq_shape]
    rw [hb0eq] at hlt hres
    have hst : SegStart (shape l.segs) off 0 := SegStart.first hsh (by intro _; omega)
    have hnone : (flat (shape l.segs)).find? (fun x => decide (x.off = off)) = none := by
      rw [find_flat hsh hst, List.find?_eq_none]
      intro m hm
      have := hsh.lower _ (List.getElem_mem hpos) m hm
      simp only [decide_eq_true_eq]; omega
    unfold Log.get
    rw [hres]
    by_cases hneg : off < 0
    · simp only [hneg, if_true]
      by_cases hz : ((shape l.segs)[0]).1 = 0
      · simp [hz]
      · simp [hz]
    · simp only [hneg, if_false, hlive, hnone]
      have hb0 := hsh.base0 _ (List.getElem_mem hpos)
      have hz : ¬ ((shape l.segs)[0]).1 = 0 := by omega
      have hbn := hsh.base_le_next 0 hpos
      have : off < (abs l).next := by rw [hnextv]; omega
      simp [hz, this]
  · -- the segment the offset belongs to
    rw [bases_eq_shape] at hseg
    have hst := SegStart.of_isSegFor hsh hseg
    have hi : i < l.segs.length := by rw [← hlen]; exact hst.lt
    obtain ⟨hi', hbase_le, _⟩ := hseg
    simp only [List.getElem_map] at hbase_le
    have hb0 := hsh.base0 _ (List.getElem_mem hst.lt)
    have hneg : ¬ off < 0 := by omega
    simp only [hneg, if_false]
    obtain ⟨l1, s', its, c, hw, hrecs, hrg, hc, hit, hbase, _, _, _⟩ := reader i hi
    unfold Log.get
    rw [hres]
    simp only [Int.toNat_natCast, hw]
    rw [hrg, hlive, find_flat hsh hst, ← hrecs]
    unfold readerGetSpec
    cases hh : s'.recs.head? with
    | none =>
      -- an empty segment is the head; its base is the next offset
      have hre : s'.recs = [] := by cases hrc : s'.recs <;> simp_all
      have hlast : ¬ i + 1 < (shape l.segs).length := by
        intro h; exact hsh.nonempty_idx i h (by rw [← hrecs]; exact hre)
      have hnext : (abs l).next = ((shape l.segs)[i]'hst.lt).1 := by
        rw [hnextv, shapeNext_last _ hsh.ne]
        have : (shape l.segs).length - 1 = i := by omega
        simp only [this]
        rw [← hrecs, hre]; rfl
      have : ¬ off < (abs l).next := by rw [hnext]; omega
      simp [hre, c2, this, ROut.toOut, ierrClass]
    | some first =>
      have hre : s'.recs ≠ [] := by intro he; rw [he] at hh; simp at hh
      obtain ⟨la, hla⟩ : ∃ la, s'.recs.getLast? = some la :=
        ⟨_, List.getLast?_eq_some_getLast hre⟩
      rw [hla]
      simp only [c1, c2, if_false]
      have hfm : first ∈ s'.recs := List.mem_of_mem_head? hh
      have hlm : la ∈ s'.recs := List.mem_of_getLast? hla
      have hlaflat : la ∈ flat (shape l.segs) := by
        rw [flat_split _ i hst.lt]; simp only [List.mem_append]; left; right; rw [← hrecs]; exact hlm
      have hla_lt := hsh.lt_next hlaflat
      by_cases c3 : off < first.off
      · -- a hole at the start of the segment
        have hnone : s'.recs.find? (fun x => decide (x.off = off)) = none := by
          rw [List.find?_eq_none]
          intro m hm
          have hsorted := hsh.sorted _ (List.getElem_mem hst.lt)
          rw [← hrecs] at hsorted
          have : first.off ≤ m.off := by
            obtain ⟨k, hk, rfl⟩ := List.getElem_of_mem hm
            have h0 : s'.recs[0]? = some first := by rw [← List.head?_eq_getElem?]; exact hh
            have hk0 : 0 < s'.recs.length := by omega
            rw [List.getElem?_eq_getElem hk0] at h0
            simp only [Option.some.injEq] at h0
            by_cases hc0 : k = 0
            · subst hc0; rw [h0]; omega
            · have := List.pairwise_iff_getElem.mp hsorted 0 k hk0 hk (by omega)
              rw [h0] at this; omega
          simp only [decide_eq_true_eq]; omega
        have hflt : first ∈ flat (shape l.segs) := by
          rw [flat_split _ i hst.lt]; simp only [List.mem_append]; left; right; rw [← hrecs]; exact hfm
        have := hsh.lt_next hflt
        have : off < (abs l).next := by rw [hnextv]; omega
        simp [c3, hnone, this, ROut.toOut, ierrClass]
      simp only [c3, if_false]
      by_cases c5 : off > la.off
      · -- beyond the last record of the segment
        have hnone : s'.recs.find? (fun x => decide (x.off = off)) = none := by
          rw [List.find?_eq_none]
          intro m hm
          have hsorted := hsh.sorted _ (List.getElem_mem hst.lt)
          rw [← hrecs] at hsorted
          have : m.off ≤ la.off := by
            obtain ⟨k, hk, rfl⟩ := List.getElem_of_mem hm
            have hle : s'.recs.getLast hre = la := by
              have := List.getLast?_eq_some_getLast hre
              rw [hla] at this; simpa using this.symm
            rw [List.getLast_eq_getElem] at hle
            by_cases hcl : k = s'.recs.length - 1
            · subst hcl; rw [hle]; omega
            · have := List.pairwise_iff_getElem.mp hsorted k (s'.recs.length - 1) hk (by omega) (by omega)
              rw [hle] at this; omega
          simp only [decide_eq_true_eq]; omega
        simp only [c5, if_true, hnone]
        by_cases hlast : i + 1 < l.segs.length
        · -- a reader segment: deleted tail ⇒ not found
          have hchead : c.head = false := by
            rw [hc]
            have : (i + 1 == l.segs.length) = false := by simp; omega
            rw [this]; exact rctx_notlast l s' its
          have hoffb := hst.after (i + 1) (by omega) (by omega)
          have hbn := hsh.base_le_next (i + 1) (by omega)
          have : off < (abs l).next := by rw [hnextv]; omega
          simp [hchead, hlast, this]
        · -- the head: not yet assigned
          have hil : (shape l.segs).length - 1 = i := by omega
          have hsi := shape_getElem l.segs i hi
          have hctx := rctx_last l hinv s' its hit
            (by simp only [hil]; exact hbase) (by simp only [hil]; exact hrecs)
          have hlastb : (i + 1 == l.segs.length) = true := by simp only [beq_iff_eq]; omega
          rw [hlastb] at hc
          rw [← hc] at hctx
          have hnx : shapeNext (shape l.segs) = la.off + 1 := by
            rw [shapeNext_last _ hsh.ne]
            simp only [hil]
            rw [← hrecs]; unfold recsNext; rw [hla]
          have hcond : c.head = true ∧ off ≥ c.nextOff := by
            rw [hctx.2, hnx]; exact ⟨hctx.1, by omega⟩
          have : ¬ off < (abs l).next := by rw [hnextv, hnx]; omega
          simp [hcond, this, ROut.toOut]
      · -- inside the segment's range: exact match or a hole
        simp only [c5, if_false]
        have : off < (abs l).next := by rw [hnextv]; omega
        cases hfd : s'.recs.find? (fun x => decide (x.off = off)) with
        | none => simp [this, ROut.toOut, ierrClass]
        | some m => simp [ROut.toOut]

end Klev
