/-
The bridge between `Klev/HeadRead.lean` and the model of `reader.ConsumeByKey`
(`Klev/Model.lean`): the model function, given the next offset of one state of the head (its
reader context) and the records / index of a later one, *is* the two-look read `nextFirst`.
So the theorems about `nextFirst` are theorems about the modelled function.
-/
import Klev.Proofs.KeyOK
import Klev.Proofs.HeadReadProofs
namespace Klev.HeadRead
open Klev

theorem pick_eq_withKey (recs : List Msg) (key : List UInt8) (off : Int) (max : Nat) :
    pick recs key off max = (Spec.withKey (segFrom recs off) key).take max := by
  rw [pick_eq]; rfl

/-- `reader.ConsumeByKey` of the model with the context's next offset taken in state `a` and the
segment (records, consistent index) of state `b`. -/
theorem readerConsumeByKey_two_looks (c : RCtx) (s : Seg) (its : List Item) (key : List UInt8)
    (off mc : Int) (hit : ItemsFor s.ver s.recs its) (hk : KeysFor s.recs its)
    (hn : off ≠ offsetNewest) (bnext : Int) :
    readerConsumeByKey c s its key off mc =
      .ok (nextFirst ⟨[], c.nextOff⟩ ⟨s.recs, bnext⟩ key off (keyLim mc 0)) := by
  rw [readerConsumeByKey_spec c s its key off mc hit hk hn]
  unfold nextFirst answer
  rw [pick_eq_withKey]
  cases ((Spec.withKey (segFrom s.recs off) key).take (keyLim mc 0)).getLast? <;> rfl

#print axioms readerConsumeByKey_two_looks
end Klev.HeadRead
