/-
`ConsumeByKey` on a head that grows between its two looks (C08, defect D22): in the source
order the answer is the sequential answer in one of the two states it looked at, and it never
steps over a message with the key; in the other order neither holds.
-/
import Klev.HeadRead
import Klev.Spec
namespace Klev.HeadRead
open Klev

theorem answer_nil (n : Int) : answer n [] = (n, []) := rfl

theorem answer_ne (n n' : Int) (ms : List Msg) (h : ms ≠ []) : answer n ms = answer n' ms := by
  unfold answer
  cases hl : ms.getLast? with
  | none => exact absurd (List.getLast?_eq_none_iff.mp hl) h
  | some l => rfl

theorem pick_append_nil (a app : List Msg) (key : List UInt8) (off : Int) (max : Nat)
    (h : pick (a ++ app) key off max = []) : pick a key off max = [] := by
  unfold pick at *
  rw [List.filter_append, List.take_append] at h
  exact (List.append_eq_nil_iff.mp h).1

/-- **Linearizable**: with the next offset read first, the answer is what a sequential
`ConsumeByKey` returns in the state of the first look or in the state of the second. -/
theorem nextFirst_linearizable (a b : Head) (g : Grows a b) (key : List UInt8) (off : Int) (max : Nat) :
    nextFirst a b key off max = spec a key off max ∨ nextFirst a b key off max = spec b key off max := by
  obtain ⟨app, hb, _⟩ := g.ext
  unfold nextFirst spec
  by_cases he : pick b.recs key off max = []
  · left
    have ha : pick a.recs key off max = [] := pick_append_nil a.recs app key off max (hb ▸ he)
    rw [he, ha]
  · right
    exact answer_ne _ _ _ he

theorem mem_take_of_sorted {l : List Msg} (hs : l.Pairwise (fun x y => x.off < y.off)) :
    ∀ (k : Nat) (m last : Msg), (l.take k).getLast? = some last → m ∈ l → m.off ≤ last.off → m ∈ l.take k := by
  induction l with
  | nil => intro k m last _ hm; cases hm
  | cons x xs ih =>
    intro k m last hl hm hle
    cases k with
    | zero => simp at hl
    | succ k =>
      rw [List.take_succ_cons] at hl ⊢
      rcases List.mem_cons.mp hm with rfl | hm'
      · exact List.mem_cons_self
      · have hxs := (List.pairwise_cons.mp hs).2
        by_cases hk : xs.take k = []
        · -- the last taken is x itself: m comes after x, so m.off > x.off = last.off
          rw [hk] at hl
          simp only [List.getLast?_singleton, Option.some.injEq] at hl
          subst hl
          have := (List.pairwise_cons.mp hs).1 m hm'
          omega
        · have hl' : (xs.take k).getLast? = some last := by
            rw [List.getLast?_cons_cons_of_ne hk] at hl
            exact hl
          exact List.mem_cons_of_mem _ (ih hxs k m last hl' hm' hle)
where
  List.getLast?_cons_cons_of_ne {α : Type} {x : α} {l : List α} (h : l ≠ []) :
      (x :: l).getLast? = l.getLast? := by
    cases l with
    | nil => exact absurd rfl h
    | cons y ys => rfl

/-- **Nothing is stepped over**: with the next offset read first, every message with the key
that is in the head at the second look *or at any later time*, at or after the requested
offset and below the returned next offset, is among the returned messages. -/
theorem nextFirst_no_skip (a b c : Head) (g : Grows a b) (g2 : Grows b c) (hb : b.OK)
    (hs : c.recs.Pairwise (fun x y => x.off < y.off))
    (key : List UInt8) (off : Int) (max : Nat) (hmax : 0 < max) :
    ∀ m ∈ c.recs, m.key = key → off ≤ m.off → m.off < (nextFirst a b key off max).1 →
      m ∈ (nextFirst a b key off max).2 := by
  intro m hm hk ho hlt
  obtain ⟨app, hbr, happ⟩ := g.ext
  obtain ⟨app2, hcr, happ2⟩ := g2.ext
  -- the returned next offset is at most b.next
  have hn_le : (nextFirst a b key off max).1 ≤ b.next := by
    unfold nextFirst answer
    cases hl : (pick b.recs key off max).getLast? with
    | none => exact g.next
    | some l =>
      have hmem : l ∈ pick b.recs key off max := List.mem_of_getLast? hl
      have : l ∈ b.recs := (List.mem_filter.mp (List.mem_of_mem_take hmem)).1
      have := hb l this
      show l.off + 1 ≤ b.next
      omega
  -- so m is already in b
  have hmb : m ∈ b.recs := by
    rw [hcr] at hm
    rcases List.mem_append.mp hm with h | h
    · exact h
    · have := happ2 m h; omega
  have hsb : b.recs.Pairwise (fun x y => x.off < y.off) := by
    rw [hcr] at hs; exact (List.pairwise_append.mp hs).1
  have hmf : m ∈ b.recs.filter (fun m => m.key == key && decide (off ≤ m.off)) := by
    apply List.mem_filter.mpr
    refine ⟨hmb, ?_⟩
    simp [hk, ho]
  unfold nextFirst answer at hlt ⊢
  cases hl : (pick b.recs key off max).getLast? with
  | none =>
    -- nothing picked although m matches and max > 0: impossible
    exfalso
    have hnil : pick b.recs key off max = [] := List.getLast?_eq_none_iff.mp hl
    unfold pick at hnil
    cases hf : b.recs.filter (fun m => m.key == key && decide (off ≤ m.off)) with
    | nil => rw [hf] at hmf; cases hmf
    | cons x xs =>
      rw [hf] at hnil
      cases max with
      | zero => omega
      | succ k => simp at hnil
  | some l =>
    rw [hl] at hlt
    simp only at hlt ⊢
    have hsf : (b.recs.filter (fun m => m.key == key && decide (off ≤ m.off))).Pairwise (fun x y => x.off < y.off) :=
      List.Pairwise.sublist List.filter_sublist hsb
    exact mem_take_of_sorted hsf max m l hl hmf (by omega)

/-! ### `spec` is the L0 relation on the head -/

theorem pick_eq (recs : List Msg) (key : List UInt8) (off : Int) (max : Nat) :
    pick recs key off max = (Spec.withKey (Spec.fromOff ⟨recs, 0⟩ off) key).take max := by
  unfold pick Spec.withKey Spec.fromOff
  rw [List.filter_filter]
  congr 1
  apply List.filter_congr
  intro m _
  by_cases h1 : m.key = key <;> by_cases h2 : off ≤ m.off <;> simp [h1, h2]

/-- The sequential answer on the head is an answer the L0 relation of C09 accepts (for an
absolute offset not beyond the next offset and a count of at least 1). -/
theorem spec_l0 (h : Head) (key : List UInt8) (off : Int) (max : Nat) (hmax : 0 < max)
    (hoff : off ≠ offsetNewest) (hle : off ≤ h.next) :
    Spec.ConsumeByKeyOK true ⟨h.recs, h.next⟩ key off max (.ok (spec h key off max)) := by
  unfold Spec.ConsumeByKeyOK
  have hng : ¬ off > h.next := by omega
  simp only [not_true_eq_false, if_false, hoff, hng]
  have hF : Spec.withKey (Spec.fromOff ⟨h.recs, h.next⟩ off) key = Spec.withKey (Spec.fromOff ⟨h.recs, 0⟩ off) key := rfl
  unfold spec answer
  rw [pick_eq, hF]
  generalize Spec.withKey (Spec.fromOff ⟨h.recs, 0⟩ off) key = F
  cases hl : (F.take max).getLast? with
  | none =>
    have hnil : F.take max = [] := List.getLast?_eq_none_iff.mp hl
    have hFn : F = [] := by
      cases F with
      | nil => rfl
      | cons x xs => cases max with
        | zero => omega
        | succ k => simp at hnil
    subst hFn
    simp
    omega
  | some l =>
    simp only
    refine ⟨List.take_prefix _ _, ?_, ?_, ?_⟩
    · have : (F.take max).length ≤ max := List.length_take_le _ _
      omega
    · intro _ hnil
      rw [hnil] at hl; simp at hl
    · rw [hl]

/-! ### the other order (D22) -/

def dA : Head := ⟨[], 0⟩
def dB : Head := ⟨[⟨0, 5, [1], [2]⟩], 1⟩

theorem d_grows : Grows dA dB := ⟨⟨[⟨0, 5, [1], [2]⟩], rfl, by intro m hm; simp at hm; subst hm; decide⟩, by decide⟩

/-- **The other order is not linearizable and steps over a message**: keys first on the empty
head, one publish with the key, then the next offset: the answer `(1, [])` is the sequential
answer in neither state, and the message with the key at offset 0 lies below the returned next
offset without having been returned. -/
theorem keysFirst_counterexample :
    Grows dA dB ∧ dA.OK ∧ dB.OK ∧
    keysFirst dA dB [1] 0 3 = (1, []) ∧
    keysFirst dA dB [1] 0 3 ≠ spec dA [1] 0 3 ∧ keysFirst dA dB [1] 0 3 ≠ spec dB [1] 0 3 ∧
    (∃ m ∈ dB.recs, m.key = [1] ∧ 0 ≤ m.off ∧ m.off < (keysFirst dA dB [1] 0 3).1 ∧
      m ∉ (keysFirst dA dB [1] 0 3).2) := by
  have hA : dA.OK := by intro m hm; cases hm
  have hB : dB.OK := by intro m hm; simp [dB] at hm; subst hm; decide
  refine ⟨d_grows, hA, hB, by decide, by decide, by decide, ?_⟩
  exact ⟨⟨0, 5, [1], [2]⟩, by simp [dB], by decide, by decide, by decide, by decide⟩

#print axioms Klev.HeadRead.nextFirst_linearizable
#print axioms Klev.HeadRead.nextFirst_no_skip
#print axioms Klev.HeadRead.keysFirst_counterexample
#print axioms Klev.HeadRead.spec_l0

end Klev.HeadRead

namespace Klev.HeadRead
open Klev

/-- Repaired: the answer is the sequential answer in the state of the look at the (empty) head. -/
theorem gbtRemember_linearizable (seg : List Msg) (ts : Int) :
    gbtRemember seg ts = firstAt (seg ++ []) ts := by
  simp [gbtRemember]

/-- **As it was (D21)**: segment `[time 5]`, the head empty when looked at, a Publish of a message with
time 7 lands, the lookup asks for time 10: it returns the message with time 7 — earlier than the
time asked for, and the sequential answer neither before the Publish nor after it (both "not found"). -/
theorem gbtRelook_counterexample :
    gbtRelook [⟨0, 5, [], [1]⟩] [⟨1, 7, [], [2]⟩] 10 = some ⟨1, 7, [], [2]⟩ ∧
    firstAt ([⟨0, 5, [], [1]⟩] ++ []) 10 = none ∧
    firstAt ([⟨0, 5, [], [1]⟩] ++ [⟨1, 7, [], [2]⟩]) 10 = none ∧
    gbtRemember [⟨0, 5, [], [1]⟩] 10 = none := by
  decide

#print axioms gbtRemember_linearizable
#print axioms gbtRelook_counterexample
end Klev.HeadRead
