/-
Foundations for the client-side helpers: the L0 state of a log satisfying the invariant is
well-formed, `NextOffset` is the L0 `next`, and the one-step cursor lemma for `Consume`.
-/
import Klev.Helpers
import Klev.Proofs.ReadInv
namespace Klev

theorem abs_live (l : Log) : (abs l).live = flat (shape l.segs) := rfl
theorem abs_next (l : Log) : (abs l).next = shapeNext (shape l.segs) := rfl

theorem ShapeOK.flat_pairwise {sh : Shape} (h : ShapeOK sh) :
    (flat sh).Pairwise (fun a b => a.off < b.off) := by
  unfold flat
  rw [List.pairwise_flatMap]
  refine ⟨h.sorted, ?_⟩
  rw [List.pairwise_iff_getElem]
  intro i j hi hj hij x hx y hy
  have h1 := h.rec_lt_base hij hj hx
  have h2 := h.lower _ (List.getElem_mem hj) y hy
  omega

/-- **0.** The L0 state of a log satisfying the invariant is well-formed. -/
theorem abs_wf (l : Log) (h : Inv l) : Spec.WF (abs l) :=
  ⟨h.shape.flat_pairwise, fun _ hm => ⟨h.shape.rec_nonneg hm, h.shape.lt_next hm⟩⟩

theorem abs_next_nonneg (l : Log) (h : Inv l) : 0 ≤ (abs l).next := h.shape.next_nonneg

theorem segs_pos (l : Log) (h : Inv l) : 0 < l.segs.length := by
  have := List.length_pos_iff.mpr h.shape.ne
  rwa [shape_length] at this

/-- The reader context of the last segment reports the L0 `next`. -/
theorem withIndex_last_ctx (l : Log) (h : Inv l) {i : Nat} (hi : i + 1 = l.segs.length)
    {l1 : Log} {s : Seg} {its : List Item} {c : RCtx}
    (hw : withIndex l i = some (l1, s, its, c)) :
    c.head = true ∧ c.nextOff = (abs l).next := by
  have hlen := shape_length l.segs
  have hil : i < l.segs.length := by omega
  obtain ⟨l1', s', its', c', hw', hb, hv, hr, hit, hc, _⟩ := withIndex_spec l i h hil
  rw [hw] at hw'
  simp only [Option.some.injEq, Prod.mk.injEq] at hw'
  obtain ⟨_, rfl, rfl, rfl⟩ := hw'
  have hsi := shape_getElem l.segs i hil
  have hidx : (shape l.segs).length - 1 = i := by omega
  have hctx := rctx_last l h s its hit
    (by simp only [hidx]; rw [hsi, hb]) (by simp only [hidx]; rw [hsi, hr])
  have hlastb : (i + 1 == l.segs.length) = true := by simp only [beq_iff_eq]; omega
  rw [hlastb] at hc
  rw [← hc] at hctx
  exact hctx

theorem withIndex_notlast_ctx (l : Log) {i : Nat} (hi : i + 1 ≠ l.segs.length)
    {l1 : Log} {s : Seg} {its : List Item} {c : RCtx}
    (hw : withIndex l i = some (l1, s, its, c)) : c.head = false := by
  unfold withIndex at hw
  split at hw
  · cases hw
  · simp only [Option.some.injEq, Prod.mk.injEq] at hw
    obtain ⟨_, _, _, rfl⟩ := hw
    have : (i + 1 == l.segs.length) = false := by simp only [beq_eq_false_iff_ne]; exact hi
    rw [this]; exact rctx_notlast l _ _

theorem withIndex_lt (l : Log) {i : Nat} {r} (hw : withIndex l i = some r) : i < l.segs.length := by
  unfold withIndex at hw
  split at hw
  · cases hw
  · next s hs =>
    by_cases h : i < l.segs.length
    · exact h
    · rw [List.getElem?_eq_none (by omega)] at hs; cases hs

/-- **1.** `NextOffset` is the L0 `next`; it only loads an index. -/
theorem nextOffset_spec (l : Log) (h : Inv l) :
    (l.nextOffset).2 = .ok (abs l).next ∧ Loaded l (l.nextOffset).1 := by
  unfold Log.nextOffset
  cases hro : l.opts.readonly with
  | false =>
    simp only [Bool.false_eq_true, if_false]
    exact ⟨by rw [h.next hro]; rfl, Loaded.refl h⟩
  | true =>
    simp only [if_true]
    have hpos := segs_pos l h
    rcases withIndex_loaded l (l.segs.length - 1) h with ⟨_, hge⟩ | ⟨l1, s, its, c, hw, hl1⟩
    · omega
    · rw [hw]
      simp only
      have := withIndex_last_ctx l h (by omega) hw
      exact ⟨by rw [this.2], hl1⟩

/-! ### L0: what one `Consume` does to a cursor -/

namespace Spec

theorem mem_fromOff {s : Spec} {off : Int} {m : Msg} :
    m ∈ fromOff s off ↔ m ∈ s.live ∧ off ≤ m.off := by
  unfold fromOff; simp [List.mem_filter]

theorem fromOff_pairwise {s : Spec} (h : WF s) (off : Int) :
    (fromOff s off).Pairwise (fun a b => a.off < b.off) := h.1.filter _

theorem fromOff_congr {s : Spec} {a b : Int} (h : ∀ m ∈ s.live, a ≤ m.off ↔ b ≤ m.off) :
    fromOff s a = fromOff s b := by
  unfold fromOff
  apply List.filter_congr
  intro m hm
  simp only [decide_eq_decide]
  exact h m hm

theorem fromOff_ge_next {s : Spec} (h : WF s) {off : Int} (hge : s.next ≤ off) :
    fromOff s off = [] := by
  unfold fromOff
  rw [List.filter_eq_nil_iff]
  intro m hm
  have := (h.2 m hm).2
  simp only [decide_eq_true_eq]; omega

theorem fromOff_nonpos {s : Spec} (h : WF s) {off : Int} (hle : off ≤ 0) :
    fromOff s off = s.live := by
  unfold fromOff
  rw [List.filter_eq_self]
  intro m hm
  have := (h.2 m hm).1
  simp only [decide_eq_true_eq]; omega

/-- The cursor step, purely at L0: a `Consume` result allowed by `ConsumeOK` splits what the
cursor still has to see into the chunk returned and what the new cursor still has to see. -/
theorem ConsumeOK.chunk {s : Spec} (hwf : WF s) {off : Int} {mc : Nat} {nxt : Int} {ms : List Msg}
    (h : ConsumeOK s off mc (.ok (nxt, ms))) (hle : off ≤ s.next) (hn : off ≠ offsetNewest) :
    fromOff s off = ms ++ fromOff s nxt ∧
    (off < nxt ∨ (nxt = s.next ∧ fromOff s off = [])) ∧
    nxt ≤ s.next ∧ ms.length ≤ mc ∧ (ms ≠ [] → off < nxt ∧ 0 < nxt) := by
  unfold ConsumeOK at h
  have hgt : ¬ off > s.next := by omega
  simp only [hn, if_false, hgt] at h
  obtain ⟨hpre, hlen, hlast, hprog⟩ := h
  obtain ⟨rest, hrest⟩ := hpre
  cases hl : ms.getLast? with
  | none =>
    have hms : ms = [] := List.getLast?_eq_none_iff.mp hl
    subst hms
    simp only [List.getLast?_nil] at hlast
    obtain ⟨h1, h2, h3⟩ := hlast
    refine ⟨?_, ?_, h1, hlen, fun h => absurd rfl h⟩
    · rw [List.nil_append]
      rcases hprog with hp | hp
      · apply fromOff_congr
        intro m hm
        constructor
        · intro hom; exact h2 m (mem_fromOff.mpr ⟨hm, hom⟩)
        · intro; omega
      · rw [fromOff_ge_next hwf (by omega : s.next ≤ nxt)]
        apply List.eq_nil_iff_forall_not_mem.mpr
        intro m hm
        have := h2 m hm
        have := (hwf.2 m (mem_fromOff.mp hm).1).2
        omega
    · by_cases hp : off < nxt
      · exact Or.inl hp
      · right
        have hnx : nxt = s.next := by rcases hprog with h | h; exact absurd h hp; exact h
        refine ⟨hnx, ?_⟩
        apply List.eq_nil_iff_forall_not_mem.mpr
        intro m hm
        have := h2 m hm
        have := (hwf.2 m (mem_fromOff.mp hm).1).2
        omega
  | some lm =>
    rw [hl] at hlast
    simp only at hlast
    have hlm : lm ∈ ms := List.mem_of_getLast? hl
    have hlmF : lm ∈ fromOff s off := by rw [← hrest]; exact List.mem_append_left _ hlm
    obtain ⟨hlive, hofflm⟩ := mem_fromOff.mp hlmF
    have hb := hwf.2 lm hlive
    have hpw := fromOff_pairwise hwf off
    rw [← hrest, List.pairwise_append] at hpw
    obtain ⟨hpms, _, hcross⟩ := hpw
    -- every message of the chunk is at most the last one
    have hmsle : ∀ m ∈ ms, m.off ≤ lm.off := by
      intro m hm
      have hne : ms ≠ [] := List.ne_nil_of_mem hm
      have hlast' : ms.getLast hne = lm := by
        have := List.getLast?_eq_some_getLast hne
        rw [hl] at this; exact (Option.some.inj this).symm
      obtain ⟨k, hk, rfl⟩ := List.getElem_of_mem hm
      rw [List.getLast_eq_getElem] at hlast'
      by_cases hc : k = ms.length - 1
      · subst hc; rw [hlast']; omega
      · have := List.pairwise_iff_getElem.mp hpms k (ms.length - 1) hk (by omega) (by omega)
        rw [hlast'] at this; omega
    have hrestF : fromOff s nxt = rest := by
      have h1 : fromOff s nxt = (fromOff s off).filter (fun m => decide (nxt ≤ m.off)) := by
        unfold fromOff
        rw [List.filter_filter]
        apply List.filter_congr
        intro m _
        by_cases hc : nxt ≤ m.off
        · have : off ≤ m.off := by omega
          simp [hc, this]
        · simp [hc]
      rw [h1, ← hrest, List.filter_append]
      have h2 : ms.filter (fun m => decide (nxt ≤ m.off)) = [] := by
        rw [List.filter_eq_nil_iff]
        intro m hm
        have := hmsle m hm
        simp only [decide_eq_true_eq]; omega
      have h3 : rest.filter (fun m => decide (nxt ≤ m.off)) = rest := by
        rw [List.filter_eq_self]
        intro m hm
        have := hcross lm hlm m hm
        simp only [decide_eq_true_eq]; omega
      rw [h2, h3, List.nil_append]
    refine ⟨by rw [hrestF, hrest], Or.inl (by omega), by omega, hlen, fun _ => ⟨by omega, by omega⟩⟩

end Spec

/-! ### L1: an empty chunk means caught up -/

/-- A reader that returns no message reports the next offset of the log (only the head does
that). -/
theorem readerConsume_empty (l : Log) (hinv : Inv l) {i : Nat} {l1 : Log} {s : Seg}
    {its : List Item} {c : RCtx} (hw : withIndex l i = some (l1, s, its, c))
    {off : Int} {mc : Nat} (hn : off ≠ offsetNewest) (hmc : 1 ≤ mc) {nxt : Int}
    (hr : readerConsume c s its off mc = .ok (nxt, [])) : nxt = (abs l).next := by
  have hi := withIndex_lt l hw
  have hsh := hinv.shape
  obtain ⟨l1', s', its', c', hw', hb, hv, hrr, hit, hc, _⟩ := withIndex_spec l i hinv hi
  rw [hw] at hw'
  simp only [Option.some.injEq, Prod.mk.injEq] at hw'
  obtain ⟨_, rfl, rfl, rfl⟩ := hw'
  have hlt : i < (shape l.segs).length := by rw [shape_length]; exact hi
  have hsi := shape_getElem l.segs i hi
  have hrecs : s.recs = ((shape l.segs)[i]'hlt).2 := by rw [hsi, hrr]
  have hsorted : s.recs.Pairwise (fun a b => a.off < b.off) := by
    rw [hrecs]; exact hsh.sorted _ (List.getElem_mem hlt)
  have hlow : ∀ m ∈ s.recs, 0 ≤ m.off := by
    intro m hm
    rw [hrecs] at hm
    have := hsh.lower _ (List.getElem_mem hlt) m hm
    have := hsh.base0 _ (List.getElem_mem hlt)
    omega
  obtain ⟨hA, hB⟩ := readerConsume_spec' c s its off mc hit hsorted hlow hn hmc
  by_cases hF : segFrom s.recs off = []
  · rw [hB hF] at hr
    split at hr
    · next hcond =>
      simp only [ROut.ok.injEq, Prod.mk.injEq, and_true] at hr
      by_cases hlast : i + 1 = l.segs.length
      · rw [← hr]; exact (withIndex_last_ctx l hinv hlast hw).2
      · have := withIndex_notlast_ctx l hlast hw
        rw [this] at hcond; exact absurd hcond.1 (by simp)
    · cases hr
  · obtain ⟨lm, hlm, hres⟩ := hA hF
    rw [hres] at hr
    simp only [ROut.ok.injEq, Prod.mk.injEq] at hr
    have hlen : ((segFrom s.recs off).take mc).length = 0 := by rw [hr.2]; rfl
    rw [List.length_take] at hlen
    have : 0 < (segFrom s.recs off).length := List.length_pos_iff.mpr hF
    omega

theorem toOut_ok {α : Type} {r : ROut α} {a : α} (h : r.toOut = .ok a) : r = .ok a := by
  cases r <;> simp [ROut.toOut] at h
  exact congrArg _ h

/-- In the model an empty chunk is returned only by a cursor that has caught up (the L0
relation `ConsumeOK` alone also allows an empty chunk that merely skips a gap). -/
theorem consume_empty_next (l : Log) (hinv : Inv l) {off : Int} {mc : Nat}
    (hn : off ≠ offsetNewest) (hmc : 1 ≤ mc) {nxt : Int}
    (h : (l.consume off mc).2 = .ok (nxt, [])) : nxt = (abs l).next := by
  unfold Log.consume at h
  split at h
  · cases h
  · next i _ =>
    split at h
    · cases h
    · next l1 s its c hw =>
      have hl1 : Loaded l l1 := by
        rcases withIndex_loaded l i.toNat hinv with ⟨hw', _⟩ | ⟨l1', s', its', c', hw', hl⟩
        · rw [hw] at hw'; cases hw'
        · rw [hw] at hw'
          simp only [Option.some.injEq, Prod.mk.injEq] at hw'
          rw [hw'.1]; exact hl
      split at h
      · split at h
        · split at h
          · cases h
          · next l2 s2 its2 c2 hw2 =>
            have := readerConsume_empty l1 hl1.inv hw2 (by decide) hmc (toOut_ok h)
            rw [this, hl1.abs]
        · cases h
      · exact readerConsume_empty l hinv hw hn hmc (toOut_ok h)

/-- **2 (one step).** One `Consume` at a cursor `off ≤ next`: it cannot fail, it keeps the
invariant and the L0 state, it returns a chunk `ms` that is exactly the front of what the
cursor still had to see, and the new cursor has the rest to see. A non-empty chunk moves
the cursor forward; an empty chunk means the cursor has caught up. -/
theorem consume_chunk (l : Log) (h : Inv l) (off : Int) (mc : Nat) (hmc : 1 ≤ mc)
    (hle : off ≤ (abs l).next) (hn : off ≠ offsetNewest) :
    ∃ nxt ms l1, l.consume off mc = (l1, .ok (nxt, ms)) ∧ Inv l1 ∧ abs l1 = abs l ∧
      Spec.fromOff (abs l) off = ms ++ Spec.fromOff (abs l) nxt ∧
      (off < nxt ∨ (nxt = (abs l).next ∧ Spec.fromOff (abs l) off = [])) ∧
      nxt ≤ (abs l).next ∧
      -- what the model adds to the L0 relation
      Loaded l l1 ∧ 0 ≤ nxt ∧ ms.length ≤ mc ∧ (ms ≠ [] → off < nxt) ∧
      (ms = [] → nxt = (abs l).next ∧ Spec.fromOff (abs l) off = []) := by
  have hok := consume_ok l h off mc hmc
  have hld := consume_loaded l h off mc
  have hwf := abs_wf l h
  cases hr : (l.consume off mc).2 with
  | err e =>
    rw [hr] at hok
    unfold Spec.ConsumeOK at hok
    have hgt : ¬ off > (abs l).next := by omega
    simp only [hn, if_false, hgt] at hok
  | ok p =>
    obtain ⟨nxt, ms⟩ := p
    rw [hr] at hok
    obtain ⟨h1, h2, h3, h4, h5⟩ := Spec.ConsumeOK.chunk hwf hok hle hn
    have hnn := abs_next_nonneg l h
    refine ⟨nxt, ms, (l.consume off mc).1, by rw [← hr], hld.inv, hld.abs, h1, h2, h3, hld, ?_, h4,
      fun hne => (h5 hne).1, ?_⟩
    · by_cases hne : ms = []
      · subst hne
        rw [consume_empty_next l h hn hmc hr]; exact hnn
      · have := (h5 hne).2; omega
    · intro hne
      subst hne
      have hnx := consume_empty_next l h hn hmc hr
      refine ⟨hnx, ?_⟩
      rw [h1, List.nil_append, hnx]
      exact Spec.fromOff_ge_next hwf (Int.le_refl _)

/-! ### the full scan -/

/-- `off := start; loop { (nxt, ms) := Consume(off, mc); if ms = [] ∧ (nxt = off ∨ off < 0) stop;
collect ms; off := nxt }` (the driver's `fullScan`). -/
def scanAll (mc : Nat) : Nat → Log → Int → List Msg → Log × Out (Int × List Msg)
  | 0, l, _, _ => (l, .err .panic)
  | fuel + 1, l, off, acc =>
    match l.consume off mc with
    | (l1, .err e) => (l1, .err e)
    | (l1, .ok (nxt, ms)) =>
      if ms.isEmpty ∧ (nxt = off ∨ off < 0) then (l1, .ok (nxt, acc))
      else scanAll mc fuel l1 nxt (acc ++ ms)

theorem scanAll_from (mc : Nat) (hmc : 1 ≤ mc) :
    ∀ (fuel : Nat) (l : Log) (off : Int) (acc : List Msg), Inv l → off ≤ (abs l).next →
      off ≠ offsetNewest →
      (Spec.fromOff (abs l) off).length + (if off = (abs l).next then 1 else 2) ≤ fuel →
      ∃ l', scanAll mc fuel l off acc = (l', .ok ((abs l).next, acc ++ Spec.fromOff (abs l) off)) ∧
        Loaded l l'
  | 0, l, off, acc, _, _, _, hf => by
    split at hf <;> omega
  | fuel + 1, l, off, acc, h, hle, hn, hf => by
    obtain ⟨nxt, ms, l1, hc, hinv1, habs1, hsplit, _, hnle, hld, hnn, _, hpos, hemp⟩ :=
      consume_chunk l h off mc hmc hle hn
    unfold scanAll
    rw [hc]
    simp only
    by_cases hms : ms = []
    · subst hms
      obtain ⟨hnx, hF⟩ := hemp rfl
      by_cases hstop : nxt = off ∨ off < 0
      · simp only [List.isEmpty_nil, true_and, hstop, if_true]
        exact ⟨l1, by rw [hF, List.append_nil, hnx], hld⟩
      · simp only [List.isEmpty_nil, true_and, hstop, if_false]
        have hne : off ≠ (abs l).next := by rw [← hnx]; intro h; exact hstop (Or.inl h.symm)
        simp only [hne, if_false] at hf
        obtain ⟨l', hres, hld'⟩ := scanAll_from mc hmc fuel l1 nxt (acc ++ []) hinv1
          (by rw [habs1]; exact hnle) (by unfold offsetNewest; omega)
          (by rw [habs1, hnx, Spec.fromOff_ge_next (abs_wf l h) (Int.le_refl _)]; simp; omega)
        refine ⟨l', ?_, hld.trans hld'⟩
        rw [hres, habs1, hnx, hF, Spec.fromOff_ge_next (abs_wf l h) (Int.le_refl _)]
        simp only [List.append_nil]
    · have hlt := hpos hms
      have hie : ms.isEmpty = false := by cases ms; exact absurd rfl hms; rfl
      simp only [hie, Bool.false_eq_true, false_and, if_false]
      have hlen : (Spec.fromOff (abs l) off).length = ms.length + (Spec.fromOff (abs l) nxt).length := by
        rw [hsplit, List.length_append]
      have hmpos : 0 < ms.length := List.length_pos_iff.mpr hms
      obtain ⟨l', hres, hld'⟩ := scanAll_from mc hmc fuel l1 nxt (acc ++ ms) hinv1
        (by rw [habs1]; exact hnle) (by unfold offsetNewest; omega)
        (by rw [habs1]; split <;> split at hf <;> omega)
      refine ⟨l', ?_, hld.trans hld'⟩
      rw [hres, habs1, hsplit, List.append_assoc]

/-- **2.** Iterating `Consume` from `OffsetOldest` visits every live message exactly once, in
order, and stops at `NextOffset`. -/
theorem scan_visits_all (l : Log) (h : Inv l) (mc : Nat) (hmc : 1 ≤ mc) (fuel : Nat)
    (hfuel : (abs l).live.length + 2 ≤ fuel) :
    ∃ l', scanAll mc fuel l offsetOldest [] = (l', .ok ((abs l).next, (abs l).live)) ∧
      Inv l' ∧ abs l' = abs l := by
  have hnn := abs_next_nonneg l h
  have hall : Spec.fromOff (abs l) offsetOldest = (abs l).live :=
    Spec.fromOff_nonpos (abs_wf l h) (by decide)
  obtain ⟨l', hres, hld⟩ := scanAll_from mc hmc fuel l offsetOldest [] h
    (by unfold offsetOldest; omega) (by decide)
    (by rw [hall]; split <;> omega)
  exact ⟨l', by rw [hres, hall, List.nil_append], hld.inv, hld.abs⟩

end Klev
