/-
The client-side helpers (`Find*`) are loops of `Consume` from `OffsetOldest`; this file
proves them against the L0 relations: a Hoare rule for `Helpers.scanLoop`, the pure list
facts about the per-message folds, and the theorems for `FindByOffset`, `FindUpdates`,
`FindDeletes` and (the prefix part of) `FindByAge`.
-/
import Klev.Proofs.HelpersBase
namespace Klev

open Helpers

/-! ### pure list facts -/

theorem takeWhile_length_eq {α : Type} (p : α → Bool) :
    ∀ (l : List α), ¬ (l.takeWhile p).length < l.length → (∀ a ∈ l, p a = true) ∧ l.takeWhile p = l
  | [], _ => ⟨by simp, rfl⟩
  | a :: l, h => by
    rw [List.takeWhile_cons] at h ⊢
    by_cases hp : p a = true
    · simp only [hp, if_true, List.length_cons] at h ⊢
      obtain ⟨h1, h2⟩ := takeWhile_length_eq p l (by omega)
      refine ⟨?_, by rw [h2]⟩
      intro b hb
      rcases List.mem_cons.mp hb with rfl | hb
      · exact hp
      · exact h1 b hb
    · have hp' : p a = false := by simpa using hp
      simp only [hp', Bool.false_eq_true, if_false, List.length_nil, List.length_cons] at h
      omega

theorem takeWhile_length_lt {α : Type} (p : α → Bool) :
    ∀ (l : List α), (l.takeWhile p).length < l.length → ∃ a ∈ l, p a = false
  | [], h => by simp at h
  | a :: l, h => by
    by_cases hp : p a = true
    · rw [List.takeWhile_cons] at h
      simp only [hp, if_true, List.length_cons] at h
      obtain ⟨b, hb, hpb⟩ := takeWhile_length_lt p l (by omega)
      exact ⟨b, List.mem_cons_of_mem _ hb, hpb⟩
    · exact ⟨a, List.mem_cons_self, by simpa using hp⟩

/-- A prefix that already holds an element failing `p` decides `takeWhile p`. -/
theorem takeWhile_append_of_neg {α : Type} (p : α → Bool) :
    ∀ (P R : List α), (∃ a ∈ P, p a = false) → (P ++ R).takeWhile p = P.takeWhile p
  | [], _, h => by obtain ⟨a, ha, _⟩ := h; cases ha
  | a :: P, R, h => by
    rw [List.cons_append, List.takeWhile_cons, List.takeWhile_cons]
    by_cases hp : p a = true
    · simp only [hp, if_true]
      obtain ⟨b, hb, hpb⟩ := h
      rcases List.mem_cons.mp hb with rfl | hb
      · rw [hp] at hpb; cases hpb
      · rw [takeWhile_append_of_neg p P R ⟨b, hb, hpb⟩]
    · have hp' : p a = false := by simpa using hp
      simp only [hp', Bool.false_eq_true, if_false]

theorem mem_takeWhile {α : Type} (p : α → Bool) :
    ∀ (l : List α) (a : α), a ∈ l.takeWhile p → a ∈ l ∧ p a = true
  | [], a, h => by cases h
  | b :: l, a, h => by
    rw [List.takeWhile_cons] at h
    by_cases hp : p b = true
    · simp only [hp, if_true] at h
      rcases List.mem_cons.mp h with rfl | h
      · exact ⟨List.mem_cons_self, hp⟩
      · have := mem_takeWhile p l a h
        exact ⟨List.mem_cons_of_mem _ this.1, this.2⟩
    · have hp' : p b = false := by simpa using hp
      simp only [hp', Bool.false_eq_true, if_false] at h; cases h

/-- On a list with increasing offsets, taking while below a bound is filtering. -/
theorem takeWhile_lt_eq_filter (b : Int) :
    ∀ (l : List Msg), l.Pairwise (fun x y => x.off < y.off) →
      l.takeWhile (fun m => decide (m.off < b)) = l.filter (fun m => decide (m.off < b))
  | [], _ => rfl
  | m :: l, h => by
    rw [List.pairwise_cons] at h
    rw [List.takeWhile_cons, List.filter_cons]
    by_cases hm : m.off < b
    · simp only [hm, decide_true, if_true]
      rw [takeWhile_lt_eq_filter b l h.2]
    · simp only [hm, decide_false, Bool.false_eq_true, if_false]
      symm
      rw [List.filter_eq_nil_iff]
      intro x hx
      have := h.1 x hx
      simp only [decide_eq_true_eq]; omega

/-- Live messages are determined by their offsets. -/
theorem eq_of_off_eq : ∀ {l : List Msg}, l.Pairwise (fun x y => x.off < y.off) →
    ∀ {a b : Msg}, a ∈ l → b ∈ l → a.off = b.off → a = b
  | [], _, _, _, ha, _, _ => by cases ha
  | m :: l, h, a, b, ha, hb, hab => by
    rw [List.pairwise_cons] at h
    rcases List.mem_cons.mp ha with ha | ha <;> rcases List.mem_cons.mp hb with hb | hb
    · rw [ha, hb]
    · have := h.1 b hb; rw [ha] at hab; omega
    · have := h.1 a ha; rw [hb] at hab; omega
    · exact eq_of_off_eq h.2 ha hb hab

theorem SameSet.rfl' {a b : List Int} (h : a = b) : Spec.SameSet a b := by
  subst h; exact ⟨fun _ h => h, fun _ h => h⟩

theorem SameSet.of_iff {a b : List Int} (h : ∀ x, x ∈ a ↔ x ∈ b) : Spec.SameSet a b :=
  ⟨fun x hx => (h x).mp hx, fun x hx => (h x).mpr hx⟩

/-! ### `FindDeletes`: the fold is `firstOfKeyNoValue` -/

theorem delStep_fold : ∀ (ms : List Msg) (seen : List (List UInt8)) (acc : List Int),
    (ms.foldl delStep (seen, acc)).2 = acc ++ Spec.offsOf (Spec.firstOfKeyNoValue ms seen)
  | [], seen, acc => by simp [Spec.firstOfKeyNoValue, Spec.offsOf]
  | m :: ms, seen, acc => by
    rw [List.foldl_cons]
    rw [show Spec.firstOfKeyNoValue (m :: ms) seen =
      (if seen.contains m.key then Spec.firstOfKeyNoValue ms seen
       else if m.val = [] then m :: Spec.firstOfKeyNoValue ms (m.key :: seen)
       else Spec.firstOfKeyNoValue ms (m.key :: seen)) from rfl]
    by_cases hc : seen.contains m.key = true
    · have hst : delStep (seen, acc) m = (seen, acc) := by unfold delStep; simp only [hc, if_true]
      rw [hst]
      simp only [hc, if_true]
      exact delStep_fold ms seen acc
    · by_cases hv : m.val = []
      · have hst : delStep (seen, acc) m = (m.key :: seen, acc ++ [m.off]) := by
          unfold delStep; simp only [hc, Bool.false_eq_true, if_false, hv, if_true]
        rw [hst]
        simp only [hc, Bool.false_eq_true, if_false, hv, if_true]
        rw [delStep_fold ms (m.key :: seen) (acc ++ [m.off])]
        simp [Spec.offsOf]
      · have hst : delStep (seen, acc) m = (m.key :: seen, acc) := by
          unfold delStep; simp only [hc, Bool.false_eq_true, if_false, hv]
        rw [hst]
        simp only [hc, Bool.false_eq_true, if_false, hv]
        exact delStep_fold ms (m.key :: seen) acc

/-! ### `FindUpdates`: the key ↦ last-offset map emits exactly the superseded messages -/

abbrev KV := List (List UInt8 × Int)

def KeysDistinct (kv : KV) : Prop := kv.Pairwise (fun a b => a.1 ≠ b.1)

theorem lookup_some_mem : ∀ {kv : KV} {k : List UInt8} {v : Int}, kv.lookup k = some v → (k, v) ∈ kv
  | [], _, _, h => by simp [List.lookup] at h
  | (k', b) :: kv, k, v, h => by
    rw [List.lookup_cons] at h
    by_cases hk : k = k'
    · subst hk
      simp only [beq_self_eq_true, Option.some.injEq] at h
      subst h; exact List.mem_cons_self
    · have : (k == k') = false := by simpa using hk
      simp only [this] at h
      exact List.mem_cons_of_mem _ (lookup_some_mem h)

theorem lookup_none_not_mem : ∀ {kv : KV} {k : List UInt8}, kv.lookup k = none → ∀ v, (k, v) ∉ kv
  | [], _, _, _ => by simp
  | (k', b) :: kv, k, h, v => by
    rw [List.lookup_cons] at h
    by_cases hk : k = k'
    · subst hk
      simp only [beq_self_eq_true] at h
      cases h
    · have hb : (k == k') = false := by simpa using hk
      simp only [hb] at h
      intro hm
      rcases List.mem_cons.mp hm with heq | hm
      · simp only [Prod.mk.injEq] at heq; exact hk heq.1
      · exact lookup_none_not_mem h v hm

theorem lookup_unique : ∀ {kv : KV}, KeysDistinct kv → ∀ {k : List UInt8} {v o : Int},
    kv.lookup k = some v → (k, o) ∈ kv → o = v
  | [], _, _, _, _, _, hm => by cases hm
  | (k', b) :: kv, hd, k, v, o, h, hm => by
    unfold KeysDistinct at hd
    rw [List.pairwise_cons] at hd
    rw [List.lookup_cons] at h
    by_cases hk : k = k'
    · subst hk
      simp only [beq_self_eq_true, Option.some.injEq] at h
      rcases List.mem_cons.mp hm with heq | hm
      · simp only [Prod.mk.injEq] at heq; rw [heq.2, h]
      · exact absurd rfl (hd.1 (k, o) hm)
    · have hb : (k == k') = false := by simpa using hk
      simp only [hb] at h
      rcases List.mem_cons.mp hm with heq | hm
      · simp only [Prod.mk.injEq] at heq; exact absurd heq.1 hk
      · exact lookup_unique hd.2 h hm

theorem mem_offsOf_hasLater_cons (m : Msg) (ms : List Msg) (x : Int) :
    x ∈ Spec.offsOf (Spec.hasLaterSameKey (m :: ms)) ↔
      ((∃ m' ∈ ms, m'.key = m.key) ∧ x = m.off) ∨ x ∈ Spec.offsOf (Spec.hasLaterSameKey ms) := by
  rw [show Spec.hasLaterSameKey (m :: ms) =
    (if ms.any (fun m' => m'.key == m.key) then m :: Spec.hasLaterSameKey ms
     else Spec.hasLaterSameKey ms) from rfl]
  by_cases ha : ms.any (fun m' => m'.key == m.key) = true
  · simp only [ha, if_true]
    have hex : ∃ m' ∈ ms, m'.key = m.key := by
      obtain ⟨m', hm', hk⟩ := List.any_eq_true.mp ha
      exact ⟨m', hm', by simpa using hk⟩
    simp only [Spec.offsOf, List.map_cons, List.mem_cons]
    constructor
    · rintro (h | h)
      · exact Or.inl ⟨hex, h⟩
      · exact Or.inr h
    · rintro (⟨_, h⟩ | h)
      · exact Or.inl h
      · exact Or.inr h
  · simp only [ha, Bool.false_eq_true, if_false]
    constructor
    · intro h; exact Or.inr h
    · rintro (⟨⟨m', hm', hk⟩, _⟩ | h)
      · exfalso; apply ha
        exact List.any_eq_true.mpr ⟨m', hm', by simpa using hk⟩
      · exact h

theorem updStep_fold_mem : ∀ (ms : List Msg) (kv : KV) (acc : List Int), KeysDistinct kv → ∀ x : Int,
    x ∈ (ms.foldl updStep (kv, acc)).2 ↔
      x ∈ acc ∨ (∃ m' ∈ ms, (m'.key, x) ∈ kv) ∨ x ∈ Spec.offsOf (Spec.hasLaterSameKey ms)
  | [], kv, acc, _, x => by
    simp [Spec.hasLaterSameKey, Spec.offsOf]
  | m :: ms, kv, acc, hd, x => by
    rw [List.foldl_cons, mem_offsOf_hasLater_cons]
    cases hlk : kv.lookup m.key with
    | none =>
      have hst : updStep (kv, acc) m = ((m.key, m.off) :: kv, acc) := by
        unfold updStep; simp only [hlk]
      have hnot := lookup_none_not_mem hlk
      have hd' : KeysDistinct ((m.key, m.off) :: kv) := by
        unfold KeysDistinct
        rw [List.pairwise_cons]
        refine ⟨?_, hd⟩
        intro b hb heq
        apply hnot b.2
        simp only at heq
        rw [heq]; exact hb
      rw [hst, updStep_fold_mem ms _ acc hd' x]
      constructor
      · rintro (h | ⟨m', hm', h⟩ | h)
        · exact Or.inl h
        · rcases List.mem_cons.mp h with heq | h
          · simp only [Prod.mk.injEq] at heq
            exact Or.inr (Or.inr (Or.inl ⟨⟨m', hm', heq.1⟩, heq.2⟩))
          · exact Or.inr (Or.inl ⟨m', List.mem_cons_of_mem _ hm', h⟩)
        · exact Or.inr (Or.inr (Or.inr h))
      · rintro (h | ⟨m', hm', h⟩ | ⟨⟨m', hm', hk⟩, hx⟩ | h)
        · exact Or.inl h
        · rcases List.mem_cons.mp hm' with rfl | hm'
          · exact absurd h (hnot x)
          · exact Or.inr (Or.inl ⟨m', hm', List.mem_cons_of_mem _ h⟩)
        · refine Or.inr (Or.inl ⟨m', hm', ?_⟩)
          rw [hk, hx]; exact List.mem_cons_self
        · exact Or.inr (Or.inr h)
    | some prev =>
      have hst : updStep (kv, acc) m =
          ((m.key, m.off) :: kv.filter (fun e => e.1 != m.key), acc ++ [prev]) := by
        unfold updStep; simp only [hlk]
      have hprev := lookup_some_mem hlk
      have hd' : KeysDistinct ((m.key, m.off) :: kv.filter (fun e => e.1 != m.key)) := by
        unfold KeysDistinct
        rw [List.pairwise_cons]
        refine ⟨?_, List.Pairwise.filter _ hd⟩
        intro b hb heq
        have := (List.mem_filter.mp hb).2
        simp only [bne_iff_ne, ne_eq] at this
        exact this heq.symm
      rw [hst, updStep_fold_mem ms _ _ hd' x]
      constructor
      · rintro (h | ⟨m', hm', h⟩ | h)
        · rcases List.mem_append.mp h with h | h
          · exact Or.inl h
          · have hx : x = prev := by simpa using h
            subst hx
            exact Or.inr (Or.inl ⟨m, List.mem_cons_self, hprev⟩)
        · rcases List.mem_cons.mp h with heq | h
          · simp only [Prod.mk.injEq] at heq
            exact Or.inr (Or.inr (Or.inl ⟨⟨m', hm', heq.1⟩, heq.2⟩))
          · exact Or.inr (Or.inl ⟨m', List.mem_cons_of_mem _ hm', (List.mem_filter.mp h).1⟩)
        · exact Or.inr (Or.inr (Or.inr h))
      · rintro (h | ⟨m', hm', h⟩ | ⟨⟨m', hm', hk⟩, hx⟩ | h)
        · exact Or.inl (List.mem_append_left _ h)
        · by_cases hk : m'.key = m.key
          · rw [hk] at h
            have := lookup_unique hd hlk h
            exact Or.inl (List.mem_append_right _ (by simp [this]))
          · rcases List.mem_cons.mp hm' with rfl | hm'
            · exact absurd rfl hk
            · refine Or.inr (Or.inl ⟨m', hm', List.mem_cons_of_mem _ ?_⟩)
              exact List.mem_filter.mpr ⟨h, by simpa using hk⟩
        · refine Or.inr (Or.inl ⟨m', hm', ?_⟩)
          rw [hk, hx]; exact List.mem_cons_self
        · exact Or.inr (Or.inr h)

theorem updStep_fold_sameSet (ms : List Msg) :
    Spec.SameSet (ms.foldl updStep ([], [])).2 (Spec.offsOf (Spec.hasLaterSameKey ms)) := by
  apply SameSet.of_iff
  intro x
  rw [updStep_fold_mem ms [] [] List.Pairwise.nil x]
  simp

/-! ### 3. the scan loop -/

/-- **3.** Hoare rule for `Helpers.scanLoop`. `F` is what the starting cursor has to see; the
loop invariant `I seen st` relates the state to the part `seen` of `F` fed so far (in
chunks `ms` of at most 32 messages); `Q` must follow at each of the three exits: `break`
(from `step`), `cont` failing, and the cursor reaching `maxOff` (then every message not yet
seen is at or above `maxOff`).

The loop never returns an API error. It returns the fuel-exhausted `.err .panic` only when the
fuel is less than `(maxOff - off).toNat + 1` or `maxOff` is beyond the next offset. -/
theorem scanLoop_rule {σ : Type} (maxOff : Int) (cont : σ → Bool) (step : σ → List Msg → σ × Bool)
    (F : List Msg) (I : List Msg → σ → Prop) (Q : σ → Prop)
    (hstep : ∀ seen ms rest st, seen ++ ms ++ rest = F → I seen st → cont st = true →
        ms.length ≤ 32 →
        ((step st ms).2 = false → I (seen ++ ms) (step st ms).1) ∧
        ((step st ms).2 = true → Q (step st ms).1))
    (hcont : ∀ seen rest st, seen ++ rest = F → I seen st → cont st = false → Q st)
    (hmax : ∀ seen rest st, seen ++ rest = F → I seen st → (∀ m ∈ rest, maxOff ≤ m.off) → Q st) :
    ∀ (fuel : Nat) (l : Log) (off : Int) (st : σ) (seen : List Msg), Inv l →
      off ≤ (abs l).next → off ≠ offsetNewest →
      seen ++ Spec.fromOff (abs l) off = F → I seen st →
      ∃ l', Loaded l l' ∧
        ((∃ st', scanLoop maxOff cont step fuel l off st = (l', .ok st') ∧ Q st') ∨
         (scanLoop maxOff cont step fuel l off st = (l', .err .panic) ∧
           (fuel < (maxOff - off).toNat + 1 ∨ (abs l).next < maxOff)))
  | 0, l, off, st, seen, h, _, _, _, _ => by
    refine ⟨l, Loaded.refl h, Or.inr ⟨rfl, Or.inl (by omega)⟩⟩
  | fuel + 1, l, off, st, seen, h, hle, hn, hF, hI => by
    unfold scanLoop
    by_cases hc : off < maxOff ∧ cont st = true
    · simp only [hc, and_self, if_true]
      obtain ⟨nxt, ms, l1, hcons, hinv1, habs1, hsplit, hprog, hnle, hld, hnn, hlen, _, _⟩ :=
        consume_chunk l h off 32 (by omega) hle hn
      rw [hcons]
      simp only
      have hF' : seen ++ ms ++ Spec.fromOff (abs l) nxt = F := by
        rw [List.append_assoc, ← hsplit, hF]
      obtain ⟨hs1, hs2⟩ := hstep seen ms _ st hF' hI hc.2 hlen
      cases hbrk : (step st ms).2 with
      | true =>
        refine ⟨l1, hld, Or.inl ⟨(step st ms).1, ?_, hs2 hbrk⟩⟩
        simp only [if_true]
      | false =>
        obtain ⟨l', hld', hres⟩ := scanLoop_rule maxOff cont step F I Q hstep hcont hmax fuel l1 nxt
          (step st ms).1 (seen ++ ms) hinv1 (by rw [habs1]; exact hnle)
          (by unfold offsetNewest; omega) (by rw [habs1]; exact hF') (hs1 hbrk)
        refine ⟨l', hld.trans hld', ?_⟩
        simp only [Bool.false_eq_true, if_false]
        rcases hres with hok | ⟨hp, hfu⟩
        · exact Or.inl hok
        · refine Or.inr ⟨hp, ?_⟩
          rw [habs1] at hfu
          have hlt := hc.1
          by_cases hnm : (abs l).next < maxOff
          · exact Or.inr hnm
          · left
            rcases hfu with hfu | hfu
            · rcases hprog with hp | ⟨hp, _⟩ <;> omega
            · omega
    · simp only [hc, if_false]
      refine ⟨l, Loaded.refl h, Or.inl ⟨st, rfl, ?_⟩⟩
      by_cases hct : cont st = true
      · apply hmax seen _ st hF hI
        intro m hm
        have := (Spec.mem_fromOff.mp hm).2
        have : ¬ off < maxOff := fun h => hc ⟨h, hct⟩
        omega
      · exact hcont seen _ st hF hI (by simpa using hct)

/-- Total form of the rule: enough fuel and `maxOff ≤ next`. -/
theorem scanLoop_total {σ : Type} (maxOff : Int) (cont : σ → Bool) (step : σ → List Msg → σ × Bool)
    (F : List Msg) (I : List Msg → σ → Prop) (Q : σ → Prop)
    (hstep : ∀ seen ms rest st, seen ++ ms ++ rest = F → I seen st → cont st = true →
        ms.length ≤ 32 →
        ((step st ms).2 = false → I (seen ++ ms) (step st ms).1) ∧
        ((step st ms).2 = true → Q (step st ms).1))
    (hcont : ∀ seen rest st, seen ++ rest = F → I seen st → cont st = false → Q st)
    (hmax : ∀ seen rest st, seen ++ rest = F → I seen st → (∀ m ∈ rest, maxOff ≤ m.off) → Q st)
    (fuel : Nat) (l : Log) (off : Int) (st : σ) (seen : List Msg) (h : Inv l)
    (hle : off ≤ (abs l).next) (hn : off ≠ offsetNewest)
    (hF : seen ++ Spec.fromOff (abs l) off = F) (hI : I seen st)
    (hmaxle : maxOff ≤ (abs l).next) (hfuel : (maxOff - off).toNat + 1 ≤ fuel) :
    ∃ l' st', scanLoop maxOff cont step fuel l off st = (l', .ok st') ∧ Loaded l l' ∧ Q st' := by
  obtain ⟨l', hld, hres⟩ := scanLoop_rule maxOff cont step F I Q hstep hcont hmax fuel l off st seen
    h hle hn hF hI
  rcases hres with ⟨st', hr, hq⟩ | ⟨_, hbad⟩
  · exact ⟨l', st', hr, hld, hq⟩
  · omega

/-- `Helpers.fuelFor maxOff` is enough from `OffsetOldest` unless `maxOff ≤ -4`. -/
theorem fuelFor_enough (maxOff : Int) (h : -4 < maxOff) :
    (maxOff - offsetOldest).toNat + 1 ≤ fuelFor maxOff := by
  unfold fuelFor offsetOldest; omega

/-- With `maxOff ≤ -4` the model's loop has no fuel at all: it reports the fuel-exhausted
`.err .panic` where the Go loop simply does not iterate. -/
theorem scanLoop_no_fuel {σ : Type} (maxOff : Int) (h : maxOff ≤ -4) (cont : σ → Bool)
    (step : σ → List Msg → σ × Bool) (l : Log) (off : Int) (st : σ) :
    scanLoop maxOff cont step (fuelFor maxOff) l off st = (l, .err .panic) := by
  have : fuelFor maxOff = 0 := by unfold fuelFor; omega
  rw [this]; rfl

/-! ### steps of the form "fold over the messages while `p` holds, break at the first failure" -/

/-- The step shared by `FindByAge`, `FindUpdates`, `FindDeletes`: `g` folds the messages
taken into the state. -/
def twStep {τ : Type} (p : Msg → Bool) (g : τ → List Msg → τ) (st : τ) (msgs : List Msg) : τ × Bool :=
  (g st (msgs.takeWhile p), decide ((msgs.takeWhile p).length < msgs.length))

/-- The chunked fold with early exit equals the fold over `takeWhile p` of a prefix `P` of the
live messages; the prefix either contains the first message failing `p` or everything below
`maxOff`. -/
theorem scanLoop_takeWhile {τ : Type} (maxOff : Int) (p : Msg → Bool) (g : τ → List Msg → τ)
    (hg : ∀ st a b, g (g st a) b = g st (a ++ b)) (hg0 : ∀ st, g st [] = st)
    (fuel : Nat) (l : Log) (h : Inv l) (st0 : τ) :
    ∃ l', Loaded l l' ∧
      ((∃ st', scanLoop maxOff (fun _ => true) (twStep p g) fuel l offsetOldest st0 = (l', .ok st') ∧
          ∃ P R, P ++ R = (abs l).live ∧ st' = g st0 (P.takeWhile p) ∧
            ((∃ m ∈ P, p m = false) ∨ ∀ m ∈ R, maxOff ≤ m.off)) ∨
       (scanLoop maxOff (fun _ => true) (twStep p g) fuel l offsetOldest st0 = (l', .err .panic) ∧
          (fuel < (maxOff - offsetOldest).toNat + 1 ∨ (abs l).next < maxOff))) := by
  have hwf := abs_wf l h
  have hnn := abs_next_nonneg l h
  have hall : Spec.fromOff (abs l) offsetOldest = (abs l).live :=
    Spec.fromOff_nonpos hwf (by decide)
  apply scanLoop_rule maxOff (fun _ => true) (twStep p g) (abs l).live
    (fun seen st => st = g st0 seen ∧ ∀ m ∈ seen, p m = true)
    (fun st' => ∃ P R, P ++ R = (abs l).live ∧ st' = g st0 (P.takeWhile p) ∧
            ((∃ m ∈ P, p m = false) ∨ ∀ m ∈ R, maxOff ≤ m.off))
    ?_ ?_ ?_ fuel l offsetOldest st0 [] h (by unfold offsetOldest; omega) (by decide)
    (by rw [hall, List.nil_append]) ⟨(hg0 st0).symm, by simp⟩
  · intro seen ms rest st hF hI _ _
    obtain ⟨hst, hp⟩ := hI
    unfold twStep
    simp only [decide_eq_false_iff_not, decide_eq_true_eq]
    constructor
    · intro hlen
      obtain ⟨hall', heq⟩ := takeWhile_length_eq p ms hlen
      rw [heq, hst, hg]
      refine ⟨rfl, ?_⟩
      intro m hm
      rcases List.mem_append.mp hm with hm | hm
      · exact hp m hm
      · exact hall' m hm
    · intro hlen
      obtain ⟨a, ha, hpa⟩ := takeWhile_length_lt p ms hlen
      refine ⟨seen ++ ms, rest, hF, ?_, Or.inl ⟨a, List.mem_append_right _ ha, hpa⟩⟩
      rw [List.takeWhile_append_of_pos hp, hst, hg]
  · intro seen rest st _ _ hc
    cases hc
  · intro seen rest st hF hI hge
    obtain ⟨hst, hp⟩ := hI
    refine ⟨seen, rest, hF, ?_, Or.inr hge⟩
    have : seen.takeWhile p = seen := by
      have := List.takeWhile_append_of_pos (l₂ := []) hp
      simpa using this
    rw [this, hst]

/-- Total form with `maxOff = next` (`FindUpdates`, `FindDeletes`): the result is the fold over
`live.takeWhile p`. -/
theorem scanLoop_takeWhile_next {τ : Type} (p : Msg → Bool) (g : τ → List Msg → τ)
    (hg : ∀ st a b, g (g st a) b = g st (a ++ b)) (hg0 : ∀ st, g st [] = st)
    (l : Log) (h : Inv l) (st0 : τ) :
    ∃ l', Loaded l l' ∧
      scanLoop (abs l).next (fun _ => true) (twStep p g) (fuelFor (abs l).next) l offsetOldest st0 =
        (l', .ok (g st0 ((abs l).live.takeWhile p))) := by
  have hwf := abs_wf l h
  have hnn := abs_next_nonneg l h
  obtain ⟨l', hld, hres⟩ := scanLoop_takeWhile (abs l).next p g hg hg0 (fuelFor (abs l).next) l h st0
  refine ⟨l', hld, ?_⟩
  rcases hres with ⟨st', hr, P, R, hPR, hst, hcase⟩ | ⟨_, hbad⟩
  · rw [hr, hst]
    rcases hcase with hneg | hge
    · rw [← hPR, takeWhile_append_of_neg p P R hneg]
    · have hR : R = [] := by
        apply List.eq_nil_iff_forall_not_mem.mpr
        intro m hm
        have := hge m hm
        have := (hwf.2 m (by rw [← hPR]; exact List.mem_append_right _ hm)).2
        omega
      rw [← hPR, hR, List.append_nil]
  · have := fuelFor_enough (abs l).next (by omega)
    omega

/-! ### reads before the loop keep the invariant -/

theorem withIndex_some_loaded (l : Log) (hinv : Inv l) {i : Nat} {l1 : Log} {s : Seg}
    {its : List Item} {c : RCtx} (hw : withIndex l i = some (l1, s, its, c)) : Loaded l l1 := by
  rcases withIndex_loaded l i hinv with ⟨hw', _⟩ | ⟨l1', s', its', c', hw', hl⟩
  · rw [hw] at hw'; cases hw'
  · rw [hw] at hw'
    simp only [Option.some.injEq, Prod.mk.injEq] at hw'
    rw [hw'.1]; exact hl

theorem getByTime_go_loaded (ts : Int) (n : Nat) :
    ∀ (i : Nat) (l : Log), Inv l → Loaded l (Log.getByTime.go ts n l i).1
  | 0, l, h => by unfold Log.getByTime.go; exact Loaded.refl h
  | i + 1, l, h => by
    unfold Log.getByTime.go
    rcases withIndex_loaded l i h with ⟨hw, _⟩ | ⟨l1, s, its, c, hw, hl1⟩
    · rw [hw]; exact Loaded.refl h
    · rw [hw]
      simp only
      have ih := getByTime_go_loaded ts n i l1 hl1.inv
      repeat' split
      all_goals first
        | exact hl1
        | exact hl1.trans ih
        | exact hl1.trans (withIndex_some_loaded l1 hl1.inv (by assumption))

/-- `GetByTime` only loads indexes. -/
theorem getByTime_loaded' (l : Log) (h : Inv l) (ts : Int) : Loaded l (l.getByTime ts).1 := by
  unfold Log.getByTime
  split
  · exact Loaded.refl h
  · exact getByTime_go_loaded ts _ _ l h

/-! ### 4. `FindByOffset` -/

/-- What `FindByOffset` computes (for `before ≥ -3`; see `findByOffset_panic`). -/
theorem findByOffset_eq (l : Log) (h : Inv l) (before : Int) (hb : -4 < before) :
    ∃ l', Loaded l l' ∧ findByOffset l before = (l', .ok
      (if before = offsetOldest then [] else
        Spec.offsOf ((abs l).live.filter (fun m => decide (m.off <
          (if before = offsetNewest then (abs l).next else before)))))) := by
  unfold findByOffset
  by_cases ho : before = offsetOldest
  · simp only [ho, if_true]; exact ⟨l, Loaded.refl h, rfl⟩
  · simp only [ho, if_false]
    obtain ⟨hno, hld0⟩ := nextOffset_spec l h
    cases hnx : l.nextOffset with
    | mk l1 r =>
      rw [hnx] at hno hld0
      simp only at hno hld0
      subst hno
      simp only
      have habs := hld0.abs
      have hwf := abs_wf l h
      have hnn := abs_next_nonneg l h
      generalize hbdef : (if before = offsetNewest then (abs l).next else before) = b
      generalize hmdef : (if before = offsetNewest then (abs l).next
        else if (abs l).next > before then before else (abs l).next) = maxOff
      have hmle : maxOff ≤ (abs l).next := by
        rw [← hmdef]; split
        · omega
        · split <;> omega
      have hmlow : -4 < maxOff := by
        rw [← hmdef]; split
        · omega
        · split <;> omega
      -- beyond `maxOff` nothing is below `b`
      have hbm : ∀ m ∈ (abs l).live, maxOff ≤ m.off → ¬ m.off < b := by
        intro m hm hge
        have := (hwf.2 m hm).2
        rw [← hbdef]; rw [← hmdef] at hge
        split at hge
        · next hnw => simp only [hnw, if_true]; omega
        · next hnw =>
          simp only [hnw, if_false]
          split at hge <;> omega
      have hall : Spec.fromOff (abs l1) offsetOldest = (abs l).live := by
        rw [habs]; exact Spec.fromOff_nonpos hwf (by decide)
      obtain ⟨l', st', hres, hld, hq⟩ := scanLoop_total maxOff (fun _ => true)
        (fun acc msgs => (acc ++ ((msgs.takeWhile (fun m => decide (m.off < b))).map (·.off)), false))
        (abs l).live
        (fun seen acc => acc = Spec.offsOf (seen.filter (fun m => decide (m.off < b))))
        (fun acc => acc = Spec.offsOf ((abs l).live.filter (fun m => decide (m.off < b))))
        (by
          intro seen ms rest acc hF hI _ _
          simp only
          refine ⟨fun _ => ?_, fun hc => by cases hc⟩
          have hpw : (seen ++ ms ++ rest).Pairwise (fun x y => x.off < y.off) := by
            rw [hF]; exact hwf.1
          have hms : ms.Pairwise (fun x y => x.off < y.off) :=
            (List.pairwise_append.mp (List.pairwise_append.mp hpw).1).2.1
          rw [takeWhile_lt_eq_filter b ms hms, hI, List.filter_append]
          simp [Spec.offsOf])
        (by intro seen rest st _ _ hc; cases hc)
        (by
          intro seen rest acc hF hI hge
          rw [hI, ← hF, List.filter_append]
          have : rest.filter (fun m => decide (m.off < b)) = [] := by
            rw [List.filter_eq_nil_iff]
            intro m hm
            have := hbm m (by rw [← hF]; exact List.mem_append_right _ hm) (hge m hm)
            simpa using this
          rw [this, List.append_nil])
        (fuelFor maxOff) l1 offsetOldest [] [] hld0.inv
        (by rw [habs]; unfold offsetOldest; omega) (by decide)
        (by rw [hall, List.nil_append]) (by simp [Spec.offsOf])
        (by rw [habs]; exact hmle) (fuelFor_enough maxOff hmlow)
      generalize hsl : scanLoop _ _ _ _ _ _ _ = res
      have hres' : res = (l', .ok st') := hsl.symm.trans hres
      rw [hres', hq]
      exact ⟨l', hld0.trans hld, rfl⟩

/-- **4.** `FindByOffset` against the L0 relation, for every `before ≥ -3` (this covers
`OffsetOldest`, `OffsetNewest` and every real offset). -/
theorem findByOffset_ok (l : Log) (h : Inv l) (before : Int) (hb : -4 < before) :
    Spec.FindByOffsetOK (abs l) before (findByOffset l before).2 ∧
    Inv (findByOffset l before).1 ∧ abs (findByOffset l before).1 = abs l := by
  obtain ⟨l', hld, heq⟩ := findByOffset_eq l h before hb
  rw [heq]
  refine ⟨?_, hld.inv, hld.abs⟩
  unfold Spec.FindByOffsetOK
  simp only
  split
  · rfl
  · exact SameSet.rfl' rfl

/-- The model artefact at `before ≤ -4`: `Helpers.fuelFor` gives the loop no fuel, so the model
reports `.err .panic` (the Go loop just does not iterate and returns the empty set, which
is what `FindByOffsetOK` asks for). -/
theorem findByOffset_panic (l : Log) (h : Inv l) (before : Int) (hb : before ≤ -4) :
    (findByOffset l before).2 = .err .panic ∧ ¬ Spec.FindByOffsetOK (abs l) before (findByOffset l before).2 := by
  have hnn := abs_next_nonneg l h
  have hres : (findByOffset l before).2 = .err .panic := by
    unfold findByOffset
    have ho : before ≠ offsetOldest := by unfold offsetOldest; omega
    have hnw : before ≠ offsetNewest := by unfold offsetNewest; omega
    simp only [ho, if_false, hnw]
    obtain ⟨hno, _⟩ := nextOffset_spec l h
    cases hnx : l.nextOffset with
    | mk l1 r =>
      rw [hnx] at hno
      simp only at hno
      subst hno
      simp only
      have hgt : (abs l).next > before := by omega
      simp only [hgt, if_true]
      rw [scanLoop_no_fuel before hb]
  refine ⟨hres, ?_⟩
  rw [hres]
  unfold Spec.FindByOffsetOK
  simp

/-! ### 5. `FindUpdates` -/

theorem findUpdates_eq (l : Log) (h : Inv l) (t : Int) :
    ∃ l', Loaded l l' ∧ findUpdates l t =
      (l', .ok ((Spec.scanned (abs l) t).foldl updStep ([], [])).2) := by
  obtain ⟨hno, hld0⟩ := nextOffset_spec l h
  unfold findUpdates
  cases hnx : l.nextOffset with
  | mk l1 r =>
    rw [hnx] at hno hld0
    simp only at hno hld0
    subst hno
    simp only
    obtain ⟨l', hld, hres⟩ := scanLoop_takeWhile_next (fun m => decide (m.time ≤ t))
      (fun st xs => xs.foldl updStep st) (by intro st a b; simp [List.foldl_append])
      (by intro st; rfl) l1 hld0.inv ([], [])
    rw [hld0.abs] at hres
    generalize hsl : scanLoop _ _ _ _ _ _ _ = res
    have hres' : res = _ := hsl.symm.trans hres
    rw [hres']
    exact ⟨l', hld0.trans hld, rfl⟩

/-- **5.** -/
theorem findUpdates_ok (l : Log) (h : Inv l) (t : Int) :
    Spec.FindUpdatesOK (abs l) t (findUpdates l t).2 ∧
    Inv (findUpdates l t).1 ∧ abs (findUpdates l t).1 = abs l := by
  obtain ⟨l', hld, heq⟩ := findUpdates_eq l h t
  rw [heq]
  exact ⟨updStep_fold_sameSet _, hld.inv, hld.abs⟩

/-! ### 6. `FindDeletes` -/

theorem findDeletes_eq (l : Log) (h : Inv l) (t : Int) :
    ∃ l', Loaded l l' ∧ findDeletes l t =
      (l', .ok (Spec.offsOf (Spec.firstOfKeyNoValue (Spec.scanned (abs l) t) []))) := by
  obtain ⟨hno, hld0⟩ := nextOffset_spec l h
  unfold findDeletes
  cases hnx : l.nextOffset with
  | mk l1 r =>
    rw [hnx] at hno hld0
    simp only at hno hld0
    subst hno
    simp only
    obtain ⟨l', hld, hres⟩ := scanLoop_takeWhile_next (fun m => decide (m.time ≤ t))
      (fun st xs => xs.foldl delStep st) (by intro st a b; simp [List.foldl_append])
      (by intro st; rfl) l1 hld0.inv ([], [])
    rw [hld0.abs] at hres
    generalize hsl : scanLoop _ _ _ _ _ _ _ = res
    have hres' : res = _ := hsl.symm.trans hres
    rw [hres']
    refine ⟨l', hld0.trans hld, ?_⟩
    have := delStep_fold (Spec.scanned (abs l) t) [] []
    rw [List.nil_append] at this
    rw [← this]
    rfl

/-- **6.** (with equality, not only the same set). -/
theorem findDeletes_ok (l : Log) (h : Inv l) (t : Int) :
    Spec.FindDeletesOK (abs l) t (findDeletes l t).2 ∧
    Inv (findDeletes l t).1 ∧ abs (findDeletes l t).1 = abs l := by
  obtain ⟨l', hld, heq⟩ := findDeletes_eq l h t
  rw [heq]
  exact ⟨SameSet.rfl' rfl, hld.inv, hld.abs⟩

/-! ### 7. `FindByAge` -/

/-- The bound `FindByAge` scans up to: the offset `GetByTime` found, else `NextOffset`. -/
def ageBound (l1 : Log) (r : Out Msg) : Log × Out Int :=
  match r with
  | .ok m => (l1, .ok m.off)
  | .err .noIndex => l1.nextOffset
  | .err .notFound => l1.nextOffset
  | .err e => (l1, .err e)

def ageTail (before : Int) (bound : Log × Out Int) : Log × Out (List Int) :=
  match bound with
  | (l2, .err e) => (l2, .err e)
  | (l2, .ok maxOff) =>
    scanLoop maxOff (fun _ => true)
      (fun acc msgs =>
        let tk := msgs.takeWhile (fun m => decide (m.time ≤ before))
        (acc ++ tk.map (·.off), decide (tk.length < msgs.length)))
      (fuelFor maxOff) l2 offsetOldest []

theorem findByAge_unfold (l : Log) (before : Int) :
    findByAge l before = ageTail before (ageBound (l.getByTime before).1 (l.getByTime before).2) := rfl

theorem ageBound_loaded (l1 : Log) (h : Inv l1) (r : Out Msg) : Loaded l1 (ageBound l1 r).1 := by
  have hn := (nextOffset_spec l1 h).2
  unfold ageBound
  cases r with
  | ok m => exact Loaded.refl h
  | err e => cases e <;> first | exact hn | exact Loaded.refl h

theorem ageTail_spec (before : Int) (b : Log × Out Int) (h : Inv b.1) :
    Loaded b.1 (ageTail before b).1 ∧
    ∀ offs, (ageTail before b).2 = .ok offs →
      ∃ P R, P ++ R = (abs b.1).live ∧
        offs = Spec.offsOf (P.takeWhile (fun m => decide (m.time ≤ before))) := by
  obtain ⟨l2, r⟩ := b
  simp only at h ⊢
  cases r with
  | err e =>
    unfold ageTail
    exact ⟨Loaded.refl h, by intro offs ho; cases ho⟩
  | ok maxOff =>
    unfold ageTail
    simp only
    obtain ⟨l', hld, hres⟩ := scanLoop_takeWhile maxOff (fun m => decide (m.time ≤ before))
      (fun (acc : List Int) xs => acc ++ xs.map (·.off)) (by intro st a b; simp)
      (by intro st; simp) (fuelFor maxOff) l2 h []
    generalize hsl : scanLoop _ _ _ _ _ _ _ = res
    rcases hres with ⟨st', hr, P, R, hPR, hst, _⟩ | ⟨hr, _⟩
    · have hres' : res = _ := hsl.symm.trans hr
      rw [hres']
      refine ⟨hld, ?_⟩
      intro offs ho
      simp only [Out.ok.injEq] at ho
      refine ⟨P, R, hPR, ?_⟩
      rw [← ho, hst]
      simp [Spec.offsOf]
    · have hres' : res = _ := hsl.symm.trans hr
      rw [hres']
      exact ⟨hld, by intro offs ho; cases ho⟩

/-- What `FindByAge` returns when it returns: the offsets of `takeWhile (time ≤ before)` of a
prefix of the live messages. It only loads indexes. -/
theorem findByAge_res (l : Log) (h : Inv l) (before : Int) :
    Loaded l (findByAge l before).1 ∧
    ∀ offs, (findByAge l before).2 = .ok offs →
      ∃ P R, P ++ R = (abs l).live ∧
        offs = Spec.offsOf (P.takeWhile (fun m => decide (m.time ≤ before))) := by
  rw [findByAge_unfold]
  have h1 := getByTime_loaded' l h before
  have h2 := ageBound_loaded _ h1.inv (l.getByTime before).2
  obtain ⟨h3, h4⟩ := ageTail_spec before (ageBound (l.getByTime before).1 (l.getByTime before).2) h2.inv
  refine ⟨(h1.trans h2).trans h3, ?_⟩
  intro offs ho
  obtain ⟨P, R, hPR, hoffs⟩ := h4 offs ho
  rw [h2.abs, h1.abs] at hPR
  exact ⟨P, R, hPR, hoffs⟩

/-- **7.** When `FindByAge` succeeds it returns a prefix of the live messages that holds no
message newer than `t` — `FindByAgeOK` without its monotone clause. -/
theorem findByAge_prefix (l : Log) (h : Inv l) (t : Int) :
    match (findByAge l t).2 with
    | .ok offs =>
      (∃ n, Spec.SameSet offs (Spec.offsOf ((abs l).live.take n))) ∧
      (∀ m ∈ (abs l).live, m.off ∈ offs → m.time ≤ t)
    | .err _ => True := by
  obtain ⟨_, hres⟩ := findByAge_res l h t
  have hwf := abs_wf l h
  cases hr : (findByAge l t).2 with
  | err e => trivial
  | ok offs =>
    simp only
    obtain ⟨P, R, hPR, hoffs⟩ := hres offs hr
    have hpre : P.takeWhile (fun m => decide (m.time ≤ t)) <+: (abs l).live :=
      (List.takeWhile_prefix _).trans ⟨R, hPR⟩
    refine ⟨⟨_, SameSet.rfl' (by rw [hoffs, List.prefix_iff_eq_take.mp hpre])⟩, ?_⟩
    intro m hm hmo
    rw [hoffs] at hmo
    obtain ⟨m', hm', hoff⟩ := List.mem_map.mp hmo
    obtain ⟨hm'P, hpm'⟩ := mem_takeWhile _ _ _ hm'
    have hm'live : m' ∈ (abs l).live := by rw [← hPR]; exact List.mem_append_left _ hm'P
    have := eq_of_off_eq hwf.1 hm'live hm hoff
    subst this
    simpa using hpm'

/-- The same as the L0 relation with `mono := false`. -/
theorem findByAge_ok_of_ok (l : Log) (h : Inv l) (t : Int) (offs : List Int)
    (hr : (findByAge l t).2 = .ok offs) :
    Spec.FindByAgeOK false (abs l) t (.ok offs) ∧
    Inv (findByAge l t).1 ∧ abs (findByAge l t).1 = abs l := by
  obtain ⟨hld, hres⟩ := findByAge_res l h t
  have hp := findByAge_prefix l h t
  rw [hr] at hp
  simp only at hp
  refine ⟨?_, hld.inv, hld.abs⟩
  unfold Spec.FindByAgeOK
  simp only
  refine ⟨?_, hp.2, by intro hc; cases hc⟩
  obtain ⟨P, R, hPR, hoffs⟩ := hres offs hr
  have hpre : P.takeWhile (fun m => decide (m.time ≤ t)) <+: (abs l).live :=
    (List.takeWhile_prefix _).trans ⟨R, hPR⟩
  refine ⟨⟨(P.takeWhile (fun m => decide (m.time ≤ t))).length, ?_⟩, ?_⟩
  · have := hpre.length_le; omega
  · have heq := List.prefix_iff_eq_take.mp hpre
    exact SameSet.rfl' (by rw [hoffs]; exact congrArg Spec.offsOf heq)

/-! ### edge cases found while proving (reported, `Spec.lean` untouched) -/

/-- The L0 relation `ConsumeOK` alone does not give the cursor theorem from a negative start:
from `OffsetOldest` it allows the empty chunk with `nxt = OffsetNewest` (or any `nxt ≤` the
first live offset) on a log that has messages; the scan would then end having seen nothing.
The model never does this (`consume_chunk`: `0 ≤ nxt`, and an empty chunk only when caught
up), which is what `scan_visits_all` uses beyond `consume_ok`. -/
theorem consumeOK_allows_lost_cursor :
    ∃ s : Spec, Spec.WF s ∧ s.live ≠ [] ∧
      Spec.ConsumeOK s offsetOldest 1 (.ok (offsetNewest, [])) ∧
      Spec.ConsumeOK s offsetOldest 1 (.ok (0, [])) :=
  ⟨⟨[⟨0, 0, [], []⟩], 1⟩, by decide⟩

/-- An empty read-write log with the time index on. -/
def emptyTimesLog : Log := ⟨⟨false, ⟨true, false⟩, false, 1000, Ver.v2, false⟩,
  [⟨0, Ver.v2, [], some ⟨Ver.v2, []⟩, some []⟩], 0, 0⟩

theorem emptyTimesLog_inv : Inv emptyTimesLog := by
  refine ⟨⟨by decide, ?_, ?_, ?_, ?_, ?_⟩, ?_, ?_, ?_⟩
  · intro br hbr; simp [shape, emptyTimesLog] at hbr; subst hbr; exact List.Pairwise.nil
  · intro br hbr m hm; simp [shape, emptyTimesLog] at hbr; subst hbr; cases hm
  · simp [shape, emptyTimesLog]
  · intro br hbr; simp [shape, emptyTimesLog] at hbr
  · intro br hbr; simp [shape, emptyTimesLog] at hbr; subst hbr; decide
  · intro s hs
    simp [emptyTimesLog] at hs
    subst hs
    constructor
    · intro its hi; simp at hi; subst hi; rfl
    · intro f hf; simp at hf; subst hf; rfl
  · intro _; rfl
  · intro _ hd hh
    simp [emptyTimesLog] at hh
    subst hh
    exact ⟨⟨[], rfl, ⟨Ver.v2, []⟩, rfl, rfl⟩⟩

/-- `FindByAgeOK` rejects every error, but on an empty log with the time index on `GetByTime`
answers `ErrInvalidOffset` (as `GetByTimeOK` allows), which `FindByAge` passes on. -/
theorem findByAge_empty_times :
    Inv emptyTimesLog ∧ (abs emptyTimesLog).live = [] ∧
    (findByAge emptyTimesLog 5).2 = .err .invalidOffset ∧
    ∀ mono, ¬ Spec.FindByAgeOK mono (abs emptyTimesLog) 5 (findByAge emptyTimesLog 5).2 := by
  have hres : (findByAge emptyTimesLog 5).2 = .err .invalidOffset := by decide
  refine ⟨emptyTimesLog_inv, rfl, hres, ?_⟩
  intro mono
  rw [hres]
  unfold Spec.FindByAgeOK
  simp
end Klev

#print axioms Klev.abs_wf
#print axioms Klev.nextOffset_spec
#print axioms Klev.Spec.ConsumeOK.chunk
#print axioms Klev.consume_empty_next
#print axioms Klev.consume_chunk
#print axioms Klev.scan_visits_all
#print axioms Klev.scanLoop_rule
#print axioms Klev.scanLoop_total
#print axioms Klev.scanLoop_takeWhile
#print axioms Klev.findByOffset_ok
#print axioms Klev.findByOffset_panic
#print axioms Klev.findUpdates_ok
#print axioms Klev.findDeletes_ok
#print axioms Klev.getByTime_loaded'
#print axioms Klev.findByAge_prefix
#print axioms Klev.findByAge_ok_of_ok
#print axioms Klev.consumeOK_allows_lost_cursor
#print axioms Klev.findByAge_empty_times
