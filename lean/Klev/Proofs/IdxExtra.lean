/-
Shared machinery for the key and time lookups: an extra per-index predicate
(`KeysFor`, `TimesFor`) carried through index loads, pointwise relations between the
items of an index and the records of its segment, and list facts.
-/
import Klev.Proofs.GetOK
namespace Klev

/-! ### list facts -/

/-- Two lists related element by element. -/
inductive All2 {α β : Type} (R : α → β → Prop) : List α → List β → Prop
  | nil : All2 R [] []
  | cons {a : α} {b : β} {as : List α} {bs : List β} : R a b → All2 R as bs → All2 R (a :: as) (b :: bs)

theorem all2_of_getElem {α β : Type} {R : α → β → Prop} : ∀ (l1 : List α) (l2 : List β),
    l1.length = l2.length →
    (∀ k (h1 : k < l1.length) (h2 : k < l2.length), R l1[k] l2[k]) → All2 R l1 l2 := by
  intro l1
  induction l1 with
  | nil =>
    intro l2 hl _
    cases l2 with
    | nil => exact .nil
    | cons b bs => simp at hl
  | cons a as ih =>
    intro l2 hl h
    cases l2 with
    | nil => simp at hl
    | cons b bs =>
      refine .cons (h 0 (by simp) (by simp)) (ih bs (by simpa using hl) ?_)
      intro k h1 h2
      have := h (k + 1) (by simpa using h1) (by simpa using h2)
      simpa using this

theorem find?_reverse_eq {α : Type} (p : α → Bool) (l : List α) :
    l.reverse.find? p = (l.filter p).getLast? := by
  rw [← List.head?_filter, List.filter_reverse, List.head?_reverse]

theorem flat_take_succ (sh : Shape) (i : Nat) (hi : i < sh.length) :
    flat (sh.take (i + 1)) = flat (sh.take i) ++ (sh[i]).2 := by
  unfold flat
  rw [List.take_succ_eq_append_getElem hi, List.flatMap_append]
  simp

theorem flat_take_all (sh : Shape) (n : Nat) (hn : sh.length ≤ n) : flat (sh.take n) = flat sh := by
  rw [List.take_of_length_le hn]

theorem flat_nil : flat ([] : Shape) = [] := rfl

theorem seg_sublist_flat (sh : Shape) (i : Nat) (hi : i < sh.length) : (sh[i]).2.Sublist (flat sh) := by
  rw [flat_split sh i hi]
  exact (List.sublist_append_right _ _).trans (List.sublist_append_left _ _)

/-! ### an extra predicate on every index of a segment -/

/-- `P` holds of every index of the segment — the loaded one and the file. -/
def SegP (P : List Msg → List Item → Prop) (s : Seg) : Prop :=
  (∀ its, s.mem = some its → P s.recs its) ∧ (∀ f, s.idxf = some f → P s.recs f.items)

theorem loadIndex_P (P : List Msg → List Item → Prop) (o : Opts) (s : Seg)
    (hd : P s.recs (derive o.params s.ver s.recs)) (h : SegP P s) :
    P s.recs (loadIndex o s).2 ∧ SegP P (loadIndex o s).1 := by
  unfold loadIndex
  cases hm : s.mem with
  | some its =>
    simp only
    exact ⟨h.1 its hm, h⟩
  | none =>
    simp only
    unfold reindexAndRead
    by_cases hr : needsReindex s = true
    · simp only [hr, if_true]
      refine ⟨hd, ?_, ?_⟩
      · intro its hi
        simp only [Option.some.injEq] at hi
        subst hi; exact hd
      · intro f hf
        simp only [Option.some.injEq] at hf
        subst hf; exact hd
    · simp only [hr]
      cases hf : s.idxf with
      | none => simp [needsReindex, hf] at hr
      | some f =>
        simp only [Bool.false_eq_true, if_false]
        refine ⟨h.2 f hf, ?_, ?_⟩
        · intro its hi
          simp only [Option.some.injEq] at hi
          subst hi; exact h.2 f hf
        · intro f' hf'
          simp only [Option.some.injEq] at hf'
          subst hf'; exact h.2 f hf

/-- `withIndex` keeps an extra index predicate that rebuilt indexes satisfy. -/
theorem withIndex_P (P : List Msg → List Item → Prop) (l : Log) (i : Nat)
    (hP : ∀ s ∈ l.segs, SegP P s)
    (hd : ∀ s ∈ l.segs, P s.recs (derive l.opts.params s.ver s.recs))
    {l1 : Log} {s' : Seg} {its : List Item} {c : RCtx}
    (hw : withIndex l i = some (l1, s', its, c)) :
    (∀ s ∈ l1.segs, SegP P s) ∧ P s'.recs its := by
  unfold withIndex at hw
  cases hs : l.segs[i]? with
  | none => rw [hs] at hw; simp at hw
  | some s =>
    rw [hs] at hw
    simp only [Option.some.injEq, Prod.mk.injEq] at hw
    obtain ⟨rfl, rfl, rfl, _⟩ := hw
    have hmem : s ∈ l.segs := List.mem_of_getElem? hs
    obtain ⟨h1, h2⟩ := loadIndex_P P l.opts s (hd s hmem) (hP s hmem)
    have hrecs : (loadIndex l.opts s).1.recs = s.recs := by
      unfold loadIndex
      cases hm : s.mem <;> rfl
    refine ⟨?_, by rw [hrecs]; exact h1⟩
    intro t ht
    unfold setSeg at ht
    simp only at ht
    rcases List.mem_or_eq_of_mem_set ht with h | h
    · exact hP t h
    · subst h; exact h2

end Klev
