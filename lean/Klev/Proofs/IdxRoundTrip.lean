/-
The index file round trip (`Klev/Codec.lean`): what `index.Write` renders, `index.Read`
parses back — version, and every item with the fields the layout does not store zeroed.

A V1 index file has no header; `index.headerParse` recognises it by its first eight bytes
being the segment's base offset, *after* testing for the V2 magic `FF 6B 6C 65 76 69`.
A V1 file whose first item's offset had those six top bytes would be misread; an offset
≥ 0 has a top byte < 0x80, so this cannot happen for the offsets klevdb produces.
-/
import Klev.Codec
import Klev.Proofs.Bytes
import Klev.Proofs.Codec
namespace Klev

/-- What an index file keeps of an item: the fields the layout does not store read back 0. -/
def Item.mask (p : Params) (it : Item) : Item :=
  { it with ts := if p.times then it.ts else 0, kh := if p.keys then it.kh else 0 }

/-- The fields an index file stores fit their 8-byte slots. -/
def Item.InRange (p : Params) (it : Item) : Prop :=
  -(two63 : Int) ≤ it.off ∧ it.off < (two63 : Int) ∧ -(two63 : Int) ≤ it.pos ∧
    it.pos < (two63 : Int) ∧ (p.times = true → -(two63 : Int) ≤ it.ts ∧ it.ts < (two63 : Int))

theorem idxHdr_v2_length (p : Params) : (idxHdr p .v2).length = 8 := by
  simp [idxHdr, idxMagic, Gen.idxMagic]

theorem idxVersion_v2 (p : Params) (data : List UInt8) (base : Int) :
    idxVersion p (idxHdr p .v2 ++ data) base = .ok .v2 := by
  obtain ⟨t, k⟩ := p
  cases t <;> cases k <;>
    simp [idxVersion, idxHdr, idxMagic, Gen.idxMagic, paramsByte, Gen.idxV2Marker,
      Gen.idxTimesBit, Gen.idxKeysBit]

theorem size_toNat_pos (p : Params) : 0 < p.size.toNat := by
  obtain ⟨t, k⟩ := p
  cases t <;> cases k <;> simp [Params.size]

theorem encItem_length_nat (p : Params) (it : Item) : (encItem p it).length = p.size.toNat := by
  have := encItem_length p it
  omega

theorem chunks_flatMap {α : Type} (n : Nat) (hn : 0 < n) (f : α → List UInt8) (xs : List α)
    (hf : ∀ x ∈ xs, (f x).length = n) :
    ∀ fuel, xs.length < fuel → chunks n fuel (xs.flatMap f) = xs.map f := by
  induction xs with
  | nil =>
    intro fuel hfuel
    obtain ⟨fuel, rfl⟩ : ∃ k, fuel = k + 1 := ⟨fuel - 1, by simp at hfuel; omega⟩
    simp [chunks]
  | cons x xs ih =>
    intro fuel hfuel
    obtain ⟨fuel, rfl⟩ : ∃ k, fuel = k + 1 := ⟨fuel - 1, by simp at hfuel; omega⟩
    have hx : (f x).length = n := hf x (by simp)
    have hne : ¬ ((f x ++ xs.flatMap f).isEmpty = true ∨ n = 0) := by
      intro h
      rcases h with h | h
      · have : (f x ++ xs.flatMap f).length = 0 := by
          rw [List.isEmpty_iff] at h; rw [h]; rfl
        rw [List.length_append] at this; omega
      · omega
    rw [List.flatMap_cons, chunks, if_neg hne, List.take_left' hx, List.drop_left' hx,
      ih (fun y hy => hf y (by simp [hy])) fuel (by simp at hfuel; omega), List.map_cons]

theorem flatMap_length_const {α : Type} (n : Nat) (f : α → List UInt8) (xs : List α)
    (hf : ∀ x ∈ xs, (f x).length = n) : (xs.flatMap f).length = n * xs.length := by
  induction xs with
  | nil => simp
  | cons x xs ih =>
    rw [List.flatMap_cons, List.length_append, hf x (by simp),
      ih (fun y hy => hf y (by simp [hy])), List.length_cons, Nat.mul_succ, Nat.add_comm]



theorem decItems_encItems (p : Params) (items : List Item) (hr : ∀ it ∈ items, it.InRange p)
    (fuel : Nat) (hfuel : items.length < fuel) :
    (chunks p.size.toNat fuel (items.flatMap (encItem p))).map (decItem p) =
      items.map (Item.mask p) := by
  rw [chunks_flatMap _ (size_toNat_pos p) _ _ (fun it _ => encItem_length_nat p it) fuel hfuel,
    List.map_map]
  apply List.map_congr_left
  intro it hit
  obtain ⟨a, b, c, d, e⟩ := hr it hit
  exact decItem_encItem p it a b c d e

theorem items_fuel (p : Params) (n : Nat) : n < p.size.toNat * n + 1 := by
  have := Nat.le_mul_of_pos_left n (size_toNat_pos p)
  omega

theorem parseIdx_renderIdx_v2 (p : Params) (items : List Item) (base : Int)
    (hr : ∀ it ∈ items, it.InRange p) :
    parseIdx p (renderIdx p .v2 items) base = .ok (.v2, items.map (Item.mask p)) := by
  have hfl := flatMap_length_const p.size.toNat (encItem p) items
    (fun it _ => encItem_length_nat p it)
  have hlen : (renderIdx p .v2 items).length = 8 + p.size.toNat * items.length := by
    rw [renderIdx, List.length_append, idxHdr_v2_length, hfl]
  have hd : (renderIdx p .v2 items).drop 8 = items.flatMap (encItem p) :=
    List.drop_left' (idxHdr_v2_length p)
  unfold parseIdx
  rw [if_neg (by omega), if_neg (by omega),
    show idxVersion p (renderIdx p .v2 items) base = .ok .v2 from idxVersion_v2 p _ base]
  simp only
  rw [hd, hfl, if_neg (by simp [Nat.mul_mod_right]),
    decItems_encItems p items hr _ (items_fuel p _)]



theorem be8_take6_ne_magic (x : Nat) (hx : x < two63) (l : List UInt8) :
    ((be 8 x ++ l).take 8).take 6 ≠ idxMagic := by
  intro h
  have h0 : (((be 8 x ++ l).take 8).take 6).head? = idxMagic.head? := by rw [h]
  simp [be, idxMagic, Gen.idxMagic] at h0
  have h1 := congrArg UInt8.toNat h0
  rw [UInt8.toNat_ofNat'] at h1
  unfold two63 at hx
  have : (255 : UInt8).toNat = 255 := rfl
  omega



theorem idxVersion_v1 (p : Params) (off : Int) (l : List UInt8) (h0 : 0 ≤ off)
    (h1 : off < (two63 : Int)) : idxVersion p (be 8 (u64 off) ++ l) off = .ok .v1 := by
  have hu : u64 off < two63 := by unfold u64 two64; unfold two63 at *; omega
  unfold idxVersion
  simp only
  rw [if_neg (be8_take6_ne_magic _ hu l), be8_take,
    i64_field off (by unfold two63; omega) h1, if_pos rfl]

theorem encItem_head (p : Params) (it : Item) :
    ∃ l, encItem p it = be 8 (u64 it.off) ++ l := by
  refine ⟨be 8 (u64 it.pos) ++ ((if p.times then be 8 (u64 it.ts) else []) ++
    (if p.keys then be 8 it.kh.toNat else [])), ?_⟩
  simp [encItem]

theorem parseIdx_renderIdx_v1_cons (p : Params) (it : Item) (rest : List Item) (base : Int)
    (hr : ∀ x ∈ it :: rest, x.InRange p) (hoff : it.off = base) (hb : 0 ≤ base) :
    parseIdx p (renderIdx p .v1 (it :: rest)) base =
      .ok (.v1, (it :: rest).map (Item.mask p)) := by
  have hfl := flatMap_length_const p.size.toNat (encItem p) (it :: rest)
    (fun it _ => encItem_length_nat p it)
  have hre : renderIdx p .v1 (it :: rest) = (it :: rest).flatMap (encItem p) := by
    simp [renderIdx, idxHdr]
  have hsz := size_toNat_pos p
  have h16 : 16 ≤ p.size.toNat := by
    obtain ⟨t, k⟩ := p
    cases t <;> cases k <;> simp [Params.size]
  have hlen : 16 ≤ ((it :: rest).flatMap (encItem p)).length := by
    rw [hfl, List.length_cons, Nat.mul_succ]; omega
  obtain ⟨l, hl⟩ := encItem_head p it
  have hv : idxVersion p ((it :: rest).flatMap (encItem p)) base = .ok .v1 := by
    rw [List.flatMap_cons, hl, List.append_assoc, ← hoff]
    exact idxVersion_v1 p it.off _ (by omega) (hr it (by simp)).2.1
  rw [hre]
  unfold parseIdx
  rw [if_neg (by omega), if_neg (by omega), hv]
  simp only
  rw [hfl, if_neg (by simp [Nat.mul_mod_right]),
    decItems_encItems p (it :: rest) hr _ (items_fuel p _)]



theorem parseIdx_renderIdx (p : Params) (iv : Ver) (items : List Item) (base : Int)
    (hr : ∀ it ∈ items, it.InRange p)
    (hv1 : iv = .v1 → ∀ it ∈ items.head?, it.off = base ∧ 0 ≤ base) :
    parseIdx p (renderIdx p iv items) base = .ok (iv, items.map (Item.mask p)) := by
  cases iv with
  | v2 => exact parseIdx_renderIdx_v2 p items base hr
  | v1 =>
    cases items with
    | nil => rfl
    | cons it rest =>
      obtain ⟨h1, h2⟩ := hv1 rfl it (by simp)
      exact parseIdx_renderIdx_v1_cons p it rest base hr h1 h2

/-! ### the V1 side conditions are needed

Without "first offset = base" a V1 index file is not recognised at all; with a negative
base whose top six bytes are the index magic it is taken for a V2 file. -/

theorem parseIdx_renderIdx_v1_needs_base :
    parseIdx ⟨false, false⟩ (renderIdx ⟨false, false⟩ .v1 [⟨5, 8, 0, 0⟩]) 0 =
      .error (.hdr .magicNotFound) := by decide

/-- `-41820588495798016 = int64(0xFF6B6C6576690100)`. -/
theorem parseIdx_renderIdx_v1_needs_nonneg :
    parseIdx ⟨false, false⟩ (renderIdx ⟨false, false⟩ .v1 [⟨-41820588495798016, 8, 0, 0⟩])
      (-41820588495798016) = .error .size := by decide

end Klev

#print axioms Klev.chunks_flatMap
#print axioms Klev.idxVersion_v2
#print axioms Klev.idxVersion_v1
#print axioms Klev.parseIdx_renderIdx_v2
#print axioms Klev.parseIdx_renderIdx_v1_cons
#print axioms Klev.parseIdx_renderIdx
#print axioms Klev.parseIdx_renderIdx_v1_needs_base
#print axioms Klev.parseIdx_renderIdx_v1_needs_nonneg
