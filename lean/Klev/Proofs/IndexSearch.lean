/-
The literal binary searches of `pkg/index` meet their declarative meaning on every
sorted array and every offset: exact match (`Index.get`), lower bound (`Index.consume`),
lower bound on timestamps (`Index.time`); neither panics nor diverges.
-/
import Klev.Index
namespace Klev

/-- strictly increasing offsets -/
def SortedOff (items : List Item) : Prop := items.Pairwise (fun a b => a.off < b.off)

/-- non-decreasing timestamps -/
def SortedTs (items : List Item) : Prop := items.Pairwise (fun a b => a.ts ≤ b.ts)

theorem getI_eq {α : Type} (l : List α) (i : Int) (h0 : 0 ≤ i) (h1 : i.toNat < l.length) :
    getI l i = .ok (l[i.toNat]'h1) := by
  unfold getI
  have : ¬ i < 0 := by omega
  simp [this, List.getElem?_eq_getElem h1]

theorem sortedOff_lt {items : List Item} (h : SortedOff items) {i j : Nat} (hi : i < j)
    (hj : j < items.length) : (items[i]'(by omega)).off < (items[j]'hj).off := by
  have := List.pairwise_iff_getElem.mp h i j (by omega) hj hi
  exact this

theorem find_sorted {items : List Item} (h : SortedOff items) {it : Item} (hi : it ∈ items)
    {off : Int} (ho : it.off = off) :
    items.find? (fun x => x.off == off) = some it := by
  induction items with
  | nil => cases hi
  | cons x xs ih =>
    have hx := List.pairwise_cons.mp h
    by_cases hxo : x.off = off
    · rcases List.mem_cons.mp hi with rfl | hm
      · simp [hxo]
      · have := hx.1 it hm
        omega
    · have hne : it ≠ x := by intro e; subst e; exact hxo ho
      rcases List.mem_cons.mp hi with e | hm
      · exact absurd e hne
      · simp [hxo, ih hx.2 hm]

/-! ### `Index.get` -/

/-- What `index.Get` means. -/
def Index.getSpec (items : List Item) (off : Int) : IRes Int :=
  match items.head?, items.getLast? with
  | some first, some last =>
    if off = offsetOldest then .ok first.pos
    else if off = offsetNewest then .ok last.pos
    else if off < first.off then .error .beforeStart
    else if off > last.off then .error .afterEnd
    else match items.find? (fun x => x.off == off) with
      | some it => .ok it.pos
      | none => .error .notFound
  | _, _ => .error .empty

theorem Index.getLoop_spec (items : List Item) (off : Int) (hs : SortedOff items) :
    ∀ (fuel : Nat) (b e : Int), 0 ≤ b → e < items.length → b ≤ e + 1 →
      (e - b + 1 < fuel) →
      (∀ i : Nat, (i : Int) < b → ∀ h : i < items.length, (items[i]).off < off) →
      (∀ i : Nat, e < (i : Int) → ∀ h : i < items.length, off < (items[i]).off) →
      Index.getLoop items off fuel b e =
        match items.find? (fun x => x.off == off) with
        | some it => .ok it.pos
        | none => .error .notFound := by
  intro fuel
  induction fuel with
  | zero => intro b e _ _ _ hf; omega
  | succ n ih =>
    intro b e hb he hbe hf hlo hhi
    unfold Index.getLoop
    by_cases hle : b ≤ e
    · simp only [hle, if_true]
      have hm0 : 0 ≤ (b + e) / 2 := by omega
      have hm1 : ((b + e) / 2).toNat < items.length := by omega
      rw [getI_eq items _ hm0 hm1]
      simp only
      by_cases h1 : (items[((b + e) / 2).toNat]).off < off
      · simp only [h1, if_true]
        refine ih _ _ (by omega) (by omega) (by omega) (by omega) ?_ hhi
        intro i hi hlt
        by_cases hc : i = ((b + e) / 2).toNat
        · subst hc; exact h1
        · have : i < ((b + e) / 2).toNat := by omega
          have := sortedOff_lt hs this hm1
          omega
      · simp only [h1, if_false]
        by_cases h2 : (items[((b + e) / 2).toNat]).off > off
        · simp only [h2, if_true]
          refine ih _ _ (by omega) (by omega) (by omega) (by omega) hlo ?_
          intro i hi hlt
          by_cases hc : i = ((b + e) / 2).toNat
          · subst hc; exact h2
          · have : ((b + e) / 2).toNat < i := by omega
            have := sortedOff_lt hs this hlt
            omega
        · simp only [h2, if_false]
          have heq : (items[((b + e) / 2).toNat]).off = off := by omega
          rw [find_sorted hs (List.getElem_mem hm1) heq]
    · simp only [hle, if_false]
      have : items.find? (fun x => x.off == off) = none := by
        rw [List.find?_eq_none]
        intro x hx
        obtain ⟨i, hi, rfl⟩ := List.getElem_of_mem hx
        simp only [beq_iff_eq]
        by_cases hc : (i : Int) < b
        · have := hlo i hc hi; omega
        · have := hhi i (by omega) hi; omega
      rw [this]

theorem head?_eq_getElem {α : Type} {l : List α} {x : α} (h : l.head? = some x) :
    ∃ h0 : 0 < l.length, l[0] = x := by
  cases l with
  | nil => simp at h
  | cons a as => simp at h; exact ⟨by simp, by simpa using h⟩

theorem getLast?_eq_getElem {α : Type} {l : List α} {x : α} (h : l.getLast? = some x) :
    ∃ h0 : l.length - 1 < l.length, l[l.length - 1] = x := by
  cases hl : l with
  | nil => simp [hl] at h
  | cons a as =>
    have hne : l ≠ [] := by simp [hl]
    rw [List.getLast?_eq_some_getLast hne] at h
    have := List.getLast_eq_getElem hne
    subst hl
    refine ⟨by simp, ?_⟩
    simp only [Option.some.injEq] at h
    rw [← h, this]

/-- `index.Get` is exact-match lookup, for every sorted array and every offset. -/
theorem Index.get_eq_spec (items : List Item) (off : Int) (hs : SortedOff items) :
    Index.get items off = Index.getSpec items off := by
  unfold Index.get Index.getSpec
  cases hh : items.head? with
  | none => simp
  | some first =>
    cases hl : items.getLast? with
    | none => simp
    | some last =>
      simp only
      obtain ⟨h0, hf⟩ := head?_eq_getElem hh
      obtain ⟨hn, hlast⟩ := getLast?_eq_getElem hl
      by_cases c1 : off = offsetOldest
      · simp [c1]
      simp only [c1, if_false]
      by_cases c2 : off = offsetNewest
      · simp [c2]
      simp only [c2, if_false]
      by_cases c3 : off < first.off
      · simp [c3]
      simp only [c3, if_false]
      by_cases c4 : off = first.off
      · simp only [c4, if_true]
        have : ¬ first.off > last.off := by
          by_cases hlen : items.length - 1 = 0
          · have : first = last := by rw [← hf, ← hlast]; simp [hlen]
            subst this; omega
          · have := sortedOff_lt hs (i := 0) (j := items.length - 1) (by omega) hn
            rw [hf, hlast] at this; omega
        simp only [this, if_false]
        have hm : first ∈ items := by rw [← hf]; exact List.getElem_mem h0
        rw [find_sorted hs hm rfl]
      simp only [c4, if_false]
      by_cases c5 : off > last.off
      · simp [c5]
      simp only [c5, if_false]
      by_cases c6 : off = last.off
      · simp only [c6, if_true]
        have hm : last ∈ items := by rw [← hlast]; exact List.getElem_mem hn
        rw [find_sorted hs hm rfl]
      simp only [c6, if_false]
      refine Index.getLoop_spec items off hs _ _ _ (by omega) (by omega) (by omega) (by omega) ?_ ?_
      · intro i hi; omega
      · intro i hi hlt; omega

end Klev

namespace Klev

/-! ### `Index.consume` -/

theorem find_first {α : Type} (l : List α) (p : α → Bool) (i : Nat) (hi : i < l.length)
    (h1 : p l[i] = true) (h2 : ∀ j (hj : j < i), p (l[j]'(by omega)) = false) :
    l.find? p = some l[i] := by
  rw [List.find?_eq_some_iff_getElem]
  refine ⟨h1, i, hi, rfl, ?_⟩
  intro j hj
  simp [h2 j hj]

/-- What `index.Consume` means: the position of the first item whose offset is not below
the requested one, and the position of the last item. -/
def Index.consumeSpec (items : List Item) (off : Int) : IRes (Int × Int) :=
  match items.head?, items.getLast? with
  | some first, some last =>
    if off = offsetOldest then .ok (first.pos, last.pos)
    else if off = offsetNewest then .ok (last.pos, last.pos)
    else if off > last.off then .error .afterEnd
    else match items.find? (fun x => decide (off ≤ x.off)) with
      | some it => .ok (it.pos, last.pos)
      | none => .error .panic
  | _, _ => .error .empty

theorem Index.consumeLoop_spec (items : List Item) (off endPos : Int) (hs : SortedOff items) :
    ∀ (fuel : Nat) (b e : Int), 0 ≤ b → e < items.length → b ≤ e + 1 → b < items.length →
      (e - b + 1 < fuel) →
      (∀ i : Nat, (i : Int) < b → ∀ h : i < items.length, (items[i]).off < off) →
      (∀ i : Nat, e < (i : Int) → ∀ h : i < items.length, off < (items[i]).off) →
      (∀ h : items.length - 1 < items.length, off < (items[items.length - 1]).off) →
      ∃ it, items.find? (fun x => decide (off ≤ x.off)) = some it ∧
        Index.consumeLoop items off endPos fuel b e = .ok (it.pos, endPos) := by
  intro fuel
  induction fuel with
  | zero => intro b e _ _ _ _ hf; omega
  | succ n ih =>
    intro b e hb he hbe hbn hf hlo hhi hlast
    unfold Index.consumeLoop
    by_cases hle : b ≤ e
    · simp only [hle, if_true]
      have hm0 : 0 ≤ (b + e) / 2 := by omega
      have hm1 : ((b + e) / 2).toNat < items.length := by omega
      rw [getI_eq items _ hm0 hm1]
      simp only
      by_cases h1 : (items[((b + e) / 2).toNat]).off < off
      · simp only [h1, if_true]
        have hnl : ((b + e) / 2).toNat ≠ items.length - 1 := by
          intro hc
          have := hlast (by omega)
          simp only [← hc] at this
          omega
        refine ih _ _ (by omega) (by omega) (by omega) (by omega) (by omega) ?_ hhi hlast
        intro i hi hlt
        by_cases hc : i = ((b + e) / 2).toNat
        · subst hc; exact h1
        · have : i < ((b + e) / 2).toNat := by omega
          have := sortedOff_lt hs this hm1
          omega
      · simp only [h1, if_false]
        by_cases h2 : (items[((b + e) / 2).toNat]).off > off
        · simp only [h2, if_true]
          refine ih _ _ (by omega) (by omega) (by omega) (by omega) (by omega) hlo ?_ hlast
          intro i hi hlt
          by_cases hc : i = ((b + e) / 2).toNat
          · subst hc; exact h2
          · have : ((b + e) / 2).toNat < i := by omega
            have := sortedOff_lt hs this hlt
            omega
        · simp only [h2, if_false]
          refine ⟨items[((b + e) / 2).toNat], ?_, rfl⟩
          apply find_first items _ _ hm1
          · simp; omega
          · intro j hj
            have := sortedOff_lt hs hj hm1
            simp; omega
    · simp only [hle, if_false]
      have hb1 : b.toNat < items.length := by omega
      rw [getI_eq items _ hb hb1]
      refine ⟨items[b.toNat], ?_, rfl⟩
      apply find_first items _ _ hb1
      · have := hhi b.toNat (by omega) hb1
        simp; omega
      · intro j hj
        have := hlo j (by omega) (by omega)
        simp; omega

/-- `index.Consume` is lower-bound search, for every sorted array and every offset. -/
theorem Index.consume_eq_spec (items : List Item) (off : Int) (hs : SortedOff items) :
    Index.consume items off = Index.consumeSpec items off := by
  unfold Index.consume Index.consumeSpec
  cases hh : items.head? with
  | none => simp
  | some first =>
    cases hl : items.getLast? with
    | none => simp
    | some last =>
      simp only
      obtain ⟨h0, hf⟩ := head?_eq_getElem hh
      obtain ⟨hn, hlast⟩ := getLast?_eq_getElem hl
      by_cases c1 : off = offsetOldest
      · simp [c1]
      simp only [c1, if_false]
      by_cases c2 : off = offsetNewest
      · simp [c2]
      simp only [c2, if_false]
      have hfl : first.off ≤ last.off := by
        by_cases hlen : items.length - 1 = 0
        · have : first = last := by rw [← hf, ← hlast]; simp [hlen]
          subst this; omega
        · have := sortedOff_lt hs (i := 0) (j := items.length - 1) (by omega) hn
          rw [hf, hlast] at this; omega
      by_cases c3 : off ≤ first.off
      · simp only [c3, if_true]
        have : ¬ off > last.off := by omega
        simp only [this, if_false]
        have hfind : items.find? (fun x => decide (off ≤ x.off)) = some first := by
          rw [← hf]
          apply find_first items _ 0 h0
          · rw [hf]; simp; omega
          · intro j hj; omega
        rw [hfind]
      simp only [c3, if_false]
      by_cases c5 : off > last.off
      · simp [c5]
      simp only [c5, if_false]
      by_cases c6 : off = last.off
      · simp only [c6, if_true]
        have hfind : items.find? (fun x => decide (last.off ≤ x.off)) = some last := by
          rw [← hlast]
          apply find_first items _ _ hn
          · simp
          · intro j hj
            have := sortedOff_lt hs hj hn
            simp; omega
        rw [hfind]
      simp only [c6, if_false]
      obtain ⟨it, hfind, hloop⟩ := Index.consumeLoop_spec items off last.pos hs (items.length + 1) 0
        (items.length - 1) (by omega) (by omega) (by omega) (by omega) (by omega)
        (by intro i hi; omega) (by intro i hi hlt; omega)
        (by intro h; rw [hlast]; omega)
      rw [hloop, hfind]

end Klev

namespace Klev

/-! ### `Index.time` -/

theorem sortedTs_le {items : List Item} (h : SortedTs items) {i j : Nat} (hi : i ≤ j)
    (hj : j < items.length) : (items[i]'(by omega)).ts ≤ (items[j]'hj).ts := by
  by_cases he : i = j
  · subst he; omega
  · exact List.pairwise_iff_getElem.mp h i j (by omega) hj (by omega)

/-- `sort.Search` returns the least index whose timestamp is `≥ ts` (`items.length` if none). -/
theorem Index.sortSearch_spec (items : List Item) (ts : Int) (hs : SortedTs items) :
    ∀ (fuel i j : Nat), i ≤ j → j ≤ items.length → j - i < fuel →
      (∀ k, k < i → ∀ h : k < items.length, (items[k]).ts < ts) →
      (∀ k, j ≤ k → ∀ h : k < items.length, ts ≤ (items[k]).ts) →
      let r := Index.sortSearch items ts fuel i j
      r ≤ items.length ∧ (∀ k, k < r → ∀ h : k < items.length, (items[k]).ts < ts) ∧
        (∀ k, r ≤ k → ∀ h : k < items.length, ts ≤ (items[k]).ts) := by
  intro fuel
  induction fuel with
  | zero => intro i j _ _ hf; omega
  | succ n ih =>
    intro i j hij hj hf hlo hhi
    unfold Index.sortSearch
    by_cases hlt : i < j
    · simp only [hlt, if_true]
      have hh : (i + j) / 2 < items.length := by omega
      rw [List.getElem?_eq_getElem hh]
      simp only
      by_cases hc : (items[(i + j) / 2]).ts ≥ ts
      · simp only [hc, not_true_eq_false, if_false]
        refine ih _ _ (by omega) (by omega) (by omega) hlo ?_
        intro k hk hkl
        have := sortedTs_le hs hk hkl
        omega
      · simp only [hc, not_false_eq_true, if_true]
        refine ih _ _ (by omega) (by omega) (by omega) ?_ hhi
        intro k hk hkl
        have := sortedTs_le hs (i := k) (j := (i + j) / 2) (by omega) hh
        omega
    · simp only [hlt, if_false]
      have : i = j := by omega
      subst this
      exact ⟨hj, hlo, hhi⟩

/-- What `index.Time` means: the position of the first item whose timestamp is not before `ts`. -/
def Index.timeSpec (items : List Item) (ts : Int) : IRes Int :=
  match items.head?, items.getLast? with
  | some first, some last =>
    if ts < first.ts then .error .timeBefore
    else if last.ts < ts then .error .timeAfter
    else match items.find? (fun x => decide (ts ≤ x.ts)) with
      | some it => .ok it.pos
      | none => .error .panic
  | _, _ => .error .timeEmpty

/-- `index.Time` is lower-bound search on timestamps, for every array with non-decreasing
timestamps and every time. -/
theorem Index.time_eq_spec (items : List Item) (ts : Int) (hs : SortedTs items) :
    Index.time items ts = Index.timeSpec items ts := by
  unfold Index.time Index.timeSpec
  cases hh : items.head? with
  | none => simp
  | some first =>
    cases hl : items.getLast? with
    | none => simp
    | some last =>
      simp only
      obtain ⟨h0, hf⟩ := head?_eq_getElem hh
      obtain ⟨hn, hlast⟩ := getLast?_eq_getElem hl
      by_cases c1 : ts < first.ts
      · simp [c1]
      simp only [c1, if_false]
      have hfl : first.ts ≤ last.ts := by
        have := sortedTs_le hs (i := 0) (j := items.length - 1) (by omega) hn
        rw [hf, hlast] at this; exact this
      by_cases c2 : ts = first.ts
      · simp only [c2, if_true]
        have : ¬ last.ts < first.ts := by omega
        simp only [this, if_false]
        have hfind : items.find? (fun x => decide (first.ts ≤ x.ts)) = some first := by
          rw [← hf]
          apply find_first items _ 0 h0
          · simp
          · intro j hj; omega
        rw [hfind]
      simp only [c2, if_false]
      by_cases c3 : last.ts < ts
      · simp [c3]
      simp only [c3, if_false]
      have hsp := Index.sortSearch_spec items ts hs (items.length + 1) 0 items.length (by omega)
        (by omega) (by omega) (by intro k hk; omega) (by intro k hk hkl; omega)
      simp only at hsp
      obtain ⟨hr, hlo, hhi⟩ := hsp
      -- the result is a valid index because the last timestamp is ≥ ts
      have hrn : Index.sortSearch items ts (items.length + 1) 0 items.length < items.length := by
        rcases Nat.lt_or_ge (Index.sortSearch items ts (items.length + 1) 0 items.length) items.length with h | h
        · exact h
        · have := hlo (items.length - 1) (by omega) hn
          rw [hlast] at this; omega
      have hg := getI_eq items (Index.sortSearch items ts (items.length + 1) 0 items.length : Nat)
        (by omega) (by simpa using hrn)
      simp only [Int.toNat_natCast] at hg
      rw [hg]
      simp only
      have hfind := find_first items (fun x => decide (ts ≤ x.ts)) _ hrn
        (by have := hhi _ (Nat.le_refl _) hrn; simpa using this)
        (by intro j hj; have := hlo j hj (by omega); simp; omega)
      rw [hfind]

end Klev
