/-
The global invariant of the L1 model and the abstraction to L0.

Everything the L0 view needs is a function of the *shape* of the segment list — base
offsets and records — so the invariant is split into `ShapeOK` (ordering facts) and
`IdxOK` (every index, in a file or in memory, names the records of its segment).
-/
import Klev.Model
import Klev.Spec
import Klev.Proofs.Layout
namespace Klev

abbrev Shape := List (Int × List Msg)

def shape (segs : List Seg) : Shape := segs.map (fun s => (s.base, s.recs))

def recsNext (base : Int) (recs : List Msg) : Int :=
  match recs.getLast? with
  | some m => m.off + 1
  | none => base

def shapeNext (sh : Shape) : Int :=
  match sh.getLast? with
  | some (b, recs) => recsNext b recs
  | none => 0

def absShape (sh : Shape) : Spec := ⟨sh.flatMap (·.2), shapeNext sh⟩

/-- The abstraction: live messages = the records of all segments in order; next offset =
one past the last record of the head, or the head's base when it is empty. -/
def abs (l : Log) : Spec := absShape (shape l.segs)

structure ShapeOK (sh : Shape) : Prop where
  ne : sh ≠ []
  sorted : ∀ br ∈ sh, br.2.Pairwise (fun a b => a.off < b.off)
  lower : ∀ br ∈ sh, ∀ m ∈ br.2, br.1 ≤ m.off
  order : sh.Pairwise (fun s t => s.1 < t.1 ∧ ∀ m ∈ s.2, m.off < t.1)
  nonempty : ∀ br ∈ sh.dropLast, br.2 ≠ []
  base0 : ∀ br ∈ sh, 0 ≤ br.1

theorem mem_dropLast_of_idx {α : Type} (l : List α) (j : Nat) (hj : j + 1 < l.length) :
    (l[j]'(by omega)) ∈ l.dropLast := by
  have h1 : j < l.dropLast.length := by simp only [List.length_dropLast]; omega
  have : l.dropLast[j] = l[j]'(by omega) := by simp [List.getElem_dropLast]
  rw [← this]; exact List.getElem_mem h1

theorem ShapeOK.nonempty_idx {sh : Shape} (h : ShapeOK sh) (j : Nat) (hj : j + 1 < sh.length) :
    (sh[j]'(by omega)).2 ≠ [] := h.nonempty _ (mem_dropLast_of_idx sh j hj)

/-- Every index of the segment — the loaded one and the file — names the records. -/
structure IdxOK (s : Seg) : Prop where
  mem : ∀ its, s.mem = some its → ItemsFor s.ver s.recs its
  idx : ∀ f, s.idxf = some f → ItemsFor s.ver s.recs f.items

/-- The head of a read-write log has its index in memory (the writer's) and the same items
in its index file (every publish appends to both). -/
structure HeadOK (h : Seg) : Prop where
  loaded : ∃ its, h.mem = some its ∧ ∃ f, h.idxf = some f ∧ f.items = its

structure Inv (l : Log) : Prop where
  shape : ShapeOK (shape l.segs)
  idx : ∀ s ∈ l.segs, IdxOK s
  next : l.opts.readonly = false → l.wNextOff = shapeNext (Klev.shape l.segs)
  head : l.opts.readonly = false → ∀ h, l.segs.getLast? = some h → HeadOK h

/-! ### loading an index keeps the shape -/

local macro "triv" : tactic => `(tactic| first | rfl | trivial)

theorem loadIndex_spec (o : Opts) (s : Seg) (h : IdxOK s) :
    (loadIndex o s).1.base = s.base ∧ (loadIndex o s).1.ver = s.ver ∧
    (loadIndex o s).1.recs = s.recs ∧ ItemsFor s.ver s.recs (loadIndex o s).2 ∧
    IdxOK (loadIndex o s).1 ∧ (loadIndex o s).1.mem = some (loadIndex o s).2 := by
  unfold loadIndex
  cases hm : s.mem with
  | some its =>
    simp only
    exact ⟨by triv, by triv, by triv, h.mem its hm, h, by first | exact hm | triv⟩
  | none =>
    simp only
    unfold reindexAndRead
    by_cases hr : needsReindex s = true
    · simp only [hr, if_true]
      refine ⟨by triv, by triv, by triv, derive_itemsFor _ _ _, ⟨?_, ?_⟩, by triv⟩
      · intro its hi
        simp only [Option.some.injEq] at hi
        subst hi; exact derive_itemsFor _ _ _
      · intro f hf
        simp only [Option.some.injEq] at hf
        subst hf; exact derive_itemsFor _ _ _
    · simp only [hr]
      cases hf : s.idxf with
      | none => simp [needsReindex, hf] at hr
      | some f =>
        simp only [Bool.false_eq_true, if_false]
        have hne : f.items ≠ [] := by
          intro he
          simp [needsReindex, hf, he] at hr
        refine ⟨by triv, by triv, by triv, h.idx f hf, ⟨?_, ?_⟩, by triv⟩
        · intro its hi
          simp only [Option.some.injEq] at hi
          subst hi; exact h.idx f hf
        · intro f' hf'
          simp only [Option.some.injEq] at hf'
          subst hf'; exact h.idx f hf

theorem shape_set_same (segs : List Seg) (i : Nat) (s' : Seg) (hi : i < segs.length)
    (hb : s'.base = (segs[i]).base) (hr : s'.recs = (segs[i]).recs) :
    shape (segs.set i s') = shape segs := by
  unfold shape
  rw [List.map_set]
  have : (s'.base, s'.recs) = (segs.map (fun s => (s.base, s.recs)))[i]'(by simpa using hi) := by
    simp [hb, hr]
  rw [this, List.set_getElem_self]

/-- Result of `withIndex` on a log satisfying the invariant. -/
theorem withIndex_spec (l : Log) (i : Nat) (hinv : Inv l) (hi : i < l.segs.length) :
    ∃ l1 s' its c, withIndex l i = some (l1, s', its, c) ∧
      s'.base = (l.segs[i]).base ∧ s'.ver = (l.segs[i]).ver ∧ s'.recs = (l.segs[i]).recs ∧
      ItemsFor s'.ver s'.recs its ∧
      c = rctx l (i + 1 == l.segs.length) s' its ∧
      Inv l1 ∧ shape l1.segs = shape l.segs ∧ l1.opts = l.opts ∧ l1.wNextOff = l.wNextOff ∧
      l1.wNextTime = l.wNextTime ∧ l1.segs.length = l.segs.length := by
  have hs : IdxOK (l.segs[i]) := hinv.idx _ (List.getElem_mem hi)
  obtain ⟨hb, hv, hr, hit, hok, _⟩ := loadIndex_spec l.opts (l.segs[i]) hs
  unfold withIndex
  rw [List.getElem?_eq_getElem hi]
  simp only
  refine ⟨_, _, _, _, rfl, hb, hv, hr, by rw [hv, hr]; exact hit, rfl, ?_, ?_, rfl, rfl, rfl, ?_⟩
  · have hsh : shape (setSeg l i (loadIndex l.opts l.segs[i]).1).segs = shape l.segs := by
      unfold setSeg; exact shape_set_same l.segs i _ hi hb hr
    refine ⟨by rw [hsh]; exact hinv.shape, ?_, ?_, ?_⟩
    · intro s hs'
      unfold setSeg at hs'
      simp only at hs'
      rcases List.mem_or_eq_of_mem_set hs' with h | h
      · exact hinv.idx s h
      · subst h; exact hok
    · intro hro
      rw [hsh]
      exact hinv.next hro
    · intro hro h hh
      unfold setSeg at hh
      simp only at hh
      rw [List.getLast?_eq_getElem?, List.getElem?_set] at hh
      simp only [List.length_set] at hh
      by_cases hc : i = l.segs.length - 1
      · -- the head's index is already in memory: loading returns the segment unchanged
        simp only [hc, if_true] at hh
        have hlt : l.segs.length - 1 < l.segs.length := by omega
        simp only [hlt, if_true, Option.some.injEq] at hh
        have hlast : l.segs.getLast? = some (l.segs[i]) := by
          rw [List.getLast?_eq_getElem?, List.getElem?_eq_getElem (by omega)]
          simp only [hc]
        obtain ⟨its, hm, hf⟩ := (hinv.head hro _ hlast).loaded
        have hsame : (loadIndex l.opts l.segs[i]).1 = l.segs[i] := by
          unfold loadIndex; rw [hm]
        subst hc
        rw [← hh, hsame]
        exact ⟨its, hm, hf⟩
      · simp only [hc, if_false] at hh
        rw [← List.getLast?_eq_getElem?] at hh
        exact hinv.head hro h hh
  · unfold setSeg; exact shape_set_same l.segs i _ hi hb hr
  · unfold setSeg; simp

end Klev
