/-
`Log.getByKey` and `Log.consumeByKey` satisfy the L0 relations `GetByKeyOK` and
`ConsumeByKeyOK` on every log that satisfies the invariant and whose indexes carry the
key hashes of their records (`KeysInv`) — the refinement theorems for C09.

No proof unfolds `fnv1a`: a hash collision only adds candidates, which the byte
comparison of the stored key removes.
-/
import Klev.Proofs.IdxExtra
namespace Klev

/-! ### the extra index predicate: items carry the key hashes of the records -/

def KeysFor (recs : List Msg) (its : List Item) : Prop :=
  its.map (·.kh) = recs.map (fun m => fnv1a m.key)

def KeysInv (l : Log) : Prop :=
  ∀ s ∈ l.segs, (∀ its, s.mem = some its → KeysFor s.recs its) ∧
    (∀ f, s.idxf = some f → KeysFor s.recs f.items)

theorem deriveFrom_keys (p : Params) (hk : p.keys = true) : ∀ (ts : Int) (L : List (Int × Msg)),
    (deriveFrom p ts L).map (·.kh) = L.map (fun pm => fnv1a pm.2.key) := by
  intro ts L
  induction L generalizing ts with
  | nil => rfl
  | cons pm rest ih =>
    obtain ⟨pos, m⟩ := pm
    simp [deriveFrom, newItem, ih, hk]

/-- A rebuilt index carries the key hashes when the key index is configured. -/
theorem derive_keysFor (p : Params) (v : Ver) (recs : List Msg) (hk : p.keys = true) :
    KeysFor recs (derive p v recs) := by
  unfold KeysFor derive
  rw [deriveFrom_keys p hk]
  have := congrArg (List.map (fun m : Msg => fnv1a m.key)) (layout_map_snd v recs)
  simpa [List.map_map, Function.comp_def] using this

/-- Loading an index keeps `KeysInv`, and the loaded items carry the key hashes. -/
theorem withIndex_keys (l : Log) (i : Nat) (hk : KeysInv l) (hp : l.opts.params.keys = true)
    {l1 : Log} {s' : Seg} {its : List Item} {c : RCtx}
    (hw : withIndex l i = some (l1, s', its, c)) : KeysInv l1 ∧ KeysFor s'.recs its :=
  withIndex_P KeysFor l i hk (fun _ _ => derive_keysFor _ _ _ hp) hw

/-! ### `reader.GetByKey` -/

/-- Item `it` names record `m` of segment `s` and carries its key hash. -/
def KeyRel (s : Seg) (it : Item) (m : Msg) : Prop :=
  readAt s it.pos = some m ∧ it.kh = fnv1a m.key

theorem keyRel_all {s : Seg} {its : List Item} (hit : ItemsFor s.ver s.recs its)
    (hk : KeysFor s.recs its) : All2 (KeyRel s) its s.recs := by
  apply all2_of_getElem _ _ hit.length
  intro k h1 h2
  obtain ⟨_, hr⟩ := readAt_item hit k h1
  exact ⟨hr, (map_eq_getElem hk).2 k h1 h2⟩

/-- Reading the candidates of a hash returns the records with that hash. -/
theorem cands_read {s : Seg} (h : UInt64) {its : List Item} {recs : List Msg}
    (hall : All2 (KeyRel s) its recs) :
    ((its.filter (fun it => it.kh == h)).map (·.pos)).map (readAt s) =
      (recs.filter (fun m => fnv1a m.key == h)).map some := by
  induction hall with
  | nil => rfl
  | cons hab _ ih =>
    obtain ⟨hr, hkh⟩ := hab
    simp only [List.filter_cons, hkh]
    split
    · simp only [List.map_cons, hr, ih]
    · exact ih

theorem getByKey_go_spec (s : Seg) (key : List UInt8) : ∀ (ps : List Int) (ms : List Msg),
    ps.map (readAt s) = ms.map some →
    readerGetByKey.go s key ps =
      match ms.find? (fun m => decide (m.key = key)) with
      | some m => .ok m
      | none => .ierr .keyNotFound := by
  intro ps
  induction ps with
  | nil =>
    intro ms h
    cases ms with
    | nil => rfl
    | cons m ms => simp at h
  | cons p ps ih =>
    intro ms h
    cases ms with
    | nil => simp at h
    | cons m ms =>
      simp only [List.map_cons, List.cons.injEq] at h
      unfold readerGetByKey.go
      rw [h.1]
      simp only [List.find?_cons]
      by_cases hkey : m.key = key
      · simp [hkey]
      · simp only [hkey, if_false, decide_false]
        exact ih ms h.2

/-- The records with hash of `key` that also have the key are the records with the key. -/
theorem withKey_hash (recs : List Msg) (key : List UInt8) :
    Spec.withKey (recs.filter (fun m => fnv1a m.key == fnv1a key)) key = Spec.withKey recs key := by
  unfold Spec.withKey
  rw [List.filter_filter]
  apply List.filter_congr
  intro m _
  by_cases hkey : m.key = key
  · simp [hkey]
  · simp [hkey]

/-- `reader.GetByKey` on a consistent segment: the last record with exactly that key. -/
theorem readerGetByKey_spec (s : Seg) (its : List Item) (key : List UInt8)
    (hit : ItemsFor s.ver s.recs its) (hk : KeysFor s.recs its) :
    readerGetByKey s its key =
      match (Spec.withKey s.recs key).getLast? with
      | some m => .ok m
      | none => .ierr .keyNotFound := by
  have hc := cands_read (fnv1a key) (keyRel_all hit hk)
  rw [← withKey_hash]
  generalize hH : s.recs.filter (fun m => fnv1a m.key == fnv1a key) = H at hc
  unfold readerGetByKey Index.keys
  cases hps : (its.filter (fun it => it.kh == fnv1a key)).map (·.pos) with
  | nil =>
    rw [hps] at hc
    have hHn : H = [] := by
      have := hc.symm
      simpa using this
    simp [hHn, Spec.withKey]
  | cons p ps =>
    rw [hps] at hc
    simp only
    have hrev : (p :: ps).reverse.map (readAt s) = H.reverse.map some := by
      rw [List.map_reverse, hc, List.map_reverse]
    rw [getByKey_go_spec s key _ _ hrev, find?_reverse_eq]
    rfl

/-! ### `log.GetByKey` -/

theorem withKey_append (a b : List Msg) (key : List UInt8) :
    Spec.withKey (a ++ b) key = Spec.withKey a key ++ Spec.withKey b key := by
  unfold Spec.withKey; exact List.filter_append _ _

/-- The newest-to-oldest walk over the first `i` segments: the last message with the key
among them; every load keeps the invariants. -/
theorem getByKey_walk (key : List UInt8) : ∀ (i : Nat) (l : Log), Inv l → KeysInv l →
    l.opts.params.keys = true → i ≤ l.segs.length →
    Loaded l (Log.getByKey.go key l i).1 ∧ KeysInv (Log.getByKey.go key l i).1 ∧
    (Log.getByKey.go key l i).2 =
      match (Spec.withKey (flat ((shape l.segs).take i)) key).getLast? with
      | some m => .ok m
      | none => .err .notFound := by
  intro i
  induction i with
  | zero =>
    intro l hinv hk _ _
    rw [Log.getByKey.go.eq_1]
    exact ⟨Loaded.refl hinv, hk, by simp [flat_nil, Spec.withKey]⟩
  | succ i ih =>
    intro l hinv hk hp hi
    have hlen := shape_length l.segs
    obtain ⟨l1, s', its, c, hw, hb, hv, hr, hit, hc, hinv1, hsh1, hopts1, hnext1, htime1, hlen1⟩ :=
      withIndex_spec l i hinv (by omega)
    obtain ⟨hk1, hkf⟩ := withIndex_keys l i hk hp hw
    have hl1 : Loaded l l1 := ⟨hinv1, hsh1, hopts1, hnext1, htime1⟩
    have hsi := shape_getElem l.segs i (by omega)
    have hrecs : s'.recs = ((shape l.segs)[i]'(by omega)).2 := by rw [hsi, hr]
    rw [Log.getByKey.go.eq_2, hw]
    simp only
    rw [readerGetByKey_spec s' its key hit hkf]
    rw [flat_take_succ _ i (by omega), withKey_append, List.getLast?_append, ← hrecs]
    cases hlast : (Spec.withKey s'.recs key).getLast? with
    | some m =>
      simp only [Option.some_or]
      exact ⟨hl1, hk1, trivial⟩
    | none =>
      simp only [Option.none_or]
      obtain ⟨hl2, hk2, hres⟩ := ih l1 hinv1 hk1 (by rw [hopts1]; exact hp) (by omega)
      refine ⟨hl1.trans hl2, hk2, ?_⟩
      rw [hres, hsh1]

/-- **C09 refinement (GetByKey)**: the last live message with exactly that key;
`ErrNotFound` if there is none; `ErrNoIndex` without the key index. -/
theorem getByKey_ok (l : Log) (hinv : Inv l) (hk : KeysInv l) (key : List UInt8) :
    Spec.GetByKeyOK l.opts.params.keys (abs l) key (l.getByKey key).2 := by
  unfold Spec.GetByKeyOK Log.getByKey
  by_cases hp : l.opts.params.keys = true
  · simp only [hp, not_true_eq_false, if_false]
    obtain ⟨_, _, hres⟩ := getByKey_walk key l.segs.length l hinv hk hp (Nat.le_refl _)
    rw [hres, flat_take_all _ _ (by rw [shape_length]; exact Nat.le_refl _)]
    have hlive : (abs l).live = flat (shape l.segs) := rfl
    rw [hlive]
    cases (Spec.withKey (flat (shape l.segs)) key).getLast? <;> rfl
  · simp [hp]

/-- `GetByKey` only loads indexes. -/
theorem getByKey_loaded (l : Log) (hinv : Inv l) (hk : KeysInv l) (key : List UInt8) :
    Loaded l (l.getByKey key).1 := by
  unfold Log.getByKey
  by_cases hp : l.opts.params.keys = true
  · simp only [hp, not_true_eq_false, if_false]
    exact (getByKey_walk key l.segs.length l hinv hk hp (Nat.le_refl _)).1
  · rw [if_pos hp]
    exact Loaded.refl hinv

/-- The loads of `GetByKey` keep `KeysInv`. -/
theorem getByKey_keysInv (l : Log) (hinv : Inv l) (hk : KeysInv l) (key : List UInt8) :
    KeysInv (l.getByKey key).1 := by
  unfold Log.getByKey
  by_cases hp : l.opts.params.keys = true
  · simp only [hp, not_true_eq_false, if_false]
    exact (getByKey_walk key l.segs.length l hinv hk hp (Nat.le_refl _)).2.1
  · rw [if_pos hp]
    exact hk

/-! ### `reader.ConsumeByKey` -/

/-- How many more messages the scan takes once `a` are collected: until `mc` are there,
and at least one. -/
def keyLim (mc : Int) (a : Nat) : Nat := (max (mc - a) 1).toNat

/-- The candidates a cursor at `off` still has to see that have exactly the key. -/
def keyFrom (off : Int) (key : List UInt8) (ms : List Msg) : List Msg :=
  ms.filter (fun m => decide (off ≤ m.off) && decide (m.key = key))

theorem consumeByKey_go_spec (s : Seg) (key : List UInt8) (off mc : Int) :
    ∀ (ps : List Int) (ms acc : List Msg), ps.map (readAt s) = ms.map some →
    readerConsumeByKey.go s key off mc ps acc =
      some (acc.reverse ++ (keyFrom off key ms).take (keyLim mc acc.length)) := by
  intro ps
  induction ps with
  | nil =>
    intro ms acc h
    cases ms with
    | nil => simp [readerConsumeByKey.go.eq_1, keyFrom]
    | cons m ms => simp at h
  | cons p ps ih =>
    intro ms acc h
    cases ms with
    | nil => simp at h
    | cons m ms =>
      simp only [List.map_cons, List.cons.injEq] at h
      rw [readerConsumeByKey.go.eq_2, h.1]
      simp only
      by_cases h1 : m.off < off
      · simp only [h1, if_true]
        have hG : keyFrom off key (m :: ms) = keyFrom off key ms := by
          have : ¬ off ≤ m.off := by omega
          simp [keyFrom, this]
        rw [hG]
        exact ih ms acc h.2
      · simp only [h1, if_false]
        by_cases h2 : m.key = key
        · simp only [h2, if_true]
          have hG : keyFrom off key (m :: ms) = m :: keyFrom off key ms := by
            have : off ≤ m.off := by omega
            simp [keyFrom, this, h2]
          rw [hG]
          by_cases h3 : ((m :: acc).length : Int) ≥ mc
          · simp only [h3, if_true]
            have hl : keyLim mc acc.length = 1 := by
              unfold keyLim
              simp only [List.length_cons] at h3
              omega
            rw [hl]
            simp
          · simp only [h3, if_false]
            rw [ih ms (m :: acc) h.2]
            have hl : keyLim mc acc.length = keyLim mc (m :: acc).length + 1 := by
              unfold keyLim
              simp only [List.length_cons] at h3 ⊢
              omega
            rw [hl]
            simp
        · simp only [h2, if_false]
          have hG : keyFrom off key (m :: ms) = keyFrom off key ms := by
            simp [keyFrom, h2]
          rw [hG]
          exact ih ms acc h.2

theorem keyFrom_hash (recs : List Msg) (key : List UInt8) (off : Int) :
    keyFrom off key (recs.filter (fun m => fnv1a m.key == fnv1a key)) =
      Spec.withKey (segFrom recs off) key := by
  unfold keyFrom Spec.withKey segFrom
  rw [List.filter_filter, List.filter_filter]
  apply List.filter_congr
  intro m _
  by_cases hkey : m.key = key
  · by_cases ho : off ≤ m.off
    · simp [hkey, ho]
    · simp [hkey, ho]
  · simp [hkey]

/-- `reader.ConsumeByKey` on a consistent segment: the first `max mc 1` records at or after
`off` with exactly that key. -/
theorem readerConsumeByKey_spec (c : RCtx) (s : Seg) (its : List Item) (key : List UInt8)
    (off mc : Int) (hit : ItemsFor s.ver s.recs its) (hk : KeysFor s.recs its)
    (hn : off ≠ offsetNewest) :
    readerConsumeByKey c s its key off mc =
      match ((Spec.withKey (segFrom s.recs off) key).take (keyLim mc 0)).getLast? with
      | some lm => .ok (lm.off + 1, (Spec.withKey (segFrom s.recs off) key).take (keyLim mc 0))
      | none => .ok (c.nextOff, []) := by
  have hc := cands_read (fnv1a key) (keyRel_all hit hk)
  rw [← keyFrom_hash]
  generalize hH : s.recs.filter (fun m => fnv1a m.key == fnv1a key) = H at hc
  unfold readerConsumeByKey Index.keys
  simp only [hn, if_false]
  cases hps : (its.filter (fun it => it.kh == fnv1a key)).map (·.pos) with
  | nil =>
    rw [hps] at hc
    have hHn : H = [] := by
      have := hc.symm
      simpa using this
    simp [hHn, keyFrom]
  | cons p ps =>
    rw [hps] at hc
    simp only
    rw [consumeByKey_go_spec s key off mc _ _ [] hc]
    simp only [List.reverse_nil, List.nil_append, List.length_nil]
    generalize (keyFrom off key H).take (keyLim mc 0) = T
    cases T with
    | nil => rfl
    | cons x xs =>
      simp only
      rw [List.getLast?_cons]

/-! ### `log.ConsumeByKey` -/

/-- The body of `ConsumeByKeyOK` over the remaining messages with the key. -/
def KeyRes (F : List Msg) (next mc : Int) (r : Out (Int × List Msg)) : Prop :=
  match r with
  | .err _ => False
  | .ok (nxt, ms) =>
    ms <+: F ∧ (ms.length : Int) ≤ max mc 1 ∧ (F ≠ [] → ms ≠ []) ∧
    (match ms.getLast? with
     | some lm => nxt = lm.off + 1
     | none => nxt = next)

structure KeyWalkOK (l : Log) (F : List Msg) (next mc : Int) (r : Log × Out (Int × List Msg)) : Prop where
  loaded : Loaded l r.1
  keys : KeysInv r.1
  res : KeyRes F next mc r.2

theorem KeyWalkOK.trans {l l1 : Log} {F : List Msg} {next mc : Int} {r : Log × Out (Int × List Msg)}
    (h1 : Loaded l l1) (h : KeyWalkOK l1 F next mc r) : KeyWalkOK l F next mc r :=
  ⟨h1.trans h.loaded, h.keys, h.res⟩

/-- The walk from segment `i` with a cursor at `off`: the first `max mc 1` messages with
the key in the first segment that has any; caught up (`next`) when none has. -/
theorem consumeByKey_walk (key : List UInt8) (mc : Int) (sh : Shape) :
    ∀ (fuel i : Nat) (l : Log) (off : Int), Inv l → KeysInv l → l.opts.params.keys = true →
    shape l.segs = sh → off ≠ offsetNewest → ∀ (hi : i < sh.length), sh.length - i ≤ fuel →
    KeyWalkOK l (Spec.withKey (segFrom (sh[i]).2 off ++ flat (sh.drop (i + 1))) key)
      (shapeNext sh) mc (Log.consumeByKey.go key mc l i off fuel) := by
  intro fuel
  induction fuel with
  | zero => intro i l off _ _ _ _ _ hi hf; omega
  | succ fuel ih =>
    intro i l off hinv hk hp hshl hn hi hf
    subst hshl
    have hshok : ShapeOK (shape l.segs) := hinv.shape
    have hlen : (shape l.segs).length = l.segs.length := shape_length l.segs
    obtain ⟨l1, s', its, c, hw, hb, hv, hr, hit, hc, hinv1, hsh1, hopts1, hnext1, htime1, hlen1⟩ :=
      withIndex_spec l i hinv (by omega)
    obtain ⟨hk1, hkf⟩ := withIndex_keys l i hk hp hw
    have hl1 : Loaded l l1 := ⟨hinv1, hsh1, hopts1, hnext1, htime1⟩
    have hp1 : l1.opts.params.keys = true := by rw [hopts1]; exact hp
    have hsi := shape_getElem l.segs i (by omega)
    have hrecs : s'.recs = ((shape l.segs)[i]).2 := by rw [hsi, hr]
    rw [Log.consumeByKey.go.eq_2, hw]
    simp only
    rw [readerConsumeByKey_spec c s' its key off mc hit hkf hn, withKey_append, ← hrecs]
    have hlim : 1 ≤ keyLim mc 0 := by unfold keyLim; omega
    have hlimc : ((keyLim mc 0 : Nat) : Int) = max mc 1 := by unfold keyLim; omega
    cases hT : ((Spec.withKey (segFrom s'.recs off) key).take (keyLim mc 0)).getLast? with
    | some lm =>
      have hne : (Spec.withKey (segFrom s'.recs off) key).take (keyLim mc 0) ≠ [] := by
        intro h; rw [h] at hT; simp at hT
      simp only [hne, ne_eq, not_false_eq_true, if_true]
      refine ⟨hl1, hk1, ?_⟩
      unfold KeyRes
      simp only [hT]
      refine ⟨take_prefix_append _ _ _, ?_, fun _ => hne, trivial⟩
      have := List.length_take_le (keyLim mc 0) (Spec.withKey (segFrom s'.recs off) key)
      omega
    | none =>
      have hTn : (Spec.withKey (segFrom s'.recs off) key).take (keyLim mc 0) = [] :=
        List.getLast?_eq_none_iff.mp hT
      have hFn : Spec.withKey (segFrom s'.recs off) key = [] := by
        rcases List.take_eq_nil_iff.mp hTn with h | h
        · omega
        · exact h
      rw [hFn, List.nil_append]
      simp only [ne_eq, not_true_eq_false, if_false]
      by_cases hlast : i + 1 ≥ l1.segs.length
      · -- the head: caught up
        simp only [hlast, if_true]
        refine ⟨hl1, hk1, ?_⟩
        have hil : (shape l.segs).length - 1 = i := by omega
        have hctx := rctx_last l hinv s' its hit
          (by simp only [hil]; rw [hsi, hb]) (by simp only [hil]; rw [hsi, hr])
        have hlastb : (i + 1 == l.segs.length) = true := by simp only [beq_iff_eq]; omega
        rw [hlastb] at hc
        rw [← hc] at hctx
        unfold KeyRes
        rw [flat_drop_len _ _ (by omega), hctx.2]
        simp [Spec.withKey]
        omega
      · -- a reader segment without the key: the next segment, from its oldest offset
        simp only [hlast, if_false]
        have hi1 : i + 1 < (shape l.segs).length := by omega
        have hrem : flat ((shape l.segs).drop (i + 1)) =
            segFrom ((shape l.segs)[i + 1]).2 offsetOldest ++ flat ((shape l.segs).drop (i + 1 + 1)) := by
          rw [flat_drop_cons _ _ hi1, segFrom_all]
          intro m hm
          have h1 := hshok.lower _ (List.getElem_mem hi1) m hm
          have h2 := hshok.base0 _ (List.getElem_mem hi1)
          simp only [offsetOldest]; omega
        rw [hrem]
        have := ih (i + 1) l1 offsetOldest hinv1 hk1 hp1 hsh1 (by decide) hi1 (by omega)
        exact KeyWalkOK.trans hl1 this

/-- The core of `consumeByKey_ok`: once segment selection has named the start segment. -/
theorem consumeByKey_core (l : Log) (hinv : Inv l) (hk : KeysInv l)
    (hp : l.opts.params.keys = true) (key : List UInt8) (off mc : Int)
    (hn : off ≠ offsetNewest) (i : Nat)
    (hsearch : SegSearch.consume (bases l) off = .ok (i : Int))
    (hst : SegStart (shape l.segs) off i) :
    KeyWalkOK l (Spec.withKey ((abs l).fromOff off) key) (abs l).next mc (l.consumeByKey key off mc) := by
  have hlen := shape_length l.segs
  unfold Log.consumeByKey
  simp only [hp, not_true_eq_false, if_false]
  rw [hsearch]
  simp only [Int.toNat_natCast]
  have habs : abs l = absShape (shape l.segs) := rfl
  rw [habs, fromOff_split hinv.shape hst]
  exact consumeByKey_walk key mc (shape l.segs) (l.segs.length + 1) i l off hinv hk hp rfl hn hst.lt
    (by omega)

/-- `ConsumeByKey` at `OffsetNewest`: the head reports the next offset. -/
theorem consumeByKey_newest (l : Log) (hinv : Inv l) (hk : KeysInv l)
    (hp : l.opts.params.keys = true) (key : List UInt8) (mc : Int) :
    Loaded l (l.consumeByKey key offsetNewest mc).1 ∧ KeysInv (l.consumeByKey key offsetNewest mc).1 ∧
    (l.consumeByKey key offsetNewest mc).2 = .ok ((abs l).next, []) := by
  have hsh := hinv.shape
  have hlen := shape_length l.segs
  have hpos : 0 < (shape l.segs).length := List.length_pos_iff.mpr hsh.ne
  have hbne : bases l ≠ [] := by
    rw [bases_eq_shape]; intro h; exact hsh.ne (List.map_eq_nil_iff.mp h)
  have hsearch := SegSearch.consume_newest (bases l) hbne
  have hbl : (bases l).length = l.segs.length := by simp [bases]
  have hi : l.segs.length - 1 < l.segs.length := by omega
  obtain ⟨l1, s', its, c, hw, hb, hv, hr, hit, hc, hinv1, hsh1, hopts1, hnext1, htime1, hlen1⟩ :=
    withIndex_spec l (l.segs.length - 1) hinv hi
  obtain ⟨hk1, _⟩ := withIndex_keys l _ hk hp hw
  have hl1 : Loaded l l1 := ⟨hinv1, hsh1, hopts1, hnext1, htime1⟩
  unfold Log.consumeByKey
  simp only [hp, not_true_eq_false, if_false]
  rw [hsearch, hbl]
  have hcast : ((l.segs.length : Int) - 1).toNat = l.segs.length - 1 := by omega
  simp only [hcast]
  rw [Log.consumeByKey.go.eq_2, hw]
  simp only
  have hsi := shape_getElem l.segs (l.segs.length - 1) hi
  have hctx := rctx_last l hinv s' its hit
    (by simp only [hlen]; rw [hsi, hb]) (by simp only [hlen]; rw [hsi, hr])
  have hlastb : (l.segs.length - 1 + 1 == l.segs.length) = true := by
    simp only [beq_iff_eq]; omega
  rw [hlastb] at hc
  rw [← hc] at hctx
  have hrd : readerConsumeByKey c s' its key offsetNewest mc = .ok (c.nextOff, []) := by
    unfold readerConsumeByKey; simp
  rw [hrd]
  have hge : l.segs.length - 1 + 1 ≥ l1.segs.length := by omega
  simp only [ne_eq, not_true_eq_false, if_false, hge, if_true]
  refine ⟨hl1, hk1, ?_⟩
  rw [hctx.2]
  rfl

/-- Everything `ConsumeByKey` establishes on a log with the key index. -/
theorem consumeByKey_all (l : Log) (hinv : Inv l) (hk : KeysInv l)
    (hp : l.opts.params.keys = true) (key : List UInt8) (off mc : Int) :
    Loaded l (l.consumeByKey key off mc).1 ∧ KeysInv (l.consumeByKey key off mc).1 ∧
    Spec.ConsumeByKeyOK true (abs l) key off mc (l.consumeByKey key off mc).2 := by
  have hsh := hinv.shape
  have hlen := shape_length l.segs
  have hpos : 0 < (shape l.segs).length := List.length_pos_iff.mpr hsh.ne
  have hbne : bases l ≠ [] := by
    rw [bases_eq_shape]; intro h; exact hsh.ne (List.map_eq_nil_iff.mp h)
  by_cases hn : off = offsetNewest
  · subst hn
    obtain ⟨h1, h2, h3⟩ := consumeByKey_newest l hinv hk hp key mc
    refine ⟨h1, h2, ?_⟩
    unfold Spec.ConsumeByKeyOK
    simp [h3]
  · have fin : KeyWalkOK l (Spec.withKey ((abs l).fromOff off) key) (abs l).next mc
        (l.consumeByKey key off mc) →
        Loaded l (l.consumeByKey key off mc).1 ∧ KeysInv (l.consumeByKey key off mc).1 ∧
        Spec.ConsumeByKeyOK true (abs l) key off mc (l.consumeByKey key off mc).2 := by
      intro h
      refine ⟨h.loaded, h.keys, ?_⟩
      unfold Spec.ConsumeByKeyOK
      simp only [if_false, hn]
      by_cases hgt : off > (abs l).next
      · rw [if_pos hgt]; trivial
      · rw [if_neg hgt]; exact h.res
    by_cases hfirst : off = offsetOldest ∨ off ≤ ((shape l.segs)[0]).1
    · have hsearch : SegSearch.consume (bases l) off = .ok ((0 : Nat) : Int) := by
        apply SegSearch.consume_first _ _ hbne
        rcases hfirst with h | h
        · exact Or.inl h
        · refine Or.inr ⟨hn, ?_⟩
          intro h0
          simp only [bases_eq_shape, List.getElem_map]
          exact h
      have hst : SegStart (shape l.segs) off 0 := by
        apply SegStart.first hsh
        intro h0
        rcases hfirst with h | h
        · have := hsh.base0 _ (List.getElem_mem h0)
          rw [h]; simp [offsetOldest]; omega
        · exact h
      exact fin (consumeByKey_core l hinv hk hp key off mc hn 0 hsearch hst)
    · have h1 : off ≠ offsetOldest := fun h => hfirst (Or.inl h)
      have h2 : ((shape l.segs)[0]).1 < off := by
        have : ¬ off ≤ ((shape l.segs)[0]).1 := fun h => hfirst (Or.inr h)
        omega
      obtain ⟨i, hsearch, hseg⟩ := SegSearch.consume_spec (bases l) off
        (by rw [bases_eq_shape]; exact hsh.sortedB) hbne h1 hn
        (by intro h0; simp only [bases_eq_shape, List.getElem_map]; exact h2)
      rw [bases_eq_shape] at hseg
      exact fin (consumeByKey_core l hinv hk hp key off mc hn i hsearch (SegStart.of_isSegFor hsh hseg))

/-- **C09 refinement (ConsumeByKey)**: a non-empty prefix (at most `max mc 1`) of the live
messages at or after `off` with exactly that key, when there are any; otherwise the next
offset; `ErrNoIndex` without the key index. -/
theorem consumeByKey_ok (l : Log) (hinv : Inv l) (hk : KeysInv l) (key : List UInt8)
    (off : Int) (mc : Int) :
    Spec.ConsumeByKeyOK l.opts.params.keys (abs l) key off mc (l.consumeByKey key off mc).2 := by
  by_cases hp : l.opts.params.keys = true
  · rw [hp]
    exact (consumeByKey_all l hinv hk hp key off mc).2.2
  · unfold Spec.ConsumeByKeyOK Log.consumeByKey
    simp [hp]

/-- `ConsumeByKey` only loads indexes. -/
theorem consumeByKey_loaded (l : Log) (hinv : Inv l) (hk : KeysInv l) (key : List UInt8)
    (off : Int) (mc : Int) : Loaded l (l.consumeByKey key off mc).1 := by
  by_cases hp : l.opts.params.keys = true
  · exact (consumeByKey_all l hinv hk hp key off mc).1
  · unfold Log.consumeByKey
    rw [if_pos hp]
    exact Loaded.refl hinv

/-- The loads of `ConsumeByKey` keep `KeysInv`. -/
theorem consumeByKey_keysInv (l : Log) (hinv : Inv l) (hk : KeysInv l) (key : List UInt8)
    (off : Int) (mc : Int) : KeysInv (l.consumeByKey key off mc).1 := by
  by_cases hp : l.opts.params.keys = true
  · exact (consumeByKey_all l hinv hk hp key off mc).2.1
  · unfold Log.consumeByKey
    rw [if_pos hp]
    exact hk

end Klev

#print axioms Klev.derive_keysFor
#print axioms Klev.withIndex_keys
#print axioms Klev.readerGetByKey_spec
#print axioms Klev.getByKey_ok
#print axioms Klev.getByKey_loaded
#print axioms Klev.getByKey_keysInv
#print axioms Klev.readerConsumeByKey_spec
#print axioms Klev.consumeByKey_ok
#print axioms Klev.consumeByKey_loaded
#print axioms Klev.consumeByKey_keysInv
