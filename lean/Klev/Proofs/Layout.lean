/-
Files at record level: positions are strictly increasing, an index that names the
positions of the records (`ItemsFor`) leads every read to the record it names.
-/
import Klev.Model
import Klev.Proofs.IndexSearch
namespace Klev

/-! ### generic list facts -/

theorem dropWhile_eq_drop {α : Type} (p : α → Bool) :
    ∀ (l : List α) (k : Nat) (hk : k < l.length),
      (∀ j (hj : j < k), p (l[j]'(by omega)) = true) → p l[k] = false →
      l.dropWhile p = l.drop k := by
  intro l
  induction l with
  | nil => intro k hk; simp at hk
  | cons x xs ih =>
    intro k hk hlo hk0
    cases k with
    | zero =>
      simp only [List.getElem_cons_zero] at hk0
      simp [hk0]
    | succ k =>
      have hx : p x = true := by simpa using hlo 0 (by omega)
      simp only [List.dropWhile_cons, hx, if_true, List.drop_succ_cons]
      apply ih k (by simpa using hk)
      · intro j hj
        have := hlo (j + 1) (by omega)
        simpa using this
      · simpa using hk0

theorem takeWhile_all {α : Type} (p : α → Bool) : ∀ (l : List α), (∀ x ∈ l, p x = true) →
    l.takeWhile p = l := by
  intro l
  induction l with
  | nil => intro _; rfl
  | cons x xs ih =>
    intro h
    have hx : p x = true := h x (by simp)
    simp only [List.takeWhile_cons, hx, if_true]
    rw [ih (fun y hy => h y (by simp [hy]))]

theorem filter_eq_drop {α : Type} (p : α → Bool) :
    ∀ (l : List α) (k : Nat), k ≤ l.length →
      (∀ j (hj : j < k) (hl : j < l.length), p l[j] = false) →
      (∀ j (hl : j < l.length), k ≤ j → p l[j] = true) →
      l.filter p = l.drop k := by
  intro l
  induction l with
  | nil => intro k _ _ _; simp
  | cons x xs ih =>
    intro k hk hlo hhi
    cases k with
    | zero =>
      simp only [List.drop_zero]
      rw [List.filter_eq_self]
      intro a ha
      obtain ⟨i, hi, rfl⟩ := List.getElem_of_mem ha
      exact hhi i hi (by omega)
    | succ k =>
      have hx : p x = false := by
        have := hlo 0 (by omega) (by simp)
        simpa using this
      simp only [List.filter_cons, hx, List.drop_succ_cons]
      apply ih k (by simpa using hk)
      · intro j hj hl
        have := hlo (j + 1) (by omega) (by simpa using hl)
        simpa using this
      · intro j hl hkj
        have := hhi (j + 1) (by simpa using hl) (by omega)
        simpa using this

theorem map_eq_getElem {α β γ : Type} {f : α → γ} {g : β → γ} {l₁ : List α} {l₂ : List β}
    (h : l₁.map f = l₂.map g) :
    l₁.length = l₂.length ∧ ∀ k (h1 : k < l₁.length) (h2 : k < l₂.length), f l₁[k] = g l₂[k] := by
  have hl : l₁.length = l₂.length := by simpa using congrArg List.length h
  refine ⟨hl, ?_⟩
  intro k h1 h2
  have := congrArg (fun l => l[k]?) h
  simp only [List.getElem?_map, List.getElem?_eq_getElem h1, List.getElem?_eq_getElem h2,
    Option.map_some, Option.some.injEq] at this
  exact this

/-! ### layout -/

theorem layoutFrom_map_snd (v : Ver) : ∀ (p : Int) (recs : List Msg),
    (layoutFrom v p recs).map (·.2) = recs := by
  intro p recs
  induction recs generalizing p with
  | nil => rfl
  | cons m ms ih => simp [layoutFrom, ih]

theorem layout_map_snd (v : Ver) (recs : List Msg) : (layout v recs).map (·.2) = recs :=
  layoutFrom_map_snd v _ recs

theorem layoutFrom_length (v : Ver) (p : Int) (recs : List Msg) :
    (layoutFrom v p recs).length = recs.length := by
  simpa using congrArg List.length (layoutFrom_map_snd v p recs)

theorem layout_length (v : Ver) (recs : List Msg) : (layout v recs).length = recs.length :=
  layoutFrom_length v _ recs

theorem layoutFrom_ge (v : Ver) : ∀ (p : Int) (recs : List Msg),
    ∀ pm ∈ layoutFrom v p recs, p ≤ pm.1 := by
  intro p recs
  induction recs generalizing p with
  | nil => intro pm h; cases h
  | cons m ms ih =>
    intro pm h
    simp only [layoutFrom, List.mem_cons] at h
    rcases h with rfl | h
    · exact Int.le_refl _
    · have := ih _ pm h
      have := recSize_pos v m
      omega

theorem layoutFrom_sorted (v : Ver) : ∀ (p : Int) (recs : List Msg),
    (layoutFrom v p recs).Pairwise (fun a b => a.1 < b.1) := by
  intro p recs
  induction recs generalizing p with
  | nil => simp [layoutFrom]
  | cons m ms ih =>
    simp only [layoutFrom, List.pairwise_cons]
    refine ⟨?_, ih _⟩
    intro pm h
    have := layoutFrom_ge v _ ms pm h
    have := recSize_pos v m
    omega

theorem layout_sorted (v : Ver) (recs : List Msg) :
    (layout v recs).Pairwise (fun a b => a.1 < b.1) := layoutFrom_sorted v _ recs

theorem layout_getElem_snd (v : Ver) (recs : List Msg) (k : Nat) (h1 : k < (layout v recs).length)
    (h2 : k < recs.length) : ((layout v recs)[k]).2 = recs[k] := by
  have := congrArg (fun l => l[k]?) (layout_map_snd v recs)
  simp only [List.getElem?_map, List.getElem?_eq_getElem h1, List.getElem?_eq_getElem h2,
    Option.map_some, Option.some.injEq] at this
  exact this

theorem layout_pos_lt (v : Ver) (recs : List Msg) {i j : Nat} (hij : i < j)
    (hj : j < (layout v recs).length) :
    ((layout v recs)[i]'(by omega)).1 < ((layout v recs)[j]).1 :=
  List.pairwise_iff_getElem.mp (layout_sorted v recs) i j (by omega) hj hij

/-! ### an index that names the records -/

/-- `its` lists, in order, the offset and the position of every record of the file. -/
def ItemsFor (v : Ver) (recs : List Msg) (its : List Item) : Prop :=
  its.map (fun it => (it.off, it.pos)) = (layout v recs).map (fun pm => (pm.2.off, pm.1))

theorem ItemsFor.length {v : Ver} {recs : List Msg} {its : List Item} (h : ItemsFor v recs its) :
    its.length = recs.length := by
  rw [← layout_length v recs]; exact (map_eq_getElem h).1

theorem ItemsFor.getElem {v : Ver} {recs : List Msg} {its : List Item} (h : ItemsFor v recs its)
    (k : Nat) (h1 : k < its.length) :
    ∃ (h2 : k < (layout v recs).length) (h3 : k < recs.length),
      (its[k]).off = (recs[k]).off ∧ (its[k]).pos = ((layout v recs)[k]).1 := by
  have hl := (map_eq_getElem h).1
  have h2 : k < (layout v recs).length := by omega
  have h3 : k < recs.length := by rw [← layout_length v recs]; exact h2
  have := (map_eq_getElem h).2 k h1 h2
  simp only [Prod.mk.injEq] at this
  refine ⟨h2, h3, ?_, this.2⟩
  rw [this.1, layout_getElem_snd v recs k h2 h3]

theorem deriveFrom_itemsFor (p : Params) : ∀ (ts : Int) (L : List (Int × Msg)),
    (deriveFrom p ts L).map (fun it => (it.off, it.pos)) = L.map (fun pm => (pm.2.off, pm.1)) := by
  intro ts L
  induction L generalizing ts with
  | nil => rfl
  | cons pm rest ih =>
    obtain ⟨pos, m⟩ := pm
    simp [deriveFrom, newItem, ih]

theorem derive_itemsFor (p : Params) (v : Ver) (recs : List Msg) :
    ItemsFor v recs (derive p v recs) := deriveFrom_itemsFor p 0 _

theorem ItemsFor.sorted {v : Ver} {recs : List Msg} {its : List Item} (h : ItemsFor v recs its)
    (hs : recs.Pairwise (fun a b => a.off < b.off)) : SortedOff its := by
  rw [SortedOff, List.pairwise_iff_getElem]
  intro i j hi hj hij
  obtain ⟨_, hi3, hio, _⟩ := h.getElem i hi
  obtain ⟨_, hj3, hjo, _⟩ := h.getElem j hj
  rw [hio, hjo]
  exact List.pairwise_iff_getElem.mp hs i j hi3 hj3 hij

/-- A read at the position an item names returns the record the item describes. -/
theorem readAt_item {s : Seg} {its : List Item} (h : ItemsFor s.ver s.recs its)
    (k : Nat) (h1 : k < its.length) :
    ∃ h3 : k < s.recs.length, readAt s (its[k]).pos = some (s.recs[k]) := by
  obtain ⟨h2, h3, _, hp⟩ := h.getElem k h1
  refine ⟨h3, ?_⟩
  unfold readAt
  have := find_first (layout s.ver s.recs) (fun pm => pm.1 == (its[k]).pos) k h2
    (by simp [hp])
    (by intro j hj
        have := layout_pos_lt s.ver s.recs hj h2
        simp only [beq_eq_false_iff_ne, ne_eq]
        omega)
  rw [this]
  simp [layout_getElem_snd s.ver s.recs k h2 h3]

/-- A range read from the position of item `k` to the position of the last item returns
the records from `k` on, at most `mc` of them. -/
theorem consumeFile_item {s : Seg} {its : List Item} (h : ItemsFor s.ver s.recs its)
    (k : Nat) (h1 : k < its.length) (last : Item) (hl : its.getLast? = some last) (mc : Nat) :
    consumeFile s (its[k]).pos last.pos mc = (s.recs.drop k).take mc := by
  obtain ⟨h2, h3, _, hp⟩ := h.getElem k h1
  obtain ⟨hn, hlast⟩ := getLast?_eq_getElem hl
  obtain ⟨hn2, _, _, hlp⟩ := h.getElem (its.length - 1) hn
  unfold consumeFile
  have hd := dropWhile_eq_drop (fun (pm : Int × Msg) => pm.1 != (its[k]).pos) (layout s.ver s.recs) k h2
    (by intro j hj
        have := layout_pos_lt s.ver s.recs hj h2
        simp only [bne_iff_ne, ne_eq]
        omega)
    (by simp [hp])
  rw [hd]
  have ht : ((layout s.ver s.recs).drop k).takeWhile (fun pm => decide (pm.1 ≤ last.pos)) =
      (layout s.ver s.recs).drop k := by
    apply takeWhile_all
    intro pm hm
    obtain ⟨i, hi, rfl⟩ := List.getElem_of_mem (List.mem_of_mem_drop hm)
    simp only [decide_eq_true_eq]
    rw [← hlast, hlp]
    have hlen := (map_eq_getElem h).1
    by_cases hc : i = its.length - 1
    · subst hc; omega
    · have := layout_pos_lt s.ver s.recs (i := i) (j := its.length - 1) (by omega) hn2
      omega
  rw [ht, List.map_take, List.map_drop, layout_map_snd]

end Klev
