/-
Losing unsynced data (C06): whatever tail of the head log is lost and whatever is left of
the head index file, Open with Recover succeeds, the log satisfies the invariant and holds
exactly the messages that were not lost; everything Sync acknowledged survives when the
records it covered survive.

No hypothesis on `l.opts.readonly` is needed: only `Inv.shape` and `Inv.idx` are used (they
hold for read-only and read-write logs alike).
-/
import Klev.Loss
import Klev.Proofs.CrashProofs
namespace Klev.Loss
open Klev Klev.Crash

/-- the live messages of the sealed segments, then the head's first j records -/
def keptLive (l : Log) (j : Nat) : List Msg :=
  (l.segs.dropLast.flatMap (·.recs)) ++ (match l.segs.getLast? with | some h => h.recs.take j | none => [])

/-! ### shapes -/

/-- `ShapeOK` is kept when the last segment's records are replaced by a prefix of them. -/
theorem shapeOK_take_last (pre : Shape) (b : Int) (recs : List Msg) (j : Nat)
    (h : ShapeOK (pre ++ [(b, recs)])) : ShapeOK (pre ++ [(b, recs.take j)]) := by
  rw [shapeOK_snoc_iff] at h ⊢
  obtain ⟨hpre, hpw, hr, hs, hl, hb⟩ := h
  refine ⟨hpre, hpw, fun br hbr => ⟨(hr br hbr).1, (hr br hbr).2⟩, ?_, ?_, hb⟩
  · exact List.Pairwise.sublist (List.take_sublist _ _) hs
  · intro m hm; exact hl m (List.mem_of_mem_take hm)

theorem shape_segs_snoc {l : Log} {h : Seg} (hl : l.segs.getLast? = some h) :
    shape l.segs = shape l.segs.dropLast ++ [(h.base, h.recs)] := by
  conv => lhs; rw [segs_snoc hl]
  rw [shape_append]; rfl

theorem lossState_eq (l : Log) (h : Seg) (hl : l.segs.getLast? = some h) (j : Nat) (idx : Option IdxFile) :
    lossState l j idx = l.segs.dropLast.map Seg.toDisk ++ [⟨h.base, h.ver, h.recs.take j, idx⟩] := by
  unfold lossState Log.disk
  conv => lhs; rw [segs_snoc hl]
  rw [List.map_append, List.map_cons, List.map_nil, mapLast_snoc]
  rfl

theorem shapeD_loss (l : Log) (h : Seg) (hl : l.segs.getLast? = some h) (j : Nat) (idx : Option IdxFile) :
    shapeD (lossState l j idx) = shape l.segs.dropLast ++ [(h.base, h.recs.take j)] := by
  rw [lossState_eq l h hl, shapeD_append]
  simp [shapeD, shape, Seg.toDisk, List.map_map, Function.comp_def]

theorem flat_shape (segs : List Seg) : (shape segs).flatMap (·.2) = segs.flatMap (·.recs) := by
  unfold shape
  rw [List.flatMap_map]

theorem abs_live_snoc {l : Log} {h : Seg} (hl : l.segs.getLast? = some h) :
    (abs l).live = l.segs.dropLast.flatMap (·.recs) ++ h.recs := by
  show (shape l.segs).flatMap (·.2) = _
  rw [shape_segs_snoc hl, List.flatMap_append, flat_shape]
  simp

theorem keptLive_eq {l : Log} {h : Seg} (hl : l.segs.getLast? = some h) (j : Nat) :
    keptLive l j = l.segs.dropLast.flatMap (·.recs) ++ h.recs.take j := by
  unfold keptLive; rw [hl]

theorem ackAfter_eq {l : Log} {h : Seg} (hl : l.segs.getLast? = some h) (n : Nat) :
    ackAfter l n = recsNext h.base (h.recs.take n) := by
  unfold ackAfter; rw [hl]; rfl

/-! ### the directory after the loss -/

theorem lossState_diskOKH (l : Log) (hinv : Inv l) (j : Nat) (idx : Option IdxFile) :
    Klev.Crash.DiskOKH (lossState l j idx) ∧
    (absDisk (lossState l j idx)).live = keptLive l j ∧
    (absDisk (lossState l j idx)).next = ackAfter l j := by
  obtain ⟨h, hl⟩ := inv_getLast l hinv
  have hsd := shapeD_loss l h hl j idx
  have hok : ShapeOK (shape l.segs.dropLast ++ [(h.base, h.recs)]) := by
    rw [← shape_segs_snoc hl]; exact hinv.shape
  refine ⟨⟨by rw [hsd]; exact shapeOK_take_last _ _ _ j hok, ?_⟩, ?_, ?_⟩
  · intro sd hmem
    rw [lossState_eq l h hl, List.dropLast_concat] at hmem
    obtain ⟨s, hs, rfl⟩ := List.mem_map.mp hmem
    intro f hf
    exact (hinv.idx s (List.dropLast_subset _ hs)).idx f hf
  · show (shapeD (lossState l j idx)).flatMap (·.2) = keptLive l j
    rw [hsd, keptLive_eq hl, List.flatMap_append, flat_shape]
    simp
  · show shapeNext (shapeD (lossState l j idx)) = ackAfter l j
    rw [hsd, ackAfter_eq hl, shapeNext_snoc]

/-- MAIN: whatever tail of the head log is lost and whatever is left of the head index, Open with Recover
(any other options, read-write) succeeds, the log satisfies the invariant, holds exactly the messages that
were not lost, and its next offset is the one after the last surviving record. -/
theorem loss_recovers (l : Log) (hinv : Inv l) (j : Nat) (idx : Option IdxFile)
    (oo : OpenOpts) (hro : oo.opts.readonly = false) (hrec : oo.recover = true) :
    ∃ l', Log.open (lossState l j idx) oo = .ok l' ∧ Inv l' ∧
      (abs l').live = keptLive l j ∧ (abs l').next = ackAfter l j := by
  obtain ⟨hd, hlive, hnext⟩ := lossState_diskOKH l hinv j idx
  obtain ⟨l', hopen, hinv', habs'⟩ := open_recover_spec _ hd oo hrec hro
  exact ⟨l', hopen, hinv', by rw [habs']; exact hlive, by rw [habs']; exact hnext⟩

/-- everything the log held is a prefix-extension: kept ++ lost = live -/
theorem keptLive_prefix (l : Log) (hinv : Inv l) (j : Nat) : keptLive l j <+: (abs l).live := by
  obtain ⟨h, hl⟩ := inv_getLast l hinv
  rw [keptLive_eq hl, abs_live_snoc hl, List.prefix_append_right_inj]
  exact List.take_prefix _ _

theorem keptLive_all (l : Log) (hinv : Inv l) (j : Nat)
    (hj : ∀ h, l.segs.getLast? = some h → h.recs.length ≤ j) : keptLive l j = (abs l).live := by
  obtain ⟨h, hl⟩ := inv_getLast l hinv
  rw [keptLive_eq hl, abs_live_snoc hl, List.take_of_length_le (hj h hl)]

/-- what was lost: `kept ++ (the head's records from j on) = live` -/
theorem keptLive_append_lost (l : Log) (hinv : Inv l) (j : Nat) :
    keptLive l j ++ (match l.segs.getLast? with | some h => h.recs.drop j | none => []) = (abs l).live := by
  obtain ⟨h, hl⟩ := inv_getLast l hinv
  rw [keptLive_eq hl, abs_live_snoc hl, hl, List.append_assoc, List.take_append_drop]

/-! ### the acknowledged offset -/

/-- In a sorted record list bounded below by `base`, a record below "one past the `n`-th
record" (the base if `n = 0`) is among the first `n`. -/
theorem mem_take_of_lt_recsNext (base : Int) (recs : List Msg) (n : Nat)
    (hs : recs.Pairwise (fun a b => a.off < b.off)) (hlow : ∀ m ∈ recs, base ≤ m.off)
    (m : Msg) (hm : m ∈ recs) (hlt : m.off < recsNext base (recs.take n)) : m ∈ recs.take n := by
  rw [← List.take_append_drop n recs] at hm hs
  rcases List.mem_append.mp hm with h | h
  · exact h
  · exfalso
    have hall := (List.pairwise_append.mp hs).2.2
    unfold recsNext at hlt
    cases hg : (recs.take n).getLast? with
    | none =>
      rw [hg] at hlt
      simp only at hlt
      have := hlow m (List.mem_of_mem_drop h)
      omega
    | some x =>
      rw [hg] at hlt
      simp only at hlt
      have := hall x (List.mem_of_getLast? hg) m h
      omega

theorem recsNext_take_mono (base : Int) (recs : List Msg) (n j : Nat) (hnj : n ≤ j)
    (hs : recs.Pairwise (fun a b => a.off < b.off)) (hlow : ∀ m ∈ recs, base ≤ m.off) :
    recsNext base (recs.take n) ≤ recsNext base (recs.take j) := by
  have hsj : (recs.take j).Pairwise (fun a b => a.off < b.off) :=
    List.Pairwise.sublist (List.take_sublist _ _) hs
  have hlj : ∀ m ∈ recs.take j, base ≤ m.off := fun m hm => hlow m (List.mem_of_mem_take hm)
  cases hg : (recs.take n).getLast? with
  | none =>
    have : recsNext base (recs.take n) = base := by unfold recsNext; rw [hg]
    rw [this]; exact recsNext_ge base _ hlj
  | some x =>
    have : recsNext base (recs.take n) = x.off + 1 := by unfold recsNext; rw [hg]
    rw [this]
    have hx : x ∈ recs.take j :=
      (List.take_sublist_take_left hnj).subset (List.mem_of_getLast? hg)
    have := recsNext_gt base _ hsj x hx
    omega

theorem head_segShapeOK (l : Log) (hinv : Inv l) (h : Seg) (hl : l.segs.getLast? = some h) :
    h.recs.Pairwise (fun a b => a.off < b.off) ∧ ∀ m ∈ h.recs, h.base ≤ m.off := by
  have hmem : (h.base, h.recs) ∈ shape l.segs := by rw [shape_segs_snoc hl]; simp
  exact ⟨hinv.shape.sorted _ hmem, hinv.shape.lower _ hmem⟩

/-- the acknowledged offset only grows with the number of records -/
theorem ackAfter_mono (l : Log) (hinv : Inv l) (n j : Nat) (hnj : n ≤ j) : ackAfter l n ≤ ackAfter l j := by
  obtain ⟨h, hl⟩ := inv_getLast l hinv
  obtain ⟨hs, hlow⟩ := head_segShapeOK l hinv h hl
  rw [ackAfter_eq hl, ackAfter_eq hl]
  exact recsNext_take_mono _ _ _ _ hnj hs hlow

/-- with every record of the head counted, the acknowledged offset is the log's next offset -/
theorem ackAfter_all (l : Log) (hinv : Inv l) (n : Nat)
    (hn : ∀ h, l.segs.getLast? = some h → h.recs.length ≤ n) : ackAfter l n = (abs l).next := by
  obtain ⟨h, hl⟩ := inv_getLast l hinv
  rw [ackAfter_eq hl, List.take_of_length_le (hn h hl)]
  show _ = shapeNext (shape l.segs)
  rw [shape_segs_snoc hl, shapeNext_snoc]

/-- a live message below the offset acknowledged at `n` records is kept when at least `n`
records of the head are kept -/
theorem live_lt_ack_kept (l : Log) (hinv : Inv l) (n j : Nat) (hnj : n ≤ j) (m : Msg)
    (hm : m ∈ (abs l).live) (hlt : m.off < ackAfter l n) : m ∈ keptLive l j := by
  obtain ⟨h, hl⟩ := inv_getLast l hinv
  obtain ⟨hs, hlow⟩ := head_segShapeOK l hinv h hl
  rw [abs_live_snoc hl] at hm
  rw [keptLive_eq hl]
  rw [ackAfter_eq hl] at hlt
  rcases List.mem_append.mp hm with h1 | h1
  · exact List.mem_append_left _ h1
  · apply List.mem_append_right
    exact (List.take_sublist_take_left hnj).subset
      (mem_take_of_lt_recsNext h.base h.recs n hs hlow m h1 hlt)

/-- THE PROPERTY: if Sync acknowledged when the head held n records and at least those n survive (n ≤ j),
then every live message below the acknowledged offset survives and NextOffset is not below it. -/
theorem synced_survive (l : Log) (hinv : Inv l) (n j : Nat) (hnj : n ≤ j) (idx : Option IdxFile)
    (oo : OpenOpts) (hro : oo.opts.readonly = false) (hrec : oo.recover = true) :
    ∃ l', Log.open (lossState l j idx) oo = .ok l' ∧ Inv l' ∧
      (∀ m ∈ (abs l).live, m.off < ackAfter l n → m ∈ (abs l').live) ∧
      ackAfter l n ≤ (abs l').next ∧
      (abs l').live <+: (abs l).live := by
  obtain ⟨l', hopen, hinv', hlive, hnext⟩ := loss_recovers l hinv j idx oo hro hrec
  refine ⟨l', hopen, hinv', ?_, ?_, ?_⟩
  · intro m hm hlt
    rw [hlive]; exact live_lt_ack_kept l hinv n j hnj m hm hlt
  · rw [hnext]; exact ackAfter_mono l hinv n j hnj
  · rw [hlive]; exact keptLive_prefix l hinv j

/-- nothing lost from the head log (only the index file): the recovered log has the same content -/
theorem index_loss_only (l : Log) (hinv : Inv l) (j : Nat)
    (hj : ∀ h, l.segs.getLast? = some h → h.recs.length ≤ j) (idx : Option IdxFile)
    (oo : OpenOpts) (hro : oo.opts.readonly = false) (hrec : oo.recover = true) :
    ∃ l', Log.open (lossState l j idx) oo = .ok l' ∧ Inv l' ∧ abs l' = abs l := by
  obtain ⟨l', hopen, hinv', hlive, hnext⟩ := loss_recovers l hinv j idx oo hro hrec
  refine ⟨l', hopen, hinv', ?_⟩
  have h1 : (abs l').live = (abs l).live := by rw [hlive]; exact keptLive_all l hinv j hj
  have h2 : (abs l').next = (abs l).next := by rw [hnext]; exact ackAfter_all l hinv j hj
  cases hA : abs l' with
  | mk lv nx =>
    cases hB : abs l with
    | mk lv2 nx2 =>
      rw [hA, hB] at h1 h2
      simp only at h1 h2
      rw [h1, h2]

/-! ### non-vacuity: a two-segment log whose head holds three records -/

/-- Two batches with a rollover in between: segments `0: [0, 1]` and `2: [2, 3, 4]`. -/
def exL : Log := (cx2L1.publish [(12, [], [3]), (13, [], [4]), (14, [], [5])]).1

theorem exL_inv : Inv exL := by
  have h0 : Inv cx2L0 := by
    obtain ⟨l', h, hinv, _⟩ := open_empty cx2Opts
    rw [cx2L0_open] at h
    simp only [Out.ok.injEq] at h
    rw [h]; exact hinv
  exact (publish_step cx2L1 (publish_step cx2L0 h0 _).1 _).1

theorem exL_shape : (shape exL.segs).map (fun br => (br.1, br.2.map (·.off))) = [(0, [0, 1]), (2, [2, 3, 4])] := by
  decide

/-- content (offsets of the live messages, next offset) of what Open makes of a directory -/
def openContent (d : List SegDisk) (oo : OpenOpts) : Option (List Int × Int) :=
  match Log.open d oo with
  | .ok l' => some ((abs l').live.map (·.off), (abs l').next)
  | .err _ => none

/-- the offsets acknowledged by a Sync at 0, 1, 2, 3 records in the head -/
example : (List.range 4).map (ackAfter exL) = [2, 3, 4, 5] := by decide

/-- the head log keeps one of its three records, the head index file is gone -/
example : openContent (lossState exL 1 none) cx2RecoverOpts = some ([0, 1, 2], 3) := by decide

/-- … the head index file is a bare V2 header -/
example : openContent (lossState exL 1 (some ⟨.v2, []⟩)) cx2RecoverOpts = some ([0, 1, 2], 3) := by decide

/-- … the head index file still names all three records (items past the end of the log) -/
example : openContent (lossState exL 1 (exL.disk.getLast?.bind (·.idxf))) cx2RecoverOpts = some ([0, 1, 2], 3) ∧
    (exL.disk.getLast?.bind (·.idxf)).map (·.items.length) = some 3 := by decide

/-- … the whole head log is lost -/
example : openContent (lossState exL 0 none) cx2RecoverOpts = some ([0, 1], 2) := by decide

/-- nothing is lost but the index: the content is that of the log -/
example : openContent (lossState exL 3 none) cx2RecoverOpts = some ((abs exL).live.map (·.off), (abs exL).next) ∧
    (abs exL).next = 5 := by decide

/-- the instances of the theorems, with the recovered content computed -/
theorem ex_loss_recovers (idx : Option IdxFile) :
    ∃ l', Log.open (lossState exL 1 idx) cx2RecoverOpts = .ok l' ∧ Inv l' ∧
      (abs l').live.map (·.off) = [0, 1, 2] ∧ (abs l').next = 3 := by
  obtain ⟨l', h, hinv, hlive, hnext⟩ := loss_recovers exL exL_inv 1 idx cx2RecoverOpts (by decide) (by decide)
  refine ⟨l', h, hinv, ?_, ?_⟩
  · rw [hlive]; decide
  · rw [hnext]; decide

/-- Sync acknowledged offset 3 (one record in the head); the crash keeps two records: the
messages 0, 1, 2 survive and NextOffset ≥ 3. -/
theorem ex_synced_survive (idx : Option IdxFile) :
    ∃ l', Log.open (lossState exL 2 idx) cx2RecoverOpts = .ok l' ∧ Inv l' ∧
      (∀ m ∈ (abs exL).live, m.off < 3 → m ∈ (abs l').live) ∧ 3 ≤ (abs l').next := by
  obtain ⟨l', h, hinv, hsurv, hnext, _⟩ :=
    synced_survive exL exL_inv 1 2 (by decide) idx cx2RecoverOpts (by decide) (by decide)
  have hack : ackAfter exL 1 = 3 := by decide
  rw [hack] at hsurv hnext
  exact ⟨l', h, hinv, hsurv, hnext⟩

end Klev.Loss

#print axioms Klev.Loss.shapeOK_take_last
#print axioms Klev.Loss.lossState_diskOKH
#print axioms Klev.Loss.loss_recovers
#print axioms Klev.Loss.keptLive_prefix
#print axioms Klev.Loss.keptLive_all
#print axioms Klev.Loss.keptLive_append_lost
#print axioms Klev.Loss.ackAfter_mono
#print axioms Klev.Loss.ackAfter_all
#print axioms Klev.Loss.synced_survive
#print axioms Klev.Loss.index_loss_only
#print axioms Klev.Loss.ex_loss_recovers
#print axioms Klev.Loss.ex_synced_survive
