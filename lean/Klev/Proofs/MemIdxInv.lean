/-
`MemIdx` ("a segment whose index is in memory has an index file", the extra clause the
`Stat` theorem needs) is preserved by every API step and established by every open except
the read-only open of an empty directory. Purely structural: no `Inv` needed for the steps.
-/
import Klev.Proofs.StatOK
import Klev.Proofs.Reach
namespace Klev

/-! ### openWriter -/

/-- `index.OpenWriter` creates the index file when it is missing: a head always has one. -/
theorem openWriter_memIdx (o : Opts) (s : Seg) (nt : Int) :
    (openWriter o s nt).1.idxf.isSome = true := by
  unfold openWriter
  simp only []
  split <;> rfl

/-! ### reads -/

theorem consume_memIdx (l : Log) (hmi : MemIdx l) (off : Int) (mc : Nat) :
    MemIdx (l.consume off mc).1 := by
  unfold Log.consume
  split
  · exact hmi
  · next i _ =>
    split
    · exact hmi
    · next l1 s its c hw =>
      have h1 : MemIdx l1 := withIndex_memIdx l i.toNat hmi hw
      split
      · split
        · split
          · exact h1
          · next l2 s2 its2 c2 hw2 => exact withIndex_memIdx l1 (i.toNat + 1) h1 hw2
        · exact h1
      · exact h1

theorem get_memIdx (l : Log) (hmi : MemIdx l) (off : Int) : MemIdx (l.get off).1 := by
  unfold Log.get
  split
  · exact hmi
  · exact hmi
  · exact hmi
  · next i _ =>
    split
    · exact hmi
    · next l1 s its c hw =>
      have h1 : MemIdx l1 := withIndex_memIdx l i.toNat hmi hw
      split
      · split <;> exact h1
      · split
        · split
          · exact h1
          · next l2 s2 its2 c2 hw2 => exact withIndex_memIdx l1 (i.toNat - 1) h1 hw2
        · exact h1
      · exact h1

theorem nextOffset_memIdx (l : Log) (hmi : MemIdx l) : MemIdx (l.nextOffset).1 := by
  unfold Log.nextOffset
  split
  · split
    · exact hmi
    · next l1 _ _ c hw => exact withIndex_memIdx l (l.segs.length - 1) hmi hw
  · exact hmi

/-! ### GC -/

theorem gc_memIdx (l : Log) (hmi : MemIdx l) : MemIdx l.gc := by
  intro s hs
  unfold Log.gc at hs
  simp only at hs
  obtain ⟨⟨s0, k⟩, hmem, rfl⟩ := List.mem_map.mp hs
  have hs0 : s0 ∈ l.segs := by
    have := List.mem_zipIdx hmem
    exact (List.mem_iff_getElem.mpr ⟨k - 0, by omega, by simpa using this.2.2.symm⟩)
  simp only
  split
  · exact hmi s0 hs0
  · intro h; simp at h

/-! ### publish -/

theorem rollover_memIdx (l : Log) (hmi : MemIdx l) : MemIdx l.rollover := by
  unfold Log.rollover
  split
  · exact hmi
  · next h hl =>
    split
    · intro s hs
      simp only at hs
      rcases List.mem_append.mp hs with h1 | h1
      · exact hmi s (List.dropLast_subset _ h1)
      · simp only [List.mem_cons, List.not_mem_nil, or_false] at h1
        rcases h1 with rfl | rfl
        · exact hmi s (List.mem_of_getLast? hl)
        · intro _; exact openWriter_memIdx _ _ _
    · exact hmi

theorem append_memIdx (l : Log) (hmi : MemIdx l) (b : List (Int × List UInt8 × List UInt8)) :
    MemIdx (l.append b).1 := by
  unfold Log.append
  split
  · exact hmi
  · next h1 hl =>
    intro s hs
    simp only at hs
    rcases List.mem_append.mp hs with h | h
    · exact hmi s (List.dropLast_subset _ h)
    · simp only [List.mem_cons, List.not_mem_nil, or_false] at h
      subst h
      simp only [Option.isSome_map]
      exact hmi h1 (List.mem_of_getLast? hl)

theorem publish_memIdx (l : Log) (hmi : MemIdx l) (b : List (Int × List UInt8 × List UInt8)) :
    MemIdx (l.publish b).1 := by
  unfold Log.publish
  split
  · exact hmi
  · exact append_memIdx _ (rollover_memIdx l hmi) b

/-! ### delete -/

theorem rewrittenSeg_memIdx (p : Params) (rw : Rewrite) :
    (rewrittenSeg p rw).idxf.isSome = true := rfl

theorem swapReader_memIdx (l : Log) (hmi : MemIdx l) (i : Nat) (rw : Rewrite) :
    MemIdx (swapReader l i rw) := by
  unfold swapReader
  split
  · intro s hs
    simp only at hs
    rcases mem_replaceAt hs with h | h
    · exact hmi s h
    · cases h
  · intro s hs
    simp only at hs
    rcases mem_replaceAt hs with h | h
    · exact hmi s h
    · simp only [List.mem_cons, List.not_mem_nil, or_false] at h
      subst h
      intro _; exact rewrittenSeg_memIdx _ _

theorem swapHead_memIdx (l : Log) (hmi : MemIdx l) (i : Nat) (s0 : Seg) (rw : Rewrite) :
    MemIdx (swapHead l i s0 rw) := by
  unfold swapHead
  split
  · intro s hs
    simp only at hs
    rcases mem_replaceAt hs with h | h
    · exact hmi s h
    · simp only [List.mem_cons, List.not_mem_nil, or_false] at h
      subst h
      intro _; exact openWriter_memIdx _ _ _
  · split
    · intro s hs
      simp only at hs
      rcases mem_replaceAt hs with h | h
      · exact hmi s h
      · simp only [List.mem_cons, List.not_mem_nil, or_false] at h
        rcases h with rfl | rfl
        · intro _; exact rewrittenSeg_memIdx _ _
        · intro _; exact openWriter_memIdx _ _ _
    · intro s hs
      simp only at hs
      rcases mem_replaceAt hs with h | h
      · exact hmi s h
      · simp only [List.mem_cons, List.not_mem_nil, or_false] at h
        subst h
        intro _; exact openWriter_memIdx _ _ _

theorem delete_memIdx (l : Log) (hmi : MemIdx l) (offs : List Int) : MemIdx (l.delete offs).1 := by
  unfold Log.delete
  split
  · exact hmi
  · split
    · exact hmi
    · split
      · exact hmi
      · next i _ =>
        split
        · exact hmi
        · next s _ =>
          simp only []
          generalize (if l.opts.keep = true then s.ver else l.opts.nsv) = mver
          split
          · exact hmi
          · split
            · exact swapHead_memIdx l hmi _ _ _
            · exact swapReader_memIdx l hmi _ _

/-! ### open -/

theorem toSeg_memIdx (d : SegDisk) : d.toSeg.mem.isSome = true → d.toSeg.idxf.isSome = true := by
  intro h; simp [SegDisk.toSeg] at h

/-- Every open except the read-only open of an empty directory establishes the clause. -/
theorem open_memIdx (disk : List SegDisk) (oo : OpenOpts) (l : Log) (ho : Log.open disk oo = .ok l)
    (hne : disk ≠ [] ∨ oo.opts.readonly = false) : MemIdx l := by
  unfold Log.open at ho
  simp only [] at ho
  split at ho
  · next hro =>
    split at ho
    · next hl =>
      rcases hne with h | h
      · exact absurd (List.getLast?_eq_none_iff.mp hl) h
      · rw [h] at hro; cases hro
    · split at ho
      · cases ho
      · simp only [Out.ok.injEq] at ho
        subst ho
        intro s hs
        simp only [List.mem_map] at hs
        obtain ⟨d, _, rfl⟩ := hs
        exact toSeg_memIdx d
  · split at ho
    · simp only [Out.ok.injEq] at ho
      subst ho
      intro s hs
      simp only [List.mem_cons, List.not_mem_nil, or_false] at hs
      subst hs
      intro _; exact openWriter_memIdx _ _ _
    · split at ho
      · cases ho
      · split at ho
        · cases ho
        · simp only [Out.ok.injEq] at ho
          subst ho
          intro s hs
          simp only at hs
          rcases List.mem_append.mp hs with h | h
          · simp only [List.mem_map] at h
            obtain ⟨d, _, rfl⟩ := h
            exact toSeg_memIdx d
          · simp only [List.mem_cons, List.not_mem_nil, or_false] at h
            subst h
            intro _; exact openWriter_memIdx _ _ _

/-! ### steps and histories -/

theorem mapLast_ne_nil {α : Type} (f : α → α) : ∀ (l : List α), l ≠ [] → mapLast f l ≠ []
  | [], h => absurd rfl h
  | [x], _ => by simp [mapLast]
  | x :: y :: ys, _ => by simp [mapLast]

theorem closedDisk_ne_nil (l : Log) (hne : l.segs ≠ []) (rm : List Int) (mig : Option Ver)
    (rec : Bool) : closedDisk l rm mig rec ≠ [] := by
  have h0 : l.disk ≠ [] := by
    unfold Log.disk
    simpa using hne
  unfold closedDisk
  cases mig with
  | none =>
    simp only []
    split
    · apply mapLast_ne_nil; simpa using h0
    · simpa using h0
  | some v =>
    simp only []
    split
    · apply mapLast_ne_nil; simpa using h0
    · simpa using h0

theorem step_memIdx (l : Log) (hne : l.segs ≠ []) (hmi : MemIdx l) (op : Op) :
    MemIdx (stepOp l op) := by
  cases op with
  | publish b => exact publish_memIdx l hmi b
  | delete o => exact delete_memIdx l hmi o
  | consume off mc => exact consume_memIdx l hmi off mc
  | get off => exact get_memIdx l hmi off
  | gc => exact gc_memIdx l hmi
  | reopen rm mig rec oo =>
    simp only [stepOp]
    cases ho : Log.open (closedDisk l rm mig rec) oo with
    | err e => exact hmi
    | ok l' => exact open_memIdx _ oo l' ho (Or.inl (closedDisk_ne_nil l hne rm mig rec))

theorem segs_ne_nil_of_inv (l : Log) (hinv : Inv l) : l.segs ≠ [] := by
  have := segs_pos l hinv
  intro h; rw [h] at this; simp at this

theorem run_memIdx (l : Log) (hinv : Inv l) (hmi : MemIdx l) (ops : List Op) :
    MemIdx (runOps l ops) := by
  induction ops generalizing l with
  | nil => exact hmi
  | cons op rest ih =>
    simp only [runOps]
    exact ih (stepOp l op) (step_inv_abs l hinv op).1
      (step_memIdx l (segs_ne_nil_of_inv l hinv) hmi op)

/-- From a read-write open of an empty directory, every reachable state satisfies the clause
(and `Inv`). -/
theorem reach_memIdx (oo : OpenOpts) (hrw : oo.opts.readonly = false) (ops : List Op) :
    ∃ l0, Log.open [] oo = .ok l0 ∧ Inv (runOps l0 ops) ∧ MemIdx (runOps l0 ops) := by
  obtain ⟨l0, ho, hinv, _, _⟩ := open_empty oo
  exact ⟨l0, ho, (run_inv_abs l0 hinv ops).1,
    run_memIdx l0 hinv (open_memIdx [] oo l0 ho (Or.inr hrw)) ops⟩

end Klev

#print axioms Klev.openWriter_memIdx
#print axioms Klev.consume_memIdx
#print axioms Klev.get_memIdx
#print axioms Klev.nextOffset_memIdx
#print axioms Klev.gc_memIdx
#print axioms Klev.publish_memIdx
#print axioms Klev.delete_memIdx
#print axioms Klev.open_memIdx
#print axioms Klev.step_memIdx
#print axioms Klev.reach_memIdx
